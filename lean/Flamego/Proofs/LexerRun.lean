/-
  Proofs/LexerRun.lean — consequences of the lexer's state discipline, read off the derivation
  `Run`: after a regex value `/…/` the lexer is back in `BindParameter` state, where a `:` cannot
  be lexed — so `'/' Regex '/' Ident ':'` never occurs in a token list of the lexer
  (`NoColonAfterRegex`). This is what makes the `( … )+` of BindParameters iterate exactly once.
  Also the infix form of "no two adjacent Ident tokens".
-/
import Flamego.Proofs.LexerSound
namespace Flamego
namespace RouteGrammar
open Gen

/-- table facts used here (all decidable, all true of `docRules` by evaluation) -/
def RegexTableOK (rules : LexRules) : Prop :=
  (∀ p ∈ rules, ∀ r ∈ p.2, r.name = "Regex" → p.1 = "BindParameterRegexValue" ∧ r.action = .none) ∧
  (∀ p ∈ rules, ∀ r ∈ p.2, r.action = .push "BindParameterRegexValue" → p.1 = "BindParameter") ∧
  (∀ r ∈ rulesOf rules "BindParameter", (58 : UInt8) ∉ r.bytes) ∧
  (∀ r ∈ rulesOf rules "BindParameterRegexValue", r.name ≠ "Regex" → r.action = .pop)

instance (rules : LexRules) : Decidable (RegexTableOK rules) := by unfold RegexTableOK; infer_instance

theorem docRules_regex_ok : RegexTableOK docRules := by decide

/-- every `BindParameterRegexValue` on the stack sits directly on a `BindParameter` -/
def RegexOnParam : List String → Prop
  | a :: b :: rest => (a = "BindParameterRegexValue" → b = "BindParameter") ∧ RegexOnParam (b :: rest)
  | [a] => a ≠ "BindParameterRegexValue"
  | [] => True

theorem regexOnParam_root : RegexOnParam ["Root"] := by
  show "Root" ≠ "BindParameterRegexValue"; decide

theorem regexOnParam_tail {a : String} {st : List String} (h : RegexOnParam (a :: st)) : RegexOnParam st := by
  cases st with
  | nil => trivial
  | cons b rest => exact h.2

/-- `'/' Regex '/' Ident ':'` does not occur -/
def NoColonAfterRegex (ts : List Token) : Prop :=
  ∀ pre r e i c post, ts = pre ++ r :: e :: i :: c :: post → r.name = "Regex" → i.name = "Ident" → c.val ≠ [58]

theorem run_regex {rules : LexRules} (hok : TableOK rules) (hrx : RegexTableOK rules) :
    ∀ (ts : List Token) (st : List String), Run rules st ts → RegexOnParam st →
      NoColonAfterRegex ts ∧
      (∀ stk i c post, st = "BindParameter" :: stk → ts = i :: c :: post → i.name = "Ident" → c.val ≠ [58]) ∧
      (∀ stk e i c post, st = "BindParameterRegexValue" :: "BindParameter" :: stk → ts = e :: i :: c :: post →
        e.name ≠ "Regex" → i.name = "Ident" → c.val ≠ [58]) := by
  obtain ⟨hx1, hx2, hx4, hx5⟩ := hrx
  intro ts
  induction ts with
  | nil =>
    intro st _ _
    refine ⟨?_, ?_, ?_⟩
    · intro pre r e i c post h; simp at h
    · intro stk i c post _ h; cases h
    · intro stk e i c post _ h; cases h
  | cons t ts ih =>
    intro st hrun hinv
    obtain ⟨top, stk, r, hst, hmem, hname, ⟨c0, cs0, hval, hc0⟩, hgreedy, hrun'⟩ := hrun
    subst hst
    obtain ⟨p, hp, hrp, hp1⟩ := rulesOf_mem hmem
    obtain ⟨_, hid, hre⟩ := hok p hp r hrp
    -- the invariant survives the action
    have hinv' : RegexOnParam (applyAction r.action (top :: stk)) := by
      cases hact : r.action with
      | none => exact hinv
      | pop => exact regexOnParam_tail hinv
      | push S =>
        refine ⟨?_, hinv⟩
        intro hS
        subst hS
        have := hx2 p hp r hrp hact
        rw [hp1] at this; exact this
    obtain ⟨ihR, ihC1, ihC2⟩ := ih _ hrun' hinv'
    have C1 : ∀ stk' i c post, top :: stk = "BindParameter" :: stk' → t :: ts = i :: c :: post →
        i.name = "Ident" → c.val ≠ [58] := by
      intro stk' i c post hst' heq hi hc
      cases heq
      cases hst'
      have hact : r.action = .none := (hid (hname ▸ hi)).2.2
      rw [hact] at hrun'
      obtain ⟨top2, stk2, r2, hst2, hmem2, _, ⟨c2, cs2, hval2, hc2⟩, _, _⟩ := hrun'
      simp only [applyAction] at hst2
      cases hst2
      rw [hc] at hval2; cases hval2
      exact hx4 r2 hmem2 hc2
    have C2 : ∀ stk' e i c post, top :: stk = "BindParameterRegexValue" :: "BindParameter" :: stk' →
        t :: ts = e :: i :: c :: post → e.name ≠ "Regex" → i.name = "Ident" → c.val ≠ [58] := by
      intro stk' e i c post hst' heq hne hi
      cases heq
      cases hst'
      have hact : r.action = .pop := hx5 r hmem (hname ▸ hne)
      exact ihC1 stk' i c post (by simp [hact, applyAction]) rfl hi
    refine ⟨?_, C1, C2⟩
    intro pre r0 e i c post heq hr0 hi
    cases pre with
    | cons x pre' =>
      simp only [List.cons_append, List.cons.injEq] at heq
      exact ihR pre' r0 e i c post heq.2 hr0 hi
    | nil =>
      simp only [List.nil_append, List.cons.injEq] at heq
      obtain ⟨rfl, rfl⟩ := heq
      have hrn : r.name = "Regex" := hname ▸ hr0
      obtain ⟨htop, hact⟩ := hx1 p hp r hrp hrn
      rw [hp1] at htop
      obtain ⟨hbytes, hplus⟩ := hre hrn
      subst htop
      -- the stack: BindParameterRegexValue on BindParameter
      have hstk : ∃ stk', stk = "BindParameter" :: stk' := by
        cases stk with
        | nil => exact absurd rfl hinv
        | cons b rest => exact ⟨rest, by rw [hinv.1 rfl]⟩
      obtain ⟨stk', rfl⟩ := hstk
      -- the Regex rule is greedy, so the next token is not a Regex
      have hne : e.name ≠ "Regex" := by
        intro hen
        obtain ⟨top2, stk2, r2, _, hmem2, hname2, ⟨c2, cs2, hval2, hc2⟩, _, _⟩ := hrun'
        obtain ⟨p2, hp2, hrp2, _⟩ := rulesOf_mem hmem2
        have hb2 := ((hok p2 hp2 r2 hrp2).2.2 (hname2 ▸ hen)).1
        exact hgreedy hplus e _ c2 cs2 rfl hval2 (by rw [hbytes, ← hb2]; exact hc2)
      rw [hact] at ihC2
      exact ihC2 stk' e i c post rfl rfl hne hi

/-- the infix form of "no two adjacent Ident tokens" -/
def NoAdjIdentInfix (ts : List Token) : Prop :=
  ∀ pre a b post, ts = pre ++ a :: b :: post → a.name = "Ident" → b.name ≠ "Ident"

theorem noAdjIdentInfix_of {ts : List Token} (h : NoAdjIdentTok ts) : NoAdjIdentInfix ts := by
  induction ts with
  | nil => intro pre a b post he; simp at he
  | cons t ts ih =>
    intro pre a b post he ha hb
    cases pre with
    | nil =>
      simp only [List.nil_append, List.cons.injEq] at he
      obtain ⟨rfl, rfl⟩ := he
      exact h.1 ⟨ha, hb⟩
    | cons x pre' =>
      simp only [List.cons_append, List.cons.injEq] at he
      have h' : NoAdjIdentTok ts := by
        cases ts with
        | nil => trivial
        | cons y ys => exact h.2
      exact ih h' pre' a b post he.2 ha hb

/-- everything `parse_sound` needs to know about a token list the route lexer produced -/
structure LexedOK (s : Bytes) (ts : List Token) : Prop where
  vals_eq : vals ts = s
  tok_ok : ∀ t ∈ ts, TokOK t
  no_adj : NoAdjIdentInfix ts
  no_colon : NoColonAfterRegex ts

theorem lexedOK_of_lex {s : Bytes} {ts : List Token} (h : lexFrom docRules ["Root"] s = .ok ts) :
    LexedOK s ts := by
  obtain ⟨hv, htok, hadj, _⟩ := lexFrom_sound docRules_ok s.length _ s ts (Nat.le_refl _) h
  obtain ⟨hrun, _⟩ := lexFrom_run docRules_ok s.length _ s ts (Nat.le_refl _) h
  exact ⟨hv, htok, noAdjIdentInfix_of hadj,
    (run_regex docRules_ok docRules_regex_ok ts _ hrun regexOnParam_root).1⟩

end RouteGrammar
end Flamego
