/-
  Proofs/ParsedOfWF.lean — what the parser produces (`RouteGrammar.WF`, by `parse_sound`) is in the
  segment class `ParsedSeg` on which `Segment.render` is injective (Proofs/TreeAdd.lean).
  Hence the dispatch theorems apply to every route that came out of `parse`.
-/
import Flamego.Proofs.TreeAdd
import Flamego.Props.C06
namespace Flamego
open RouteGrammar

theorem identByte_not_special : ∀ c ∈ identBytes, specialByte c = false := by decide

theorem regexByte_not_slash : ∀ c ∈ regexBytes, (c != 47) = true := by decide

theorem cleanText_of_identText {s : Bytes} (h : IdentText s) : cleanText s = true := by
  obtain ⟨hne, hall⟩ := h
  simp only [cleanText, Bool.and_eq_true, Bool.not_eq_true', List.isEmpty_eq_false_iff, List.all_eq_true]
  exact ⟨hne, fun c hc => identByte_not_special c (hall c hc)⟩

theorem parsedVal_of_wf {v : BindVal} (h : WFVal v) : parsedVal v = true := by
  cases v with
  | lit s => exact cleanText_of_identText h
  | re s =>
    simp only [parsedVal, List.all_eq_true]
    exact fun c hc => regexByte_not_slash c (h.2 c hc)

theorem parsedElem_of_wf {e : Elem} (h : WFElem e) : parsedElem e = true := by
  cases e with
  | ident s => exact cleanText_of_identText h
  | bind n => exact cleanText_of_identText h
  | params ps =>
    obtain ⟨hne, hall⟩ := h
    simp only [parsedElem, Bool.and_eq_true, Bool.not_eq_true', List.isEmpty_eq_false_iff, List.all_eq_true]
    refine ⟨hne, fun p hp => ?_⟩
    have := hall p hp
    simp only [parsedParam, Bool.and_eq_true]
    exact ⟨cleanText_of_identText this.1, parsedVal_of_wf this.2⟩

theorem parsedIsIdent_eq (e : Elem) : parsedIsIdent e = isIdentElem e := by cases e <;> rfl

theorem parsedNoAdj_eq : ∀ l : List Elem, parsedNoAdj l = noAdjIdent l
  | [] => rfl
  | [_] => rfl
  | a :: b :: rest => by
    simp only [parsedNoAdj, noAdjIdent, parsedIsIdent_eq, parsedNoAdj_eq (b :: rest)]

theorem parsedSeg_of_wfSeg {s : Segment} (h : WFSeg s) : ParsedSeg s = true := by
  obtain ⟨h1, h2⟩ := h
  simp only [ParsedSeg, Bool.and_eq_true, List.all_eq_true]
  exact ⟨fun e he => parsedElem_of_wf (h1 e he), by rw [parsedNoAdj_eq]; exact h2⟩

/-- every segment of a route returned by the (model) parser is a `ParsedSeg` -/
theorem parsedSeg_of_parse {text : Bytes} {r : Route} (h : parse text = some r) :
    ∀ s ∈ r.segs, ParsedSeg s = true := by
  intro s hs
  exact parsedSeg_of_wfSeg ((parse_sound text r h).1.2 s hs)

end Flamego
