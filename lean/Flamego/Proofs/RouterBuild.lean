/-
  Proofs/RouterBuild.lean — every method tree of a router reachable by registrations, Headers() and
  Name() calls is the tree `build E h` of some sub-history `h` of the registrations: the tree-level
  theorems of C01/C02/C08/C09 therefore apply to `Router.serve` itself.
-/
import Flamego.Proofs.Shortcut
namespace Flamego

/-- appending one registration to a history -/
theorem build_snoc (E : Engine) (h : List (Route × Nat)) (r : Route) (hid : Nat) :
    build E (h ++ [(r, hid)]) =
      match addRoute E (build E h) r hid with
      | .ok t' => t'
      | .error _ => build E h := by
  unfold build
  rw [buildFrom_eq_foldl, buildFrom_eq_foldl, List.foldl_append]
  rfl

/-- every method tree is `build E h` for a list `h` of registrations drawn from `used` -/
def TreesBuilt (E : Engine) (used : List (Nat × Route)) (R : Router) : Prop :=
  ∀ m t, assocGet R.trees m = some t → ∃ h : List (Route × Nat), t = build E h ∧ ∀ rh ∈ h, (rh.2, rh.1) ∈ used

theorem TreesBuilt.mono {E : Engine} {used used' : List (Nat × Route)} {R : Router}
    (h : TreesBuilt E used R) (hs : ∀ x ∈ used, x ∈ used') : TreesBuilt E used' R := by
  intro m t ht
  obtain ⟨hh, h1, h2⟩ := h m t ht
  exact ⟨hh, h1, fun rh hrh => hs _ (h2 rh hrh)⟩

theorem treesBuilt_new (E : Engine) : TreesBuilt E [] Router.new := by
  intro m t ht
  refine ⟨[], ?_, by simp⟩
  -- every tree of `Router.new` is `Node.root`
  have : ∀ (l : List String) (m : String) (t : Node),
      assocGet (l.map fun m => (m, Node.root)) m = some t → t = Node.root := by
    intro l
    induction l with
    | nil => intro m t h; simp [assocGet] at h
    | cons x xs ih =>
      intro m t h
      simp only [List.map_cons, assocGet, List.find?] at h
      by_cases hx : (x == m) = true
      · simp [hx] at h; exact h.symm
      · simp only [hx] at h
        exact ih m t (by simpa [assocGet] using h)
  have := this Gen.httpMethods m t (by simpa [Router.new] using ht)
  rw [this]; rfl

/-- the loop of `addMethods` keeps `TreesBuilt` -/
theorem addMethods_built (E : Engine) (used : List (Nat × Route)) (hid : Nat) (r : Route)
    (hu : (hid, r) ∈ used) :
    ∀ (ms : List String) (R : Router) (acc : List (String × Leaf)),
      TreesBuilt E used R → TreesBuilt E used (R.addMethods E hid r ms acc).1 := by
  intro ms
  induction ms with
  | nil =>
    intro R acc hR
    simp only [Router.addMethods]
    intro m t ht
    exact hR m t ht
  | cons m ms ih =>
    intro R acc hR
    rw [Router.addMethods]
    cases ht : assocGet R.trees m with
    | none => simpa using hR
    | some t =>
      simp only []
      cases ha : addRoute E t r hid with
      | error e => simpa using hR
      | ok t' =>
        simp only []
        cases hf : findLongLeaf hid t' with
        | none => simpa using hR
        | some leaf =>
          simp only []
          apply ih
          -- the router after this method: only the tree of `m` changed, to `t'`
          have key : ∀ (st : List ((String × Bytes) × Leaf)),
              TreesBuilt E used { R with trees := assocSet R.trees m t', statics := st } := by
            intro st m2 t2 h2
            simp only at h2
            by_cases hm : m2 = m
            · subst hm
              rw [assocGet_assocSet_same] at h2
              injection h2 with h2
              subst h2
              obtain ⟨hh, h1, h2'⟩ := hR m2 t ht
              refine ⟨hh ++ [(r, hid)], ?_, ?_⟩
              · rw [build_snoc, ← h1, ha]
              · intro rh hrh
                rcases List.mem_append.mp hrh with hrh | hrh
                · exact h2' rh hrh
                · simp at hrh; subst hrh; exact hu
            · rw [assocGet_assocSet_other _ _ _ _ hm] at h2
              exact hR m2 t2 h2
          split
          · exact key _
          · exact key _

theorem apply_built (E : Engine) (used : List (Nat × Route)) (R : Router) (op : RouterOp)
    (hop : ∀ hid r ms, op = .add hid r ms → (hid, r) ∈ used) (hR : TreesBuilt E used R) :
    TreesBuilt E used (R.apply E op) := by
  cases op with
  | add hid r ms => exact addMethods_built E used hid r (hop hid r ms rfl) ms R [] hR
  | headers hid pairs =>
    intro m t ht
    have : (R.setHeaders hid pairs).trees = R.trees := by
      unfold Router.setHeaders; split <;> rfl
    exact hR m t (by rw [← this]; exact ht)
  | name hid nm =>
    intro m t ht
    have : ((R.setName hid nm).getD R).trees = R.trees := by
      unfold Router.setName
      split
      · rfl
      · split
        · rfl
        · split <;> rfl
    exact hR m t (by rw [← this]; exact ht)

theorem addPairs_mem_of_add : ∀ (ops : List RouterOp) (hid : Nat) (r : Route) (ms : List String),
    RouterOp.add hid r ms ∈ ops → (hid, r) ∈ addPairs ops
  | [], _, _, _, h => by cases h
  | op :: ops, hid, r, ms, h => by
    rcases List.mem_cons.mp h with h | h
    · subst h; simp [addPairs]
    · have := addPairs_mem_of_add ops hid r ms h
      cases op <;> simp [addPairs, this]

theorem runFrom_built (E : Engine) (used : List (Nat × Route)) :
    ∀ (ops : List RouterOp) (R : Router), (∀ hid r ms, RouterOp.add hid r ms ∈ ops → (hid, r) ∈ used) →
      TreesBuilt E used R → TreesBuilt E used (Router.runFrom E R ops)
  | [], R, _, hR => hR
  | op :: ops, R, hops, hR => by
    simp only [Router.runFrom, List.foldl_cons]
    exact runFrom_built E used ops (R.apply E op) (fun hid r ms h => hops hid r ms (by simp [h]))
      (apply_built E used R op (fun hid r ms h => hops hid r ms (by simp [h])) hR)

/-- **every reachable method tree is a built tree** over registrations of the history -/
theorem run_trees_built (E : Engine) (ops : List RouterOp) (m : String) (t : Node)
    (ht : assocGet (Router.run E ops).trees m = some t) :
    ∃ h : List (Route × Nat), t = build E h ∧ ∀ rh ∈ h, (rh.2, rh.1) ∈ addPairs ops :=
  runFrom_built E (addPairs ops) ops Router.new (fun hid r ms h => addPairs_mem_of_add ops hid r ms h)
    ((treesBuilt_new E).mono (by simp)) m t ht

end Flamego
