/-
  Proofs/TreeMatch.lean — the executable matcher of `Model/Tree.lean` against the
  specification of `Spec/Dispatch.lean`.

  * `matchNext_leaf_eq_head` : under `TreeInv` the leaf the matcher returns is the FIRST element
                               of the priority-ordered enumeration `derivs` (params ignored).
  * `mem_derivs_iff_reach`   : `derivs` enumerates exactly the walks `Reach` (no invariant).
  * `reach_iff_admits`       : a walk exists iff some stored form admits the segments
                               (`reach_form` / `form_reach` relate the leaf and the form).
  * `matchNext_some_iff`, `matchNext_sound` : the corollaries.
-/
import Flamego.Spec.Dispatch
namespace Flamego

/-! ### one pattern, one segment: the params never decide -/

theorem treeMatch_isSome (E : Engine) (p : Pat) (s : Seg) (ps : Params) :
    (treeMatch E p s ps).isSome = p.acceptsTree E s := by
  cases p with
  | static lit =>
    simp only [treeMatch, Pat.acceptsTree]
    by_cases h : lit = s <;> simp [h]
  | hole b => simp [treeMatch, Pat.acceptsTree]
  | all b c => simp [treeMatch, Pat.acceptsTree]
  | regex pattern binds =>
    simp only [treeMatch, Pat.acceptsTree]
    cases hf : E.find pattern s with
    | none => simp
    | some subm =>
      simp only
      by_cases h : subm.length = binds.length + 1 <;> simp [h]

theorem treeMatch_none_iff (E : Engine) (p : Pat) (s : Seg) (ps : Params) :
    treeMatch E p s ps = none ↔ p.acceptsTree E s = false := by
  rw [← treeMatch_isSome E p s ps]
  cases treeMatch E p s ps <;> simp

theorem treeMatch_some_accepts {E : Engine} {p : Pat} {s : Seg} {ps ps1 : Params}
    (h : treeMatch E p s ps = some ps1) : p.acceptsTree E s = true := by
  rw [← treeMatch_isSome E p s ps, h]; rfl

theorem leafMatch_isSome (E : Engine) (hok : Nat → Bool) (l : Leaf) (s : Seg) (ps : Params) :
    (leafMatch E hok l s ps).isSome = (l.pat.acceptsLeaf E s && hok l.hid) := by
  unfold leafMatch
  cases hp : l.pat with
  | static lit =>
    simp only [Pat.acceptsLeaf]
    by_cases h : lit = s <;> cases hh : hok l.hid <;> simp [h]
  | hole b =>
    simp only [Pat.acceptsLeaf]
    cases hh : hok l.hid <;> simp
  | all b c =>
    simp only [Pat.acceptsLeaf]
    cases hh : hok l.hid <;> simp
  | regex pattern binds =>
    simp only [Pat.acceptsLeaf]
    cases hf : E.find pattern s with
    | none => simp
    | some subm =>
      simp only
      by_cases h : subm.length < binds.length + 1
      · have h' : ¬ (binds.length + 1 ≤ subm.length) := by omega
        simp [h, h']
      · have h' : binds.length + 1 ≤ subm.length := by omega
        cases hh : hok l.hid <;> simp [h, h']

/-! ### the leaves of one node -/

theorem matchLeaves_fst (E : Engine) (hok : Nat → Bool) (leaves : List Leaf) (s : Seg) (ps : Params) :
    (matchLeaves E hok leaves s ps).1 = (leafDerivs E hok leaves s).head? := by
  induction leaves with
  | nil => simp [matchLeaves, leafDerivs]
  | cons l ls ih =>
    have hm := leafMatch_isSome E hok l s ps
    simp only [matchLeaves, leafDerivs, List.filter_cons]
    cases h : leafMatch E hok l s ps with
    | some ps' =>
      rw [h] at hm
      simp only [Option.isSome_some] at hm
      simp [← hm]
    | none =>
      rw [h] at hm
      simp only [Option.isSome_none] at hm
      simp only [← hm]
      simpa [leafDerivs] using ih

/-- the test `allLeafDerivs` applies to a leaf -/
def allLeafOK (hok : Nat → Bool) (n : Nat) (l : Leaf) : Bool :=
  match l.pat with
  | .all _ cap => capOK cap n && hok l.hid
  | _ => false

theorem allLeafDerivs_eq (hok : Nat → Bool) (leaves : List Leaf) (n : Nat) :
    allLeafDerivs hok leaves n = leaves.filter (allLeafOK hok n) := rfl

theorem allLeafOK_isAll {hok : Nat → Bool} {n : Nat} {l : Leaf} (h : allLeafOK hok n l = true) :
    l.pat.isAll = true := by
  unfold allLeafOK at h
  cases hp : l.pat <;> rw [hp] at h <;> simp_all [Pat.isAll]

/-- what `matchAllLeaf` returns, as a function of the last leaf only -/
theorem matchAllLeaf_fst (hok : Nat → Bool) (leaves : List Leaf) (s : Seg) (rest : List Seg) (ps : Params) :
    (matchAllLeaf hok leaves s rest ps).1 =
      (match leaves.getLast? with
       | some l => if allLeafOK hok (rest.length + 1) l then some l else none
       | none => none) := by
  unfold matchAllLeaf
  cases hl : leaves.getLast? with
  | none => rfl
  | some l =>
    obtain ⟨key, pat, hid, route, long, st⟩ := l
    simp only [allLeafOK]
    cases pat with
    | static _ => simp
    | hole _ => simp
    | regex _ _ => simp
    | all b cap =>
      simp only [capOK, Int.natCast_add, Int.cast_ofNat_Int]
      by_cases hh : hok hid = true
      · by_cases h1 : cap ≤ 0
        · have h0 : ¬ (cap > 0) := by omega
          simp [h1, h0, hh]
        · have h0 : cap > 0 := by omega
          by_cases h2 : cap < (rest.length + 1 : Int)
          · have h3 : ¬ ((rest.length : Int) + 1 ≤ cap) := by omega
            simp [h1, h0, h2, h3]
          · have h3 : (rest.length : Int) + 1 ≤ cap := by omega
            simp [h1, h0, h2, h3, hh]
      · simp only [Bool.not_eq_true] at hh
        by_cases h2 : (decide (cap > 0) && decide (cap < (rest.length : Int) + 1)) = true
        · simp [h2, hh]
        · simp [h2, hh]

/-- in a list whose only possible match-all is the last element, the first hit of a test that
    only match-alls pass is decided by the last element -/
theorem head?_filter_of_oneAll {α} (pat : α → Pat) (q : α → Bool)
    (hq : ∀ a, q a = true → (pat a).isAll = true) (l : List α)
    (h : l.Pairwise (fun a _ => (pat a).isAll = false)) :
    (l.filter q).head? =
      (match l.getLast? with
       | some a => if q a then some a else none
       | none => none) := by
  induction l with
  | nil => rfl
  | cons a t ih =>
    cases t with
    | nil =>
      by_cases hqa : q a = true <;> simp [hqa]
    | cons b t' =>
      rw [List.pairwise_cons] at h
      have hna : (pat a).isAll = false := h.1 b (List.mem_cons_self ..)
      have hqa : q a = false := by
        cases hqa : q a with
        | false => rfl
        | true => rw [hq a hqa] at hna; cases hna
      rw [List.filter_cons, hqa, List.getLast?_cons_cons]
      exact ih h.2

theorem matchAllLeaf_fst_head (hok : Nat → Bool) (leaves : List Leaf) (s : Seg) (rest : List Seg)
    (ps : Params) (h : leaves.Pairwise (fun a _ => a.pat.isAll = false)) :
    (matchAllLeaf hok leaves s rest ps).1 = (allLeafDerivs hok leaves (rest.length + 1)).head? := by
  rw [matchAllLeaf_fst, allLeafDerivs_eq,
    head?_filter_of_oneAll Leaf.pat (allLeafOK hok (rest.length + 1)) (fun _ => allLeafOK_isAll) leaves h]
  cases leaves.getLast? <;> rfl

theorem matchAllLeaf_fst_mem {hok : Nat → Bool} {leaves : List Leaf} {s : Seg} {rest : List Seg}
    {ps : Params} {l : Leaf} (h : (matchAllLeaf hok leaves s rest ps).1 = some l) :
    l ∈ allLeafDerivs hok leaves (rest.length + 1) := by
  rw [matchAllLeaf_fst] at h
  cases hl : leaves.getLast? with
  | none => rw [hl] at h; cases h
  | some l' =>
    rw [hl] at h
    by_cases hq : allLeafOK hok (rest.length + 1) l' = true
    · simp only [hq, if_true, Option.some.injEq] at h
      subst h
      rw [allLeafDerivs_eq, List.mem_filter]
      exact ⟨List.mem_of_getLast? hl, hq⟩
    · simp [hq] at h

theorem matchAllLeaf_fst_mem' {hok : Nat → Bool} {leaves : List Leaf} {s s' : Seg} {rest' : List Seg}
    {ps : Params} {l : Leaf} (h : (matchAllLeaf hok leaves s (s' :: rest') ps).1 = some l) :
    l ∈ allLeafDerivs hok leaves (rest'.length + 2) :=
  matchAllLeaf_fst_mem (rest := s' :: rest') h

/-! ### consequences of the invariant -/

theorem TreeInv.subsInv {subs : List Node} {leaves : List Leaf} (h : TreeInv subs leaves) :
    ListInv Node.pat Node.key subs := by cases h; assumption

theorem TreeInv.leavesInv {subs : List Node} {leaves : List Leaf} (h : TreeInv subs leaves) :
    ListInv Leaf.pat Leaf.key leaves := by cases h; assumption

theorem TreeInv.child {subs : List Node} {leaves : List Leaf} (h : TreeInv subs leaves)
    {k : Bytes} {p : Pat} {cs : List Node} {cl : List Leaf} (hn : Node.mk k p cs cl ∈ subs) :
    TreeInv cs cl := by
  cases h with
  | mk _ _ _ _ hc => exact hc k p cs cl hn

theorem TreeInv.tail {n : Node} {more : List Node} {leaves : List Leaf}
    (h : TreeInv (n :: more) leaves) : TreeInv more leaves := by
  cases h with
  | mk _ _ hs hl hc =>
    refine TreeInv.mk more leaves ⟨?_, ?_, ?_⟩ hl (fun k p cs cl hn => hc k p cs cl (List.mem_cons_of_mem _ hn))
    · exact (List.pairwise_cons.mp hs.sorted).2
    · exact (List.pairwise_cons.mp hs.oneAll).2
    · exact (List.pairwise_cons.mp hs.keys).2

/-- a match-all child is the last child: nothing is lost by the `break` -/
theorem TreeInv.all_last {k b : Bytes} {cap : Int} {cs : List Node} {cl : List Leaf}
    {more : List Node} {leaves : List Leaf}
    (h : TreeInv (Node.mk k (.all b cap) cs cl :: more) leaves) : more = [] := by
  have h1 := (List.pairwise_cons.mp h.subsInv.oneAll).1
  cases more with
  | nil => rfl
  | cons m ms =>
    have := h1 m (List.mem_cons_self ..)
    simp [Node.pat, Pat.isAll] at this

/-! ### unfolding the mutual definitions one step -/

theorem matchSubs_cons_notAll (E : Engine) (hok : Nat → Bool) (k : Bytes) (p : Pat) (cs : List Node)
    (cl : List Leaf) (more : List Node) (leaves : List Leaf) (s s' : Seg) (rest' : List Seg) (ps : Params)
    (hna : p.isAll = false) :
    matchSubs E hok (Node.mk k p cs cl :: more) leaves s s' rest' ps =
      (match treeMatch E p s ps with
       | none => matchSubs E hok more leaves s s' rest' ps
       | some ps1 =>
         match matchNext E hok cs cl s' rest' ps1 with
         | (some l, ps2) => (some l, ps2)
         | (none, ps2) => matchSubs E hok more leaves s s' rest' ps2) := by
  cases p with
  | all b c => cases hna
  | static _ => rw [matchSubs] <;> first | rfl | (intro _ _ h; cases h)
  | hole _ => rw [matchSubs] <;> first | rfl | (intro _ _ h; cases h)
  | regex _ _ => rw [matchSubs] <;> first | rfl | (intro _ _ h; cases h)

theorem derivsSubs_cons_notAll (E : Engine) (hok : Nat → Bool) (k : Bytes) (p : Pat) (cs : List Node)
    (cl : List Leaf) (more : List Node) (s s' : Seg) (rest' : List Seg) (hna : p.isAll = false) :
    derivsSubs E hok (Node.mk k p cs cl :: more) s s' rest' =
      (if p.acceptsTree E s then derivs E hok cs cl s' rest' else []) ++ derivsSubs E hok more s s' rest' := by
  cases p with
  | all b c => cases hna
  | static _ => rw [derivsSubs] <;> first | rfl | (intro _ _ h; cases h)
  | hole _ => rw [derivsSubs] <;> first | rfl | (intro _ _ h; cases h)
  | regex _ _ => rw [derivsSubs] <;> first | rfl | (intro _ _ h; cases h)

theorem derivsSubs_cons_all (E : Engine) (hok : Nat → Bool) (k b : Bytes) (cap : Int) (cs : List Node)
    (cl : List Leaf) (more : List Node) (s s' : Seg) (rest' : List Seg) :
    derivsSubs E hok (Node.mk k (.all b cap) cs cl :: more) s s' rest' =
      derivsAll E hok cs cl cap 1 s' rest' ++ derivsSubs E hok more s s' rest' := by
  rw [derivsSubs]

theorem derivsAll_step (E : Engine) (hok : Nat → Bool) (cs : List Node) (cl : List Leaf) (cap : Int)
    (captured : Nat) (s' : Seg) (rest' : List Seg) :
    derivsAll E hok cs cl cap captured s' rest' =
      if capOK cap captured then
        derivs E hok cs cl s' rest' ++
          (match rest' with
           | [] => []
           | s'' :: rest'' => derivsAll E hok cs cl cap (captured + 1) s'' rest'')
      else [] := by
  rw [derivsAll.eq_def]
  rfl

theorem matchAllLoop_step (E : Engine) (hok : Nat → Bool) (csubs : List Node) (cleaves : List Leaf)
    (b : Bytes) (cap : Int) (captured : Nat) (acc : Seg) (s' : Seg) (rest' : List Seg) (ps : Params) :
    matchAllLoop E hok csubs cleaves b cap captured acc s' rest' ps =
      if capOK cap captured then
        match matchNext E hok csubs cleaves s' rest' ps with
        | (some l, ps') => (some l, ps'.set b acc)
        | (none, ps') =>
          match rest' with
          | [] => (none, ps')
          | s'' :: rest'' =>
            matchAllLoop E hok csubs cleaves b cap (captured + 1) (acc ++ slash :: s') s'' rest'' ps'
      else (none, ps) := by
  rw [matchAllLoop.eq_def]
  rfl

theorem head?_eq_none {α} {l : List α} (h : none = l.head?) : l = [] := by
  cases l with
  | nil => rfl
  | cons a t => cases h

/-! ### the matcher returns the head of the enumeration -/

/-- the three statements, by the functional induction principle of the matcher -/
theorem match_fst_eq_head (E : Engine) (hok : Nat → Bool) :
    (∀ subs leaves s rest ps, TreeInv subs leaves →
        (matchNext E hok subs leaves s rest ps).1 = (derivs E hok subs leaves s rest).head?) ∧
    (∀ subs leaves s s' rest' ps, TreeInv subs leaves →
        (matchSubs E hok subs leaves s s' rest' ps).1 =
          (derivsSubs E hok subs s s' rest' ++ allLeafDerivs hok leaves (rest'.length + 2)).head?) ∧
    (∀ csubs cleaves b cap captured acc s' rest' ps, TreeInv csubs cleaves →
        (matchAllLoop E hok csubs cleaves b cap captured acc s' rest' ps).1 =
          (derivsAll E hok csubs cleaves cap captured s' rest').head?) := by
  refine matchNext.mutual_induct E hok
    (motive1 := fun subs leaves s rest ps => TreeInv subs leaves →
        (matchNext E hok subs leaves s rest ps).1 = (derivs E hok subs leaves s rest).head?)
    (motive2 := fun subs leaves s s' rest' ps => TreeInv subs leaves →
        (matchSubs E hok subs leaves s s' rest' ps).1 =
          (derivsSubs E hok subs s s' rest' ++ allLeafDerivs hok leaves (rest'.length + 2)).head?)
    (motive3 := fun csubs cleaves b cap captured acc s' rest' ps => TreeInv csubs cleaves →
        (matchAllLoop E hok csubs cleaves b cap captured acc s' rest' ps).1 =
          (derivsAll E hok csubs cleaves cap captured s' rest').head?)
    ?_ ?_ ?_ ?_ ?_ ?_ ?_ ?_ ?_ ?_ ?_ ?_
  · -- matchNext, last segment
    intro subs leaves s ps _
    rw [matchNext, derivs]
    exact matchLeaves_fst E hok leaves s ps
  · -- matchNext, more segments
    intro subs leaves s ps s' rest' ih hinv
    rw [matchNext, derivs]
    exact ih hinv
  · -- matchSubs, no child left: the fall-back
    intro leaves s s' rest' ps hinv
    rw [matchSubs, derivsSubs, List.nil_append]
    exact matchAllLeaf_fst_head hok leaves s (s' :: rest') ps hinv.leavesInv.oneAll
  · -- match-all child, found below it
    intro leaves s s' rest' ps key csubs cleaves more b cap l ps' hm ih hinv
    have h3 := ih (hinv.child (List.mem_cons_self ..))
    rw [hm] at h3
    rw [matchSubs, derivsSubs_cons_all, hm, List.append_assoc, List.head?_append, ← h3]
    rfl
  · -- match-all child, nothing below it: `break`, the fall-back
    intro leaves s s' rest' ps key csubs cleaves more b cap ps' hm ih hinv
    have h3 := ih (hinv.child (List.mem_cons_self ..))
    rw [hm] at h3
    have hmore := hinv.all_last
    subst hmore
    rw [matchSubs, derivsSubs_cons_all, hm, head?_eq_none h3, derivsSubs, List.nil_append, List.nil_append]
    exact matchAllLeaf_fst_head hok leaves s (s' :: rest') ps' hinv.leavesInv.oneAll
  · -- other child, does not accept `s`
    intro leaves s s' rest' ps key cpat csubs cleaves more hm hna ih hinv
    have hna' : cpat.isAll = false := by
      cases cpat with
      | all b c => exact (hna b c rfl).elim
      | _ => rfl
    rw [matchSubs_cons_notAll _ _ _ _ _ _ _ _ _ _ _ _ hna', derivsSubs_cons_notAll _ _ _ _ _ _ _ _ _ _ hna',
      hm, (treeMatch_none_iff E cpat s ps).mp hm]
    simpa using ih hinv.tail
  · -- other child accepts `s`, found below it
    intro leaves s s' rest' ps key cpat csubs cleaves more ps1 hm l ps' hn hna ih hinv
    have hna' : cpat.isAll = false := by
      cases cpat with
      | all b c => exact (hna b c rfl).elim
      | _ => rfl
    have h1 := ih (hinv.child (List.mem_cons_self ..))
    rw [hn] at h1
    rw [matchSubs_cons_notAll _ _ _ _ _ _ _ _ _ _ _ _ hna', derivsSubs_cons_notAll _ _ _ _ _ _ _ _ _ _ hna',
      hm, treeMatch_some_accepts hm]
    simp only [hn, if_true]
    rw [List.append_assoc, List.head?_append, ← h1]
    rfl
  · -- other child accepts `s`, nothing below it
    intro leaves s s' rest' ps key cpat csubs cleaves more ps1 hm ps' hn hna ih1 ih2 hinv
    have hna' : cpat.isAll = false := by
      cases cpat with
      | all b c => exact (hna b c rfl).elim
      | _ => rfl
    have h1 := ih1 (hinv.child (List.mem_cons_self ..))
    rw [hn] at h1
    rw [matchSubs_cons_notAll _ _ _ _ _ _ _ _ _ _ _ _ hna', derivsSubs_cons_notAll _ _ _ _ _ _ _ _ _ _ hna',
      hm, treeMatch_some_accepts hm]
    simp only [hn, if_true]
    rw [head?_eq_none h1, List.nil_append]
    exact ih2 hinv.tail
  · -- matchAllLoop, found below
    intro csubs cleaves b cap captured acc s' rest' ps hc l ps' hn ih hinv
    have hc' : capOK cap captured = true := hc
    have h1 := ih hinv
    rw [hn] at h1
    rw [matchAllLoop_step, derivsAll_step, if_pos hc', if_pos hc', hn, List.head?_append, ← h1]
    rfl
  · -- matchAllLoop, nothing below, nothing left to swallow
    intro csubs cleaves b cap captured acc s' ps hc ps' hn ih hinv
    have hc' : capOK cap captured = true := hc
    have h1 := ih hinv
    rw [hn] at h1
    rw [matchAllLoop_step, derivsAll_step, if_pos hc', if_pos hc', hn, head?_eq_none h1]
    rfl
  · -- matchAllLoop, nothing below, swallow one more
    intro csubs cleaves b cap captured acc s' ps hc ps' s'' rest'' hn ih1 ih3 hinv
    have hc' : capOK cap captured = true := hc
    have h1 := ih1 hinv
    rw [hn] at h1
    rw [matchAllLoop_step, derivsAll_step, if_pos hc', if_pos hc', hn, head?_eq_none h1, List.nil_append]
    exact ih3 hinv
  · -- matchAllLoop, capture limit exceeded
    intro csubs cleaves b cap captured acc s' rest' ps hc _
    have hc' : ¬ capOK cap captured = true := hc
    rw [matchAllLoop_step, derivsAll_step, if_neg hc', if_neg hc']
    rfl

theorem matchNext_leaf_eq_head (E : Engine) (hok : Nat → Bool) (subs : List Node) (leaves : List Leaf)
    (s : Seg) (rest : List Seg) (ps : Params) (hinv : TreeInv subs leaves) :
    (matchNext E hok subs leaves s rest ps).1 = (derivs E hok subs leaves s rest).head? :=
  (match_fst_eq_head E hok).1 subs leaves s rest ps hinv

theorem matchSubs_leaf_eq_head (E : Engine) (hok : Nat → Bool) (subs : List Node) (leaves : List Leaf)
    (s s' : Seg) (rest' : List Seg) (ps : Params) (hinv : TreeInv subs leaves) :
    (matchSubs E hok subs leaves s s' rest' ps).1 =
      (derivsSubs E hok subs s s' rest' ++ allLeafDerivs hok leaves (rest'.length + 2)).head? :=
  (match_fst_eq_head E hok).2.1 subs leaves s s' rest' ps hinv

theorem matchAllLoop_leaf_eq_head (E : Engine) (hok : Nat → Bool) (csubs : List Node) (cleaves : List Leaf)
    (b : Bytes) (cap : Int) (captured : Nat) (acc s' : Seg) (rest' : List Seg) (ps : Params)
    (hinv : TreeInv csubs cleaves) :
    (matchAllLoop E hok csubs cleaves b cap captured acc s' rest' ps).1 =
      (derivsAll E hok csubs cleaves cap captured s' rest').head? :=
  (match_fst_eq_head E hok).2.2 csubs cleaves b cap captured acc s' rest' ps hinv

/-! ### without the invariant: whatever the matcher returns is in the enumeration -/

theorem match_fst_mem (E : Engine) (hok : Nat → Bool) :
    (∀ subs leaves s rest ps, ∀ l, (matchNext E hok subs leaves s rest ps).1 = some l →
        l ∈ derivs E hok subs leaves s rest) ∧
    (∀ subs leaves s s' rest' ps, ∀ l, (matchSubs E hok subs leaves s s' rest' ps).1 = some l →
        l ∈ derivsSubs E hok subs s s' rest' ++ allLeafDerivs hok leaves (rest'.length + 2)) ∧
    (∀ csubs cleaves b cap captured acc s' rest' ps, ∀ l,
        (matchAllLoop E hok csubs cleaves b cap captured acc s' rest' ps).1 = some l →
        l ∈ derivsAll E hok csubs cleaves cap captured s' rest') := by
  refine matchNext.mutual_induct E hok
    (motive1 := fun subs leaves s rest ps => ∀ l, (matchNext E hok subs leaves s rest ps).1 = some l →
        l ∈ derivs E hok subs leaves s rest)
    (motive2 := fun subs leaves s s' rest' ps => ∀ l, (matchSubs E hok subs leaves s s' rest' ps).1 = some l →
        l ∈ derivsSubs E hok subs s s' rest' ++ allLeafDerivs hok leaves (rest'.length + 2))
    (motive3 := fun csubs cleaves b cap captured acc s' rest' ps => ∀ l,
        (matchAllLoop E hok csubs cleaves b cap captured acc s' rest' ps).1 = some l →
        l ∈ derivsAll E hok csubs cleaves cap captured s' rest')
    ?_ ?_ ?_ ?_ ?_ ?_ ?_ ?_ ?_ ?_ ?_ ?_
  · intro subs leaves s ps l h
    rw [matchNext, matchLeaves_fst] at h
    rw [derivs]
    exact List.mem_of_mem_head? h
  · intro subs leaves s ps s' rest' ih l h
    rw [matchNext] at h
    rw [derivs]
    exact ih l h
  · intro leaves s s' rest' ps l h
    rw [matchSubs] at h
    rw [derivsSubs, List.nil_append]
    exact matchAllLeaf_fst_mem' h
  · intro leaves s s' rest' ps key csubs cleaves more b cap l ps' hm ih l' h
    rw [matchSubs, hm] at h
    have h3 := ih l' (by rw [hm]; exact h)
    rw [derivsSubs_cons_all]
    exact List.mem_append_left _ (List.mem_append_left _ h3)
  · intro leaves s s' rest' ps key csubs cleaves more b cap ps' hm ih l h
    rw [matchSubs, hm] at h
    exact List.mem_append_right _ (matchAllLeaf_fst_mem' h)
  · intro leaves s s' rest' ps key cpat csubs cleaves more hm hna ih l h
    have hna' : cpat.isAll = false := by
      cases cpat with
      | all b c => exact (hna b c rfl).elim
      | _ => rfl
    rw [matchSubs_cons_notAll _ _ _ _ _ _ _ _ _ _ _ _ hna', hm] at h
    rw [derivsSubs_cons_notAll _ _ _ _ _ _ _ _ _ _ hna', List.append_assoc]
    exact List.mem_append_right _ (ih l h)
  · intro leaves s s' rest' ps key cpat csubs cleaves more ps1 hm l ps' hn hna ih l' h
    have hna' : cpat.isAll = false := by
      cases cpat with
      | all b c => exact (hna b c rfl).elim
      | _ => rfl
    rw [matchSubs_cons_notAll _ _ _ _ _ _ _ _ _ _ _ _ hna', hm] at h
    simp only [hn] at h
    have h1 := ih l' (by rw [hn]; exact h)
    rw [derivsSubs_cons_notAll _ _ _ _ _ _ _ _ _ _ hna', treeMatch_some_accepts hm, if_pos rfl]
    exact List.mem_append_left _ (List.mem_append_left _ h1)
  · intro leaves s s' rest' ps key cpat csubs cleaves more ps1 hm ps' hn hna ih1 ih2 l h
    have hna' : cpat.isAll = false := by
      cases cpat with
      | all b c => exact (hna b c rfl).elim
      | _ => rfl
    rw [matchSubs_cons_notAll _ _ _ _ _ _ _ _ _ _ _ _ hna', hm] at h
    simp only [hn] at h
    rw [derivsSubs_cons_notAll _ _ _ _ _ _ _ _ _ _ hna', List.append_assoc]
    exact List.mem_append_right _ (ih2 l h)
  · intro csubs cleaves b cap captured acc s' rest' ps hc l ps' hn ih l' h
    have hc' : capOK cap captured = true := hc
    rw [matchAllLoop_step, if_pos hc', hn] at h
    have h1 := ih l' (by rw [hn]; exact h)
    rw [derivsAll_step, if_pos hc']
    exact List.mem_append_left _ h1
  · intro csubs cleaves b cap captured acc s' ps hc ps' hn ih l h
    have hc' : capOK cap captured = true := hc
    rw [matchAllLoop_step, if_pos hc', hn] at h
    cases h
  · intro csubs cleaves b cap captured acc s' ps hc ps' s'' rest'' hn ih1 ih3 l h
    have hc' : capOK cap captured = true := hc
    rw [matchAllLoop_step, if_pos hc', hn] at h
    rw [derivsAll_step, if_pos hc']
    exact List.mem_append_right _ (ih3 l h)
  · intro csubs cleaves b cap captured acc s' rest' ps hc l h
    have hc' : ¬ capOK cap captured = true := hc
    rw [matchAllLoop_step, if_neg hc'] at h
    cases h

/-! ### the enumeration lists exactly the walks -/

theorem capOK_mono {cap : Int} {m n : Nat} (hmn : m ≤ n) (h : capOK cap n = true) : capOK cap m = true := by
  simp only [capOK, Bool.or_eq_true, decide_eq_true_eq] at h ⊢
  omega

theorem capOK_one (cap : Int) : capOK cap 1 = true := by
  simp only [capOK, Bool.or_eq_true, decide_eq_true_eq]
  omega

theorem allLeafOK_iff {hok : Nat → Bool} {n : Nat} {l : Leaf} :
    allLeafOK hok n l = true ↔ ∃ b cap, l.pat = .all b cap ∧ capOK cap n = true ∧ hok l.hid = true := by
  obtain ⟨key, pat, hid, route, long, st⟩ := l
  cases pat with
  | all b cap =>
    simp only [allLeafOK, Bool.and_eq_true, Pat.all.injEq]
    constructor
    · intro h; exact ⟨b, cap, ⟨rfl, rfl⟩, h⟩
    · rintro ⟨b', cap', ⟨rfl, rfl⟩, h⟩; exact h
  | _ => simp [allLeafOK]

theorem mem_leafDerivs {E : Engine} {hok : Nat → Bool} {leaves : List Leaf} {s : Seg} {l : Leaf} :
    l ∈ leafDerivs E hok leaves s ↔ l ∈ leaves ∧ l.pat.acceptsLeaf E s = true ∧ hok l.hid = true := by
  simp [leafDerivs, List.mem_filter]

theorem mem_allLeafDerivs {hok : Nat → Bool} {leaves : List Leaf} {n : Nat} {l : Leaf} :
    l ∈ allLeafDerivs hok leaves n ↔
      l ∈ leaves ∧ ∃ b cap, l.pat = .all b cap ∧ capOK cap n = true ∧ hok l.hid = true := by
  rw [allLeafDerivs_eq, List.mem_filter, allLeafOK_iff]

/-- the walks through a match-all child that has already taken `captured` segments -/
def ReachAll (E : Engine) (hok : Nat → Bool) (cs : List Node) (cl : List Leaf) (cap : Int)
    (captured : Nat) (s' : Seg) (rest' : List Seg) (l : Leaf) : Prop :=
  ∃ skipped t u, s' :: rest' = skipped ++ t :: u ∧ capOK cap (captured + skipped.length) = true ∧
    Reach E hok cs cl t u l

/-- the walks that start with one of the children `subs` -/
def ReachSubs (E : Engine) (hok : Nat → Bool) (subs : List Node) (s s' : Seg) (rest' : List Seg)
    (l : Leaf) : Prop :=
  ∃ k p cs cl, Node.mk k p cs cl ∈ subs ∧
    ((p.isAll = false ∧ p.acceptsTree E s = true ∧ Reach E hok cs cl s' rest' l) ∨
     (∃ b cap, p = .all b cap ∧ ReachAll E hok cs cl cap 1 s' rest' l))

theorem ReachSubs.mono {E : Engine} {hok : Nat → Bool} {subs subs0 : List Node} {s s' : Seg}
    {rest' : List Seg} {l : Leaf} (h : ReachSubs E hok subs s s' rest' l)
    (hsub : ∀ n, n ∈ subs → n ∈ subs0) : ReachSubs E hok subs0 s s' rest' l := by
  obtain ⟨k, p, cs, cl, hn, h⟩ := h
  exact ⟨k, p, cs, cl, hsub _ hn, h⟩

theorem ReachSubs.reach {E : Engine} {hok : Nat → Bool} {subs : List Node} {s s' : Seg}
    {rest' : List Seg} {l : Leaf} (h : ReachSubs E hok subs s s' rest' l) (leaves : List Leaf) :
    Reach E hok subs leaves s (s' :: rest') l := by
  obtain ⟨k, p, cs, cl, hn, h | ⟨b, cap, hp, skipped, t, u, heq, hc, hr⟩⟩ := h
  · exact Reach.sub subs leaves s s' rest' l k p cs cl hn h.1 h.2.1 h.2.2
  · subst hp
    rw [heq]
    refine Reach.allSub subs leaves s l k b cap cs cl skipped t u hn ?_ hr
    rw [Nat.add_comm]; exact hc

theorem mem_derivs_imp (E : Engine) (hok : Nat → Bool) :
    (∀ subs leaves s rest, ∀ l, l ∈ derivs E hok subs leaves s rest → Reach E hok subs leaves s rest l) ∧
    (∀ subs s s' rest', ∀ l, l ∈ derivsSubs E hok subs s s' rest' → ReachSubs E hok subs s s' rest' l) ∧
    (∀ cs cl cap captured s' rest', ∀ l, l ∈ derivsAll E hok cs cl cap captured s' rest' →
        ReachAll E hok cs cl cap captured s' rest' l) := by
  refine derivs.mutual_induct
    (motive1 := fun subs leaves s rest => ∀ l, l ∈ derivs E hok subs leaves s rest →
        Reach E hok subs leaves s rest l)
    (motive2 := fun subs s s' rest' => ∀ l, l ∈ derivsSubs E hok subs s s' rest' →
        ReachSubs E hok subs s s' rest' l)
    (motive3 := fun cs cl cap captured s' rest' => ∀ l, l ∈ derivsAll E hok cs cl cap captured s' rest' →
        ReachAll E hok cs cl cap captured s' rest' l)
    ?_ ?_ ?_ ?_ ?_ ?_
  · intro subs leaves s l h
    rw [derivs, mem_leafDerivs] at h
    exact Reach.leaf subs leaves s l h.1 h.2.1 h.2.2
  · intro subs leaves s s' rest' ih l h
    rw [derivs, List.mem_append] at h
    cases h with
    | inl h => exact (ih l h).reach leaves
    | inr h =>
      rw [mem_allLeafDerivs] at h
      obtain ⟨hl, b, cap, hp, hc, hh⟩ := h
      exact Reach.allLeaf subs leaves s s' rest' l b cap hl hp hc hh
  · intro s s' rest' l h
    rw [derivsSubs] at h
    cases h
  · intro s s' rest' key p cs cl more ih3 ih1 ih2 l h
    by_cases hna : p.isAll = false
    · rw [derivsSubs_cons_notAll _ _ _ _ _ _ _ _ _ _ hna, List.mem_append] at h
      cases h with
      | inl h =>
        by_cases ha : p.acceptsTree E s = true
        · rw [if_pos ha] at h
          exact ⟨key, p, cs, cl, List.mem_cons_self .., Or.inl ⟨hna, ha, ih1 l h⟩⟩
        · rw [if_neg ha] at h
          cases h
      | inr h => exact (ih2 l h).mono (fun n hn => List.mem_cons_of_mem _ hn)
    · cases p with
      | all b cap =>
        rw [derivsSubs_cons_all, List.mem_append] at h
        cases h with
        | inl h => exact ⟨key, _, cs, cl, List.mem_cons_self .., Or.inr ⟨b, cap, rfl, ih3 cap l h⟩⟩
        | inr h => exact (ih2 l h).mono (fun n hn => List.mem_cons_of_mem _ hn)
      | _ => exact (hna rfl).elim
  · intro cs cl cap captured s' rest' hc ih1 ih3 l h
    rw [derivsAll_step, if_pos hc, List.mem_append] at h
    cases h with
    | inl h => exact ⟨[], s', rest', rfl, by simpa using hc, ih1 l h⟩
    | inr h =>
      cases rest' with
      | nil => cases h
      | cons s'' rest'' =>
        obtain ⟨skipped, t, u, heq, hc', hr⟩ := ih3 l h
        refine ⟨s' :: skipped, t, u, by rw [heq]; rfl, ?_, hr⟩
        rw [List.length_cons, ← Nat.add_assoc, Nat.add_right_comm]
        exact hc'
  · intro cs cl cap captured s' rest' hc l h
    rw [derivsAll_step, if_neg hc] at h
    cases h

theorem mem_derivsSubs_of_notAll {E : Engine} {hok : Nat → Bool} {subs : List Node} {s s' : Seg}
    {rest' : List Seg} {l : Leaf} {k : Bytes} {p : Pat} {cs : List Node} {cl : List Leaf}
    (hn : Node.mk k p cs cl ∈ subs) (hna : p.isAll = false) (ha : p.acceptsTree E s = true)
    (hl : l ∈ derivs E hok cs cl s' rest') : l ∈ derivsSubs E hok subs s s' rest' := by
  induction subs with
  | nil => cases hn
  | cons n more ih =>
    obtain ⟨k', p', cs', cl'⟩ := n
    have hstep : l ∈ derivsSubs E hok more s s' rest' →
        l ∈ derivsSubs E hok (Node.mk k' p' cs' cl' :: more) s s' rest' := by
      intro h
      by_cases hna' : p'.isAll = false
      · rw [derivsSubs_cons_notAll _ _ _ _ _ _ _ _ _ _ hna']; exact List.mem_append_right _ h
      · cases p' with
        | all b cap => rw [derivsSubs_cons_all]; exact List.mem_append_right _ h
        | _ => exact (hna' rfl).elim
    rw [List.mem_cons] at hn
    cases hn with
    | inl heq =>
      injection heq with h1 h2 h3 h4
      subst h1 h2 h3 h4
      rw [derivsSubs_cons_notAll _ _ _ _ _ _ _ _ _ _ hna, if_pos ha]
      exact List.mem_append_left _ hl
    | inr hmem => exact hstep (ih hmem)

theorem mem_derivsSubs_of_all {E : Engine} {hok : Nat → Bool} {subs : List Node} {s s' : Seg}
    {rest' : List Seg} {l : Leaf} {k b : Bytes} {cap : Int} {cs : List Node} {cl : List Leaf}
    (hn : Node.mk k (.all b cap) cs cl ∈ subs)
    (hl : l ∈ derivsAll E hok cs cl cap 1 s' rest') : l ∈ derivsSubs E hok subs s s' rest' := by
  induction subs with
  | nil => cases hn
  | cons n more ih =>
    obtain ⟨k', p', cs', cl'⟩ := n
    have hstep : l ∈ derivsSubs E hok more s s' rest' →
        l ∈ derivsSubs E hok (Node.mk k' p' cs' cl' :: more) s s' rest' := by
      intro h
      by_cases hna' : p'.isAll = false
      · rw [derivsSubs_cons_notAll _ _ _ _ _ _ _ _ _ _ hna']; exact List.mem_append_right _ h
      · cases p' with
        | all b cap => rw [derivsSubs_cons_all]; exact List.mem_append_right _ h
        | _ => exact (hna' rfl).elim
    rw [List.mem_cons] at hn
    cases hn with
    | inl heq =>
      injection heq with h1 h2 h3 h4
      subst h1 h2 h3 h4
      rw [derivsSubs_cons_all]
      exact List.mem_append_left _ hl
    | inr hmem => exact hstep (ih hmem)

theorem mem_derivsAll_of {E : Engine} {hok : Nat → Bool} {cs : List Node} {cl : List Leaf} {cap : Int}
    {t : Seg} {u : List Seg} {l : Leaf} (hl : l ∈ derivs E hok cs cl t u) :
    ∀ (skipped : List Seg) (captured : Nat) (s' : Seg) (rest' : List Seg),
      s' :: rest' = skipped ++ t :: u → capOK cap (captured + skipped.length) = true →
      l ∈ derivsAll E hok cs cl cap captured s' rest' := by
  intro skipped
  induction skipped with
  | nil =>
    intro captured s' rest' heq hc
    simp only [List.nil_append, List.cons.injEq] at heq
    obtain ⟨rfl, rfl⟩ := heq
    rw [derivsAll_step, if_pos (by simpa using hc)]
    exact List.mem_append_left _ hl
  | cons a sk ih =>
    intro captured s' rest' heq hc
    simp only [List.cons_append, List.cons.injEq] at heq
    obtain ⟨rfl, rfl⟩ := heq
    rw [derivsAll_step, if_pos (capOK_mono (Nat.le_add_right _ _) hc)]
    refine List.mem_append_right _ ?_
    cases hsk : sk ++ t :: u with
    | nil => simp at hsk
    | cons s'' rest'' =>
      refine ih (captured + 1) s'' rest'' hsk.symm ?_
      rw [List.length_cons, ← Nat.add_assoc, Nat.add_right_comm] at hc
      exact hc

theorem reach_imp_mem (E : Engine) (hok : Nat → Bool) {subs : List Node} {leaves : List Leaf} {s : Seg}
    {rest : List Seg} {l : Leaf} (h : Reach E hok subs leaves s rest l) :
    l ∈ derivs E hok subs leaves s rest := by
  induction h with
  | leaf subs leaves s l hl ha hh =>
    rw [derivs, mem_leafDerivs]; exact ⟨hl, ha, hh⟩
  | sub subs leaves s s' rest' l k p cs cl hn hna ha _ ih =>
    rw [derivs]
    exact List.mem_append_left _ (mem_derivsSubs_of_notAll hn hna ha ih)
  | allSub subs leaves s l k b cap cs cl skipped s' rest' hn hc _ ih =>
    cases hsk : skipped ++ s' :: rest' with
    | nil => simp at hsk
    | cons t u =>
      rw [derivs]
      refine List.mem_append_left _ (mem_derivsSubs_of_all hn ?_)
      refine mem_derivsAll_of ih skipped 1 t u hsk.symm ?_
      rw [Nat.add_comm]; exact hc
  | allLeaf subs leaves s s' rest' l b cap hl hp hc hh =>
    rw [derivs]
    exact List.mem_append_right _ (mem_allLeafDerivs.mpr ⟨hl, b, cap, hp, hc, hh⟩)

theorem mem_derivs_iff_reach (E : Engine) (hok : Nat → Bool) (subs : List Node) (leaves : List Leaf)
    (s : Seg) (rest : List Seg) (l : Leaf) :
    l ∈ derivs E hok subs leaves s rest ↔ Reach E hok subs leaves s rest l :=
  ⟨(mem_derivs_imp E hok).1 subs leaves s rest l, reach_imp_mem E hok⟩

theorem mem_derivsAll_iff_reachAll (E : Engine) (hok : Nat → Bool) (cs : List Node) (cl : List Leaf)
    (cap : Int) (captured : Nat) (s' : Seg) (rest' : List Seg) (l : Leaf) :
    l ∈ derivsAll E hok cs cl cap captured s' rest' ↔ ReachAll E hok cs cl cap captured s' rest' l := by
  constructor
  · exact (mem_derivs_imp E hok).2.2 cs cl cap captured s' rest' l
  · rintro ⟨skipped, t, u, heq, hc, hr⟩
    exact mem_derivsAll_of (reach_imp_mem E hok hr) skipped captured s' rest' heq hc

theorem mem_derivsSubs_iff_reachSubs (E : Engine) (hok : Nat → Bool) (subs : List Node)
    (s s' : Seg) (rest' : List Seg) (l : Leaf) :
    l ∈ derivsSubs E hok subs s s' rest' ↔ ReachSubs E hok subs s s' rest' l := by
  constructor
  · exact (mem_derivs_imp E hok).2.1 subs s s' rest' l
  · rintro ⟨k, p, cs, cl, hn, ⟨hna, ha, hr⟩ | ⟨b, cap, rfl, hall⟩⟩
    · exact mem_derivsSubs_of_notAll hn hna ha (reach_imp_mem E hok hr)
    · exact mem_derivsSubs_of_all hn ((mem_derivsAll_iff_reachAll E hok cs cl cap 1 s' rest' l).mpr hall)

/-! ### walks and forms -/

theorem Consumes.pats_ne_nil {E : Engine} {pats : List Pat} {segs : List Seg} (h : Consumes E pats segs) :
    pats ≠ [] := by
  cases h <;> simp

theorem Consumes.segs_ne_nil {E : Engine} {pats : List Pat} {segs : List Seg} (h : Consumes E pats segs) :
    segs ≠ [] := by
  cases h with
  | lastOne => simp
  | lastAll _ _ _ hne => exact hne
  | innerOne => simp
  | innerAll _ _ _ taken _ _ hne =>
    cases taken with
    | nil => exact (hne rfl).elim
    | cons => simp

theorem mem_formsList {f : Form} {ns : List Node} :
    f ∈ Node.formsList ns ↔ ∃ n, n ∈ ns ∧ f ∈ n.forms := by
  induction ns with
  | nil => simp [Node.formsList]
  | cons n ns ih =>
    rw [Node.formsList, List.mem_append, ih]
    constructor
    · rintro (h | ⟨m, hm, hf⟩)
      · exact ⟨n, List.mem_cons_self .., h⟩
      · exact ⟨m, List.mem_cons_of_mem _ hm, hf⟩
    · rintro ⟨m, hm, hf⟩
      rw [List.mem_cons] at hm
      cases hm with
      | inl h => subst h; exact Or.inl hf
      | inr h => exact Or.inr ⟨m, h, hf⟩

/-- the forms below a node are the forms of its children's tree with the node's pattern in front -/
theorem Node.forms_eq (k : Bytes) (p : Pat) (cs : List Node) (cl : List Leaf) :
    (Node.mk k p cs cl).forms =
      (treeForms cs cl).map fun f => ⟨p :: f.pats, f.hid, f.long⟩ := by
  rw [Node.forms, treeForms, List.map_append, List.map_map]
  rfl

theorem mem_treeForms {f : Form} {subs : List Node} {leaves : List Leaf} :
    f ∈ treeForms subs leaves ↔
      (∃ l, l ∈ leaves ∧ f = ⟨[l.pat], l.hid, l.long⟩) ∨
      (∃ k p cs cl, Node.mk k p cs cl ∈ subs ∧ ∃ g, g ∈ treeForms cs cl ∧ f = ⟨p :: g.pats, g.hid, g.long⟩) := by
  rw [treeForms, List.mem_append, List.mem_map, mem_formsList]
  constructor
  · rintro (⟨l, hl, rfl⟩ | ⟨n, hn, hf⟩)
    · exact Or.inl ⟨l, hl, rfl⟩
    · obtain ⟨k, p, cs, cl⟩ := n
      rw [Node.forms_eq, List.mem_map] at hf
      obtain ⟨g, hg, rfl⟩ := hf
      exact Or.inr ⟨k, p, cs, cl, hn, g, hg, rfl⟩
  · rintro (⟨l, hl, rfl⟩ | ⟨k, p, cs, cl, hn, g, hg, rfl⟩)
    · exact Or.inl ⟨l, hl, rfl⟩
    · refine Or.inr ⟨_, hn, ?_⟩
      rw [Node.forms_eq, List.mem_map]
      exact ⟨g, hg, rfl⟩

theorem treeForms_pats_ne_nil {f : Form} {subs : List Node} {leaves : List Leaf}
    (h : f ∈ treeForms subs leaves) : f.pats ≠ [] := by
  rw [mem_treeForms] at h
  obtain ⟨l, _, rfl⟩ | ⟨k, p, cs, cl, _, g, _, rfl⟩ := h <;> simp

/-- a walk yields a stored form (of the same registration, same long/short kind) that admits the segments -/
theorem reach_form (E : Engine) (hok : Nat → Bool) {subs : List Node} {leaves : List Leaf} {s : Seg}
    {rest : List Seg} {l : Leaf} (h : Reach E hok subs leaves s rest l) :
    ∃ f ∈ treeForms subs leaves, f.hid = l.hid ∧ f.long = l.long ∧ f.Admits E hok (s :: rest) := by
  induction h with
  | leaf subs leaves s l hl ha hh =>
    refine ⟨⟨[l.pat], l.hid, l.long⟩, mem_treeForms.mpr (Or.inl ⟨l, hl, rfl⟩), rfl, rfl, ?_, hh⟩
    by_cases hna : l.pat.isAll = false
    · exact Consumes.lastOne l.pat s hna ha
    · show Consumes E [l.pat] [s]
      cases hp : l.pat with
      | all b cap => exact Consumes.lastAll b cap [s] (by simp) (capOK_one cap)
      | _ => rw [hp] at hna; exact (hna rfl).elim
  | sub subs leaves s s' rest' l k p cs cl hn hna ha _ ih =>
    obtain ⟨g, hg, hhid, hlong, hcons, hh⟩ := ih
    refine ⟨⟨p :: g.pats, g.hid, g.long⟩, mem_treeForms.mpr (Or.inr ⟨k, p, cs, cl, hn, g, hg, rfl⟩),
      hhid, hlong, ?_, hh⟩
    exact Consumes.innerOne p g.pats s (s' :: rest') hcons.pats_ne_nil hna ha hcons
  | allSub subs leaves s l k b cap cs cl skipped s' rest' hn hc _ ih =>
    obtain ⟨g, hg, hhid, hlong, hcons, hh⟩ := ih
    refine ⟨⟨.all b cap :: g.pats, g.hid, g.long⟩,
      mem_treeForms.mpr (Or.inr ⟨k, _, cs, cl, hn, g, hg, rfl⟩), hhid, hlong, ?_, hh⟩
    exact Consumes.innerAll b cap g.pats (s :: skipped) (s' :: rest') hcons.pats_ne_nil (by simp) hc hcons
  | allLeaf subs leaves s s' rest' l b cap hl hp hc hh =>
    refine ⟨⟨[l.pat], l.hid, l.long⟩, mem_treeForms.mpr (Or.inl ⟨l, hl, rfl⟩), rfl, rfl, ?_, hh⟩
    show Consumes E [l.pat] (s :: s' :: rest')
    rw [hp]
    exact Consumes.lastAll b cap (s :: s' :: rest') (by simp) hc

theorem consumes_reach (E : Engine) (hok : Nat → Bool) {pats : List Pat} {segs : List Seg}
    (h : Consumes E pats segs) :
    ∀ (subs : List Node) (leaves : List Leaf) (s : Seg) (rest : List Seg) (hid : Nat) (long : Bool),
      segs = s :: rest → (⟨pats, hid, long⟩ : Form) ∈ treeForms subs leaves → hok hid = true →
      ∃ l, Reach E hok subs leaves s rest l ∧ l.hid = hid ∧ l.long = long := by
  induction h with
  | lastOne p s0 hna ha =>
    intro subs leaves s rest hid long hseg hmem hh
    simp only [List.cons.injEq] at hseg
    obtain ⟨rfl, rfl⟩ := hseg
    rw [mem_treeForms] at hmem
    obtain ⟨l, hl, heq⟩ | ⟨k, p', cs, cl, hn, g, hg, heq⟩ := hmem
    · simp only [Form.mk.injEq, List.cons.injEq, and_true] at heq
      obtain ⟨rfl, rfl, rfl⟩ := heq
      exact ⟨l, Reach.leaf subs leaves s0 l hl ha hh, rfl, rfl⟩
    · simp only [Form.mk.injEq, List.cons.injEq] at heq
      exact (treeForms_pats_ne_nil hg heq.1.2.symm).elim
  | lastAll b cap segs hne hc =>
    intro subs leaves s rest hid long hseg hmem hh
    subst hseg
    rw [mem_treeForms] at hmem
    obtain ⟨l, hl, heq⟩ | ⟨k, p', cs, cl, hn, g, hg, heq⟩ := hmem
    · simp only [Form.mk.injEq, List.cons.injEq, and_true] at heq
      obtain ⟨hp, rfl, rfl⟩ := heq
      cases rest with
      | nil =>
        exact ⟨l, Reach.leaf subs leaves s l hl (by rw [← hp]; rfl) hh, rfl, rfl⟩
      | cons s' rest' =>
        exact ⟨l, Reach.allLeaf subs leaves s s' rest' l b cap hl hp.symm hc hh, rfl, rfl⟩
    · simp only [Form.mk.injEq, List.cons.injEq] at heq
      exact (treeForms_pats_ne_nil hg heq.1.2.symm).elim
  | innerOne p ps s0 rest0 hps hna ha hr ih =>
    intro subs leaves s rest hid long hseg hmem hh
    simp only [List.cons.injEq] at hseg
    obtain ⟨rfl, rfl⟩ := hseg
    rw [mem_treeForms] at hmem
    obtain ⟨l, hl, heq⟩ | ⟨k, p', cs, cl, hn, g, hg, heq⟩ := hmem
    · simp only [Form.mk.injEq, List.cons.injEq] at heq
      exact (hps heq.1.2).elim
    · simp only [Form.mk.injEq, List.cons.injEq] at heq
      obtain ⟨⟨rfl, rfl⟩, rfl, rfl⟩ := heq
      cases hrest : rest0 with
      | nil => exact (hr.segs_ne_nil hrest).elim
      | cons s' rest' =>
        obtain ⟨l, hreach, h1, h2⟩ := ih cs cl s' rest' g.hid g.long hrest hg hh
        exact ⟨l, Reach.sub subs leaves s0 s' rest' l k p cs cl hn hna ha hreach, h1, h2⟩
  | innerAll b cap ps taken rest0 hps hne hc hr ih =>
    intro subs leaves s rest hid long hseg hmem hh
    cases taken with
    | nil => exact (hne rfl).elim
    | cons a sk =>
      simp only [List.cons_append, List.cons.injEq] at hseg
      obtain ⟨rfl, rfl⟩ := hseg
      rw [mem_treeForms] at hmem
      obtain ⟨l, hl, heq⟩ | ⟨k, p', cs, cl, hn, g, hg, heq⟩ := hmem
      · simp only [Form.mk.injEq, List.cons.injEq] at heq
        exact (hps heq.1.2).elim
      · simp only [Form.mk.injEq, List.cons.injEq] at heq
        obtain ⟨⟨rfl, rfl⟩, rfl, rfl⟩ := heq
        cases hrest : rest0 with
        | nil => exact (hr.segs_ne_nil hrest).elim
        | cons s' rest' =>
          obtain ⟨l, hreach, h1, h2⟩ := ih cs cl s' rest' g.hid g.long hrest hg hh
          exact ⟨l, Reach.allSub subs leaves a l k b cap cs cl sk s' rest' hn hc hreach, h1, h2⟩

/-- a stored form that admits the segments yields a walk to a leaf of the same registration and kind -/
theorem form_reach (E : Engine) (hok : Nat → Bool) {subs : List Node} {leaves : List Leaf} {s : Seg}
    {rest : List Seg} {f : Form} (hf : f ∈ treeForms subs leaves) (ha : f.Admits E hok (s :: rest)) :
    ∃ l, Reach E hok subs leaves s rest l ∧ l.hid = f.hid ∧ l.long = f.long :=
  consumes_reach E hok ha.1 subs leaves s rest f.hid f.long rfl hf ha.2

theorem reach_iff_admits (E : Engine) (hok : Nat → Bool) (subs : List Node) (leaves : List Leaf)
    (s : Seg) (rest : List Seg) :
    (∃ l, Reach E hok subs leaves s rest l) ↔
      ∃ f ∈ treeForms subs leaves, f.Admits E hok (s :: rest) := by
  constructor
  · rintro ⟨l, h⟩
    obtain ⟨f, hf, _, _, ha⟩ := reach_form E hok h
    exact ⟨f, hf, ha⟩
  · rintro ⟨f, hf, ha⟩
    obtain ⟨l, h, _, _⟩ := form_reach E hok hf ha
    exact ⟨l, h⟩

/-! ### corollaries for the matcher -/

/-- soundness, no invariant needed: the returned leaf ends a walk that accepts the segments -/
theorem matchNext_sound (E : Engine) (hok : Nat → Bool) (subs : List Node) (leaves : List Leaf)
    (s : Seg) (rest : List Seg) (ps : Params) (l : Leaf)
    (h : (matchNext E hok subs leaves s rest ps).1 = some l) : Reach E hok subs leaves s rest l :=
  (mem_derivs_iff_reach E hok subs leaves s rest l).mp ((match_fst_mem E hok).1 subs leaves s rest ps l h)

/-- soundness in terms of forms: the returned leaf belongs to a stored form that admits the segments -/
theorem matchNext_sound_form (E : Engine) (hok : Nat → Bool) (subs : List Node) (leaves : List Leaf)
    (s : Seg) (rest : List Seg) (ps : Params) (l : Leaf)
    (h : (matchNext E hok subs leaves s rest ps).1 = some l) :
    ∃ f ∈ treeForms subs leaves, f.hid = l.hid ∧ f.long = l.long ∧ f.Admits E hok (s :: rest) :=
  reach_form E hok (matchNext_sound E hok subs leaves s rest ps l h)

/-- completeness under the invariant: a walk exists iff the matcher finds a leaf -/
theorem matchNext_some_iff_reach (E : Engine) (hok : Nat → Bool) (subs : List Node) (leaves : List Leaf)
    (s : Seg) (rest : List Seg) (ps : Params) (hinv : TreeInv subs leaves) :
    (matchNext E hok subs leaves s rest ps).1.isSome ↔ ∃ l, Reach E hok subs leaves s rest l := by
  rw [matchNext_leaf_eq_head E hok subs leaves s rest ps hinv]
  constructor
  · intro h
    cases hd : derivs E hok subs leaves s rest with
    | nil => rw [hd] at h; cases h
    | cons l t =>
      exact ⟨l, (mem_derivs_iff_reach E hok subs leaves s rest l).mp (by rw [hd]; exact List.mem_cons_self ..)⟩
  · rintro ⟨l, hl⟩
    have hm := (mem_derivs_iff_reach E hok subs leaves s rest l).mpr hl
    cases hd : derivs E hok subs leaves s rest with
    | nil => rw [hd] at hm; cases hm
    | cons l' t => rfl

theorem matchNext_some_iff (E : Engine) (hok : Nat → Bool) (subs : List Node) (leaves : List Leaf)
    (s : Seg) (rest : List Seg) (ps : Params) (hinv : TreeInv subs leaves) :
    (matchNext E hok subs leaves s rest ps).1.isSome ↔
      ∃ f ∈ treeForms subs leaves, f.Admits E hok (s :: rest) := by
  rw [matchNext_some_iff_reach E hok subs leaves s rest ps hinv]
  exact reach_iff_admits E hok subs leaves s rest

/-- the matcher misses exactly when no stored form admits the segments -/
theorem matchNext_none_iff (E : Engine) (hok : Nat → Bool) (subs : List Node) (leaves : List Leaf)
    (s : Seg) (rest : List Seg) (ps : Params) (hinv : TreeInv subs leaves) :
    (matchNext E hok subs leaves s rest ps).1 = none ↔
      ¬ ∃ f ∈ treeForms subs leaves, f.Admits E hok (s :: rest) := by
  rw [← matchNext_some_iff E hok subs leaves s rest ps hinv]
  cases (matchNext E hok subs leaves s rest ps).1 <;> simp

/-- which leaf is selected does not depend on the params the search starts with -/
theorem matchNext_leaf_params_irrel (E : Engine) (hok : Nat → Bool) (subs : List Node) (leaves : List Leaf)
    (s : Seg) (rest : List Seg) (ps ps' : Params) (hinv : TreeInv subs leaves) :
    (matchNext E hok subs leaves s rest ps).1 = (matchNext E hok subs leaves s rest ps').1 := by
  rw [matchNext_leaf_eq_head E hok subs leaves s rest ps hinv,
    matchNext_leaf_eq_head E hok subs leaves s rest ps' hinv]

/-! ### non-vacuity: a tree with a static child, a match-all child and a match-all leaf -/

namespace TreeMatchExample

def eng : Engine := ⟨fun _ => none, fun _ _ => none, fun _ _ => false⟩
def rt : Route := ⟨[]⟩
/-- children of the root: `a/{x}` (placeholder leaf) and `{p: **}/z` -/
def subs : List Node :=
  [.mk [97] (.static [97]) [] [⟨[120], .hole [120], 1, rt, true, false⟩],
   .mk [42] (.all [112] 0) [] [⟨[122], .static [122], 2, rt, true, false⟩]]
/-- leaves of the root: `q` and `{r: **, capture: 2}` -/
def leaves : List Leaf :=
  [⟨[113], .static [113], 0, rt, true, true⟩, ⟨[114], .all [114] 2, 3, rt, true, false⟩]

theorem inv : TreeInv subs leaves := by
  refine TreeInv.mk _ _ ⟨by decide, by decide, by decide⟩ ⟨by decide, by decide, by decide⟩ ?_
  intro k p cs cl hn
  simp only [subs, List.mem_cons, Node.mk.injEq, List.not_mem_nil, or_false] at hn
  obtain ⟨_, _, rfl, rfl⟩ | ⟨_, _, rfl, rfl⟩ := hn
  · exact TreeInv.mk _ _ ⟨by decide, by decide, by decide⟩ ⟨by decide, by decide, by decide⟩
      (fun _ _ _ _ h => by cases h)
  · exact TreeInv.mk _ _ ⟨by decide, by decide, by decide⟩ ⟨by decide, by decide, by decide⟩
      (fun _ _ _ _ h => by cases h)

/-- `/u/v/z` is admitted by the form `{p: **}/z` (the match-all takes two segments), so the
    matcher finds a leaf, whatever params it starts with -/
example (ps : Params) : (matchNext eng (fun _ => true) subs leaves [117] [[118], [122]] ps).1.isSome := by
  rw [matchNext_some_iff eng _ subs leaves [117] [[118], [122]] ps inv]
  refine ⟨⟨[.all [112] 0, .static [122]], 2, true⟩, by decide, ?_, rfl⟩
  exact Consumes.innerAll [112] 0 [.static [122]] [[117], [118]] [[122]] (by simp) (by simp) (by decide)
    (Consumes.lastOne (.static [122]) [122] rfl (by decide))

/-- `/u/v/w` is admitted by nothing (the match-all leaf of the root is limited to two segments):
    the matcher misses -/
example (ps : Params) : (matchNext eng (fun _ => true) subs leaves [117] [[118], [119]] ps).1 = none := by
  rw [matchNext_leaf_eq_head eng _ subs leaves [117] [[118], [119]] ps inv]
  simp [derivs, derivsSubs, derivsAll, leafDerivs, allLeafDerivs, subs, leaves, capOK, Pat.acceptsTree,
    Pat.acceptsLeaf]

end TreeMatchExample

end Flamego
