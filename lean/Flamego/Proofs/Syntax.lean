/-
  Proofs/Syntax.lean — the byte values of the string literals `Model/Syntax.lean` renders with
  (`B "…"` goes through `String.toUTF8`, which the kernel does not evaluate by itself), and
  `Route.render` as the one-blank instance of the grammar's `renderWith`.
-/
import Flamego.Model.Syntax
import Flamego.Spec.RouteGrammar
namespace Flamego

/-! ### `B "literal"` as bytes -/

theorem ByteArray.toList_loop_eq (bs : ByteArray) (i : Nat) (r : List UInt8) :
    ByteArray.toList.loop bs i r = r.reverse ++ bs.data.toList.drop i := by
  fun_induction ByteArray.toList.loop bs i r with
  | case1 i r h ih =>
    rw [ih]
    have hi : i < bs.data.toList.length := by
      rw [Array.length_toList]; exact h
    rw [List.drop_eq_getElem_cons hi]
    have : bs.get! i = bs.data.toList[i] := by
      show bs.data[i]! = _
      rw [getElem!_pos bs.data i (by simpa using hi)]
      simp
    rw [this]
    simp
  | case2 i r h =>
    have : bs.data.toList.length ≤ i := by
      rw [Array.length_toList]; exact Nat.le_of_not_lt h
    rw [List.drop_eq_nil_of_le this, List.append_nil]

theorem List.toByteArray_loop_data (xs : List UInt8) (acc : ByteArray) :
    (List.toByteArray.loop xs acc).data = acc.data ++ xs.toArray := by
  induction xs generalizing acc with
  | nil => simp [List.toByteArray.loop]
  | cons x xs ih => simp [List.toByteArray.loop, ih, ByteArray.push]

theorem List.toList_toByteArray (l : List UInt8) : l.toByteArray.toList = l := by
  rw [ByteArray.toList, ByteArray.toList_loop_eq, List.toByteArray, List.toByteArray_loop_data]
  show [] ++ (List.drop 0 (#[] ++ l.toArray).toList) = l
  simp

/-- the bytes of a string given by its characters -/
theorem B_ofList (l : List Char) : B (String.ofList l) = l.map fun c => c.toNat.toUInt8 := by
  simp [B]

theorem B_slash : B "/" = [47] := by
  have h : "/" = String.ofList ['/'] := rfl
  rw [h, B_ofList]; decide
theorem B_qmark : B "?" = [63] := by
  have h : "?" = String.ofList ['?'] := rfl
  rw [h, B_ofList]; decide
theorem B_lbrace : B "{" = [123] := by
  have h : "{" = String.ofList ['{'] := rfl
  rw [h, B_ofList]; decide
theorem B_rbrace : B "}" = [125] := by
  have h : "}" = String.ofList ['}'] := rfl
  rw [h, B_ofList]; decide
theorem B_colon_blank : B ": " = [58, 32] := by
  have h : ": " = String.ofList [':', ' '] := rfl
  rw [h, B_ofList]; decide
theorem B_comma_blank : B ", " = [44, 32] := by
  have h : ", " = String.ofList [',', ' '] := rfl
  rw [h, B_ofList]; decide
theorem B_qqq : B "???" = [63, 63, 63] := by
  have h : "???" = String.ofList ['?', '?', '?'] := rfl
  rw [h, B_ofList]; decide

/-! ### `render` is `renderWith` with one blank everywhere -/

namespace RouteGrammar

theorem renderValW_eq (v : BindVal) : renderValW v = v.render := by
  cases v <;> simp [renderValW, BindVal.render, B_slash]

theorem renderParam_one (p : BindParam) : p.render = renderParamW 1 p := by
  simp [BindParam.render, renderParamW, B_colon_blank, blanks, renderValW_eq]

theorem renderMore_nil (ps : List BindParam) :
    renderMoreW [] ps = ps.flatMap (fun p => [44, 32] ++ p.render) := by
  induction ps with
  | nil => simp [renderMoreW]
  | cons p ps ih => simp [renderMoreW, ih, spHead, blanks, renderParam_one]

theorem renderParams_one (p : BindParam) (ps : List BindParam) :
    renderParams (p :: ps) = renderParamsW [] (p :: ps) := by
  induction ps generalizing p with
  | nil => simp [renderParams, renderParamsW, renderMoreW, spHead, renderParam_one]
  | cons q qs ih =>
    rw [renderParams, ih q]
    · simp [renderParamsW, renderMoreW, spHead, blanks, renderParam_one, B_comma_blank]
    · simp

theorem renderElem_one (e : Elem) : e.render = renderElemW [] e := by
  cases e with
  | ident s => simp [Elem.render, renderElemW]
  | bind n => simp [Elem.render, renderElemW, B_lbrace, B_rbrace]
  | params ps =>
    cases ps with
    | nil => simp [Elem.render, renderElemW, B_qqq]
    | cons p ps => simp [Elem.render, renderElemW, B_lbrace, B_rbrace, renderParams_one]

theorem renderElems_one (es : List Elem) : es.flatMap Elem.render = renderElemsW [] es := by
  induction es with
  | nil => simp [renderElemsW]
  | cons e es ih => simp [renderElemsW, ih, renderElem_one]

theorem renderSeg_one (s : Segment) : s.render = renderSegW [] s := by
  simp only [Segment.render, renderSegW, B_slash, B_qmark, renderElems_one]

theorem renderSegs_one (ss : List Segment) : ss.flatMap Segment.render = renderSegsW [] ss := by
  induction ss with
  | nil => simp [renderSegsW]
  | cons s ss ih => simp [renderSegsW, ih, renderSeg_one]

end RouteGrammar
end Flamego
