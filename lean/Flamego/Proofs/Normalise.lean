/-
  Proofs/Normalise.lean — `normaliseSpacing`: the spacing normalisation of a route string as a
  byte-level finite-state transducer that knows nothing of tokens or trees, and the proof that on
  every string of a well-formed tree it yields the one-blank rendering.

  states:  seg  (outside braces)  — copy; `{` enters bind
           bind (inside braces, outside an expression) — `:` and `,` are copied FOLLOWED BY ONE
                BLANK and enter skip; `/` enters re; `}` returns to seg; everything else is copied
           skip (just after `:` or `,`) — blanks are dropped; any other byte is handled as in bind
           re   (inside `/…/`) — copy; `/` returns to bind
-/
import Flamego.Proofs.Syntax
namespace Flamego
namespace RouteGrammar

inductive NState
  | seg | bind | skip | re
  deriving DecidableEq, Repr

def nbind (c : UInt8) : Bytes × NState :=
  if c = 58 ∨ c = 44 then ([c, 32], .skip)
  else if c = 47 then ([c], .re)
  else if c = 125 then ([c], .seg)
  else ([c], .bind)

/-- one byte: what is written, and the next state -/
def nstep : NState → UInt8 → Bytes × NState
  | .seg, c => ([c], if c = 123 then .bind else .seg)
  | .re, c => ([c], if c = 47 then .bind else .re)
  | .skip, c => if c = 32 then ([], .skip) else nbind c
  | .bind, c => nbind c

def nrun : NState → Bytes → Bytes
  | _, [] => []
  | st, c :: cs => (nstep st c).1 ++ nrun (nstep st c).2 cs

def nend : NState → Bytes → NState
  | st, [] => st
  | st, c :: cs => nend (nstep st c).2 cs

/-- the input with the blanks after every `:` and `,` of a parameter list replaced by one blank -/
def normaliseSpacing (s : Bytes) : Bytes := nrun .seg s

/-- from state `st` the input `a` is rewritten to `out`, ending in state `st'` -/
def Tr (st : NState) (a out : Bytes) (st' : NState) : Prop := nrun st a = out ∧ nend st a = st'

instance (st : NState) (a out : Bytes) (st' : NState) : Decidable (Tr st a out st') := by
  unfold Tr; infer_instance

theorem Tr.nil (st : NState) : Tr st [] [] st := ⟨rfl, rfl⟩

theorem Tr.append {st s1 s2 : NState} {a b o1 o2 : Bytes} (h1 : Tr st a o1 s1) (h2 : Tr s1 b o2 s2) :
    Tr st (a ++ b) (o1 ++ o2) s2 := by
  induction a generalizing st o1 with
  | nil =>
    obtain ⟨rfl, rfl⟩ := h1
    simpa [nrun, nend] using h2
  | cons c cs ih =>
    obtain ⟨hr, he⟩ := h1
    simp only [nrun, nend] at hr he
    have := ih (st := (nstep st c).2) (o1 := nrun (nstep st c).2 cs) ⟨rfl, he⟩
    constructor
    · simp only [List.cons_append, nrun, this.1, ← hr, List.append_assoc]
    · simp only [List.cons_append, nend, this.2]

theorem Tr.cons {st s1 s2 : NState} {c : UInt8} {o1 : Bytes} {b o2 : Bytes}
    (h1 : nstep st c = (o1, s1)) (h2 : Tr s1 b o2 s2) : Tr st (c :: b) (o1 ++ o2) s2 := by
  have : Tr st [c] o1 s1 := by simp [Tr, nrun, nend, h1]
  exact this.append h2

theorem ident_facts {c : UInt8} (h : c ∈ identBytes) :
    c ≠ 123 ∧ c ≠ 32 ∧ c ≠ 58 ∧ c ≠ 44 ∧ c ≠ 47 ∧ c ≠ 125 := by
  refine ⟨?_, ?_, ?_, ?_, ?_, ?_⟩ <;> (intro he; subst he; revert h; decide)

theorem tr_ident_seg (w : Bytes) (h : ∀ c ∈ w, c ∈ identBytes) : Tr .seg w w .seg := by
  induction w with
  | nil => exact Tr.nil _
  | cons c w ih =>
    have hc := ident_facts (h c (by simp))
    have := Tr.cons (st := .seg) (c := c) (o1 := [c]) (s1 := .seg) (by simp [nstep, hc.1])
      (ih (fun x hx => h x (by simp [hx])))
    simpa using this

theorem nbind_ident {c : UInt8} (h : c ∈ identBytes) : nbind c = ([c], .bind) := by
  have hc := ident_facts h
  simp [nbind, hc.2.2.1, hc.2.2.2.1, hc.2.2.2.2.1, hc.2.2.2.2.2]

theorem tr_ident_bind' (w : Bytes) (h : ∀ c ∈ w, c ∈ identBytes) : Tr .bind w w .bind := by
  induction w with
  | nil => exact Tr.nil _
  | cons c w ih =>
    have := Tr.cons (st := .bind) (c := c) (o1 := [c]) (s1 := .bind)
      (by simp [nstep, nbind_ident (h c (by simp))]) (ih (fun x hx => h x (by simp [hx])))
    simpa using this

/-- an identifier inside braces, also right after `:`/`,` and the skipped blanks -/
theorem tr_ident_bind {st : NState} (hst : st = .bind ∨ st = .skip) (w : Bytes) (h : IdentText w) :
    Tr st w w .bind := by
  obtain ⟨hne, hall⟩ := h
  cases w with
  | nil => exact absurd rfl hne
  | cons c w =>
    have hc := hall c (by simp)
    have h1 : nstep st c = ([c], .bind) := by
      rcases hst with rfl | rfl
      · simp [nstep, nbind_ident hc]
      · simp [nstep, nbind_ident hc, (ident_facts hc).2.1]
    have := Tr.cons h1 (tr_ident_bind' w (fun x hx => hall x (by simp [hx])))
    simpa using this

theorem tr_blanks (n : Nat) : Tr .skip (blanks n) [] .skip := by
  induction n with
  | zero => exact Tr.nil _
  | succ n ih =>
    have : blanks (n + 1) = 32 :: blanks n := by simp [blanks, List.replicate_succ]
    rw [this]
    have := Tr.cons (st := .skip) (c := 32) (o1 := []) (s1 := .skip) (by simp [nstep]) ih
    simpa using this

theorem tr_regex (w : Bytes) (h : ∀ c ∈ w, c ∈ regexBytes) : Tr .re w w .re := by
  induction w with
  | nil => exact Tr.nil _
  | cons c w ih =>
    have hc : c ≠ 47 := by
      intro he; subst he; have := h 47 (by simp); revert this; decide
    have := Tr.cons (st := .re) (c := c) (o1 := [c]) (s1 := .re) (by simp [nstep, hc])
      (ih (fun x hx => h x (by simp [hx])))
    simpa using this

theorem tr_val (v : BindVal) (hv : WFVal v) : Tr .skip v.render v.render .bind := by
  cases v with
  | lit s => exact tr_ident_bind (Or.inr rfl) s hv
  | re s =>
    have h1 : Tr .skip [47] [47] .re := by decide
    have h3 : Tr .re [47] [47] .bind := by decide
    have := (h1.append (tr_regex s hv.2)).append h3
    simpa [BindVal.render, B_slash] using this

theorem tr_param {st : NState} (hst : st = .bind ∨ st = .skip) (k : Nat) (p : BindParam) (hp : WFParam p) :
    Tr st (renderParamW k p) (renderParamW 1 p) .bind := by
  have h2 : Tr .bind [58] [58, 32] .skip := by decide
  have := (((tr_ident_bind hst p.ident hp.1).append h2).append (tr_blanks k)).append (tr_val p.val hp.2)
  simpa [renderParamW, blanks, renderValW_eq] using this

theorem tr_more (sp : ElemSp) (ps : List BindParam) (hps : ∀ p ∈ ps, WFParam p) :
    Tr .bind (renderMoreW sp ps) (renderMoreW [] ps) .bind := by
  induction ps generalizing sp with
  | nil => exact Tr.nil _
  | cons p ps ih =>
    have h1 : Tr .bind [44] [44, 32] .skip := by decide
    have := ((h1.append (tr_blanks (spHead sp).1)).append
      (tr_param (Or.inr rfl) (spHead sp).2 p (hps p (by simp)))).append
      (ih sp.tail (fun q hq => hps q (by simp [hq])))
    simpa [renderMoreW, spHead, blanks] using this

theorem tr_params (sp : ElemSp) (p : BindParam) (ps : List BindParam) (hps : ∀ q ∈ p :: ps, WFParam q) :
    Tr .bind (renderParamsW sp (p :: ps)) (renderParamsW [] (p :: ps)) .bind := by
  have := (tr_param (Or.inl rfl) (spHead sp).2 p (hps p (by simp))).append
    (tr_more sp.tail ps (fun q hq => hps q (by simp [hq])))
  simpa [renderParamsW, spHead] using this

theorem tr_elem (sp : ElemSp) (e : Elem) (he : WFElem e) : Tr .seg (renderElemW sp e) (renderElemW [] e) .seg := by
  have h1 : Tr .seg [123] [123] .bind := by decide
  have h3 : Tr .bind [125] [125] .seg := by decide
  cases e with
  | ident s => exact tr_ident_seg s he.2
  | bind n =>
    have := (h1.append (tr_ident_bind (Or.inl rfl) n he)).append h3
    simpa [renderElemW] using this
  | params ps =>
    cases ps with
    | nil => exact absurd rfl he.1
    | cons p ps =>
      have := (h1.append (tr_params sp p ps he.2)).append h3
      simpa [renderElemW] using this

theorem tr_elems (sp : SegSp) (es : List Elem) (hes : ∀ e ∈ es, WFElem e) :
    Tr .seg (renderElemsW sp es) (renderElemsW [] es) .seg := by
  induction es generalizing sp with
  | nil => exact Tr.nil _
  | cons e es ih =>
    have := (tr_elem (sp.headD []) e (hes e (by simp))).append (ih sp.tail (fun x hx => hes x (by simp [hx])))
    simpa [renderElemsW] using this

theorem tr_seg (sp : SegSp) (s : Segment) (hs : WFSeg s) : Tr .seg (renderSegW sp s) (renderSegW [] s) .seg := by
  have h1 : Tr .seg [47] [47] .seg := by decide
  have h2 : Tr .seg [63] [63] .seg := by decide
  cases ho : s.optional with
  | false =>
    have := h1.append (tr_elems sp s.elems hs.1)
    simpa [renderSegW, ho] using this
  | true =>
    have := (h1.append h2).append (tr_elems sp s.elems hs.1)
    simpa [renderSegW, ho] using this

theorem tr_segs (sp : Spacing) (ss : List Segment) (hss : ∀ s ∈ ss, WFSeg s) :
    Tr .seg (renderSegsW sp ss) (renderSegsW [] ss) .seg := by
  induction ss generalizing sp with
  | nil => exact Tr.nil _
  | cons s ss ih =>
    have := (tr_seg (sp.headD []) s (hss s (by simp))).append (ih sp.tail (fun x hx => hss x (by simp [hx])))
    simpa [renderSegsW] using this

/-- on every string of a well-formed tree, normalisation yields the one-blank rendering -/
theorem normalise_renderWith (sp : Spacing) (r : Route) (h : WF r) :
    normaliseSpacing (renderWith sp r) = renderWith [] r :=
  (tr_segs sp r.segs h.2).1

end RouteGrammar
end Flamego
