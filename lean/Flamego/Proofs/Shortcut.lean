/-
  Proofs/Shortcut.lean — router-level facts behind C10: histories of router operations, the
  invariant `RInv` that ties every entry of the static shortcut table to a static path of the
  method's tree, its preservation by every operation, and `RInv.serve_eq`.

  1. histories: `RouterOp`, `Router.apply`, `Router.run`, the guard `HistoryOK`
  2. association-list and `findLongLeaf` facts
  3. `TreeOK`, `Entry`, `RInv`
  4. `RInv.serve_eq`: under the invariant the table answers exactly as the tree does
  5. preservation: `setName`, `setHeaders`, `addMethods`; `run_inv`
-/
import Flamego.Proofs.ShortcutTree
import Flamego.Proofs.Assoc
import Flamego.Props.C09
import Flamego.Model.RouterHistory
namespace Flamego

/-! ### 1. histories: `RouterOp`, `Router.apply`, `Router.run`, `addPairs` are in Model/RouterHistory.lean -/

/-- the guard of the C10 theorems: every registered route is as the parser produces it
    (`ParsedSeg`), and every registration has its own handle — the harness and the Go code give
    every registration its own handler / `*Route` object and its own leaves -/
structure HistoryOK (ops : List RouterOp) : Prop where
  parsed : ∀ hr ∈ addPairs ops, ∀ s ∈ hr.2.segs, ParsedSeg s = true
  distinct : ((addPairs ops).map Prod.fst).Nodup

/-! ### 2. association lists, `findLongLeaf` -/

theorem assocGet_assocDel_other {α β} [BEq α] [LawfulBEq α] (l : List (α × β)) (k k2 : α)
    (hne : k ≠ k2) : assocGet (assocDel l k2) k = assocGet l k := by
  induction l with
  | nil => rfl
  | cons p rest ih =>
    obtain ⟨k', v'⟩ := p
    simp only [assocDel, assocGet] at ih ⊢
    by_cases h2 : (k' == k2) = true
    · have hk : k' = k2 := by simpa using h2
      have h3 : (k' == k) = false := by
        rw [hk]; simpa using fun e : k2 = k => hne e.symm
      simp only [List.filter, h2, Bool.not_true, List.find?, h3]
      exact ih
    · by_cases h3 : (k' == k) = true
      · simp [List.filter, h2, List.find?, h3]
      · simp only [List.filter, h2, Bool.not_false, List.find?, h3]
        exact ih

/-- deleting only removes: what is found afterwards was there before -/
theorem assocGet_assocDel_some {α β} [BEq α] [LawfulBEq α] (l : List (α × β)) (k k2 : α) (v : β)
    (h : assocGet (assocDel l k2) k = some v) : assocGet l k = some v := by
  by_cases hk : k = k2
  · subst hk
    rw [assocGet_assocDel_same] at h
    cases h
  · rw [assocGet_assocDel_other l k k2 hk] at h
    exact h

/-- the eviction loop of `Headers` only removes -/
theorem evict_some (ls : List (String × Leaf)) : ∀ (st : List ((String × Bytes) × Leaf))
    (k : String × Bytes) (v : Leaf),
    assocGet (ls.foldl (fun st (x : String × Leaf) =>
      if x.2.allStatic then assocDel st (x.1, x.2.route.render) else st) st) k = some v →
    assocGet st k = some v := by
  induction ls with
  | nil => intro st k v h; exact h
  | cons x xs ih =>
    intro st k v h
    simp only [List.foldl] at h
    have := ih _ k v h
    split at this
    · exact assocGet_assocDel_some _ _ _ _ this
    · exact this

theorem assocGet_assocSet {α β} [BEq α] [LawfulBEq α] (l : List (α × β)) (k k2 : α) (v w : β)
    (h : assocGet (assocSet l k v) k2 = some w) : (k2 = k ∧ w = v) ∨ (k2 ≠ k ∧ assocGet l k2 = some w) := by
  by_cases hk : k2 = k
  · subst hk
    rw [assocGet_assocSet_same] at h
    cases h
    exact Or.inl ⟨rfl, rfl⟩
  · rw [assocGet_assocSet_other l k k2 v hk] at h
    exact Or.inr ⟨hk, h⟩

theorem findLongLeaf_go_some (hid : Nat) : ∀ (ns : List Node) (l : Leaf),
    findLongLeaf.go hid ns = some l → ∃ n ∈ ns, findLongLeaf hid n = some l
  | [], l, h => by rw [findLongLeaf.go] at h; cases h
  | n :: ns, l, h => by
    rw [findLongLeaf.go] at h
    split at h
    · rename_i l' hl'
      cases h
      exact ⟨n, List.mem_cons_self .., hl'⟩
    · obtain ⟨n', hn', h'⟩ := findLongLeaf_go_some hid ns l h
      exact ⟨n', List.mem_cons_of_mem _ hn', h'⟩

/-- the leaf `findLongLeaf` returns is stored in the tree, carries the handle and is a long form -/
theorem findLongLeaf_some (hid : Nat) : ∀ (n : Node) (l : Leaf), findLongLeaf hid n = some l →
    InTree n.subs n.leaves l ∧ l.hid = hid ∧ l.long = true
  | .mk k p subs leaves, l, h => by
    rw [findLongLeaf] at h
    split at h
    · rename_i l' hl'
      cases h
      have hm := List.mem_of_find?_eq_some hl'
      have hp := List.find?_some hl'
      simp only [Bool.and_eq_true, beq_iff_eq] at hp
      exact ⟨.here _ _ l hm, hp.1, hp.2⟩
    · obtain ⟨n', hn', h'⟩ := findLongLeaf_go_some hid subs l h
      have := findLongLeaf_some hid n' l h'
      obtain ⟨k', p', cs, cl⟩ := n'
      exact ⟨.under _ _ l k' p' cs cl hn' this.1, this.2⟩
termination_by n => sizeOf n
decreasing_by
  have := List.sizeOf_lt_of_mem hn'
  simp only [Node.mk.sizeOf_spec]
  omega

/-! ### 3. the invariant -/

/-- one method's tree: the registration invariants, and every stored leaf belongs to a known
    registration `(handle, route)`; a long leaf flagged all-static of a route without optional last
    segment ends a static path that spells the route text -/
structure TreeOK (used : List (Nat × Route)) (t : Node) : Prop where
  inv : TreeInv t.subs t.leaves
  lit : LitInv t.subs t.leaves
  leaves : ∀ l, InTree t.subs t.leaves l → (l.hid, l.route) ∈ used ∧
    (l.long = true → l.allStatic = true → lastOptional l.route = false →
      ∃ lits, StaticPath t.subs t.leaves lits l ∧ GoodLits lits ∧ renderLits lits = l.route.render)

/-- one entry `(m, text) ↦ leaf` of the shortcut table: the leaf ends a static path of `m`'s tree
    spelling `text`, `text` is the leaf's route text, the leaf is flagged all-static, it is the long
    form of a route whose last segment is not optional, it has no header constraints, and its handle (once created) lists it under `m` -/
structure Entry (R : Router) (m : String) (text : Bytes) (leaf : Leaf) : Prop where
  path : ∃ t lits, assocGet R.trees m = some t ∧ StaticPath t.subs t.leaves lits leaf ∧
    GoodLits lits ∧ renderLits lits = text
  route : leaf.route.render = text
  static : leaf.allStatic = true
  long : leaf.long = true
  noopt : lastOptional leaf.route = false
  nohdr : assocGet R.hdrs leaf.hid = none
  handle : ∀ ls, assocGet R.handles leaf.hid = some ls → (m, leaf) ∈ ls

/-- the router invariant, relative to the registrations `used` made so far -/
structure RInv (used : List (Nat × Route)) (R : Router) : Prop where
  trees : ∀ m t, assocGet R.trees m = some t → TreeOK used t
  fresh : ∀ h, h ∉ used.map Prod.fst → assocGet R.handles h = none ∧ assocGet R.hdrs h = none
  table : ∀ m text leaf, assocGet R.statics (m, text) = some leaf → Entry R m text leaf

/-- `Entry` and `RInv` only look at trees, handles, constraints (and the table) -/
theorem Entry.congr {R R' : Router} {m : String} {text : Bytes} {leaf : Leaf}
    (h : Entry R m text leaf) (ht : R'.trees = R.trees) (hh : R'.hdrs = R.hdrs)
    (hn : R'.handles = R.handles) : Entry R' m text leaf :=
  ⟨by rw [ht]; exact h.path, h.route, h.static, h.long, h.noopt, by rw [hh]; exact h.nohdr,
    by rw [hn]; exact h.handle⟩

theorem RInv.congr {used : List (Nat × Route)} {R R' : Router} (h : RInv used R)
    (ht : R'.trees = R.trees) (hs : R'.statics = R.statics) (hh : R'.hdrs = R.hdrs)
    (hn : R'.handles = R.handles) : RInv used R' :=
  ⟨by rw [ht]; exact h.trees, by rw [hh, hn]; exact h.fresh,
    fun m text leaf hg => (h.table m text leaf (by rw [← hs]; exact hg)).congr ht hh hn⟩

theorem TreeOK.mono {used used' : List (Nat × Route)} {t : Node} (h : TreeOK used t)
    (hsub : ∀ x ∈ used, x ∈ used') : TreeOK used' t :=
  ⟨h.inv, h.lit, fun l hl => ⟨hsub _ (h.leaves l hl).1, (h.leaves l hl).2⟩⟩

theorem RInv.mono {used : List (Nat × Route)} {R : Router} (h : RInv used R) (x : Nat × Route) :
    RInv (x :: used) R :=
  ⟨fun m t hm => (h.trees m t hm).mono (fun y hy => List.mem_cons_of_mem _ hy),
    fun a ha => h.fresh a (fun hm => ha (by simp only [List.map_cons]; exact List.mem_cons_of_mem _ hm)),
    h.table⟩

theorem treeOK_root (used : List (Nat × Route)) : TreeOK used Node.root :=
  ⟨TreeInv.empty, LitInv.empty, fun _ h => absurd h InTree.not_empty⟩

theorem assocGet_mem {α β} [BEq α] [LawfulBEq α] {l : List (α × β)} {k : α} {v : β}
    (h : assocGet l k = some v) : (k, v) ∈ l := by
  unfold assocGet at h
  cases hf : l.find? (·.1 == k) with
  | none => rw [hf] at h; cases h
  | some p =>
    rw [hf] at h
    simp only [Option.map_some, Option.some.injEq] at h
    have hm := List.mem_of_find?_eq_some hf
    have hk := List.find?_some hf
    simp only [beq_iff_eq] at hk
    obtain ⟨a, b⟩ := p
    simp only at hk h
    subst hk; subst h
    exact hm

/-- `newRouter()`: one empty tree per method, an empty table -/
theorem rinv_new : RInv [] Router.new := by
  refine ⟨?_, ?_, ?_⟩
  · intro m t hm
    have := assocGet_mem hm
    simp only [Router.new, List.mem_map] at this
    obtain ⟨_, _, e⟩ := this
    cases e
    exact treeOK_root []
  · intro h _
    exact ⟨rfl, rfl⟩
  · intro m text leaf h
    simp [Router.new, assocGet] at h

/-! ### 4. under the invariant the table answers as the tree does -/

theorem Router.hok_of_none (E : Engine) (R : Router) (req : List (Bytes × Bytes)) (hid : Nat)
    (h : assocGet R.hdrs hid = none) : R.hok E req hid = true := by
  simp [Router.hok, h]

/-- full tree matching on the text of a table entry finds the entry's leaf, without parameters -/
theorem Entry.tree_outcome {used : List (Nat × Route)} {R : Router} (hR : RInv used R) (E : Engine)
    {m : String} {text : Bytes} {leaf : Leaf} (he : Entry R m text leaf) (hdrs : List (Bytes × Bytes)) :
    R.serveTreeOnly E ⟨m, text, hdrs⟩ = .handler leaf [(B "route", leaf.route.render)] := by
  obtain ⟨t, lits, ht, hp, hg, hr⟩ := he.path
  have hT := hR.trees m t ht
  unfold Router.serveTreeOnly
  simp only [ht]
  have hsegs : splitSlash (trimLeftSlash text) = lits := by
    rw [← hr]; exact segs_renderLits hg hp.ne_nil
  cases hl : lits with
  | nil => exact absurd hl hp.ne_nil
  | cons s rest =>
    have hm := matchNext_staticPath E (R.hok E hdrs) leaf
      (Router.hok_of_none E R hdrs leaf.hid he.nohdr) hp hT.inv hT.lit s rest [] hl
    simp only [Node.match, hsegs, hl, hm, List.map_nil, Params.set]

theorem RInv.serve_eq {used : List (Nat × Route)} {R : Router} (hR : RInv used R) (E : Engine)
    (req : Request) : R.serve E req = R.serveTreeOnly E req := by
  unfold Router.serve
  cases hg : assocGet R.statics (req.method, req.path) with
  | none => rfl
  | some leaf =>
    have := (hR.table _ _ _ hg).tree_outcome hR E req.hdrs
    simp only
    rw [← this]

/-! ### 5. every operation keeps the invariant -/

/-- `Route.Name` does not touch trees, table, constraints or handles -/
theorem rinv_setName {used : List (Nat × Route)} {R : Router} (h : RInv used R) (hid : Nat) (nm : Bytes) :
    RInv used ((R.setName hid nm).getD R) := by
  unfold Router.setName
  split
  · exact h
  · split
    · exact h
    · split
      · exact h.congr rfl rfl rfl rfl
      · exact h

/-- `Route.Headers`: the constraints change for the handle only, and every table entry of the
    handle is evicted (`C09.headers_evict_shortcut`) -/
theorem rinv_setHeaders {used : List (Nat × Route)} {R : Router} (h : RInv used R) (hid : Nat)
    (pairs : List HdrPair) : RInv used (R.setHeaders hid pairs) := by
  cases hl : assocGet R.handles hid with
  | none =>
    have : R.setHeaders hid pairs = R := by simp [Router.setHeaders, hl]
    rw [this]; exact h
  | some ls =>
    have hused : hid ∈ used.map Prod.fst := by
      apply Classical.byContradiction
      intro hn
      have := (h.fresh hid hn).1
      rw [hl] at this; cases this
    have hev : ∀ m text leaf, assocGet (R.setHeaders hid pairs).statics (m, text) = some leaf →
        assocGet R.statics (m, text) = some leaf := by
      intro m text leaf hg
      simp only [Router.setHeaders, hl] at hg
      exact evict_some ls R.statics (m, text) leaf hg
    have htrees : (R.setHeaders hid pairs).trees = R.trees := by simp [Router.setHeaders, hl]
    have hhandles : (R.setHeaders hid pairs).handles = R.handles := by simp [Router.setHeaders, hl]
    have hhdrs : (R.setHeaders hid pairs).hdrs = assocSet R.hdrs hid pairs := by
      simp [Router.setHeaders, hl]
    refine ⟨by rw [htrees]; exact h.trees, ?_, ?_⟩
    · intro a ha
      have hne : a ≠ hid := fun e => ha (e ▸ hused)
      rw [hhandles, hhdrs, assocGet_assocSet_other _ _ _ _ hne]
      exact h.fresh a ha
    · intro m text leaf hg
      have he := h.table m text leaf (hev m text leaf hg)
      refine ⟨by rw [htrees]; exact he.path, he.route, he.static, he.long, he.noopt, ?_,
        by rw [hhandles]; exact he.handle⟩
      by_cases hh : leaf.hid = hid
      · exfalso
        have hm : (m, leaf) ∈ ls := he.handle ls (by rw [hh]; exact hl)
        have hnone := C09.headers_evict_shortcut R hid pairs m leaf ls hl hm he.static
        rw [he.route, hg] at hnone
        cases hnone
      · rw [hhdrs, assocGet_assocSet_other _ _ _ _ hh]
        exact he.nohdr

theorem nodup_fst_eq {α β} : ∀ (l : List (α × β)), (l.map Prod.fst).Nodup →
    ∀ a b c, (a, b) ∈ l → (a, c) ∈ l → b = c
  | [], _, _, _, _, h, _ => by cases h
  | x :: xs, hnd, a, b, c, h1, h2 => by
    simp only [List.map_cons, List.nodup_cons] at hnd
    rcases List.mem_cons.mp h1 with e1 | e1 <;> rcases List.mem_cons.mp h2 with e2 | e2
    · rw [← e1] at e2; cases e2; rfl
    · subst e1
      exact absurd (List.mem_map_of_mem (f := Prod.fst) e2) hnd.1
    · subst e2
      exact absurd (List.mem_map_of_mem (f := Prod.fst) e1) hnd.1
    · exact nodup_fst_eq xs hnd.2 a b c e1 e2

/-- a successful registration of a parsed route keeps `TreeOK` -/
theorem TreeOK.addRoute {E : Engine} {used : List (Nat × Route)} {t t' : Node} {r : Route} {hid : Nat}
    (h : TreeOK used t) (hP : ∀ s ∈ r.segs, ParsedSeg s = true) (hu : (hid, r) ∈ used)
    (ha : addRoute E t r hid = .ok t') : TreeOK used t' := by
  refine ⟨addRoute_inv h.inv ha, addRoute_litInv h.lit hP ha, ?_⟩
  intro l hl
  rcases addRoute_new h.lit hP ha l hl with h1 | ⟨h1, h2, h3⟩
  · obtain ⟨hu1, hp1⟩ := h.leaves l h1
    refine ⟨hu1, fun a b c => ?_⟩
    obtain ⟨lits, hp, hg, hr⟩ := hp1 a b c
    exact ⟨lits, addRoute_staticPath h.inv ha lits l hp, hg, hr⟩
  · refine ⟨by rw [h1, h2]; exact hu, fun a b c => ?_⟩
    rw [h2] at c ⊢
    exact (h3 a b).2 c

/-- a table entry survives the replacement of a method's tree by its successor under `addRoute` -/
theorem Entry.addTree {E : Engine} {R : Router} {m m' : String} {text : Bytes} {leaf : Leaf}
    {t t' : Node} {r : Route} {hid : Nat} (he : Entry R m' text leaf)
    (ht : assocGet R.trees m = some t) (hinv : TreeInv t.subs t.leaves)
    (ha : addRoute E t r hid = .ok t') :
    Entry { R with trees := assocSet R.trees m t' } m' text leaf := by
  refine ⟨?_, he.route, he.static, he.long, he.noopt, he.nohdr, he.handle⟩
  obtain ⟨t0, lits, h0, hp, hg, hr⟩ := he.path
  by_cases hm : m' = m
  · subst hm
    rw [ht] at h0; cases h0
    exact ⟨t', lits, assocGet_assocSet_same _ _ _, addRoute_staticPath hinv ha lits leaf hp, hg, hr⟩
  · refine ⟨t0, lits, ?_, hp, hg, hr⟩
    show assocGet (assocSet R.trees m t') m' = some t0
    rw [assocGet_assocSet_other _ _ _ _ hm]; exact h0

/-- one round of the loop of `addMethods` that gets through -/
theorem addMethods_cons (E : Engine) (R : Router) (hid : Nat) (r : Route) (m : String)
    (ms : List String) (acc : List (String × Leaf)) (t t' : Node) (leaf : Leaf)
    (ht : assocGet R.trees m = some t) (ha : addRoute E t r hid = .ok t')
    (hf : findLongLeaf hid t' = some leaf) :
    R.addMethods E hid r (m :: ms) acc =
      Router.addMethods E
        (if leaf.allStatic && !lastOptional r
          then { R with trees := assocSet R.trees m t',
                        statics := assocSet R.statics (m, r.render) leaf }
          else { R with trees := assocSet R.trees m t' })
        hid r ms ((m, leaf) :: acc) := by
  rw [Router.addMethods]
  simp only [ht, ha, hf]

/-- the loop of `addMethods` keeps the invariant.  `used` already contains this registration;
    its handle has not been created yet and has no constraints; `acc` collects, per method done,
    the leaf returned — among them every table entry of this registration. -/
theorem addMethods_inv (E : Engine) (hid : Nat) (r : Route) (hP : ∀ s ∈ r.segs, ParsedSeg s = true)
    (used : List (Nat × Route)) (hu : (hid, r) ∈ used) (hnd : (used.map Prod.fst).Nodup) :
    ∀ (ms : List String) (R : Router) (acc : List (String × Leaf)),
      RInv used R → assocGet R.handles hid = none → assocGet R.hdrs hid = none →
      (∀ m text leaf, assocGet R.statics (m, text) = some leaf → leaf.hid = hid → (m, leaf) ∈ acc) →
      RInv used (R.addMethods E hid r ms acc).1
  | [], R, acc, h, _, _, hacc => by
    rw [Router.addMethods]
    have hin : hid ∈ used.map Prod.fst := List.mem_map_of_mem (f := Prod.fst) hu
    refine ⟨h.trees, ?_, ?_⟩
    · intro a ha
      have hne : a ≠ hid := fun e => ha (e ▸ hin)
      refine ⟨?_, (h.fresh a ha).2⟩
      show assocGet (assocSet R.handles hid acc.reverse) a = none
      rw [assocGet_assocSet_other _ _ _ _ hne]
      exact (h.fresh a ha).1
    · intro m text leaf hg
      have he := h.table m text leaf hg
      refine ⟨he.path, he.route, he.static, he.long, he.noopt, he.nohdr, ?_⟩
      intro ls hls
      have hls' : assocGet (assocSet R.handles hid acc.reverse) leaf.hid = some ls := hls
      by_cases hl : leaf.hid = hid
      · rw [hl, assocGet_assocSet_same] at hls'
        cases hls'
        exact List.mem_reverse.mpr (hacc m text leaf hg hl)
      · rw [assocGet_assocSet_other _ _ _ _ hl] at hls'
        exact he.handle ls hls'
  | m :: ms, R, acc, h, hh, hd, hacc => by
    cases ht : assocGet R.trees m with
    | none =>
      have : R.addMethods E hid r (m :: ms) acc = (R, false) := by
        rw [Router.addMethods]; simp only [ht]
      rw [this]; exact h
    | some t =>
      cases ha : addRoute E t r hid with
      | error e =>
        have : R.addMethods E hid r (m :: ms) acc = (R, false) := by
          rw [Router.addMethods]; simp only [ht, ha]
        rw [this]; exact h
      | ok t' =>
        cases hf : findLongLeaf hid t' with
        | none =>
          have : R.addMethods E hid r (m :: ms) acc = (R, false) := by
            rw [Router.addMethods]; simp only [ht, ha, hf]
          rw [this]; exact h
        | some leaf =>
          rw [addMethods_cons E R hid r m ms acc t t' leaf ht ha hf]
          have hT := h.trees m t ht
          have hT' : TreeOK used t' := hT.addRoute hP hu ha
          obtain ⟨hin, hhid, hlong⟩ := findLongLeaf_some hid t' leaf hf
          have hroute : leaf.route = r :=
            nodup_fst_eq used hnd hid _ _ (hhid ▸ (hT'.leaves leaf hin).1) hu
          -- the router with the new tree
          have h1 : RInv used { R with trees := assocSet R.trees m t' } := by
            refine ⟨?_, h.fresh, fun m' text lf hg => (h.table m' text lf hg).addTree ht hT.inv ha⟩
            intro m' t0 hg
            rcases assocGet_assocSet _ _ _ _ _ hg with ⟨_, rfl⟩ | ⟨_, hold⟩
            · exact hT'
            · exact h.trees m' t0 hold
          by_cases hc : (leaf.allStatic && !lastOptional r) = true
          · rw [if_pos hc]
            simp only [Bool.and_eq_true, Bool.not_eq_true'] at hc
            refine addMethods_inv E hid r hP used hu hnd ms _ _ ?_ (by exact hh) (by exact hd) ?_
            · -- every entry of the table, the new one included
              refine ⟨h1.trees, h1.fresh, ?_⟩
              intro m' text lf hg
              rcases assocGet_assocSet _ _ _ _ _ hg with ⟨hk, rfl⟩ | ⟨_, hold⟩
              · cases hk
                obtain ⟨lits, hp, hgood, hr⟩ :=
                  (hT'.leaves lf hin).2 hlong hc.1 (by rw [hroute]; exact hc.2)
                refine ⟨⟨t', lits, assocGet_assocSet_same _ _ _, hp, hgood, by rw [hr, hroute]⟩,
                  by rw [hroute], hc.1, hlong, by rw [hroute]; exact hc.2, by rw [hhid]; exact hd, ?_⟩
                intro ls hls
                rw [hhid] at hls
                have : assocGet R.handles hid = some ls := hls
                rw [hh] at this; cases this
              · exact (h1.table m' text lf hold).congr rfl rfl rfl
            · intro m' text lf hg hl
              rcases assocGet_assocSet _ _ _ _ _ hg with ⟨hk, rfl⟩ | ⟨_, hold⟩
              · cases hk; exact List.mem_cons_self ..
              · exact List.mem_cons_of_mem _ (hacc m' text lf hold hl)
          · rw [if_neg hc]
            apply addMethods_inv E hid r hP used hu hnd ms _ _ h1 hh hd
            intro m' text lf hg hl
            exact List.mem_cons_of_mem _ (hacc m' text lf hg hl)

/-- `router.addRoute` with a fresh handle keeps the invariant (success or not) -/
theorem rinv_add {used : List (Nat × Route)} {R : Router} (h : RInv used R)
    (hnd : (used.map Prod.fst).Nodup) (E : Engine) (hid : Nat) (r : Route) (methods : List String)
    (hP : ∀ s ∈ r.segs, ParsedSeg s = true) (hfresh : hid ∉ used.map Prod.fst) :
    RInv ((hid, r) :: used) (R.addMethods E hid r methods []).1 := by
  apply addMethods_inv E hid r hP ((hid, r) :: used) (List.mem_cons_self ..)
    (by simp only [List.map_cons, List.nodup_cons]; exact ⟨hfresh, hnd⟩) methods R []
    (h.mono (hid, r)) (h.fresh hid hfresh).1 (h.fresh hid hfresh).2
  intro m text leaf hg hl
  -- an entry of the table belongs to a known registration; `hid` is not one
  exfalso
  obtain ⟨t, lits, ht, hp, _, _⟩ := (h.table m text leaf hg).path
  have := ((h.trees m t ht).leaves leaf hp.inTree).1
  exact hfresh (hl ▸ List.mem_map_of_mem (f := Prod.fst) this)

/-- **(c)** the invariant along a history: from a router satisfying it for the registrations `used`,
    after operations whose registrations are parsed and have fresh, pairwise different handles -/
theorem runFrom_inv (E : Engine) : ∀ (ops : List RouterOp) (used : List (Nat × Route)) (R : Router),
    RInv used R → (∀ hr ∈ addPairs ops, ∀ s ∈ hr.2.segs, ParsedSeg s = true) →
    (((addPairs ops).reverse ++ used).map Prod.fst).Nodup →
    RInv ((addPairs ops).reverse ++ used) (Router.runFrom E R ops)
  | [], used, R, h, _, _ => by simpa [addPairs, Router.runFrom] using h
  | op :: ops, used, R, h, hP, hnd => by
    cases op with
    | add hid r methods =>
      simp only [addPairs, List.reverse_cons, List.append_assoc, List.cons_append,
        List.nil_append] at hnd ⊢
      have hnd' : (((hid, r) :: used).map Prod.fst).Nodup := by
        rw [List.map_append] at hnd
        exact (List.nodup_append.mp hnd).2.1
      have hnd0 := hnd'
      simp only [List.map_cons, List.nodup_cons] at hnd0
      have hstep : RInv ((hid, r) :: used) (R.addMethods E hid r methods []).1 :=
        rinv_add h hnd0.2 E hid r methods (hP (hid, r) (List.mem_cons_self ..)) hnd0.1
      exact runFrom_inv E ops ((hid, r) :: used) _ hstep
        (fun hr hm => hP hr (List.mem_cons_of_mem _ hm)) hnd
    | headers hid pairs =>
      exact runFrom_inv E ops used _ (rinv_setHeaders h hid pairs) hP hnd
    | name hid nm =>
      exact runFrom_inv E ops used _ (rinv_setName h hid nm) hP hnd

theorem nodup_reverse_of {α} {l : List α} (h : l.Nodup) : l.reverse.Nodup := by
  unfold List.Nodup at *
  rw [List.pairwise_reverse]
  exact h.imp (fun h => Ne.symm h)

theorem run_inv (E : Engine) (ops : List RouterOp) (hok : HistoryOK ops) :
    RInv (addPairs ops).reverse (Router.run E ops) := by
  have := runFrom_inv E ops [] Router.new rinv_new hok.parsed
    (by rw [List.append_nil, List.map_reverse]; exact nodup_reverse_of hok.distinct)
  rw [List.append_nil] at this
  exact this

/-! ### 6. evaluating `serveTreeOnly` on a one-segment path (for concrete examples: the matcher is
   defined by well-founded recursion, which `decide` does not unfold) -/

/-- does the tree of method `m` have a leaf at the root that takes the single segment `s`? -/
def rootLeafTakes (E : Engine) (R : Router) (m : String) (s : Bytes) (hdrs : List (Bytes × Bytes)) : Bool :=
  match assocGet R.trees m with
  | none => false
  | some t => (matchLeaves E (R.hok E hdrs) t.leaves s []).1.isSome

theorem serveTreeOnly_single_notFound (E : Engine) (R : Router) (req : Request) (s : Bytes)
    (hs : splitSlash (trimLeftSlash req.path) = [s])
    (h : rootLeafTakes E R req.method s req.hdrs = false) : R.serveTreeOnly E req = .notFound := by
  unfold Router.serveTreeOnly
  unfold rootLeafTakes at h
  cases ht : assocGet R.trees req.method with
  | none => rfl
  | some t =>
    rw [ht] at h
    simp only at h
    simp only [Node.match, hs]
    rw [matchNext]
    cases hm : matchLeaves E (R.hok E req.hdrs) t.leaves s [] with
    | mk o ps =>
      rw [hm] at h
      cases o with
      | none => rfl
      | some l => cases h

end Flamego
