/-
  Proofs/TreeBirth.lean — list order among equally ranked siblings IS registration order.

  Leaves carry the id of the registration that made them (`Leaf.hid`); nodes do not, so the
  "registration time" of a node is read off its subtree: `minHid n`, the smallest id of a leaf
  below `n` — the earliest accepted registration whose route runs through `n`.

  1. `Node.hids` / `treeHids` (the ids stored in a subtree), `listMin`, `minHid`
  2. `BirthInv`: in every sibling list, for equally ranked `a` before `b`: leaves `a.hid < b.hid`
     (or the two forms of ONE registration, static with different literals — the root route
     "/?x" puts its short and its long leaf in the same list); nodes `minHid a < minHid b`;
     every node has a leaf beneath it
  3. one registration: `addLeafTo_hids`, `addNext_hids`, `addRoute_hids` (the ids afterwards are the
     ids before plus the new one), `addNext_birth`, `addRoute_birth` (the invariant is kept when the
     new id is larger than every id in the tree)
  4. histories with strictly increasing ids: `build_hids`, `build_birth`
-/
import Flamego.Proofs.TreeMatch
import Flamego.Proofs.TreeAdd
import Flamego.Proofs.ShortcutTree
namespace Flamego

/-! ### 1. the registration ids below a node -/

mutual
/-- the ids of all leaves in the subtree of a node -/
def Node.hids : Node → List Nat
  | .mk _ _ subs leaves => leaves.map Leaf.hid ++ Node.hidsList subs
def Node.hidsList : List Node → List Nat
  | [] => []
  | n :: ns => n.hids ++ Node.hidsList ns
end

/-- the ids below a node given by its two child lists -/
def treeHids (subs : List Node) (leaves : List Leaf) : List Nat :=
  leaves.map Leaf.hid ++ Node.hidsList subs

theorem Node.hids_mk (k : Bytes) (p : Pat) (cs : List Node) (cl : List Leaf) :
    (Node.mk k p cs cl).hids = treeHids cs cl := by
  rw [Node.hids, treeHids]

theorem Node.hids_eq (n : Node) : n.hids = treeHids n.subs n.leaves := by
  cases n; exact Node.hids_mk ..

theorem mem_hidsList {x : Nat} : ∀ {ns : List Node}, x ∈ Node.hidsList ns ↔ ∃ n ∈ ns, x ∈ n.hids
  | [] => by simp [Node.hidsList]
  | n :: ns => by
    rw [Node.hidsList, List.mem_append, mem_hidsList (ns := ns)]
    simp only [List.mem_cons, exists_eq_or_imp]

theorem mem_treeHids {x : Nat} {subs : List Node} {leaves : List Leaf} :
    x ∈ treeHids subs leaves ↔ (∃ l ∈ leaves, l.hid = x) ∨ ∃ n ∈ subs, x ∈ n.hids := by
  rw [treeHids, List.mem_append, List.mem_map, mem_hidsList]

theorem treeHids_nil : treeHids [] [] = [] := by simp [treeHids, Node.hidsList]

/-- the smallest element of a list of numbers (0 for the empty list) -/
def listMin : List Nat → Nat
  | [] => 0
  | [a] => a
  | a :: b :: l => min a (listMin (b :: l))

theorem listMin_mem : ∀ {l : List Nat}, l ≠ [] → listMin l ∈ l
  | [], h => absurd rfl h
  | [a], _ => by simp [listMin]
  | a :: b :: l, _ => by
    have ih := listMin_mem (l := b :: l) (by simp)
    rw [listMin]
    by_cases h : a ≤ listMin (b :: l)
    · rw [Nat.min_eq_left h]; exact List.mem_cons_self ..
    · rw [Nat.min_eq_right (by omega)]; exact List.mem_cons_of_mem _ ih

theorem listMin_le : ∀ {l : List Nat} {x : Nat}, x ∈ l → listMin l ≤ x
  | [], _, h => by cases h
  | [a], x, h => by simp at h; subst h; simp [listMin]
  | a :: b :: l, x, h => by
    rw [listMin]
    rcases List.mem_cons.mp h with rfl | h
    · exact Nat.min_le_left ..
    · exact Nat.le_trans (Nat.min_le_right ..) (listMin_le h)

/-- the minimum is determined by membership: a member below all the others is it -/
theorem listMin_eq {l : List Nat} {m : Nat} (hm : m ∈ l) (hle : ∀ x ∈ l, m ≤ x) : listMin l = m := by
  have h1 := listMin_le hm
  have h2 := hle _ (listMin_mem (List.ne_nil_of_mem hm))
  omega

/-- **the registration time of a node**: the smallest id of a leaf in its subtree, i.e. the
    earliest accepted registration whose route goes through the node -/
def minHid (n : Node) : Nat := listMin n.hids

theorem minHid_mem {n : Node} (h : n.hids ≠ []) : minHid n ∈ n.hids := listMin_mem h
theorem minHid_le {n : Node} {x : Nat} (h : x ∈ n.hids) : minHid n ≤ x := listMin_le h

/-- two nodes with the same ids below them (as sets) have the same registration time -/
theorem minHid_congr {n m : Node} (hne : n.hids ≠ []) (h : ∀ x, x ∈ m.hids ↔ x ∈ n.hids) :
    minHid m = minHid n :=
  listMin_eq ((h _).mpr (minHid_mem hne)) (fun x hx => minHid_le ((h x).mp hx))

/-! ### 2. the invariant -/

/-- the order of two leaves of one list, the first one earlier in the list: if they have the same
    rank the first one was registered earlier — or they are the two forms of one registration, both
    static with different literals (so they never accept the same segment) -/
def LeafOrd (a b : Leaf) : Prop :=
  a.pat.rank = b.pat.rank →
    a.hid < b.hid ∨ (a.hid = b.hid ∧ ∃ la lb, a.pat = .static la ∧ b.pat = .static lb ∧ la ≠ lb)

/-- the order of two children of one node, the first one earlier in the list: if they have the
    same rank, the first one's earliest route is older -/
def NodeOrd (a b : Node) : Prop := a.pat.rank = b.pat.rank → minHid a < minHid b

/-- list order among equally ranked siblings is registration order, at every depth, and every
    node has a leaf beneath it -/
inductive BirthInv : List Node → List Leaf → Prop
  | mk (subs : List Node) (leaves : List Leaf)
      (hl : leaves.Pairwise LeafOrd) (hs : subs.Pairwise NodeOrd)
      (hne : ∀ n ∈ subs, n.hids ≠ [])
      (hc : ∀ k p cs cl, Node.mk k p cs cl ∈ subs → BirthInv cs cl) :
      BirthInv subs leaves

theorem BirthInv.leavesOrd {subs leaves} (h : BirthInv subs leaves) : leaves.Pairwise LeafOrd := by
  cases h; assumption
theorem BirthInv.subsOrd {subs leaves} (h : BirthInv subs leaves) : subs.Pairwise NodeOrd := by
  cases h; assumption
theorem BirthInv.nonempty {subs leaves} (h : BirthInv subs leaves) : ∀ n ∈ subs, n.hids ≠ [] := by
  cases h; assumption
theorem BirthInv.child {subs leaves} (h : BirthInv subs leaves) {k p cs cl}
    (hm : Node.mk k p cs cl ∈ subs) : BirthInv cs cl := by
  cases h with | mk _ _ _ _ _ hc => exact hc k p cs cl hm

theorem BirthInv.empty : BirthInv [] [] :=
  .mk [] [] List.Pairwise.nil List.Pairwise.nil (fun _ h => by cases h) (fun _ _ _ _ h => by cases h)

/-! ### 3. one registration -/

/-- a relation that holds between the old elements, between every old element of lower-or-equal
    rank and the new one, and between the new one and every old element of greater rank, holds
    pairwise after the insertion -/
theorem insertByRank_pairwise {α : Type} (rank : α → Nat) (R : α → α → Prop) (x : α) (l : List α)
    (hs : l.Pairwise (fun a b => rank a ≤ rank b)) (hR : l.Pairwise R)
    (h1 : ∀ a ∈ l, rank a ≤ rank x → R a x) (h2 : ∀ b ∈ l, rank x < rank b → R x b) :
    (insertByRank rank x l).Pairwise R := by
  obtain ⟨pre, post, e1, e2, h3, h4⟩ := insertByRank_split rank x l hs
  rw [e2]
  subst e1
  rw [List.pairwise_append] at hR
  rw [List.pairwise_append, List.pairwise_cons]
  refine ⟨hR.1, ⟨fun b hb => h2 b (by simp [hb]) (h4 b hb), hR.2.1⟩, ?_⟩
  intro a ha b hb
  rcases List.mem_cons.mp hb with rfl | hb
  · exact h1 a (by simp [ha]) (h3 a ha)
  · exact hR.2.2 a ha b hb

theorem addLeafTo_hids {E : Engine} {leaves leaves' : List Leaf} {ab : List Bytes} {as : Bool}
    {r : Route} {s : Segment} {hid : Nat} {long : Bool}
    (h : addLeafTo E leaves ab as r s hid long = .ok leaves') (x : Nat) :
    (∃ l ∈ leaves', l.hid = x) ↔ ((∃ l ∈ leaves, l.hid = x) ∨ x = hid) := by
  obtain ⟨p, _, hmem⟩ := addLeafTo_mem h
  constructor
  · rintro ⟨l, hl, rfl⟩
    rcases (hmem l).mp hl with hl | rfl
    · exact Or.inl ⟨l, hl, rfl⟩
    · exact Or.inr rfl
  · rintro (⟨l, hl, rfl⟩ | rfl)
    · exact ⟨l, (hmem l).mpr (Or.inl hl), rfl⟩
    · exact ⟨_, (hmem _).mpr (Or.inr rfl), rfl⟩

/-- a new leaf whose id is larger than every id in the list keeps the leaf order -/
theorem addLeafTo_leafOrd {E : Engine} {leaves leaves' : List Leaf} {ab : List Bytes} {as : Bool}
    {r : Route} {s : Segment} {hid : Nat} {long : Bool}
    (hinv : ListInv Leaf.pat Leaf.key leaves) (ho : leaves.Pairwise LeafOrd)
    (hlt : ∀ l ∈ leaves, l.hid < hid)
    (h : addLeafTo E leaves ab as r s hid long = .ok leaves') : leaves'.Pairwise LeafOrd := by
  obtain ⟨p, _, _, _, _, rfl⟩ := addLeafTo_ok h
  refine insertByRank_pairwise (fun l : Leaf => l.pat.rank) LeafOrd _ leaves hinv.sorted ho ?_ ?_
  · intro a ha _ _
    exact Or.inl (hlt a ha)
  · intro b _ hb e
    simp only [newLeaf] at hb e
    omega

theorem hidsList_replaceNode {subs : List Node} {c n : Node}
    (hk : subs.Pairwise (fun a b => a.key ≠ b.key)) (hc : c ∈ subs) (x : Nat) (X : Prop)
    (hn : x ∈ n.hids ↔ x ∈ c.hids ∨ X) :
    x ∈ Node.hidsList (replaceNode subs c.key n) ↔ x ∈ Node.hidsList subs ∨ X := by
  rw [mem_hidsList, mem_hidsList]
  constructor
  · rintro ⟨m, hm, hx⟩
    rcases (replaceNode_mem subs c n hk hc m).mp hm with rfl | ⟨hm', _⟩
    · rcases hn.mp hx with h | h
      · exact Or.inl ⟨c, hc, h⟩
      · exact Or.inr h
    · exact Or.inl ⟨m, hm', hx⟩
  · rintro (⟨m, hm, hx⟩ | hX)
    · by_cases hmc : m = c
      · subst hmc
        exact ⟨n, (replaceNode_mem subs m n hk hc n).mpr (Or.inl rfl), hn.mpr (Or.inl hx)⟩
      · exact ⟨m, (replaceNode_mem subs c n hk hc m).mpr (Or.inr ⟨hm, hmc⟩), hx⟩
    · exact ⟨n, (replaceNode_mem subs c n hk hc n).mpr (Or.inl rfl), hn.mpr (Or.inr hX)⟩

theorem hidsList_insertByRank (rank : Node → Nat) (subs : List Node) (n : Node) (x : Nat) :
    x ∈ Node.hidsList (insertByRank rank n subs) ↔ x ∈ Node.hidsList subs ∨ x ∈ n.hids := by
  rw [mem_hidsList, mem_hidsList]
  constructor
  · rintro ⟨m, hm, hx⟩
    rcases (insertByRank_mem rank n m subs).mp hm with rfl | hm'
    · exact Or.inr hx
    · exact Or.inl ⟨m, hm', hx⟩
  · rintro (⟨m, hm, hx⟩ | hx)
    · exact ⟨m, (insertByRank_mem rank n m subs).mpr (Or.inr hm), hx⟩
    · exact ⟨n, (insertByRank_mem rank n n subs).mpr (Or.inl rfl), hx⟩

/-- **a successful registration step leaves its id behind, and nothing else**: the ids below the
    node afterwards are the ids before plus the new one (so no node is left without a leaf) -/
theorem addNext_hids (E : Engine) (r : Route) (hid : Nat) :
    ∀ (segs : List Segment) (subs subs' : List Node) (leaves leaves' : List Leaf)
      (ab : List Bytes) (aa as short : Bool),
      TreeInv subs leaves →
      addNext E r hid segs subs leaves ab aa as = .ok (subs', leaves', short) →
      ∀ x, x ∈ treeHids subs' leaves' ↔ (x ∈ treeHids subs leaves ∨ x = hid)
  | [], _, _, _, _, _, _, _, _, _, h => by rw [addNext] at h; cases h
  | [s], subs, subs', leaves, leaves', ab, aa, as, short, _, h => by
    obtain ⟨rfl, _, hl⟩ := addNext_single_ok h
    intro x
    have := addLeafTo_hids hl x
    simp only [treeHids, List.mem_append, List.mem_map]
    rw [this]
    constructor
    · rintro ((h | h) | h)
      · exact Or.inl (Or.inl h)
      · exact Or.inr h
      · exact Or.inl (Or.inr h)
    · rintro ((h | h) | h)
      · exact Or.inl (Or.inl h)
      · exact Or.inr h
      · exact Or.inl (Or.inr h)
  | s :: s2 :: rest, subs, subs', leaves, leaves', ab, aa, as, short, hinv, h => by
    obtain ⟨_, _, cpat, csubs, cleaves, csubs', cleaves', sh, as', hrec, hlv, hsub⟩ :=
      addNext_cons_ok h
    intro x
    have hleaf : (∃ l ∈ leaves', l.hid = x) → ((∃ l ∈ leaves, l.hid = x) ∨ x = hid) := by
      rcases hlv with ⟨_, hl⟩ | ⟨_, rfl⟩
      · exact (addLeafTo_hids hl x).mp
      · exact Or.inl
    have hleaf' : (∃ l ∈ leaves, l.hid = x) → (∃ l ∈ leaves', l.hid = x) := by
      rcases hlv with ⟨_, hl⟩ | ⟨_, rfl⟩
      · exact fun h => (addLeafTo_hids hl x).mpr (Or.inl h)
      · exact id
    have hsubs : x ∈ Node.hidsList subs' ↔ x ∈ Node.hidsList subs ∨ x = hid := by
      rcases hsub with ⟨hmem, rfl⟩ | ⟨_, _, rfl, rfl, _, _, _, rfl⟩
      · have ih := addNext_hids E r hid (s2 :: rest) _ _ _ _ _ _ _ _ (hinv.child hmem) hrec x
        exact hidsList_replaceNode (c := .mk s.render cpat csubs cleaves) hinv.subsInv.keys hmem x _
          (by rw [Node.hids_mk, Node.hids_mk]; exact ih)
      · have ih := addNext_hids E r hid (s2 :: rest) _ _ _ _ _ _ _ _ TreeInv.empty hrec x
        rw [hidsList_insertByRank, Node.hids_mk, ih, treeHids_nil]
        simp
    simp only [treeHids, List.mem_append, List.mem_map] at hsubs ⊢
    rw [hsubs]
    constructor
    · rintro (h | h | h)
      · rcases hleaf h with h | h
        · exact Or.inl (Or.inl h)
        · exact Or.inr h
      · exact Or.inl (Or.inr h)
      · exact Or.inr h
    · rintro ((h | h) | h)
      · exact Or.inl (hleaf' h)
      · exact Or.inr (Or.inl h)
      · exact Or.inr (Or.inr h)

/-- **one registration step keeps the birth order** when its id is larger than every id below
    the node: a new leaf or child lands at the end of its rank's run behind older ones; an
    existing child that the route descends into keeps its registration time -/
theorem addNext_birth (E : Engine) (r : Route) (hid : Nat) :
    ∀ (segs : List Segment) (subs subs' : List Node) (leaves leaves' : List Leaf)
      (ab : List Bytes) (aa as short : Bool),
      TreeInv subs leaves → BirthInv subs leaves → (∀ x ∈ treeHids subs leaves, x < hid) →
      addNext E r hid segs subs leaves ab aa as = .ok (subs', leaves', short) →
      BirthInv subs' leaves'
  | [], _, _, _, _, _, _, _, _, _, _, _, h => by rw [addNext] at h; cases h
  | [s], subs, subs', leaves, leaves', ab, aa, as, short, hinv, hb, hlt, h => by
    obtain ⟨rfl, _, hl⟩ := addNext_single_ok h
    refine .mk _ _ ?_ hb.subsOrd hb.nonempty (fun k p cs cl hm => hb.child hm)
    exact addLeafTo_leafOrd hinv.leavesInv hb.leavesOrd
      (fun l hl => hlt _ (mem_treeHids.mpr (Or.inl ⟨l, hl, rfl⟩))) hl
  | s :: s2 :: rest, subs, subs', leaves, leaves', ab, aa, as, short, hinv, hb, hlt, h => by
    obtain ⟨_, _, cpat, csubs, cleaves, csubs', cleaves', sh, as', hrec, hlv, hsub⟩ :=
      addNext_cons_ok h
    have hleaves : leaves'.Pairwise LeafOrd := by
      rcases hlv with ⟨_, hl⟩ | ⟨_, rfl⟩
      · exact addLeafTo_leafOrd hinv.leavesInv hb.leavesOrd
          (fun l hl => hlt _ (mem_treeHids.mpr (Or.inl ⟨l, hl, rfl⟩))) hl
      · exact hb.leavesOrd
    have hsublt : ∀ n ∈ subs, ∀ x ∈ n.hids, x < hid :=
      fun n hn x hx => hlt x (mem_treeHids.mpr (Or.inr ⟨n, hn, hx⟩))
    rcases hsub with ⟨hmem, rfl⟩ | ⟨hfresh, _, rfl, rfl, _, _, _, rfl⟩
    · -- descent into the existing child `c`
      have hclt : ∀ x ∈ treeHids csubs cleaves, x < hid := by
        intro x hx
        exact hsublt _ hmem x (by rw [Node.hids_mk]; exact hx)
      have hchild : BirthInv csubs' cleaves' :=
        addNext_birth E r hid (s2 :: rest) _ _ _ _ _ _ _ _ (hinv.child hmem) (hb.child hmem) hclt hrec
      have hids := addNext_hids E r hid (s2 :: rest) _ _ _ _ _ _ _ _ (hinv.child hmem) hrec
      have hcne : (Node.mk s.render cpat csubs cleaves).hids ≠ [] := hb.nonempty _ hmem
      -- the replaced child keeps its registration time: the new id is larger than its minimum
      have hmin : minHid (.mk s.render cpat csubs' cleaves') = minHid (.mk s.render cpat csubs cleaves) := by
        have hm := minHid_mem hcne
        refine listMin_eq ?_ ?_
        · rw [Node.hids_mk, hids]; left; rw [← Node.hids_mk s.render cpat]; exact hm
        · intro x hx
          rw [Node.hids_mk, hids] at hx
          rcases hx with hx | rfl
          · exact minHid_le (by rw [Node.hids_mk]; exact hx)
          · exact Nat.le_of_lt (hsublt _ hmem _ hm)
      -- what `replaceNode` does to one element: same pattern, same registration time
      have hf : ∀ m ∈ subs,
          (if m.key = s.render then Node.mk s.render cpat csubs' cleaves' else m).pat = m.pat ∧
          minHid (if m.key = s.render then Node.mk s.render cpat csubs' cleaves' else m) = minHid m := by
        intro m hm
        by_cases hk : m.key = s.render
        · have : m = .mk s.render cpat csubs cleaves :=
            eq_of_key_eq Node.key subs hinv.subsInv.keys m hm _ hmem hk
          subst this
          simp only [Node.key, ↓reduceIte, Node.pat, hmin, and_self]
        · simp only [hk, ↓reduceIte, and_self]
      refine .mk _ _ hleaves ?_ ?_ ?_
      · unfold replaceNode
        rw [List.pairwise_map]
        refine hb.subsOrd.imp_of_mem ?_
        intro a b ha hb' hab
        unfold NodeOrd
        rw [(hf a ha).1, (hf a ha).2, (hf b hb').1, (hf b hb').2]
        exact hab
      · intro n hn
        rcases (replaceNode_mem subs (.mk s.render cpat csubs cleaves) _ hinv.subsInv.keys hmem n).mp hn
          with rfl | ⟨hn', _⟩
        · intro he
          have := (hids hid).mpr (Or.inr rfl)
          rw [← Node.hids_mk s.render cpat, he] at this
          cases this
        · exact hb.nonempty n hn'
      · intro k p cs cl hm
        rcases (replaceNode_mem subs (.mk s.render cpat csubs cleaves) _ hinv.subsInv.keys hmem _).mp hm
          with heq | ⟨hm', _⟩
        · cases heq; exact hchild
        · exact hb.child hm'
    · -- a fresh child: everything below it carries the new id
      have hchild : BirthInv csubs' cleaves' :=
        addNext_birth E r hid (s2 :: rest) _ _ _ _ _ _ _ _ TreeInv.empty BirthInv.empty
          (by rw [treeHids_nil]; intro x hx; cases hx) hrec
      have hids := addNext_hids E r hid (s2 :: rest) _ _ _ _ _ _ _ _ TreeInv.empty hrec
      have hnew : ∀ x, x ∈ (Node.mk s.render cpat csubs' cleaves').hids ↔ x = hid := by
        intro x; rw [Node.hids_mk, hids, treeHids_nil]; simp
      have hmin : minHid (.mk s.render cpat csubs' cleaves') = hid :=
        listMin_eq ((hnew hid).mpr rfl) (fun x hx => by rw [(hnew x).mp hx]; exact Nat.le_refl _)
      refine .mk _ _ hleaves ?_ ?_ ?_
      · refine insertByRank_pairwise (fun n : Node => n.pat.rank) NodeOrd _ subs hinv.subsInv.sorted
          hb.subsOrd ?_ ?_
        · intro a ha _ _
          rw [hmin]
          exact hsublt a ha _ (minHid_mem (hb.nonempty a ha))
        · intro b _ hlt' e
          omega
      · intro n hn
        rcases (insertByRank_mem _ _ _ _).mp hn with rfl | hn'
        · intro he
          have := (hnew hid).mpr rfl
          rw [he] at this
          cases this
        · exact hb.nonempty n hn'
      · intro k p cs cl hm
        rcases (insertByRank_mem _ _ _ _).mp hm with heq | hm'
        · cases heq; exact hchild
        · exact hb.child hm'

/-- the ids of a tree after a successful `addRoute`: the old ones and the new one -/
theorem addRoute_hids {E : Engine} {t t' : Node} {r : Route} {hid : Nat}
    (hinv : TreeInv t.subs t.leaves) (h : addRoute E t r hid = .ok t') (x : Nat) :
    x ∈ t'.hids ↔ (x ∈ t.hids ∨ x = hid) := by
  obtain ⟨k, p, subs, leaves⟩ := t
  simp only [Node.subs, Node.leaves] at hinv
  rcases addRoute_ok h with ⟨s, l1, l2, _, _, h1, h2, rfl⟩ | ⟨s, l, _, _, h1, rfl⟩ |
    ⟨s, s2, rest, subs', leaves', sh, _, h1, rfl⟩
  · have e1 := addLeafTo_hids h1 x
    have e2 := addLeafTo_hids h2 x
    simp only [Node.hids_mk, treeHids, List.mem_append, List.mem_map]
    rw [e2, e1]
    constructor
    · rintro (((h | h) | h) | h)
      · exact Or.inl (Or.inl h)
      · exact Or.inr h
      · exact Or.inr h
      · exact Or.inl (Or.inr h)
    · rintro ((h | h) | h)
      · exact Or.inl (Or.inl (Or.inl h))
      · exact Or.inr h
      · exact Or.inl (Or.inr h)
  · have e1 := addLeafTo_hids h1 x
    simp only [Node.hids_mk, treeHids, List.mem_append, List.mem_map]
    rw [e1]
    constructor
    · rintro ((h | h) | h)
      · exact Or.inl (Or.inl h)
      · exact Or.inr h
      · exact Or.inl (Or.inr h)
    · rintro ((h | h) | h)
      · exact Or.inl (Or.inl h)
      · exact Or.inr h
      · exact Or.inl (Or.inr h)
  · rw [Node.hids_mk, Node.hids_mk]
    exact addNext_hids E r hid _ _ _ _ _ _ _ _ _ hinv h1 x

/-- **one registration keeps the birth order** when its id is larger than every id in the tree -/
theorem addRoute_birth {E : Engine} {t t' : Node} {r : Route} {hid : Nat}
    (hinv : TreeInv t.subs t.leaves) (hb : BirthInv t.subs t.leaves) (hlt : ∀ x ∈ t.hids, x < hid)
    (h : addRoute E t r hid = .ok t') : BirthInv t'.subs t'.leaves := by
  obtain ⟨k, p, subs, leaves⟩ := t
  simp only [Node.subs, Node.leaves] at hinv hb
  rw [Node.hids_mk] at hlt
  have hleaflt : ∀ l ∈ leaves, l.hid < hid :=
    fun l hl => hlt _ (mem_treeHids.mpr (Or.inl ⟨l, hl, rfl⟩))
  rcases addRoute_ok h with ⟨s, l1, l2, _, _, h1, h2, rfl⟩ | ⟨s, l, _, _, h1, rfl⟩ |
    ⟨s, s2, rest, subs', leaves', sh, _, h1, rfl⟩
  · -- "/?x": the short leaf (static, empty literal) and then the long leaf, same id
    simp only [Node.subs, Node.leaves]
    refine .mk _ _ ?_ hb.subsOrd hb.nonempty (fun k p cs cl hm => hb.child hm)
    have ho1 : l1.Pairwise LeafOrd := addLeafTo_leafOrd hinv.leavesInv hb.leavesOrd hleaflt h1
    have hinv1 : ListInv Leaf.pat Leaf.key l1 := addLeafTo_inv hinv.leavesInv h1
    obtain ⟨p1, hp1, hmem1⟩ := addLeafTo_mem h1
    rw [classifyLeaf_empty] at hp1
    cases hp1
    obtain ⟨p2, hp2, hfresh2, _, _, rfl⟩ := addLeafTo_ok h2
    refine insertByRank_pairwise (fun l : Leaf => l.pat.rank) LeafOrd _ l1 hinv1.sorted ho1 ?_ ?_
    · intro a ha _ hrk
      rcases (hmem1 a).mp ha with ha | rfl
      · exact Or.inl (hleaflt a ha)
      · -- the short leaf of this very registration: both static, literals [] and the long key
        refine Or.inr ⟨rfl, ?_⟩
        simp only [newLeaf] at hrk ⊢
        cases p2 with
        | static lit =>
          refine ⟨[], lit, rfl, rfl, ?_⟩
          have hk := classifyLeaf_static_key hp2
          have := hfresh2 _ ha
          simp only [Segment.leafKey, List.flatMap_nil] at this
          intro e
          rw [← e] at hk
          exact this (by rw [← hk]; rfl)
        | regex _ _ => exact absurd hrk (by simp only [Pat.rank]; decide)
        | hole _ => exact absurd hrk (by simp only [Pat.rank]; decide)
        | all _ _ => exact absurd hrk (by simp only [Pat.rank]; decide)
    · intro b _ hlt' e
      simp only [newLeaf] at hlt' e
      omega
  · simp only [Node.subs, Node.leaves]
    exact .mk _ _ (addLeafTo_leafOrd hinv.leavesInv hb.leavesOrd hleaflt h1) hb.subsOrd hb.nonempty
      (fun k p cs cl hm => hb.child hm)
  · exact addNext_birth E r hid _ _ _ _ _ _ _ _ _ hinv hb hlt h1

/-! ### 4. histories with strictly increasing ids -/

/-- the ids stored in the tree are those of the accepted registrations (any ids) -/
theorem buildFrom_hids (E : Engine) : ∀ (h : List (Route × Nat)) (t : Node),
    TreeInv t.subs t.leaves →
    ∀ x, x ∈ (buildFrom E t h).hids ↔ (x ∈ t.hids ∨ x ∈ (acceptedFrom E t h).map (·.2))
  | [], t, _, x => by simp [buildFrom, acceptedFrom]
  | rh :: h, t, hinv, x => by
    rw [buildFrom, acceptedFrom]
    cases hr : addRoute E t rh.1 rh.2 with
    | ok t' =>
      simp only
      rw [buildFrom_hids E h t' (addRoute_inv hinv hr) x, addRoute_hids hinv hr x]
      simp only [List.map_cons, List.mem_cons, or_assoc]
    | error e => exact buildFrom_hids E h t hinv x

/-- **the ids in a built tree are exactly the ids of the accepted registrations** — a failed
    registration leaves no leaf (and, with `BirthInv`, no node) behind -/
theorem build_hids (E : Engine) (h : List (Route × Nat)) (x : Nat) :
    x ∈ (build E h).hids ↔ x ∈ (accepted E h).map (·.2) := by
  have := buildFrom_hids E h Node.root TreeInv.empty x
  rw [build, accepted, this]
  simp [Node.root, Node.hids, Node.hidsList]

theorem buildFrom_birth (E : Engine) : ∀ (h : List (Route × Nat)) (t : Node),
    TreeInv t.subs t.leaves → BirthInv t.subs t.leaves →
    (h.map (·.2)).Pairwise (· < ·) → (∀ x ∈ t.hids, ∀ rh ∈ h, x < rh.2) →
    BirthInv (buildFrom E t h).subs (buildFrom E t h).leaves
  | [], _, _, hb, _, _ => hb
  | rh :: h, t, hinv, hb, hinc, hlt => by
    rw [buildFrom]
    rw [List.map_cons, List.pairwise_cons] at hinc
    cases hr : addRoute E t rh.1 rh.2 with
    | ok t' =>
      refine buildFrom_birth E h t' (addRoute_inv hinv hr)
        (addRoute_birth hinv hb (fun x hx => hlt x hx rh (List.mem_cons_self ..)) hr) hinc.2 ?_
      intro x hx rh' hrh'
      rcases (addRoute_hids hinv hr x).mp hx with hx | rfl
      · exact hlt x hx rh' (List.mem_cons_of_mem _ hrh')
      · exact hinc.1 rh'.2 (List.mem_map.mpr ⟨rh', hrh', rfl⟩)
    | error e =>
      exact buildFrom_birth E h t hinv hb hinc.2
        (fun x hx rh' hrh' => hlt x hx rh' (List.mem_cons_of_mem _ hrh'))

/-- **list order among equally ranked siblings is registration order** in every tree built from
    a history whose registration ids increase -/
theorem build_birth (E : Engine) (h : List (Route × Nat)) (hinc : (h.map (·.2)).Pairwise (· < ·)) :
    BirthInv (build E h).subs (build E h).leaves :=
  buildFrom_birth E h Node.root TreeInv.empty BirthInv.empty hinc
    (fun x hx => by simp [Node.root, Node.hids, Node.hidsList] at hx)

end Flamego
