/-
  Proofs/Inject.lean — lemmas about Model/Inject (used by Props/C04).
-/
import Flamego.Model.Inject
namespace Flamego.Inject

/-! ### lookup -/

theorem lookup_append (a b : Scope) (t : Ty) :
    lookup (a ++ b) t = match lookup b t with | some w => some w | none => lookup a t := by
  induction a with
  | nil => cases h : lookup b t <;> simp [h, lookup]
  | cons e a ih =>
    obtain ⟨k, v⟩ := e
    simp only [List.cons_append, lookup, ih]
    cases lookup b t <;> simp

theorem lookup_register_same (s : Scope) (t : Ty) (v : Val) : lookup (register s t v) t = some v := by
  simp [register, lookup_append, lookup]

theorem lookup_register_ne (s : Scope) (t t' : Ty) (v : Val) (h : t' ≠ t) :
    lookup (register s t v) t' = lookup s t' := by
  have h' : ¬ t = t' := fun e => h e.symm
  simp [register, lookup_append, lookup, h']

theorem lookup_some_mem {s : Scope} {t : Ty} {v : Val} (h : lookup s t = some v) : (t, v) ∈ s := by
  induction s with
  | nil => simp [lookup] at h
  | cons e s ih =>
    obtain ⟨k, w⟩ := e
    simp only [lookup] at h
    cases hl : lookup s t with
    | some x => rw [hl] at h; simp at h; subst h; exact List.mem_cons_of_mem _ (ih hl)
    | none =>
      rw [hl] at h
      by_cases hk : k = t
      · simp [hk] at h; subst h; subst hk; simp
      · simp [hk] at h

theorem lookup_none_iff (s : Scope) (t : Ty) : lookup s t = none ↔ ∀ e ∈ s, e.1 ≠ t := by
  induction s with
  | nil => simp [lookup]
  | cons e s ih =>
    obtain ⟨k, w⟩ := e
    simp only [lookup]
    cases hl : lookup s t with
    | some x =>
      simp only [List.mem_cons, reduceCtorEq, false_iff]
      intro h
      have := ih.mpr (fun e he => h e (Or.inr he))
      rw [hl] at this; cases this
    | none =>
      have := ih.mp hl
      by_cases hk : k = t
      · simp [hk]
      · simp only [hk, if_false, List.mem_cons, true_iff]
        rintro e (rfl | he)
        · exact hk
        · exact this e he

/-- an admissible implementor answer is exactly a current map entry under an implementing key -/
theorem mem_implementors (U : Universe) (s : Scope) (t : Ty) (v : Val) :
    v ∈ implementors U s t ↔ ∃ k, U.implements k t = true ∧ lookup s k = some v := by
  simp only [implementors, List.mem_map, List.mem_filter, Bool.and_eq_true, beq_iff_eq]
  constructor
  · rintro ⟨⟨k, w⟩, ⟨_, hi, hl⟩, rfl⟩
    exact ⟨k, hi, hl⟩
  · rintro ⟨k, hi, hl⟩
    exact ⟨(k, v), ⟨lookup_some_mem hl, hi, hl⟩, rfl⟩

/-! ### valueSet -/

theorem valueSet_exact (U : Universe) (s : Scope) (parents : List Scope) (t : Ty) (v : Val)
    (h : lookup s t = some v) : valueSet U (s :: parents) t = [v] := by
  simp [valueSet, h]

theorem valueSet_impl (U : Universe) (s : Scope) (parents : List Scope) (t : Ty)
    (h : lookup s t = none) (hi : U.isInterface t = true) (hne : implementors U s t ≠ []) :
    valueSet U (s :: parents) t = implementors U s t := by
  simp [valueSet, h, hi, hne]

theorem valueSet_parent_concrete (U : Universe) (s : Scope) (parents : List Scope) (t : Ty)
    (h : lookup s t = none) (hi : U.isInterface t = false) :
    valueSet U (s :: parents) t = valueSet U parents t := by
  simp [valueSet, h, hi]

theorem valueSet_parent_iface (U : Universe) (s : Scope) (parents : List Scope) (t : Ty)
    (h : lookup s t = none) (hne : implementors U s t = []) :
    valueSet U (s :: parents) t = valueSet U parents t := by
  simp only [valueSet, h]
  cases U.isInterface t <;> simp [hne]

/-- a scope with nothing to say about `t` -/
def Silent (U : Universe) (s : Scope) (t : Ty) : Prop :=
  lookup s t = none ∧ (U.isInterface t = true → implementors U s t = [])

theorem valueSet_skip (U : Universe) (pre rest : List Scope) (t : Ty)
    (h : ∀ s ∈ pre, Silent U s t) : valueSet U (pre ++ rest) t = valueSet U rest t := by
  induction pre with
  | nil => rfl
  | cons s pre ih =>
    obtain ⟨hl, hi⟩ := h s (by simp)
    have ih' := ih (fun s' hs' => h s' (by simp [hs']))
    cases hI : U.isInterface t with
    | false => rw [List.cons_append, valueSet_parent_concrete U s _ t hl hI, ih']
    | true => rw [List.cons_append, valueSet_parent_iface U s _ t hl (hi hI), ih']

/-! ### pick -/

theorem pick_none_iff (l : List Val) (c : Nat) : pick l c = none ↔ l = [] := by
  unfold pick
  cases l with
  | nil => simp
  | cons a l =>
    simp only [List.getElem?_eq_none_iff, reduceCtorEq, iff_false, Nat.not_le]
    exact Nat.mod_lt _ (by simp)

theorem pick_mem {l : List Val} {c : Nat} {v : Val} (h : pick l c = some v) : v ∈ l := by
  unfold pick at h
  exact List.mem_of_getElem? h

theorem pick_complete {l : List Val} {v : Val} (h : v ∈ l) : ∃ c, pick l c = some v := by
  obtain ⟨i, hi, rfl⟩ := List.getElem_of_mem h
  refine ⟨i, ?_⟩
  unfold pick
  rw [Nat.mod_eq_of_lt hi]
  simp

theorem pick_singleton (v : Val) (c : Nat) : pick [v] c = some v := by
  simp [pick, Nat.mod_one]

/-! ### resolveArgs against argSets -/

/-- `args` is position by position a member of `sets` -/
def Members : List Val → List (List Val) → Prop
  | [], [] => True
  | a :: as, s :: ss => a ∈ s ∧ Members as ss
  | _, _ => False

theorem resolve_error_iff (U : Universe) (chain : List Scope) (sig : List Ty) (cs : List Nat) (t : Ty) :
    resolveArgs U chain sig cs = .error t ↔ argSets U chain sig = .error t := by
  induction sig generalizing cs with
  | nil => simp [resolveArgs, argSets]
  | cons a sig ih =>
    simp only [resolveArgs, argSets, value]
    generalize nextChoice cs = c
    by_cases he : valueSet U chain a = []
    · have : pick [] c = none := (pick_none_iff _ _).mpr rfl
      simp only [he, this, if_true]
      constructor <;> (intro h; injection h with h; rw [h])
    · cases hp : pick (valueSet U chain a) c with
      | none => exact absurd ((pick_none_iff _ _).mp hp) he
      | some v =>
        simp only [he, if_false]
        have := ih cs.tail
        cases h1 : resolveArgs U chain sig cs.tail <;> cases h2 : argSets U chain sig <;>
          simp_all

theorem resolve_ok_members (U : Universe) (chain : List Scope) (sig : List Ty) (cs : List Nat)
    (args : List Val) (h : resolveArgs U chain sig cs = .ok args) :
    ∃ sets, argSets U chain sig = .ok sets ∧ Members args sets := by
  induction sig generalizing cs args with
  | nil => simp [resolveArgs] at h; subst h; exact ⟨[], rfl, trivial⟩
  | cons a sig ih =>
    simp only [resolveArgs, value] at h
    generalize nextChoice cs = c at h
    cases hp : pick (valueSet U chain a) c with
    | none => simp [hp] at h
    | some v =>
      rw [hp] at h
      cases hr : resolveArgs U chain sig cs.tail with
      | error e => simp [hr] at h
      | ok vs =>
        simp [hr] at h
        subst h
        obtain ⟨ss, hs, hm⟩ := ih cs.tail vs hr
        have hne : valueSet U chain a ≠ [] := fun he => by
          rw [(pick_none_iff _ _).mpr he] at hp; cases hp
        exact ⟨valueSet U chain a :: ss, by simp [argSets, hne, hs], pick_mem hp, hm⟩

/-- every member-wise choice of arguments is produced by some iteration choices -/
theorem resolve_complete (U : Universe) (chain : List Scope) (sig : List Ty)
    (sets : List (List Val)) (args : List Val)
    (hs : argSets U chain sig = .ok sets) (hm : Members args sets) :
    ∃ cs, resolveArgs U chain sig cs = .ok args := by
  induction sig generalizing sets args with
  | nil =>
    simp [argSets] at hs; subst hs
    cases args with
    | nil => exact ⟨[], rfl⟩
    | cons _ _ => simp [Members] at hm
  | cons a sig ih =>
    simp only [argSets] at hs
    by_cases he : valueSet U chain a = []
    · simp [he] at hs
    · simp only [he, if_false] at hs
      cases hr : argSets U chain sig with
      | error e => simp [hr] at hs
      | ok ss =>
        simp [hr] at hs
        subst hs
        cases args with
        | nil => simp [Members] at hm
        | cons v vs =>
          obtain ⟨hv, hm'⟩ := hm
          obtain ⟨cs, hcs⟩ := ih ss vs hr hm'
          obtain ⟨c, hc⟩ := pick_complete hv
          exact ⟨c :: cs, by simp [resolveArgs, value, nextChoice, hc, hcs]⟩

theorem members_length {args : List Val} {sets : List (List Val)} (h : Members args sets) :
    args.length = sets.length := by
  induction args generalizing sets with
  | nil => cases sets <;> simp_all [Members]
  | cons a as ih =>
    cases sets with
    | nil => simp [Members] at h
    | cons s ss => simp [ih h.2]

theorem members_get {args : List Val} {sets : List (List Val)} (h : Members args sets)
    (i : Nat) (h1 : i < args.length) (h2 : i < sets.length) : args[i] ∈ sets[i] := by
  induction args generalizing sets i with
  | nil => simp at h1
  | cons a as ih =>
    cases sets with
    | nil => simp at h2
    | cons s ss =>
      cases i with
      | zero => exact h.1
      | succ i => exact ih h.2 i (by simpa using h1) (by simpa using h2)

theorem argSets_ok_get (U : Universe) (chain : List Scope) (sig : List Ty) (sets : List (List Val))
    (h : argSets U chain sig = .ok sets) :
    sets.length = sig.length ∧ ∀ i (h1 : i < sets.length) (h2 : i < sig.length), sets[i] = valueSet U chain sig[i] := by
  induction sig generalizing sets with
  | nil => simp [argSets] at h; subst h; simp
  | cons a sig ih =>
    simp only [argSets] at h
    by_cases he : valueSet U chain a = []
    · simp [he] at h
    · simp only [he, if_false] at h
      cases hr : argSets U chain sig with
      | error e => simp [hr] at h
      | ok ss =>
        simp [hr] at h
        subst h
        obtain ⟨hl, hg⟩ := ih ss hr
        refine ⟨by simp [hl], ?_⟩
        intro i h1 h2
        cases i with
        | zero => rfl
        | succ i => exact hg i (by simpa using h1) (by simpa using h2)

/-- the first unresolvable parameter -/
theorem argSets_error_iff (U : Universe) (chain : List Scope) (sig : List Ty) (t : Ty) :
    argSets U chain sig = .error t ↔
      ∃ pre post, sig = pre ++ t :: post ∧ (∀ p ∈ pre, valueSet U chain p ≠ []) ∧ valueSet U chain t = [] := by
  induction sig with
  | nil => simp [argSets]
  | cons a sig ih =>
    simp only [argSets]
    by_cases he : valueSet U chain a = []
    · simp only [he, if_true]
      constructor
      · intro h; injection h with h; subst h; exact ⟨[], sig, rfl, by simp, he⟩
      · rintro ⟨pre, post, hs, hp, ht⟩
        cases pre with
        | nil => simp at hs; rw [hs.1]
        | cons p pre =>
          simp at hs
          exact absurd he (hs.1 ▸ hp p (by simp))
    · simp only [he, if_false]
      cases hr : argSets U chain sig with
      | error e =>
        simp only [Except.error.injEq]
        constructor
        · intro h; subst h
          obtain ⟨pre, post, hs, hp, ht⟩ := ih.mp hr
          refine ⟨a :: pre, post, by simp [hs], ?_, ht⟩
          intro p hp'
          rcases List.mem_cons.mp hp' with rfl | h
          · exact he
          · exact hp p h
        · rintro ⟨pre, post, hs, hp, ht⟩
          cases pre with
          | nil => simp at hs; exact absurd (hs.1 ▸ ht) he
          | cons p pre =>
            simp at hs
            have := ih.mpr ⟨pre, post, hs.2, fun q hq => hp q (by simp [hq]), ht⟩
            rw [hr] at this; injection this
      | ok ss =>
        simp only [reduceCtorEq, false_iff]
        rintro ⟨pre, post, hs, hp, ht⟩
        cases pre with
        | nil => simp at hs; exact absurd (hs.1 ▸ ht) he
        | cons p pre =>
          simp at hs
          have := ih.mpr ⟨pre, post, hs.2, fun q hq => hp q (by simp [hq]), ht⟩
          rw [hr] at this; cases this

/-! ### the request scopes -/

theorem modifyAt_length (f : Scope → Scope) (l : List Scope) (i : Nat) : (modifyAt f l i).length = l.length := by
  induction l generalizing i with
  | nil => rfl
  | cons s l ih => cases i <;> simp [modifyAt, ih]

theorem modifyAt_get_ne (f : Scope → Scope) (l : List Scope) (i j : Nat) (h : j ≠ i) :
    (modifyAt f l i)[j]? = l[j]? := by
  induction l generalizing i j with
  | nil => rfl
  | cons s l ih =>
    cases i with
    | zero =>
      cases j with
      | zero => exact absurd rfl h
      | succ j => simp [modifyAt]
    | succ i =>
      cases j with
      | zero => simp [modifyAt]
      | succ j =>
        have := ih i j (by omega)
        simpa [modifyAt] using this

theorem modifyAt_get_same (f : Scope → Scope) (l : List Scope) (i : Nat) :
    (modifyAt f l i)[i]? = l[i]?.map f := by
  induction l generalizing i with
  | nil => rfl
  | cons s l ih =>
    cases i with
    | zero => simp [modifyAt]
    | succ i =>
      have := ih i
      simpa [modifyAt] using this

/-- `R` holds position by position between two lists of equal length -/
def AllPairs {α β : Type} (R : α → β → Prop) : List α → List β → Prop
  | [], [] => True
  | a :: as, b :: bs => R a b ∧ AllPairs R as bs
  | _, _ => False

end Flamego.Inject
