/-
  Proofs/Dsl.lean — lemmas for C11: the stack interpreter of Model/Dsl simulates the
  environment-passing flat expansion, statement by statement.
-/
import Flamego.Model.Dsl
namespace Flamego.Dsl

/-- the part of the router state the flat reading also has -/
def St.flat (st : St) : FSt := ⟨st.autoHead, st.regs, st.caught⟩

/-- the lexical environment a group stack stands for -/
def envOf (gs : List Group) : Env := ⟨(groupPrefix gs).1, (groupPrefix gs).2⟩

/-- put a flat outcome back under an (unchanged) group stack -/
def lift (st : St) (o : FOut) : Out :=
  ({ groups := st.groups, autoHead := o.1.autoHead, regs := o.1.regs, caught := o.1.caught }, o.2)

@[simp] theorem lift_groups (st : St) (o : FOut) : (lift st o).1.groups = st.groups := rfl
@[simp] theorem lift_flat (st : St) (o : FOut) : (lift st o).1.flat = o.1 := rfl
@[simp] theorem lift_err (st : St) (o : FOut) : (lift st o).2 = o.2 := rfl
theorem lift_lift (st : St) (o : FOut) (o' : FOut) : lift (lift st o).1 o' = lift st o' := rfl
theorem lift_self (st : St) : lift st (st.flat, none) = (st, none) := rfl

theorem groupPrefix_foldl (gs : List Group) (p : Bytes) (h : List Nat) :
    gs.foldl (fun (x : Bytes × List Nat) g => (x.1 ++ g.path, x.2 ++ g.handlers)) (p, h)
      = (p ++ (gs.map Group.path).flatten, h ++ (gs.map Group.handlers).flatten) := by
  induction gs generalizing p h with
  | nil => simp
  | cons g gs ih => simp [List.foldl_cons, ih, List.append_assoc]

/-- the stack's prefix is the concatenation of its entries, outermost first -/
theorem groupPrefix_eq (gs : List Group) :
    groupPrefix gs = ((gs.map Group.path).flatten, (gs.map Group.handlers).flatten) := by
  have := groupPrefix_foldl gs [] []
  simpa [groupPrefix] using this

theorem envOf_nil : envOf [] = {} := rfl

theorem envOf_push (gs : List Group) (g : Group) :
    envOf (gs ++ [g]) = ⟨(envOf gs).pfx ++ g.path, (envOf gs).hpfx ++ g.handlers⟩ := by
  simp [envOf, groupPrefix_eq]

theorem addEach_eq (acc : Acc) (path : Bytes) (hs : List Nat) (ms : List Bytes) (st : St) :
    addEach acc path hs ms st = lift st (regEach acc path hs ms st.flat) := by
  induction ms generalizing st with
  | nil => rfl
  | cons m ms ih =>
    simp only [addEach, regEach, St.flat]
    by_cases h : acc st.regs ⟨m, path, hs⟩
    · simp only [h, if_true]; rw [ih]; rfl
    · simp only [h]; rfl

theorem routeCall_eq (acc : Acc) (m p : Bytes) (hs : List Nat) (st : St) :
    routeCall acc m p hs st = lift st (flatRoute acc (envOf st.groups) m p hs st.flat) := by
  simp only [routeCall, addRoute, flatRoute, envOf]
  cases h : methodsOf m with
  | nil => rfl
  | cons a as => simp [addEach_eq]

theorem regEach_autoHead (acc : Acc) (ms : List Bytes) (s : FSt) (pth : Bytes) (h : List Nat) :
    (regEach acc pth h ms s).1.autoHead = s.autoHead := by
  induction ms generalizing s with
  | nil => rfl
  | cons m ms ih => simp only [regEach]; split <;> simp [ih]

/-- a `Route` call never changes the flag -/
theorem flatRoute_autoHead (acc : Acc) (env : Env) (m p : Bytes) (hs : List Nat) (s : FSt) :
    (flatRoute acc env m p hs s).1.autoHead = s.autoHead := by
  simp only [flatRoute]; split <;> simp [regEach_autoHead]

theorem verbCall_eq (acc : Acc) (v : Verb) (p : Bytes) (hs : List Nat) (st : St) :
    verbCall acc v p hs st = lift st (flatVerb acc (envOf st.groups) v p hs st.flat) := by
  simp only [verbCall, flatVerb, routeCall_eq]
  have hm : Verb.get.method = B "GET" := rfl
  by_cases hv : v = .get ∧ st.autoHead = true
  · obtain ⟨rfl, ha⟩ := hv
    have ha' : st.flat.autoHead = true := ha
    simp only [ha', and_self, if_true, seqEach, hm]
    have h2 := flatRoute_autoHead acc (envOf st.groups) (B "GET") p hs st.flat
    generalize flatRoute acc (envOf st.groups) (B "GET") p hs st.flat = o at h2
    obtain ⟨⟨a1, r1, c1⟩, e⟩ := o
    simp only [ha'] at h2
    subst h2
    cases e with
    | some e => rfl
    | none =>
      simp only [lift, and_self, if_true, St.flat]
      generalize flatRoute acc (envOf st.groups) (B "HEAD") p hs ⟨true, r1, c1⟩ = o2
      obtain ⟨s2, e2⟩ := o2
      cases e2 <;> rfl
  · have hv' : ¬ (v = .get ∧ st.flat.autoHead = true) := hv
    simp only [hv', if_false]
    have h2 := flatRoute_autoHead acc (envOf st.groups) v.method p hs st.flat
    generalize flatRoute acc (envOf st.groups) v.method p hs st.flat = o at h2
    obtain ⟨⟨a1, r1, c1⟩, e⟩ := o
    simp only at h2
    subst h2
    cases e with
    | some e => rfl
    | none =>
      simp only [lift, hv', if_false]

theorem routeEach_eq (acc : Acc) (p : Bytes) (hs : List Nat) (ms : List Bytes) (st : St) :
    routeEach acc p hs ms st
      = lift st (seqEach (fun m => flatRoute acc (envOf st.groups) m p hs) ms st.flat) := by
  induction ms generalizing st with
  | nil => rfl
  | cons m ms ih =>
    simp only [routeEach, seqEach, routeCall_eq]
    generalize flatRoute acc (envOf st.groups) m p hs st.flat = o
    obtain ⟨s1, e⟩ := o
    cases e with
    | some e => rfl
    | none => simp only [lift]; rw [ih]; rfl

theorem any_isStr_takeWhile (args : List RArg) :
    (args.takeWhile RArg.isStr).any RArg.isStr = !(args.takeWhile RArg.isStr).isEmpty := by
  induction args with
  | nil => rfl
  | cons a as ih => cases a <;> simp [List.takeWhile, RArg.isStr]

theorem routesCall_eq (acc : Acc) (p ms : Bytes) (args : List RArg) (st : St) :
    routesCall acc p ms args st = lift st (flatRoutes acc (envOf st.groups) p ms args st.flat) := by
  simp only [routesCall, flatRoutes]
  by_cases h0 : ms = []
  · simp [h0]; rfl
  · simp only [h0, if_false]
    by_cases hr : args.dropWhile RArg.isStr = []
    · -- every argument is a string
      have hall : args.takeWhile RArg.isStr = args := by
        have := List.takeWhile_append_dropWhile (p := RArg.isStr) (l := args)
        rw [hr, List.append_nil] at this; exact this
      simp only [hr, if_true, true_and]
      by_cases hl : args = []
      · subst hl; simp [routeEach_eq, RArg.fns]
      · have hany : args.any RArg.isStr = true := by
          have := any_isStr_takeWhile args
          rw [hall] at this; rw [this]; cases args with
          | nil => exact absurd rfl hl
          | cons _ _ => rfl
        rw [hall]; simp only [hany, if_true, hl, ne_eq, not_false_eq_true]; rfl
    · simp only [hr, if_false, false_and]
      by_cases ha : (args.dropWhile RArg.isStr).any RArg.isStr = true
      · simp only [ha, if_true]; rfl
      · simp only [ha]; rw [routeEach_eq]; rfl

theorem comboCalls_eq (acc : Acc) (p : Bytes) (common : List Nat) (calls : List (Verb × List Nat))
    (added : List Verb) (st : St) :
    comboCalls acc p common calls added st
      = lift st (match comboPrefix calls added with
          | (pre, dup) =>
            match seqEach (fun c => flatVerb acc (envOf st.groups) c.1 p (common ++ c.2)) pre st.flat with
            | (s1, some e) => (s1, some e)
            | (s1, none) => (s1, if dup then some .comboDup else none)) := by
  induction calls generalizing added st with
  | nil => rfl
  | cons c calls ih =>
    obtain ⟨v, hs⟩ := c
    simp only [comboCalls, comboPrefix]
    by_cases hv : v ∈ added
    · simp only [hv, if_true, seqEach]; rfl
    · simp only [hv, if_false, verbCall_eq]
      generalize hcp : comboPrefix calls (v :: added) = cp
      obtain ⟨pre, dup⟩ := cp
      simp only [seqEach]
      generalize flatVerb acc (envOf st.groups) v p (common ++ hs) st.flat = o
      obtain ⟨s1, e⟩ := o
      cases e with
      | some e => rfl
      | none =>
        simp only [lift]
        rw [ih]
        simp only [hcp]
        rfl

mutual
/-- the simulation: one statement on the stack machine = the same statement read flat in
    the environment the stack stands for; the stack itself is left as it was -/
theorem exec_eq (acc : Acc) : ∀ (s : Stmt) (st : St),
    exec acc s st = lift st (flatStmt acc (envOf st.groups) s st.flat)
  | .route m p hs, st => by simp only [exec, flatStmt, routeCall_eq]
  | .verb v p hs, st => by simp only [exec, flatStmt, verbCall_eq]
  | .any p hs, st => by simp only [exec, flatStmt, routeCall_eq]
  | .routes p ms args, st => by simp only [exec, flatStmt, routesCall_eq]
  | .combo p common calls, st => by
    simp only [exec, flatStmt]
    rw [comboCalls_eq]
    rfl
  | .group p hs body, st => by
    simp only [exec, flatStmt]
    rw [execList_eq acc body]
    simp only [envOf_push]
    simp [lift, St.flat]
  | .autoHead b, st => rfl
  | .panic, st => rfl
  | .recover body, st => by
    simp only [exec, flatStmt]
    rw [execList_eq acc body]
    generalize flatList acc (envOf st.groups) body st.flat = o
    obtain ⟨s1, e⟩ := o
    cases e <;> rfl
theorem execList_eq (acc : Acc) : ∀ (ss : List Stmt) (st : St),
    execList acc ss st = lift st (flatList acc (envOf st.groups) ss st.flat)
  | [], st => rfl
  | s :: ss, st => by
    simp only [execList, flatList]
    rw [exec_eq acc s]
    generalize flatStmt acc (envOf st.groups) s st.flat = o
    obtain ⟨s1, e⟩ := o
    cases e with
    | some e => rfl
    | none =>
      simp only [lift]
      rw [execList_eq acc ss]
      rfl
end

/-! ### facts about the flat reading used by the corollaries -/

theorem regEach_append (acc : Acc) (path : Bytes) (hs : List Nat) (ms : List Bytes) (s : FSt) :
    ∃ new, (regEach acc path hs ms s).1 = { s with regs := s.regs ++ new } ∧
      (∀ r ∈ new, r.path = path ∧ r.handlers = hs ∧ r.method ∈ ms) := by
  induction ms generalizing s with
  | nil => exact ⟨[], by simp [regEach], by simp⟩
  | cons m ms ih =>
    simp only [regEach]
    split
    · obtain ⟨new, h1, h2⟩ := ih { s with regs := s.regs ++ [⟨m, path, hs⟩] }
      refine ⟨⟨m, path, hs⟩ :: new, ?_, ?_⟩
      · rw [h1]; simp
      · intro r hr
        rcases List.mem_cons.mp hr with rfl | hr
        · simp
        · obtain ⟨a, b, c⟩ := h2 r hr
          exact ⟨a, b, List.mem_cons_of_mem _ c⟩
    · exact ⟨[], by simp, by simp⟩

/-! ### `Route`, `Any`, `Routes` do not read the flag -/

def St.setAH (st : St) (b : Bool) : St := { st with autoHead := b }

theorem addEach_setAH (acc : Acc) (p : Bytes) (h : List Nat) (ms : List Bytes) (st : St) (b : Bool) :
    addEach acc p h ms (st.setAH b) = ((addEach acc p h ms st).1.setAH b, (addEach acc p h ms st).2) := by
  induction ms generalizing st with
  | nil => rfl
  | cons m ms ih =>
    simp only [addEach, St.setAH]
    by_cases hacc : acc st.regs ⟨m, p, h⟩
    · simp only [hacc, if_true]; exact ih { st with regs := st.regs ++ [⟨m, p, h⟩] }
    · simp only [hacc]; rfl

theorem routeCall_setAH (acc : Acc) (m p : Bytes) (h : List Nat) (st : St) (b : Bool) :
    routeCall acc m p h (st.setAH b) = ((routeCall acc m p h st).1.setAH b, (routeCall acc m p h st).2) := by
  simp only [routeCall, addRoute]
  cases methodsOf m with
  | nil => rfl
  | cons a as => exact addEach_setAH ..

theorem routeEach_setAH (acc : Acc) (p : Bytes) (h : List Nat) (ms : List Bytes) (st : St) (b : Bool) :
    routeEach acc p h ms (st.setAH b) = ((routeEach acc p h ms st).1.setAH b, (routeEach acc p h ms st).2) := by
  induction ms generalizing st with
  | nil => rfl
  | cons m ms ih =>
    simp only [routeEach, routeCall_setAH]
    generalize routeCall acc m p h st = o
    obtain ⟨s1, e⟩ := o
    cases e with
    | some e => rfl
    | none => exact ih s1

theorem routesCall_setAH (acc : Acc) (p ms : Bytes) (args : List RArg) (st : St) (b : Bool) :
    routesCall acc p ms args (st.setAH b)
      = ((routesCall acc p ms args st).1.setAH b, (routesCall acc p ms args st).2) := by
  simp only [routesCall]
  by_cases h0 : ms = []
  · simp only [h0, if_true]
  · simp only [h0, if_false]
    generalize (if args.dropWhile RArg.isStr = [] then args else args.dropWhile RArg.isStr) = handlers
    by_cases ha : handlers.any RArg.isStr = true
    · simp only [ha, if_true]
    · simp only [ha]; exact routeEach_setAH ..

theorem flatRoute_prefixed (acc : Acc) (env : Env) (m p : Bytes) (hs : List Nat) (fs : FSt) :
    ∃ new, (flatRoute acc env m p hs fs).1.regs = fs.regs ++ new ∧
      ∀ r ∈ new, env.pfx <+: r.path ∧ env.hpfx <+: r.handlers := by
  simp only [flatRoute]
  split
  · exact ⟨[], by simp, by simp⟩
  · obtain ⟨new, h1, h2⟩ := regEach_append acc (env.pfx ++ p) (env.hpfx ++ hs) (methodsOf m) fs
    refine ⟨new, by rw [h1], fun r hr => ?_⟩
    obtain ⟨a, b, _⟩ := h2 r hr
    rw [a, b]
    exact ⟨List.prefix_append _ _, List.prefix_append _ _⟩

theorem seqEach_prefixed {α : Type} (env : Env) (f : α → FSt → FOut)
    (hf : ∀ a fs, ∃ new, (f a fs).1.regs = fs.regs ++ new ∧
      ∀ r ∈ new, env.pfx <+: r.path ∧ env.hpfx <+: r.handlers) (l : List α) (fs : FSt) :
    ∃ new, (seqEach f l fs).1.regs = fs.regs ++ new ∧
      ∀ r ∈ new, env.pfx <+: r.path ∧ env.hpfx <+: r.handlers := by
  induction l generalizing fs with
  | nil => exact ⟨[], by simp [seqEach], by simp⟩
  | cons a l ih =>
    simp only [seqEach]
    obtain ⟨n1, h1, h2⟩ := hf a fs
    generalize f a fs = o at h1
    obtain ⟨s1, e⟩ := o
    cases e with
    | some e => exact ⟨n1, h1, h2⟩
    | none =>
      obtain ⟨n2, h3, h4⟩ := ih s1
      refine ⟨n1 ++ n2, ?_, ?_⟩
      · simp only at h1 ⊢; rw [h3, h1, List.append_assoc]
      · intro r hr
        rcases List.mem_append.mp hr with hr | hr
        · exact h2 r hr
        · exact h4 r hr

theorem flatVerb_prefixed (acc : Acc) (env : Env) (v : Verb) (p : Bytes) (hs : List Nat) (fs : FSt) :
    ∃ new, (flatVerb acc env v p hs fs).1.regs = fs.regs ++ new ∧
      ∀ r ∈ new, env.pfx <+: r.path ∧ env.hpfx <+: r.handlers := by
  simp only [flatVerb]
  split
  · exact seqEach_prefixed env _ (fun m fs => flatRoute_prefixed acc env m p hs fs) _ fs
  · exact flatRoute_prefixed acc env _ p hs fs

/-! ### Combo: splitting the chained calls -/

theorem comboCalls_append (acc : Acc) (p : Bytes) (common : List Nat)
    (pre rest : List (Verb × List Nat)) (added : List Verb) (st : St)
    (hnd : (pre.map Prod.fst).Nodup) (hdis : ∀ v ∈ pre.map Prod.fst, v ∉ added) :
    comboCalls acc p common (pre ++ rest) added st =
      match comboCalls acc p common pre added st with
      | (s1, some e) => (s1, some e)
      | (s1, none) => comboCalls acc p common rest ((pre.map Prod.fst).reverse ++ added) s1 := by
  induction pre generalizing added st with
  | nil =>
    simp only [List.nil_append, comboCalls, List.map_nil, List.reverse_nil]
  | cons c pre ih =>
    obtain ⟨v, hs⟩ := c
    have hv : v ∉ added := hdis v (by simp)
    simp only [List.cons_append, comboCalls, hv, if_false]
    generalize verbCall acc v p (common ++ hs) st = o
    obtain ⟨s1, e⟩ := o
    cases e with
    | some e => rfl
    | none =>
      simp only
      have hnd' : (pre.map Prod.fst).Nodup := (List.nodup_cons.mp (by simpa using hnd)).2
      have hnotin : v ∉ pre.map Prod.fst := (List.nodup_cons.mp (by simpa using hnd)).1
      rw [ih (v :: added) s1 hnd']
      · simp [List.append_assoc]
      · intro w hw
        simp only [List.mem_cons, not_or]
        refine ⟨?_, hdis w (by simp only [List.map_cons, List.mem_cons]; exact Or.inr hw)⟩
        rintro rfl; exact hnotin hw

/-! ### a call in an environment = the call with the prefixes written into it -/

theorem flatRoute_env (acc : Acc) (env : Env) (m p : Bytes) (hs : List Nat) (s : FSt) :
    flatRoute acc env m p hs s = flatRoute acc {} m (env.pfx ++ p) (env.hpfx ++ hs) s := by
  simp [flatRoute]

theorem flatVerb_env (acc : Acc) (env : Env) (v : Verb) (p : Bytes) (hs : List Nat) (s : FSt) :
    flatVerb acc env v p hs s = flatVerb acc {} v (env.pfx ++ p) (env.hpfx ++ hs) s := by
  simp only [flatVerb, seqEach]
  rw [flatRoute_env acc env, flatRoute_env acc env v.method]
  split
  · generalize flatRoute acc {} (B "GET") (env.pfx ++ p) (env.hpfx ++ hs) s = o
    obtain ⟨s1, e⟩ := o
    cases e with
    | some e => rfl
    | none => simp only; rw [flatRoute_env acc env]
  · rfl

theorem flatStmt_inEnv (acc : Acc) (env : Env) (s : Stmt) (hc : s.isCall = true) (fs : FSt) :
    flatStmt acc env s fs = flatStmt acc {} (s.inEnv env) fs := by
  cases s <;> simp only [Stmt.isCall] at hc <;> try contradiction
  · simp only [flatStmt, Stmt.inEnv]; exact flatRoute_env ..
  · simp only [flatStmt, Stmt.inEnv]; exact flatVerb_env ..
  · simp only [flatStmt, Stmt.inEnv]; exact flatRoute_env ..
  · rename_i p common calls
    simp only [flatStmt, Stmt.inEnv, flatCombo]
    have : ∀ (l : List (Verb × List Nat)) fs,
        seqEach (fun c => flatVerb acc env c.1 p (common ++ c.2)) l fs
          = seqEach (fun c => flatVerb acc {} c.1 (env.pfx ++ p) (env.hpfx ++ common ++ c.2)) l fs := by
      intro l
      induction l with
      | nil => intro fs; rfl
      | cons c l ih =>
        intro fs
        simp only [seqEach]
        rw [flatVerb_env acc env, List.append_assoc]
        generalize flatVerb acc {} c.1 (env.pfx ++ p) (env.hpfx ++ (common ++ c.2)) fs = o
        obtain ⟨s1, e⟩ := o
        cases e with
        | some e => rfl
        | none => exact ih s1
    rw [this]

theorem flatStmt_nest (acc : Acc) (env : Env) (gs : List Group) (s : Stmt) (fs : FSt) :
    flatStmt acc env (nest gs s) fs
      = flatStmt acc ⟨env.pfx ++ (envOf gs).pfx, env.hpfx ++ (envOf gs).hpfx⟩ s fs := by
  induction gs generalizing env with
  | nil => simp [nest, envOf, groupPrefix_eq]
  | cons g gs ih =>
    simp only [nest, flatStmt, flatList]
    rw [ih]
    have : (flatStmt acc ⟨env.pfx ++ g.path ++ (envOf gs).pfx, env.hpfx ++ g.handlers ++ (envOf gs).hpfx⟩ s fs)
        = flatStmt acc ⟨env.pfx ++ (envOf (g :: gs)).pfx, env.hpfx ++ (envOf (g :: gs)).hpfx⟩ s fs := by
      simp [envOf, groupPrefix_eq, List.append_assoc]
    rw [← this]
    generalize flatStmt acc _ s fs = o
    obtain ⟨s1, e⟩ := o
    cases e <;> rfl

/-! ### every registration carries the prefixes of the environment it was made in -/

mutual
theorem flatStmt_prefixed (acc : Acc) (env : Env) : ∀ (s : Stmt) (fs : FSt),
    ∃ new, (flatStmt acc env s fs).1.regs = fs.regs ++ new ∧
      ∀ r ∈ new, env.pfx <+: r.path ∧ env.hpfx <+: r.handlers
  | .route m p hs, fs => by
    simp only [flatStmt]; exact flatRoute_prefixed acc env m p hs fs
  | .verb v p hs, fs => by
    simp only [flatStmt]; exact flatVerb_prefixed acc env v p hs fs
  | .any p hs, fs => by
    simp only [flatStmt]; exact flatRoute_prefixed acc env _ p hs fs
  | .routes p ms args, fs => by
    simp only [flatStmt, flatRoutes]
    split
    · exact ⟨[], by simp, by simp⟩
    · split
      · exact ⟨[], by simp, by simp⟩
      · split
        · exact ⟨[], by simp, by simp⟩
        · exact seqEach_prefixed env _ (fun m fs => flatRoute_prefixed acc env m p _ fs) _ fs
  | .combo p common calls, fs => by
    simp only [flatStmt, flatCombo]
    obtain ⟨new, h1, h2⟩ := seqEach_prefixed env (fun c => flatVerb acc env c.1 p (common ++ c.2))
      (fun c fs => flatVerb_prefixed acc env c.1 p _ fs) (comboPrefix calls []).1 fs
    refine ⟨new, ?_, h2⟩
    rw [← h1]
    generalize seqEach _ (comboPrefix calls []).1 fs = o
    obtain ⟨s1, e⟩ := o
    cases e <;> rfl
  | .group p hs body, fs => by
    simp only [flatStmt]
    obtain ⟨new, h1, h2⟩ := flatList_prefixed acc ⟨env.pfx ++ p, env.hpfx ++ hs⟩ body fs
    refine ⟨new, h1, fun r hr => ?_⟩
    obtain ⟨a, b⟩ := h2 r hr
    exact ⟨List.IsPrefix.trans (List.prefix_append _ _) a, List.IsPrefix.trans (List.prefix_append _ _) b⟩
  | .autoHead b, fs => ⟨[], by simp [flatStmt], by simp⟩
  | .panic, fs => ⟨[], by simp [flatStmt], by simp⟩
  | .recover body, fs => by
    simp only [flatStmt]
    obtain ⟨new, h1, h2⟩ := flatList_prefixed acc env body fs
    refine ⟨new, ?_, h2⟩
    rw [← h1]
    generalize flatList acc env body fs = o
    obtain ⟨s1, e⟩ := o
    cases e <;> rfl
theorem flatList_prefixed (acc : Acc) (env : Env) : ∀ (ss : List Stmt) (fs : FSt),
    ∃ new, (flatList acc env ss fs).1.regs = fs.regs ++ new ∧
      ∀ r ∈ new, env.pfx <+: r.path ∧ env.hpfx <+: r.handlers
  | [], fs => ⟨[], by simp [flatList], by simp⟩
  | s :: ss, fs => by
    simp only [flatList]
    obtain ⟨n1, h1, h2⟩ := flatStmt_prefixed acc env s fs
    generalize flatStmt acc env s fs = o at h1
    obtain ⟨s1, e⟩ := o
    cases e with
    | some e => exact ⟨n1, h1, h2⟩
    | none =>
      obtain ⟨n2, h3, h4⟩ := flatList_prefixed acc env ss s1
      refine ⟨n1 ++ n2, ?_, ?_⟩
      · simp only at h1 ⊢; rw [h3, h1, List.append_assoc]
      · intro r hr
        rcases List.mem_append.mp hr with hr | hr
        · exact h2 r hr
        · exact h4 r hr
end

end Flamego.Dsl
