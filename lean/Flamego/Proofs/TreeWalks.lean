/-
  Proofs/TreeWalks.lean — the accepting WALKS of a tree (not only their leaves), their priority
  order, and what that order says in terms of rank and registration ids.

  1. `TStep`, `TWalk`, `derivWalks` / `walksSubs` / `walksAll`: the enumeration `derivs` of
     Spec/Dispatch with the walk kept; `walks_leaf`: forgetting the walk gives `derivs` back
  2. `ReachW`: the declarative notion (a walk that accepts the segments), `mem_derivWalks_iff_reachW`
  3. `Prior`: the documented priority between two walks from the same node, in terms of list
     positions; `derivWalks_sorted`: the enumeration is sorted by it (every tree, no invariant)
  4. with `TreeInv` (lists sorted by rank, keys distinct) and `BirthInv` (equal rank: list order
     is registration order): `walk_leaf_priority`, `walk_subtree_priority`, `walk_matchall_fewest`,
     `walk_matchall_leaf_last` for the head of the enumeration against any other accepting walk
-/
import Flamego.Proofs.TreeBirth
namespace Flamego

/-- one step of a root-to-leaf walk: through a child that takes one segment, or through a
    match-all child that takes `k` segments -/
inductive TStep
  | sub (n : Node)
  | allSub (n : Node) (k : Nat)
  deriving Repr, Inhabited

/-- the child a step goes through -/
def TStep.node : TStep → Node
  | .sub n => n
  | .allSub n _ => n

/-- a walk: the steps from the root, and the leaf that takes what is left -/
abbrev TWalk := List TStep × Leaf

def TWalk.cons (st : TStep) (w : TWalk) : TWalk := (st :: w.1, w.2)

mutual
/-- every walk accepting `s :: rest`, in priority order (`derivs` with the walk kept) -/
def derivWalks (E : Engine) (hok : Nat → Bool) (subs : List Node) (leaves : List Leaf)
    (s : Seg) (rest : List Seg) : List TWalk :=
  match rest with
  | [] => (leafDerivs E hok leaves s).map fun l => ([], l)
  | s' :: rest' =>
    walksSubs E hok subs s s' rest' ++ (allLeafDerivs hok leaves (rest'.length + 2)).map fun l => ([], l)
termination_by (rest.length, subs.length, 1)

def walksSubs (E : Engine) (hok : Nat → Bool) (subs : List Node) (s s' : Seg) (rest' : List Seg) : List TWalk :=
  match subs with
  | [] => []
  | .mk k p cs cl :: more =>
    (match p with
     | .all _ cap => walksAll E hok (.mk k p cs cl) cs cl cap 1 s' rest'
     | _ => if p.acceptsTree E s then (derivWalks E hok cs cl s' rest').map (TWalk.cons (.sub (.mk k p cs cl))) else [])
    ++ walksSubs E hok more s s' rest'
termination_by (rest'.length + 1, subs.length, 0)

def walksAll (E : Engine) (hok : Nat → Bool) (n : Node) (cs : List Node) (cl : List Leaf) (cap : Int)
    (captured : Nat) (s' : Seg) (rest' : List Seg) : List TWalk :=
  if capOK cap captured then
    (derivWalks E hok cs cl s' rest').map (TWalk.cons (.allSub n captured)) ++
      (match rest' with
       | [] => []
       | s'' :: rest'' => walksAll E hok n cs cl cap (captured + 1) s'' rest'')
  else []
termination_by (rest'.length + 1, 0, 0)
end

/-- how many segments a step takes -/
def TStep.taken : TStep → Nat
  | .sub _ => 1
  | .allSub _ k => k

/-! ### unfolding one step -/

theorem walksSubs_cons_notAll (E : Engine) (hok : Nat → Bool) (k : Bytes) (p : Pat) (cs : List Node)
    (cl : List Leaf) (more : List Node) (s s' : Seg) (rest' : List Seg) (hna : p.isAll = false) :
    walksSubs E hok (Node.mk k p cs cl :: more) s s' rest' =
      (if p.acceptsTree E s then (derivWalks E hok cs cl s' rest').map (TWalk.cons (.sub (.mk k p cs cl)))
       else []) ++ walksSubs E hok more s s' rest' := by
  cases p with
  | all b c => cases hna
  | static _ => rw [walksSubs] <;> first | rfl | (intro _ _ h; cases h)
  | hole _ => rw [walksSubs] <;> first | rfl | (intro _ _ h; cases h)
  | regex _ _ => rw [walksSubs] <;> first | rfl | (intro _ _ h; cases h)

theorem walksSubs_cons_all (E : Engine) (hok : Nat → Bool) (k b : Bytes) (cap : Int) (cs : List Node)
    (cl : List Leaf) (more : List Node) (s s' : Seg) (rest' : List Seg) :
    walksSubs E hok (Node.mk k (.all b cap) cs cl :: more) s s' rest' =
      walksAll E hok (.mk k (.all b cap) cs cl) cs cl cap 1 s' rest' ++ walksSubs E hok more s s' rest' := by
  rw [walksSubs]

theorem walksAll_step (E : Engine) (hok : Nat → Bool) (n : Node) (cs : List Node) (cl : List Leaf)
    (cap : Int) (captured : Nat) (s' : Seg) (rest' : List Seg) :
    walksAll E hok n cs cl cap captured s' rest' =
      if capOK cap captured then
        (derivWalks E hok cs cl s' rest').map (TWalk.cons (.allSub n captured)) ++
          (match rest' with
           | [] => []
           | s'' :: rest'' => walksAll E hok n cs cl cap (captured + 1) s'' rest'')
      else [] := by
  rw [walksAll.eq_def]

theorem map_snd_cons (st : TStep) (L : List TWalk) :
    (L.map (TWalk.cons st)).map Prod.snd = L.map Prod.snd := by
  rw [List.map_map]; rfl

/-- **forgetting the walk gives the enumeration of Spec/Dispatch back**, in the same order -/
theorem walks_leaf (E : Engine) (hok : Nat → Bool) :
    (∀ subs leaves s rest,
        (derivWalks E hok subs leaves s rest).map Prod.snd = derivs E hok subs leaves s rest) ∧
    (∀ subs s s' rest',
        (walksSubs E hok subs s s' rest').map Prod.snd = derivsSubs E hok subs s s' rest') ∧
    (∀ n cs cl cap captured s' rest',
        (walksAll E hok n cs cl cap captured s' rest').map Prod.snd =
          derivsAll E hok cs cl cap captured s' rest') := by
  refine derivWalks.mutual_induct
    (motive1 := fun subs leaves s rest =>
        (derivWalks E hok subs leaves s rest).map Prod.snd = derivs E hok subs leaves s rest)
    (motive2 := fun subs s s' rest' =>
        (walksSubs E hok subs s s' rest').map Prod.snd = derivsSubs E hok subs s s' rest')
    (motive3 := fun n cs cl cap captured s' rest' =>
        (walksAll E hok n cs cl cap captured s' rest').map Prod.snd =
          derivsAll E hok cs cl cap captured s' rest')
    ?_ ?_ ?_ ?_ ?_ ?_
  · intro subs leaves s
    rw [derivWalks, derivs, List.map_map]
    exact List.map_id _
  · intro subs leaves s s' rest' ih
    rw [derivWalks, derivs, List.map_append, ih, List.map_map]
    congr 1
    exact List.map_id _
  · intro s s' rest'
    rw [walksSubs, derivsSubs]; rfl
  · intro s s' rest' k p cs cl more ih3 ih1 ih2
    by_cases hna : p.isAll = false
    · rw [walksSubs_cons_notAll _ _ _ _ _ _ _ _ _ _ hna, derivsSubs_cons_notAll _ _ _ _ _ _ _ _ _ _ hna,
        List.map_append, ih2]
      congr 1
      by_cases ha : p.acceptsTree E s = true
      · rw [if_pos ha, if_pos ha, map_snd_cons, ih1]
      · rw [if_neg ha, if_neg ha]; rfl
    · cases p with
      | all b cap => rw [walksSubs_cons_all, derivsSubs_cons_all, List.map_append, ih2, ih3 cap]
      | _ => exact (hna rfl).elim
  · intro n cs cl cap captured s' rest' hc ih1 ih3
    rw [walksAll_step, derivsAll_step, if_pos hc, if_pos hc, List.map_append, map_snd_cons, ih1]
    congr 1
    cases rest' with
    | nil => rfl
    | cons s'' rest'' => exact ih3
  · intro n cs cl cap captured s' rest' hc
    rw [walksAll_step, derivsAll_step, if_neg hc, if_neg hc]; rfl

theorem derivWalks_leaves (E : Engine) (hok : Nat → Bool) (subs : List Node) (leaves : List Leaf)
    (s : Seg) (rest : List Seg) :
    (derivWalks E hok subs leaves s rest).map Prod.snd = derivs E hok subs leaves s rest :=
  (walks_leaf E hok).1 subs leaves s rest

/-! ### the declarative notion: a walk that accepts the segments -/

/-- `ReachW E hok subs leaves s rest w`: `w` is a walk from a node with children `subs`/`leaves`
    that accepts the segments `s :: rest` (`Reach` of Spec/Dispatch with the walk recorded) -/
inductive ReachW (E : Engine) (hok : Nat → Bool) : List Node → List Leaf → Seg → List Seg → TWalk → Prop
  /-- the last segment is taken by a leaf of this node -/
  | leaf (subs leaves s l) (hl : l ∈ leaves) (ha : l.pat.acceptsLeaf E s = true) (hh : hok l.hid = true) :
      ReachW E hok subs leaves s [] ([], l)
  /-- a non-match-all child takes `s`, the walk goes on below it -/
  | sub (subs leaves s s' rest') (st : List TStep) (l : Leaf) (k : Bytes) (p : Pat) (cs : List Node)
      (cl : List Leaf) (hn : Node.mk k p cs cl ∈ subs) (hna : p.isAll = false)
      (ha : p.acceptsTree E s = true) (hr : ReachW E hok cs cl s' rest' (st, l)) :
      ReachW E hok subs leaves s (s' :: rest') (.sub (.mk k p cs cl) :: st, l)
  /-- a match-all child takes `s` and `skipped` more segments, the walk goes on below it -/
  | allSub (subs leaves s) (st : List TStep) (l : Leaf) (k b : Bytes) (cap : Int) (cs : List Node)
      (cl : List Leaf) (skipped : List Seg) (s' : Seg) (rest' : List Seg)
      (hn : Node.mk k (.all b cap) cs cl ∈ subs) (hc : capOK cap (skipped.length + 1) = true)
      (hr : ReachW E hok cs cl s' rest' (st, l)) :
      ReachW E hok subs leaves s (skipped ++ s' :: rest')
        (.allSub (.mk k (.all b cap) cs cl) (skipped.length + 1) :: st, l)
  /-- the match-all leaf of this node takes `s` and everything after it (at least one more) -/
  | allLeaf (subs leaves s s' rest' l) (b : Bytes) (cap : Int) (hl : l ∈ leaves) (hp : l.pat = .all b cap)
      (hc : capOK cap (rest'.length + 2) = true) (hh : hok l.hid = true) :
      ReachW E hok subs leaves s (s' :: rest') ([], l)

/-- forgetting the walk: the leaf is reachable in the sense of Spec/Dispatch -/
theorem ReachW.reach {E : Engine} {hok : Nat → Bool} {subs : List Node} {leaves : List Leaf} {s : Seg}
    {rest : List Seg} {w : TWalk} (h : ReachW E hok subs leaves s rest w) :
    Reach E hok subs leaves s rest w.2 := by
  induction h with
  | leaf subs leaves s l hl ha hh => exact .leaf subs leaves s l hl ha hh
  | sub subs leaves s s' rest' st l k p cs cl hn hna ha _ ih =>
    exact .sub subs leaves s s' rest' l k p cs cl hn hna ha ih
  | allSub subs leaves s st l k b cap cs cl skipped s' rest' hn hc _ ih =>
    exact .allSub subs leaves s l k b cap cs cl skipped s' rest' hn hc ih
  | allLeaf subs leaves s s' rest' l b cap hl hp hc hh =>
    exact .allLeaf subs leaves s s' rest' l b cap hl hp hc hh

/-- the walks through the match-all child `n` that has already taken `captured` segments -/
def ReachWAll (E : Engine) (hok : Nat → Bool) (n : Node) (cs : List Node) (cl : List Leaf) (cap : Int)
    (captured : Nat) (s' : Seg) (rest' : List Seg) (x : TWalk) : Prop :=
  ∃ skipped t u st l, s' :: rest' = skipped ++ t :: u ∧ capOK cap (captured + skipped.length) = true ∧
    ReachW E hok cs cl t u (st, l) ∧ x = (.allSub n (captured + skipped.length) :: st, l)

/-- the walks that start with one of the children `subs` -/
def ReachWSubs (E : Engine) (hok : Nat → Bool) (subs : List Node) (s s' : Seg) (rest' : List Seg)
    (x : TWalk) : Prop :=
  ∃ k p cs cl, Node.mk k p cs cl ∈ subs ∧
    ((p.isAll = false ∧ p.acceptsTree E s = true ∧
        ∃ st l, ReachW E hok cs cl s' rest' (st, l) ∧ x = (.sub (.mk k p cs cl) :: st, l)) ∨
     (∃ b cap, p = .all b cap ∧ ReachWAll E hok (.mk k p cs cl) cs cl cap 1 s' rest' x))

theorem ReachWSubs.mono {E : Engine} {hok : Nat → Bool} {subs subs0 : List Node} {s s' : Seg}
    {rest' : List Seg} {x : TWalk} (h : ReachWSubs E hok subs s s' rest' x)
    (hsub : ∀ n, n ∈ subs → n ∈ subs0) : ReachWSubs E hok subs0 s s' rest' x := by
  obtain ⟨k, p, cs, cl, hn, h⟩ := h
  exact ⟨k, p, cs, cl, hsub _ hn, h⟩

/-- a walk through a child starts with a step through one of the children -/
theorem ReachWSubs.shape {E : Engine} {hok : Nat → Bool} {subs : List Node} {s s' : Seg}
    {rest' : List Seg} {x : TWalk} (h : ReachWSubs E hok subs s s' rest' x) :
    ∃ st w l, x = (st :: w, l) ∧ st.node ∈ subs := by
  obtain ⟨k, p, cs, cl, hn, ⟨_, _, st, l, _, rfl⟩ | ⟨b, cap, _, skipped, t, u, st, l, _, _, _, rfl⟩⟩ := h
  · exact ⟨_, st, l, rfl, hn⟩
  · exact ⟨_, st, l, rfl, hn⟩

theorem ReachWSubs.reachW {E : Engine} {hok : Nat → Bool} {subs : List Node} {s s' : Seg}
    {rest' : List Seg} {x : TWalk} (h : ReachWSubs E hok subs s s' rest' x) (leaves : List Leaf) :
    ReachW E hok subs leaves s (s' :: rest') x := by
  obtain ⟨k, p, cs, cl, hn, ⟨hna, ha, st, l, hr, rfl⟩ |
    ⟨b, cap, hp, skipped, t, u, st, l, heq, hc, hr, rfl⟩⟩ := h
  · exact .sub subs leaves s s' rest' st l k p cs cl hn hna ha hr
  · subst hp
    rw [heq, Nat.add_comm]
    refine .allSub subs leaves s st l k b cap cs cl skipped t u hn ?_ hr
    rw [Nat.add_comm]; exact hc

theorem mem_walks_imp (E : Engine) (hok : Nat → Bool) :
    (∀ subs leaves s rest, ∀ x, x ∈ derivWalks E hok subs leaves s rest → ReachW E hok subs leaves s rest x) ∧
    (∀ subs s s' rest', ∀ x, x ∈ walksSubs E hok subs s s' rest' → ReachWSubs E hok subs s s' rest' x) ∧
    (∀ n cs cl cap captured s' rest', ∀ x, x ∈ walksAll E hok n cs cl cap captured s' rest' →
        ReachWAll E hok n cs cl cap captured s' rest' x) := by
  refine derivWalks.mutual_induct
    (motive1 := fun subs leaves s rest => ∀ x, x ∈ derivWalks E hok subs leaves s rest →
        ReachW E hok subs leaves s rest x)
    (motive2 := fun subs s s' rest' => ∀ x, x ∈ walksSubs E hok subs s s' rest' →
        ReachWSubs E hok subs s s' rest' x)
    (motive3 := fun n cs cl cap captured s' rest' => ∀ x, x ∈ walksAll E hok n cs cl cap captured s' rest' →
        ReachWAll E hok n cs cl cap captured s' rest' x)
    ?_ ?_ ?_ ?_ ?_ ?_
  · intro subs leaves s x h
    rw [derivWalks, List.mem_map] at h
    obtain ⟨l, hl, rfl⟩ := h
    rw [mem_leafDerivs] at hl
    exact .leaf subs leaves s l hl.1 hl.2.1 hl.2.2
  · intro subs leaves s s' rest' ih x h
    rw [derivWalks, List.mem_append] at h
    cases h with
    | inl h => exact (ih x h).reachW leaves
    | inr h =>
      rw [List.mem_map] at h
      obtain ⟨l, hl, rfl⟩ := h
      rw [mem_allLeafDerivs] at hl
      obtain ⟨hl, b, cap, hp, hc, hh⟩ := hl
      exact .allLeaf subs leaves s s' rest' l b cap hl hp hc hh
  · intro s s' rest' x h
    rw [walksSubs] at h
    cases h
  · intro s s' rest' key p cs cl more ih3 ih1 ih2 x h
    by_cases hna : p.isAll = false
    · rw [walksSubs_cons_notAll _ _ _ _ _ _ _ _ _ _ hna, List.mem_append] at h
      cases h with
      | inl h =>
        by_cases ha : p.acceptsTree E s = true
        · rw [if_pos ha, List.mem_map] at h
          obtain ⟨⟨st, l⟩, hw, rfl⟩ := h
          exact ⟨key, p, cs, cl, List.mem_cons_self .., Or.inl ⟨hna, ha, st, l, ih1 _ hw, rfl⟩⟩
        · rw [if_neg ha] at h
          cases h
      | inr h => exact (ih2 x h).mono (fun n hn => List.mem_cons_of_mem _ hn)
    · cases p with
      | all b cap =>
        rw [walksSubs_cons_all, List.mem_append] at h
        cases h with
        | inl h => exact ⟨key, _, cs, cl, List.mem_cons_self .., Or.inr ⟨b, cap, rfl, ih3 cap x h⟩⟩
        | inr h => exact (ih2 x h).mono (fun n hn => List.mem_cons_of_mem _ hn)
      | _ => exact (hna rfl).elim
  · intro n cs cl cap captured s' rest' hc ih1 ih3 x h
    rw [walksAll_step, if_pos hc, List.mem_append] at h
    cases h with
    | inl h =>
      rw [List.mem_map] at h
      obtain ⟨⟨st, l⟩, hw, rfl⟩ := h
      exact ⟨[], s', rest', st, l, rfl, by simpa using hc, ih1 _ hw, rfl⟩
    | inr h =>
      cases rest' with
      | nil => cases h
      | cons s'' rest'' =>
        obtain ⟨skipped, t, u, st, l, heq, hc', hr, rfl⟩ := ih3 x h
        refine ⟨s' :: skipped, t, u, st, l, by rw [heq]; rfl, ?_, hr, ?_⟩
        · rw [List.length_cons, ← Nat.add_assoc, Nat.add_right_comm]
          exact hc'
        · rw [List.length_cons, ← Nat.add_assoc, Nat.add_right_comm]
  · intro n cs cl cap captured s' rest' hc x h
    rw [walksAll_step, if_neg hc] at h
    cases h

theorem mem_walksSubs_step {E : Engine} {hok : Nat → Bool} {n : Node} {more : List Node} {s s' : Seg}
    {rest' : List Seg} {x : TWalk} (h : x ∈ walksSubs E hok more s s' rest') :
    x ∈ walksSubs E hok (n :: more) s s' rest' := by
  obtain ⟨k', p', cs', cl'⟩ := n
  by_cases hna' : p'.isAll = false
  · rw [walksSubs_cons_notAll _ _ _ _ _ _ _ _ _ _ hna']; exact List.mem_append_right _ h
  · cases p' with
    | all b cap => rw [walksSubs_cons_all]; exact List.mem_append_right _ h
    | _ => exact (hna' rfl).elim

theorem mem_walksSubs_of_notAll {E : Engine} {hok : Nat → Bool} {subs : List Node} {s s' : Seg}
    {rest' : List Seg} {w : TWalk} {k : Bytes} {p : Pat} {cs : List Node} {cl : List Leaf}
    (hn : Node.mk k p cs cl ∈ subs) (hna : p.isAll = false) (ha : p.acceptsTree E s = true)
    (hl : w ∈ derivWalks E hok cs cl s' rest') :
    TWalk.cons (.sub (.mk k p cs cl)) w ∈ walksSubs E hok subs s s' rest' := by
  induction subs with
  | nil => cases hn
  | cons n more ih =>
    rw [List.mem_cons] at hn
    cases hn with
    | inl heq =>
      subst heq
      rw [walksSubs_cons_notAll _ _ _ _ _ _ _ _ _ _ hna, if_pos ha]
      exact List.mem_append_left _ (List.mem_map_of_mem hl)
    | inr hmem => exact mem_walksSubs_step (ih hmem)

theorem mem_walksSubs_of_all {E : Engine} {hok : Nat → Bool} {subs : List Node} {s s' : Seg}
    {rest' : List Seg} {x : TWalk} {k b : Bytes} {cap : Int} {cs : List Node} {cl : List Leaf}
    (hn : Node.mk k (.all b cap) cs cl ∈ subs)
    (hl : x ∈ walksAll E hok (.mk k (.all b cap) cs cl) cs cl cap 1 s' rest') :
    x ∈ walksSubs E hok subs s s' rest' := by
  induction subs with
  | nil => cases hn
  | cons n more ih =>
    rw [List.mem_cons] at hn
    cases hn with
    | inl heq =>
      subst heq
      rw [walksSubs_cons_all]
      exact List.mem_append_left _ hl
    | inr hmem => exact mem_walksSubs_step (ih hmem)

theorem mem_walksAll_of {E : Engine} {hok : Nat → Bool} {n : Node} {cs : List Node} {cl : List Leaf}
    {cap : Int} {t : Seg} {u : List Seg} {w : TWalk} (hl : w ∈ derivWalks E hok cs cl t u) :
    ∀ (skipped : List Seg) (captured : Nat) (s' : Seg) (rest' : List Seg),
      s' :: rest' = skipped ++ t :: u → capOK cap (captured + skipped.length) = true →
      TWalk.cons (.allSub n (captured + skipped.length)) w ∈ walksAll E hok n cs cl cap captured s' rest' := by
  intro skipped
  induction skipped with
  | nil =>
    intro captured s' rest' heq hc
    simp only [List.nil_append, List.cons.injEq] at heq
    obtain ⟨rfl, rfl⟩ := heq
    rw [walksAll_step, if_pos (by simpa using hc)]
    exact List.mem_append_left _ (List.mem_map_of_mem hl)
  | cons a sk ih =>
    intro captured s' rest' heq hc
    simp only [List.cons_append, List.cons.injEq] at heq
    obtain ⟨rfl, rfl⟩ := heq
    rw [walksAll_step, if_pos (capOK_mono (Nat.le_add_right _ _) hc)]
    refine List.mem_append_right _ ?_
    cases hsk : sk ++ t :: u with
    | nil => simp at hsk
    | cons s'' rest'' =>
      have e : captured + (s' :: sk).length = captured + 1 + sk.length := by
        rw [List.length_cons]; omega
      rw [e] at hc ⊢
      exact ih (captured + 1) s'' rest'' hsk.symm hc

theorem reachW_imp_mem (E : Engine) (hok : Nat → Bool) {subs : List Node} {leaves : List Leaf} {s : Seg}
    {rest : List Seg} {w : TWalk} (h : ReachW E hok subs leaves s rest w) :
    w ∈ derivWalks E hok subs leaves s rest := by
  induction h with
  | leaf subs leaves s l hl ha hh =>
    rw [derivWalks]
    exact List.mem_map_of_mem (mem_leafDerivs.mpr ⟨hl, ha, hh⟩)
  | sub subs leaves s s' rest' st l k p cs cl hn hna ha _ ih =>
    rw [derivWalks]
    exact List.mem_append_left _ (mem_walksSubs_of_notAll hn hna ha ih)
  | allSub subs leaves s st l k b cap cs cl skipped s' rest' hn hc _ ih =>
    cases hsk : skipped ++ s' :: rest' with
    | nil => simp at hsk
    | cons t u =>
      rw [derivWalks]
      refine List.mem_append_left _ (mem_walksSubs_of_all hn ?_)
      have := mem_walksAll_of (n := .mk k (.all b cap) cs cl) ih skipped 1 t u hsk.symm
        (by rw [Nat.add_comm]; exact hc)
      rw [Nat.add_comm 1] at this
      exact this
  | allLeaf subs leaves s s' rest' l b cap hl hp hc hh =>
    rw [derivWalks]
    exact List.mem_append_right _ (List.mem_map_of_mem (mem_allLeafDerivs.mpr ⟨hl, b, cap, hp, hc, hh⟩))

/-- **the enumeration lists exactly the accepting walks** -/
theorem mem_derivWalks_iff_reachW (E : Engine) (hok : Nat → Bool) (subs : List Node) (leaves : List Leaf)
    (s : Seg) (rest : List Seg) (w : TWalk) :
    w ∈ derivWalks E hok subs leaves s rest ↔ ReachW E hok subs leaves s rest w :=
  ⟨(mem_walks_imp E hok).1 subs leaves s rest w, reachW_imp_mem E hok⟩

/-- every reachable leaf is the leaf of an accepting walk -/
theorem reach_iff_reachW (E : Engine) (hok : Nat → Bool) (subs : List Node) (leaves : List Leaf)
    (s : Seg) (rest : List Seg) (l : Leaf) :
    Reach E hok subs leaves s rest l ↔ ∃ st, ReachW E hok subs leaves s rest (st, l) := by
  constructor
  · intro h
    have hm := (mem_derivs_iff_reach E hok subs leaves s rest l).mpr h
    rw [← derivWalks_leaves, List.mem_map] at hm
    obtain ⟨⟨st, l'⟩, hw, rfl⟩ := hm
    exact ⟨st, (mem_derivWalks_iff_reachW E hok subs leaves s rest _).mp hw⟩
  · rintro ⟨st, h⟩
    exact h.reach

/-! ### the documented priority between two walks from the same node -/

open scoped _root_.List

/-- `Prior subs leaves w w'`: walk `w` comes before walk `w'` in the documented order, both
    starting at a node with children `subs` / `leaves` —
    * both end here: `w`'s leaf is earlier in the leaf list;
    * `w` continues through a child, `w'` ends here (with the node's match-all leaf);
    * they continue through different children: `w`'s child is earlier in the child list;
    * they continue through the same match-all child: `w` lets it take fewer segments;
    * they take the same step: the rest of `w` comes before the rest of `w'` below that child. -/
inductive Prior : List Node → List Leaf → TWalk → TWalk → Prop
  | leaf {subs leaves l l'} (h : [l, l'] <+ leaves) : Prior subs leaves ([], l) ([], l')
  | subLeaf {subs leaves st w l l'} : Prior subs leaves (st :: w, l) ([], l')
  | sib {subs leaves} {st st' : TStep} {w w' l l'} (h : [st.node, st'.node] <+ subs) :
      Prior subs leaves (st :: w, l) (st' :: w', l')
  | fewer {subs leaves n k k' w w' l l'} (h : k < k') :
      Prior subs leaves (.allSub n k :: w, l) (.allSub n k' :: w', l')
  | under {subs leaves} {st : TStep} {w w' l l'} (hm : st.node ∈ subs)
      (h : Prior st.node.subs st.node.leaves (w, l) (w', l')) :
      Prior subs leaves (st :: w, l) (st :: w', l')

theorem Prior.mono {subs subs2 : List Node} {leaves : List Leaf} {a b : TWalk}
    (h : Prior subs leaves a b) (hsub : subs <+ subs2) : Prior subs2 leaves a b := by
  cases h with
  | leaf h => exact .leaf h
  | subLeaf => exact .subLeaf
  | sib h => exact .sib (h.trans hsub)
  | fewer h => exact .fewer h
  | under hm h => exact .under (hsub.subset hm) h

/-- a list is sorted by its own positions -/
theorem pairwise_sublist_self {α : Type} : ∀ (L : List α), L.Pairwise (fun a b => [a, b] <+ L)
  | [] => List.Pairwise.nil
  | x :: xs => by
    rw [List.pairwise_cons]
    refine ⟨fun b hb => (List.singleton_sublist.mpr hb).cons_cons x, ?_⟩
    exact (pairwise_sublist_self xs).imp (fun h => h.cons x)

theorem pairwise_sublist_of_sublist {α : Type} {L' L : List α} (h : L' <+ L) :
    L'.Pairwise (fun a b => [a, b] <+ L) :=
  (pairwise_sublist_self L).sublist h

theorem leafDerivs_sublist (E : Engine) (hok : Nat → Bool) (leaves : List Leaf) (s : Seg) :
    leafDerivs E hok leaves s <+ leaves := List.filter_sublist

theorem allLeafDerivs_sublist (hok : Nat → Bool) (leaves : List Leaf) (n : Nat) :
    allLeafDerivs hok leaves n <+ leaves := List.filter_sublist

/-- **the enumeration is sorted by the documented priority** — in every tree, no invariant
    needed: the order of `derivWalks` (hence of `derivs`, whose head the matcher returns) is the
    lexicographic order by list position / captured count along the walk -/
theorem walks_sorted (E : Engine) (hok : Nat → Bool) :
    (∀ subs leaves s rest, (derivWalks E hok subs leaves s rest).Pairwise (Prior subs leaves)) ∧
    (∀ subs s s' rest', ∀ leaves, (walksSubs E hok subs s s' rest').Pairwise (Prior subs leaves)) ∧
    (∀ n cs cl cap captured s' rest', ∀ subs leaves, n ∈ subs → n.subs = cs → n.leaves = cl →
        (walksAll E hok n cs cl cap captured s' rest').Pairwise (Prior subs leaves)) := by
  refine derivWalks.mutual_induct
    (motive1 := fun subs leaves s rest =>
        (derivWalks E hok subs leaves s rest).Pairwise (Prior subs leaves))
    (motive2 := fun subs s s' rest' => ∀ leaves,
        (walksSubs E hok subs s s' rest').Pairwise (Prior subs leaves))
    (motive3 := fun n cs cl cap captured s' rest' => ∀ subs leaves, n ∈ subs → n.subs = cs → n.leaves = cl →
        (walksAll E hok n cs cl cap captured s' rest').Pairwise (Prior subs leaves))
    ?_ ?_ ?_ ?_ ?_ ?_
  · intro subs leaves s
    rw [derivWalks, List.pairwise_map]
    exact (pairwise_sublist_of_sublist (leafDerivs_sublist E hok leaves s)).imp (fun h => .leaf h)
  · intro subs leaves s s' rest' ih
    rw [derivWalks, List.pairwise_append]
    refine ⟨ih leaves, ?_, ?_⟩
    · rw [List.pairwise_map]
      exact (pairwise_sublist_of_sublist (allLeafDerivs_sublist hok leaves _)).imp (fun h => .leaf h)
    · intro a ha b hb
      obtain ⟨st, w, l, rfl, _⟩ := ((mem_walks_imp E hok).2.1 subs s s' rest' a ha).shape
      rw [List.mem_map] at hb
      obtain ⟨l', _, rfl⟩ := hb
      exact .subLeaf
  · intro s s' rest' leaves
    rw [walksSubs]
    exact List.Pairwise.nil
  · intro s s' rest' k p cs cl more ih3 ih1 ih2 leaves
    have hmore : (walksSubs E hok more s s' rest').Pairwise (Prior (Node.mk k p cs cl :: more) leaves) :=
      (ih2 leaves).imp (fun h => h.mono (List.sublist_cons_self _ _))
    have hcross : ∀ a : TWalk, (∃ st w l, a = (st :: w, l) ∧ st.node = .mk k p cs cl) →
        ∀ b ∈ walksSubs E hok more s s' rest', Prior (Node.mk k p cs cl :: more) leaves a b := by
      rintro a ⟨st, w, l, rfl, hst⟩ b hb
      obtain ⟨st', w', l', rfl, hst'⟩ := ((mem_walks_imp E hok).2.1 more s s' rest' b hb).shape
      refine .sib ?_
      rw [hst]
      exact (List.singleton_sublist.mpr hst').cons_cons _
    by_cases hna : p.isAll = false
    · rw [walksSubs_cons_notAll _ _ _ _ _ _ _ _ _ _ hna, List.pairwise_append]
      refine ⟨?_, hmore, ?_⟩
      · by_cases ha : p.acceptsTree E s = true
        · rw [if_pos ha, List.pairwise_map]
          refine ih1.imp ?_
          intro a b h
          exact Prior.under (st := .sub (.mk k p cs cl)) (List.mem_cons_self ..) h
        · rw [if_neg ha]; exact List.Pairwise.nil
      · intro a ha b hb
        refine hcross a ?_ b hb
        by_cases hacc : p.acceptsTree E s = true
        · rw [if_pos hacc, List.mem_map] at ha
          obtain ⟨⟨st, l⟩, _, rfl⟩ := ha
          exact ⟨_, st, l, rfl, rfl⟩
        · rw [if_neg hacc] at ha; cases ha
    · cases p with
      | all b cap =>
        rw [walksSubs_cons_all, List.pairwise_append]
        refine ⟨ih3 cap _ leaves (List.mem_cons_self ..) rfl rfl, hmore, ?_⟩
        intro a ha b' hb
        refine hcross a ?_ b' hb
        obtain ⟨skipped, t, u, st, l, _, _, _, rfl⟩ := (mem_walks_imp E hok).2.2 _ _ _ _ _ _ _ a ha
        exact ⟨_, st, l, rfl, rfl⟩
      | _ => exact (hna rfl).elim
  · intro n cs cl cap captured s' rest' hc ih1 ih3 subs leaves hn hcs hcl
    subst hcs hcl
    rw [walksAll_step, if_pos hc, List.pairwise_append]
    refine ⟨?_, ?_, ?_⟩
    · rw [List.pairwise_map]
      refine ih1.imp ?_
      intro a b h
      exact Prior.under (st := .allSub n captured) hn h
    · cases rest' with
      | nil => exact List.Pairwise.nil
      | cons s'' rest'' => exact ih3 subs leaves hn rfl rfl
    · intro a ha b hb
      rw [List.mem_map] at ha
      obtain ⟨⟨st, l⟩, _, rfl⟩ := ha
      cases rest' with
      | nil => cases hb
      | cons s'' rest'' =>
        obtain ⟨skipped, t, u, st', l', _, _, _, rfl⟩ := (mem_walks_imp E hok).2.2 _ _ _ _ _ _ _ b hb
        exact .fewer (by omega)
  · intro n cs cl cap captured s' rest' hc subs leaves _ _ _
    rw [walksAll_step, if_neg hc]
    exact List.Pairwise.nil

theorem derivWalks_sorted (E : Engine) (hok : Nat → Bool) (subs : List Node) (leaves : List Leaf)
    (s : Seg) (rest : List Seg) : (derivWalks E hok subs leaves s rest).Pairwise (Prior subs leaves) :=
  (walks_sorted E hok).1 subs leaves s rest

/-- the head of a sorted list comes before every other member -/
theorem head_prior {α : Type} {R : α → α → Prop} {L : List α} {w w' : α} (hp : L.Pairwise R)
    (hh : L.head? = some w) (hm : w' ∈ L) : w' = w ∨ R w w' := by
  cases L with
  | nil => cases hh
  | cons x xs =>
    simp only [List.head?_cons, Option.some.injEq] at hh
    subst hh
    rcases List.mem_cons.mp hm with h | h
    · exact Or.inl h
    · exact Or.inr ((List.pairwise_cons.mp hp).1 w' h)

theorem mem_of_head? {α : Type} {L : List α} {w : α} (hh : L.head? = some w) : w ∈ L := by
  cases L with
  | nil => cases hh
  | cons x xs =>
    simp only [List.head?_cons, Option.some.injEq] at hh
    subst hh
    exact List.mem_cons_self ..

/-- **the first walk of the enumeration comes before every other accepting walk** -/
theorem head_walk_prior (E : Engine) (hok : Nat → Bool) {subs : List Node} {leaves : List Leaf}
    {s : Seg} {rest : List Seg} {w w' : TWalk}
    (hh : (derivWalks E hok subs leaves s rest).head? = some w)
    (ho : ReachW E hok subs leaves s rest w') : w' = w ∨ Prior subs leaves w w' :=
  head_prior (derivWalks_sorted E hok subs leaves s rest) hh (reachW_imp_mem E hok ho)

/-! ### reading the order with the invariants -/

theorem TreeInv.childN {subs : List Node} {leaves : List Leaf} (h : TreeInv subs leaves) {n : Node}
    (hm : n ∈ subs) : TreeInv n.subs n.leaves := by
  cases n; exact h.child hm

theorem BirthInv.childN {subs : List Node} {leaves : List Leaf} (h : BirthInv subs leaves) {n : Node}
    (hm : n ∈ subs) : BirthInv n.subs n.leaves := by
  cases n; exact h.child hm

/-- what is below the first step of an accepting walk: the rest of the walk accepts what the
    step leaves -/
theorem ReachW.cons_inv {E : Engine} {hok : Nat → Bool} {subs : List Node} {leaves : List Leaf} {s : Seg}
    {rest : List Seg} {st : TStep} {w : List TStep} {l : Leaf}
    (h : ReachW E hok subs leaves s rest (st :: w, l)) :
    st.node ∈ subs ∧ ∃ s' rest', rest.drop (st.taken - 1) = s' :: rest' ∧
      ReachW E hok st.node.subs st.node.leaves s' rest' (w, l) := by
  cases h with
  | sub _ _ _ s' rest' _ _ k p cs cl hn hna ha hr => exact ⟨hn, s', rest', rfl, hr⟩
  | allSub _ _ _ _ _ k b cap cs cl skipped s' rest' hn hc hr =>
    refine ⟨hn, s', rest', ?_, hr⟩
    simp [TStep.taken]

/-- an accepting walk without steps: its leaf takes the single last segment, or is a match-all -/
theorem ReachW.nil_inv {E : Engine} {hok : Nat → Bool} {subs : List Node} {leaves : List Leaf} {s : Seg}
    {rest : List Seg} {w : TWalk} (h : ReachW E hok subs leaves s rest w) (hw : w.1 = []) :
    (rest = [] ∧ w.2.pat.acceptsLeaf E s = true) ∨ ∃ b cap, w.2.pat = .all b cap := by
  cases h with
  | leaf _ _ _ _ _ ha _ => exact Or.inl ⟨rfl, ha⟩
  | sub => cases hw
  | allSub => cases hw
  | allLeaf _ _ _ _ _ _ b cap _ hp _ _ => exact Or.inr ⟨b, cap, hp⟩

/-- two accepting walks with a common beginning `pre`, the first before the second: at the node
    where `pre` ends, the rests are accepting walks for the same remaining segments and the first
    rest comes before the second -/
theorem Prior.strip (E : Engine) (hok : Nat → Bool) :
    ∀ (pre : List TStep) (subs : List Node) (leaves : List Leaf) (s : Seg) (rest : List Seg)
      (x y : List TStep) (l l' : Leaf),
      TreeInv subs leaves → BirthInv subs leaves →
      ReachW E hok subs leaves s rest (pre ++ x, l) → ReachW E hok subs leaves s rest (pre ++ y, l') →
      Prior subs leaves (pre ++ x, l) (pre ++ y, l') →
      ∃ subs' leaves' s' rest', TreeInv subs' leaves' ∧ BirthInv subs' leaves' ∧
        ReachW E hok subs' leaves' s' rest' (x, l) ∧ ReachW E hok subs' leaves' s' rest' (y, l') ∧
        Prior subs' leaves' (x, l) (y, l')
  | [], subs, leaves, s, rest, x, y, l, l', hinv, hb, h1, h2, hp =>
    ⟨subs, leaves, s, rest, hinv, hb, h1, h2, hp⟩
  | st :: pre, subs, leaves, s, rest, x, y, l, l', hinv, hb, h1, h2, hp => by
    simp only [List.cons_append] at h1 h2 hp
    obtain ⟨hm, s1, rest1, e1, r1⟩ := h1.cons_inv
    obtain ⟨_, s2, rest2, e2, r2⟩ := h2.cons_inv
    rw [e1] at e2
    simp only [List.cons.injEq] at e2
    obtain ⟨rfl, rfl⟩ := e2
    have hbelow : Prior st.node.subs st.node.leaves (pre ++ x, l) (pre ++ y, l') := by
      cases hp with
      | sib h =>
        have := hinv.subsInv.keys.sublist h
        rw [List.pairwise_cons] at this
        exact absurd rfl (this.1 _ (List.mem_cons_self ..))
      | fewer h => exact absurd h (Nat.lt_irrefl _)
      | under _ h => exact h
    exact Prior.strip E hok pre _ _ _ _ x y l l' (hinv.childN hm) (hb.childN hm) r1 r2 hbelow

/-- a node on an accepting walk has a leaf beneath it, and the ids beneath it are ids of the tree -/
theorem ReachW.node_hids {E : Engine} {hok : Nat → Bool} :
    ∀ (pre : List TStep) {subs : List Node} {leaves : List Leaf} {s : Seg} {rest : List Seg}
      {a : TStep} {x : List TStep} {l : Leaf}, BirthInv subs leaves →
      ReachW E hok subs leaves s rest (pre ++ a :: x, l) →
      a.node.hids ≠ [] ∧ ∀ i ∈ a.node.hids, i ∈ treeHids subs leaves
  | [], subs, leaves, s, rest, a, x, l, hb, h => by
    obtain ⟨hm, _⟩ := h.cons_inv
    exact ⟨hb.nonempty _ hm, fun i hi => mem_treeHids.mpr (Or.inr ⟨_, hm, hi⟩)⟩
  | st :: pre, subs, leaves, s, rest, a, x, l, hb, h => by
    simp only [List.cons_append] at h
    obtain ⟨hm, s', rest', _, hr⟩ := h.cons_inv
    obtain ⟨h1, h2⟩ := ReachW.node_hids pre (hb.childN hm) hr
    refine ⟨h1, fun i hi => mem_treeHids.mpr (Or.inr ⟨_, hm, ?_⟩)⟩
    rw [Node.hids_eq]
    exact h2 i hi

theorem pair_of_sublist {α : Type} {R : α → α → Prop} {L : List α} {a b : α} (hp : L.Pairwise R)
    (h : [a, b] <+ L) : R a b := by
  have := hp.sublist h
  rw [List.pairwise_cons] at this
  exact this.1 b (List.mem_cons_self ..)

/-- a static leaf accepts exactly its literal -/
theorem acceptsLeaf_static {E : Engine} {lit s : Bytes} (h : (Pat.static lit).acceptsLeaf E s = true) :
    lit = s := by
  simpa [Pat.acceptsLeaf] using h

section Priority
variable (E : Engine) (hok : Nat → Bool) {subs : List Node} {leaves : List Leaf} {s : Seg} {rest : List Seg}

/-- **leaves of one node**: the first accepting walk ends in leaf `l`, another accepting walk takes
    the same steps and ends in a different leaf `l'` of the same node: then `l` has the lower
    rank, or the same rank and the smaller registration id -/
theorem walk_leaf_priority (hinv : TreeInv subs leaves) (hb : BirthInv subs leaves)
    {pre : List TStep} {l l' : Leaf}
    (hh : (derivWalks E hok subs leaves s rest).head? = some (pre, l))
    (ho : ReachW E hok subs leaves s rest (pre, l')) (hne : l' ≠ l) :
    l.pat.rank < l'.pat.rank ∨ (l.pat.rank = l'.pat.rank ∧ l.hid < l'.hid) := by
  have hw := (mem_derivWalks_iff_reachW E hok _ _ _ _ _).mp (mem_of_head? hh)
  rcases head_walk_prior E hok hh ho with h | hp
  · exact absurd (congrArg Prod.snd h) hne
  · have := Prior.strip E hok pre subs leaves s rest [] [] l l' hinv hb
      (by simpa using hw) (by simpa using ho) (by simpa using hp)
    obtain ⟨subs', leaves', s', rest', hinv', hb', r1, r2, hp'⟩ := this
    cases hp' with
    | leaf hsub =>
      have hrk : l.pat.rank ≤ l'.pat.rank := pair_of_sublist (R := fun a b : Leaf => a.pat.rank ≤ b.pat.rank) hinv'.leavesInv.sorted hsub
      have hord : LeafOrd l l' := pair_of_sublist hb'.leavesOrd hsub
      rcases Nat.lt_or_ge l.pat.rank l'.pat.rank with hlt | hge
      · exact Or.inl hlt
      · have heq : l.pat.rank = l'.pat.rank := Nat.le_antisymm hrk hge
        refine Or.inr ⟨heq, ?_⟩
        rcases hord heq with hlt | ⟨_, la, lb, hla, hlb, hdiff⟩
        · exact hlt
        · -- the two forms of one registration: static with different literals, cannot both accept
          exfalso
          rcases r1.nil_inv rfl with ⟨_, ha1⟩ | ⟨b, cap, hp1⟩
          · rcases r2.nil_inv rfl with ⟨_, ha2⟩ | ⟨b, cap, hp2⟩
            · simp only at ha1 ha2
              rw [hla] at ha1
              rw [hlb] at ha2
              exact hdiff ((acceptsLeaf_static ha1).trans (acceptsLeaf_static ha2).symm)
            · simp only at hp2
              rw [hlb] at hp2; cases hp2
          · simp only at hp1
            rw [hla] at hp1; cases hp1

/-- **children of one node**: the first accepting walk and another accepting walk take the same
    steps `pre` and then go through different children `a`, `b` of the same node: then `a` has the
    lower rank, or the same rank and the earlier registration time (`minHid`) -/
theorem walk_subtree_priority (hinv : TreeInv subs leaves) (hb : BirthInv subs leaves)
    {pre x y : List TStep} {a b : TStep} {l l' : Leaf}
    (hh : (derivWalks E hok subs leaves s rest).head? = some (pre ++ a :: x, l))
    (ho : ReachW E hok subs leaves s rest (pre ++ b :: y, l')) (hne : a.node ≠ b.node) :
    a.node.pat.rank < b.node.pat.rank ∨
      (a.node.pat.rank = b.node.pat.rank ∧ minHid a.node < minHid b.node) := by
  have hw := (mem_derivWalks_iff_reachW E hok _ _ _ _ _).mp (mem_of_head? hh)
  rcases head_walk_prior E hok hh ho with h | hp
  · have := List.append_cancel_left (congrArg Prod.fst h)
    simp only [List.cons.injEq] at this
    exact absurd (congrArg TStep.node this.1).symm hne
  · obtain ⟨subs', leaves', s', rest', hinv', hb', r1, r2, hp'⟩ :=
      Prior.strip E hok pre subs leaves s rest (a :: x) (b :: y) l l' hinv hb hw ho hp
    cases hp' with
    | sib hsub =>
      have hrk : a.node.pat.rank ≤ b.node.pat.rank := pair_of_sublist (R := fun a b : Node => a.pat.rank ≤ b.pat.rank) hinv'.subsInv.sorted hsub
      have hord : NodeOrd a.node b.node := pair_of_sublist hb'.subsOrd hsub
      rcases Nat.lt_or_ge a.node.pat.rank b.node.pat.rank with hlt | hge
      · exact Or.inl hlt
      · have heq := Nat.le_antisymm hrk hge
        exact Or.inr ⟨heq, hord heq⟩
    | fewer _ => exact absurd rfl hne
    | under _ _ => exact absurd rfl hne

/-- **a match-all in the middle prefers the fewest captured segments**: the first accepting walk
    and another one take the same steps and then go through the same match-all child `n`, taking
    `k` resp. `k'` segments: then `k ≤ k'` -/
theorem walk_matchall_fewest (hinv : TreeInv subs leaves) (hb : BirthInv subs leaves)
    {pre x y : List TStep} {n : Node} {k k' : Nat} {l l' : Leaf}
    (hh : (derivWalks E hok subs leaves s rest).head? = some (pre ++ .allSub n k :: x, l))
    (ho : ReachW E hok subs leaves s rest (pre ++ .allSub n k' :: y, l')) : k ≤ k' := by
  have hw := (mem_derivWalks_iff_reachW E hok _ _ _ _ _).mp (mem_of_head? hh)
  rcases head_walk_prior E hok hh ho with h | hp
  · have := List.append_cancel_left (congrArg Prod.fst h)
    simp only [List.cons.injEq, TStep.allSub.injEq] at this
    omega
  · obtain ⟨subs', leaves', s', rest', hinv', hb', r1, r2, hp'⟩ :=
      Prior.strip E hok pre subs leaves s rest (.allSub n k :: x) (.allSub n k' :: y) l l' hinv hb hw ho hp
    cases hp' with
    | sib hsub =>
      have := hinv'.subsInv.keys.sublist hsub
      rw [List.pairwise_cons] at this
      exact absurd rfl (this.1 _ (List.mem_cons_self ..))
    | fewer h => exact Nat.le_of_lt h
    | under _ _ => exact Nat.le_refl _

/-- **a match-all that ends a route is tried last**: if some accepting walk continues below the
    node where the steps `pre` end, the first accepting walk does not end at that node (with the
    node's own match-all leaf) -/
theorem walk_matchall_leaf_last (hinv : TreeInv subs leaves) (hb : BirthInv subs leaves)
    {pre y : List TStep} {b : TStep} {l l' : Leaf}
    (hh : (derivWalks E hok subs leaves s rest).head? = some (pre, l))
    (ho : ReachW E hok subs leaves s rest (pre ++ b :: y, l')) : False := by
  have hw := (mem_derivWalks_iff_reachW E hok _ _ _ _ _).mp (mem_of_head? hh)
  rcases head_walk_prior E hok hh ho with h | hp
  · have h1 : pre ++ b :: y = pre ++ [] := by simpa using congrArg Prod.fst h
    have := List.append_cancel_left h1
    cases this
  · obtain ⟨subs', leaves', s', rest', hinv', hb', r1, r2, hp'⟩ :=
      Prior.strip E hok pre subs leaves s rest [] (b :: y) l l' hinv hb (by simpa using hw) ho
        (by simpa using hp)
    cases hp'

end Priority

end Flamego
