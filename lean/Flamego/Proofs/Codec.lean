/-
  Proofs/Codec.lean — lemmas about the query-escape codec and the cookie-value model of
  Base/Codec.lean (used by Props/C18.lean).
-/
import Flamego.Base.Codec
namespace Flamego

/-- A statement about one byte holds for every byte once it holds for the 256 values. -/
theorem forall_byte {p : UInt8 → Prop} (h : ∀ n : Fin 256, p (UInt8.ofNat n.val)) : ∀ c : UInt8, p c := by
  intro c
  have := h ⟨c.toNat, c.toNat_lt⟩
  simpa using this

/-- the bytes `queryEscape` can emit: unreserved ones, `+` and `%` -/
def escSafe (b : UInt8) : Bool := !shouldEscapeQuery b || b == plus || b == pct

set_option maxRecDepth 100000 in
/-- `%XY` written by `queryEscape` for the byte `c` decodes to `c` -/
theorem hex_roundtrip : ∀ c : UInt8,
    (isHex (upperHex (c >>> 4)) && isHex (upperHex (c &&& 15))
      && (unhex (upperHex (c >>> 4)) <<< 4 ||| unhex (upperHex (c &&& 15))) == c) = true := by
  apply forall_byte; decide

set_option maxRecDepth 100000 in
theorem upperHex_safe : ∀ c : UInt8,
    (escSafe (upperHex (c >>> 4)) && escSafe (upperHex (c &&& 15))) = true := by
  apply forall_byte; decide

set_option maxRecDepth 100000 in
/-- what the cookie layer needs to know about an emitted byte -/
theorem escSafe_props : ∀ b : UInt8, escSafe b = true →
    (validCookieValueByte b && b != space && b != comma && b != dquote && b != semicolon
      && b != backslash && b != eqSign && !isAsciiSpace b) = true := by
  apply forall_byte; decide

set_option maxRecDepth 100000 in
/-- a byte that is left alone by `queryEscape` is neither `%` nor `+` nor a blank -/
theorem unreserved_props : ∀ b : UInt8, shouldEscapeQuery b = false →
    (b != pct && b != plus && b != space) = true := by
  apply forall_byte; decide

set_option maxRecDepth 100000 in
/-- a token byte (cookie name) is no separator and no white space -/
theorem token_props : ∀ b : UInt8, isTokenByte b = true →
    (b != eqSign && b != semicolon && !isAsciiSpace b) = true := by
  apply forall_byte; decide

/-! ### the codec round trip -/

theorem queryUnescape_queryEscape (s : Bytes) : queryUnescape (queryEscape s) = some s := by
  induction s with
  | nil => rfl
  | cons c rest ih =>
    unfold queryEscape
    by_cases hsp : c = space
    · subst hsp
      simp only [if_true]
      unfold queryUnescape
      simp [ih, plus, pct, space]
    · simp only [hsp, if_false]
      cases hse : shouldEscapeQuery c
      · have hp := unreserved_props c hse
        simp only [Bool.and_eq_true, bne_iff_ne, ne_eq] at hp
        obtain ⟨⟨h1, h2⟩, _⟩ := hp
        simp only [Bool.false_eq_true, if_false]
        unfold queryUnescape
        simp [h1, h2, ih]
      · have hh := hex_roundtrip c
        simp only [Bool.and_eq_true, beq_iff_eq] at hh
        obtain ⟨⟨ha, hb⟩, hv⟩ := hh
        simp only [if_true]
        unfold queryUnescape
        simp [ha, hb, hv, ih]

theorem queryEscape_safe (s : Bytes) : ∀ b ∈ queryEscape s, escSafe b = true := by
  induction s with
  | nil => simp [queryEscape]
  | cons c rest ih =>
    unfold queryEscape
    by_cases hsp : c = space
    · simp only [hsp, if_true, List.mem_cons]
      rintro b (rfl | hb)
      · decide
      · exact ih b hb
    · simp only [hsp, if_false]
      cases hse : shouldEscapeQuery c
      · simp only [Bool.false_eq_true, if_false, List.mem_cons]
        rintro b (rfl | hb)
        · simp [escSafe, hse]
        · exact ih b hb
      · have hu := upperHex_safe c
        simp only [Bool.and_eq_true] at hu
        simp only [if_true, List.mem_cons]
        rintro b (rfl | rfl | rfl | hb)
        · decide
        · exact hu.1
        · exact hu.2
        · exact ih b hb

/-! ### list helpers -/

theorem dropWhile_none {p : UInt8 → Bool} {l : Bytes} (h : ∀ b ∈ l, p b = false) (hl : l ≠ []) :
    l.dropWhile p = l := by
  cases l with
  | nil => exact absurd rfl hl
  | cons a t => simp [List.dropWhile, h a (by simp)]

/-- `textproto.TrimString` leaves a text without ASCII white space alone -/
theorem trimString_id {l : Bytes} (h : ∀ b ∈ l, isAsciiSpace b = false) : trimString l = l := by
  unfold trimString
  by_cases hl : l = []
  · subst hl; rfl
  · rw [dropWhile_none h hl]
    have hr : ∀ b ∈ l.reverse, isAsciiSpace b = false := fun b hb => h b (List.mem_reverse.mp hb)
    rw [dropWhile_none hr (by simpa using hl)]
    simp

theorem splitOn_ne_nil (sep : UInt8) (l : Bytes) : splitOn sep l ≠ [] := by
  induction l with
  | nil => simp [splitOn]
  | cons c cs ih =>
    unfold splitOn
    split
    · simp
    · split <;> simp

/-- a text without the separator is one piece -/
theorem splitOn_none {sep : UInt8} {l : Bytes} (h : ∀ b ∈ l, b ≠ sep) : splitOn sep l = [l] := by
  induction l with
  | nil => rfl
  | cons c cs ih =>
    have hc : c ≠ sep := h c (by simp)
    have := ih (fun b hb => h b (by simp [hb]))
    unfold splitOn
    simp [hc, this]

/-- `strings.Cut` finds the first separator -/
theorem cut_append {sep : UInt8} {n : Bytes} (e : Bytes) (h : ∀ b ∈ n, b ≠ sep) :
    cut sep (n ++ sep :: e) = (n, e) := by
  induction n with
  | nil => simp [cut]
  | cons c cs ih =>
    have hc : c ≠ sep := h c (by simp)
    have := ih (fun b hb => h b (by simp [hb]))
    simp [cut, hc, this]

/-! ### the cookie layer is transparent for escaped values -/

theorem all_valid_of_safe {e : Bytes} (h : ∀ b ∈ e, escSafe b = true) :
    ∀ b ∈ e, validCookieValueByte b = true ∧ b ≠ space ∧ b ≠ comma ∧ b ≠ dquote ∧ b ≠ semicolon
      ∧ b ≠ backslash ∧ b ≠ eqSign ∧ isAsciiSpace b = false := by
  intro b hb
  have := escSafe_props b (h b hb)
  simp only [Bool.and_eq_true, bne_iff_ne, ne_eq, Bool.not_eq_true'] at this
  obtain ⟨⟨⟨⟨⟨⟨⟨h1, h2⟩, h3⟩, h4⟩, h5⟩, h6⟩, h7⟩, h8⟩ := this
  exact ⟨h1, h2, h3, h4, h5, h6, h7, h8⟩

/-- `sanitizeCookieValue` is the identity on a value made of emitted bytes (nothing dropped, no quotes added) -/
theorem sanitize_safe {e : Bytes} (h : ∀ b ∈ e, escSafe b = true) : sanitizeCookieValue e false = e := by
  have hv := all_valid_of_safe h
  have hf : e.filter validCookieValueByte = e := List.filter_eq_self.mpr (fun b hb => (hv b hb).1)
  unfold sanitizeCookieValue
  simp only [hf]
  by_cases he : e.isEmpty
  · simp [he]
  · have hany : e.any (fun b => b == space || b == comma) = false := by
      rw [List.any_eq_false]
      intro b hb
      have := hv b hb
      simp [this.2.1, this.2.2.1]
    simp [he, hany]

/-- `parseCookieValue(e, true)` returns such a value unchanged and unquoted -/
theorem parse_safe {e : Bytes} (h : ∀ b ∈ e, escSafe b = true) : parseCookieValue e true = some (e, false) := by
  have hv := all_valid_of_safe h
  have hall : e.all validCookieValueByte = true := List.all_eq_true.mpr (fun b hb => (hv b hb).1)
  unfold parseCookieValue
  cases e with
  | nil => simp
  | cons q rest =>
    have hq : q ≠ dquote := (hv q (by simp)).2.2.2.1
    simp [hq, hall]

end Flamego
