/-
  Proofs/ParamsRegex.lean — regex segments under the hypothesis `EngineLaws`.

  The regular-expression engine is a parameter (`Base/Engine.lean`); nothing about `E.find` is
  known to the model.  `EngineLaws E` states the ONE fact about Go's `regexp` that C02 needs, for
  the patterns `constructMatchStyleRegex` assembles: `^q₁…qₖ$` with every `qᵢ` a quoted literal,
  `(.+)` or `(e)`.  It is a hypothesis of the theorems that use it and is never postulated; the harness
  monitors it at run time on every answer the real engine gives (DESIGN.md §3.3, lib/props.py).

  * `Piece`, `segPieces`, `assemble` : the assembled pattern as data; `regexOfElems_pieces`
  * `PiecesMatch`, `EngineLaws`      : soundness of a reported match
  * `regex_pieces_captured`          : the values a regex step captures, piece by piece
  * `instElems_pieces`               : filling them back in gives the segment text
-/
import Flamego.Proofs.ParamsUrl
namespace Flamego
open Url

/-- one factor of an assembled segment pattern -/
inductive Piece
  /-- identifier text `t`, written `regexp.QuoteMeta(t)` -/
  | lit (t : Bytes)
  /-- a plain bind `{b}` inside a mixed segment, written `(.+)` -/
  | any (b : Bytes)
  /-- a parameter `b: /e/`, written `(e)`; `n` = `NumSubexp()` of `e` alone -/
  | group (b e : Bytes) (n : Nat)
  deriving DecidableEq, Repr

def Piece.text : Piece → Bytes
  | .lit t => quoteMeta t
  | .any _ => B "(.+)"
  | .group _ e _ => B "(" ++ e ++ B ")"

/-- the entries of the bind list a piece contributes: its name, then one empty name per group of
    the user's own expression -/
def Piece.names : Piece → List Bytes
  | .lit _ => []
  | .any b => [b]
  | .group b _ n => b :: List.replicate n []

/-- the pattern `constructMatchStyleRegex` compiles -/
def assemble (qs : List Piece) : Bytes := B "^" ++ qs.flatMap Piece.text ++ B "$"

/-- "matches its own declared expression in full": the expression alone, anchored, non-capturing -/
def fullMatch (e : Bytes) : Bytes := B "^(?:" ++ e ++ B ")$"

def BindVal.text : BindVal → Bytes
  | .re e => e
  | .lit v => v

def paramPiece (E : Engine) (q : BindParam) : Piece :=
  .group q.ident q.val.text ((E.compile q.val.text).getD 0)

def elemPieces (E : Engine) : Elem → List Piece
  | .ident t => [.lit t]
  | .bind b => [.any b]
  | .params ps => ps.map (paramPiece E)

def segPieces (E : Engine) (es : List Elem) : List Piece := es.flatMap (elemPieces E)

/-- the input splits into `parts`, one per piece: a literal piece IS its literal; the part under
    `(.+)` is not empty; the part under `(e)` is accepted by `^(?:e)$`; and the engine reports
    exactly that part as submatch `i`, `i` counting the groups from 1, a group `(e)` being
    followed by the `n` groups of `e` itself -/
def PiecesMatch (E : Engine) : List Piece → List Bytes → Nat → List Bytes → Prop
  | [], [], _, _ => True
  | .lit t :: qs, p :: ps, i, subm => p = t ∧ PiecesMatch E qs ps i subm
  | .any _ :: qs, p :: ps, i, subm => p ≠ [] ∧ subm[i]? = some p ∧ PiecesMatch E qs ps (i + 1) subm
  | .group _ e n :: qs, p :: ps, i, subm =>
    (E.find (fullMatch e) p).isSome ∧ subm[i]? = some p ∧ PiecesMatch E qs ps (i + 1 + n) subm
  | _, _, _, _ => False

/-- **the assumption on the regular-expression engine** (a hypothesis of each theorem that needs it, never postulated).
    Soundness of a reported match of an assembled pattern.  True of Go's `regexp` (RE2: no
    back-references, no look-around; `^`/`$` without the `m` flag are the ends of the text) for
    expressions whose own acceptance does not depend on the neighbouring text — it can fail for
    `\\b` / `\\B` at the edge of a part; the correspondence check evaluates it on every
    `FindStringSubmatch` answer of the real engine and reports a violation. -/
structure EngineLaws (E : Engine) : Prop where
  sound : ∀ (qs : List Piece) (s : Bytes) (subm : List Bytes),
    (∀ b e n, Piece.group b e n ∈ qs → E.compile e = some n) →
    E.find (assemble qs) s = some subm →
    ∃ parts, parts.flatten = s ∧ PiecesMatch E qs parts 1 subm

/-! ### the assembled pattern of a segment is `assemble (segPieces …)` -/

theorem paramsRegex_pieces {E : Engine} : ∀ (ps : List BindParam) (pt : Bytes) (bs : List Bytes),
    regexOfElems.paramsRegex E ps = .ok (pt, bs) →
    pt = (ps.map (paramPiece E)).flatMap Piece.text ∧ bs = (ps.map (paramPiece E)).flatMap Piece.names ∧
    ∀ b e n, Piece.group b e n ∈ ps.map (paramPiece E) → E.compile e = some n
  | [], pt, bs, h => by
    simp only [regexOfElems.paramsRegex, Except.ok.injEq, Prod.mk.injEq] at h
    obtain ⟨rfl, rfl⟩ := h
    exact ⟨rfl, rfl, fun _ _ _ hm => by cases hm⟩
  | q :: qs, pt, bs, h => by
    rw [regexOfElems.paramsRegex] at h
    split at h
    · cases h
    · rename_i e he
      split at h
      · cases h
      · rename_i n hn
        simp only [bind, Except.bind] at h
        split at h
        · cases h
        · rename_i res hres
          obtain ⟨p', bs'⟩ := res
          simp only [pure, Except.pure, Except.ok.injEq, Prod.mk.injEq] at h
          obtain ⟨rfl, rfl⟩ := h
          obtain ⟨i1, i2, i3⟩ := paramsRegex_pieces qs p' bs' hres
          have hq : paramPiece E q = .group q.ident e n := by
            simp [paramPiece, he, BindVal.text, hn]
          refine ⟨?_, ?_, ?_⟩
          · simp [hq, Piece.text, i1]
          · simp [hq, Piece.names, i2]
          · intro b e' n' hm
            simp only [List.map_cons, List.mem_cons] at hm
            rcases hm with heq | hm
            · rw [hq] at heq
              injection heq with _ h2 h3
              subst h2 h3
              exact hn
            · exact i3 b e' n' hm

theorem regexOfElems_pieces {E : Engine} : ∀ (es : List Elem) (pt : Bytes) (bs : List Bytes),
    regexOfElems E es = .ok (pt, bs) →
    pt = (segPieces E es).flatMap Piece.text ∧ bs = (segPieces E es).flatMap Piece.names ∧
    ∀ b e n, Piece.group b e n ∈ segPieces E es → E.compile e = some n
  | [], pt, bs, h => by
    simp only [regexOfElems, Except.ok.injEq, Prod.mk.injEq] at h
    obtain ⟨rfl, rfl⟩ := h
    exact ⟨rfl, rfl, fun _ _ _ hm => by cases hm⟩
  | .ident t :: es, pt, bs, h => by
    rw [regexOfElems] at h
    simp only [bind, Except.bind] at h
    split at h
    · cases h
    · rename_i res hres
      obtain ⟨p', bs'⟩ := res
      simp only [pure, Except.pure, Except.ok.injEq, Prod.mk.injEq] at h
      obtain ⟨rfl, rfl⟩ := h
      obtain ⟨i1, i2, i3⟩ := regexOfElems_pieces es p' bs' hres
      refine ⟨by simp [segPieces, elemPieces, Piece.text, i1], by simp [segPieces, elemPieces, Piece.names, i2], ?_⟩
      intro b e n hm
      simp only [segPieces, List.flatMap_cons, elemPieces, List.cons_append, List.nil_append,
        List.mem_cons] at hm
      rcases hm with heq | hm
      · cases heq
      · exact i3 b e n hm
  | .bind nm :: es, pt, bs, h => by
    rw [regexOfElems] at h
    simp only [bind, Except.bind] at h
    split at h
    · cases h
    · rename_i res hres
      obtain ⟨p', bs'⟩ := res
      simp only [pure, Except.pure, Except.ok.injEq, Prod.mk.injEq] at h
      obtain ⟨rfl, rfl⟩ := h
      obtain ⟨i1, i2, i3⟩ := regexOfElems_pieces es p' bs' hres
      refine ⟨by simp [segPieces, elemPieces, Piece.text, i1], by simp [segPieces, elemPieces, Piece.names, i2], ?_⟩
      intro b e n hm
      simp only [segPieces, List.flatMap_cons, elemPieces, List.cons_append, List.nil_append,
        List.mem_cons] at hm
      rcases hm with heq | hm
      · cases heq
      · exact i3 b e n hm
  | .params [] :: es, pt, bs, h => by
    rw [regexOfElems] at h; cases h
  | .params (q :: qs) :: es, pt, bs, h => by
    rw [regexOfElems] at h
    case x_1 => intro e; cases e
    simp only [bind, Except.bind] at h
    split at h
    · cases h
    · rename_i res1 hres1
      obtain ⟨p1, bs1⟩ := res1
      simp only at h
      split at h
      · cases h
      · rename_i res hres
        obtain ⟨p', bs'⟩ := res
        simp only [pure, Except.pure, Except.ok.injEq, Prod.mk.injEq] at h
        obtain ⟨rfl, rfl⟩ := h
        obtain ⟨i1, i2, i3⟩ := regexOfElems_pieces es p' bs' hres
        obtain ⟨j1, j2, j3⟩ := paramsRegex_pieces (q :: qs) p1 bs1 hres1
        refine ⟨?_, ?_, ?_⟩
        · simp only [segPieces, List.flatMap_cons, elemPieces, List.flatMap_append]
          rw [j1, i1]; rfl
        · simp only [segPieces, List.flatMap_cons, elemPieces, List.flatMap_append]
          rw [j2, i2]; rfl
        · intro b e n hm
          simp only [segPieces, List.flatMap_cons, elemPieces, List.mem_append] at hm
          rcases hm with hm | hm
          · exact j3 b e n hm
          · exact i3 b e n hm

/-! ### the values a regex step captures, piece by piece -/

theorem zipNamed_mem : ∀ (bs vs : List Bytes) (j : Nat) (b v : Bytes),
    bs[j]? = some b → b ≠ [] → vs[j]? = some v → (b, v) ∈ zipNamed bs vs
  | [], _, _, _, _, h, _, _ => by simp at h
  | _ :: _, [], _, _, _, _, _, h => by simp at h
  | b0 :: bs, v0 :: vs, 0, b, v, h1, hne, h2 => by
    simp only [List.getElem?_cons_zero, Option.some.injEq] at h1 h2
    subst h1 h2
    simp [zipNamed, hne]
  | b0 :: bs, v0 :: vs, j + 1, b, v, h1, hne, h2 => by
    simp only [List.getElem?_cons_succ] at h1 h2
    have := zipNamed_mem bs vs j b v h1 hne h2
    rw [zipNamed]
    split
    · exact this
    · exact List.mem_cons_of_mem _ this

/-- what the captured pairs `caps` say about the parts of the segment text -/
def PieceCaptured (E : Engine) (caps : List (Bytes × Bytes)) : Piece → Bytes → Prop
  | .lit t, part => part = t
  | .any b, part => part ≠ [] ∧ (b, part) ∈ caps
  | .group b e _, part => (E.find (fullMatch e) part).isSome ∧ (b, part) ∈ caps

def Piece.named : Piece → Option Bytes
  | .lit _ => none
  | .any b => some b
  | .group b _ _ => some b

theorem piecesMatch_captured (E : Engine) (subm : List Bytes) :
    ∀ (qs : List Piece) (parts : List Bytes) (k : Nat) (pre bs : List Bytes),
    bs = pre ++ qs.flatMap Piece.names → pre.length = k →
    (∀ q ∈ qs, ∀ b, q.named = some b → b ≠ []) →
    PiecesMatch E qs parts (k + 1) subm →
    Forall2 (PieceCaptured E (zipNamed bs (subm.drop 1))) qs parts
  | [], [], _, _, _, _, _, _, _ => .nil
  | [], _ :: _, _, _, _, _, _, _, h => by simp [PiecesMatch] at h
  | .lit t :: qs, [], _, _, _, _, _, _, h => by simp [PiecesMatch] at h
  | .any b :: qs, [], _, _, _, _, _, _, h => by simp [PiecesMatch] at h
  | .group b e n :: qs, [], _, _, _, _, _, _, h => by simp [PiecesMatch] at h
  | .lit t :: qs, p :: parts, k, pre, bs, hbs, hk, hnm, h => by
    simp only [PiecesMatch] at h
    refine .cons h.1 (piecesMatch_captured E subm qs parts k pre bs ?_ hk
      (fun q hq => hnm q (List.mem_cons_of_mem _ hq)) h.2)
    simpa [Piece.names] using hbs
  | .any b :: qs, p :: parts, k, pre, bs, hbs, hk, hnm, h => by
    simp only [PiecesMatch] at h
    obtain ⟨h1, h2, h3⟩ := h
    have hb : bs[k]? = some b := by
      rw [hbs, ← hk]; simp [Piece.names]
    have hv : (subm.drop 1)[k]? = some p := by
      rw [List.getElem?_drop, Nat.add_comm]; exact h2
    have hne := hnm (.any b) (List.mem_cons_self ..) b rfl
    refine .cons ⟨h1, zipNamed_mem bs _ k b p hb hne hv⟩
      (piecesMatch_captured E subm qs parts (k + 1) (pre ++ [b]) bs ?_ (by simp [hk])
        (fun q hq => hnm q (List.mem_cons_of_mem _ hq)) h3)
    simpa [Piece.names] using hbs
  | .group b e n :: qs, p :: parts, k, pre, bs, hbs, hk, hnm, h => by
    simp only [PiecesMatch] at h
    obtain ⟨h1, h2, h3⟩ := h
    have hb : bs[k]? = some b := by
      rw [hbs, ← hk]; simp [Piece.names]
    have hv : (subm.drop 1)[k]? = some p := by
      rw [List.getElem?_drop, Nat.add_comm]; exact h2
    have hne := hnm (.group b e n) (List.mem_cons_self ..) b rfl
    have hidx : k + 1 + 1 + n = (k + 1 + n) + 1 := by omega
    rw [hidx] at h3
    refine .cons ⟨h1, zipNamed_mem bs _ k b p hb hne hv⟩
      (piecesMatch_captured E subm qs parts (k + 1 + n) (pre ++ b :: List.replicate n []) bs ?_
        (by simp [hk]; omega) (fun q hq => hnm q (List.mem_cons_of_mem _ hq)) h3)
    simpa [Piece.names] using hbs

theorem cleanText_ne_nil {t : Bytes} (h : cleanText t = true) : t ≠ [] := by
  intro e; subst e; simp [cleanText] at h

theorem segPieces_named_ne_nil (E : Engine) (es : List Elem) (hp : es.all parsedElem = true) :
    ∀ q ∈ segPieces E es, ∀ b, q.named = some b → b ≠ [] := by
  intro q hq b hb
  simp only [segPieces, List.mem_flatMap] at hq
  obtain ⟨e, he, hq⟩ := hq
  have hpe := List.all_eq_true.mp hp e he
  cases e with
  | ident t =>
    simp only [elemPieces, List.mem_singleton] at hq
    subst hq; cases hb
  | bind nm =>
    simp only [elemPieces, List.mem_singleton] at hq
    subst hq
    simp only [Piece.named, Option.some.injEq] at hb
    subst hb
    exact cleanText_ne_nil hpe
  | params ps =>
    simp only [elemPieces, List.mem_map] at hq
    obtain ⟨x, hx, rfl⟩ := hq
    simp only [paramPiece, Piece.named, Option.some.injEq] at hb
    subst hb
    simp only [parsedElem, Bool.and_eq_true, List.all_eq_true] at hpe
    have := hpe.2 x hx
    simp only [parsedParam, Bool.and_eq_true] at this
    exact cleanText_ne_nil this.1

/-- **the values of a regex segment** — under `EngineLaws`: when the assembled pattern of a
    parsed segment matches the text `x`, `x` splits into one part per piece of the segment such
    that a literal piece equals its literal, the part under `{b}` is non-empty and is the value
    captured for `b`, the part under `b: /e/` is accepted by `^(?:e)$` and is the value captured
    for `b` -/
theorem regex_pieces_captured {E : Engine} (hE : EngineLaws E) {seg : Segment} {pattern : Bytes}
    {bs : List Bytes} (hP : ParsedSeg seg = true) (hcl : classifyLeaf E seg = .ok (.regex pattern bs))
    {x : Bytes} {subm : List Bytes} (hf : E.find pattern x = some subm) :
    ∃ parts, parts.flatten = x ∧
      Forall2 (PieceCaptured E (zipNamed bs (subm.drop 1))) (segPieces E seg.elems) parts := by
  have hall : seg.elems.all parsedElem = true := by
    simp only [ParsedSeg, Bool.and_eq_true] at hP; exact hP.1
  rcases classifyLeaf_inv hcl with ⟨pt, bs', hp, hr⟩ | ⟨hp, _⟩ | ⟨_, hp, _⟩ | ⟨_, hp, _⟩ | ⟨_, _, hp, _⟩
  · obtain ⟨p0, bs2, hre, heq, _⟩ := classifyRegex_ok hr
    injection heq with h1 h2
    subst h1 h2
    obtain ⟨i1, i2, i3⟩ := regexOfElems_pieces seg.elems p0 bs hre
    have hpat : B "^" ++ p0 ++ B "$" = assemble (segPieces E seg.elems) := by rw [assemble, i1]
    rw [hpat] at hf
    obtain ⟨parts, hflat, hpm⟩ := hE.sound _ x subm i3 hf
    exact ⟨parts, hflat, piecesMatch_captured E subm _ parts 0 [] bs (by simpa using i2) rfl
      (segPieces_named_ne_nil E seg.elems hall) hpm⟩
  all_goals cases hp

/-! ### filling the values back in -/

/-- every parameter list of the segment is non-empty and all its parameters are regex-valued —
    what `constructMatchStyleRegex` requires of a regex segment (`regexOfElems_regexParams`) -/
def RegexParams (es : List Elem) : Prop :=
  ∀ e ∈ es, ∀ ps, e = Elem.params ps → ps ≠ [] ∧ ∀ q ∈ ps, ∃ t, q.val = .re t

theorem paramsRegex_allRe {E : Engine} : ∀ (ps : List BindParam) (pt : Bytes) (bs : List Bytes),
    regexOfElems.paramsRegex E ps = .ok (pt, bs) → ∀ q ∈ ps, ∃ t, q.val = .re t
  | [], _, _, _ => fun _ hq => by cases hq
  | q :: qs, pt, bs, h => by
    rw [regexOfElems.paramsRegex] at h
    split at h
    · cases h
    · rename_i e he
      split at h
      · cases h
      · simp only [bind, Except.bind] at h
        split at h
        · cases h
        · rename_i res hres
          obtain ⟨p', bs'⟩ := res
          intro x hx
          rcases List.mem_cons.mp hx with rfl | hx
          · exact ⟨e, he⟩
          · exact paramsRegex_allRe qs p' bs' hres x hx

theorem regexOfElems_regexParams {E : Engine} : ∀ (es : List Elem) (pt : Bytes) (bs : List Bytes),
    regexOfElems E es = .ok (pt, bs) → RegexParams es
  | [], _, _, _ => fun _ he => by cases he
  | .ident t :: es, pt, bs, h => by
    rw [regexOfElems] at h
    simp only [bind, Except.bind] at h
    split at h
    · cases h
    · rename_i res hres
      obtain ⟨p', bs'⟩ := res
      intro e he ps hps
      rcases List.mem_cons.mp he with rfl | he
      · cases hps
      · exact regexOfElems_regexParams es p' bs' hres e he ps hps
  | .bind nm :: es, pt, bs, h => by
    rw [regexOfElems] at h
    simp only [bind, Except.bind] at h
    split at h
    · cases h
    · rename_i res hres
      obtain ⟨p', bs'⟩ := res
      intro e he ps hps
      rcases List.mem_cons.mp he with rfl | he
      · cases hps
      · exact regexOfElems_regexParams es p' bs' hres e he ps hps
  | .params [] :: es, pt, bs, h => by
    rw [regexOfElems] at h; cases h
  | .params (q :: qs) :: es, pt, bs, h => by
    rw [regexOfElems] at h
    case x_1 => intro e; cases e
    simp only [bind, Except.bind] at h
    split at h
    · cases h
    · rename_i res1 hres1
      obtain ⟨p1, bs1⟩ := res1
      simp only at h
      split at h
      · cases h
      · rename_i res hres
        obtain ⟨p', bs'⟩ := res
        intro e he ps hps
        rcases List.mem_cons.mp he with rfl | he
        · injection hps with hps
          subst hps
          exact ⟨by simp, paramsRegex_allRe (q :: qs) p1 bs1 hres1⟩
        · exact regexOfElems_regexParams es p' bs' hres e he ps hps

/-- the parts under the pieces of a list of regex-valued parameters are the values of their
    holes, in order -/
theorem regexHoles_pieces (E : Engine) (vals caps : List (Bytes × Bytes))
    (hv : ∀ b v, (b, v) ∈ caps → vals.lookup b = some v) (rest : List Piece) :
    ∀ (qs : List BindParam), (∀ q ∈ qs, ∃ t, q.val = .re t) → ∀ (parts : List Bytes),
    Forall2 (PieceCaptured E caps) (qs.map (paramPiece E) ++ rest) parts →
    ∃ p1 p2, parts = p1 ++ p2 ∧ (regexHoles qs).flatMap (Tok.subst vals) = p1.flatten ∧
      Forall2 (PieceCaptured E caps) rest p2
  | [], _, parts, h => ⟨[], parts, rfl, rfl, h⟩
  | q :: qs, hre, parts, h => by
    simp only [List.map_cons, List.cons_append] at h
    cases h with
    | cons h1 h2 =>
      rename_i b l2
      simp only [paramPiece, PieceCaptured] at h1
      obtain ⟨p1, p2, hparts, hflat, hrest⟩ :=
        regexHoles_pieces E vals caps hv rest qs (fun x hx => hre x (List.mem_cons_of_mem _ hx)) l2 h2
      obtain ⟨t, ht⟩ := hre q (List.mem_cons_self ..)
      refine ⟨b :: p1, p2, by rw [hparts]; rfl, ?_, hrest⟩
      have hs : regexHoles (q :: qs) =
          (match q.val with | .re _ => [Tok.hole q.ident] | .lit _ => []) ++ regexHoles qs := rfl
      rw [hs, ht, List.flatMap_append, hflat, List.flatten_cons]
      simp [Tok.subst, hv q.ident _ h1.2]

theorem instElems_pieces (E : Engine) (vals caps : List (Bytes × Bytes))
    (hv : ∀ b v, (b, v) ∈ caps → vals.lookup b = some v) :
    ∀ (es : List Elem) (parts : List Bytes), RegexParams es →
    Forall2 (PieceCaptured E caps) (segPieces E es) parts →
    es.flatMap (instElem vals) = parts.flatten
  | [], parts, _, h => by
    cases h; rfl
  | .ident t :: es, parts, hs, h => by
    simp only [segPieces, List.flatMap_cons, elemPieces, List.cons_append, List.nil_append] at h
    cases h with
    | cons h1 h2 =>
      simp only [PieceCaptured] at h1
      subst h1
      rw [List.flatMap_cons, List.flatten_cons,
        instElems_pieces E vals caps hv es _ (fun e he => hs e (List.mem_cons_of_mem _ he)) h2,
        C12.instElem_ident]
  | .bind b :: es, parts, hs, h => by
    simp only [segPieces, List.flatMap_cons, elemPieces, List.cons_append, List.nil_append] at h
    cases h with
    | cons h1 h2 =>
      simp only [PieceCaptured] at h1
      rw [List.flatMap_cons, List.flatten_cons,
        instElems_pieces E vals caps hv es _ (fun e he => hs e (List.mem_cons_of_mem _ he)) h2,
        C12.instElem_bind vals b _ (hv b _ h1.2)]
  | .params ps :: es, parts, hs, h => by
    obtain ⟨hne, hre⟩ := hs (.params ps) (List.mem_cons_self ..) ps rfl
    match ps, hne, hre with
    | q :: qs, _, hre =>
      simp only [segPieces, List.flatMap_cons, elemPieces] at h
      obtain ⟨p1, p2, hparts, hflat, hrest⟩ :=
        regexHoles_pieces E vals caps hv (segPieces E es) (q :: qs) hre parts h
      obtain ⟨t, ht⟩ := hre q (List.mem_cons_self ..)
      have hinst : instElem vals (.params (q :: qs)) =
          (regexHoles (q :: qs)).flatMap (Tok.subst vals) := by
        rw [C12.instElem_params_re vals q qs t ht]
        have hs' : regexHoles (q :: qs) =
            (match q.val with | .re _ => [Tok.hole q.ident] | .lit _ => []) ++ regexHoles qs := rfl
        rw [hs', ht]
        rfl
      rw [List.flatMap_cons, hinst, hflat, hparts, List.flatten_append,
        instElems_pieces E vals caps hv es p2 (fun e he => hs e (List.mem_cons_of_mem _ he)) hrest]

theorem Forall2.exists_left {α β : Type} {R : α → β → Prop} {l₁ : List α} {l₂ : List β}
    (h : Forall2 R l₁ l₂) {b : β} (hb : b ∈ l₂) : ∃ a ∈ l₁, R a b := by
  induction h with
  | nil => cases hb
  | @cons a b' _ _ hr _ ih =>
    rcases List.mem_cons.mp hb with rfl | hb
    · exact ⟨a, List.mem_cons_self .., hr⟩
    · obtain ⟨a', ha', hr'⟩ := ih hb
      exact ⟨a', List.mem_cons_of_mem _ ha', hr'⟩

/-- what a regex step took and captured -/
theorem regex_step_find {E : Engine} {st : Step} {pattern : Bytes} {bs : List Bytes}
    (hok : StepOK E st) (hp : st.pat = .regex pattern bs) :
    ∃ x subm, st.taken = [x] ∧ E.find pattern x = some subm ∧ bs.length + 1 ≤ subm.length ∧
      st.caps E = zipNamed bs (subm.drop 1) := by
  obtain ⟨x, hx, ha⟩ := hok.single (by rw [hp]; rfl)
  rw [hp] at ha
  simp only [Pat.acceptsLeaf] at ha
  cases hf : E.find pattern x with
  | none => rw [hf] at ha; cases ha
  | some subm =>
    rw [hf] at ha
    exact ⟨x, subm, hx, hf, by simpa using ha, by simp [Step.caps, hp, Pat.caps, hx, joinSlash, hf]⟩

/-- `instSeg_step` for every kind of segment, regex included (under `EngineLaws`); a regex
    segment may have parameter lists with several entries -/
theorem instSeg_step_regex {E : Engine} (hE : EngineLaws E) {vals : List (Bytes × Bytes)}
    {seg : Segment} {st : Step} (hP : ParsedSeg seg = true)
    (hcl : classifyLeaf E seg = .ok st.pat) (hok : StepOK E st)
    (hv : ∀ bv ∈ st.caps E, vals.lookup bv.1 = some bv.2) :
    instSeg vals seg = joinSlash st.taken := by
  cases hp : st.pat with
  | regex pattern bs =>
    obtain ⟨x, subm, hx, hf, _, hcaps⟩ := regex_step_find hok hp
    rw [hp] at hcl
    obtain ⟨parts, hflat, hF⟩ := regex_pieces_captured hE hP hcl hf
    rw [← hcaps] at hF
    have hsp : RegexParams seg.elems := by
      rcases classifyLeaf_inv hcl with ⟨pt, bs', _, hr⟩ | ⟨h0, _⟩ | ⟨_, h0, _⟩ | ⟨_, h0, _⟩ |
        ⟨_, _, h0, _⟩
      · obtain ⟨p0, bs2, hre, _, _⟩ := classifyRegex_ok hr
        exact regexOfElems_regexParams seg.elems p0 bs2 hre
      all_goals cases h0
    have := instElems_pieces E vals (st.caps E) (fun b v h => hv (b, v) h) seg.elems parts hsp hF
    rw [instSeg, this, hflat, hx]; rfl
  | static l => exact instSeg_step hcl hok (fun pt bs e => by rw [hp] at e; cases e) hv
  | hole b => exact instSeg_step hcl hok (fun pt bs e => by rw [hp] at e; cases e) hv
  | all b c => exact instSeg_step hcl hok (fun pt bs e => by rw [hp] at e; cases e) hv

/-! ### `EngineLaws` is satisfied by a non-trivial engine -/

namespace RegexExample

/-- a small engine: knows the expression `x+`, the assembled pattern `^a(x+)$` on `axx`, and
    `^(?:x+)$` on `xx` -/
def E₂ : Engine :=
  ⟨fun e => if e = B "x+" then some 0 else if e = B "^a(x+)$" then some 1 else none,
   fun p s => if p = B "^a(x+)$" ∧ s = B "axx" then some [B "axx", B "xx"]
              else if p = B "^(?:x+)$" ∧ s = B "xx" then some [B "xx"] else none,
   fun _ _ => false⟩

def special (c : UInt8) : Bool := (B "\\.+*?()|[]{}^$").contains c

theorem quoteMeta_cons (c : UInt8) (t : Bytes) :
    quoteMeta (c :: t) = (if special c then [92, c] else [c]) ++ quoteMeta t := by
  simp [quoteMeta, special]

theorem quoteMeta_nil : quoteMeta [] = [] := rfl

/-- only empty literals are left -/
theorem pieces_nil (subm : List Bytes) : ∀ (qs : List Piece) (i : Nat),
    qs.flatMap Piece.text = [] → ∃ parts, parts.flatten = [] ∧ PiecesMatch E₂ qs parts i subm
  | [], i, _ => ⟨[], rfl, trivial⟩
  | .lit t :: qs, i, h => by
    simp only [List.flatMap_cons, Piece.text, List.append_eq_nil_iff] at h
    have ht : t = [] := by
      cases t with
      | nil => rfl
      | cons c t' =>
        have := h.1
        rw [quoteMeta_cons] at this
        split at this <;> simp at this
    subst ht
    obtain ⟨parts, h1, h2⟩ := pieces_nil subm qs i h.2
    exact ⟨[] :: parts, by simp [h1], ⟨rfl, h2⟩⟩
  | .any b :: qs, i, h => by
    simp [Piece.text, B] at h
  | .group b e n :: qs, i, h => by
    simp [Piece.text, B] at h


def submX : List Bytes := [B "axx", B "xx"]

/-- the rest of the pattern is `(x+)` -/
theorem pieces_group : ∀ (qs : List Piece),
    (∀ b e n, Piece.group b e n ∈ qs → E₂.compile e = some n) →
    qs.flatMap Piece.text = B "(x+)" →
    ∃ parts, parts.flatten = B "xx" ∧ PiecesMatch E₂ qs parts 1 submX
  | [], _, h => by simp [B] at h
  | .lit t :: qs, hc, h => by
    cases t with
    | nil =>
      obtain ⟨parts, h1, h2⟩ := pieces_group qs (fun b e n hm => hc b e n (List.mem_cons_of_mem _ hm))
        (by simpa [Piece.text, quoteMeta_nil] using h)
      exact ⟨[] :: parts, by simp [h1], ⟨rfl, h2⟩⟩
    | cons c t' =>
      exfalso
      simp only [List.flatMap_cons, Piece.text, quoteMeta_cons] at h
      by_cases hs : special c = true
      · simp [hs, B] at h
      · simp only [hs, Bool.false_eq_true, ↓reduceIte, List.cons_append, List.nil_append, B] at h
        have : c = 40 := by
          have := congrArg List.head? h
          simpa using this
        subst this
        exact hs (by decide)
  | .any b :: qs, _, h => by
    simp [Piece.text, B] at h
  | .group b e n :: qs, hc, h => by
    have hce := hc b e n (List.mem_cons_self ..)
    simp only [E₂] at hce
    split at hce
    · rename_i he
      injection hce with hn
      subst he hn
      have hrest : qs.flatMap Piece.text = [] := by
        simp only [List.flatMap_cons, Piece.text, B] at h
        simpa using h
      obtain ⟨parts, h1, h2⟩ := pieces_nil submX qs (1 + 1 + 0) hrest
      refine ⟨B "xx" :: parts, by simp [h1], ?_, ?_, h2⟩
      · decide
      · decide
    · split at hce
      · rename_i he
        subst he
        simp [Piece.text, B] at h
      · cases hce

/-- the whole pattern is `a(x+)` -/
theorem pieces_a_group : ∀ (qs : List Piece),
    (∀ b e n, Piece.group b e n ∈ qs → E₂.compile e = some n) →
    qs.flatMap Piece.text = B "a(x+)" →
    ∃ parts, parts.flatten = B "axx" ∧ PiecesMatch E₂ qs parts 1 submX
  | [], _, h => by simp [B] at h
  | .lit t :: qs, hc, h => by
    have hc' : ∀ b e n, Piece.group b e n ∈ qs → E₂.compile e = some n :=
      fun b e n hm => hc b e n (List.mem_cons_of_mem _ hm)
    cases t with
    | nil =>
      obtain ⟨parts, h1, h2⟩ := pieces_a_group qs hc' (by simpa [Piece.text, quoteMeta_nil] using h)
      exact ⟨[] :: parts, by simp [h1], ⟨rfl, h2⟩⟩
    | cons c t' =>
      simp only [List.flatMap_cons, Piece.text, quoteMeta_cons] at h
      by_cases hs : special c = true
      · simp [hs, B] at h
      · simp only [hs, Bool.false_eq_true, ↓reduceIte, List.cons_append, List.nil_append, B] at h
        have hc97 : c = 97 := by
          have := congrArg List.head? h
          simpa using this
        subst hc97
        have h' : quoteMeta t' ++ qs.flatMap Piece.text = B "(x+)" := by
          simpa [B] using h
        cases t' with
        | nil =>
          obtain ⟨parts, h1, h2⟩ := pieces_group qs hc' (by simpa [quoteMeta_nil] using h')
          exact ⟨[97] :: parts, by simp [h1, B], ⟨rfl, h2⟩⟩
        | cons c' t'' =>
          exfalso
          rw [quoteMeta_cons] at h'
          by_cases hs' : special c' = true
          · simp [hs', B] at h'
          · simp only [hs', Bool.false_eq_true, ↓reduceIte, List.cons_append, List.nil_append, B] at h'
            have : c' = 40 := by
              have := congrArg List.head? h'
              simpa using this
            subst this
            exact hs' (by decide)
  | .any b :: qs, _, h => by
    simp [Piece.text, B] at h
  | .group b e n :: qs, _, h => by
    simp [Piece.text, B] at h

/-- no piece list renders as `(?:x+)` -/
theorem no_pieces_noncap : ∀ (qs : List Piece),
    (∀ b e n, Piece.group b e n ∈ qs → E₂.compile e = some n) →
    qs.flatMap Piece.text = B "(?:x+)" → False
  | [], _, h => by simp [B] at h
  | .lit t :: qs, hc, htext => by
    cases t with
    | nil =>
      exact no_pieces_noncap qs (fun b e n hm => hc b e n (List.mem_cons_of_mem _ hm))
        (by simpa [Piece.text, quoteMeta_nil] using htext)
    | cons c t' =>
      simp only [List.flatMap_cons, Piece.text, quoteMeta_cons] at htext
      by_cases hs : special c = true
      · simp [hs, B] at htext
      · simp only [hs, Bool.false_eq_true, ↓reduceIte, List.cons_append, List.nil_append, B] at htext
        have : c = 40 := by
          have := congrArg List.head? htext
          simpa using this
        subst this
        exact hs (by decide)
  | .any b :: qs, _, htext => by simp [Piece.text, B] at htext
  | .group b e n :: qs, hc, htext => by
    have hce := hc b e n (List.mem_cons_self ..)
    simp only [E₂] at hce
    split at hce
    · rename_i he; subst he; simp [Piece.text, B] at htext
    · split at hce
      · rename_i he; subst he; simp [Piece.text, B] at htext
      · cases hce

theorem assemble_inj_text {qs : List Piece} {p : Bytes} (h : assemble qs = B "^" ++ p ++ B "$") :
    qs.flatMap Piece.text = p := by
  simp only [assemble, B] at h
  simpa using h

/-- **a non-trivial engine satisfies `EngineLaws`** -/
theorem engineLaws_E₂ : EngineLaws E₂ := by
  refine ⟨fun qs s subm hc hf => ?_⟩
  simp only [E₂] at hf
  split at hf
  · rename_i h1
    injection hf with hf
    subst hf
    obtain ⟨hp, rfl⟩ := h1
    exact pieces_a_group qs hc (assemble_inj_text (p := B "a(x+)") (by rw [hp]; decide))
  · split at hf
    · rename_i h2
      exfalso
      obtain ⟨hp, _⟩ := h2
      have htext : qs.flatMap Piece.text = B "(?:x+)" :=
        assemble_inj_text (p := B "(?:x+)") (by rw [hp]; decide)
      exact no_pieces_noncap qs hc htext
    · cases hf

end RegexExample

end Flamego
