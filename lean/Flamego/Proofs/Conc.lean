/-
  Proofs/Conc.lean — lemmas for Props/C05.lean (once-cache step, schedule induction, small list helper).
-/
import Flamego.Model.Conc

namespace Flamego.Conc

theorem loc_of_conflict {a b : Op} (h : Conflict a b) :
    ∃ l, a.loc? = some l ∧ b.loc? = some l ∧ (a.isWrite = true ∨ b.isWrite = true) ∧
      ¬ (a.isAtomic = true ∧ b.isAtomic = true) := h

variable {Config Req St : Type}

theorem onceGet_spec (m : Machine Config Req St) (cfg : Config) (cache : Nat → Option String) (k : Nat)
    (inv : ∀ k, cache k = none ∨ cache k = some (m.render cfg k)) :
    (onceGet m cfg cache k).1 = m.render cfg k ∧
    (∀ k', (onceGet m cfg cache k).2 k' = none ∨ (onceGet m cfg cache k).2 k' = some (m.render cfg k')) := by
  unfold onceGet
  cases h : cache k with
  | some s =>
    have := inv k
    rw [h] at this
    rcases this with h' | h'
    · cases h'
    · simp only [Option.some.injEq] at h'
      exact ⟨h', inv⟩
  | none =>
    refine ⟨rfl, fun k' => ?_⟩
    by_cases hk : k' = k
    · subst hk; simp
    · simp only [hk, if_false]; exact inv k'

theorem run_inv (m : Machine Config Req St) (cfg : Config) (reqs : Nat → Req) :
    ∀ (sched : List Nat) (w : World St) (c : Nat → Nat),
      CacheInv m cfg w → (∀ i, w.locals i = solo m cfg (reqs i) (c i)) →
      CacheInv m cfg (run m cfg reqs sched w) ∧
      ∀ i, (run m cfg reqs sched w).locals i = solo m cfg (reqs i) (c i + stepsOf i sched) := by
  intro sched
  induction sched with
  | nil => intro w c hc hl; exact ⟨hc, fun i => by simp [run, stepsOf, hl i]⟩
  | cons j sched ih =>
    intro w c hc hl
    have hspec := onceGet_spec m cfg w.cache (m.segOf cfg (reqs j) (w.locals j)) hc
    have h := ih (stepW m cfg reqs j w) (fun i => if i = j then c i + 1 else c i)
      (by intro k; exact hspec.2 k)
      (by
        intro i
        by_cases hij : i = j
        · subst hij
          simp only [stepW, if_true]
          rw [hspec.1, hl i]
          rfl
        · simp only [stepW, hij, if_false]
          exact hl i)
    refine ⟨h.1, fun i => ?_⟩
    have := h.2 i
    simp only [run]
    rw [this]
    by_cases hij : i = j
    · subst hij; simp [stepsOf]; congr 1; omega
    · have hji : ¬ (j = i) := fun h => hij h.symm
      simp [stepsOf, hij, hji]

theorem getElem?_cases8 {α} {a0 a1 a2 a3 a4 a5 a6 a7 e : α} {i : Nat}
    (h : [a0, a1, a2, a3, a4, a5, a6, a7][i]? = some e) :
    (i = 0 ∧ e = a0) ∨ (i = 1 ∧ e = a1) ∨ (i = 2 ∧ e = a2) ∨ (i = 3 ∧ e = a3) ∨
    (i = 4 ∧ e = a4) ∨ (i = 5 ∧ e = a5) ∨ (i = 6 ∧ e = a6) ∨ (i = 7 ∧ e = a7) := by
  match i, h with
  | 0, h | 1, h | 2, h | 3, h | 4, h | 5, h | 6, h | 7, h => simp at h; simp [h]
  | n + 8, h => simp at h

end Flamego.Conc
