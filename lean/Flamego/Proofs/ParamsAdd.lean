/-
  Proofs/ParamsAdd.lean — registration keeps bind names distinct along every root-to-leaf path.

  * `classifyLeaf_binds_nodup` / `classifyTree_binds_nodup` : one segment never binds a name twice
    (`hasDup` check of `classifyRegex`, leaf.go `constructMatchStyleRegex`)
  * `addNext_bindsOK`, `addRoute_bindsDistinct`, `build_bindsDistinct` : the `ancBinds` checks of
    `addLeafTo` / `addNext` (tree.go: "duplicated bind parameter") maintain `BindsOK`
-/
import Flamego.Proofs.Params
import Flamego.Proofs.TreeAdd
namespace Flamego

/-! ### one segment -/

theorem nodup_of_hasDup_false : ∀ (l : List Bytes), hasDup l = false → l.Nodup
  | [], _ => List.nodup_nil
  | b :: bs, h => by
    simp only [hasDup, Bool.or_eq_false_iff] at h
    rw [List.nodup_cons]
    refine ⟨?_, nodup_of_hasDup_false bs h.2⟩
    intro hm
    have : bs.contains b = true := by simpa using hm
    rw [this] at h
    cases h.1

theorem classifyRegex_binds_nodup {E : Engine} {s : Segment} {p : Pat}
    (h : classifyRegex E s = .ok p) : p.binds.Nodup := by
  unfold classifyRegex at h
  simp only [bind, Except.bind] at h
  split at h
  · cases h
  · rename_i res _
    obtain ⟨pt, bs⟩ := res
    simp only at h
    split at h
    · cases h
    · rename_i hd
      split at h
      · cases h
      · simp only [pure, Except.pure, Except.ok.injEq] at h
        subst h
        simp only [Pat.binds]
        exact nodup_of_hasDup_false _ (by simpa using hd)

theorem classifyDynamic_binds_nodup {E : Engine} {s : Segment} {p : Pat}
    (h : classifyDynamic E s = .ok p) : p.binds.Nodup := by
  unfold classifyDynamic at h
  split at h
  · injection h with h; subst h; simp [Pat.binds]
  · split at h
    · injection h with h; subst h; simp [Pat.binds]
    · exact classifyRegex_binds_nodup h

theorem classifyLeaf_binds_nodup {E : Engine} {s : Segment} {p : Pat}
    (h : classifyLeaf E s = .ok p) : p.binds.Nodup := by
  unfold classifyLeaf at h
  split at h
  · injection h with h; subst h; simp [Pat.binds]
  · split at h
    · injection h with h; subst h; simp [Pat.binds]
    · exact classifyDynamic_binds_nodup h

theorem classifyTree_binds_nodup {E : Engine} {s : Segment} {p : Pat}
    (h : classifyTree E s = .ok p) : p.binds.Nodup := by
  unfold classifyTree at h
  split at h
  · cases h
  · split at h
    · injection h with h; subst h; simp [Pat.binds]
    · exact classifyDynamic_binds_nodup h

theorem not_mem_of_any_contains_false {bs ab : List Bytes}
    (h : bs.any (ab.contains ·) = false) : ∀ b ∈ bs, b ∉ ab := by
  intro b hb hab
  have : bs.any (ab.contains ·) = true := List.any_eq_true.mpr ⟨b, hb, by simpa using hab⟩
  rw [this] at h; cases h

/-! ### `addLeafTo`, `addNext`, `addRoute` -/

theorem addLeafTo_bindsOK {E : Engine} {leaves leaves' : List Leaf} {ab : List Bytes} {as : Bool}
    {r : Route} {s : Segment} {hid : Nat} {long : Bool}
    (hold : ∀ l ∈ leaves, l.pat.binds.Nodup ∧ ∀ b ∈ l.pat.binds, b ∉ ab)
    (h : addLeafTo E leaves ab as r s hid long = .ok leaves') :
    ∀ l ∈ leaves', l.pat.binds.Nodup ∧ ∀ b ∈ l.pat.binds, b ∉ ab := by
  obtain ⟨p, hp, _, hb, _, rfl⟩ := addLeafTo_ok h
  intro l hl
  rcases (insertByRank_mem _ _ _ _).mp hl with heq | hm
  · subst heq
    exact ⟨classifyLeaf_binds_nodup hp, not_mem_of_any_contains_false hb⟩
  · exact hold l hm

theorem replaceNode_mem_cases {subs : List Node} {key : Bytes} {n m : Node}
    (hm : m ∈ replaceNode subs key n) : m = n ∨ m ∈ subs := by
  unfold replaceNode at hm
  rw [List.mem_map] at hm
  obtain ⟨a, ha, e⟩ := hm
  by_cases hk : a.key = key
  · simp only [hk, ↓reduceIte] at e
    exact Or.inl e.symm
  · simp only [hk, ↓reduceIte] at e
    exact Or.inr (e ▸ ha)

theorem BindsOK.leaves_iff {anc : List Bytes} {subs : List Node} {leaves leaves' : List Leaf}
    (h : BindsOK anc subs leaves)
    (hl : ∀ l ∈ leaves', l.pat.binds.Nodup ∧ ∀ b ∈ l.pat.binds, b ∉ anc) : BindsOK anc subs leaves' :=
  .mk _ _ _ hl (fun _ _ _ _ hn => h.subOK hn) (fun _ _ _ _ hn => h.child hn)

theorem addNext_bindsOK (E : Engine) (r : Route) (hid : Nat) :
    ∀ (segs : List Segment) (subs subs' : List Node) (leaves leaves' : List Leaf)
      (ab : List Bytes) (aa as short : Bool),
      BindsOK ab subs leaves →
      addNext E r hid segs subs leaves ab aa as = .ok (subs', leaves', short) →
      BindsOK ab subs' leaves'
  | [], _, _, _, _, _, _, _, _, _, h => by rw [addNext] at h; cases h
  | [s], subs, subs', leaves, leaves', ab, aa, as, short, hinv, h => by
    obtain ⟨rfl, _, hl⟩ := addNext_single_ok h
    exact hinv.leaves_iff (addLeafTo_bindsOK (fun l hl => hinv.leafOK hl) hl)
  | s :: s2 :: rest, subs, subs', leaves, leaves', ab, aa, as, short, hinv, h => by
    obtain ⟨_, _, cpat, csubs, cleaves, csubs', cleaves', sh, as', hrec, hlv, hsub⟩ :=
      addNext_cons_ok h
    have hleaves : ∀ l ∈ leaves', l.pat.binds.Nodup ∧ ∀ b ∈ l.pat.binds, b ∉ ab := by
      rcases hlv with ⟨_, hl⟩ | ⟨_, rfl⟩
      · exact addLeafTo_bindsOK (fun l hl => hinv.leafOK hl) hl
      · exact fun l hl => hinv.leafOK hl
    rcases hsub with ⟨hmem, rfl⟩ | ⟨_, hcls, rfl, rfl, hb, _, _, rfl⟩
    · have hchild : BindsOK (cpat.binds ++ ab) csubs' cleaves' :=
        addNext_bindsOK E r hid (s2 :: rest) _ _ _ _ _ _ _ _ (hinv.child hmem) hrec
      refine .mk _ _ _ hleaves ?_ ?_
      · intro k p cs cl hm
        rcases replaceNode_mem_cases hm with heq | hm'
        · cases heq; exact hinv.subOK hmem
        · exact hinv.subOK hm'
      · intro k p cs cl hm
        rcases replaceNode_mem_cases hm with heq | hm'
        · cases heq; exact hchild
        · exact hinv.child hm'
    · have hchild : BindsOK (cpat.binds ++ ab) csubs' cleaves' :=
        addNext_bindsOK E r hid (s2 :: rest) _ _ _ _ _ _ _ _ (BindsOK.empty _) hrec
      refine .mk _ _ _ hleaves ?_ ?_
      · intro k p cs cl hm
        rcases (insertByRank_mem _ _ _ _).mp hm with heq | hm'
        · cases heq
          exact ⟨classifyTree_binds_nodup hcls, not_mem_of_any_contains_false hb⟩
        · exact hinv.subOK hm'
      · intro k p cs cl hm
        rcases (insertByRank_mem _ _ _ _).mp hm with heq | hm'
        · cases heq; exact hchild
        · exact hinv.child hm'

/-- "registration rejects a bind name reused along one route": a successful `addRoute` keeps
    the bind names distinct along every root-to-leaf path -/
theorem addRoute_bindsDistinct {E : Engine} {t t' : Node} {r : Route} {hid : Nat}
    (hinv : BindsDistinct t) (h : addRoute E t r hid = .ok t') : BindsDistinct t' := by
  obtain ⟨k, p, subs, leaves⟩ := t
  simp only [BindsDistinct, Node.subs, Node.leaves] at hinv
  rcases addRoute_ok h with ⟨s, l1, l2, _, _, h1, h2, rfl⟩ | ⟨s, l, _, _, h1, rfl⟩ |
    ⟨s, s2, rest, subs', leaves', sh, _, h1, rfl⟩
  · exact hinv.leaves_iff
      (addLeafTo_bindsOK (addLeafTo_bindsOK (fun l hl => hinv.leafOK hl) h1) h2)
  · exact hinv.leaves_iff (addLeafTo_bindsOK (fun l hl => hinv.leafOK hl) h1)
  · exact addNext_bindsOK E r hid _ _ _ _ _ _ _ _ _ hinv h1

theorem root_bindsDistinct : BindsDistinct Node.root := BindsOK.empty []

theorem buildFrom_bindsDistinct (E : Engine) : ∀ (h : List (Route × Nat)) (t : Node),
    BindsDistinct t → BindsDistinct (buildFrom E t h)
  | [], _, ht => ht
  | rh :: h, t, ht => by
    rw [buildFrom]
    cases hr : addRoute E t rh.1 rh.2 with
    | ok t' => exact buildFrom_bindsDistinct E h t' (addRoute_bindsDistinct ht hr)
    | error e => exact buildFrom_bindsDistinct E h t ht

/-- every tree registration can build has pairwise distinct bind names along each route -/
theorem build_bindsDistinct (E : Engine) (h : List (Route × Nat)) : BindsDistinct (build E h) :=
  buildFrom_bindsDistinct E h Node.root root_bindsDistinct

/-! ### the `allStatic` flag (`Leaf.Static()`): a fully static route binds nothing -/

def Pat.isStatic : Pat → Bool
  | .static _ => true
  | _ => false

/-- below a node whose ancestors (and itself) are all static iff `as`: a leaf flagged `allStatic`
    is a static leaf under static ancestors only -/
inductive StaticInv : Bool → List Node → List Leaf → Prop
  | mk (as : Bool) (subs : List Node) (leaves : List Leaf)
      (hl : ∀ l ∈ leaves, l.allStatic = true → as = true ∧ l.pat.isStatic = true)
      (hc : ∀ k p cs cl, Node.mk k p cs cl ∈ subs → StaticInv (as && p.isStatic) cs cl) :
      StaticInv as subs leaves

theorem StaticInv.leafOK {as subs leaves} (h : StaticInv as subs leaves) {l : Leaf} (hl : l ∈ leaves)
    (hf : l.allStatic = true) : as = true ∧ l.pat.isStatic = true := by
  cases h with | mk _ _ _ h1 _ => exact h1 l hl hf

theorem StaticInv.child {as subs leaves} (h : StaticInv as subs leaves) {k p cs cl}
    (hn : Node.mk k p cs cl ∈ subs) : StaticInv (as && p.isStatic) cs cl := by
  cases h with | mk _ _ _ _ h2 => exact h2 k p cs cl hn

theorem StaticInv.empty (as : Bool) : StaticInv as [] [] :=
  .mk _ _ _ (fun _ h => by cases h) (fun _ _ _ _ h => by cases h)

theorem addLeafTo_static {E : Engine} {leaves leaves' : List Leaf} {ab : List Bytes} {as : Bool}
    {r : Route} {s : Segment} {hid : Nat} {long : Bool}
    (hold : ∀ l ∈ leaves, l.allStatic = true → as = true ∧ l.pat.isStatic = true)
    (h : addLeafTo E leaves ab as r s hid long = .ok leaves') :
    ∀ l ∈ leaves', l.allStatic = true → as = true ∧ l.pat.isStatic = true := by
  obtain ⟨p, _, _, _, _, rfl⟩ := addLeafTo_ok h
  intro l hl hf
  rcases (insertByRank_mem _ _ _ _).mp hl with heq | hm
  · subst heq
    simp only [newLeaf, leafStaticFlag] at hf ⊢
    cases p <;> simp_all [Pat.isStatic]
  · exact hold l hm hf

theorem addNext_staticInv (E : Engine) (r : Route) (hid : Nat) :
    ∀ (segs : List Segment) (subs subs' : List Node) (leaves leaves' : List Leaf)
      (ab : List Bytes) (aa as short : Bool),
      StaticInv as subs leaves →
      addNext E r hid segs subs leaves ab aa as = .ok (subs', leaves', short) →
      StaticInv as subs' leaves'
  | [], _, _, _, _, _, _, _, _, _, h => by rw [addNext] at h; cases h
  | [s], subs, subs', leaves, leaves', ab, aa, as, short, hinv, h => by
    obtain ⟨rfl, _, hl⟩ := addNext_single_ok h
    exact .mk _ _ _ (addLeafTo_static (fun l hl hf => hinv.leafOK hl hf) hl)
      (fun _ _ _ _ hn => hinv.child hn)
  | s :: s2 :: rest, subs, subs', leaves, leaves', ab, aa, as, short, hinv, h => by
    -- `addNext_cons_ok` hides the flag it passes down; unfold once more to see it
    have h0 := h
    rw [addNext] at h0
    obtain ⟨_, _, cpat, csubs, cleaves, csubs', cleaves', sh, as', hrec, hlv, hsub⟩ :=
      addNext_cons_ok h
    have hleaves : ∀ l ∈ leaves', l.allStatic = true → as = true ∧ l.pat.isStatic = true := by
      rcases hlv with ⟨_, hl⟩ | ⟨_, rfl⟩
      · exact addLeafTo_static (fun l hl hf => hinv.leafOK hl hf) hl
      · exact fun l hl hf => hinv.leafOK hl hf
    -- whatever flag was passed, the recursive call is also successful with the right one:
    -- we re-derive it from the definition
    split at h0
    · cases h0
    · split at h0
      · rename_i ckey cpat0 csubs0 cleaves0 hfind
        have hmem0 := List.mem_of_find?_eq_some hfind
        simp only [bind, Except.bind] at h0
        split at h0
        · cases h0
        · rename_i res hrec0
          obtain ⟨cs', cl', sh0⟩ := res
          have hrec1 : addNext E r hid (s2 :: rest) csubs0 cleaves0 (cpat0.binds ++ ab)
              (aa || cpat0.isAll) (as && cpat0.isStatic) = .ok (cs', cl', sh0) := by
            cases cpat0 <;> exact hrec0
          have hchild := addNext_staticInv E r hid (s2 :: rest) _ _ _ _ _ _ _ _ (hinv.child hmem0) hrec1
          have hsubs' : subs' = replaceNode subs ckey (.mk ckey cpat0 cs' cl') := by
            cases sh0
            all_goals simp only [Bool.false_eq_true, ↓reduceIte, pure, Except.pure] at h0
            · simp only [Except.ok.injEq, Prod.mk.injEq] at h0; exact h0.1.symm
            · split at h0
              · cases h0
              · simp only [Except.ok.injEq, Prod.mk.injEq] at h0; exact h0.1.symm
          subst hsubs'
          refine .mk _ _ _ hleaves ?_
          intro k p cs cl hm
          rcases replaceNode_mem_cases hm with heq | hm'
          · cases heq; exact hchild
          · exact hinv.child hm'
      · split at h0
        · cases h0
        · rename_i cpat0 hcls
          split at h0
          · cases h0
          · split at h0
            · cases h0
            · split at h0
              · cases h0
              · simp only [bind, Except.bind] at h0
                split at h0
                · cases h0
                · rename_i res hrec0
                  obtain ⟨cs', cl', sh0⟩ := res
                  have hrec1 : addNext E r hid (s2 :: rest) [] [] (cpat0.binds ++ ab)
                      (aa || cpat0.isAll) (as && cpat0.isStatic) = .ok (cs', cl', sh0) := by
                    cases cpat0 <;> exact hrec0
                  have hchild := addNext_staticInv E r hid (s2 :: rest) _ _ _ _ _ _ _ _
                    (StaticInv.empty _) hrec1
                  have hsubs' : subs' = insertByRank (fun n => n.pat.rank) (.mk s.render cpat0 cs' cl') subs := by
                    cases sh0
                    all_goals simp only [Bool.false_eq_true, ↓reduceIte, pure, Except.pure] at h0
                    · simp only [Except.ok.injEq, Prod.mk.injEq] at h0; exact h0.1.symm
                    · split at h0
                      · cases h0
                      · simp only [Except.ok.injEq, Prod.mk.injEq] at h0; exact h0.1.symm
                  subst hsubs'
                  refine .mk _ _ _ hleaves ?_
                  intro k p cs cl hm
                  rcases (insertByRank_mem _ _ _ _).mp hm with heq | hm'
                  · cases heq; exact hchild
                  · exact hinv.child hm'

theorem addRoute_staticInv {E : Engine} {t t' : Node} {r : Route} {hid : Nat}
    (hinv : StaticInv true t.subs t.leaves) (h : addRoute E t r hid = .ok t') :
    StaticInv true t'.subs t'.leaves := by
  obtain ⟨k, p, subs, leaves⟩ := t
  simp only [Node.subs, Node.leaves] at hinv
  rcases addRoute_ok h with ⟨s, l1, l2, _, _, h1, h2, rfl⟩ | ⟨s, l, _, _, h1, rfl⟩ |
    ⟨s, s2, rest, subs', leaves', sh, _, h1, rfl⟩
  · exact .mk _ _ _ (addLeafTo_static (addLeafTo_static (fun l hl hf => hinv.leafOK hl hf) h1) h2)
      (fun _ _ _ _ hn => hinv.child hn)
  · exact .mk _ _ _ (addLeafTo_static (fun l hl hf => hinv.leafOK hl hf) h1)
      (fun _ _ _ _ hn => hinv.child hn)
  · exact addNext_staticInv E r hid _ _ _ _ _ _ _ _ _ hinv h1

theorem buildFrom_staticInv (E : Engine) : ∀ (h : List (Route × Nat)) (t : Node),
    StaticInv true t.subs t.leaves → StaticInv true (buildFrom E t h).subs (buildFrom E t h).leaves
  | [], _, ht => ht
  | rh :: h, t, ht => by
    rw [buildFrom]
    cases hr : addRoute E t rh.1 rh.2 with
    | ok t' => exact buildFrom_staticInv E h t' (addRoute_staticInv ht hr)
    | error e => exact buildFrom_staticInv E h t ht

theorem build_staticInv (E : Engine) (h : List (Route × Nat)) :
    StaticInv true (build E h).subs (build E h).leaves :=
  buildFrom_staticInv E h Node.root (StaticInv.empty true)

theorem Pat.caps_static {E : Engine} {p : Pat} (h : p.isStatic = true) (s : Seg) : p.caps E s = [] := by
  cases p <;> simp_all [Pat.isStatic, Pat.caps]

/-- a walk that ends in a leaf flagged `allStatic` (the ones the fast-path table holds) went
    through static patterns only and captured nothing -/
theorem Walk.binds_nil_of_allStatic {E : Engine} {hok : Nat → Bool} :
    {subs : List Node} → {leaves : List Leaf} → {s : Seg} → {rest : List Seg} →
    (w : Walk E hok subs leaves s rest) → (as : Bool) → StaticInv as subs leaves →
    w.endLeaf.allStatic = true → as = true ∧ w.binds = []
  | _, _, _, _, .leaf subs leaves s l hl ha hh, as, hinv, hf => by
    obtain ⟨h1, h2⟩ := hinv.leafOK hl hf
    exact ⟨h1, by rw [Walk.binds_leaf]; exact Pat.caps_static h2 s⟩
  | _, _, _, _, .allLeaf subs leaves s s' rest' l b cap hl hp hc hh, as, hinv, hf => by
    obtain ⟨_, h2⟩ := hinv.leafOK hl hf
    rw [hp] at h2
    cases h2
  | _, _, _, _, .sub subs leaves s s' rest' k p cs cl hn hna ha w, as, hinv, hf => by
    obtain ⟨h1, h2⟩ := w.binds_nil_of_allStatic (as && p.isStatic) (hinv.child hn) hf
    simp only [Bool.and_eq_true] at h1
    exact ⟨h1.1, by rw [Walk.binds_sub, h2, Pat.caps_static h1.2 s]; rfl⟩
  | _, _, _, _, .allSub subs leaves s rest k b cap cs cl skipped s' rest' heq hn hc w, as, hinv, hf => by
    obtain ⟨h1, _⟩ := w.binds_nil_of_allStatic (as && (Pat.all b cap).isStatic) (hinv.child hn) hf
    simp [Pat.isStatic] at h1

/-! ### the router's trees -/

/-- every method tree of the router satisfies `P` -/
def Router.TreesOK (P : Node → Prop) (R : Router) : Prop :=
  ∀ m t, assocGet R.trees m = some t → P t

theorem assocGet_mem_key {α β} [BEq α] {l : List (α × β)} {k : α} {v : β}
    (h : assocGet l k = some v) : ∃ k', (k', v) ∈ l := by
  unfold assocGet at h
  cases hf : l.find? (·.1 == k) with
  | none => rw [hf] at h; cases h
  | some p =>
    rw [hf] at h
    simp only [Option.map_some, Option.some.injEq] at h
    subst h
    exact ⟨p.1, List.mem_of_find?_eq_some hf⟩

theorem Router.new_treesOK (P : Node → Prop) (hroot : P Node.root) : Router.new.TreesOK P := by
  intro m t h
  obtain ⟨k', hm⟩ := assocGet_mem_key h
  simp only [Router.new, List.mem_map] at hm
  obtain ⟨_, _, heq⟩ := hm
  injection heq with _ h2
  rw [← h2]; exact hroot

theorem Router.addMethods_treesOK (E : Engine) (P : Node → Prop)
    (hadd : ∀ t t' r hid, P t → addRoute E t r hid = .ok t' → P t') (hid : Nat) (r : Route) :
    ∀ (ms : List String) (R : Router) (acc : List (String × Leaf)), R.TreesOK P →
      (R.addMethods E hid r ms acc).1.TreesOK P
  | [], R, acc, hR => by
    simp only [Router.addMethods]
    exact hR
  | m :: ms, R, acc, hR => by
    rw [Router.addMethods]
    cases ht : assocGet R.trees m with
    | none => exact hR
    | some t =>
      simp only
      cases ha : addRoute E t r hid with
      | error e => exact hR
      | ok t' =>
        simp only
        cases hf : findLongLeaf hid t' with
        | none => exact hR
        | some leaf =>
          simp only
          apply Router.addMethods_treesOK E P hadd hid r ms
          intro m' t'' h
          have htrees : assocGet (assocSet R.trees m t') m' = some t'' := by
            split at h <;> exact h
          by_cases hm : m' = m
          · subst hm
            rw [assocGet_assocSet_same] at htrees
            injection htrees with e
            rw [← e]
            exact hadd t t' r hid (hR _ t ht) ha
          · rw [assocGet_assocSet_other _ _ _ _ hm] at htrees
            exact hR m' t'' htrees

theorem Router.setHeaders_treesOK (P : Node → Prop) (R : Router) (hid : Nat) (pairs : List HdrPair)
    (hR : R.TreesOK P) : (R.setHeaders hid pairs).TreesOK P := by
  unfold Router.setHeaders
  split
  · exact hR
  · exact hR

theorem Router.setName_treesOK (P : Node → Prop) (R R' : Router) (hid : Nat) (name : Bytes)
    (hR : R.TreesOK P) (h : R.setName hid name = some R') : R'.TreesOK P := by
  unfold Router.setName at h
  split at h
  · cases h
  · split at h
    · cases h
    · split at h
      · injection h with h; subst h; exact hR
      · cases h

theorem mem_assocSet_cases {α β} [BEq α] {l : List (α × β)} {k : α} {v : β} {p : α × β}
    (h : p ∈ assocSet l k v) : p = (k, v) ∨ p ∈ l := by
  induction l with
  | nil =>
    simp only [assocSet, List.mem_singleton] at h
    exact Or.inl h
  | cons q rest ih =>
    obtain ⟨k', v'⟩ := q
    unfold assocSet at h
    split at h
    · rcases List.mem_cons.mp h with h | h
      · exact Or.inl h
      · exact Or.inr (List.mem_cons_of_mem _ h)
    · rcases List.mem_cons.mp h with h | h
      · subst h; exact Or.inr (List.mem_cons_self ..)
      · rcases ih h with h | h
        · exact Or.inl h
        · exact Or.inr (List.mem_cons_of_mem _ h)

end Flamego
