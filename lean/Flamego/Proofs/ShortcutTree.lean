/-
  Proofs/ShortcutTree.lean — tree-level facts behind C10 (the static shortcut table is invisible).

  1. `StaticPath` (a root-to-leaf walk through static nodes only), `InTree`, `LitInv`
     (for static nodes/leaves created by registration the key determines the literal)
  2. `matchNext_staticPath`: on a tree with `TreeInv` + `LitInv` the matcher, fed with the literals
     of a static path, returns that path's leaf and leaves the params untouched
  3. `segs_renderLits`: the route text of such a path splits back into its literals
  4. registration: `addRoute_litInv`, `addRoute_staticPath` (existing static paths survive),
     `addRoute_new` (every leaf of the new tree is an old one or belongs to the new registration,
     and the new long leaf, if flagged all-static, ends a static path spelling the route text)
-/
import Flamego.Proofs.TreeMatch
import Flamego.Proofs.TreeAdd
namespace Flamego

/-! ### 1. definitions -/

/-- `StaticPath subs leaves lits l`: below a node with children `subs`/`leaves`, the leaf `l` lies
    at the end of a walk through static nodes whose literals are `lits` (the last one is the leaf's) -/
inductive StaticPath : List Node → List Leaf → List Bytes → Leaf → Prop
  | last (subs : List Node) (leaves : List Leaf) (x : Bytes) (l : Leaf)
      (hl : l ∈ leaves) (hp : l.pat = .static x) : StaticPath subs leaves [x] l
  | step (subs : List Node) (leaves : List Leaf) (x : Bytes) (more : List Bytes) (l : Leaf)
      (k : Bytes) (cs : List Node) (cl : List Leaf)
      (hn : Node.mk k (.static x) cs cl ∈ subs) (hr : StaticPath cs cl more l) :
      StaticPath subs leaves (x :: more) l

/-- the leaf `l` is stored somewhere at or below a node with children `subs`/`leaves` -/
inductive InTree : List Node → List Leaf → Leaf → Prop
  | here (subs : List Node) (leaves : List Leaf) (l : Leaf) (hl : l ∈ leaves) : InTree subs leaves l
  | under (subs : List Node) (leaves : List Leaf) (l : Leaf) (k : Bytes) (p : Pat) (cs : List Node)
      (cl : List Leaf) (hn : Node.mk k p cs cl ∈ subs) (hr : InTree cs cl l) : InTree subs leaves l

/-- what registration of parsed routes guarantees about static nodes and leaves: a static node's key
    is "/" + its literal (inner segments are never optional) and the literal is a clean text; a
    static leaf's key is its literal.  Hence among siblings different keys mean different literals. -/
inductive LitInv : List Node → List Leaf → Prop
  | mk (subs : List Node) (leaves : List Leaf)
      (hn : ∀ k x cs cl, Node.mk k (.static x) cs cl ∈ subs → k = 47 :: x ∧ cleanText x = true)
      (hl : ∀ l ∈ leaves, ∀ x, l.pat = .static x → l.key = x)
      (hc : ∀ k p cs cl, Node.mk k p cs cl ∈ subs → LitInv cs cl) :
      LitInv subs leaves

theorem LitInv.node {subs : List Node} {leaves : List Leaf} (h : LitInv subs leaves)
    {k x : Bytes} {cs : List Node} {cl : List Leaf} (hm : Node.mk k (.static x) cs cl ∈ subs) :
    k = 47 :: x ∧ cleanText x = true := by
  cases h with | mk _ _ hn _ _ => exact hn k x cs cl hm

theorem LitInv.leaf {subs : List Node} {leaves : List Leaf} (h : LitInv subs leaves)
    {l : Leaf} (hm : l ∈ leaves) {x : Bytes} (hp : l.pat = .static x) : l.key = x := by
  cases h with | mk _ _ _ hl _ => exact hl l hm x hp

theorem LitInv.child {subs : List Node} {leaves : List Leaf} (h : LitInv subs leaves)
    {k : Bytes} {p : Pat} {cs : List Node} {cl : List Leaf} (hm : Node.mk k p cs cl ∈ subs) :
    LitInv cs cl := by
  cases h with | mk _ _ _ _ hc => exact hc k p cs cl hm

theorem LitInv.empty : LitInv [] [] :=
  .mk [] [] (fun _ _ _ _ h => by cases h) (fun _ h => by cases h) (fun _ _ _ _ h => by cases h)

theorem StaticPath.ne_nil {subs : List Node} {leaves : List Leaf} {lits : List Bytes} {l : Leaf}
    (h : StaticPath subs leaves lits l) : lits ≠ [] := by
  cases h <;> simp

theorem StaticPath.inTree {subs : List Node} {leaves : List Leaf} {lits : List Bytes} {l : Leaf}
    (h : StaticPath subs leaves lits l) : InTree subs leaves l := by
  induction h with
  | last subs leaves x l hl _ => exact .here subs leaves l hl
  | step subs leaves x more l k cs cl hn _ ih => exact .under subs leaves l k _ cs cl hn ih

/-- the leaf list of the node does not matter for a path that goes on below a child; a longer
    leaf list keeps a path that ends here -/
theorem StaticPath.mono_leaves {subs : List Node} {leaves leaves' : List Leaf} {lits : List Bytes}
    {l : Leaf} (h : StaticPath subs leaves lits l) (hsub : ∀ x ∈ leaves, x ∈ leaves') :
    StaticPath subs leaves' lits l := by
  cases h with
  | last _ _ x _ hl hp => exact .last subs leaves' x l (hsub l hl) hp
  | step _ _ x more _ k cs cl hn hr => exact .step subs leaves' x more l k cs cl hn hr

theorem InTree.mono_leaves {subs : List Node} {leaves leaves' : List Leaf} {l : Leaf}
    (h : InTree subs leaves l) (hsub : ∀ x ∈ leaves, x ∈ leaves') : InTree subs leaves' l := by
  cases h with
  | here _ _ _ hl => exact .here subs leaves' l (hsub l hl)
  | under _ _ _ k p cs cl hn hr => exact .under subs leaves' l k p cs cl hn hr

/-- static has the lowest rank of the four styles: whatever is ranked at or below a static pattern
    is static -/
theorem Pat.static_of_rank_le (p : Pat) (x : Bytes) (h : p.rank ≤ (Pat.static x).rank) :
    ∃ y, p = .static y := by
  cases p with
  | static y => exact ⟨y, rfl⟩
  | regex a b => exact absurd h (by simp only [Pat.rank]; decide)
  | hole a => exact absurd h (by simp only [Pat.rank]; decide)
  | all a c => exact absurd h (by simp only [Pat.rank]; decide)

theorem ListInv.tail {α} {pat : α → Pat} {key : α → Bytes} {a : α} {l : List α}
    (h : ListInv pat key (a :: l)) : ListInv pat key l :=
  ⟨(List.pairwise_cons.mp h.sorted).2, (List.pairwise_cons.mp h.oneAll).2,
    (List.pairwise_cons.mp h.keys).2⟩

/-! ### 2. the matcher on a static path -/

/-- the leaves of one node: the static leaf with literal `x` is the first leaf accepting `x`
    (whatever comes before it is static with another key, hence another literal) -/
theorem matchLeaves_static (E : Engine) (hok : Nat → Bool) (x : Bytes) (l : Leaf)
    (hp : l.pat = .static x) (hh : hok l.hid = true) :
    ∀ (leaves : List Leaf) (ps : Params), ListInv Leaf.pat Leaf.key leaves →
      (∀ l' ∈ leaves, ∀ y, l'.pat = .static y → l'.key = y) → l ∈ leaves →
      matchLeaves E hok leaves x ps = (some l, ps) := by
  intro leaves
  induction leaves with
  | nil => intro _ _ _ h; cases h
  | cons l' ls ih =>
    intro ps hinv hlit hmem
    by_cases heq : l' = l
    · subst heq
      simp [matchLeaves, leafMatch, hp, hh]
    · have hml : l ∈ ls := by
        rcases List.mem_cons.mp hmem with h | h
        · exact absurd h.symm heq
        · exact h
      have hr : l'.pat.rank ≤ l.pat.rank := (List.pairwise_cons.mp hinv.sorted).1 l hml
      rw [hp] at hr
      obtain ⟨y, hy⟩ := Pat.static_of_rank_le _ _ hr
      have hk : l'.key ≠ l.key := (List.pairwise_cons.mp hinv.keys).1 l hml
      have hne : y ≠ x := by
        intro e
        apply hk
        rw [hlit l' (List.mem_cons_self ..) y hy, hlit l hmem x hp, e]
      have hnone : leafMatch E hok l' x ps = none := by
        simp [leafMatch, hy, hne]
      rw [matchLeaves, hnone]
      exact ih ps hinv.tail (fun a ha => hlit a (List.mem_cons_of_mem _ ha)) hml

/-- the children of one node: the static child with literal `x` is the first child accepting `x`,
    the children before it reject `x` without touching the params -/
theorem matchSubs_static (E : Engine) (hok : Nat → Bool) (x s' : Bytes) (rest' : List Bytes) (l : Leaf)
    (kc : Bytes) (cs : List Node) (cl : List Leaf)
    (hrec : ∀ ps, matchNext E hok cs cl s' rest' ps = (some l, ps)) :
    ∀ (subs : List Node) (leaves : List Leaf) (ps : Params), ListInv Node.pat Node.key subs →
      (∀ k y ncs ncl, Node.mk k (.static y) ncs ncl ∈ subs → k = 47 :: y) →
      Node.mk kc (.static x) cs cl ∈ subs →
      matchSubs E hok subs leaves x s' rest' ps = (some l, ps) := by
  intro subs
  induction subs with
  | nil => intro _ _ _ _ h; cases h
  | cons n more ih =>
    intro leaves ps hinv hlit hmem
    obtain ⟨k, p, ncs, ncl⟩ := n
    by_cases heq : Node.mk k p ncs ncl = Node.mk kc (.static x) cs cl
    · cases heq
      rw [matchSubs_cons_notAll _ _ _ _ _ _ _ _ _ _ _ _ rfl]
      simp [treeMatch, hrec]
    · have hml : Node.mk kc (.static x) cs cl ∈ more := by
        rcases List.mem_cons.mp hmem with h | h
        · exact absurd h.symm heq
        · exact h
      have hr : p.rank ≤ (Pat.static x).rank := (List.pairwise_cons.mp hinv.sorted).1 _ hml
      obtain ⟨y, rfl⟩ := Pat.static_of_rank_le _ _ hr
      have hk : k ≠ kc := (List.pairwise_cons.mp hinv.keys).1 _ hml
      have hne : y ≠ x := by
        intro e
        apply hk
        rw [hlit k y ncs ncl (List.mem_cons_self ..), hlit kc x cs cl hmem, e]
      rw [matchSubs_cons_notAll _ _ _ _ _ _ _ _ _ _ _ _ rfl]
      simp only [treeMatch, hne, ↓reduceIte]
      exact ih leaves ps hinv.tail (fun k y a b h => hlit k y a b (List.mem_cons_of_mem _ h)) hml

/-- **(a)** the matcher follows a static path: fed with the path's literals it returns the path's
    leaf (if its header constraints hold) and the params it was given, unchanged -/
theorem matchNext_staticPath (E : Engine) (hok : Nat → Bool) (l : Leaf) (hh : hok l.hid = true)
    {subs : List Node} {leaves : List Leaf} {lits : List Bytes}
    (hp : StaticPath subs leaves lits l) :
    TreeInv subs leaves → LitInv subs leaves →
    ∀ s rest ps, lits = s :: rest → matchNext E hok subs leaves s rest ps = (some l, ps) := by
  induction hp with
  | last subs leaves x l hl hpat =>
    intro hinv hlit s rest ps e
    cases e
    rw [matchNext]
    exact matchLeaves_static E hok x l hpat hh leaves ps hinv.leavesInv
      (fun l' hl' y hy => hlit.leaf hl' hy) hl
  | step subs leaves x more l k cs cl hn hr ih =>
    intro hinv hlit s rest ps e
    cases e
    cases hm : more with
    | nil => exact absurd hm hr.ne_nil
    | cons s' rest' =>
      subst hm
      rw [matchNext]
      exact matchSubs_static E hok x s' rest' l k cs cl
        (fun ps => ih hh (hinv.child hn) (hlit.child hn) s' rest' ps rfl)
        subs leaves ps hinv.subsInv (fun k y a b h => (hlit.node h).1) hn

/-! ### 3. the text of a static path and its segments -/

/-- the text of a static path: "/" + literal for every step -/
def renderLits (lits : List Bytes) : Bytes := lits.flatMap fun x => (47 : UInt8) :: x

/-- literals as registration of parsed routes produces them: no byte of the route syntax
    (in particular no '/' and no '?') in any of them, and only the last one may be empty -/
structure GoodLits (lits : List Bytes) : Prop where
  plain : ∀ x ∈ lits, ∀ c ∈ x, specialByte c = false
  inner : ∀ x more, lits = x :: more → more ≠ [] → x ≠ []

theorem renderLits_cons (x : Bytes) (more : List Bytes) :
    renderLits (x :: more) = 47 :: (x ++ renderLits more) := by
  simp [renderLits]

theorem not_slash_of_plain {x : Bytes} (h : ∀ c ∈ x, specialByte c = false) : slash ∉ x := by
  intro hm
  have := h slash hm
  revert this
  decide

theorem GoodLits.tail {x : Bytes} {more : List Bytes} (h : GoodLits (x :: more)) :
    ∀ y ∈ more, ∀ c ∈ y, specialByte c = false :=
  fun y hy => h.plain y (List.mem_cons_of_mem _ hy)

/-- a clean literal in front of good literals -/
theorem GoodLits.cons {x : Bytes} {lits : List Bytes} (hx : cleanText x = true) (h : GoodLits lits) :
    GoodLits (x :: lits) := by
  refine ⟨?_, ?_⟩
  · intro y hy
    rcases List.mem_cons.mp hy with rfl | hy
    · exact cleanText_free hx
    · exact h.plain y hy
  · intro y more e _
    cases e
    obtain ⟨c, t, rfl, _⟩ := cleanText_cons hx
    simp

theorem splitSlash_renderLits_tail : ∀ (more : List Bytes) (x : Bytes), more ≠ [] →
    (∀ y ∈ more, ∀ c ∈ y, specialByte c = false) → (∀ c ∈ x, specialByte c = false) →
    splitSlash (x ++ renderLits more) = x :: more
  | [], _, h, _, _ => absurd rfl h
  | y :: more', x, _, hm, hx => by
    rw [renderLits_cons]
    have h47 : (47 : UInt8) = slash := rfl
    rw [h47, splitSlash_append_slash x _ (not_slash_of_plain hx)]
    have hy := hm y (List.mem_cons_self ..)
    cases more' with
    | nil =>
      rw [show renderLits [] = [] from rfl, List.append_nil,
        splitSlash_no_slash y (not_slash_of_plain hy)]
    | cons z zs =>
      rw [splitSlash_renderLits_tail (z :: zs) y (by simp)
        (fun a ha => hm a (List.mem_cons_of_mem _ ha)) hy]

theorem trimLeftSlash_cons_ne {c : UInt8} (cs : Bytes) (h : c ≠ slash) :
    trimLeftSlash (c :: cs) = c :: cs := by
  simp [trimLeftSlash, h]

/-- **(b)** the text of a static path splits back into the path's literals -/
theorem segs_renderLits {lits : List Bytes} (h : GoodLits lits) (hne : lits ≠ []) :
    splitSlash (trimLeftSlash (renderLits lits)) = lits := by
  cases lits with
  | nil => exact absurd rfl hne
  | cons x more =>
    rw [renderLits_cons]
    have hx := h.plain x (List.mem_cons_self ..)
    have ht : trimLeftSlash (47 :: (x ++ renderLits more)) = trimLeftSlash (x ++ renderLits more) := by
      rw [trimLeftSlash]; simp [slash]
    rw [ht]
    cases x with
    | nil =>
      cases more with
      | nil => rfl
      | cons y ys => exact absurd rfl (h.inner [] (y :: ys) rfl (by simp))
    | cons c x' =>
      have hc : c ≠ slash := by
        intro e
        exact not_slash_of_plain hx (by rw [e]; exact List.mem_cons_self ..)
      rw [List.cons_append, trimLeftSlash_cons_ne _ hc, ← List.cons_append]
      cases more with
      | nil =>
        rw [show renderLits [] = [] from rfl, List.append_nil,
          splitSlash_no_slash _ (not_slash_of_plain hx)]
      | cons y ys => exact splitSlash_renderLits_tail (y :: ys) (c :: x') (by simp) h.tail hx

/-- the text of a static path contains no '?' -/
theorem renderLits_no_qmark {lits : List Bytes} (h : GoodLits lits) : (63 : UInt8) ∉ renderLits lits := by
  intro hm
  simp only [renderLits, List.mem_flatMap, List.mem_cons] at hm
  obtain ⟨x, hx, hc⟩ := hm
  rcases hc with hc | hc
  · exact absurd hc (by decide)
  · have := h.plain x hx 63 hc
    revert this
    decide

/-- the text of a static path starts with exactly one '/' -/
theorem renderLits_no_double_slash {lits : List Bytes} (h : GoodLits lits) (p : Bytes) :
    renderLits lits ≠ 47 :: 47 :: p := by
  intro e
  cases lits with
  | nil => cases e
  | cons x more =>
    rw [renderLits_cons] at e
    simp only [List.cons.injEq, true_and] at e
    cases x with
    | nil =>
      cases more with
      | nil => cases e
      | cons y ys => exact absurd rfl (h.inner [] (y :: ys) rfl (by simp))
    | cons c x' =>
      simp only [List.cons_append, List.cons.injEq] at e
      have := h.plain (c :: x') (List.mem_cons_self ..) c (List.mem_cons_self ..)
      rw [e.1] at this
      revert this
      decide

theorem renderLits_head {lits : List Bytes} (hne : lits ≠ []) : ∃ p, renderLits lits = 47 :: p := by
  cases lits with
  | nil => exact absurd rfl hne
  | cons x more => exact ⟨_, renderLits_cons x more⟩

/-! ### 4. registration -/

/-! #### classification of static segments -/

theorem classifyRegex_not_static (E : Engine) (s : Segment) (x : Bytes) :
    classifyRegex E s ≠ .ok (.static x) := by
  unfold classifyRegex
  simp only [bind, Except.bind, pure, Except.pure]
  split
  · intro h; cases h
  · split
    · intro h; cases h
    · split <;> intro h <;> cases h

theorem classifyDynamic_not_static (E : Engine) (s : Segment) (x : Bytes) :
    classifyDynamic E s ≠ .ok (.static x) := by
  unfold classifyDynamic
  split
  · intro h; cases h
  · split
    · intro h; cases h
    · exact classifyRegex_not_static E s x

theorem staticLit_some {s : Segment} {x : Bytes} (h : staticLit s = some x) : s.elems = [.ident x] := by
  obtain ⟨o, es⟩ := s
  unfold staticLit at h
  split at h
  · rename_i heq
    cases heq
    cases h
    rfl
  · cases h

/-- a leaf is static only for the empty segment (literal empty) or a single literal element -/
theorem classifyLeaf_static {E : Engine} {s : Segment} {x : Bytes}
    (h : classifyLeaf E s = .ok (.static x)) :
    (s.elems = [] ∧ x = []) ∨ s.elems = [.ident x] := by
  unfold classifyLeaf at h
  split at h
  · rename_i he
    left
    cases h
    exact ⟨by simpa using he, rfl⟩
  · split at h
    · rename_i l hl
      cases h
      exact Or.inr (staticLit_some hl)
    · exact absurd h (classifyDynamic_not_static E s x)

/-- a tree node is static only for a single literal element -/
theorem classifyTree_static {E : Engine} {s : Segment} {x : Bytes}
    (h : classifyTree E s = .ok (.static x)) : s.elems = [.ident x] := by
  unfold classifyTree at h
  split at h
  · cases h
  · split at h
    · rename_i l hl
      cases h
      exact staticLit_some hl
    · exact absurd h (classifyDynamic_not_static E s x)

theorem render_of_ident {s : Segment} {x : Bytes} (he : s.elems = [.ident x]) (ho : s.optional = false) :
    s.render = 47 :: x := by
  simp [Segment.render, he, ho, B_slash, Elem.render]

theorem render_of_empty {s : Segment} (he : s.elems = []) (ho : s.optional = false) :
    s.render = [47] := by
  simp [Segment.render, he, ho, B_slash]

theorem clean_of_ident {s : Segment} {x : Bytes} (hP : ParsedSeg s = true) (he : s.elems = [.ident x]) :
    cleanText x = true := by
  simp only [ParsedSeg, he, List.all_cons, List.all_nil, Bool.and_true, parsedElem,
    Bool.and_eq_true] at hP
  exact hP.1

/-- the leaf key of a static leaf is its literal -/
theorem classifyLeaf_static_key {E : Engine} {s : Segment} {x : Bytes}
    (h : classifyLeaf E s = .ok (.static x)) : s.leafKey = x := by
  rcases classifyLeaf_static h with ⟨he, rfl⟩ | he
  · simp [Segment.leafKey, he]
  · simp [Segment.leafKey, he, Elem.render]

/-! #### `replaceNode` without assumptions on the keys -/

theorem replaceNode_mem_imp {subs : List Node} {key : Bytes} {n m : Node}
    (h : m ∈ replaceNode subs key n) : m = n ∨ m ∈ subs := by
  unfold replaceNode at h
  rw [List.mem_map] at h
  obtain ⟨a, ha, e⟩ := h
  by_cases hk : a.key = key
  · simp only [hk, ↓reduceIte] at e
    exact Or.inl e.symm
  · simp only [hk, ↓reduceIte] at e
    exact Or.inr (e ▸ ha)

theorem replaceNode_mem_new {subs : List Node} {key : Bytes} {n c : Node}
    (hc : c ∈ subs) (hk : c.key = key) : n ∈ replaceNode subs key n := by
  unfold replaceNode
  rw [List.mem_map]
  exact ⟨c, hc, by simp only [hk, ↓reduceIte]⟩

theorem replaceNode_mem_old {subs : List Node} {key : Bytes} {n m : Node}
    (hm : m ∈ subs) (hk : m.key ≠ key) : m ∈ replaceNode subs key n := by
  unfold replaceNode
  rw [List.mem_map]
  exact ⟨m, hm, by simp only [hk, ↓reduceIte]⟩

/-! #### `addNext` on at least two segments, with the static flag of the recursive call explicit -/

/-- "this pattern is static" (the factor `addNext` multiplies `ancStatic` with) -/
def staticFlag (p : Pat) : Bool := match p with | .static _ => true | _ => false

theorem staticFlag_true {p : Pat} (h : staticFlag p = true) : ∃ x, p = .static x := by
  cases p with
  | static x => exact ⟨x, rfl⟩
  | regex _ _ => cases h
  | hole _ => cases h
  | all _ _ => cases h

/-- `addNext_cons_ok` of Proofs/TreeAdd with the `ancStatic` argument of the recursive call spelled
    out (and without the facts about binds and match-alls that are not needed here) -/
theorem addNext_cons_ok' {E : Engine} {r : Route} {hid : Nat} {s s2 : Segment} {rest : List Segment}
    {subs subs' : List Node} {leaves leaves' : List Leaf} {ab : List Bytes} {aa as short : Bool}
    (h : addNext E r hid (s :: s2 :: rest) subs leaves ab aa as = .ok (subs', leaves', short)) :
    s.optional = false ∧ short = false ∧
    ∃ cpat csubs cleaves csubs' cleaves' sh,
      addNext E r hid (s2 :: rest) csubs cleaves (cpat.binds ++ ab) (aa || cpat.isAll)
        (as && staticFlag cpat) = .ok (csubs', cleaves', sh) ∧
      ((sh = true ∧ addLeafTo E leaves ab as r s hid false = .ok leaves') ∨
        (sh = false ∧ leaves' = leaves)) ∧
      ((Node.mk s.render cpat csubs cleaves ∈ subs ∧
          subs' = replaceNode subs s.render (.mk s.render cpat csubs' cleaves')) ∨
       ((∀ m ∈ subs, m.key ≠ s.render) ∧ classifyTree E s = .ok cpat ∧ csubs = [] ∧ cleaves = [] ∧
          subs' = insertByRank (fun n => n.pat.rank) (.mk s.render cpat csubs' cleaves') subs)) := by
  rw [addNext] at h
  split at h
  · cases h
  · rename_i hopt
    refine ⟨by simpa using hopt, ?_⟩
    split at h
    · rename_i ckey cpat csubs cleaves hfind
      have hmem := List.mem_of_find?_eq_some hfind
      have hkey : ckey = s.render := by
        have := List.find?_some hfind
        exact of_decide_eq_true this
      subst hkey
      simp only [bind, Except.bind] at h
      split at h
      · cases h
      · rename_i res hrec
        obtain ⟨csubs', cleaves', sh⟩ := res
        simp only at h
        have hrec' : addNext E r hid (s2 :: rest) csubs cleaves (cpat.binds ++ ab) (aa || cpat.isAll)
            (as && staticFlag cpat) = .ok (csubs', cleaves', sh) := by
          cases cpat <;> exact hrec
        refine ⟨?_, cpat, csubs, cleaves, csubs', cleaves', sh, hrec', ?_, Or.inl ⟨hmem, ?_⟩⟩
        all_goals cases sh
        all_goals simp only [Bool.false_eq_true, ↓reduceIte, pure, Except.pure] at h
        all_goals first
          | (split at h
             · cases h
             · rename_i lv hlv
               simp only [Except.ok.injEq, Prod.mk.injEq] at h
               obtain ⟨h1, h2, h3⟩ := h
               subst h2
               first | exact h3.symm | exact h1.symm | exact Or.inl ⟨rfl, hlv⟩)
          | (simp only [Except.ok.injEq, Prod.mk.injEq] at h
             obtain ⟨h1, h2, h3⟩ := h
             first | exact h3.symm | exact h1.symm | exact Or.inr ⟨rfl, h2.symm⟩)
    · rename_i hfind
      have hfresh : ∀ m ∈ subs, m.key ≠ s.render := by
        intro m hm
        have := List.find?_eq_none.mp hfind m hm
        simpa using this
      split at h
      · cases h
      · rename_i cpat hcls
        split at h
        · cases h
        · split at h
          · cases h
          · split at h
            · cases h
            · simp only [bind, Except.bind] at h
              split at h
              · cases h
              · rename_i res hrec
                obtain ⟨csubs', cleaves', sh⟩ := res
                simp only at h
                have hrec' : addNext E r hid (s2 :: rest) [] [] (cpat.binds ++ ab) (aa || cpat.isAll)
                    (as && staticFlag cpat) = .ok (csubs', cleaves', sh) := by
                  cases cpat <;> exact hrec
                refine ⟨?_, cpat, [], [], csubs', cleaves', sh, hrec', ?_,
                  Or.inr ⟨hfresh, hcls, rfl, rfl, ?_⟩⟩
                all_goals cases sh
                all_goals simp only [Bool.false_eq_true, ↓reduceIte, pure, Except.pure] at h
                all_goals first
                  | (split at h
                     · cases h
                     · rename_i lv hlv
                       simp only [Except.ok.injEq, Prod.mk.injEq] at h
                       obtain ⟨h1, h2, h3⟩ := h
                       subst h2
                       first | exact h3.symm | exact h1.symm | exact Or.inl ⟨rfl, hlv⟩)
                  | (simp only [Except.ok.injEq, Prod.mk.injEq] at h
                     obtain ⟨h1, h2, h3⟩ := h
                     first | exact h3.symm | exact h1.symm | exact Or.inr ⟨rfl, h2.symm⟩)

/-! #### `LitInv` is maintained -/

theorem InTree.not_empty {l : Leaf} : ¬ InTree [] [] l := by
  intro h
  cases h with
  | here _ _ _ hl => cases hl
  | under _ _ _ _ _ _ _ hn _ => cases hn

theorem addLeafTo_subset {E : Engine} {leaves leaves' : List Leaf} {ab : List Bytes} {as : Bool}
    {r : Route} {s : Segment} {hid : Nat} {long : Bool}
    (h : addLeafTo E leaves ab as r s hid long = .ok leaves') : ∀ x ∈ leaves, x ∈ leaves' := by
  obtain ⟨p, _, hmem⟩ := addLeafTo_mem h
  exact fun x hx => (hmem x).mpr (Or.inl hx)

theorem addLeafTo_leafLit {E : Engine} {leaves leaves' : List Leaf} {ab : List Bytes} {as : Bool}
    {r : Route} {s : Segment} {hid : Nat} {long : Bool}
    (h : addLeafTo E leaves ab as r s hid long = .ok leaves')
    (hl : ∀ l ∈ leaves, ∀ x, l.pat = .static x → l.key = x) :
    ∀ l ∈ leaves', ∀ x, l.pat = .static x → l.key = x := by
  obtain ⟨p, hp, hmem⟩ := addLeafTo_mem h
  intro l hl' x hx
  rcases (hmem l).mp hl' with h1 | rfl
  · exact hl l h1 x hx
  · simp only at hx ⊢
    subst hx
    exact classifyLeaf_static_key hp

theorem addNext_litInv (E : Engine) (r : Route) (hid : Nat) :
    ∀ (segs : List Segment) (subs subs' : List Node) (leaves leaves' : List Leaf)
      (ab : List Bytes) (aa as short : Bool),
      LitInv subs leaves → (∀ s ∈ segs, ParsedSeg s = true) →
      addNext E r hid segs subs leaves ab aa as = .ok (subs', leaves', short) →
      LitInv subs' leaves'
  | [], _, _, _, _, _, _, _, _, _, _, h => by rw [addNext] at h; cases h
  | [s], subs, subs', leaves, leaves', ab, aa, as, short, hinv, _, h => by
    obtain ⟨rfl, _, hl⟩ := addNext_single_ok h
    exact .mk _ _ (fun k x cs cl hm => hinv.node hm)
      (addLeafTo_leafLit hl (fun l hl x hx => hinv.leaf hl hx)) (fun k p cs cl hm => hinv.child hm)
  | s :: s2 :: rest, subs, subs', leaves, leaves', ab, aa, as, short, hinv, hS, h => by
    obtain ⟨hopt, _, cpat, csubs, cleaves, csubs', cleaves', sh, hrec, hlv, hsub⟩ :=
      addNext_cons_ok' h
    have hS' : ∀ x ∈ s2 :: rest, ParsedSeg x = true := fun x hx => hS x (List.mem_cons_of_mem _ hx)
    have hleaves : ∀ l ∈ leaves', ∀ x, l.pat = .static x → l.key = x := by
      rcases hlv with ⟨_, hl⟩ | ⟨_, rfl⟩
      · exact addLeafTo_leafLit hl (fun l hl x hx => hinv.leaf hl hx)
      · exact fun l hl x hx => hinv.leaf hl hx
    rcases hsub with ⟨hmem, rfl⟩ | ⟨_, hcls, rfl, rfl, rfl⟩
    · have hchild : LitInv csubs' cleaves' :=
        addNext_litInv E r hid (s2 :: rest) _ _ _ _ _ _ _ _ (hinv.child hmem) hS' hrec
      refine .mk _ _ ?_ hleaves ?_
      · intro k x cs cl hm
        rcases replaceNode_mem_imp hm with heq | hm'
        · cases heq; exact hinv.node hmem
        · exact hinv.node hm'
      · intro k p cs cl hm
        rcases replaceNode_mem_imp hm with heq | hm'
        · cases heq; exact hchild
        · exact hinv.child hm'
    · have hchild : LitInv csubs' cleaves' :=
        addNext_litInv E r hid (s2 :: rest) _ _ _ _ _ _ _ _ LitInv.empty hS' hrec
      refine .mk _ _ ?_ hleaves ?_
      · intro k x cs cl hm
        rcases (insertByRank_mem _ _ _ _).mp hm with heq | hm'
        · cases heq
          have he := classifyTree_static hcls
          exact ⟨render_of_ident he hopt, clean_of_ident (hS s (List.mem_cons_self ..)) he⟩
        · exact hinv.node hm'
      · intro k p cs cl hm
        rcases (insertByRank_mem _ _ _ _).mp hm with heq | hm'
        · cases heq; exact hchild
        · exact hinv.child hm'

/-! #### existing static paths survive a registration -/

theorem addNext_staticPath (E : Engine) (r : Route) (hid : Nat) :
    ∀ (segs : List Segment) (subs subs' : List Node) (leaves leaves' : List Leaf)
      (ab : List Bytes) (aa as short : Bool),
      TreeInv subs leaves →
      addNext E r hid segs subs leaves ab aa as = .ok (subs', leaves', short) →
      ∀ lits l, StaticPath subs leaves lits l → StaticPath subs' leaves' lits l
  | [], _, _, _, _, _, _, _, _, _, h => by rw [addNext] at h; cases h
  | [s], subs, subs', leaves, leaves', ab, aa, as, short, _, h => by
    obtain ⟨rfl, _, hl⟩ := addNext_single_ok h
    exact fun lits l hp => hp.mono_leaves (addLeafTo_subset hl)
  | s :: s2 :: rest, subs, subs', leaves, leaves', ab, aa, as, short, hinv, h => by
    obtain ⟨_, _, cpat, csubs, cleaves, csubs', cleaves', sh, hrec, hlv, hsub⟩ :=
      addNext_cons_ok' h
    have hsubL : ∀ x ∈ leaves, x ∈ leaves' := by
      rcases hlv with ⟨_, hl⟩ | ⟨_, rfl⟩
      · exact addLeafTo_subset hl
      · exact fun x hx => hx
    intro lits l hp
    cases hp with
    | last _ _ x _ hl hpat => exact .last _ _ x l (hsubL l hl) hpat
    | step _ _ x more _ k cs cl hn hr =>
      rcases hsub with ⟨hmem, rfl⟩ | ⟨_, _, rfl, rfl, rfl⟩
      · by_cases hk : k = s.render
        · have heq : Node.mk k (.static x) cs cl = Node.mk s.render cpat csubs cleaves :=
            eq_of_key_eq Node.key subs hinv.subsInv.keys _ hn _ hmem hk
          cases heq
          have ih := addNext_staticPath E r hid (s2 :: rest) _ _ _ _ _ _ _ _ (hinv.child hmem) hrec
            more l hr
          exact .step _ _ x more l s.render csubs' cleaves' (replaceNode_mem_new hmem rfl) ih
        · exact .step _ _ x more l k cs cl (replaceNode_mem_old hn hk) hr
      · exact .step _ _ x more l k cs cl ((insertByRank_mem _ _ _ _).mpr (Or.inr hn)) hr

/-! #### the leaves of the new tree: old ones, or leaves of the new registration -/

/-- the last segment (of the remaining ones) carries the optional mark -/
def lastOptSegs (segs : List Segment) : Bool :=
  match segs.getLast? with
  | some s => s.optional
  | none => false

theorem lastOptSegs_single (s : Segment) : lastOptSegs [s] = s.optional := by simp [lastOptSegs]

theorem lastOptSegs_cons_cons (s s2 : Segment) (rest : List Segment) :
    lastOptSegs (s :: s2 :: rest) = lastOptSegs (s2 :: rest) := by
  simp [lastOptSegs, List.getLast?_cons_cons]

/-- what registration guarantees for a leaf it creates at or below a node reached with the static
    flag `as`, for the remaining segments `segs`: it carries the registration's id and route, and a
    long leaf flagged all-static sits under static ancestors only and (if the last segment is not
    optional) ends a static path that spells the remaining route text -/
def NewLeafOK (r : Route) (hid : Nat) (as : Bool) (segs : List Segment) (subs' : List Node)
    (leaves' : List Leaf) (l : Leaf) : Prop :=
  l.hid = hid ∧ l.route = r ∧
  (l.long = true → l.allStatic = true → as = true ∧ (lastOptSegs segs = false →
    ∃ lits, StaticPath subs' leaves' lits l ∧ GoodLits lits ∧
      renderLits lits = segs.flatMap Segment.render))

theorem leafStaticFlag_true {p : Pat} {as : Bool} (h : leafStaticFlag p as = true) :
    ∃ x, p = .static x ∧ as = true := by
  cases p with
  | static x => exact ⟨x, rfl, h⟩
  | regex _ _ => cases h
  | hole _ => cases h
  | all _ _ => cases h

theorem addLeafTo_new_long {E : Engine} {leaves leaves' : List Leaf} {ab : List Bytes} {as : Bool}
    {r : Route} {s : Segment} {hid : Nat} (hP : ParsedSeg s = true)
    (h : addLeafTo E leaves ab as r s hid true = .ok leaves') (subs : List Node) :
    ∀ l ∈ leaves', l ∈ leaves ∨ NewLeafOK r hid as [s] subs leaves' l := by
  obtain ⟨p, hp, hmem⟩ := addLeafTo_mem h
  intro l hl
  rcases (hmem l).mp hl with h1 | rfl
  · exact Or.inl h1
  · right
    refine ⟨rfl, rfl, fun _ hst => ?_⟩
    obtain ⟨x, rfl, rfl⟩ := leafStaticFlag_true hst
    refine ⟨rfl, fun hlo => ?_⟩
    rw [lastOptSegs_single] at hlo
    refine ⟨[x], .last subs leaves' x _ hl rfl, ⟨?_, ?_⟩, ?_⟩
    · intro y hy
      simp only [List.mem_cons, List.not_mem_nil, or_false] at hy
      subst hy
      rcases classifyLeaf_static hp with ⟨_, rfl⟩ | he
      · intro c hc; cases hc
      · exact cleanText_free (clean_of_ident hP he)
    · intro y more e hne
      cases e
      exact absurd rfl hne
    · rcases classifyLeaf_static hp with ⟨he, rfl⟩ | he
      · simp [renderLits, render_of_empty he hlo]
      · simp [renderLits, render_of_ident he hlo]

theorem addLeafTo_new_short {E : Engine} {leaves leaves' : List Leaf} {ab : List Bytes} {as : Bool}
    {r : Route} {s : Segment} {hid : Nat}
    (h : addLeafTo E leaves ab as r s hid false = .ok leaves') :
    ∀ l ∈ leaves', l ∈ leaves ∨ (l.hid = hid ∧ l.route = r ∧ l.long = false) := by
  obtain ⟨p, _, hmem⟩ := addLeafTo_mem h
  intro l hl
  rcases (hmem l).mp hl with h1 | rfl
  · exact Or.inl h1
  · exact Or.inr ⟨rfl, rfl, rfl⟩

theorem NewLeafOK.of_short {r : Route} {hid : Nat} {as : Bool} {segs : List Segment}
    {subs' : List Node} {leaves' : List Leaf} {l : Leaf}
    (h : l.hid = hid ∧ l.route = r ∧ l.long = false) : NewLeafOK r hid as segs subs' leaves' l :=
  ⟨h.1, h.2.1, fun hl => by rw [h.2.2] at hl; cases hl⟩

/-- a new leaf below the child for segment `s` is a new leaf of this node -/
theorem NewLeafOK.lift {r : Route} {hid : Nat} {as : Bool} {s s2 : Segment} {rest : List Segment}
    {cpat : Pat} {csubs' subs' : List Node} {cleaves' leaves' : List Leaf} {l : Leaf}
    (h : NewLeafOK r hid (as && staticFlag cpat) (s2 :: rest) csubs' cleaves' l)
    (hn : Node.mk s.render cpat csubs' cleaves' ∈ subs')
    (hlit : ∀ x, cpat = .static x → s.render = 47 :: x ∧ cleanText x = true) :
    NewLeafOK r hid as (s :: s2 :: rest) subs' leaves' l := by
  obtain ⟨h1, h2, h3⟩ := h
  refine ⟨h1, h2, fun hl hst => ?_⟩
  obtain ⟨hf, hpath⟩ := h3 hl hst
  simp only [Bool.and_eq_true] at hf
  obtain ⟨x, rfl⟩ := staticFlag_true hf.2
  refine ⟨hf.1, fun hlo => ?_⟩
  rw [lastOptSegs_cons_cons] at hlo
  obtain ⟨lits, hp, hg, hr⟩ := hpath hlo
  obtain ⟨hk, hc⟩ := hlit x rfl
  refine ⟨x :: lits, .step _ _ x lits l s.render csubs' cleaves' hn hp, hg.cons hc, ?_⟩
  rw [renderLits_cons, List.flatMap_cons, hk, hr, List.cons_append]

theorem addNext_new (E : Engine) (r : Route) (hid : Nat) :
    ∀ (segs : List Segment) (subs subs' : List Node) (leaves leaves' : List Leaf)
      (ab : List Bytes) (aa as short : Bool),
      LitInv subs leaves → (∀ s ∈ segs, ParsedSeg s = true) →
      addNext E r hid segs subs leaves ab aa as = .ok (subs', leaves', short) →
      ∀ l, InTree subs' leaves' l → InTree subs leaves l ∨ NewLeafOK r hid as segs subs' leaves' l
  | [], _, _, _, _, _, _, _, _, _, _, h => by rw [addNext] at h; cases h
  | [s], subs, subs', leaves, leaves', ab, aa, as, short, _, hS, h => by
    obtain ⟨rfl, _, hl⟩ := addNext_single_ok h
    intro l hin
    cases hin with
    | here _ _ _ hm =>
      rcases addLeafTo_new_long (hS s (List.mem_cons_self ..)) hl _ l hm with h1 | h1
      · exact Or.inl (.here _ _ l h1)
      · exact Or.inr h1
    | under _ _ _ k p cs cl hn hr => exact Or.inl (.under _ _ l k p cs cl hn hr)
  | s :: s2 :: rest, subs, subs', leaves, leaves', ab, aa, as, short, hinv, hS, h => by
    obtain ⟨hopt, _, cpat, csubs, cleaves, csubs', cleaves', sh, hrec, hlv, hsub⟩ :=
      addNext_cons_ok' h
    have hS' : ∀ x ∈ s2 :: rest, ParsedSeg x = true := fun x hx => hS x (List.mem_cons_of_mem _ hx)
    intro l hin
    cases hin with
    | here _ _ _ hm =>
      rcases hlv with ⟨_, hl⟩ | ⟨_, rfl⟩
      · rcases addLeafTo_new_short hl l hm with h1 | h1
        · exact Or.inl (.here _ _ l h1)
        · exact Or.inr (NewLeafOK.of_short h1)
      · exact Or.inl (.here _ _ l hm)
    | under _ _ _ k p cs cl hn hr =>
      rcases hsub with ⟨hmem, rfl⟩ | ⟨_, hcls, rfl, rfl, rfl⟩
      · rcases replaceNode_mem_imp hn with heq | hn'
        · cases heq
          rcases addNext_new E r hid (s2 :: rest) _ _ _ _ _ _ _ _ (hinv.child hmem) hS' hrec l hr
            with h1 | h1
          · exact Or.inl (.under _ _ l _ _ _ _ hmem h1)
          · exact Or.inr (h1.lift hn (fun x e => by subst e; exact hinv.node hmem))
        · exact Or.inl (.under _ _ l k p cs cl hn' hr)
      · rcases (insertByRank_mem _ _ _ _).mp hn with heq | hn'
        · cases heq
          rcases addNext_new E r hid (s2 :: rest) _ _ _ _ _ _ _ _ LitInv.empty hS' hrec l hr
            with h1 | h1
          · exact absurd h1 InTree.not_empty
          · refine Or.inr (h1.lift hn (fun x e => ?_))
            subst e
            have he := classifyTree_static hcls
            exact ⟨render_of_ident he hopt, clean_of_ident (hS s (List.mem_cons_self ..)) he⟩
        · exact Or.inl (.under _ _ l k p cs cl hn' hr)

/-! #### the same for `addRoute` on the root -/

theorem addRoute_litInv {E : Engine} {t t' : Node} {r : Route} {hid : Nat}
    (hinv : LitInv t.subs t.leaves) (hS : ∀ s ∈ r.segs, ParsedSeg s = true)
    (h : addRoute E t r hid = .ok t') : LitInv t'.subs t'.leaves := by
  obtain ⟨k, p, subs, leaves⟩ := t
  simp only [Node.subs, Node.leaves] at hinv
  have hl0 : ∀ l ∈ leaves, ∀ x, l.pat = .static x → l.key = x := fun l hl x hx => hinv.leaf hl hx
  rcases addRoute_ok h with ⟨s, l1, l2, _, _, h1, h2, rfl⟩ | ⟨s, l, _, _, h1, rfl⟩ |
    ⟨s, s2, rest, subs', leaves', sh, hsegs, h1, rfl⟩
  · exact .mk _ _ (fun _ _ _ _ hm => hinv.node hm) (addLeafTo_leafLit h2 (addLeafTo_leafLit h1 hl0))
      (fun _ _ _ _ hm => hinv.child hm)
  · exact .mk _ _ (fun _ _ _ _ hm => hinv.node hm) (addLeafTo_leafLit h1 hl0)
      (fun _ _ _ _ hm => hinv.child hm)
  · rw [hsegs] at hS
    exact addNext_litInv E r hid _ _ _ _ _ _ _ _ _ hinv hS h1

/-- **(c, trees)** a static path of the tree is still there, with the same literals and the same
    leaf, after any successful registration -/
theorem addRoute_staticPath {E : Engine} {t t' : Node} {r : Route} {hid : Nat}
    (hinv : TreeInv t.subs t.leaves) (h : addRoute E t r hid = .ok t') :
    ∀ lits l, StaticPath t.subs t.leaves lits l → StaticPath t'.subs t'.leaves lits l := by
  obtain ⟨k, p, subs, leaves⟩ := t
  simp only [Node.subs, Node.leaves] at hinv ⊢
  rcases addRoute_ok h with ⟨s, l1, l2, _, _, h1, h2, rfl⟩ | ⟨s, l, _, _, h1, rfl⟩ |
    ⟨s, s2, rest, subs', leaves', sh, hsegs, h1, rfl⟩
  · exact fun lits l hp => hp.mono_leaves
      (fun x hx => addLeafTo_subset h2 x (addLeafTo_subset h1 x hx))
  · exact fun lits l hp => hp.mono_leaves (addLeafTo_subset h1)
  · exact addNext_staticPath E r hid _ _ _ _ _ _ _ _ _ hinv h1

/-- every leaf of the tree after a successful registration of a parsed route is a leaf of the tree
    before, or a leaf of this registration — and then, if it is the long form, flagged all-static and
    the route's last segment is not optional, it ends a static path that spells the route text -/
theorem addRoute_new {E : Engine} {t t' : Node} {r : Route} {hid : Nat}
    (hinv : LitInv t.subs t.leaves) (hS : ∀ s ∈ r.segs, ParsedSeg s = true)
    (h : addRoute E t r hid = .ok t') :
    ∀ l, InTree t'.subs t'.leaves l →
      InTree t.subs t.leaves l ∨ NewLeafOK r hid true r.segs t'.subs t'.leaves l := by
  obtain ⟨k, p, subs, leaves⟩ := t
  simp only [Node.subs, Node.leaves] at hinv ⊢
  rcases addRoute_ok h with ⟨s, l1, l2, hsegs, _, h1, h2, rfl⟩ | ⟨s, l0, hsegs, _, h1, rfl⟩ |
    ⟨s, s2, rest, subs', leaves', sh, hsegs, h1, rfl⟩
  · intro l hin
    rw [hsegs]
    cases hin with
    | here _ _ _ hm =>
      rcases addLeafTo_new_long (hS s (by rw [hsegs]; exact List.mem_cons_self ..)) h2 subs l hm
        with h3 | h3
      · rcases addLeafTo_new_short h1 l h3 with h4 | h4
        · exact Or.inl (.here _ _ l h4)
        · exact Or.inr (NewLeafOK.of_short h4)
      · exact Or.inr h3
    | under _ _ _ k' p' cs cl hn hr => exact Or.inl (.under _ _ l k' p' cs cl hn hr)
  · intro l hin
    rw [hsegs]
    cases hin with
    | here _ _ _ hm =>
      rcases addLeafTo_new_long (hS s (by rw [hsegs]; exact List.mem_cons_self ..)) h1 subs l hm
        with h3 | h3
      · exact Or.inl (.here _ _ l h3)
      · exact Or.inr h3
    | under _ _ _ k' p' cs cl hn hr => exact Or.inl (.under _ _ l k' p' cs cl hn hr)
  · intro l hin
    rw [hsegs] at hS ⊢
    exact addNext_new E r hid _ _ _ _ _ _ _ _ _ hinv hS h1 l hin

end Flamego
