/-
  Proofs/Static.lean — lemmas for C16: `splitSlash`/`joinSlash` inversion, the invariant of
  `path.Clean`'s element stack, shape facts about the prefix filter.
-/
import Flamego.Model.Static
namespace Flamego.Static

/-- a path element a cleaned rooted path may contain: not empty, not `.`, not `..`, no `/` inside -/
def Normal (c : Bytes) : Prop := c ≠ [] ∧ c ≠ [dot] ∧ c ≠ [dot, dot] ∧ slash ∉ c

/-! ### splitSlash / joinSlash -/

theorem splitSlash_noSlash (b : Bytes) : ∀ s ∈ splitSlash b, slash ∉ s := by
  induction b with
  | nil => simp [splitSlash]
  | cons c cs ih =>
    unfold splitSlash
    split
    · intro s hs
      simp only [List.mem_cons] at hs
      rcases hs with rfl | hs
      · simp
      · exact ih s hs
    · rename_i hc
      cases h : splitSlash cs with
      | nil => exact absurd h (splitSlash_ne_nil cs)
      | cons s ss =>
        rw [h] at ih
        intro t ht
        simp only [List.mem_cons] at ht
        rcases ht with rfl | ht
        · have := ih s (by simp)
          simp only [List.mem_cons, not_or]
          exact ⟨fun e => hc e.symm, this⟩
        · exact ih t (by simp [ht])

theorem splitSlash_cons_of_ne {c : UInt8} {cs s : Bytes} {ss : List Bytes} (hc : c ≠ slash)
    (h : splitSlash cs = s :: ss) : splitSlash (c :: cs) = (c :: s) :: ss := by
  rw [splitSlash, if_neg hc, h]

theorem splitSlash_of_noSlash (s : Bytes) (h : slash ∉ s) : splitSlash s = [s] := by
  induction s with
  | nil => simp [splitSlash]
  | cons c cs ih =>
    simp only [List.mem_cons, not_or] at h
    exact splitSlash_cons_of_ne (fun e => h.1 e.symm) (ih h.2)

theorem splitSlash_append_slash (s t : Bytes) (h : slash ∉ s) :
    splitSlash (s ++ slash :: t) = s :: splitSlash t := by
  induction s with
  | nil => simp [splitSlash]
  | cons c cs ih =>
    simp only [List.mem_cons, not_or] at h
    simp only [List.cons_append]
    exact splitSlash_cons_of_ne (fun e => h.1 e.symm) (ih h.2)

theorem splitSlash_joinSlash (comps : List Bytes) (hne : comps ≠ []) (h : ∀ c ∈ comps, slash ∉ c) :
    splitSlash (joinSlash comps) = comps := by
  induction comps with
  | nil => exact absurd rfl hne
  | cons s ss ih =>
    cases ss with
    | nil => simpa [joinSlash] using splitSlash_of_noSlash s (h s (by simp))
    | cons s2 ss2 =>
      simp only [joinSlash]
      rw [splitSlash_append_slash _ _ (h s (by simp))]
      rw [ih (by simp) (fun c hc => h c (by simp [hc]))]

theorem splitSlash_cons_slash (b : Bytes) : splitSlash (slash :: b) = [] :: splitSlash b := by
  rw [splitSlash]; simp

/-! ### path.Clean -/

theorem cleanStep_true_normal (stk : List Bytes) (seg : Bytes) (hs : ∀ c ∈ stk, Normal c)
    (hseg : slash ∉ seg) : ∀ c ∈ cleanStep true stk seg, Normal c := by
  unfold cleanStep
  split
  · exact hs
  · rename_i h1
    split
    · split
      · simp
      · rename_i top rest
        split
        · rename_i ht
          have := (hs top (by simp)).2.2.1
          exact absurd ht this
        · intro c hc; exact hs c (by simp [hc])
    · rename_i h2
      intro c hc
      simp only [List.mem_cons] at hc
      rcases hc with rfl | hc
      · simp only [not_or] at h1
        exact ⟨h1.1, h1.2, h2, hseg⟩
      · exact hs c hc

theorem foldl_cleanStep_true_normal (segs : List Bytes) (stk : List Bytes)
    (hs : ∀ c ∈ stk, Normal c) (hsegs : ∀ s ∈ segs, slash ∉ s) :
    ∀ c ∈ segs.foldl (cleanStep true) stk, Normal c := by
  induction segs generalizing stk with
  | nil => simpa using hs
  | cons s ss ih =>
    simp only [List.foldl_cons]
    exact ih _ (cleanStep_true_normal stk s hs (hsegs s (by simp))) (fun t ht => hsegs t (by simp [ht]))

/-- `cleanRooted n` is `/` followed by normal components joined by `/`. -/
theorem cleanRooted_shape (n : Bytes) :
    ∃ comps : List Bytes, cleanRooted n = slash :: joinSlash comps ∧ ∀ c ∈ comps, Normal c := by
  refine ⟨((splitSlash n).foldl (cleanStep true) []).reverse, rfl, ?_⟩
  intro c hc
  rw [List.mem_reverse] at hc
  exact foldl_cleanStep_true_normal _ [] (by simp) (splitSlash_noSlash n) c hc

theorem cleanStep_nil (r : Bool) (stk : List Bytes) : cleanStep r stk [] = stk := by
  simp [cleanStep]

/-- `cleanRooted` really is `path.Clean` applied to `"/" ++ name`. -/
theorem cleanRooted_eq_pathClean (n : Bytes) : cleanRooted n = pathClean (slash :: n) := by
  simp [pathClean, cleanRooted, splitSlash_cons_slash, cleanStep_nil]

/-! ### small facts used by the decision theorems -/

theorem endsSlash_append_slash (b : Bytes) : endsSlash (b ++ [slash]) = true := by
  simp [endsSlash]

theorem stripPrefix_some {p u f : Bytes} (h : stripPrefix p u = some f) :
    (p = [] ∧ f = u) ∨ (p ≠ [] ∧ u = p ++ f ∧ (f = [] ∨ ∃ rest, f = slash :: rest)) := by
  unfold stripPrefix at h
  split at h
  · left; rename_i hp; exact ⟨hp, by simpa using h.symm⟩
  · rename_i hp
    right
    split at h
    · rename_i hpre
      have hpre' : p <+: u := List.isPrefixOf_iff_prefix.mp hpre
      have hu : u = p ++ u.drop p.length := (List.prefix_iff_eq_append.mp hpre').symm
      split at h
      · rename_i hd
        simp only [Option.some.injEq] at h
        subst h
        exact ⟨hp, by rw [← hd]; exact hu, Or.inl rfl⟩
      · rename_i c rest hd
        split at h
        · rename_i hc
          simp only [Option.some.injEq] at h
          subst h
          exact ⟨hp, by rw [← hd]; exact hu, Or.inr ⟨rest, by rw [hc]⟩⟩
        · simp at h
    · simp at h

theorem stripPrefix_not_prefix {p u : Bytes} (hp : p ≠ []) (h : ¬ p <+: u) : stripPrefix p u = none := by
  unfold stripPrefix
  rw [if_neg hp]
  have : p.isPrefixOf u = false := by
    cases hb : p.isPrefixOf u with
    | false => rfl
    | true => exact absurd (List.isPrefixOf_iff_prefix.mp hb) h
  simp [this]

theorem stripPrefix_lookalike {p : Bytes} (hp : p ≠ []) (c : UInt8) (rest : Bytes) (hc : c ≠ slash) :
    stripPrefix p (p ++ c :: rest) = none := by
  unfold stripPrefix
  rw [if_neg hp]
  have : p.isPrefixOf (p ++ c :: rest) = true := List.isPrefixOf_iff_prefix.mpr (List.prefix_append _ _)
  simp [this, hc]

theorem finish_ne_silent (o : Opts) (etag : Nat → Bytes) (inm name : Bytes) (id : Nat) :
    finish o etag inm name id ≠ .silent := by
  unfold finish; split <;> simp

theorem finish_cases (o : Opts) (etag : Nat → Bytes) (inm name : Bytes) (id : Nat) :
    finish o etag inm name id = .notModified name id ∨ finish o etag inm name id = .serve name id := by
  unfold finish; split <;> simp

end Flamego.Static
