/-
  Proofs/RouterBirth.lean — the hypothesis "registration ids increase" of Proofs/TreeBirth holds for
  the method trees of a router: if the `add` operations of a router history carry increasing ids
  (the k-th registration call gets a larger id than every earlier one) and no registration lists
  a method twice, every method tree is `build E h` for a history `h` with increasing ids.
  (Proofs/RouterBuild shows the same without the order of the ids.)
-/
import Flamego.Proofs.RouterBuild
import Flamego.Proofs.TreeBirth
namespace Flamego

/-- the ids of a history increase strictly -/
def IncHist (h : List (Route × Nat)) : Prop := (h.map (·.2)).Pairwise (· < ·)

theorem incHist_snoc {h : List (Route × Nat)} {r : Route} {hid : Nat} (hi : IncHist h)
    (hlt : ∀ rh ∈ h, rh.2 < hid) : IncHist (h ++ [(r, hid)]) := by
  unfold IncHist at *
  rw [List.map_append, List.pairwise_append]
  refine ⟨hi, by simp, ?_⟩
  intro a ha b hb
  rw [List.mem_map] at ha
  obtain ⟨rh, hrh, rfl⟩ := ha
  simp only [List.map_cons, List.map_nil, List.mem_cons, List.not_mem_nil, or_false] at hb
  subst hb
  exact hlt rh hrh

/-- every method tree is built from a history with increasing ids, the ids of the tree of
    method `m` satisfying `P m` -/
def TreesInc (E : Engine) (P : String → Nat → Prop) (R : Router) : Prop :=
  ∀ m t, assocGet R.trees m = some t → ∃ h : List (Route × Nat), t = build E h ∧ IncHist h ∧ ∀ rh ∈ h, P m rh.2

theorem TreesInc.mono {E : Engine} {P Q : String → Nat → Prop} {R : Router}
    (h : TreesInc E P R) (hPQ : ∀ m i, P m i → Q m i) : TreesInc E Q R := by
  intro m t ht
  obtain ⟨hh, h1, h2, h3⟩ := h m t ht
  exact ⟨hh, h1, h2, fun rh hrh => hPQ _ _ (h3 rh hrh)⟩

/-- the loop of `addMethods` for a registration with id `hid`: the trees of the methods still to
    come hold smaller ids only; afterwards every tree holds ids up to `hid` -/
theorem addMethods_inc (E : Engine) (hid : Nat) (r : Route) :
    ∀ (ms : List String) (R : Router) (acc : List (String × Leaf)), ms.Nodup →
      TreesInc E (fun m i => i ≤ hid ∧ (m ∈ ms → i < hid)) R →
      TreesInc E (fun _ i => i ≤ hid) (R.addMethods E hid r ms acc).1 := by
  intro ms
  induction ms with
  | nil =>
    intro R acc _ hR
    simp only [Router.addMethods]
    intro m t ht
    exact hR.mono (fun _ _ h => h.1) m t ht
  | cons m ms ih =>
    intro R acc hnd hR
    have hweak : TreesInc E (fun _ i => i ≤ hid) R := hR.mono (fun _ _ h => h.1)
    rw [List.nodup_cons] at hnd
    rw [Router.addMethods]
    cases ht : assocGet R.trees m with
    | none => simpa using hweak
    | some t =>
      simp only []
      cases ha : addRoute E t r hid with
      | error e => simpa using hweak
      | ok t' =>
        simp only []
        cases hf : findLongLeaf hid t' with
        | none => simpa using hweak
        | some leaf =>
          simp only []
          apply ih _ _ hnd.2
          have key : ∀ (st : List ((String × Bytes) × Leaf)),
              TreesInc E (fun m i => i ≤ hid ∧ (m ∈ ms → i < hid))
                { R with trees := assocSet R.trees m t', statics := st } := by
            intro st m2 t2 h2
            simp only at h2
            by_cases hm : m2 = m
            · subst hm
              rw [assocGet_assocSet_same] at h2
              injection h2 with h2
              subst h2
              obtain ⟨hh, h1, h2', h3⟩ := hR m2 t ht
              have hlt : ∀ rh ∈ hh, rh.2 < hid := fun rh hrh => (h3 rh hrh).2 (List.mem_cons_self ..)
              refine ⟨hh ++ [(r, hid)], ?_, incHist_snoc h2' hlt, ?_⟩
              · rw [build_snoc, ← h1, ha]
              · intro rh hrh
                rcases List.mem_append.mp hrh with hrh | hrh
                · exact ⟨Nat.le_of_lt (hlt rh hrh), fun hmem => absurd hmem hnd.1⟩
                · simp at hrh; subst hrh
                  exact ⟨Nat.le_refl _, fun hmem => absurd hmem hnd.1⟩
            · rw [assocGet_assocSet_other _ _ _ _ hm] at h2
              obtain ⟨hh, h1, h2', h3⟩ := hR m2 t2 h2
              exact ⟨hh, h1, h2', fun rh hrh =>
                ⟨(h3 rh hrh).1, fun hmem => (h3 rh hrh).2 (List.mem_cons_of_mem _ hmem)⟩⟩
          split
          · exact key _
          · exact key _

/-- one operation: a registration with an id at least `b` raises the bound to its id + 1 -/
theorem apply_inc (E : Engine) (b : Nat) (R : Router) (op : RouterOp)
    (hop : ∀ hid r ms, op = .add hid r ms → b ≤ hid ∧ ms.Nodup)
    (hR : TreesInc E (fun _ i => i < b) R) :
    TreesInc E (fun _ i => i < (match op with | .add hid _ _ => hid + 1 | _ => b)) (R.apply E op) := by
  cases op with
  | add hid r ms =>
    obtain ⟨hb, hnd⟩ := hop hid r ms rfl
    have := addMethods_inc E hid r ms R [] hnd
      (hR.mono (fun _ i h => ⟨by omega, fun _ => by omega⟩))
    exact this.mono (fun _ i h => by simp only; omega)
  | headers hid pairs =>
    intro m t ht
    have : (R.setHeaders hid pairs).trees = R.trees := by
      unfold Router.setHeaders; split <;> rfl
    exact hR m t (by rw [← this]; exact ht)
  | name hid nm =>
    intro m t ht
    have : ((R.setName hid nm).getD R).trees = R.trees := by
      unfold Router.setName
      split
      · rfl
      · split
        · rfl
        · split <;> rfl
    exact hR m t (by rw [← this]; exact ht)

theorem runFrom_inc (E : Engine) :
    ∀ (ops : List RouterOp) (R : Router) (b : Nat),
      ((addPairs ops).map Prod.fst).Pairwise (· < ·) → (∀ i ∈ (addPairs ops).map Prod.fst, b ≤ i) →
      (∀ hid r ms, RouterOp.add hid r ms ∈ ops → ms.Nodup) →
      TreesInc E (fun _ i => i < b) R → ∃ b', TreesInc E (fun _ i => i < b') (Router.runFrom E R ops)
  | [], R, b, _, _, _, hR => ⟨b, hR⟩
  | op :: ops, R, b, hinc, hb, hnd, hR => by
    simp only [Router.runFrom, List.foldl_cons]
    have hnd' : ∀ hid r ms, RouterOp.add hid r ms ∈ ops → ms.Nodup :=
      fun hid r ms h => hnd hid r ms (List.mem_cons_of_mem _ h)
    cases op with
    | add hid r ms =>
      simp only [addPairs, List.map_cons, List.pairwise_cons, List.mem_cons, forall_eq_or_imp] at hinc hb
      have h1 := apply_inc E b R (.add hid r ms)
        (fun hid' r' ms' e => by cases e; exact ⟨hb.1, hnd _ _ _ (List.mem_cons_self ..)⟩) hR
      exact runFrom_inc E ops _ (hid + 1) hinc.2 (fun i hi => hinc.1 i hi) hnd' h1
    | headers hid pairs =>
      have h1 := apply_inc E b R (.headers hid pairs) (fun _ _ _ e => by cases e) hR
      exact runFrom_inc E ops _ b (by simpa [addPairs] using hinc) (by simpa [addPairs] using hb) hnd' h1
    | name hid nm =>
      have h1 := apply_inc E b R (.name hid nm) (fun _ _ _ e => by cases e) hR
      exact runFrom_inc E ops _ b (by simpa [addPairs] using hinc) (by simpa [addPairs] using hb) hnd' h1

/-- **every reachable method tree is built from a history with increasing ids**, if the
    registration calls carry increasing ids and none lists a method twice -/
theorem run_trees_inc (E : Engine) (ops : List RouterOp)
    (hinc : ((addPairs ops).map Prod.fst).Pairwise (· < ·))
    (hnd : ∀ hid r ms, RouterOp.add hid r ms ∈ ops → ms.Nodup) (m : String) (t : Node)
    (ht : assocGet (Router.run E ops).trees m = some t) :
    ∃ h : List (Route × Nat), t = build E h ∧ IncHist h := by
  have h0 : TreesInc E (fun _ i => i < 0) Router.new := by
    intro m t ht
    obtain ⟨h, h1, h2⟩ := treesBuilt_new E m t ht
    have : h = [] := List.eq_nil_iff_forall_not_mem.mpr (fun rh hrh => by cases h2 rh hrh)
    subst this
    exact ⟨[], h1, List.Pairwise.nil, fun _ h => by cases h⟩
  obtain ⟨b', hb'⟩ := runFrom_inc E ops Router.new 0 hinc (fun _ _ => Nat.zero_le _) hnd h0
  obtain ⟨h, h1, h2, _⟩ := hb' m t ht
  exact ⟨h, h1, h2⟩

end Flamego
