/-
  Proofs/LexerSound.lean — what every successful run of the table-driven lexer guarantees about
  its tokens (backward half of the lexer correspondence, used by `parse_sound`), for any rule
  table satisfying `TableOK` (which `docRules` does, by evaluation), and: the state stack of the
  route lexer never runs empty (`lexFrom_no_panic`).
-/
import Flamego.Proofs.Lexer
namespace Flamego
namespace RouteGrammar
open Gen

/-- what the proofs need from the rule table: no rule is elided; every rule called `Ident` is the
    greedy Ident class without a stack action; every rule called `Regex` is the greedy Regex class -/
def TableOK (rules : LexRules) : Prop :=
  ∀ p ∈ rules, ∀ r ∈ p.2,
    r.elide = false ∧
    (r.name = "Ident" → r.bytes = identBytes ∧ r.plus = true ∧ r.action = .none) ∧
    (r.name = "Regex" → r.bytes = regexBytes ∧ r.plus = true)

instance (rules : LexRules) : Decidable (TableOK rules) := by unfold TableOK; infer_instance

theorem docRules_ok : TableOK docRules := by decide

/-- an `Ident` / `Regex` token is a non-empty string over its class -/
def TokOK (t : Token) : Prop :=
  (t.name = "Ident" → IdentText t.val) ∧ (t.name = "Regex" → RegexText t.val)

/-- no two adjacent `Ident` tokens -/
def NoAdjIdentTok : List Token → Prop
  | a :: b :: rest => ¬(a.name = "Ident" ∧ b.name = "Ident") ∧ NoAdjIdentTok (b :: rest)
  | _ => True

def vals (ts : List Token) : Bytes := ts.flatMap Token.val

theorem firstMatch_mem {rs : List LexRule} {c : UInt8} {r : LexRule} (h : firstMatch rs c = some r) :
    r ∈ rs ∧ c ∈ r.bytes := by
  induction rs with
  | nil => simp [firstMatch] at h
  | cons a rs ih =>
    unfold firstMatch at h
    split at h
    · cases h; exact ⟨by simp, by assumption⟩
    · have := ih h; exact ⟨by simp [this.1], this.2⟩

theorem lookup_mem {l : List (String × List LexRule)} {k : String} {v : List LexRule}
    (h : l.lookup k = some v) : (k, v) ∈ l := by
  induction l with
  | nil => simp [List.lookup] at h
  | cons p l ih =>
    obtain ⟨k', v'⟩ := p
    unfold List.lookup at h
    split at h
    · rename_i heq
      have : k = k' := by simpa using heq
      cases h; subst this; simp
    · have := ih h; simp [this]

theorem rulesOf_mem {rules : LexRules} {S : String} {r : LexRule} (h : r ∈ rulesOf rules S) :
    ∃ p ∈ rules, r ∈ p.2 ∧ p.1 = S := by
  unfold rulesOf at h
  cases hl : rules.lookup S with
  | none => simp [hl] at h
  | some v => simp [hl] at h; exact ⟨(S, v), lookup_mem hl, h, rfl⟩

theorem munch_append (r : LexRule) (cs : Bytes) : munchTake r cs ++ munchDrop r cs = cs := by
  unfold munchTake munchDrop
  split <;> simp

theorem munchTake_mem (r : LexRule) (cs : Bytes) : ∀ b ∈ munchTake r cs, b ∈ r.bytes := by
  intro b hb
  unfold munchTake at hb
  split at hb
  · have hall := List.all_takeWhile (p := fun b => decide (b ∈ r.bytes)) (l := cs)
    rw [List.all_eq_true] at hall
    simpa using hall b hb
  · simp at hb

theorem dropWhile_head {p : UInt8 → Bool} {l : Bytes} {a : UInt8} {l' : Bytes}
    (h : l.dropWhile p = a :: l') : p a = false := by
  induction l with
  | nil => simp at h
  | cons x xs ih =>
    rw [List.dropWhile_cons] at h
    split at h
    · exact ih h
    · rename_i hx; cases h; simpa using hx

theorem consTok_ok {t : Token} {res : Except LexErr (List Token)} {ts : List Token}
    (h : consTok t res = .ok ts) : ∃ ts', res = .ok ts' ∧ ts = t :: ts' := by
  cases res with
  | error e => simp [consTok] at h
  | ok ts' => simp [consTok] at h; exact ⟨ts', rfl, h.symm⟩

/-- every successful lexing: the token values concatenate to the input; the class tokens are
    well formed; identifiers are never adjacent; a leading `Ident` token means a leading
    identifier byte -/
theorem lexFrom_sound {rules : LexRules} (hok : TableOK rules) :
    ∀ (n : Nat) (st : List String) (s : Bytes) (ts : List Token), s.length ≤ n →
      lexFrom rules st s = .ok ts →
      vals ts = s ∧ (∀ t ∈ ts, TokOK t) ∧ NoAdjIdentTok ts ∧
      (∀ t tl, ts = t :: tl → t.name = "Ident" → ∃ c cs, s = c :: cs ∧ c ∈ identBytes) := by
  intro n
  induction n with
  | zero =>
    intro st s ts hn h
    have : s = [] := List.eq_nil_of_length_eq_zero (Nat.le_zero.mp hn)
    subst this
    cases st with
    | nil => rw [lexFrom] at h; cases h
    | cons top stk =>
      rw [lexFrom_nil] at h; cases h
      exact ⟨rfl, by simp, trivial, by intro t tl h; cases h⟩
  | succ n ih =>
    intro st s ts hn h
    cases st with
    | nil => rw [lexFrom] at h; cases h
    | cons top stk =>
    cases s with
    | nil =>
      rw [lexFrom_nil] at h; cases h
      exact ⟨rfl, by simp, trivial, by intro t tl h; cases h⟩
    | cons c cs =>
      cases hf : firstMatch (rulesOf rules top) c with
      | none => rw [lexFrom] at h; simp [hf] at h
      | some r =>
        obtain ⟨hmem, hc⟩ := firstMatch_mem hf
        obtain ⟨p, hp, hrp, _⟩ := rulesOf_mem hmem
        obtain ⟨hel, hid, hre⟩ := hok p hp r hrp
        rw [lexFrom_step hf hel] at h
        obtain ⟨ts', hrest, rfl⟩ := consTok_ok h
        have hlen : (munchDrop r cs).length ≤ n := by
          have := munchDrop_length r cs
          simp only [List.length_cons] at hn; omega
        obtain ⟨hv, htok, hadj, hhead⟩ := ih _ _ _ hlen hrest
        refine ⟨?_, ?_, ?_, ?_⟩
        · simp only [vals, List.flatMap_cons] at hv ⊢
          rw [hv]; simp [munch_append]
        · intro t ht
          simp only [List.mem_cons] at ht
          rcases ht with rfl | ht
          · constructor
            · intro hn'
              have hb := (hid hn').1
              refine ⟨by simp, ?_⟩
              intro b hb'
              simp only [List.mem_cons] at hb'
              rcases hb' with rfl | hb'
              · rw [← hb]; exact hc
              · rw [← hb]; exact munchTake_mem r cs b hb'
            · intro hn'
              have hb := (hre hn').1
              refine ⟨by simp, ?_⟩
              intro b hb'
              simp only [List.mem_cons] at hb'
              rcases hb' with rfl | hb'
              · rw [← hb]; exact hc
              · rw [← hb]; exact munchTake_mem r cs b hb'
          · exact htok t ht
        · cases ts' with
          | nil => trivial
          | cons t2 tl =>
            refine ⟨?_, hadj⟩
            rintro ⟨h1, h2⟩
            obtain ⟨hb, hpl, hact⟩ := hid h1
            obtain ⟨c2, cs2, hd, hc2⟩ := hhead t2 tl rfl h2
            have : munchDrop r cs = cs.dropWhile (fun b => decide (b ∈ r.bytes)) := by simp [munchDrop, hpl]
            rw [this] at hd
            have := dropWhile_head hd
            rw [hb] at this
            simp at this
            exact this hc2
        · intro t tl heq hn'
          cases heq
          exact ⟨c, cs, rfl, by rw [← (hid hn').1]; exact hc⟩

/-! ### the run of the lexer as a derivation over the token list -/

/-- `Run rules st ts`: the tokens `ts` are what the rule table produces from the state stack `st`:
    each token comes from a rule of the state on top (same name, first byte in its set), a `+`
    rule is followed by a token that does not start with a byte of its set, and the rest runs
    from the stack after the rule's action -/
def Run (rules : LexRules) : List String → List Token → Prop
  | _, [] => True
  | st, t :: ts => ∃ top stk r, st = top :: stk ∧ r ∈ rulesOf rules top ∧ t.name = r.name ∧
      (∃ c cs, t.val = c :: cs ∧ c ∈ r.bytes) ∧
      (r.plus = true → ∀ t2 ts2 c2 cs2, ts = t2 :: ts2 → t2.val = c2 :: cs2 → c2 ∉ r.bytes) ∧
      Run rules (applyAction r.action st) ts

theorem lexFrom_run {rules : LexRules} (hok : TableOK rules) :
    ∀ (n : Nat) (st : List String) (s : Bytes) (ts : List Token), s.length ≤ n →
      lexFrom rules st s = .ok ts →
      Run rules st ts ∧ (∀ t tl c cs, ts = t :: tl → t.val = c :: cs → ∃ cs', s = c :: cs') := by
  intro n
  induction n with
  | zero =>
    intro st s ts hn h
    have : s = [] := List.eq_nil_of_length_eq_zero (Nat.le_zero.mp hn)
    subst this
    cases st with
    | nil => rw [lexFrom] at h; cases h
    | cons top stk => rw [lexFrom_nil] at h; cases h; exact ⟨trivial, by intro t tl c cs h; cases h⟩
  | succ n ih =>
    intro st s ts hn h
    cases st with
    | nil => rw [lexFrom] at h; cases h
    | cons top stk =>
    cases s with
    | nil => rw [lexFrom_nil] at h; cases h; exact ⟨trivial, by intro t tl c cs h; cases h⟩
    | cons c cs =>
      cases hf : firstMatch (rulesOf rules top) c with
      | none => rw [lexFrom] at h; simp [hf] at h
      | some r =>
        obtain ⟨hmem, hc⟩ := firstMatch_mem hf
        obtain ⟨p, hp, hrp, _⟩ := rulesOf_mem hmem
        rw [lexFrom_step hf (hok p hp r hrp).1] at h
        obtain ⟨ts', hrest, rfl⟩ := consTok_ok h
        have hlen : (munchDrop r cs).length ≤ n := by
          have := munchDrop_length r cs
          simp only [List.length_cons] at hn; omega
        obtain ⟨hrun, hhead⟩ := ih _ _ _ hlen hrest
        refine ⟨⟨top, stk, r, rfl, hmem, rfl, ⟨c, _, rfl, hc⟩, ?_, hrun⟩, ?_⟩
        · intro hpl t2 ts2 c2 cs2 heq hval hc2
          obtain ⟨cs', hd⟩ := hhead t2 ts2 c2 cs2 heq hval
          have : munchDrop r cs = cs.dropWhile (fun b => decide (b ∈ r.bytes)) := by simp [munchDrop, hpl]
          rw [this] at hd
          have := dropWhile_head hd
          simp at this
          exact this hc2
        · intro t tl c' cs' heq hval
          cases heq
          cases hval
          exact ⟨cs, rfl⟩

/-! ### the state stack never runs empty -/

/-- no rule of the `Root` state pops, and no rule pushes `Root` -/
def StackTableOK (rules : LexRules) : Prop :=
  (∀ r ∈ rulesOf rules "Root", r.action ≠ .pop) ∧ (∀ p ∈ rules, ∀ r ∈ p.2, r.action ≠ .push "Root")

instance (rules : LexRules) : Decidable (StackTableOK rules) := by unfold StackTableOK; infer_instance

theorem docRules_stack_ok : StackTableOK docRules := by decide

/-- `Root` at the bottom and nowhere else -/
def StackInv (st : List String) : Prop := ∃ l, st = l ++ ["Root"] ∧ "Root" ∉ l

theorem consTok_emptyStack {t : Token} {res : Except LexErr (List Token)}
    (h : consTok t res = .error .emptyStack) : res = .error .emptyStack := by
  cases res with
  | error e => simpa [consTok] using h
  | ok ts => simp [consTok] at h

theorem lexFrom_no_panic {rules : LexRules} (hel : TableOK rules) (hok : StackTableOK rules) :
    ∀ (n : Nat) (st : List String) (s : Bytes), s.length ≤ n → StackInv st →
      lexFrom rules st s ≠ .error .emptyStack := by
  intro n
  induction n with
  | zero =>
    intro st s hn ⟨l, hst, _⟩ h
    have : s = [] := List.eq_nil_of_length_eq_zero (Nat.le_zero.mp hn)
    subst this
    cases l <;> (subst hst; simp [lexFrom_nil] at h)
  | succ n ih =>
    intro st s hn ⟨l, hst, hroot⟩ h
    cases s with
    | nil => cases l <;> (subst hst; simp [lexFrom_nil] at h)
    | cons c cs =>
      have hcons : ∃ top stk, st = top :: stk := by
        cases l with
        | nil => exact ⟨"Root", [], hst⟩
        | cons a l' => exact ⟨a, l' ++ ["Root"], hst⟩
      obtain ⟨top, stk, hts⟩ := hcons
      rw [hts] at h
      cases hf : firstMatch (rulesOf rules top) c with
      | none => rw [lexFrom] at h; simp [hf] at h
      | some r =>
        obtain ⟨hmem, _⟩ := firstMatch_mem hf
        obtain ⟨p, hp, hrp, _⟩ := rulesOf_mem hmem
        rw [lexFrom_step hf (hel p hp r hrp).1] at h
        have h2 := consTok_emptyStack h
        have hlen : (munchDrop r cs).length ≤ n := by
          have := munchDrop_length r cs
          simp only [List.length_cons] at hn; omega
        refine ih _ _ hlen ?_ h2
        rw [← hts]
        cases hact : r.action with
        | none => exact ⟨l, hst, hroot⟩
        | push S =>
          refine ⟨S :: l, by simp [applyAction, hst], ?_⟩
          intro hm
          simp only [List.mem_cons] at hm
          rcases hm with hm | hm
          · exact hok.2 p hp r hrp (by rw [hact, ← hm])
          · exact hroot hm
        | pop =>
          cases l with
          | nil =>
            have : top = "Root" := by
              rw [hst] at hts; simp at hts; exact hts.1.symm
            subst this
            exact absurd hact (hok.1 r hmem)
          | cons a l' =>
            refine ⟨l', by simp [applyAction, hst], ?_⟩
            intro hm; exact hroot (by simp [hm])

end RouteGrammar
end Flamego
