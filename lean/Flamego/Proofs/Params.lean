/-
  Proofs/Params.lean — what the matcher of `Model/Tree.lean` leaves in the `Params` list.

  1. writes: `applyWrites`, `lastW` (the value a write list leaves for a key), `zipNamed`
     (the pairs a regex node writes: named groups only), `Pat.caps` (what one pattern captures
     from one segment)
  2. `Walk`: the `Type`-valued reading of `Spec.Dispatch.Reach` (same four constructors, same
     data), with `Walk.leaf`, `Walk.steps` (pattern + segments taken, root to leaf),
     `Walk.binds` (captured pairs, root to leaf) and `Walk.writes` (the same pairs in the order
     the code writes them: a match-all node writes AFTER the search below it returned)
  3. `BindsOK anc subs leaves`: below a node whose ancestors (and itself) bind the names `anc`,
     no node or leaf binds a name of `anc`, or one name twice — the registration invariant
     ("a bind name is used once along a route"); `BindsDistinct t` is `BindsOK []` at the root
  4. `match_frame`: a search below a node never touches a key bound by an ancestor
  5. `match_winner`: the params after a successful search hold, for every pair captured by the
     winning walk, exactly that value (stale values of abandoned branches never shadow it)
-/
import Flamego.Proofs.TreeMatch
import Flamego.Proofs.Assoc
namespace Flamego

/-! ### 1. write lists -/

/-- perform the writes in list order (Go: `params[k] = v`, one after the other) -/
def applyWrites (ws : List (Bytes × Bytes)) (ps : Params) : Params :=
  ws.foldl (fun ps w => ps.set w.1 w.2) ps

/-- the value the LAST write to `k` in `ws` leaves, if `ws` writes `k` at all -/
def lastW : List (Bytes × Bytes) → Bytes → Option Bytes
  | [], _ => none
  | (k', v) :: ws, k =>
    match lastW ws k with
    | some v' => some v'
    | none => if k' = k then some v else none

theorem applyWrites_nil (ps : Params) : applyWrites [] ps = ps := rfl

theorem applyWrites_cons (w : Bytes × Bytes) (ws : List (Bytes × Bytes)) (ps : Params) :
    applyWrites (w :: ws) ps = applyWrites ws (ps.set w.1 w.2) := rfl

theorem applyWrites_append (ws1 ws2 : List (Bytes × Bytes)) (ps : Params) :
    applyWrites (ws1 ++ ws2) ps = applyWrites ws2 (applyWrites ws1 ps) := by
  simp [applyWrites, List.foldl_append]

/-- reading after a list of writes: the last write to the key, else what was there before -/
theorem get?_applyWrites (ws : List (Bytes × Bytes)) (ps : Params) (k : Bytes) :
    (applyWrites ws ps).get? k = (match lastW ws k with | some v => some v | none => ps.get? k) := by
  induction ws generalizing ps with
  | nil => rfl
  | cons w ws ih =>
    obtain ⟨k', v⟩ := w
    rw [applyWrites_cons, ih, lastW]
    cases h : lastW ws k with
    | some v' => rfl
    | none =>
      by_cases hk : k' = k
      · subst hk; simp [Params.get?_set_same]
      · simp only [hk, ↓reduceIte]
        exact Params.get?_set_other ps k' k v (fun e => hk e.symm)

theorem lastW_none_iff (ws : List (Bytes × Bytes)) (k : Bytes) :
    lastW ws k = none ↔ k ∉ ws.map (·.1) := by
  induction ws with
  | nil => simp [lastW]
  | cons w ws ih =>
    obtain ⟨k', v⟩ := w
    rw [lastW]
    cases h : lastW ws k with
    | some v' =>
      have : k ∈ ws.map (·.1) := by
        apply Classical.byContradiction
        intro hn; rw [← ih, h] at hn; cases hn
      simp [this]
    | none =>
      have hn := ih.mp h
      by_cases hk : k' = k
      · simp [hk]
      · simp only [hk, ↓reduceIte, List.map_cons, List.mem_cons, not_or, true_iff]
        exact ⟨fun e => hk e.symm, hn⟩

/-- with pairwise different keys every listed pair is the last write to its key -/
theorem lastW_of_nodup (ws : List (Bytes × Bytes)) (hd : (ws.map (·.1)).Nodup) (k v : Bytes)
    (h : (k, v) ∈ ws) : lastW ws k = some v := by
  induction ws with
  | nil => cases h
  | cons w ws ih =>
    obtain ⟨k', v'⟩ := w
    rw [List.map_cons, List.nodup_cons] at hd
    rw [lastW]
    rcases List.mem_cons.mp h with heq | hmem
    · injection heq with h1 h2
      subst h1 h2
      rw [(lastW_none_iff ws k).mpr hd.1]
      simp
    · rw [ih hd.2 hmem]

theorem get?_applyWrites_of_nodup (ws : List (Bytes × Bytes)) (hd : (ws.map (·.1)).Nodup)
    (ps : Params) (k v : Bytes) (h : (k, v) ∈ ws) : (applyWrites ws ps).get? k = some v := by
  rw [get?_applyWrites, lastW_of_nodup ws hd k v h]

theorem get?_applyWrites_other (ws : List (Bytes × Bytes)) (ps : Params) (k : Bytes)
    (h : k ∉ ws.map (·.1)) : (applyWrites ws ps).get? k = ps.get? k := by
  rw [get?_applyWrites, (lastW_none_iff ws k).mpr h]

/-- the pairs a regex node writes: bind `i` gets submatch `i` (of `subm.drop 1`); groups that
    belong to the user's own expression have the empty name and are skipped -/
def zipNamed : List Bytes → List Bytes → List (Bytes × Bytes)
  | b :: bs, v :: vs => if b = [] then zipNamed bs vs else (b, v) :: zipNamed bs vs
  | _, _ => []

theorem writeBinds_eq (bs vs : List Bytes) (ps : Params) :
    treeMatch.writeBinds bs vs ps = applyWrites (zipNamed bs vs) ps := by
  induction bs generalizing vs ps with
  | nil => simp [treeMatch.writeBinds, zipNamed, applyWrites]
  | cons b bs ih =>
    cases vs with
    | nil => simp [treeMatch.writeBinds, zipNamed, applyWrites]
    | cons v vs =>
      rw [treeMatch.writeBinds, zipNamed, ih]
      by_cases hb : b = []
      · simp [hb]
      · simp only [hb, ↓reduceIte]; rfl

theorem zipNamed_keys_sublist (bs vs : List Bytes) :
    ((zipNamed bs vs).map (·.1)).Sublist (bs.filter (· ≠ [])) := by
  induction bs generalizing vs with
  | nil => simp [zipNamed]
  | cons b bs ih =>
    cases vs with
    | nil => simp [zipNamed]
    | cons v vs =>
      rw [zipNamed]
      by_cases hb : b = []
      · simp only [hb, ↓reduceIte, ne_eq, not_true_eq_false, decide_false, Bool.false_eq_true,
          not_false_eq_true, List.filter_cons_of_neg]
        exact ih vs
      · simp only [hb, ↓reduceIte, List.map_cons, ne_eq, not_false_eq_true, decide_true,
          List.filter_cons_of_pos]
        exact (ih vs).cons_cons b

/-! ### what one pattern captures from one segment -/

/-- the pairs a node or leaf with pattern `p` writes when it takes the text `s`
    (a match-all leaf at the last segment takes that one segment) -/
def Pat.caps (E : Engine) : Pat → Seg → List (Bytes × Bytes)
  | .static _, _ => []
  | .hole b, s => [(b, s)]
  | .all b _, s => [(b, s)]
  | .regex p bs, s =>
    match E.find p s with
    | some subm => zipNamed bs (subm.drop 1)
    | none => []

theorem Pat.caps_keys_sublist (E : Engine) (p : Pat) (s : Seg) :
    ((p.caps E s).map (·.1)).Sublist p.binds := by
  cases p with
  | static l => simp [Pat.caps, Pat.binds]
  | hole b => simp [Pat.caps, Pat.binds]
  | all b c => simp [Pat.caps, Pat.binds]
  | regex pt bs =>
    simp only [Pat.caps, Pat.binds]
    cases E.find pt s with
    | none => simp
    | some subm => exact zipNamed_keys_sublist bs (subm.drop 1)

theorem Pat.caps_keys_mem (E : Engine) (p : Pat) (s : Seg) (k : Bytes)
    (h : k ∈ (p.caps E s).map (·.1)) : k ∈ p.binds :=
  (Pat.caps_keys_sublist E p s).subset h

theorem Pat.caps_nodup (E : Engine) (p : Pat) (s : Seg) (h : p.binds.Nodup) :
    ((p.caps E s).map (·.1)).Nodup :=
  (Pat.caps_keys_sublist E p s).nodup h

/-- a tree node that accepts `s` writes exactly `caps` -/
theorem treeMatch_caps {E : Engine} {p : Pat} {s : Seg} {ps ps1 : Params}
    (h : treeMatch E p s ps = some ps1) : ps1 = applyWrites (p.caps E s) ps := by
  cases p with
  | static lit =>
    simp only [treeMatch] at h
    split at h
    · injection h with h; subst h; rfl
    · cases h
  | hole b =>
    simp only [treeMatch, Option.some.injEq] at h
    subst h; rfl
  | all b c => simp [treeMatch] at h
  | regex pt bs =>
    simp only [treeMatch] at h
    simp only [Pat.caps]
    cases hf : E.find pt s with
    | none => rw [hf] at h; cases h
    | some subm =>
      rw [hf] at h
      simp only at h
      split at h
      · cases h
      · injection h with h
        rw [← h, writeBinds_eq]

/-- a leaf that accepts the last segment `s` writes exactly `caps` -/
theorem leafMatch_caps {E : Engine} {hok : Nat → Bool} {l : Leaf} {s : Seg} {ps ps1 : Params}
    (h : leafMatch E hok l s ps = some ps1) : ps1 = applyWrites (l.pat.caps E s) ps := by
  unfold leafMatch at h
  cases hp : l.pat with
  | static lit =>
    rw [hp] at h
    simp only at h
    split at h
    · injection h with h; subst h; rfl
    · cases h
  | hole b =>
    rw [hp] at h
    simp only at h
    split at h
    · injection h with h; subst h; rfl
    · cases h
  | all b c =>
    rw [hp] at h
    simp only at h
    split at h
    · injection h with h; subst h; rfl
    · cases h
  | regex pt bs =>
    rw [hp] at h
    simp only at h
    simp only [Pat.caps]
    cases hf : E.find pt s with
    | none => rw [hf] at h; cases h
    | some subm =>
      rw [hf] at h
      simp only at h
      split at h
      · cases h
      · split at h
        · cases h
        · injection h with h
          rw [← h, writeBinds_eq]

theorem leafMatch_some_accepts {E : Engine} {hok : Nat → Bool} {l : Leaf} {s : Seg} {ps ps1 : Params}
    (h : leafMatch E hok l s ps = some ps1) : l.pat.acceptsLeaf E s = true ∧ hok l.hid = true := by
  have := leafMatch_isSome E hok l s ps
  rw [h] at this
  simpa using this.symm

/-- `matchLeaves`: the winner is a leaf of the list, and only the winner wrote -/
theorem matchLeaves_some {E : Engine} {hok : Nat → Bool} {leaves : List Leaf} {s : Seg}
    {ps ps' : Params} {l : Leaf} (h : matchLeaves E hok leaves s ps = (some l, ps')) :
    l ∈ leaves ∧ leafMatch E hok l s ps = some ps' := by
  induction leaves with
  | nil => simp [matchLeaves] at h
  | cons l0 ls ih =>
    rw [matchLeaves] at h
    cases hm : leafMatch E hok l0 s ps with
    | some ps1 =>
      rw [hm] at h
      simp only [Prod.mk.injEq, Option.some.injEq] at h
      obtain ⟨rfl, rfl⟩ := h
      exact ⟨List.mem_cons_self .., hm⟩
    | none =>
      rw [hm] at h
      obtain ⟨h1, h2⟩ := ih h
      exact ⟨List.mem_cons_of_mem _ h1, h2⟩

/-- a miss among the leaves writes nothing -/
theorem matchLeaves_none {E : Engine} {hok : Nat → Bool} {leaves : List Leaf} {s : Seg}
    {ps ps' : Params} (h : matchLeaves E hok leaves s ps = (none, ps')) : ps' = ps := by
  induction leaves with
  | nil => simp [matchLeaves] at h; exact h.symm
  | cons l0 ls ih =>
    rw [matchLeaves] at h
    cases hm : leafMatch E hok l0 s ps with
    | some ps1 => rw [hm] at h; simp at h
    | none => rw [hm] at h; exact ih h

/-- `matchAllLeaf`: what a hit means -/
theorem matchAllLeaf_some {hok : Nat → Bool} {leaves : List Leaf} {s : Seg} {rest : List Seg}
    {ps ps' : Params} {l : Leaf} (h : matchAllLeaf hok leaves s rest ps = (some l, ps')) :
    l ∈ leaves ∧ ∃ b cap, l.pat = .all b cap ∧ capOK cap (rest.length + 1) = true ∧
      hok l.hid = true ∧ ps' = ps.set b (joinSlash (s :: rest)) := by
  have hfst : (matchAllLeaf hok leaves s rest ps).1 = some l := by rw [h]
  have hmem := matchAllLeaf_fst_mem hfst
  rw [mem_allLeafDerivs] at hmem
  obtain ⟨hl, b, cap, hp, hc, hh⟩ := hmem
  refine ⟨hl, b, cap, hp, hc, hh, ?_⟩
  unfold matchAllLeaf at h
  cases hg : leaves.getLast? with
  | none => rw [hg] at h; simp at h
  | some l' =>
    rw [hg] at h
    simp only at h
    cases hp' : l'.pat with
    | all b' cap' =>
      rw [hp'] at h
      simp only at h
      split at h
      · simp at h
      · split at h
        · simp at h
        · simp only [Prod.mk.injEq, Option.some.injEq] at h
          obtain ⟨rfl, rfl⟩ := h
          rw [hp'] at hp
          injection hp with h1 h2
          subst h1
          rfl
    | static _ => rw [hp'] at h; simp at h
    | hole _ => rw [hp'] at h; simp at h
    | regex _ _ => rw [hp'] at h; simp at h

/-- a miss of the fall-back writes nothing -/
theorem matchAllLeaf_none {hok : Nat → Bool} {leaves : List Leaf} {s : Seg} {rest : List Seg}
    {ps ps' : Params} (h : matchAllLeaf hok leaves s rest ps = (none, ps')) : ps' = ps := by
  unfold matchAllLeaf at h
  split at h
  · simp at h; exact h.symm
  · split at h
    · split at h
      · simp at h; exact h.symm
      · split at h
        · simp at h; exact h.symm
        · simp at h
    · simp at h; exact h.symm

/-! ### 2. walks as data -/

/-- `Spec.Dispatch.Reach` as data: a root-to-leaf walk that accepts `s :: rest`.
    Same four constructors, same fields (`allSub` states its index equation as a field). -/
inductive Walk (E : Engine) (hok : Nat → Bool) : List Node → List Leaf → Seg → List Seg → Type
  /-- the last segment is taken by a leaf of this node -/
  | leaf (subs : List Node) (leaves : List Leaf) (s : Seg) (l : Leaf) (hl : l ∈ leaves)
      (ha : l.pat.acceptsLeaf E s = true) (hh : hok l.hid = true) : Walk E hok subs leaves s []
  /-- a non-match-all child takes `s`, the walk goes on below it -/
  | sub (subs : List Node) (leaves : List Leaf) (s s' : Seg) (rest' : List Seg)
      (k : Bytes) (p : Pat) (cs : List Node) (cl : List Leaf)
      (hn : Node.mk k p cs cl ∈ subs) (hna : p.isAll = false) (ha : p.acceptsTree E s = true)
      (w : Walk E hok cs cl s' rest') : Walk E hok subs leaves s (s' :: rest')
  /-- a match-all child takes `s` and `skipped` more segments, the walk goes on below it -/
  | allSub (subs : List Node) (leaves : List Leaf) (s : Seg) (rest : List Seg)
      (k b : Bytes) (cap : Int) (cs : List Node) (cl : List Leaf)
      (skipped : List Seg) (s' : Seg) (rest' : List Seg) (heq : rest = skipped ++ s' :: rest')
      (hn : Node.mk k (.all b cap) cs cl ∈ subs) (hc : capOK cap (skipped.length + 1) = true)
      (w : Walk E hok cs cl s' rest') : Walk E hok subs leaves s rest
  /-- the match-all leaf of this node takes `s` and everything after it (at least one more) -/
  | allLeaf (subs : List Node) (leaves : List Leaf) (s s' : Seg) (rest' : List Seg) (l : Leaf)
      (b : Bytes) (cap : Int) (hl : l ∈ leaves) (hp : l.pat = .all b cap)
      (hc : capOK cap (rest'.length + 2) = true) (hh : hok l.hid = true) :
      Walk E hok subs leaves s (s' :: rest')

/-- one step of a walk: the node's (or endLeafs) key and pattern, and the segments it took -/
structure Step where
  key : Bytes
  pat : Pat
  taken : List Seg
  deriving Repr, DecidableEq

/-- what a step captures: a match-all the `/`-join of its segments, any other pattern the
    captures of its single segment (`joinSlash [s] = s`) -/
def Step.caps (E : Engine) (st : Step) : List (Bytes × Bytes) := st.pat.caps E (joinSlash st.taken)

namespace Walk
variable {E : Engine} {hok : Nat → Bool}

/-- the leaf the walk ends in -/
def endLeaf : {subs : List Node} → {leaves : List Leaf} → {s : Seg} → {rest : List Seg} →
    Walk E hok subs leaves s rest → Leaf
  | _, _, _, _, .leaf _ _ _ l _ _ _ => l
  | _, _, _, _, .sub _ _ _ _ _ _ _ _ _ _ _ _ w => w.endLeaf
  | _, _, _, _, .allSub _ _ _ _ _ _ _ _ _ _ _ _ _ _ _ w => w.endLeaf
  | _, _, _, _, .allLeaf _ _ _ _ _ l _ _ _ _ _ _ => l

/-- the steps, root to leaf: which pattern took which segments -/
def steps : {subs : List Node} → {leaves : List Leaf} → {s : Seg} → {rest : List Seg} →
    Walk E hok subs leaves s rest → List Step
  | _, _, _, _, .leaf _ _ s l _ _ _ => [⟨l.key, l.pat, [s]⟩]
  | _, _, _, _, .sub _ _ s _ _ k p _ _ _ _ _ w => ⟨k, p, [s]⟩ :: w.steps
  | _, _, _, _, .allSub _ _ s _ k b cap _ _ skipped _ _ _ _ _ w => ⟨k, .all b cap, s :: skipped⟩ :: w.steps
  | _, _, _, _, .allLeaf _ _ s s' rest' l _ _ _ _ _ _ => [⟨l.key, l.pat, s :: s' :: rest'⟩]

/-- the captured pairs, root to leaf: a placeholder ↦ (bind, its segment); a match-all child
    that took `s :: skipped` ↦ (bind, `joinSlash (s :: skipped)`); the final match-all leaf ↦
    (bind, `joinSlash` of all that is left); a regex ↦ (bindᵢ, submatchᵢ₊₁) for the named
    groups; a static ↦ nothing -/
def binds (w : Walk E hok subs leaves s rest) : List (Bytes × Bytes) := w.steps.flatMap (Step.caps E)

/-- the same pairs in the order the code writes them: a match-all child writes its value after
    the search below it has returned (tree.go `matchAll`) -/
def writes : {subs : List Node} → {leaves : List Leaf} → {s : Seg} → {rest : List Seg} →
    Walk E hok subs leaves s rest → List (Bytes × Bytes)
  | _, _, _, _, .leaf _ _ s l _ _ _ => l.pat.caps E s
  | _, _, _, _, .sub _ _ s _ _ _ p _ _ _ _ _ w => p.caps E s ++ w.writes
  | _, _, _, _, .allSub _ _ s _ _ b _ _ _ skipped _ _ _ _ _ w => w.writes ++ [(b, joinSlash (s :: skipped))]
  | _, _, _, _, .allLeaf _ _ s s' rest' _ b _ _ _ _ _ => [(b, joinSlash (s :: s' :: rest'))]

/-- a walk is a `Reach` derivation -/
theorem toReach : {subs : List Node} → {leaves : List Leaf} → {s : Seg} → {rest : List Seg} →
    (w : Walk E hok subs leaves s rest) → Reach E hok subs leaves s rest w.endLeaf
  | _, _, _, _, .leaf subs leaves s l hl ha hh => Reach.leaf subs leaves s l hl ha hh
  | _, _, _, _, .sub subs leaves s s' rest' k p cs cl hn hna ha w =>
    Reach.sub subs leaves s s' rest' _ k p cs cl hn hna ha w.toReach
  | _, _, _, _, .allSub subs leaves s _ k b cap cs cl skipped s' rest' heq hn hc w => by
    subst heq
    exact Reach.allSub subs leaves s _ k b cap cs cl skipped s' rest' hn hc w.toReach
  | _, _, _, _, .allLeaf subs leaves s s' rest' l b cap hl hp hc hh =>
    Reach.allLeaf subs leaves s s' rest' l b cap hl hp hc hh

end Walk

/-- every `Reach` derivation is (the erasure of) a walk -/
theorem Reach.toWalk {E : Engine} {hok : Nat → Bool} {subs : List Node} {leaves : List Leaf}
    {s : Seg} {rest : List Seg} {l : Leaf} (h : Reach E hok subs leaves s rest l) :
    ∃ w : Walk E hok subs leaves s rest, w.endLeaf = l := by
  induction h with
  | leaf subs leaves s l hl ha hh => exact ⟨.leaf subs leaves s l hl ha hh, rfl⟩
  | sub subs leaves s s' rest' l k p cs cl hn hna ha _ ih =>
    obtain ⟨w, hw⟩ := ih
    exact ⟨.sub subs leaves s s' rest' k p cs cl hn hna ha w, hw⟩
  | allSub subs leaves s l k b cap cs cl skipped s' rest' hn hc _ ih =>
    obtain ⟨w, hw⟩ := ih
    exact ⟨.allSub subs leaves s _ k b cap cs cl skipped s' rest' rfl hn hc w, hw⟩
  | allLeaf subs leaves s s' rest' l b cap hl hp hc hh =>
    exact ⟨.allLeaf subs leaves s s' rest' l b cap hl hp hc hh, rfl⟩

/-! ### 3. the registration invariant on bind names -/

/-- below a node whose ancestors and itself bind the names `anc`: no leaf and no child binds one
    of them or one name twice, and so on below every child (whose own binds join `anc`) -/
inductive BindsOK : List Bytes → List Node → List Leaf → Prop
  | mk (anc : List Bytes) (subs : List Node) (leaves : List Leaf)
      (hl : ∀ l ∈ leaves, l.pat.binds.Nodup ∧ ∀ b ∈ l.pat.binds, b ∉ anc)
      (hs : ∀ k p cs cl, Node.mk k p cs cl ∈ subs → p.binds.Nodup ∧ ∀ b ∈ p.binds, b ∉ anc)
      (hc : ∀ k p cs cl, Node.mk k p cs cl ∈ subs → BindsOK (p.binds ++ anc) cs cl) :
      BindsOK anc subs leaves

/-- bind names are pairwise distinct along every root-to-leaf path of the tree -/
def BindsDistinct (t : Node) : Prop := BindsOK [] t.subs t.leaves

theorem BindsOK.leafOK {anc subs leaves} (h : BindsOK anc subs leaves) {l : Leaf} (hl : l ∈ leaves) :
    l.pat.binds.Nodup ∧ ∀ b ∈ l.pat.binds, b ∉ anc := by
  cases h with | mk _ _ _ h1 _ _ => exact h1 l hl

theorem BindsOK.subOK {anc subs leaves} (h : BindsOK anc subs leaves) {k p cs cl}
    (hn : Node.mk k p cs cl ∈ subs) : p.binds.Nodup ∧ ∀ b ∈ p.binds, b ∉ anc := by
  cases h with | mk _ _ _ _ h2 _ => exact h2 k p cs cl hn

theorem BindsOK.child {anc subs leaves} (h : BindsOK anc subs leaves) {k p cs cl}
    (hn : Node.mk k p cs cl ∈ subs) : BindsOK (p.binds ++ anc) cs cl := by
  cases h with | mk _ _ _ _ _ h3 => exact h3 k p cs cl hn

theorem BindsOK.empty (anc : List Bytes) : BindsOK anc [] [] :=
  .mk anc [] [] (fun _ h => by cases h) (fun _ _ _ _ h => by cases h) (fun _ _ _ _ h => by cases h)

/-- under the invariant the names a walk binds are pairwise different and none is an ancestor's:
    "each bind of the winning walk is written exactly once on the walk" -/
theorem Walk.binds_keys {E : Engine} {hok : Nat → Bool} :
    {subs : List Node} → {leaves : List Leaf} → {s : Seg} → {rest : List Seg} →
    (w : Walk E hok subs leaves s rest) → (anc : List Bytes) → BindsOK anc subs leaves →
    (w.binds.map (·.1)).Nodup ∧ ∀ k ∈ w.binds.map (·.1), k ∉ anc
  | _, _, _, _, .leaf subs leaves s l hl ha hh, anc, hb => by
    obtain ⟨h1, h2⟩ := hb.leafOK hl
    simp only [Walk.binds, Walk.steps, List.flatMap_cons, List.flatMap_nil, List.append_nil, Step.caps]
    exact ⟨Pat.caps_nodup E _ _ h1, fun k hk => h2 k (Pat.caps_keys_mem E _ _ k hk)⟩
  | _, _, _, _, .allLeaf subs leaves s s' rest' l b cap hl hp hc hh, anc, hb => by
    obtain ⟨h1, h2⟩ := hb.leafOK hl
    simp only [Walk.binds, Walk.steps, List.flatMap_cons, List.flatMap_nil, List.append_nil, Step.caps]
    exact ⟨Pat.caps_nodup E _ _ h1, fun k hk => h2 k (Pat.caps_keys_mem E _ _ k hk)⟩
  | _, _, _, _, .sub subs leaves s s' rest' k p cs cl hn hna ha w, anc, hb => by
    obtain ⟨h1, h2⟩ := hb.subOK hn
    obtain ⟨i1, i2⟩ := w.binds_keys (p.binds ++ anc) (hb.child hn)
    have hstep : (Walk.sub subs leaves s s' rest' k p cs cl hn hna ha w).binds =
        p.caps E (joinSlash [s]) ++ w.binds := by
      simp [Walk.binds, Walk.steps, Step.caps]
    rw [hstep, List.map_append]
    refine ⟨List.nodup_append.mpr ⟨Pat.caps_nodup E _ _ h1, i1, ?_⟩, ?_⟩
    · intro a ha' b hb' hab
      subst hab
      exact i2 a hb' (List.mem_append_left _ (Pat.caps_keys_mem E _ _ a ha'))
    · intro a ha'
      rcases List.mem_append.mp ha' with h | h
      · exact h2 a (Pat.caps_keys_mem E _ _ a h)
      · exact fun hx => i2 a h (List.mem_append_right _ hx)
  | _, _, _, _, .allSub subs leaves s rest k b cap cs cl skipped s' rest' heq hn hc w, anc, hb => by
    obtain ⟨h1, h2⟩ := hb.subOK hn
    obtain ⟨i1, i2⟩ := w.binds_keys ((Pat.all b cap).binds ++ anc) (hb.child hn)
    have hstep : (Walk.allSub subs leaves s rest k b cap cs cl skipped s' rest' heq hn hc w).binds =
        (Pat.all b cap).caps E (joinSlash (s :: skipped)) ++ w.binds := by
      simp [Walk.binds, Walk.steps, Step.caps]
    rw [hstep, List.map_append]
    refine ⟨List.nodup_append.mpr ⟨Pat.caps_nodup E _ _ h1, i1, ?_⟩, ?_⟩
    · intro a ha' b' hb' hab
      subst hab
      exact i2 a hb' (List.mem_append_left _ (Pat.caps_keys_mem E _ _ a ha'))
    · intro a ha'
      rcases List.mem_append.mp ha' with h | h
      · exact h2 a (Pat.caps_keys_mem E _ _ a h)
      · exact fun hx => i2 a h (List.mem_append_right _ hx)

/-! ### 4. the frame: a search never touches a key bound by an ancestor -/

theorem isAll_false_of_ne {p : Pat} (hna : ∀ (b : Bytes) (cap : Int), p = .all b cap → False) :
    p.isAll = false := by
  cases p with
  | all b c => exact (hna b c rfl).elim
  | _ => rfl

theorem match_frame (E : Engine) (hok : Nat → Bool) :
    (∀ subs leaves s rest ps, ∀ anc, BindsOK anc subs leaves → ∀ k ∈ anc,
        (matchNext E hok subs leaves s rest ps).2.get? k = ps.get? k) ∧
    (∀ subs leaves s s' rest' ps, ∀ anc subs0, (∀ n ∈ subs, n ∈ subs0) → BindsOK anc subs0 leaves →
        ∀ k ∈ anc, (matchSubs E hok subs leaves s s' rest' ps).2.get? k = ps.get? k) ∧
    (∀ csubs cleaves b cap captured acc s' rest' ps, ∀ anc, BindsOK anc csubs cleaves →
        ∀ k ∈ anc, k ≠ b →
        (matchAllLoop E hok csubs cleaves b cap captured acc s' rest' ps).2.get? k = ps.get? k) := by
  refine matchNext.mutual_induct E hok
    (motive1 := fun subs leaves s rest ps => ∀ anc, BindsOK anc subs leaves → ∀ k ∈ anc,
        (matchNext E hok subs leaves s rest ps).2.get? k = ps.get? k)
    (motive2 := fun subs leaves s s' rest' ps => ∀ anc subs0, (∀ n ∈ subs, n ∈ subs0) →
        BindsOK anc subs0 leaves →
        ∀ k ∈ anc, (matchSubs E hok subs leaves s s' rest' ps).2.get? k = ps.get? k)
    (motive3 := fun csubs cleaves b cap captured acc s' rest' ps => ∀ anc, BindsOK anc csubs cleaves →
        ∀ k ∈ anc, k ≠ b →
        (matchAllLoop E hok csubs cleaves b cap captured acc s' rest' ps).2.get? k = ps.get? k)
    ?_ ?_ ?_ ?_ ?_ ?_ ?_ ?_ ?_ ?_ ?_ ?_
  · -- matchNext, last segment: only the winning leaf writes, its own binds
    intro subs leaves s ps anc hb k hk
    rw [matchNext]
    cases hm : matchLeaves E hok leaves s ps with
    | mk r ps' =>
      cases r with
      | none => rw [matchLeaves_none hm]
      | some l =>
        obtain ⟨hl, hlm⟩ := matchLeaves_some hm
        rw [leafMatch_caps hlm]
        apply get?_applyWrites_other
        intro hx
        exact (hb.leafOK hl).2 k (Pat.caps_keys_mem E _ _ k hx) hk
  · intro subs leaves s ps s' rest' ih anc hb k hk
    rw [matchNext]
    exact ih anc subs (fun _ h => h) hb k hk
  · -- the fall-back
    intro leaves s s' rest' ps anc subs0 _ hb k hk
    rw [matchSubs]
    cases hm : matchAllLeaf hok leaves s (s' :: rest') ps with
    | mk r ps' =>
      cases r with
      | none => rw [matchAllLeaf_none hm]
      | some l =>
        obtain ⟨hl, b, cap, hp, _, _, rfl⟩ := matchAllLeaf_some hm
        apply Params.get?_set_other
        intro hkb
        exact (hb.leafOK hl).2 b (by rw [hp]; simp [Pat.binds]) (hkb ▸ hk)
  · -- match-all child, found below it
    intro leaves s s' rest' ps key csubs cleaves more b cap l ps' hm ih anc subs0 hsub hb k hk
    have hn := hsub _ (List.mem_cons_self ..)
    have hkb : k ≠ b := fun e => (hb.subOK hn).2 b (by simp [Pat.binds]) (e ▸ hk)
    have h3 := ih (Pat.binds (.all b cap) ++ anc) (hb.child hn) k (List.mem_append_right _ hk) hkb
    rw [hm] at h3
    rw [matchSubs, hm]
    exact h3
  · -- match-all child, nothing below it: the fall-back
    intro leaves s s' rest' ps key csubs cleaves more b cap ps' hm ih anc subs0 hsub hb k hk
    have hn := hsub _ (List.mem_cons_self ..)
    have hkb : k ≠ b := fun e => (hb.subOK hn).2 b (by simp [Pat.binds]) (e ▸ hk)
    have h3 := ih (Pat.binds (.all b cap) ++ anc) (hb.child hn) k (List.mem_append_right _ hk) hkb
    rw [hm] at h3
    rw [matchSubs, hm]
    simp only at h3 ⊢
    rw [← h3]
    cases hm2 : matchAllLeaf hok leaves s (s' :: rest') ps' with
    | mk r ps2 =>
      cases r with
      | none => rw [matchAllLeaf_none hm2]
      | some l =>
        obtain ⟨hl, b2, cap2, hp, _, _, rfl⟩ := matchAllLeaf_some hm2
        apply Params.get?_set_other
        intro hkb2
        exact (hb.leafOK hl).2 b2 (by rw [hp]; simp [Pat.binds]) (hkb2 ▸ hk)
  · -- other child, does not accept `s`
    intro leaves s s' rest' ps key cpat csubs cleaves more hm hna ih anc subs0 hsub hb k hk
    rw [matchSubs_cons_notAll _ _ _ _ _ _ _ _ _ _ _ _ (isAll_false_of_ne hna), hm]
    exact ih anc subs0 (fun n h => hsub n (List.mem_cons_of_mem _ h)) hb k hk
  · -- other child accepts `s`, found below it
    intro leaves s s' rest' ps key cpat csubs cleaves more ps1 hm l ps' hn hna ih anc subs0 hsub hb k hk
    have hmem := hsub _ (List.mem_cons_self ..)
    rw [matchSubs_cons_notAll _ _ _ _ _ _ _ _ _ _ _ _ (isAll_false_of_ne hna), hm]
    simp only [hn]
    have h1 := ih (cpat.binds ++ anc) (hb.child hmem) k (List.mem_append_right _ hk)
    rw [hn] at h1
    rw [h1, treeMatch_caps hm]
    apply get?_applyWrites_other
    intro hx
    exact (hb.subOK hmem).2 k (Pat.caps_keys_mem E _ _ k hx) hk
  · -- other child accepts `s`, nothing below it
    intro leaves s s' rest' ps key cpat csubs cleaves more ps1 hm ps' hn hna ih1 ih2 anc subs0 hsub hb k hk
    have hmem := hsub _ (List.mem_cons_self ..)
    rw [matchSubs_cons_notAll _ _ _ _ _ _ _ _ _ _ _ _ (isAll_false_of_ne hna), hm]
    simp only [hn]
    rw [ih2 anc subs0 (fun n h => hsub n (List.mem_cons_of_mem _ h)) hb k hk]
    have h1 := ih1 (cpat.binds ++ anc) (hb.child hmem) k (List.mem_append_right _ hk)
    rw [hn] at h1
    rw [h1, treeMatch_caps hm]
    apply get?_applyWrites_other
    intro hx
    exact (hb.subOK hmem).2 k (Pat.caps_keys_mem E _ _ k hx) hk
  · -- matchAllLoop, found below
    intro csubs cleaves b cap captured acc s' rest' ps hc l ps' hn ih anc hb k hk hkb
    have hc' : capOK cap captured = true := hc
    rw [matchAllLoop_step, if_pos hc', hn]
    have h1 := ih anc hb k hk
    rw [hn] at h1
    simp only at h1 ⊢
    rw [Params.get?_set_other _ _ _ _ hkb, h1]
  · intro csubs cleaves b cap captured acc s' ps hc ps' hn ih anc hb k hk hkb
    have hc' : capOK cap captured = true := hc
    rw [matchAllLoop_step, if_pos hc', hn]
    have h1 := ih anc hb k hk
    rw [hn] at h1
    exact h1
  · intro csubs cleaves b cap captured acc s' ps hc ps' s'' rest'' hn ih1 ih3 anc hb k hk hkb
    have hc' : capOK cap captured = true := hc
    rw [matchAllLoop_step, if_pos hc', hn]
    have h1 := ih1 anc hb k hk
    rw [hn] at h1
    simp only at h1 ⊢
    rw [ih3 anc hb k hk hkb, h1]
  · intro csubs cleaves b cap captured acc s' rest' ps hc anc hb k hk hkb
    have hc' : ¬ capOK cap captured = true := hc
    rw [matchAllLoop_step, if_neg hc']

/-! ### 5. the winner's values -/

/-- the accumulator of `matchAll`: `acc`, then `"/" + segment` for every swallowed segment -/
def accJoin (acc : Seg) (skipped : List Seg) : Seg := skipped.foldl (fun a x => a ++ slash :: x) acc

theorem joinSlash_snoc (a : Seg) (l : List Seg) (x : Seg) :
    joinSlash (a :: l) ++ slash :: x = joinSlash (a :: (l ++ [x])) := by
  induction l generalizing a with
  | nil => simp [joinSlash]
  | cons b l ih =>
    have h1 : joinSlash (a :: b :: l) = a ++ slash :: joinSlash (b :: l) := rfl
    have h2 : joinSlash (a :: (b :: l ++ [x])) = a ++ slash :: joinSlash (b :: (l ++ [x])) := rfl
    rw [h1, h2, ← ih b]
    simp

theorem accJoin_joinSlash (a : Seg) (l1 l2 : List Seg) :
    accJoin (joinSlash (a :: l1)) l2 = joinSlash (a :: (l1 ++ l2)) := by
  induction l2 generalizing l1 with
  | nil => simp [accJoin]
  | cons x l2 ih =>
    have : accJoin (joinSlash (a :: l1)) (x :: l2) = accJoin (joinSlash (a :: l1) ++ slash :: x) l2 := rfl
    rw [this, joinSlash_snoc, ih]
    simp

theorem accJoin_seg (s : Seg) (skipped : List Seg) : accJoin s skipped = joinSlash (s :: skipped) := by
  have := accJoin_joinSlash s [] skipped
  simpa [joinSlash] using this

theorem Walk.binds_leaf {E : Engine} {hok : Nat → Bool} (subs leaves s l hl ha hh) :
    (Walk.leaf (E := E) (hok := hok) subs leaves s l hl ha hh).binds = l.pat.caps E s := by
  simp [Walk.binds, Walk.steps, Step.caps, joinSlash]

theorem Walk.binds_allLeaf {E : Engine} {hok : Nat → Bool} (subs leaves s s' rest' l b cap hl hp hc hh) :
    (Walk.allLeaf (E := E) (hok := hok) subs leaves s s' rest' l b cap hl hp hc hh).binds =
      [(b, joinSlash (s :: s' :: rest'))] := by
  simp [Walk.binds, Walk.steps, Step.caps, hp, Pat.caps]

theorem Walk.binds_sub {E : Engine} {hok : Nat → Bool} (subs leaves s s' rest' k p cs cl hn hna ha)
    (w : Walk E hok cs cl s' rest') :
    (Walk.sub subs leaves s s' rest' k p cs cl hn hna ha w).binds = p.caps E s ++ w.binds := by
  simp [Walk.binds, Walk.steps, Step.caps, joinSlash]

theorem Walk.binds_allSub {E : Engine} {hok : Nat → Bool}
    (subs leaves s rest k b cap cs cl skipped s' rest' heq hn hc) (w : Walk E hok cs cl s' rest') :
    (Walk.allSub subs leaves s rest k b cap cs cl skipped s' rest' heq hn hc w).binds =
      (b, joinSlash (s :: skipped)) :: w.binds := by
  simp [Walk.binds, Walk.steps, Step.caps, Pat.caps]

/-- what a walk's captured pairs mean for a params list: every pair is what `get?` returns -/
def Holds (ps : Params) (bvs : List (Bytes × Bytes)) : Prop := ∀ bv ∈ bvs, ps.get? bv.1 = some bv.2

theorem match_winner (E : Engine) (hok : Nat → Bool) :
    (∀ subs leaves s rest ps, ∀ anc, BindsOK anc subs leaves → ∀ l ps',
        matchNext E hok subs leaves s rest ps = (some l, ps') →
        ∃ w : Walk E hok subs leaves s rest, w.endLeaf = l ∧ Holds ps' w.binds) ∧
    (∀ subs leaves s s' rest' ps, ∀ anc subs0, (∀ n ∈ subs, n ∈ subs0) → BindsOK anc subs0 leaves →
        ∀ l ps', matchSubs E hok subs leaves s s' rest' ps = (some l, ps') →
        ∃ w : Walk E hok subs0 leaves s (s' :: rest'), w.endLeaf = l ∧ Holds ps' w.binds) ∧
    (∀ csubs cleaves b cap captured acc s' rest' ps, ∀ anc, BindsOK anc csubs cleaves → b ∈ anc →
        ∀ l ps', matchAllLoop E hok csubs cleaves b cap captured acc s' rest' ps = (some l, ps') →
        ∃ skipped t u, s' :: rest' = skipped ++ t :: u ∧ capOK cap (captured + skipped.length) = true ∧
          ps'.get? b = some (accJoin acc skipped) ∧
          ∃ w : Walk E hok csubs cleaves t u, w.endLeaf = l ∧ Holds ps' w.binds) := by
  refine matchNext.mutual_induct E hok
    (motive1 := fun subs leaves s rest ps => ∀ anc, BindsOK anc subs leaves → ∀ l ps',
        matchNext E hok subs leaves s rest ps = (some l, ps') →
        ∃ w : Walk E hok subs leaves s rest, w.endLeaf = l ∧ Holds ps' w.binds)
    (motive2 := fun subs leaves s s' rest' ps => ∀ anc subs0, (∀ n ∈ subs, n ∈ subs0) →
        BindsOK anc subs0 leaves →
        ∀ l ps', matchSubs E hok subs leaves s s' rest' ps = (some l, ps') →
        ∃ w : Walk E hok subs0 leaves s (s' :: rest'), w.endLeaf = l ∧ Holds ps' w.binds)
    (motive3 := fun csubs cleaves b cap captured acc s' rest' ps => ∀ anc, BindsOK anc csubs cleaves →
        b ∈ anc →
        ∀ l ps', matchAllLoop E hok csubs cleaves b cap captured acc s' rest' ps = (some l, ps') →
        ∃ skipped t u, s' :: rest' = skipped ++ t :: u ∧ capOK cap (captured + skipped.length) = true ∧
          ps'.get? b = some (accJoin acc skipped) ∧
          ∃ w : Walk E hok csubs cleaves t u, w.endLeaf = l ∧ Holds ps' w.binds)
    ?_ ?_ ?_ ?_ ?_ ?_ ?_ ?_ ?_ ?_ ?_ ?_
  · -- matchNext, last segment
    intro subs leaves s ps anc hb l ps' h
    rw [matchNext] at h
    obtain ⟨hl, hlm⟩ := matchLeaves_some h
    obtain ⟨ha, hh⟩ := leafMatch_some_accepts hlm
    refine ⟨.leaf subs leaves s l hl ha hh, rfl, ?_⟩
    rw [Walk.binds_leaf, leafMatch_caps hlm]
    intro bv hbv
    exact get?_applyWrites_of_nodup _ (Pat.caps_nodup E _ _ (hb.leafOK hl).1) ps bv.1 bv.2 hbv
  · intro subs leaves s ps s' rest' ih anc hb l ps' h
    rw [matchNext] at h
    exact ih anc subs (fun _ h => h) hb l ps' h
  · -- the fall-back
    intro leaves s s' rest' ps anc subs0 _ hb l ps' h
    rw [matchSubs] at h
    obtain ⟨hl, b, cap, hp, hc, hh, rfl⟩ := matchAllLeaf_some h
    refine ⟨.allLeaf subs0 leaves s s' rest' l b cap hl hp hc hh, rfl, ?_⟩
    rw [Walk.binds_allLeaf]
    intro bv hbv
    rw [List.mem_singleton] at hbv
    subst hbv
    exact Params.get?_set_same _ _ _
  · -- match-all child, found below it
    intro leaves s s' rest' ps key csubs cleaves more b cap l ps' hm ih anc subs0 hsub hb l0 ps0 h
    have hn := hsub _ (List.mem_cons_self ..)
    rw [matchSubs, hm] at h
    simp only [Prod.mk.injEq, Option.some.injEq] at h
    obtain ⟨rfl, rfl⟩ := h
    obtain ⟨skipped, t, u, heq, hc, hval, w, hw, hholds⟩ :=
      ih (Pat.binds (.all b cap) ++ anc) (hb.child hn) (by simp [Pat.binds]) l ps' hm
    have hc2 : capOK cap (skipped.length + 1) = true := by rw [Nat.add_comm]; exact hc
    refine ⟨.allSub subs0 leaves s (s' :: rest') key b cap csubs cleaves skipped t u heq hn hc2 w, hw, ?_⟩
    rw [Walk.binds_allSub]
    intro bv hbv
    rcases List.mem_cons.mp hbv with rfl | hbv
    · rw [hval, accJoin_seg]
    · exact hholds bv hbv
  · -- match-all child, nothing below it: the fall-back
    intro leaves s s' rest' ps key csubs cleaves more b cap ps1 hm ih anc subs0 hsub hb l ps' h
    rw [matchSubs, hm] at h
    simp only at h
    obtain ⟨hl, b2, cap2, hp, hc, hh, rfl⟩ := matchAllLeaf_some h
    refine ⟨.allLeaf subs0 leaves s s' rest' l b2 cap2 hl hp hc hh, rfl, ?_⟩
    rw [Walk.binds_allLeaf]
    intro bv hbv
    rw [List.mem_singleton] at hbv
    subst hbv
    exact Params.get?_set_same _ _ _
  · -- other child, does not accept `s`
    intro leaves s s' rest' ps key cpat csubs cleaves more hm hna ih anc subs0 hsub hb l ps' h
    rw [matchSubs_cons_notAll _ _ _ _ _ _ _ _ _ _ _ _ (isAll_false_of_ne hna), hm] at h
    exact ih anc subs0 (fun n h => hsub n (List.mem_cons_of_mem _ h)) hb l ps' h
  · -- other child accepts `s`, found below it
    intro leaves s s' rest' ps key cpat csubs cleaves more ps1 hm l ps2 hn hna ih anc subs0 hsub hb l0 ps0 h
    have hmem := hsub _ (List.mem_cons_self ..)
    have hna' := isAll_false_of_ne hna
    rw [matchSubs_cons_notAll _ _ _ _ _ _ _ _ _ _ _ _ hna', hm] at h
    simp only [hn, Prod.mk.injEq, Option.some.injEq] at h
    obtain ⟨rfl, rfl⟩ := h
    obtain ⟨w, hw, hholds⟩ := ih (cpat.binds ++ anc) (hb.child hmem) l ps2 hn
    refine ⟨.sub subs0 leaves s s' rest' key cpat csubs cleaves hmem hna' (treeMatch_some_accepts hm) w,
      hw, ?_⟩
    rw [Walk.binds_sub]
    intro bv hbv
    rcases List.mem_append.mp hbv with hbv | hbv
    · have hk : bv.1 ∈ cpat.binds :=
        Pat.caps_keys_mem E _ _ _ (List.mem_map.mpr ⟨bv, hbv, rfl⟩)
      have hf := (match_frame E hok).1 csubs cleaves s' rest' ps1 (cpat.binds ++ anc) (hb.child hmem)
        bv.1 (List.mem_append_left _ hk)
      rw [hn] at hf
      rw [hf, treeMatch_caps hm]
      exact get?_applyWrites_of_nodup _ (Pat.caps_nodup E _ _ (hb.subOK hmem).1) ps bv.1 bv.2 hbv
    · exact hholds bv hbv
  · -- other child accepts `s`, nothing below it
    intro leaves s s' rest' ps key cpat csubs cleaves more ps1 hm ps2 hn hna ih1 ih2 anc subs0 hsub hb l ps' h
    rw [matchSubs_cons_notAll _ _ _ _ _ _ _ _ _ _ _ _ (isAll_false_of_ne hna), hm] at h
    simp only [hn] at h
    exact ih2 anc subs0 (fun n h => hsub n (List.mem_cons_of_mem _ h)) hb l ps' h
  · -- matchAllLoop, found below
    intro csubs cleaves b cap captured acc s' rest' ps hc l ps1 hn ih anc hb hba l0 ps0 h
    have hc' : capOK cap captured = true := hc
    rw [matchAllLoop_step, if_pos hc', hn] at h
    simp only [Prod.mk.injEq, Option.some.injEq] at h
    obtain ⟨rfl, rfl⟩ := h
    obtain ⟨w, hw, hholds⟩ := ih anc hb l ps1 hn
    refine ⟨[], s', rest', rfl, by simpa using hc', Params.get?_set_same _ _ _, w, hw, ?_⟩
    intro bv hbv
    have hne : bv.1 ≠ b := fun e =>
      (w.binds_keys anc hb).2 bv.1 (List.mem_map.mpr ⟨bv, hbv, rfl⟩) (e ▸ hba)
    rw [Params.get?_set_other _ _ _ _ hne]
    exact hholds bv hbv
  · intro csubs cleaves b cap captured acc s' ps hc ps1 hn ih anc hb hba l ps' h
    have hc' : capOK cap captured = true := hc
    rw [matchAllLoop_step, if_pos hc', hn] at h
    simp at h
  · -- swallow one more segment
    intro csubs cleaves b cap captured acc s' ps hc ps1 s'' rest'' hn ih1 ih3 anc hb hba l ps' h
    have hc' : capOK cap captured = true := hc
    rw [matchAllLoop_step, if_pos hc', hn] at h
    simp only at h
    obtain ⟨skipped, t, u, heq, hcap, hval, w, hw, hholds⟩ := ih3 anc hb hba l ps' h
    refine ⟨s' :: skipped, t, u, by rw [heq]; rfl, ?_, hval, w, hw, hholds⟩
    rw [List.length_cons, ← Nat.add_assoc, Nat.add_right_comm]
    exact hcap
  · intro csubs cleaves b cap captured acc s' rest' ps hc anc hb hba l ps' h
    have hc' : ¬ capOK cap captured = true := hc
    rw [matchAllLoop_step, if_neg hc'] at h
    simp at h

/-! ### 6. the shape of a walk -/

theorem acceptsLeaf_of_acceptsTree {E : Engine} {p : Pat} {x : Seg} (h : p.acceptsTree E x = true) :
    p.acceptsLeaf E x = true := by
  cases p with
  | static l => exact h
  | hole b => rfl
  | all b c => simp [Pat.acceptsTree] at h
  | regex pt bs =>
    simp only [Pat.acceptsTree, Pat.acceptsLeaf] at h ⊢
    cases hf : E.find pt x with
    | none => rw [hf] at h; cases h
    | some subm =>
      rw [hf] at h
      simp only [decide_eq_true_eq] at h ⊢
      omega

/-- what every step of a walk satisfies: a pattern that is no match-all took exactly one segment
    and accepts it; a match-all took at least one segment and at most its capture limit -/
structure StepOK (E : Engine) (st : Step) : Prop where
  single : st.pat.isAll = false → ∃ x, st.taken = [x] ∧ st.pat.acceptsLeaf E x = true
  all : ∀ b cap, st.pat = .all b cap → st.taken ≠ [] ∧ capOK cap st.taken.length = true

namespace Walk
variable {E : Engine} {hok : Nat → Bool}

theorem steps_ok : {subs : List Node} → {leaves : List Leaf} → {s : Seg} → {rest : List Seg} →
    (w : Walk E hok subs leaves s rest) → ∀ st ∈ w.steps, StepOK E st
  | _, _, _, _, .leaf subs leaves s l hl ha hh => by
    intro st hst
    simp only [steps, List.mem_singleton] at hst
    subst hst
    exact ⟨fun _ => ⟨s, rfl, ha⟩, fun b cap _ => ⟨by simp, capOK_one cap⟩⟩
  | _, _, _, _, .sub subs leaves s s' rest' k p cs cl hn hna ha w => by
    intro st hst
    simp only [steps, List.mem_cons] at hst
    rcases hst with rfl | hst
    · refine ⟨fun _ => ⟨s, rfl, acceptsLeaf_of_acceptsTree ha⟩, fun b cap hp => ?_⟩
      simp only at hp
      rw [hp] at hna
      cases hna
    · exact w.steps_ok st hst
  | _, _, _, _, .allSub subs leaves s rest k b cap cs cl skipped s' rest' heq hn hc w => by
    intro st hst
    simp only [steps, List.mem_cons] at hst
    rcases hst with rfl | hst
    · refine ⟨fun h => by simp [Pat.isAll] at h, fun b' cap' hp => ?_⟩
      simp only [Pat.all.injEq] at hp
      obtain ⟨_, rfl⟩ := hp
      exact ⟨by simp, by simpa using hc⟩
    · exact w.steps_ok st hst
  | _, _, _, _, .allLeaf subs leaves s s' rest' l b cap hl hp hc hh => by
    intro st hst
    simp only [steps, List.mem_singleton] at hst
    subst hst
    refine ⟨fun h => ?_, fun b' cap' hp' => ?_⟩
    · simp only [hp, Pat.isAll] at h
      cases h
    · simp only [hp, Pat.all.injEq] at hp'
      obtain ⟨_, rfl⟩ := hp'
      exact ⟨by simp, by simpa using hc⟩

/-- the steps partition the request's segments, in order -/
theorem steps_taken : {subs : List Node} → {leaves : List Leaf} → {s : Seg} → {rest : List Seg} →
    (w : Walk E hok subs leaves s rest) → w.steps.flatMap (·.taken) = s :: rest
  | _, _, _, _, .leaf subs leaves s l hl ha hh => by simp [steps]
  | _, _, _, _, .sub subs leaves s s' rest' k p cs cl hn hna ha w => by
    simp [steps, w.steps_taken]
  | _, _, _, _, .allSub subs leaves s rest k b cap cs cl skipped s' rest' heq hn hc w => by
    simp [steps, w.steps_taken, heq]
  | _, _, _, _, .allLeaf subs leaves s s' rest' l b cap hl hp hc hh => by simp [steps]

/-- the last step is the leaf's -/
theorem steps_last : {subs : List Node} → {leaves : List Leaf} → {s : Seg} → {rest : List Seg} →
    (w : Walk E hok subs leaves s rest) →
    ∃ init taken, w.steps = init ++ [⟨w.endLeaf.key, w.endLeaf.pat, taken⟩]
  | _, _, _, _, .leaf subs leaves s l hl ha hh => ⟨[], [s], rfl⟩
  | _, _, _, _, .sub subs leaves s s' rest' k p cs cl hn hna ha w => by
    obtain ⟨init, taken, h1⟩ := w.steps_last
    exact ⟨⟨k, p, [s]⟩ :: init, taken, by simp [steps, h1, endLeaf]⟩
  | _, _, _, _, .allSub subs leaves s rest k b cap cs cl skipped s' rest' heq hn hc w => by
    obtain ⟨init, taken, h1⟩ := w.steps_last
    exact ⟨⟨k, .all b cap, s :: skipped⟩ :: init, taken, by simp [steps, h1, endLeaf]⟩
  | _, _, _, _, .allLeaf subs leaves s s' rest' l b cap hl hp hc hh =>
    ⟨[], s :: s' :: rest', rfl⟩

end Walk

/-- an element of a list contributes a contiguous block to the `flatMap` -/
theorem flatMap_mem_split {α β} (f : α → List β) {l : List α} {a : α} (h : a ∈ l) :
    ∃ pre post, l.flatMap f = pre ++ f a ++ post := by
  obtain ⟨l1, l2, rfl⟩ := List.append_of_mem h
  exact ⟨l1.flatMap f, l2.flatMap f, by simp⟩

/-- reading a key after the final decoding pass of `Tree.Match` -/
theorem get?_map_val (f : Bytes → Bytes) (ps : Params) (k : Bytes) :
    (Params.get? (ps.map fun (kv : Bytes × Bytes) => (kv.1, f kv.2)) k) = (ps.get? k).map f := by
  induction ps with
  | nil => rfl
  | cons p ps ih =>
    obtain ⟨k', v⟩ := p
    simp only [Params.get?, List.map_cons, List.find?] at ih ⊢
    by_cases hk : k' = k
    · simp [hk]
    · simp only [hk, decide_false]
      exact ih

/-! ### 7. without any invariant: the trace of a search

Whatever the tree, the params after a search are the params before it with a list of writes `tr`
applied in order; when the search succeeds, the writes of the winning walk occur in `tr`, in
the walk's order (`Sublist`) — all other entries of `tr` are the values abandoned branches left
behind. -/

theorem match_trace (E : Engine) (hok : Nat → Bool) :
    (∀ subs leaves s rest ps, ∀ r ps', matchNext E hok subs leaves s rest ps = (r, ps') →
        ∃ tr, ps' = applyWrites tr ps ∧ ∀ l, r = some l →
          ∃ w : Walk E hok subs leaves s rest, w.endLeaf = l ∧ w.writes.Sublist tr) ∧
    (∀ subs leaves s s' rest' ps, ∀ subs0, (∀ n ∈ subs, n ∈ subs0) →
        ∀ r ps', matchSubs E hok subs leaves s s' rest' ps = (r, ps') →
        ∃ tr, ps' = applyWrites tr ps ∧ ∀ l, r = some l →
          ∃ w : Walk E hok subs0 leaves s (s' :: rest'), w.endLeaf = l ∧ w.writes.Sublist tr) ∧
    (∀ csubs cleaves b cap captured acc s' rest' ps, ∀ r ps',
        matchAllLoop E hok csubs cleaves b cap captured acc s' rest' ps = (r, ps') →
        ∃ tr, ps' = applyWrites tr ps ∧ ∀ l, r = some l →
          ∃ skipped t u, s' :: rest' = skipped ++ t :: u ∧
            capOK cap (captured + skipped.length) = true ∧
            ∃ w : Walk E hok csubs cleaves t u, w.endLeaf = l ∧
              (w.writes ++ [(b, accJoin acc skipped)]).Sublist tr) := by
  refine matchNext.mutual_induct E hok
    (motive1 := fun subs leaves s rest ps => ∀ r ps',
        matchNext E hok subs leaves s rest ps = (r, ps') →
        ∃ tr, ps' = applyWrites tr ps ∧ ∀ l, r = some l →
          ∃ w : Walk E hok subs leaves s rest, w.endLeaf = l ∧ w.writes.Sublist tr)
    (motive2 := fun subs leaves s s' rest' ps => ∀ subs0, (∀ n ∈ subs, n ∈ subs0) →
        ∀ r ps', matchSubs E hok subs leaves s s' rest' ps = (r, ps') →
        ∃ tr, ps' = applyWrites tr ps ∧ ∀ l, r = some l →
          ∃ w : Walk E hok subs0 leaves s (s' :: rest'), w.endLeaf = l ∧ w.writes.Sublist tr)
    (motive3 := fun csubs cleaves b cap captured acc s' rest' ps => ∀ r ps',
        matchAllLoop E hok csubs cleaves b cap captured acc s' rest' ps = (r, ps') →
        ∃ tr, ps' = applyWrites tr ps ∧ ∀ l, r = some l →
          ∃ skipped t u, s' :: rest' = skipped ++ t :: u ∧
            capOK cap (captured + skipped.length) = true ∧
            ∃ w : Walk E hok csubs cleaves t u, w.endLeaf = l ∧
              (w.writes ++ [(b, accJoin acc skipped)]).Sublist tr)
    ?_ ?_ ?_ ?_ ?_ ?_ ?_ ?_ ?_ ?_ ?_ ?_
  · -- matchNext, last segment
    intro subs leaves s ps r ps' h
    rw [matchNext] at h
    cases r with
    | none => exact ⟨[], by rw [matchLeaves_none h]; rfl, fun l hl => by cases hl⟩
    | some l =>
      obtain ⟨hl, hlm⟩ := matchLeaves_some h
      obtain ⟨ha, hh⟩ := leafMatch_some_accepts hlm
      refine ⟨l.pat.caps E s, leafMatch_caps hlm, fun l' hl' => ?_⟩
      injection hl' with hl'
      subst hl'
      exact ⟨.leaf subs leaves s l hl ha hh, rfl, List.Sublist.refl _⟩
  · intro subs leaves s ps s' rest' ih r ps' h
    rw [matchNext] at h
    exact ih subs (fun _ h => h) r ps' h
  · -- the fall-back
    intro leaves s s' rest' ps subs0 _ r ps' h
    rw [matchSubs] at h
    cases r with
    | none => exact ⟨[], by rw [matchAllLeaf_none h]; rfl, fun l hl => by cases hl⟩
    | some l =>
      obtain ⟨hl, b, cap, hp, hc, hh, rfl⟩ := matchAllLeaf_some h
      refine ⟨[(b, joinSlash (s :: s' :: rest'))], rfl, fun l' hl' => ?_⟩
      injection hl' with hl'
      subst hl'
      exact ⟨.allLeaf subs0 leaves s s' rest' l b cap hl hp hc hh, rfl, List.Sublist.refl _⟩
  · -- match-all child, found below it
    intro leaves s s' rest' ps key csubs cleaves more b cap l ps1 hm ih subs0 hsub r ps' h
    have hn := hsub _ (List.mem_cons_self ..)
    rw [matchSubs, hm] at h
    simp only [Prod.mk.injEq] at h
    obtain ⟨rfl, rfl⟩ := h
    obtain ⟨tr, htr, hw⟩ := ih (some l) ps1 hm
    refine ⟨tr, htr, fun l' hl' => ?_⟩
    injection hl' with hl'
    subst hl'
    obtain ⟨skipped, t, u, heq, hc, w, hwl, hsl⟩ := hw l rfl
    have hc2 : capOK cap (skipped.length + 1) = true := by rw [Nat.add_comm]; exact hc
    refine ⟨.allSub subs0 leaves s (s' :: rest') key b cap csubs cleaves skipped t u heq hn hc2 w, hwl, ?_⟩
    rw [accJoin_seg] at hsl
    exact hsl
  · -- match-all child, nothing below it: the fall-back
    intro leaves s s' rest' ps key csubs cleaves more b cap ps1 hm ih subs0 hsub r ps' h
    rw [matchSubs, hm] at h
    simp only at h
    obtain ⟨tr1, htr1, _⟩ := ih none ps1 hm
    cases r with
    | none =>
      refine ⟨tr1, ?_, fun l hl => by cases hl⟩
      rw [matchAllLeaf_none h]; exact htr1
    | some l =>
      obtain ⟨hl, b2, cap2, hp, hc, hh, rfl⟩ := matchAllLeaf_some h
      refine ⟨tr1 ++ [(b2, joinSlash (s :: s' :: rest'))], ?_, fun l' hl' => ?_⟩
      · rw [applyWrites_append, ← htr1]; rfl
      · injection hl' with hl'
        subst hl'
        exact ⟨.allLeaf subs0 leaves s s' rest' l b2 cap2 hl hp hc hh, rfl,
          List.sublist_append_right _ _⟩
  · -- other child, does not accept `s`
    intro leaves s s' rest' ps key cpat csubs cleaves more hm hna ih subs0 hsub r ps' h
    rw [matchSubs_cons_notAll _ _ _ _ _ _ _ _ _ _ _ _ (isAll_false_of_ne hna), hm] at h
    exact ih subs0 (fun n h => hsub n (List.mem_cons_of_mem _ h)) r ps' h
  · -- other child accepts `s`, found below it
    intro leaves s s' rest' ps key cpat csubs cleaves more ps1 hm l ps2 hn hna ih subs0 hsub r ps' h
    have hmem := hsub _ (List.mem_cons_self ..)
    have hna' := isAll_false_of_ne hna
    rw [matchSubs_cons_notAll _ _ _ _ _ _ _ _ _ _ _ _ hna', hm] at h
    simp only [hn, Prod.mk.injEq] at h
    obtain ⟨rfl, rfl⟩ := h
    obtain ⟨tr, htr, hw⟩ := ih (some l) ps2 hn
    refine ⟨cpat.caps E s ++ tr, ?_, fun l' hl' => ?_⟩
    · rw [applyWrites_append, ← treeMatch_caps hm]; exact htr
    · injection hl' with hl'
      subst hl'
      obtain ⟨w, hwl, hsl⟩ := hw l rfl
      exact ⟨.sub subs0 leaves s s' rest' key cpat csubs cleaves hmem hna' (treeMatch_some_accepts hm) w,
        hwl, List.Sublist.append (List.Sublist.refl _) hsl⟩
  · -- other child accepts `s`, nothing below it
    intro leaves s s' rest' ps key cpat csubs cleaves more ps1 hm ps2 hn hna ih1 ih2 subs0 hsub r ps' h
    rw [matchSubs_cons_notAll _ _ _ _ _ _ _ _ _ _ _ _ (isAll_false_of_ne hna), hm] at h
    simp only [hn] at h
    obtain ⟨tr1, htr1, _⟩ := ih1 none ps2 hn
    obtain ⟨tr2, htr2, hw⟩ := ih2 subs0 (fun n h => hsub n (List.mem_cons_of_mem _ h)) r ps' h
    refine ⟨cpat.caps E s ++ tr1 ++ tr2, ?_, fun l hl => ?_⟩
    · rw [applyWrites_append, applyWrites_append, ← treeMatch_caps hm, ← htr1]; exact htr2
    · obtain ⟨w, hwl, hsl⟩ := hw l hl
      exact ⟨w, hwl, hsl.trans (List.sublist_append_right _ _)⟩
  · -- matchAllLoop, found below
    intro csubs cleaves b cap captured acc s' rest' ps hc l ps1 hn ih r ps' h
    have hc' : capOK cap captured = true := hc
    rw [matchAllLoop_step, if_pos hc', hn] at h
    simp only [Prod.mk.injEq] at h
    obtain ⟨rfl, rfl⟩ := h
    obtain ⟨tr, htr, hw⟩ := ih (some l) ps1 hn
    refine ⟨tr ++ [(b, acc)], ?_, fun l' hl' => ?_⟩
    · rw [applyWrites_append, ← htr]; rfl
    · injection hl' with hl'
      subst hl'
      obtain ⟨w, hwl, hsl⟩ := hw l rfl
      exact ⟨[], s', rest', rfl, by simpa using hc', w, hwl,
        List.Sublist.append hsl (List.Sublist.refl _)⟩
  · intro csubs cleaves b cap captured acc s' ps hc ps1 hn ih r ps' h
    have hc' : capOK cap captured = true := hc
    rw [matchAllLoop_step, if_pos hc', hn] at h
    simp only [Prod.mk.injEq] at h
    obtain ⟨rfl, rfl⟩ := h
    obtain ⟨tr, htr, _⟩ := ih none ps1 hn
    exact ⟨tr, htr, fun l hl => by cases hl⟩
  · -- swallow one more segment
    intro csubs cleaves b cap captured acc s' ps hc ps1 s'' rest'' hn ih1 ih3 r ps' h
    have hc' : capOK cap captured = true := hc
    rw [matchAllLoop_step, if_pos hc', hn] at h
    simp only at h
    obtain ⟨tr1, htr1, _⟩ := ih1 none ps1 hn
    obtain ⟨tr3, htr3, hw⟩ := ih3 r ps' h
    refine ⟨tr1 ++ tr3, by rw [applyWrites_append, ← htr1]; exact htr3, fun l hl => ?_⟩
    obtain ⟨skipped, t, u, heq, hcap, w, hwl, hsl⟩ := hw l hl
    refine ⟨s' :: skipped, t, u, by rw [heq]; rfl, ?_, w, hwl, hsl.trans (List.sublist_append_right _ _)⟩
    rw [List.length_cons, ← Nat.add_assoc, Nat.add_right_comm]
    exact hcap
  · intro csubs cleaves b cap captured acc s' rest' ps hc r ps' h
    have hc' : ¬ capOK cap captured = true := hc
    rw [matchAllLoop_step, if_neg hc'] at h
    simp only [Prod.mk.injEq] at h
    obtain ⟨rfl, rfl⟩ := h
    exact ⟨[], rfl, fun l hl => by cases hl⟩

end Flamego
