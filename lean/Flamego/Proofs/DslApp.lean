/-
  Proofs/DslApp.lean — lemmas behind Props/C11App: the registration DSL composed with the parser,
  the router and the application model.

  Part A (namespace `Flamego.Dsl`, every acceptance function `acc`):
    1. `RegsOK acc regs`: every registration of the list was accepted after the ones before it
       and names a known method; kept by every statement (`interp_regsOK`)
    2. replaying such a list with `Route` calls registers exactly the list (`interp_routeProg`)
    3. the recovered panics are write-only (`flatList_sim`), `execList_append`,
       a recovered statement that registers nothing is invisible (`recover_noop_regs`)
    4. the registrations of a statement nested in groups (`nested_regs`)
  Part B (namespace `Flamego.DslApp`, the real acceptance `accReal E`):
    5. the history `opsOfRegs regs` satisfies the guard of the router theorems
    6. the method trees of `routerOfRegs E regs` are `build E (histOf m 0 regs)`, every
       registration accepted (`trees_of_regsOK`)
    7. a dispatched leaf carries the number of a registration of the request's method
-/
import Flamego.Model.DslApp
import Flamego.Proofs.Dsl
import Flamego.Props.C07App
import Flamego.Proofs.Register

/-! ## Part A -/
namespace Flamego.Dsl

theorem snoc_induction {α} {P : List α → Prop} (h0 : P []) (hs : ∀ l a, P l → P (l ++ [a])) :
    ∀ l, P l := by
  intro l
  have : ∀ r : List α, P r.reverse := by
    intro r
    induction r with
    | nil => exact h0
    | cons a r ih => simpa using hs _ a ih
  simpa using this l.reverse

/-! ### 1. accepted lists -/

theorem methodsOf_sub (m : Bytes) : ∀ x ∈ methodsOf m, x ∈ httpMethods := by
  intro x hx
  unfold methodsOf at hx
  simp only at hx
  split at hx
  · exact hx
  · split at hx
    · rename_i hmem
      simp only [List.mem_singleton] at hx
      subst hx; exact hmem
    · cases hx

theorem methodsOf_known : ∀ m ∈ httpMethods, methodsOf m = [m] := by decide

/-- every registration of the list was accepted by `acc` after the ones before it, and its
    method is one of `httpMethods` -/
def RegsOK (acc : Acc) (regs : List Reg) : Prop :=
  ∀ pre r post, regs = pre ++ r :: post → acc pre r = true ∧ r.method ∈ httpMethods

theorem RegsOK.nil (acc : Acc) : RegsOK acc [] := by
  intro pre r post h
  simp at h

theorem RegsOK.snoc {acc : Acc} {regs : List Reg} {r : Reg} (h : RegsOK acc regs)
    (ha : acc regs r = true) (hm : r.method ∈ httpMethods) : RegsOK acc (regs ++ [r]) := by
  intro pre x post e
  rcases List.eq_nil_or_concat post with rfl | ⟨post', y, rfl⟩
  · obtain ⟨e1, e2⟩ := List.append_inj' e rfl
    simp only [List.cons.injEq, and_true] at e2
    subst e1; subst e2
    exact ⟨ha, hm⟩
  · rw [List.concat_eq_append] at e
    have e' : regs ++ [r] = (pre ++ x :: post') ++ [y] := by simpa using e
    obtain ⟨e1, _⟩ := List.append_inj' e' rfl
    exact h pre x post' e1

theorem RegsOK.prefix {acc : Acc} {a b : List Reg} (h : RegsOK acc (a ++ b)) : RegsOK acc a := by
  intro pre r post e
  exact h pre r (post ++ b) (by rw [e]; simp)

theorem RegsOK.last {acc : Acc} {regs : List Reg} {r : Reg} (h : RegsOK acc (regs ++ [r])) :
    acc regs r = true ∧ r.method ∈ httpMethods := h regs r [] rfl

theorem seqEach_inv (P : List Reg → Prop) {α : Type} (f : α → FSt → FOut) (hf : ∀ a fs, P fs.regs → P (f a fs).1.regs) :
    ∀ (l : List α) (fs : FSt), P fs.regs → P (seqEach f l fs).1.regs
  | [], fs, h => by simpa [seqEach] using h
  | a :: l, fs, h => by
    simp only [seqEach]
    have h1 := hf a fs h
    generalize f a fs = o at h1
    obtain ⟨s1, e⟩ := o
    cases e with
    | some e => exact h1
    | none => exact seqEach_inv P f hf l s1 h1

section Inv
set_option linter.unusedSectionVars false
variable (acc : Acc) (P : List Reg → Prop)
  (hP : ∀ regs r, P regs → acc regs r = true → r.method ∈ httpMethods → P (regs ++ [r]))
include hP

theorem regEach_inv (path : Bytes) (hs : List Nat) : ∀ (ms : List Bytes) (s : FSt),
    (∀ m ∈ ms, m ∈ httpMethods) → P s.regs → P (regEach acc path hs ms s).1.regs
  | [], s, _, h => by simpa [regEach] using h
  | m :: ms, s, hm, h => by
    simp only [regEach]
    split
    · rename_i ha
      exact regEach_inv path hs ms _ (fun x hx => hm x (List.mem_cons_of_mem _ hx))
        (hP _ _ h ha (hm m (List.mem_cons_self ..)))
    · exact h

theorem flatRoute_inv (env : Env) (m p : Bytes) (hs : List Nat) (s : FSt) (h : P s.regs) :
    P (flatRoute acc env m p hs s).1.regs := by
  simp only [flatRoute]
  split
  · exact h
  · exact regEach_inv acc P hP _ _ _ s (methodsOf_sub m) h

theorem flatVerb_inv (env : Env) (v : Verb) (p : Bytes) (hs : List Nat) (s : FSt) (h : P s.regs) :
    P (flatVerb acc env v p hs s).1.regs := by
  simp only [flatVerb]
  split
  · exact seqEach_inv P _ (fun m fs hfs => flatRoute_inv acc P hP env m p hs fs hfs) _ s h
  · exact flatRoute_inv acc P hP env _ p hs s h

mutual
theorem flatStmt_inv (env : Env) : ∀ (st : Stmt) (s : FSt), P s.regs → P (flatStmt acc env st s).1.regs
  | .route m p hs, s, h => by simp only [flatStmt]; exact flatRoute_inv acc P hP env m p hs s h
  | .verb v p hs, s, h => by simp only [flatStmt]; exact flatVerb_inv acc P hP env v p hs s h
  | .any p hs, s, h => by simp only [flatStmt]; exact flatRoute_inv acc P hP env _ p hs s h
  | .routes p ms args, s, h => by
    simp only [flatStmt, flatRoutes]
    split
    · exact h
    · split
      · exact h
      · split
        · exact h
        · exact seqEach_inv P _ (fun m fs hfs => flatRoute_inv acc P hP env m p _ fs hfs) _ s h
  | .combo p common calls, s, h => by
    simp only [flatStmt, flatCombo]
    have h1 := seqEach_inv P (fun c => flatVerb acc env c.1 p (common ++ c.2))
      (fun c fs hfs => flatVerb_inv acc P hP env c.1 p _ fs hfs) (comboPrefix calls []).1 s h
    generalize seqEach _ (comboPrefix calls []).1 s = o at h1
    obtain ⟨s1, e⟩ := o
    cases e <;> exact h1
  | .group p hs body, s, h => by
    simp only [flatStmt]
    exact flatList_inv _ body s h
  | .autoHead b, s, h => by simpa [flatStmt] using h
  | .panic, s, h => by simpa [flatStmt] using h
  | .recover body, s, h => by
    simp only [flatStmt]
    have h1 := flatList_inv env body s h
    generalize flatList acc env body s = o at h1
    obtain ⟨s1, e⟩ := o
    cases e <;> exact h1
theorem flatList_inv (env : Env) : ∀ (ss : List Stmt) (s : FSt), P s.regs → P (flatList acc env ss s).1.regs
  | [], s, h => by simpa [flatList] using h
  | st :: ss, s, h => by
    simp only [flatList]
    have h1 := flatStmt_inv env st s h
    generalize flatStmt acc env st s = o at h1
    obtain ⟨s1, e⟩ := o
    cases e with
    | some e => exact h1
    | none => exact flatList_inv env ss s1 h1
end
end Inv

/-- whatever the program, what it leaves registered was accepted one by one, in this order -/
theorem interp_regsOK (acc : Acc) (p : Prog) : RegsOK acc (interp acc p).regs := by
  have h := flatList_inv acc (RegsOK acc) (fun _ _ h ha hm => h.snoc ha hm) {} p {} (RegsOK.nil acc)
  have e : (interp acc p).regs = (flatList acc {} p {}).1.regs := by
    simp only [interp]
    rw [execList_eq]
    rfl
  rw [e]; exact h

/-! ### 2. replaying an accepted list with `Route` calls -/

theorem execList_routeProg (acc : Acc) : ∀ (post pre : List Reg) (a : Bool) (c : List Err),
    RegsOK acc (pre ++ post) →
    execList acc (DslApp.routeProg post) ⟨[], a, pre, c⟩ = (⟨[], a, pre ++ post, c⟩, none)
  | [], pre, a, c, _ => by simp [DslApp.routeProg, execList]
  | r :: post, pre, a, c, h => by
    obtain ⟨ha, hm⟩ := h pre r post rfl
    have hk := methodsOf_known r.method hm
    have ih := execList_routeProg acc post (pre ++ [r]) a c (by simpa using h)
    have hr : Reg.mk r.method r.path r.handlers = r := rfl
    simp only [DslApp.routeProg, List.map_cons, execList, exec, routeCall, groupPrefix,
      List.foldl_nil, List.nil_append, addRoute, hk, addEach, hr, ha, if_true]
    simp only [DslApp.routeProg] at ih
    rw [ih]
    simp

/-- a list of registrations accepted one by one IS what the program of its `Route` calls
    registers, without a panic -/
theorem interp_routeProg (acc : Acc) (regs : List Reg) (h : RegsOK acc regs) :
    (interp acc (DslApp.routeProg regs)).regs = regs ∧ (interp acc (DslApp.routeProg regs)).err = none := by
  have := execList_routeProg acc regs [] false [] (by simpa using h)
  simp only [interp, this, List.nil_append, and_self]

/-! ### 3. sequencing; the recovered panics are write-only -/

theorem execList_append (acc : Acc) : ∀ (a b : List Stmt) (st : St),
    execList acc (a ++ b) st =
      match execList acc a st with
      | (st1, some e) => (st1, some e)
      | (st1, none) => execList acc b st1
  | [], b, st => by simp [execList]
  | s :: a, b, st => by
    simp only [List.cons_append, execList]
    generalize exec acc s st = o
    obtain ⟨s1, e⟩ := o
    cases e with
    | some e => rfl
    | none => exact execList_append acc a b s1

/-- two flat states that differ at most in the recovered panics -/
def FSt.Sim (a b : FSt) : Prop := a.autoHead = b.autoHead ∧ a.regs = b.regs

/-- two outcomes with the same panic whose states differ at most in the recovered panics -/
def FOut.Sim (a b : FOut) : Prop := FSt.Sim a.1 b.1 ∧ a.2 = b.2

theorem regEach_sim (acc : Acc) (path : Bytes) (hs : List Nat) : ∀ (ms : List Bytes) (a b : FSt),
    FSt.Sim a b → FOut.Sim (regEach acc path hs ms a) (regEach acc path hs ms b)
  | [], a, b, h => ⟨h, rfl⟩
  | m :: ms, a, b, h => by
    simp only [regEach, h.2]
    split
    · exact regEach_sim acc path hs ms _ _ ⟨h.1, by simp⟩
    · exact ⟨h, rfl⟩

theorem flatRoute_sim (acc : Acc) (env : Env) (m p : Bytes) (hs : List Nat) (a b : FSt)
    (h : FSt.Sim a b) : FOut.Sim (flatRoute acc env m p hs a) (flatRoute acc env m p hs b) := by
  simp only [flatRoute]
  split
  · exact ⟨h, rfl⟩
  · exact regEach_sim acc _ _ _ a b h

theorem seqEach_sim {α : Type} (f : α → FSt → FOut)
    (hf : ∀ x a b, FSt.Sim a b → FOut.Sim (f x a) (f x b)) :
    ∀ (l : List α) (a b : FSt), FSt.Sim a b → FOut.Sim (seqEach f l a) (seqEach f l b)
  | [], a, b, h => ⟨h, rfl⟩
  | x :: l, a, b, h => by
    simp only [seqEach]
    have h1 := hf x a b h
    generalize f x a = oa at h1
    generalize f x b = ob at h1
    obtain ⟨a1, ea⟩ := oa
    obtain ⟨b1, eb⟩ := ob
    obtain ⟨hs, he⟩ := h1
    simp only at he hs
    subst he
    cases ea with
    | some e => exact ⟨hs, rfl⟩
    | none => exact seqEach_sim f hf l a1 b1 hs

theorem flatVerb_sim (acc : Acc) (env : Env) (v : Verb) (p : Bytes) (hs : List Nat) (a b : FSt)
    (h : FSt.Sim a b) : FOut.Sim (flatVerb acc env v p hs a) (flatVerb acc env v p hs b) := by
  simp only [flatVerb, h.1]
  split
  · exact seqEach_sim _ (fun m a b h => flatRoute_sim acc env m p hs a b h) _ a b h
  · exact flatRoute_sim acc env _ p hs a b h

mutual
theorem flatStmt_sim (acc : Acc) (env : Env) : ∀ (st : Stmt) (a b : FSt), FSt.Sim a b →
    FOut.Sim (flatStmt acc env st a) (flatStmt acc env st b)
  | .route m p hs, a, b, h => by simp only [flatStmt]; exact flatRoute_sim acc env m p hs a b h
  | .verb v p hs, a, b, h => by simp only [flatStmt]; exact flatVerb_sim acc env v p hs a b h
  | .any p hs, a, b, h => by simp only [flatStmt]; exact flatRoute_sim acc env _ p hs a b h
  | .routes p ms args, a, b, h => by
    simp only [flatStmt, flatRoutes]
    split
    · exact ⟨h, rfl⟩
    · split
      · exact ⟨h, rfl⟩
      · split
        · exact ⟨h, rfl⟩
        · exact seqEach_sim _ (fun m a b h => flatRoute_sim acc env m p _ a b h) _ a b h
  | .combo p common calls, a, b, h => by
    simp only [flatStmt, flatCombo]
    have h1 := seqEach_sim (fun c => flatVerb acc env c.1 p (common ++ c.2))
      (fun c a b h => flatVerb_sim acc env c.1 p _ a b h) (comboPrefix calls []).1 a b h
    generalize seqEach _ (comboPrefix calls []).1 a = oa at h1
    generalize seqEach _ (comboPrefix calls []).1 b = ob at h1
    obtain ⟨a1, ea⟩ := oa
    obtain ⟨b1, eb⟩ := ob
    obtain ⟨hs, he⟩ := h1
    simp only at he hs
    subst he
    cases ea <;> exact ⟨hs, rfl⟩
  | .group p hs body, a, b, h => by
    simp only [flatStmt]
    exact flatList_sim acc _ body a b h
  | .autoHead x, a, b, h => ⟨⟨rfl, h.2⟩, rfl⟩
  | .panic, a, b, h => ⟨h, rfl⟩
  | .recover body, a, b, h => by
    simp only [flatStmt]
    have h1 := flatList_sim acc env body a b h
    generalize flatList acc env body a = oa at h1
    generalize flatList acc env body b = ob at h1
    obtain ⟨a1, ea⟩ := oa
    obtain ⟨b1, eb⟩ := ob
    obtain ⟨hs, he⟩ := h1
    simp only at he hs
    subst he
    cases ea <;> exact ⟨hs, rfl⟩
theorem flatList_sim (acc : Acc) (env : Env) : ∀ (ss : List Stmt) (a b : FSt), FSt.Sim a b →
    FOut.Sim (flatList acc env ss a) (flatList acc env ss b)
  | [], a, b, h => ⟨h, rfl⟩
  | st :: ss, a, b, h => by
    simp only [flatList]
    have h1 := flatStmt_sim acc env st a b h
    generalize flatStmt acc env st a = oa at h1
    generalize flatStmt acc env st b = ob at h1
    obtain ⟨a1, ea⟩ := oa
    obtain ⟨b1, eb⟩ := ob
    obtain ⟨hs, he⟩ := h1
    simp only at he hs
    subst he
    cases ea with
    | some e => exact ⟨hs, rfl⟩
    | none => exact flatList_sim acc env ss a1 b1 hs
end

/-- the stack machine does not read the recovered panics either -/
theorem execList_sim (acc : Acc) (ss : List Stmt) (a b : St) (hg : a.groups = b.groups)
    (hah : a.autoHead = b.autoHead) (hr : a.regs = b.regs) :
    (execList acc ss a).1.regs = (execList acc ss b).1.regs ∧
    (execList acc ss a).1.autoHead = (execList acc ss b).1.autoHead ∧
    (execList acc ss a).2 = (execList acc ss b).2 := by
  rw [execList_eq, execList_eq, hg]
  have := flatList_sim acc (envOf b.groups) ss a.flat b.flat ⟨hah, hr⟩
  exact ⟨this.1.2, this.1.1, this.2⟩

/-- a recovered statement that leaves the registrations and the flag as they were (a refused
    registration, say) is invisible in what the whole program registers -/
theorem recover_noop_regs (acc : Acc) (pre post : Prog) (s : Stmt)
    (hregs : (exec acc s (execList acc pre {}).1).1.regs = (execList acc pre {}).1.regs)
    (hah : (exec acc s (execList acc pre {}).1).1.autoHead = (execList acc pre {}).1.autoHead) :
    (interp acc (pre ++ .recover [s] :: post)).regs = (interp acc (pre ++ post)).regs ∧
    (interp acc (pre ++ .recover [s] :: post)).autoHead = (interp acc (pre ++ post)).autoHead ∧
    (interp acc (pre ++ .recover [s] :: post)).err = (interp acc (pre ++ post)).err := by
  simp only [interp]
  rw [execList_append, execList_append]
  generalize hpre : execList acc pre {} = o at hregs hah
  obtain ⟨st, e⟩ := o
  cases e with
  | some e => exact ⟨rfl, rfl, rfl⟩
  | none =>
    simp only at hregs hah ⊢
    have hg : (exec acc s st).1.groups = st.groups := by rw [exec_eq]; rfl
    -- the state after the recovered statement
    have key : ∃ st', execList acc (.recover [s] :: post) st = execList acc post st' ∧
        st'.groups = st.groups ∧ st'.autoHead = st.autoHead ∧ st'.regs = st.regs := by
      simp only [execList, exec]
      generalize exec acc s st = o at hregs hah hg
      obtain ⟨s1, e1⟩ := o
      simp only at hregs hah hg
      cases e1 with
      | none => exact ⟨s1, rfl, hg, hah, hregs⟩
      | some e1 => exact ⟨{ s1 with caught := s1.caught ++ [e1] }, rfl, hg, hah, hregs⟩
    obtain ⟨st', he, h1, h2, h3⟩ := key
    rw [he]
    exact execList_sim acc post st' st h1 h2 h3

/-! ### 4. a statement nested in groups, anywhere in a program -/

/-- The registrations of a program `pre ++ nest gs s :: post` whose part `pre` ran to its end:
    those of `pre`, then those `s` makes inside the groups `gs` — each with the groups' paths as
    a path prefix and the groups' handlers, outermost first, as a handler prefix — then the rest. -/
theorem nested_regs (acc : Acc) (pre post : Prog) (gs : List Group) (s : Stmt)
    (hpre : (interp acc pre).err = none) :
    ∃ new later, (interp acc (pre ++ nest gs s :: post)).regs = (interp acc pre).regs ++ new ++ later ∧
      (interp acc (pre ++ [nest gs s])).regs = (interp acc pre).regs ++ new ∧
      ∀ r ∈ new, (gs.map Group.path).flatten <+: r.path ∧ (gs.map Group.handlers).flatten <+: r.handlers := by
  have hg0 : (execList acc pre {}).1.groups = [] := by rw [execList_eq]; rfl
  simp only [interp] at hpre ⊢
  rw [execList_append, execList_append]
  generalize execList acc pre {} = o at hpre hg0
  obtain ⟨st, e⟩ := o
  simp only at hpre hg0
  subst hpre
  simp only [execList]
  have hex : exec acc (nest gs s) st = lift st (flatStmt acc ⟨(envOf gs).pfx, (envOf gs).hpfx⟩ s st.flat) := by
    rw [exec_eq, flatStmt_nest, hg0]
    simp [envOf_nil]
  obtain ⟨new, hn1, hn2⟩ := flatStmt_prefixed acc ⟨(envOf gs).pfx, (envOf gs).hpfx⟩ s st.flat
  have hn2' : ∀ r ∈ new, (gs.map Group.path).flatten <+: r.path ∧
      (gs.map Group.handlers).flatten <+: r.handlers := by
    simpa [envOf, groupPrefix_eq] using hn2
  rw [hex]
  generalize flatStmt acc ⟨(envOf gs).pfx, (envOf gs).hpfx⟩ s st.flat = fo at hn1
  obtain ⟨f1, e1⟩ := fo
  have hn1' : f1.regs = st.regs ++ new := hn1
  cases e1 with
  | some e1 => exact ⟨new, [], by simp [lift, hn1'], by simp [lift, hn1'], hn2'⟩
  | none =>
    simp only [lift]
    rw [execList_eq]
    obtain ⟨later, hl, _⟩ := flatList_prefixed acc
      (envOf st.groups) post (St.flat ⟨st.groups, f1.autoHead, f1.regs, f1.caught⟩)
    refine ⟨new, later, ?_, by simp [hn1'], hn2'⟩
    simp only [lift]
    rw [hl]
    simp [St.flat, hn1']

end Flamego.Dsl

/-! ## Part B -/
namespace Flamego.DslApp
open Flamego.Dsl (Reg Acc Prog Stmt RegsOK interp)
open Flamego.App Flamego.C07

/-! ### 5. the history of a list of registrations -/

theorem methodKey_mem {m : Bytes} {k : String} (h : methodKey m = some k) : k ∈ Gen.httpMethods :=
  List.mem_of_find?_eq_some h

theorem methodKey_B {m : Bytes} {k : String} (h : methodKey m = some k) : Dsl.B k = m := by
  have := List.find?_some h
  simpa using this

/-- a method text that has a tree key is one of the nine method texts -/
theorem methodKey_known {m : Bytes} {k : String} (h : methodKey m = some k) : m ∈ Dsl.httpMethods := by
  rw [← methodKey_B h]
  exact List.mem_map_of_mem (methodKey_mem h)

theorem opsFrom_append : ∀ (a b : List Reg) (i : Nat),
    opsFrom i (a ++ b) = opsFrom i a ++ opsFrom (i + a.length) b
  | [], b, i => by simp [opsFrom]
  | r :: a, b, i => by
    simp only [List.cons_append, opsFrom, List.length_cons, List.append_assoc]
    rw [opsFrom_append a b (i + 1)]
    have : i + 1 + a.length = i + (a.length + 1) := by omega
    rw [this]

theorem opsOfRegs_snoc (regs : List Reg) (r : Reg) :
    opsOfRegs (regs ++ [r]) = opsOfRegs regs ++ (opOf regs.length r).toList := by
  simp [opsOfRegs, opsFrom_append, opsFrom]

theorem addPairs_opOf (i : Nat) (r : Reg) (hr : Nat × Route) (h : hr ∈ addPairs (opOf i r).toList) :
    hr.1 = i ∧ parse r.path = some hr.2 ∧ ∃ m, methodKey r.method = some m := by
  unfold opOf at h
  cases hp : parse r.path with
  | none => simp [hp, addPairs] at h
  | some ast =>
    cases hm : methodKey r.method with
    | none => simp [hp, hm, addPairs] at h
    | some m =>
      simp only [hp, hm, Option.toList, addPairs, List.mem_singleton] at h
      subst h
      exact ⟨rfl, rfl, m, rfl⟩

/-- every `(handle, route)` pair of the history is a registration of the list: its number, the
    parse of its text -/
theorem addPairs_opsFrom : ∀ (regs : List Reg) (i : Nat) (hr : Nat × Route),
    hr ∈ addPairs (opsFrom i regs) →
    i ≤ hr.1 ∧ ∃ r, regs[hr.1 - i]? = some r ∧ parse r.path = some hr.2 ∧ ∃ m, methodKey r.method = some m
  | [], i, hr, h => by simp [opsFrom, addPairs] at h
  | r :: rs, i, hr, h => by
    rw [opsFrom, C10.addPairs_append] at h
    rcases List.mem_append.mp h with h | h
    · obtain ⟨h1, h2, h3⟩ := addPairs_opOf i r hr h
      refine ⟨by omega, r, ?_, h2, h3⟩
      rw [h1]; simp
    · obtain ⟨h1, r', h2, h3, h4⟩ := addPairs_opsFrom rs (i + 1) hr h
      refine ⟨by omega, r', ?_, h3, h4⟩
      have : hr.1 - i = (hr.1 - (i + 1)) + 1 := by omega
      rw [this, List.getElem?_cons_succ]
      exact h2

theorem addPairs_opsFrom_nodup : ∀ (regs : List Reg) (i : Nat),
    ((addPairs (opsFrom i regs)).map Prod.fst).Nodup
  | [], i => by simp [opsFrom, addPairs]
  | r :: rs, i => by
    rw [opsFrom, C10.addPairs_append, List.map_append, List.nodup_append]
    refine ⟨?_, addPairs_opsFrom_nodup rs (i + 1), ?_⟩
    · -- at most one pair
      unfold opOf
      cases parse r.path <;> cases methodKey r.method <;> simp [addPairs]
    · intro a ha b hb
      obtain ⟨x, hx, rfl⟩ := List.mem_map.mp ha
      obtain ⟨y, hy, rfl⟩ := List.mem_map.mp hb
      have h1 := (addPairs_opOf i r x hx).1
      have h2 := (addPairs_opsFrom rs (i + 1) y hy).1
      omega

/-- the guard of the router theorems (C01 / C10) holds for every list of registrations: the routes
    are what the parser produced, every registration has its own handle -/
theorem opsOfRegs_ok (regs : List Reg) :
    (∀ hr ∈ addPairs (opsOfRegs regs), ∀ s ∈ hr.2.segs, ParsedSeg s = true) ∧
    ((addPairs (opsOfRegs regs)).map Prod.fst).Nodup := by
  refine ⟨?_, addPairs_opsFrom_nodup regs 0⟩
  intro hr h
  obtain ⟨_, r, _, hp, _⟩ := addPairs_opsFrom regs 0 hr h
  exact parsedSeg_of_parse hp

theorem addPairs_lt (regs : List Reg) (hr : Nat × Route) (h : hr ∈ addPairs (opsOfRegs regs)) :
    ∃ r, regs[hr.1]? = some r ∧ parse r.path = some hr.2 := by
  obtain ⟨_, r, h1, h2, _⟩ := addPairs_opsFrom regs 0 hr h
  exact ⟨r, by simpa using h1, h2⟩

/-! ### 6. the router of an accepted list -/

theorem run_append (E : Engine) (a b : List RouterOp) :
    Router.run E (a ++ b) = Router.runFrom E (Router.run E a) b := by
  simp [Router.run, Router.runFrom, List.foldl_append]

theorem routerOfRegs_snoc (E : Engine) (regs : List Reg) (r : Reg) :
    routerOfRegs E (regs ++ [r]) =
      match opOf regs.length r with
      | some op => (routerOfRegs E regs).apply E op
      | none => routerOfRegs E regs := by
  unfold routerOfRegs
  rw [opsOfRegs_snoc, run_append]
  cases opOf regs.length r <;> simp [Router.runFrom]

/-- one single-method registration that reports success: the method's tree is replaced by the
    result of `addRoute`, the header constraints are untouched -/
theorem addMethods_single_true (E : Engine) (R : Router) (hid : Nat) (r : Route) (m : String)
    (h : (R.addMethods E hid r [m] []).2 = true) :
    ∃ t t', assocGet R.trees m = some t ∧ addRoute E t r hid = .ok t' ∧
      (R.addMethods E hid r [m] []).1.trees = assocSet R.trees m t' ∧
      (R.addMethods E hid r [m] []).1.hdrs = R.hdrs := by
  rw [Router.addMethods] at h ⊢
  cases ht : assocGet R.trees m with
  | none => simp [ht] at h
  | some t =>
    simp only [ht] at h ⊢
    cases ha : addRoute E t r hid with
    | error e => simp [ha] at h
    | ok t' =>
      simp only [ha] at h ⊢
      cases hf : findLongLeaf hid t' with
      | none => simp [hf] at h
      | some leaf =>
        simp only [Router.addMethods]
        refine ⟨t, t', rfl, ha, ?_, ?_⟩ <;> split <;> rfl

/-- a registration never touches the header constraints -/
theorem addMethods_hdrs (E : Engine) (hid : Nat) (r : Route) :
    ∀ (ms : List String) (R : Router) (acc : List (String × Leaf)),
      (R.addMethods E hid r ms acc).1.hdrs = R.hdrs := by
  intro ms
  induction ms with
  | nil => intro R acc; simp [Router.addMethods]
  | cons m ms ih =>
    intro R acc
    rw [Router.addMethods]
    cases assocGet R.trees m with
    | none => rfl
    | some t =>
      simp only []
      cases addRoute E t r hid with
      | error e => rfl
      | ok t' =>
        simp only []
        cases findLongLeaf hid t' with
        | none => rfl
        | some leaf =>
          simp only []
          rw [ih]
          split <;> rfl

theorem routerOfRegs_hdrs (E : Engine) : ∀ regs : List Reg, (routerOfRegs E regs).hdrs = [] := by
  apply Dsl.snoc_induction
  · rfl
  · intro regs r ih
    rw [routerOfRegs_snoc]
    unfold opOf
    cases parse r.path <;> cases methodKey r.method <;> simp only [ih]
    simp only [Router.apply, addMethods_hdrs, ih]

/-- no `Headers` call was made: every leaf's constraint check passes -/
theorem routerOfRegs_hok (E : Engine) (regs : List Reg) (hdrs : List (Bytes × Bytes)) :
    (routerOfRegs E regs).hok E hdrs = fun _ => true := by
  funext hid
  simp [Router.hok, routerOfRegs_hdrs, assocGet]

/-- the registration history of one method's tree: `(parse path, number)` of every registration
    of the method `m`, numbered from `i` -/
def histOf (m : String) (i : Nat) : List Reg → List (Route × Nat)
  | [] => []
  | r :: rs =>
    (match parse r.path, methodKey r.method with
     | some ast, some m' => if m' = m then [(ast, i)] else []
     | _, _ => []) ++ histOf m (i + 1) rs

theorem histOf_append (m : String) : ∀ (a b : List Reg) (i : Nat),
    histOf m i (a ++ b) = histOf m i a ++ histOf m (i + a.length) b
  | [], b, i => by simp [histOf]
  | r :: a, b, i => by
    simp only [List.cons_append, histOf, List.length_cons, List.append_assoc]
    rw [histOf_append m a b (i + 1)]
    have : i + 1 + a.length = i + (a.length + 1) := by omega
    rw [this]

theorem mem_histOf (m : String) : ∀ (regs : List Reg) (i : Nat) (rh : Route × Nat),
    rh ∈ histOf m i regs ↔
      i ≤ rh.2 ∧ ∃ r, regs[rh.2 - i]? = some r ∧ parse r.path = some rh.1 ∧ methodKey r.method = some m
  | [], i, rh => by simp [histOf]
  | r :: rs, i, rh => by
    rw [histOf, List.mem_append, mem_histOf m rs (i + 1) rh]
    constructor
    · rintro (h | ⟨h1, r', h2, h3, h4⟩)
      · cases hp : parse r.path with
        | none => simp [hp] at h
        | some ast =>
          cases hm : methodKey r.method with
          | none => simp [hp, hm] at h
          | some m' =>
            simp only [hp, hm] at h
            by_cases hmm : m' = m
            · simp only [hmm, if_true, List.mem_singleton] at h
              subst h
              exact ⟨Nat.le_refl _, r, by simp, hp, by rw [hm, hmm]⟩
            · simp [hmm] at h
      · refine ⟨by omega, r', ?_, h3, h4⟩
        have : rh.2 - i = (rh.2 - (i + 1)) + 1 := by omega
        rw [this, List.getElem?_cons_succ]
        exact h2
    · rintro ⟨h1, r', h2, h3, h4⟩
      by_cases hi : rh.2 = i
      · left
        have : r' = r := by
          rw [hi] at h2
          simpa using h2.symm
        subst this
        rw [h3, h4]
        simp only [if_true, List.mem_singleton]
        exact Prod.ext rfl hi
      · right
        refine ⟨by omega, r', ?_, h3, h4⟩
        have : rh.2 - i = (rh.2 - (i + 1)) + 1 := by omega
        rw [this, List.getElem?_cons_succ] at h2
        exact h2

theorem new_tree : ∀ m ∈ Gen.httpMethods, assocGet Router.new.trees m = some Node.root := by
  intro m hm
  simp only [Gen.httpMethods, List.mem_cons, List.mem_nil_iff, or_false] at hm
  rcases hm with rfl | rfl | rfl | rfl | rfl | rfl | rfl | rfl | rfl <;> rfl

/-- **the method trees of an accepted list**: the tree of method `m` is the tree built from the
    registrations of `m`, in order, and every one of them was accepted by it -/
theorem trees_of_regsOK (E : Engine) : ∀ regs : List Reg, RegsOK (accReal E) regs →
    ∀ m ∈ Gen.httpMethods,
      assocGet (routerOfRegs E regs).trees m = some (build E (histOf m 0 regs)) ∧
      accepted E (histOf m 0 regs) = histOf m 0 regs := by
  apply Dsl.snoc_induction
  · intro _ m hm
    exact ⟨new_tree m hm, rfl⟩
  · intro regs r ih hok m hm
    obtain ⟨ih1, ih2⟩ := ih hok.prefix m hm
    have hacc := hok.last.1
    unfold accReal at hacc
    rw [routerOfRegs_snoc, histOf_append]
    simp only [histOf, Nat.zero_add, List.append_nil]
    unfold opOf
    cases hp : parse r.path with
    | none => simp [hp] at hacc
    | some ast =>
      cases hk : methodKey r.method with
      | none => simp [hp, hk] at hacc
      | some m' =>
        simp only [hp, hk] at hacc ⊢
        obtain ⟨t, t', ht, ha, htrees, _⟩ := addMethods_single_true E _ _ _ _ hacc
        simp only [Router.apply, htrees]
        by_cases hmm : m' = m
        · subst hmm
          rw [ih1] at ht
          cases ht
          simp only [if_true]
          refine ⟨?_, ?_⟩
          · rw [assocGet_assocSet_same, build_snoc, ha]
          · unfold accepted at ih2 ⊢
            rw [acceptedFrom_append, ih2]
            show _ ++ acceptedFrom E (build E _) _ = _
            simp only [acceptedFrom, ha]
        · simp only [hmm, if_false, List.append_nil]
          exact ⟨by rw [assocGet_assocSet_other _ _ _ _ (fun e => hmm e.symm)]; exact ih1, ih2⟩

/-! ### 7. dispatch on the router of an accepted list -/

theorem histOf_parsed (m : String) (regs : List Reg) :
    ∀ rh ∈ histOf m 0 regs, ∀ s ∈ rh.1.segs, ParsedSeg s = true := by
  intro rh h
  obtain ⟨_, r, _, hp, _⟩ := (mem_histOf m regs 0 rh).mp h
  exact parsedSeg_of_parse hp

/-- **the leaf a request is dispatched to belongs to a registration of the request's method one
    of whose forms admits the path**, and it carries that registration's number -/
theorem serve_handler_reg (E : Engine) (regs : List Reg) (hok : RegsOK (accReal E) regs)
    (req : Request) (l : Leaf) (ps : Params)
    (h : (routerOfRegs E regs).serve E req = .handler l ps) :
    ∃ r ast, regs[l.hid]? = some r ∧ methodKey r.method = some req.method ∧ parse r.path = some ast ∧
      ∃ f ∈ formsOfRoute E ast l.hid, f.long = l.long ∧
        f.Admits E (fun _ => true) (C01.segsOf req.path) := by
  obtain ⟨hparsed, hdistinct⟩ := opsOfRegs_ok regs
  unfold routerOfRegs at h
  rw [C10.shortcut_unobservable E _ hparsed hdistinct req] at h
  by_cases hm : req.method ∈ Gen.httpMethods
  · obtain ⟨ht, hacc⟩ := trees_of_regsOK E regs hok req.method hm
    unfold routerOfRegs at ht
    have hc : C01.chosen E (fun _ => true) (build E (histOf req.method 0 regs)) req.path = some l := by
      have hh := routerOfRegs_hok E regs req.hdrs
      unfold routerOfRegs at hh
      unfold Router.serveTreeOnly at h
      rw [ht, hh] at h
      unfold C01.chosen
      cases hmt : (build E (histOf req.method 0 regs)).match E (fun _ => true) req.path with
      | none => simp [hmt] at h
      | some lp =>
        obtain ⟨l', ps'⟩ := lp
        simp only [hmt] at h
        cases h
        rfl
    obtain ⟨rh, hrh, f, hf, h1, h2, h3⟩ :=
      C01.dispatch_sound E _ _ (histOf_parsed req.method regs) req.path l hc
    rw [hacc] at hrh
    obtain ⟨_, r, hr1, hr2, hr3⟩ := (mem_histOf req.method regs 0 rh).mp hrh
    have hid : rh.2 = l.hid := by rw [← h1]; exact (formsOfRoute_hid hf).symm
    refine ⟨r, rh.1, by simpa [hid] using hr1, hr3, hr2, f, by rw [← hid]; exact hf, h2, h3⟩
  · exfalso
    have := unknown_method_no_tree E (opsOfRegs regs) req.method hm
    simp [Router.serveTreeOnly, this] at h

/-- conversely, a registration of the request's method with an admitting form gets the request
    dispatched (to it or to a preferred alternative) -/
theorem serve_of_admitting (E : Engine) (regs : List Reg) (hok : RegsOK (accReal E) regs)
    (req : Request) (k : Nat) (r : Reg) (ast : Route) (hr : regs[k]? = some r)
    (hm : methodKey r.method = some req.method) (hp : parse r.path = some ast)
    (f : Form) (hf : f ∈ formsOfRoute E ast k) (ha : f.Admits E (fun _ => true) (C01.segsOf req.path)) :
    ∃ l ps, (routerOfRegs E regs).serve E req = .handler l ps := by
  obtain ⟨hparsed, hdistinct⟩ := opsOfRegs_ok regs
  obtain ⟨ht, hacc⟩ := trees_of_regsOK E regs hok req.method (methodKey_mem hm)
  have hh := routerOfRegs_hok E regs req.hdrs
  unfold routerOfRegs at ht hh ⊢
  rw [C10.shortcut_unobservable E _ hparsed hdistinct req,
    C01.router_tree_dispatch E _ req _ ht, hh,
    C01.dispatch_iff E _ _ (histOf_parsed req.method regs) req.path, hacc]
  exact ⟨(ast, k), (mem_histOf req.method regs 0 (ast, k)).mpr ⟨Nat.zero_le _, r, by simpa using hr, hp, hm⟩,
    f, hf, ha⟩

/-! ### the chain a dispatched request starts -/

/-- when no Before hook stops the request and the started chain is a route's, the router chose a
    leaf of that number and `createContext` assembled middleware, that registration's handlers
    and the action around the matched parameters -/
theorem serve_route_run (E : Engine) (app : App) (req : Request) (hb : AllPass app.befores)
    (run : Run) (k : Nat) (hr : (app.serve E req).runs = [run]) (hw : run.which = .route k) :
    ∃ l ps, (Router.run E app.ops).serve E (app.trim req) = .handler l ps ∧ l.hid = k ∧
      run.params = ps ∧
      run.cfg = app.cfgFor ps (app.handlersOf k) ((app.trim req).method == "HEAD") ∧
      run.st = Chain.serve run.cfg := by
  unfold App.serve App.serveWith at hr
  rw [runBefores_allPass _ _ hb] at hr
  simp only [List.cons.injEq, and_true] at hr
  subst hr
  simp only at hw ⊢
  cases ho : (Router.run E app.ops).serve E (app.trim req) with
  | notFound => simp [ho, App.target] at hw
  | handler l ps =>
    simp only [ho, App.target, Which.route.injEq] at hw ⊢
    refine ⟨l, ps, ?_, hw, ?_, ?_, ?_⟩ <;> first | trivial | rfl | (rw [hw])

end Flamego.DslApp
