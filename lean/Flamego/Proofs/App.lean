/-
  Proofs/App.lean — lemmas behind Props/C07App: the Before-hook loop, the chain `createContext`
  assembles, and the key sets of the router's method trees and fast-path table (an unknown method
  has no tree and no table entry, whatever the history).
-/
import Flamego.Model.App
import Flamego.Proofs.Chain
import Flamego.Proofs.Assoc

namespace Flamego.C07
open Flamego.App Flamego.Chain Flamego.Writer

/-- no Before hook stops the request: every hook returns false -/
def AllPass (bs : List BeforeKind) : Prop := ∀ b ∈ bs, b = BeforeKind.pass

instance (bs : List BeforeKind) : Decidable (AllPass bs) := by unfold AllPass; infer_instance

/-- what a stopping hook `stop w` sends to the client's writer itself -/
def stopWrites : Option (Nat × Nat) → List UEv
  | none => []
  | some (code, n) => [UEv.hdr code, UEv.body n]

theorem runBefores_allPass (bs : List BeforeKind) (i : Nat) (h : AllPass bs) :
    runBefores bs i = (List.range' i bs.length, none) := by
  induction bs generalizing i with
  | nil => rfl
  | cons b rest ih =>
    have hb : b = .pass := h b (List.mem_cons_self ..)
    subst hb
    have := ih (i + 1) (fun b hb => h b (List.mem_cons_of_mem _ hb))
    simp [runBefores, this, List.range'_succ]

theorem runBefores_stop (pre post : List BeforeKind) (w : Option (Nat × Nat)) (i : Nat)
    (h : AllPass pre) :
    runBefores (pre ++ .stop w :: post) i = (List.range' i (pre.length + 1), some (stopWrites w)) := by
  induction pre generalizing i with
  | nil => cases w <;> rfl
  | cons b rest ih =>
    have hb : b = .pass := h b (List.mem_cons_self ..)
    subst hb
    have := ih (i + 1) (fun b hb => h b (List.mem_cons_of_mem _ hb))
    simp only [List.cons_append, runBefores, this, List.length_cons]
    simp [List.range'_succ]

/-- the chain the application assembles for a handler list: `f.handlers ++ handlers`, each handler
    reading the parameters `ps` -/
theorem cfgFor_chain (app : App) (ps : Params) (hs : List Handler) (head : Bool) :
    (app.cfgFor ps hs head).chain = (app.middleware ++ hs).map (Handler.inst ps) := by
  simp [App.cfgFor, Cfg.chain]

/-- the two cases are exhaustive: either every hook passes or there is a first one that stops -/
theorem befores_split (bs : List BeforeKind) :
    AllPass bs ∨ ∃ pre w post, bs = pre ++ .stop w :: post ∧ AllPass pre := by
  induction bs with
  | nil => exact Or.inl (fun _ h => by cases h)
  | cons b rest ih =>
    cases b with
    | stop w => exact Or.inr ⟨[], w, rest, rfl, fun _ h => by cases h⟩
    | pass =>
      rcases ih with h | ⟨pre, w, post, he, hp⟩
      · exact Or.inl (fun b hb => by
          rcases List.mem_cons.mp hb with h' | h'
          · exact h'
          · exact h b h')
      · refine Or.inr ⟨.pass :: pre, w, post, by rw [he]; rfl, fun b hb => ?_⟩
        rcases List.mem_cons.mp hb with h' | h'
        · exact h'
        · exact hp b h'


/-! ### the method trees: `newRouter()` creates one per HTTP method and nothing ever adds a key -/

theorem assocGet_none_of_not_mem {α β} [BEq α] [LawfulBEq α] (l : List (α × β)) (k : α)
    (h : k ∉ l.map Prod.fst) : assocGet l k = none := by
  induction l with
  | nil => rfl
  | cons p rest ih =>
    obtain ⟨k', v'⟩ := p
    have h1 : k ≠ k' := fun e => h (by simp [e])
    have h2 : k ∉ rest.map Prod.fst := fun m => h (by simp [List.mem_map] at m ⊢; exact Or.inr m)
    have h3 : (k' == k) = false := by simpa using fun e : k' = k => h1 e.symm
    have := ih h2
    simp only [assocGet, List.find?, h3] at this ⊢
    exact this

theorem assocSet_keys {α β} [BEq α] [LawfulBEq α] (l : List (α × β)) (k : α) (v w : β)
    (h : assocGet l k = some w) : (assocSet l k v).map Prod.fst = l.map Prod.fst := by
  induction l with
  | nil => simp [assocGet] at h
  | cons p rest ih =>
    obtain ⟨k', v'⟩ := p
    by_cases hk : (k' == k) = true
    · have : k' = k := by simpa using hk
      simp [assocSet, this]
    · have h' : assocGet rest k = some w := by
        simp only [assocGet, List.find?, hk] at h ⊢
        exact h
      simp [assocSet, hk, ih h']

theorem addMethods_tree_keys (E : Engine) (hid : Nat) (r : Route) :
    ∀ (ms : List String) (R : Router) (acc : List (String × Leaf)),
      (R.addMethods E hid r ms acc).1.trees.map Prod.fst = R.trees.map Prod.fst := by
  intro ms
  induction ms with
  | nil => intro R acc; simp [Router.addMethods]
  | cons m ms ih =>
    intro R acc
    rw [Router.addMethods]
    cases hg : assocGet R.trees m with
    | none => rfl
    | some t =>
      simp only []
      cases addRoute E t r hid with
      | error e => rfl
      | ok t' =>
        simp only []
        cases findLongLeaf hid t' with
        | none => rfl
        | some leaf =>
          simp only []
          rw [ih]
          split <;> exact assocSet_keys _ _ _ _ hg

theorem apply_tree_keys (E : Engine) (R : Router) (op : RouterOp) :
    (R.apply E op).trees.map Prod.fst = R.trees.map Prod.fst := by
  cases op with
  | add hid r ms => exact addMethods_tree_keys E hid r ms R []
  | headers hid pairs =>
    simp only [Router.apply, Router.setHeaders]
    split <;> rfl
  | name hid nm =>
    simp only [Router.apply, Router.setName]
    split
    · rfl
    · split
      · rfl
      · split <;> rfl

/-- after any history the router has exactly the trees `newRouter()` made: one per HTTP method -/
theorem run_tree_keys (E : Engine) (ops : List RouterOp) :
    (Router.run E ops).trees.map Prod.fst = Gen.httpMethods := by
  have h : ∀ (ops : List RouterOp) (R : Router),
      (Router.runFrom E R ops).trees.map Prod.fst = R.trees.map Prod.fst := by
    intro ops
    induction ops with
    | nil => intro R; rfl
    | cons op ops ih =>
      intro R
      show (Router.runFrom E (R.apply E op) ops).trees.map Prod.fst = _
      rw [ih, apply_tree_keys]
  rw [Router.run, h]
  simp [Router.new, List.map_map, Function.comp_def]

/-- "the method is unknown": a method token outside the nine of router.go has no tree -/
theorem unknown_method_no_tree (E : Engine) (ops : List RouterOp) (m : String)
    (hm : m ∉ Gen.httpMethods) : assocGet (Router.run E ops).trees m = none :=
  assocGet_none_of_not_mem _ _ (by rw [run_tree_keys]; exact hm)

/-! ### the fast-path table only has entries for methods that have a tree -/

theorem assocGet_some_mem_keys {α β} [BEq α] [LawfulBEq α] (l : List (α × β)) (k : α) (v : β)
    (h : assocGet l k = some v) : k ∈ l.map Prod.fst := by
  by_cases hm : k ∈ l.map Prod.fst
  · exact hm
  · rw [assocGet_none_of_not_mem l k hm] at h; cases h

theorem assocSet_keys_subset {α β} [BEq α] [LawfulBEq α] (l : List (α × β)) (k : α) (v : β) (k' : α)
    (h : k' ∈ (assocSet l k v).map Prod.fst) : k' = k ∨ k' ∈ l.map Prod.fst := by
  induction l with
  | nil => simp [assocSet] at h; exact Or.inl h
  | cons p rest ih =>
    obtain ⟨k0, v0⟩ := p
    by_cases hk : (k0 == k) = true
    · simp only [assocSet, hk, if_true, List.map_cons, List.mem_cons] at h
      rcases h with h | h
      · exact Or.inl h
      · exact Or.inr (by simp only [List.map_cons, List.mem_cons]; exact Or.inr h)
    · have hk' : (k0 == k) = false := by simpa using hk
      simp only [assocSet, hk', Bool.false_eq_true, if_false, List.map_cons, List.mem_cons] at h
      rcases h with h | h
      · exact Or.inr (by simp only [List.map_cons, List.mem_cons]; exact Or.inl h)
      · rcases ih h with h' | h'
        · exact Or.inl h'
        · exact Or.inr (by simp only [List.map_cons, List.mem_cons]; exact Or.inr h')

theorem assocDel_keys_subset {α β} [BEq α] (l : List (α × β)) (k k' : α)
    (h : k' ∈ (assocDel l k).map Prod.fst) : k' ∈ l.map Prod.fst := by
  simp only [assocDel, List.mem_map, List.mem_filter] at h ⊢
  obtain ⟨p, ⟨hp, _⟩, he⟩ := h
  exact ⟨p, hp, he⟩

theorem evict_keys_subset (ls : List (String × Leaf)) : ∀ (st : List ((String × Bytes) × Leaf))
    (k : String × Bytes),
    k ∈ (ls.foldl (fun st (x : String × Leaf) =>
      if x.2.allStatic then assocDel st (x.1, x.2.route.render) else st) st).map Prod.fst →
    k ∈ st.map Prod.fst := by
  induction ls with
  | nil => intro st k h; exact h
  | cons x xs ih =>
    intro st k h
    simp only [List.foldl] at h
    have := ih _ k h
    split at this
    · exact assocDel_keys_subset _ _ _ this
    · exact this

theorem addMethods_statics_methods (E : Engine) (hid : Nat) (r : Route) :
    ∀ (ms : List String) (R : Router) (acc : List (String × Leaf)),
      (∀ k ∈ R.statics.map Prod.fst, k.1 ∈ R.trees.map Prod.fst) →
      ∀ k ∈ (R.addMethods E hid r ms acc).1.statics.map Prod.fst, k.1 ∈ R.trees.map Prod.fst := by
  intro ms
  induction ms with
  | nil => intro R acc h; simpa [Router.addMethods] using h
  | cons m ms ih =>
    intro R acc h
    rw [Router.addMethods]
    cases hg : assocGet R.trees m with
    | none => exact h
    | some t =>
      simp only []
      cases addRoute E t r hid with
      | error e => exact h
      | ok t' =>
        simp only []
        cases findLongLeaf hid t' with
        | none => exact h
        | some leaf =>
          simp only []
          have hkeys := assocSet_keys R.trees m t' t hg
          have hm : m ∈ R.trees.map Prod.fst := assocGet_some_mem_keys _ _ _ hg
          intro k hk
          split at hk
          · have := ih _ _ (by
              intro k' hk'
              simp only [hkeys]
              rcases assocSet_keys_subset _ _ _ _ hk' with he | hin
              · rw [he]; exact hm
              · exact h k' hin) k hk
            simpa only [hkeys] using this
          · have := ih _ _ (by
              intro k' hk'
              simp only [hkeys]
              exact h k' hk') k hk
            simpa only [hkeys] using this

theorem apply_statics_methods (E : Engine) (R : Router) (op : RouterOp)
    (h : ∀ k ∈ R.statics.map Prod.fst, k.1 ∈ R.trees.map Prod.fst) :
    ∀ k ∈ (R.apply E op).statics.map Prod.fst, k.1 ∈ R.trees.map Prod.fst := by
  cases op with
  | add hid r ms => exact addMethods_statics_methods E hid r ms R [] h
  | headers hid pairs =>
    simp only [Router.apply, Router.setHeaders]
    split
    · exact h
    · intro k hk
      exact h k (evict_keys_subset _ _ _ hk)
  | name hid nm =>
    simp only [Router.apply, Router.setName]
    split
    · exact h
    · split
      · exact h
      · split <;> exact h

/-- after any history every key of the fast-path table carries one of router.go's nine methods -/
theorem run_statics_methods (E : Engine) (ops : List RouterOp) :
    ∀ k ∈ (Router.run E ops).statics.map Prod.fst, k.1 ∈ Gen.httpMethods := by
  have h : ∀ (ops : List RouterOp) (R : Router),
      (∀ k ∈ R.statics.map Prod.fst, k.1 ∈ R.trees.map Prod.fst) →
      ∀ k ∈ (Router.runFrom E R ops).statics.map Prod.fst, k.1 ∈ R.trees.map Prod.fst := by
    intro ops
    induction ops with
    | nil => intro R h; exact h
    | cons op ops ih =>
      intro R h
      show ∀ k ∈ (Router.runFrom E (R.apply E op) ops).statics.map Prod.fst, _
      have := ih (R.apply E op) (by rw [apply_tree_keys]; exact apply_statics_methods E R op h)
      rw [apply_tree_keys] at this
      exact this
  have h0 := h ops Router.new (by intro k hk; simp [Router.new] at hk)
  intro k hk
  have := h0 k hk
  simpa [Router.new, List.map_map, Function.comp_def] using this

/-- a method token outside the nine never hits the fast-path table -/
theorem unknown_method_no_static (E : Engine) (ops : List RouterOp) (m : String) (p : Bytes)
    (hm : m ∉ Gen.httpMethods) : assocGet (Router.run E ops).statics (m, p) = none :=
  assocGet_none_of_not_mem _ _ (fun hk => hm (run_statics_methods E ops (m, p) hk))

end Flamego.C07
