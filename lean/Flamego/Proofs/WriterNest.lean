/-
  Proofs/WriterNest.lean — a stack of two response writers projects onto two ordinary writers: the inner one
  performs the caller's operation (with the outer writer's answer as the number of accepted bytes), the outer
  one performs the operations the inner one forwards.  Every theorem of Props/C13 therefore holds at both levels.
-/
import Flamego.Model.WriterNest
import Flamego.Proofs.Writer
namespace Flamego.Writer

theorem writeHeader_head (w : W) (c : Nat) : (w.writeHeader c).head = w.head := by
  unfold W.writeHeader
  split
  · rfl
  · split <;> rfl

theorem ensure_head (w : W) : w.ensure.head = w.head := by
  unfold W.ensure
  split
  · rfl
  · exact writeHeader_head _ _

theorem step_head (w : W) (op : Op) : (step w op).head = w.head := by
  cases op <;> simp only [step]
  · exact writeHeader_head _ _
  · split <;> simp [ensure_head]
  · simp [ensure_head]

theorem viaOuter_i (n : Nest) (op : Op) : (n.viaOuter op).i = n.i := rfl
theorem viaOuter_o (n : Nest) (op : Op) : (n.viaOuter op).o = step n.o op := rfl

theorem innerHeader_i (n : Nest) (c : Nat) : (n.innerHeader c).i = n.i.writeHeader c := by
  unfold Nest.innerHeader
  split
  · rename_i h; simp [W.writeHeader, h]
  · split <;> rfl

theorem innerHeader_o (n : Nest) (c : Nat) :
    (n.innerHeader c).o = runFrom n.o (if n.i.onceDone || n.i.written then [] else [.writeHeader c]) := by
  unfold Nest.innerHeader
  split
  · rename_i h; simp [h, runFrom]
  · rename_i h
    split
    · rename_i h2; simp [h2, runFrom]
    · rename_i h2; simp [h, h2, runFrom, Nest.viaOuter]

theorem innerEnsure_i (n : Nest) : n.innerEnsure.i = n.i.ensure := by
  unfold Nest.innerEnsure W.ensure
  split
  · rfl
  · exact innerHeader_i _ _

theorem innerEnsure_o (n : Nest) :
    n.innerEnsure.o = runFrom n.o (if n.i.written || n.i.onceDone then [] else [.writeHeader Gen.writerWriteImplicitStatus]) := by
  unfold Nest.innerEnsure
  split
  · rename_i h; simp [h, runFrom]
  · rename_i h
    rw [innerHeader_o]
    have : n.i.written = false := by simpa using h
    simp [this, Bool.or_comm]

theorem innerEnsure_o_head (n : Nest) : n.innerEnsure.o.head = n.o.head := by
  rw [innerEnsure_o]
  split
  · rfl
  · simp [runFrom, step_head]

/-- the inner writer of a stack behaves as a writer on its own: it performs the caller's operation, the
    number of accepted bytes being what the outer writer reports back -/
theorem stepInner_inner (n : Nest) (op : Op) : (n.stepInner op).i = step n.i (innerOp n.o op) := by
  cases op with
  | writeHeader c => simp [Nest.stepInner, innerOp, step, innerHeader_i]
  | write len fwd =>
    simp only [Nest.stepInner, innerOp, step]
    have hh : n.innerEnsure.i.head = n.i.ensure.head := by rw [innerEnsure_i]
    split
    · rename_i h; rw [innerEnsure_i] at h ⊢; simp [h]
    · rename_i h
      rw [innerEnsure_i] at h
      simp only [viaOuter_i, innerEnsure_i, h]
      simp [outerAccepts, innerEnsure_o_head]
  | flush => simp [Nest.stepInner, innerOp, step, viaOuter_i, innerEnsure_i]
  | before h => simp [Nest.stepInner, innerOp]
  | status => simp [Nest.stepInner, innerOp, step]
  | size => simp [Nest.stepInner, innerOp, step]
  | written => simp [Nest.stepInner, innerOp, step]

/-- … and the outer writer performs exactly the operations the inner one forwards -/
theorem stepInner_outer (n : Nest) (op : Op) : (n.stepInner op).o = runFrom n.o (forwarded n.i op) := by
  cases op with
  | writeHeader c => simp [Nest.stepInner, forwarded, innerHeader_o]
  | write len fwd =>
    simp only [Nest.stepInner, forwarded]
    split
    · rename_i h
      rw [innerEnsure_i, ensure_head] at h
      simp [h, innerEnsure_o]
    · rename_i h
      rw [innerEnsure_i, ensure_head] at h
      simp only [viaOuter_o, innerEnsure_o, h, runFrom_append]
      simp [runFrom]
  | flush =>
    simp only [Nest.stepInner, forwarded, viaOuter_o, innerEnsure_o, runFrom_append]
    simp [runFrom]
  | before h => simp [Nest.stepInner, forwarded, runFrom]
  | status => simp [Nest.stepInner, forwarded, runFrom]
  | size => simp [Nest.stepInner, forwarded, runFrom]
  | written => simp [Nest.stepInner, forwarded, runFrom]

/-- the operations each level has performed after a session on the stack -/
def projOps : Nest → List (Bool × Op) → List Op × List Op
  | _, [] => ([], [])
  | n, (true, op) :: rest =>
    let r := projOps (n.stepInner op) rest
    (forwarded n.i op ++ r.1, innerOp n.o op :: r.2)
  | n, (false, op) :: rest =>
    let r := projOps (n.stepOuter op) rest
    (op :: r.1, r.2)

theorem foldl_proj (n : Nest) (ops : List (Bool × Op)) :
    (ops.foldl Nest.step n).o = runFrom n.o (projOps n ops).1 ∧
    (ops.foldl Nest.step n).i = runFrom n.i (projOps n ops).2 := by
  induction ops generalizing n with
  | nil => simp [projOps, runFrom]
  | cons x xs ih =>
    obtain ⟨lv, op⟩ := x
    cases lv with
    | true =>
      have := ih (n.stepInner op)
      simp only [List.foldl_cons, Nest.step, projOps, if_true, runFrom_append]
      rw [this.1, this.2, stepInner_outer, stepInner_inner]
      exact ⟨rfl, by simp [runFrom]⟩
    | false =>
      have := ih (n.stepOuter op)
      simp only [List.foldl_cons, Nest.step, projOps, Bool.false_eq_true, if_false]
      rw [this.1, this.2]
      exact ⟨by simp [runFrom, Nest.stepOuter, viaOuter_o], by simp [Nest.stepOuter, viaOuter_i]⟩

theorem forwarded_valid (i : W) (op : Op) (hv : op.valid) : ∀ q ∈ forwarded i op, q.valid := by
  intro q hq
  cases op <;> simp only [forwarded] at hq
  · split at hq <;> simp at hq; subst hq; exact hv
  · simp only [List.mem_append] at hq
    rcases hq with hq | hq
    · split at hq <;> simp at hq; subst hq; simp [Op.valid]
    · split at hq <;> simp at hq; subst hq; exact hv
  · simp only [List.mem_append] at hq
    rcases hq with hq | hq
    · split at hq <;> simp at hq; subst hq; simp [Op.valid]
    · simp at hq; subst hq; exact hv
  all_goals simp at hq

theorem innerOp_valid (o : W) (op : Op) (hv : op.valid) : (innerOp o op).valid := by
  cases op <;> simp [innerOp, Op.valid] at hv ⊢ <;> try exact hv

end Flamego.Writer
