/-
  Proofs/ParamsDistinct.lean — no name occurs twice in the parameter map the matcher builds: every write goes through
  `Params.set`, which replaces an existing entry.  Used by Props/C02BaseTreeCode (the final percent-decoding loop of
  `Tree.Match` rewrites each entry in place).
-/
import Flamego.Proofs.TreeIdx
set_option linter.unusedSimpArgs false
set_option linter.unusedVariables false
namespace Flamego.ParamsDistinct
open Flamego

/-- no name occurs twice in a parameter map (as a list of entries) -/
def KeysDistinct (ps : Params) : Prop := ps.Pairwise (fun a b => a.1 ≠ b.1)

theorem set_keys (ps : Params) (k v : Bytes) : ∀ x ∈ ps.set k v, x.1 = k ∨ ∃ y ∈ ps, y.1 = x.1 := by
  induction ps with
  | nil => intro x hx; simp [Params.set] at hx; left; rw [hx]
  | cons p ps ih =>
    intro x hx
    simp only [Params.set] at hx
    split at hx
    · rcases List.mem_cons.mp hx with h0 | h
      · left; rw [h0]
      · right; exact ⟨x, List.mem_cons_of_mem _ h, rfl⟩
    · rcases List.mem_cons.mp hx with h0 | h
      · right; exact ⟨p, List.mem_cons_self .., by rw [h0]⟩
      · rcases ih x h with h1 | ⟨y, hy, e⟩
        · left; exact h1
        · right; exact ⟨y, List.mem_cons_of_mem _ hy, e⟩

theorem set_distinct (ps : Params) (k v : Bytes) (h : KeysDistinct ps) : KeysDistinct (ps.set k v) := by
  induction ps with
  | nil => simp [Params.set, KeysDistinct]
  | cons p ps ih =>
    obtain ⟨hp, hps⟩ := List.pairwise_cons.mp h
    simp only [Params.set]
    split
    · rename_i hk
      refine List.pairwise_cons.mpr ⟨?_, hps⟩
      intro b hb; have := hp b hb; rw [hk] at this; exact this
    · rename_i hk
      refine List.pairwise_cons.mpr ⟨?_, ih hps⟩
      intro b hb
      rcases set_keys ps k v b hb with h1 | ⟨y, hy, e⟩
      · rw [h1]; exact hk
      · rw [← e]; exact hp y hy

theorem writeBinds_distinct (bs vs : List Bytes) (ps : Params) (h : KeysDistinct ps) :
    KeysDistinct (treeMatch.writeBinds bs vs ps) := by
  induction bs generalizing vs ps with
  | nil => simpa [treeMatch.writeBinds] using h
  | cons b bs ih =>
    cases vs with
    | nil => simpa [treeMatch.writeBinds] using h
    | cons v vs =>
      simp only [treeMatch.writeBinds]
      apply ih
      split
      · exact h
      · exact set_distinct ps b v h

theorem treeMatch_distinct (E : Engine) (pat : Pat) (s : Seg) (ps ps' : Params) (h : KeysDistinct ps)
    (hm : treeMatch E pat s ps = some ps') : KeysDistinct ps' := by
  unfold treeMatch at hm
  split at hm
  · split at hm <;> cases hm; exact h
  · cases hm; exact set_distinct _ _ _ h
  · split at hm
    · cases hm
    · split at hm
      · cases hm
      · cases hm; exact writeBinds_distinct _ _ _ h
  · cases hm

theorem leafMatch_distinct (E : Engine) (hok : Nat → Bool) (l : Leaf) (s : Seg) (ps ps' : Params) (h : KeysDistinct ps)
    (hm : leafMatch E hok l s ps = some ps') : KeysDistinct ps' := by
  unfold leafMatch at hm
  split at hm
  · split at hm <;> cases hm; exact h
  · split at hm <;> cases hm; exact set_distinct _ _ _ h
  · split at hm <;> cases hm; exact set_distinct _ _ _ h
  · split at hm
    · cases hm
    · split at hm
      · cases hm
      · split at hm
        · cases hm
        · cases hm; exact writeBinds_distinct _ _ _ h

theorem matchLeaves_distinct (E : Engine) (hok : Nat → Bool) (ls : List Leaf) (s : Seg) (ps : Params) (h : KeysDistinct ps) :
    KeysDistinct (matchLeaves E hok ls s ps).2 := by
  induction ls with
  | nil => simpa [matchLeaves] using h
  | cons l ls ih =>
    simp only [matchLeaves]
    cases hm : leafMatch E hok l s ps with
    | some ps' => exact leafMatch_distinct E hok l s ps ps' h hm
    | none => exact ih

theorem matchAllLeaf_distinct (hok : Nat → Bool) (ls : List Leaf) (s : Seg) (rest : List Seg) (ps : Params)
    (h : KeysDistinct ps) : KeysDistinct (matchAllLeaf hok ls s rest ps).2 := by
  unfold matchAllLeaf
  split
  · exact h
  · split
    · split
      · exact h
      · split
        · exact h
        · exact set_distinct _ _ _ h
    · exact h

theorem match_distinct_all (E : Engine) (hok : Nat → Bool) :
    (∀ subs leaves s rest ps, KeysDistinct ps → KeysDistinct (matchNext E hok subs leaves s rest ps).2) ∧
    (∀ subs leaves s s' rest' ps, KeysDistinct ps → KeysDistinct (matchSubs E hok subs leaves s s' rest' ps).2) ∧
    (∀ csubs cleaves b cap captured acc s' rest' ps, KeysDistinct ps →
      KeysDistinct (matchAllLoop E hok csubs cleaves b cap captured acc s' rest' ps).2) := by
  apply matchNext.mutual_induct E hok
    (fun subs leaves s rest ps => KeysDistinct ps → KeysDistinct (matchNext E hok subs leaves s rest ps).2)
    (fun subs leaves s s' rest' ps => KeysDistinct ps → KeysDistinct (matchSubs E hok subs leaves s s' rest' ps).2)
    (fun csubs cleaves b cap captured acc s' rest' ps => KeysDistinct ps →
      KeysDistinct (matchAllLoop E hok csubs cleaves b cap captured acc s' rest' ps).2)
  · intro subs leaves s ps h
    rw [matchNext]; exact matchLeaves_distinct E hok leaves s ps h
  · intro subs leaves s ps s' rest' ih h
    rw [matchNext]; exact ih h
  · intro leaves s s' rest' ps h
    rw [matchSubs]; exact matchAllLeaf_distinct hok leaves s _ ps h
  · intro leaves s s' rest' ps key csubs cleaves more b cap l ps' hm ih h
    rw [matchSubs]; simp only [hm]
    have := ih h; rw [hm] at this; exact this
  · intro leaves s s' rest' ps key csubs cleaves more b cap ps' hm ih h
    rw [matchSubs]; simp only [hm]
    have := ih h; rw [hm] at this
    exact matchAllLeaf_distinct hok leaves s _ ps' this
  · intro leaves s s' rest' ps key cpat csubs cleaves more hm hna ih h
    rw [matchSubs]
    · simp only [hm]; exact ih h
    · exact hna
  · intro leaves s s' rest' ps key cpat csubs cleaves more ps1 hm l ps' hn hna ih h
    rw [matchSubs]
    · simp only [hm, hn]
      have := ih (treeMatch_distinct E cpat s ps ps1 h hm); rw [hn] at this; exact this
    · exact hna
  · intro leaves s s' rest' ps key cpat csubs cleaves more ps1 hm ps' hn hna ih ih2 h
    rw [matchSubs]
    · simp only [hm, hn]
      have := ih (treeMatch_distinct E cpat s ps ps1 h hm); rw [hn] at this
      exact ih2 this
    · exact hna
  · intro csubs cleaves b cap captured acc s' rest' ps hcond l ps' hn ih h
    rw [matchAllLoop]; simp only [hcond, ↓reduceIte, hn]
    have := ih h; rw [hn] at this
    exact set_distinct _ _ _ this
  · intro csubs cleaves b cap captured acc s' ps hcond ps' hn ih h
    rw [matchAllLoop]; simp only [hcond, ↓reduceIte, hn]
    have := ih h; rw [hn] at this; exact this
  · intro csubs cleaves b cap captured acc s' ps hcond ps' s'' rest'' hn ih ih2 h
    rw [matchAllLoop]; simp only [hcond, ↓reduceIte, hn]
    have := ih h; rw [hn] at this
    exact ih2 this
  · intro csubs cleaves b cap captured acc s' rest' ps hcond h
    rw [matchAllLoop]; simp only [hcond]; exact h

theorem matchNext_distinct (E : Engine) (hok : Nat → Bool) (subs : List Node) (leaves : List Leaf) (s : Seg) (rest : List Seg)
    (ps : Params) (h : KeysDistinct ps) : KeysDistinct (matchNext E hok subs leaves s rest ps).2 :=
  (match_distinct_all E hok).1 subs leaves s rest ps h

end Flamego.ParamsDistinct
