/-
  Proofs/TreeAdd.lean — registration (`addLeafTo` / `addNext` / `addRoute` of Model/Tree.lean)
  maintains the tree invariant and stores exactly the forms of the accepted routes.

  0. the definitions the final theorems are stated with: `build`, `accepted`, `KeyFaithful`,
     `HistoryFaithful`, `ParsedSeg`
  1. insertion facts, generic in the element type (`insertByRank_*`)
  2. `addLeafTo_inv`, `addLeafTo_mem`
  3. `addNext_inv`, `addRoute_inv`, `addRoute_root_kept`
  4. `addRoute_forms` (under `KeyInv` + `KeyFaithful`, see the discussion there)
  5. histories: `build_inv`, `build_forms`
  6. `Segment.render` is injective on `ParsedSeg` (`parsedSeg_render_inj`), hence
     `addRoute_forms_parsed`, `build_forms_parsed` without an abstract hypothesis
  7. `forms_need_faithful`: on arbitrary ASTs the forms statement is false
-/
import Flamego.Spec.Dispatch
import Flamego.Proofs.Syntax
namespace Flamego

/-! ### 0. definitions used by the final statements -/

/-- register the history `h` on top of `t`, skipping the registrations that fail
    (a failed registration leaves the tree unchanged) -/
def buildFrom (E : Engine) (t : Node) : List (Route × Nat) → Node
  | [] => t
  | rh :: h =>
    match addRoute E t rh.1 rh.2 with
    | .ok t' => buildFrom E t' h
    | .error _ => buildFrom E t h

/-- the registrations of `h` that succeed on top of `t`, in order -/
def acceptedFrom (E : Engine) (t : Node) : List (Route × Nat) → List (Route × Nat)
  | [] => []
  | rh :: h =>
    match addRoute E t rh.1 rh.2 with
    | .ok t' => rh :: acceptedFrom E t' h
    | .error _ => acceptedFrom E t h

/-- the tree after the history `h` of `(route, id)` registrations, from `NewTree()` -/
def build (E : Engine) (h : List (Route × Nat)) : Node := buildFrom E Node.root h

/-- the registrations of `h` that succeeded, in order -/
def accepted (E : Engine) (h : List (Route × Nat)) : List (Route × Nat) :=
  acceptedFrom E Node.root h


/-- on the segment class `S`, the rendering determines the classification as a tree node -/
def KeyFaithful (E : Engine) (S : Segment → Prop) : Prop :=
  ∀ s₁ s₂, S s₁ → S s₂ → s₁.render = s₂.render → classifyTree E s₁ = classifyTree E s₂


/-- the condition on a history itself: among the segments of its accepted routes, equal renderings
    classify equally (decidable for a concrete history; true whenever the routes come from the
    parser, whose rendering is injective) -/
def HistoryFaithful (E : Engine) (h : List (Route × Nat)) : Prop :=
  KeyFaithful E (fun s => ∃ rh ∈ accepted E h, s ∈ rh.1.segs)


/-! the segments the parser produces: `ParsedSeg` keeps of the well-formedness of parser outputs
   (worker c06's `RouteGrammar.WFSeg`: texts over the lexer's Ident class, expressions over its
   Regex class, non-empty parameter lists, no two adjacent literal elements) just what makes
   `Segment.render` injective.  The Ident class contains no special byte and the Regex class no
   `/`, so every `WFSeg` segment is a `ParsedSeg`. -/

/-- the bytes with a meaning in the route syntax: `{ } / ? : ,` and the blank -/
def specialByte (c : UInt8) : Bool := [123, 125, 47, 63, 58, 44, 32].contains c

/-- a non-empty text without special bytes (identifiers, bind names, parameter names, literal values) -/
def cleanText (t : Bytes) : Bool := !t.isEmpty && t.all (fun c => !specialByte c)

/-- a literal value is a clean text; an expression `/…/` contains no `/` -/
def parsedVal : BindVal → Bool
  | .lit s => cleanText s
  | .re s => s.all (fun c => c != 47)

/-- `name: value` with a clean name -/
def parsedParam (p : BindParam) : Bool := cleanText p.ident && parsedVal p.val

/-- literal text and bind names are clean texts; a parameter list is not empty -/
def parsedElem : Elem → Bool
  | .ident s => cleanText s
  | .bind n => cleanText n
  | .params ps => !ps.isEmpty && ps.all parsedParam

/-- a literal element -/
def parsedIsIdent : Elem → Bool
  | .ident _ => true
  | _ => false

/-- no two adjacent literal elements (the lexer reads them as one identifier) -/
def parsedNoAdj : List Elem → Bool
  | a :: b :: rest => !(parsedIsIdent a && parsedIsIdent b) && parsedNoAdj (b :: rest)
  | _ => true

/-- what every segment of a parsed route satisfies and what makes `Segment.render` injective
    (`parsedSeg_render_inj`); decidable, so a concrete route is checked by evaluation -/
def ParsedSeg (s : Segment) : Bool := s.elems.all parsedElem && parsedNoAdj s.elems

/-- `/?{id: /[0-9]+/, x: y}-{name}` is a parsed segment; the static identifier `{a}` is not -/
example : ParsedSeg ⟨true, [.params [⟨[105, 100], .re [91, 48, 45, 57, 93, 43]⟩, ⟨[120], .lit [121]⟩],
    .ident [45], .bind [110]]⟩ = true ∧ ParsedSeg ⟨false, [.ident [123, 97, 125]]⟩ = false := by decide


/-! ### 1. insertion by rank -/

section Insert
variable {α : Type}

theorem insertByRank_mem (rank : α → Nat) (x y : α) (l : List α) :
    y ∈ insertByRank rank x l ↔ y = x ∨ y ∈ l := by
  induction l with
  | nil => simp [insertByRank]
  | cons z zs ih =>
    unfold insertByRank
    by_cases h : rank x < rank z
    · simp only [h, ↓reduceIte, List.mem_cons]
    · simp only [h, ↓reduceIte, List.mem_cons, ih]
      constructor
      · rintro (h1 | h1 | h1)
        · exact Or.inr (Or.inl h1)
        · exact Or.inl h1
        · exact Or.inr (Or.inr h1)
      · rintro (h1 | h1 | h1)
        · exact Or.inr (Or.inl h1)
        · exact Or.inl h1
        · exact Or.inr (Or.inr h1)

/-- where the new element lands, with no assumption on the list: after a prefix of elements of
    rank at most its own, immediately before the first element of strictly greater rank -/
theorem insertByRank_split_head (rank : α → Nat) (x : α) (l : List α) :
    ∃ pre post, l = pre ++ post ∧ insertByRank rank x l = pre ++ x :: post ∧
      (∀ y ∈ pre, rank y ≤ rank x) ∧ (∀ y, post.head? = some y → rank x < rank y) := by
  induction l with
  | nil => exact ⟨[], [], rfl, rfl, by simp, by simp⟩
  | cons y ys ih =>
    unfold insertByRank
    by_cases h : rank x < rank y
    · simp only [h, ↓reduceIte]
      exact ⟨[], y :: ys, rfl, rfl, by simp, by simp [h]⟩
    · simp only [h, ↓reduceIte]
      obtain ⟨pre, post, h1, h2, h3, h4⟩ := ih
      refine ⟨y :: pre, post, by simp [h1], by simp [h2], ?_, h4⟩
      intro z hz
      simp only [List.mem_cons] at hz
      rcases hz with rfl | hz
      · omega
      · exact h3 z hz

/-- the FIFO clause of the priority: in a list sorted by rank the new element lands after every
    element of lower *or equal* rank (first in, first served within a rank) and before every
    element of strictly greater rank -/
theorem insertByRank_split (rank : α → Nat) (x : α) (l : List α)
    (hs : l.Pairwise (fun a b => rank a ≤ rank b)) :
    ∃ pre post, l = pre ++ post ∧ insertByRank rank x l = pre ++ x :: post ∧
      (∀ y ∈ pre, rank y ≤ rank x) ∧ (∀ y ∈ post, rank x < rank y) := by
  obtain ⟨pre, post, h1, h2, h3, h4⟩ := insertByRank_split_head rank x l
  refine ⟨pre, post, h1, h2, h3, ?_⟩
  intro y hy
  cases post with
  | nil => cases hy
  | cons z zs =>
    have hz : rank x < rank z := h4 z rfl
    simp only [List.mem_cons] at hy
    rcases hy with rfl | hy
    · exact hz
    · rw [h1, List.pairwise_append] at hs
      have := (List.pairwise_cons.mp hs.2.1).1 y hy
      omega

theorem insertByRank_sorted (rank : α → Nat) (x : α) (l : List α)
    (hs : l.Pairwise (fun a b => rank a ≤ rank b)) :
    (insertByRank rank x l).Pairwise (fun a b => rank a ≤ rank b) := by
  obtain ⟨pre, post, h1, h2, h3, h4⟩ := insertByRank_split rank x l hs
  rw [h2]
  rw [h1, List.pairwise_append] at hs
  rw [List.pairwise_append, List.pairwise_cons]
  refine ⟨hs.1, ⟨fun y hy => Nat.le_of_lt (h4 y hy), hs.2.1⟩, ?_⟩
  intro a ha b hb
  simp only [List.mem_cons] at hb
  rcases hb with rfl | hb
  · exact h3 a ha
  · exact hs.2.2 a ha b hb

/-- a fresh key stays different from all the others -/
theorem insertByRank_keys {κ : Type} (rank : α → Nat) (key : α → κ) (x : α) (l : List α)
    (hk : l.Pairwise (fun a b => key a ≠ key b)) (hfresh : ∀ y ∈ l, key y ≠ key x) :
    (insertByRank rank x l).Pairwise (fun a b => key a ≠ key b) := by
  obtain ⟨pre, post, h1, h2, _, _⟩ := insertByRank_split_head rank x l
  rw [h2]
  rw [h1, List.pairwise_append] at hk
  rw [List.pairwise_append, List.pairwise_cons]
  refine ⟨hk.1, ⟨fun y hy => Ne.symm (hfresh y (by rw [h1]; simp [hy])), hk.2.1⟩, ?_⟩
  intro a ha b hb
  simp only [List.mem_cons] at hb
  rcases hb with rfl | hb
  · exact hfresh a (by rw [h1]; simp [ha])
  · exact hk.2.2 a ha b hb

end Insert

/-! ### rank facts read off the generated table: match-all has the highest rank -/

theorem Pat.rank_le_of_isAll (p q : Pat) (hq : q.isAll = true) : p.rank ≤ q.rank := by
  cases q <;> simp only [Pat.isAll, Bool.false_eq_true] at hq
  cases p <;> simp only [Pat.rank] <;> decide

theorem Pat.rank_lt_of_isAll (p q : Pat) (hp : p.isAll = false) (hq : q.isAll = true) :
    p.rank < q.rank := by
  cases q <;> simp only [Pat.isAll, Bool.false_eq_true] at hq
  cases p <;> simp only [Pat.isAll, Bool.true_eq_false] at hp <;> simp only [Pat.rank] <;> decide

/-- a pattern ranked at or below a non-match-all is not a match-all -/
theorem Pat.not_isAll_of_rank_le (p q : Pat) (hq : q.isAll = false) (h : p.rank ≤ q.rank) :
    p.isAll = false := by
  cases hp : p.isAll with
  | false => rfl
  | true => have := Pat.rank_lt_of_isAll q p hq hp; omega

section OneAll
variable {α : Type}

/-- `lastIsAll` is false and all but the last are no match-all: nothing is a match-all -/
theorem noAll_of_lastIsAll_false (pat : α → Pat) (l : List α)
    (h1 : l.Pairwise (fun a _ => (pat a).isAll = false)) (h2 : lastIsAll pat l = false) :
    ∀ y ∈ l, (pat y).isAll = false := by
  induction l with
  | nil => intro y hy; cases hy
  | cons z zs ih =>
    rw [List.pairwise_cons] at h1
    cases zs with
    | nil =>
      intro y hy
      simp only [List.mem_cons, List.not_mem_nil, or_false] at hy
      subst hy
      simpa [lastIsAll] using h2
    | cons w ws =>
      have h2' : lastIsAll pat (w :: ws) = false := by
        simpa [lastIsAll, List.getLast?_cons_cons] using h2
      intro y hy
      simp only [List.mem_cons] at hy
      rcases hy with rfl | hy
      · exact h1.1 w (by simp)
      · exact ih h1.2 h2' y (by simpa using hy)

/-- inserting something that is not a match-all keeps "at most one match-all, and it is last" -/
theorem insertByRank_oneAll_notAll (pat : α → Pat) (x : α) (l : List α)
    (h1 : l.Pairwise (fun a _ => (pat a).isAll = false)) (hx : (pat x).isAll = false) :
    (insertByRank (fun a => (pat a).rank) x l).Pairwise (fun a _ => (pat a).isAll = false) := by
  induction l with
  | nil => simp [insertByRank]
  | cons y ys ih =>
    unfold insertByRank
    by_cases h : (pat x).rank < (pat y).rank
    · simp only [h, ↓reduceIte]
      exact List.pairwise_cons.mpr ⟨fun _ _ => hx, h1⟩
    · simp only [h, ↓reduceIte]
      rw [List.pairwise_cons] at h1
      refine List.pairwise_cons.mpr ⟨fun _ _ => ?_, ih h1.2⟩
      exact Pat.not_isAll_of_rank_le _ _ hx (by omega)

/-- inserting a match-all into a list without one puts it last -/
theorem insertByRank_isAll_last (pat : α → Pat) (x : α) (l : List α)
    (hx : (pat x).isAll = true) :
    insertByRank (fun a => (pat a).rank) x l = l ++ [x] := by
  induction l with
  | nil => rfl
  | cons y ys ih =>
    unfold insertByRank
    have : ¬ (pat x).rank < (pat y).rank := by
      have := Pat.rank_le_of_isAll (pat y) (pat x) hx; omega
    simp only [this, ↓reduceIte, ih, List.cons_append]

theorem insertByRank_oneAll_isAll (pat : α → Pat) (x : α) (l : List α)
    (h1 : l.Pairwise (fun a _ => (pat a).isAll = false)) (h2 : lastIsAll pat l = false)
    (hx : (pat x).isAll = true) :
    (insertByRank (fun a => (pat a).rank) x l).Pairwise (fun a _ => (pat a).isAll = false) := by
  rw [insertByRank_isAll_last pat x l hx, List.pairwise_append]
  refine ⟨h1, by simp, ?_⟩
  intro a ha _ _
  exact noAll_of_lastIsAll_false pat l h1 h2 a ha

/-- the whole sibling-list invariant is kept by an insertion with a fresh key that does not add a
    second match-all -/
theorem insertByRank_listInv (pat : α → Pat) (key : α → Bytes) (x : α) (l : List α)
    (hl : ListInv pat key l) (hfresh : ∀ y ∈ l, key y ≠ key x)
    (hall : ((pat x).isAll && lastIsAll pat l) = false) :
    ListInv pat key (insertByRank (fun a => (pat a).rank) x l) := by
  refine ⟨insertByRank_sorted _ x l hl.sorted, ?_, insertByRank_keys _ key x l hl.keys hfresh⟩
  cases hx : (pat x).isAll with
  | false => exact insertByRank_oneAll_notAll pat x l hl.oneAll hx
  | true =>
    rw [hx, Bool.true_and] at hall
    exact insertByRank_oneAll_isAll pat x l hl.oneAll hall hx

end OneAll

/-! ### 2. `addLeafTo` -/

/-- the `allStatic` flag `addLeafTo` gives a new leaf -/
def leafStaticFlag (p : Pat) (ancStatic : Bool) : Bool :=
  match p with | .static _ => ancStatic | _ => false

/-- the leaf `addLeafTo` creates for segment `s` classified as `p` -/
def newLeaf (ancStatic : Bool) (r : Route) (s : Segment) (hid : Nat) (long : Bool) (p : Pat) : Leaf :=
  ⟨s.leafKey, p, hid, r, long, leafStaticFlag p ancStatic⟩

/-- everything a successful `addLeafTo` tells -/
theorem addLeafTo_ok {E : Engine} {leaves leaves' : List Leaf} {ab : List Bytes} {as : Bool}
    {r : Route} {s : Segment} {hid : Nat} {long : Bool}
    (h : addLeafTo E leaves ab as r s hid long = .ok leaves') :
    ∃ p, classifyLeaf E s = .ok p ∧ (∀ l ∈ leaves, l.key ≠ s.leafKey) ∧
      p.binds.any (ab.contains ·) = false ∧
      (p.isAll && lastIsAll Leaf.pat leaves) = false ∧
      leaves' = insertByRank (fun l => l.pat.rank) (newLeaf as r s hid long p) leaves := by
  unfold addLeafTo at h
  split at h
  · cases h
  · rename_i hdup
    split at h
    · cases h
    · rename_i p hp
      split at h
      · cases h
      · rename_i hb
        split at h
        · cases h
        · rename_i ha
          refine ⟨p, hp, ?_, by simpa using hb, by simpa using ha, ?_⟩
          · intro l hl hk
            exact hdup (List.any_eq_true.mpr ⟨l, hl, by simpa using hk⟩)
          · simp only [Except.ok.injEq] at h
            rw [← h]; rfl

theorem addLeafTo_inv {E : Engine} {leaves leaves' : List Leaf} {ab : List Bytes} {as : Bool}
    {r : Route} {s : Segment} {hid : Nat} {long : Bool}
    (hinv : ListInv Leaf.pat Leaf.key leaves)
    (h : addLeafTo E leaves ab as r s hid long = .ok leaves') :
    ListInv Leaf.pat Leaf.key leaves' := by
  obtain ⟨p, _, hfresh, _, hall, rfl⟩ := addLeafTo_ok h
  exact insertByRank_listInv Leaf.pat Leaf.key _ leaves hinv hfresh hall

/-- the leaves after a successful `addLeafTo`: the old ones and exactly the new leaf -/
theorem addLeafTo_mem {E : Engine} {leaves leaves' : List Leaf} {ab : List Bytes} {as : Bool}
    {r : Route} {s : Segment} {hid : Nat} {long : Bool}
    (h : addLeafTo E leaves ab as r s hid long = .ok leaves') :
    ∃ p, classifyLeaf E s = .ok p ∧
      ∀ l, l ∈ leaves' ↔ (l ∈ leaves ∨ l = ⟨s.leafKey, p, hid, r, long, leafStaticFlag p as⟩) := by
  obtain ⟨p, hp, _, _, _, rfl⟩ := addLeafTo_ok h
  refine ⟨p, hp, fun l => ?_⟩
  rw [insertByRank_mem]
  exact ⟨fun h => h.symm, fun h => h.symm⟩

/-- position of the new leaf (FIFO within a rank, lower rank first) -/
theorem addLeafTo_split {E : Engine} {leaves leaves' : List Leaf} {ab : List Bytes} {as : Bool}
    {r : Route} {s : Segment} {hid : Nat} {long : Bool}
    (hinv : ListInv Leaf.pat Leaf.key leaves)
    (h : addLeafTo E leaves ab as r s hid long = .ok leaves') :
    ∃ p pre post, classifyLeaf E s = .ok p ∧ leaves = pre ++ post ∧
      leaves' = pre ++ newLeaf as r s hid long p :: post ∧
      (∀ y ∈ pre, y.pat.rank ≤ p.rank) ∧ (∀ y ∈ post, p.rank < y.pat.rank) := by
  obtain ⟨p, hp, _, _, _, rfl⟩ := addLeafTo_ok h
  obtain ⟨pre, post, h1, h2, h3, h4⟩ :=
    insertByRank_split (fun l : Leaf => l.pat.rank) (newLeaf as r s hid long p) leaves hinv.sorted
  exact ⟨p, pre, post, hp, h1, h2, h3, h4⟩

/-! ### 3. `replaceNode`, `addNext`, `addRoute`: the invariant -/

theorem Node.eta (n : Node) : Node.mk n.key n.pat n.subs n.leaves = n := by
  cases n; rfl

/-- pairwise different keys: a key determines the element -/
theorem eq_of_key_eq {α κ : Type} (key : α → κ) (l : List α)
    (hk : l.Pairwise (fun a b => key a ≠ key b)) :
    ∀ a ∈ l, ∀ b ∈ l, key a = key b → a = b := by
  induction l with
  | nil => intro a ha; cases ha
  | cons z zs ih =>
    rw [List.pairwise_cons] at hk
    intro a ha b hb hab
    simp only [List.mem_cons] at ha hb
    rcases ha with rfl | ha <;> rcases hb with rfl | hb
    · rfl
    · exact absurd hab (hk.1 b hb)
    · exact absurd hab.symm (hk.1 a ha)
    · exact ih hk.2 a ha b hb hab

/-- `replaceNode` with pairwise-different keys replaces exactly the one child with that key -/
theorem replaceNode_mem (subs : List Node) (c n : Node)
    (hk : subs.Pairwise (fun a b => a.key ≠ b.key)) (hc : c ∈ subs) (m : Node) :
    m ∈ replaceNode subs c.key n ↔ m = n ∨ (m ∈ subs ∧ m ≠ c) := by
  unfold replaceNode
  rw [List.mem_map]
  constructor
  · rintro ⟨a, ha, rfl⟩
    by_cases h : a.key = c.key
    · simp only [h, ↓reduceIte, true_or]
    · simp only [h, ↓reduceIte]
      exact Or.inr ⟨ha, fun e => h (by rw [e])⟩
  · rintro (rfl | ⟨hm, hne⟩)
    · exact ⟨c, hc, by simp only [↓reduceIte]⟩
    · refine ⟨m, hm, ?_⟩
      have : m.key ≠ c.key := fun e => hne (eq_of_key_eq Node.key subs hk m hm c hc e)
      simp only [this, ↓reduceIte]

/-- replacing a child by a node with the same key and pattern keeps the sibling-list invariant -/
theorem replaceNode_listInv (subs : List Node) (c n : Node)
    (hinv : ListInv Node.pat Node.key subs) (hc : c ∈ subs)
    (hkey : n.key = c.key) (hpat : n.pat = c.pat) :
    ListInv Node.pat Node.key (replaceNode subs c.key n) := by
  have hf : ∀ m ∈ subs, (if m.key = c.key then n else m).key = m.key ∧
      (if m.key = c.key then n else m).pat = m.pat := by
    intro m hm
    by_cases h : m.key = c.key
    · have : m = c := eq_of_key_eq Node.key subs hinv.keys m hm c hc h
      subst this
      simp only [↓reduceIte, hkey, hpat, and_self]
    · simp only [h, ↓reduceIte, and_self]
  unfold replaceNode
  refine ⟨?_, ?_, ?_⟩
  · rw [List.pairwise_map]
    refine hinv.sorted.imp_of_mem ?_
    intro a b ha hb hab
    rw [(hf a ha).2, (hf b hb).2]; exact hab
  · rw [List.pairwise_map]
    refine hinv.oneAll.imp_of_mem ?_
    intro a b ha _ hab
    rw [(hf a ha).2]; exact hab
  · rw [List.pairwise_map]
    refine hinv.keys.imp_of_mem ?_
    intro a b ha hb hab
    rw [(hf a ha).1, (hf b hb).1]; exact hab

/-- what a successful `addNext` on at least two segments did: it went down into the existing child
    with the key of the first segment, or into a fresh child inserted by rank; afterwards this node
    got the short form if the child's (last) segment was optional -/
theorem addNext_cons_ok {E : Engine} {r : Route} {hid : Nat} {s s2 : Segment} {rest : List Segment}
    {subs subs' : List Node} {leaves leaves' : List Leaf} {ab : List Bytes} {aa as short : Bool}
    (h : addNext E r hid (s :: s2 :: rest) subs leaves ab aa as = .ok (subs', leaves', short)) :
    s.optional = false ∧ short = false ∧
    ∃ cpat csubs cleaves csubs' cleaves' sh as',
      addNext E r hid (s2 :: rest) csubs cleaves (cpat.binds ++ ab) (aa || cpat.isAll) as'
        = .ok (csubs', cleaves', sh) ∧
      ((sh = true ∧ addLeafTo E leaves ab as r s hid false = .ok leaves') ∨
        (sh = false ∧ leaves' = leaves)) ∧
      ((Node.mk s.render cpat csubs cleaves ∈ subs ∧
          subs' = replaceNode subs s.render (.mk s.render cpat csubs' cleaves')) ∨
       ((∀ m ∈ subs, m.key ≠ s.render) ∧ classifyTree E s = .ok cpat ∧ csubs = [] ∧ cleaves = [] ∧
          cpat.binds.any (ab.contains ·) = false ∧ (cpat.isAll && aa) = false ∧
          (cpat.isAll && lastIsAll Node.pat subs) = false ∧
          subs' = insertByRank (fun n => n.pat.rank) (.mk s.render cpat csubs' cleaves') subs)) := by
  rw [addNext] at h
  split at h
  · cases h
  · rename_i hopt
    refine ⟨by simpa using hopt, ?_⟩
    split at h
    · rename_i ckey cpat csubs cleaves hfind
      have hmem := List.mem_of_find?_eq_some hfind
      have hkey : ckey = s.render := by
        have := List.find?_some hfind
        exact of_decide_eq_true this
      subst hkey
      simp only [bind, Except.bind] at h
      split at h
      · cases h
      · rename_i res hrec
        obtain ⟨csubs', cleaves', sh⟩ := res
        simp only at h
        refine ⟨?_, cpat, csubs, cleaves, csubs', cleaves', sh, _, hrec, ?_, Or.inl ⟨hmem, ?_⟩⟩
        all_goals cases sh
        all_goals simp only [Bool.false_eq_true, ↓reduceIte, pure, Except.pure] at h
        all_goals first
          | (split at h
             · cases h
             · rename_i lv hlv
               simp only [Except.ok.injEq, Prod.mk.injEq] at h
               obtain ⟨h1, h2, h3⟩ := h
               subst h2
               first | exact h3.symm | exact h1.symm | exact Or.inl ⟨rfl, hlv⟩)
          | (simp only [Except.ok.injEq, Prod.mk.injEq] at h
             obtain ⟨h1, h2, h3⟩ := h
             first | exact h3.symm | exact h1.symm | exact Or.inr ⟨rfl, h2.symm⟩)
    · rename_i hfind
      have hfresh : ∀ m ∈ subs, m.key ≠ s.render := by
        intro m hm
        have := List.find?_eq_none.mp hfind m hm
        simpa using this
      split at h
      · cases h
      · rename_i cpat hcls
        split at h
        · cases h
        · rename_i hb
          split at h
          · cases h
          · rename_i haa
            split at h
            · cases h
            · rename_i hla
              simp only [bind, Except.bind] at h
              split at h
              · cases h
              · rename_i res hrec
                obtain ⟨csubs', cleaves', sh⟩ := res
                simp only at h
                refine ⟨?_, cpat, [], [], csubs', cleaves', sh, _, hrec, ?_,
                  Or.inr ⟨hfresh, hcls, rfl, rfl, by simpa using hb, by simpa using haa,
                    by simpa using hla, ?_⟩⟩
                all_goals cases sh
                all_goals simp only [Bool.false_eq_true, ↓reduceIte, pure, Except.pure] at h
                all_goals first
                  | (split at h
                     · cases h
                     · rename_i lv hlv
                       simp only [Except.ok.injEq, Prod.mk.injEq] at h
                       obtain ⟨h1, h2, h3⟩ := h
                       subst h2
                       first | exact h3.symm | exact h1.symm | exact Or.inl ⟨rfl, hlv⟩)
                  | (simp only [Except.ok.injEq, Prod.mk.injEq] at h
                     obtain ⟨h1, h2, h3⟩ := h
                     first | exact h3.symm | exact h1.symm | exact Or.inr ⟨rfl, h2.symm⟩)

/-- a successful `addNext` on the last segment: a leaf of this node, the flag asks the caller for
    the short form -/
theorem addNext_single_ok {E : Engine} {r : Route} {hid : Nat} {s : Segment}
    {subs subs' : List Node} {leaves leaves' : List Leaf} {ab : List Bytes} {aa as short : Bool}
    (h : addNext E r hid [s] subs leaves ab aa as = .ok (subs', leaves', short)) :
    subs' = subs ∧ short = s.optional ∧ addLeafTo E leaves ab as r s hid true = .ok leaves' := by
  rw [addNext] at h
  simp only [bind, Except.bind] at h
  split at h
  · cases h
  · rename_i lv hlv
    simp only [pure, Except.pure, Except.ok.injEq, Prod.mk.injEq] at h
    obtain ⟨h1, h2, h3⟩ := h
    subst h2
    exact ⟨h1.symm, h3.symm, hlv⟩

private theorem TreeInv.subsInv {subs : List Node} {leaves : List Leaf} (h : TreeInv subs leaves) :
    ListInv Node.pat Node.key subs := by cases h; assumption
private theorem TreeInv.leavesInv {subs : List Node} {leaves : List Leaf} (h : TreeInv subs leaves) :
    ListInv Leaf.pat Leaf.key leaves := by cases h; assumption
private theorem TreeInv.child {subs : List Node} {leaves : List Leaf} (h : TreeInv subs leaves)
    {k p cs cl} (hm : Node.mk k p cs cl ∈ subs) : TreeInv cs cl := by
  cases h with | mk _ _ _ _ hc => exact hc k p cs cl hm

theorem ListInv.nil {α} (pat : α → Pat) (key : α → Bytes) : ListInv pat key [] :=
  ⟨List.Pairwise.nil, List.Pairwise.nil, List.Pairwise.nil⟩

theorem TreeInv.empty : TreeInv [] [] :=
  .mk [] [] (ListInv.nil _ _) (ListInv.nil _ _) (fun _ _ _ _ h => by cases h)

theorem addNext_inv (E : Engine) (r : Route) (hid : Nat) :
    ∀ (segs : List Segment) (subs subs' : List Node) (leaves leaves' : List Leaf)
      (ab : List Bytes) (aa as short : Bool),
      TreeInv subs leaves →
      addNext E r hid segs subs leaves ab aa as = .ok (subs', leaves', short) →
      TreeInv subs' leaves'
  | [], _, _, _, _, _, _, _, _, _, h => by rw [addNext] at h; cases h
  | [s], subs, subs', leaves, leaves', ab, aa, as, short, hinv, h => by
    obtain ⟨rfl, _, hl⟩ := addNext_single_ok h
    exact .mk _ _ hinv.subsInv (addLeafTo_inv hinv.leavesInv hl) (fun k p cs cl hm => hinv.child hm)
  | s :: s2 :: rest, subs, subs', leaves, leaves', ab, aa, as, short, hinv, h => by
    obtain ⟨_, _, cpat, csubs, cleaves, csubs', cleaves', sh, as', hrec, hlv, hsub⟩ :=
      addNext_cons_ok h
    have hleaves : ListInv Leaf.pat Leaf.key leaves' := by
      rcases hlv with ⟨_, hl⟩ | ⟨_, rfl⟩
      · exact addLeafTo_inv hinv.leavesInv hl
      · exact hinv.leavesInv
    rcases hsub with ⟨hmem, rfl⟩ | ⟨hfresh, _, rfl, rfl, _, _, hla, rfl⟩
    · have hchild : TreeInv csubs' cleaves' :=
        addNext_inv E r hid (s2 :: rest) _ _ _ _ _ _ _ _ (hinv.child hmem) hrec
      refine .mk _ _ ?_ hleaves ?_
      · exact replaceNode_listInv subs (.mk s.render cpat csubs cleaves) _ hinv.subsInv hmem rfl rfl
      · intro k p cs cl hm
        rcases (replaceNode_mem subs (.mk s.render cpat csubs cleaves) _ hinv.subsInv.keys hmem _).mp hm
          with heq | ⟨hm', _⟩
        · cases heq; exact hchild
        · exact hinv.child hm'
    · have hchild : TreeInv csubs' cleaves' :=
        addNext_inv E r hid (s2 :: rest) _ _ _ _ _ _ _ _ TreeInv.empty hrec
      refine .mk _ _ ?_ hleaves ?_
      · exact insertByRank_listInv Node.pat Node.key _ subs hinv.subsInv hfresh hla
      · intro k p cs cl hm
        rcases (insertByRank_mem _ _ _ _).mp hm with heq | hm'
        · cases heq; exact hchild
        · exact hinv.child hm'

/-- the three shapes of a successful `addRoute` -/
theorem addRoute_ok {E : Engine} {k : Bytes} {p : Pat} {subs : List Node} {leaves : List Leaf}
    {r : Route} {hid : Nat} {t' : Node}
    (h : addRoute E (.mk k p subs leaves) r hid = .ok t') :
    (∃ s l1 l2, r.segs = [s] ∧ (s.optional && !s.elems.isEmpty) = true ∧
        addLeafTo E leaves [] true r ⟨false, []⟩ hid false = .ok l1 ∧
        addLeafTo E l1 [] true r s hid true = .ok l2 ∧ t' = .mk k p subs l2) ∨
    (∃ s l, r.segs = [s] ∧ (s.optional && !s.elems.isEmpty) = false ∧
        addLeafTo E leaves [] true r s hid true = .ok l ∧ t' = .mk k p subs l) ∨
    (∃ s s2 rest subs' leaves' sh, r.segs = s :: s2 :: rest ∧
        addNext E r hid (s :: s2 :: rest) subs leaves [] false true = .ok (subs', leaves', sh) ∧
        t' = .mk k p subs' leaves') := by
  rw [addRoute] at h
  split at h
  · rename_i s hs
    split at h
    · rename_i hopt
      simp only [bind, Except.bind] at h
      split at h
      · cases h
      · split at h
        · cases h
        · rename_i l1 hl1
          split at h
          · cases h
          · rename_i l2 hl2
            simp only [pure, Except.pure, Except.ok.injEq] at h
            exact Or.inl ⟨s, l1, l2, hs, hopt, hl1, hl2, h.symm⟩
    · rename_i hopt
      simp only [bind, Except.bind] at h
      split at h
      · cases h
      · rename_i l hl
        simp only [pure, Except.pure, Except.ok.injEq] at h
        exact Or.inr (Or.inl ⟨s, l, hs, by simpa using hopt, hl, h.symm⟩)
  · rename_i segs hne
    simp only [bind, Except.bind] at h
    split at h
    · cases h
    · rename_i res hres
      obtain ⟨subs', leaves', sh⟩ := res
      simp only [pure, Except.pure, Except.ok.injEq] at h
      match hsegs : r.segs with
      | [] => rw [hsegs, addNext] at hres; cases hres
      | [s] => exact absurd hsegs (hne s)
      | s :: s2 :: rest =>
        rw [hsegs] at hres
        exact Or.inr (Or.inr ⟨s, s2, rest, subs', leaves', sh, rfl, hres, h.symm⟩)

theorem addRoute_inv {E : Engine} {t t' : Node} {r : Route} {hid : Nat}
    (hinv : TreeInv t.subs t.leaves) (h : addRoute E t r hid = .ok t') :
    TreeInv t'.subs t'.leaves := by
  obtain ⟨k, p, subs, leaves⟩ := t
  simp only [Node.subs, Node.leaves] at hinv
  rcases addRoute_ok h with ⟨s, l1, l2, _, _, h1, h2, rfl⟩ | ⟨s, l, _, _, h1, rfl⟩ |
    ⟨s, s2, rest, subs', leaves', sh, _, h1, rfl⟩
  · exact .mk _ _ hinv.subsInv (addLeafTo_inv (addLeafTo_inv hinv.leavesInv h1) h2)
      (fun _ _ _ _ hm => hinv.child hm)
  · exact .mk _ _ hinv.subsInv (addLeafTo_inv hinv.leavesInv h1) (fun _ _ _ _ hm => hinv.child hm)
  · exact addNext_inv E r hid _ _ _ _ _ _ _ _ _ hinv h1

/-- item 5: registration never touches the root's own key and pattern -/
theorem addRoute_root_kept {E : Engine} {t t' : Node} {r : Route} {hid : Nat}
    (h : addRoute E t r hid = .ok t') : t'.key = t.key ∧ t'.pat = t.pat := by
  obtain ⟨k, p, subs, leaves⟩ := t
  rcases addRoute_ok h with ⟨_, _, _, _, _, _, _, rfl⟩ | ⟨_, _, _, _, _, rfl⟩ |
    ⟨_, _, _, _, _, _, _, _, rfl⟩ <;> exact ⟨rfl, rfl⟩

/-! ### 4. the forms stored by a registration

  `addNext` goes down into an existing child when the *rendered* key of the segment equals the
  child's key, and then does not classify the segment again.  `Segment.render` is not injective
  on arbitrary route ASTs (`[.ident "{a}"]` and `[.bind "a"]` both render `/{a}` but classify as
  static and as placeholder), so for arbitrary ASTs the stored forms can differ from
  `formsOfRoute` (see `forms_need_faithful` at the end of the file, a concrete counterexample).
  A stored-segment witness alone can therefore not remove the hypothesis; what is proved is:

  * `KeyInv E S subs`    : every node below was created from a segment in the class `S` with the
                           node's key as rendering and the node's pattern as `classifyTree`;
                           registration of a route whose segments are in `S` maintains it;
  * `KeyFaithful E S`    : on the class `S`, segments with equal rendering classify equally.
                           Section 6 proves it for `S := ParsedSeg` (rendering is injective
                           there), which gives `addRoute_forms_parsed` / `build_forms_parsed`
                           with no abstract hypothesis left.
-/

def okOpt {ε α : Type} : Except ε α → Option α
  | .ok a => some a
  | .error _ => none

/-- put the pattern of a node in front of a form of its subtree -/
def Form.cons (p : Pat) (f : Form) : Form := { f with pats := p :: f.pats }

/-- every node was created from a segment of class `S` that renders as its key and classifies
    as its pattern -/
inductive KeyInv (E : Engine) (S : Segment → Prop) : List Node → Prop
  | mk (subs : List Node)
      (hw : ∀ k p cs cl, Node.mk k p cs cl ∈ subs →
        ∃ s, S s ∧ s.render = k ∧ classifyTree E s = .ok p)
      (hc : ∀ k p cs cl, Node.mk k p cs cl ∈ subs → KeyInv E S cs) :
      KeyInv E S subs

theorem KeyInv.witness {E S subs} (h : KeyInv E S subs) {k p cs cl}
    (hm : Node.mk k p cs cl ∈ subs) : ∃ s, S s ∧ s.render = k ∧ classifyTree E s = .ok p := by
  cases h with | mk _ hw _ => exact hw k p cs cl hm
theorem KeyInv.child {E S subs} (h : KeyInv E S subs) {k p cs cl}
    (hm : Node.mk k p cs cl ∈ subs) : KeyInv E S cs := by
  cases h with | mk _ _ hc => exact hc k p cs cl hm
theorem KeyInv.empty {E S} : KeyInv E S [] :=
  .mk [] (fun _ _ _ _ h => by cases h) (fun _ _ _ _ h => by cases h)

/-- the forms a route with remaining segments `segs` stores at and below the node where
    `addNext` is called (without the short form that the flag hands to the caller) -/
def nextForms (E : Engine) (hid : Nat) : List Segment → List Form
  | [] => []
  | [s] =>
    match okOpt (classifyLeaf E s) with
    | some lp => [⟨[lp], hid, true⟩]
    | none => []
  | [s, s2] =>
    match okOpt (classifyTree E s), okOpt (classifyLeaf E s2) with
    | some p, some lp =>
      ⟨[p, lp], hid, true⟩ ::
        (if s2.optional then
          (match okOpt (classifyLeaf E s) with
           | some sp => [⟨[sp], hid, false⟩]
           | none => [])
         else [])
    | _, _ => []
  | s :: s2 :: s3 :: rest =>
    match okOpt (classifyTree E s) with
    | none => []
    | some p => (nextForms E hid (s2 :: s3 :: rest)).map (Form.cons p)

theorem formsOfRoute_single (E : Engine) (hid : Nat) (s : Segment) :
    formsOfRoute E ⟨[s]⟩ hid =
      match okOpt (classifyLeaf E s) with
      | some lp => ⟨[lp], hid, true⟩ ::
          (if (s.optional && !s.elems.isEmpty) then [⟨[.static []], hid, false⟩] else [])
      | none => [] := by
  simp only [formsOfRoute, List.reverse_cons, List.reverse_nil, List.nil_append, List.mapM_nil]
  cases classifyLeaf E s with
  | error e => simp only [okOpt, pure]
  | ok lp => cases s.optional <;> cases s.elems.isEmpty <;> simp [okOpt, pure]

theorem formsOfRoute_two (E : Engine) (hid : Nat) (s s2 : Segment) :
    formsOfRoute E ⟨[s, s2]⟩ hid = nextForms E hid [s, s2] := by
  simp only [formsOfRoute, nextForms, List.reverse_cons, List.reverse_nil, List.nil_append,
    List.cons_append, List.mapM_cons, List.mapM_nil, List.filterMap_nil]
  cases classifyTree E s with
  | error e => simp only [okOpt, bind, Option.bind]
  | ok p =>
    simp only [okOpt, bind, Option.bind, pure]
    cases classifyLeaf E s2 with
    | error e => simp only
    | ok lp =>
      simp only
      cases s2.optional with
      | false => simp
      | true =>
        simp only [↓reduceIte]
        cases classifyLeaf E s with
        | error e => simp
        | ok sp => simp

theorem formsOfRoute_cons (E : Engine) (hid : Nat) (s : Segment) (init : List Segment)
    (prev last : Segment) :
    formsOfRoute E ⟨s :: (init ++ [prev, last])⟩ hid =
      match okOpt (classifyTree E s) with
      | none => []
      | some p => (formsOfRoute E ⟨init ++ [prev, last]⟩ hid).map (Form.cons p) := by
  simp only [formsOfRoute, List.reverse_cons, List.reverse_append, List.reverse_nil,
    List.nil_append, List.cons_append, List.reverse_reverse]
  simp only [List.mapM_cons, List.filterMap_cons]
  cases classifyTree E s with
  | error e => simp only [okOpt, bind, Option.bind]
  | ok p =>
    simp only [okOpt, bind, Option.bind]
    cases List.mapM (fun s => match classifyTree E s with
        | Except.ok p => some p | Except.error _ => none) (init ++ [prev]) with
    | none => simp only [List.map_nil]
    | some ips =>
      simp only [pure]
      cases classifyLeaf E last with
      | error e => simp only [List.map_nil]
      | ok lp =>
        simp only
        cases last.optional with
        | false => simp [Form.cons]
        | true =>
          simp only [↓reduceIte]
          cases classifyLeaf E prev with
          | error e => simp [Form.cons]
          | ok sp => simp [Form.cons]

theorem two_snoc {α : Type} : ∀ (a b : α) (l : List α),
    ∃ init prev last, a :: b :: l = init ++ [prev, last]
  | a, b, [] => ⟨[], a, b, rfl⟩
  | a, b, c :: l => by
    obtain ⟨init, prev, last, h⟩ := two_snoc b c l
    exact ⟨a :: init, prev, last, by rw [h]; rfl⟩

/-- `formsOfRoute` (defined from the end of the route) read from the front -/
theorem formsOfRoute_eq_nextForms (E : Engine) (hid : Nat) :
    ∀ (rest : List Segment) (s s2 : Segment),
      formsOfRoute E ⟨s :: s2 :: rest⟩ hid = nextForms E hid (s :: s2 :: rest)
  | [], s, s2 => formsOfRoute_two E hid s s2
  | s3 :: rest, s, s2 => by
    obtain ⟨init, prev, last, h⟩ := two_snoc s2 s3 rest
    rw [h, formsOfRoute_cons, ← h, formsOfRoute_eq_nextForms E hid rest s2 s3, nextForms]

/-! membership in the forms of a tree -/

private theorem mem_formsList (f : Form) : ∀ ns : List Node, f ∈ Node.formsList ns ↔ ∃ n ∈ ns, f ∈ n.forms
  | [] => by simp [Node.formsList]
  | n :: ns => by
    rw [Node.formsList, List.mem_append, mem_formsList f ns]
    simp only [List.mem_cons, exists_eq_or_imp]

theorem forms_mk (k : Bytes) (p : Pat) (cs : List Node) (cl : List Leaf) :
    (Node.mk k p cs cl).forms = (treeForms cs cl).map (Form.cons p) := by
  rw [Node.forms, treeForms, List.map_append, List.map_map]
  rfl

theorem mem_forms_mk (f : Form) (k : Bytes) (p : Pat) (cs : List Node) (cl : List Leaf) :
    f ∈ (Node.mk k p cs cl).forms ↔ ∃ g ∈ treeForms cs cl, f = Form.cons p g := by
  rw [forms_mk, List.mem_map]
  exact ⟨fun ⟨g, hg, e⟩ => ⟨g, hg, e.symm⟩, fun ⟨g, hg, e⟩ => ⟨g, hg, e.symm⟩⟩

private theorem mem_treeForms (f : Form) (subs : List Node) (leaves : List Leaf) :
    f ∈ treeForms subs leaves ↔
      (∃ l ∈ leaves, f = ⟨[l.pat], l.hid, l.long⟩) ∨ f ∈ Node.formsList subs := by
  rw [treeForms, List.mem_append, List.mem_map]
  exact ⟨fun h => h.elim (fun ⟨l, hl, e⟩ => Or.inl ⟨l, hl, e.symm⟩) Or.inr,
    fun h => h.elim (fun ⟨l, hl, e⟩ => Or.inl ⟨l, hl, e.symm⟩) Or.inr⟩

theorem treeForms_nil : treeForms [] [] = [] := by simp [treeForms, Node.formsList]

/-- forms of a leaf list after a successful `addLeafTo` -/
theorem addLeafTo_forms {E : Engine} {leaves leaves' : List Leaf} {ab : List Bytes} {as : Bool}
    {r : Route} {s : Segment} {hid : Nat} {long : Bool}
    (h : addLeafTo E leaves ab as r s hid long = .ok leaves') :
    ∃ p, classifyLeaf E s = .ok p ∧ ∀ f : Form,
      (∃ l ∈ leaves', f = ⟨[l.pat], l.hid, l.long⟩) ↔
        ((∃ l ∈ leaves, f = ⟨[l.pat], l.hid, l.long⟩) ∨ f = ⟨[p], hid, long⟩) := by
  obtain ⟨p, hp, hmem⟩ := addLeafTo_mem h
  refine ⟨p, hp, fun f => ?_⟩
  constructor
  · rintro ⟨l, hl, rfl⟩
    rcases (hmem l).mp hl with hl | rfl
    · exact Or.inl ⟨l, hl, rfl⟩
    · exact Or.inr rfl
  · rintro (⟨l, hl, rfl⟩ | rfl)
    · exact ⟨l, (hmem l).mpr (Or.inl hl), rfl⟩
    · exact ⟨_, (hmem _).mpr (Or.inr rfl), rfl⟩

/-- forms of a child list after replacing the child `c` by `n` -/
theorem replaceNode_forms (subs : List Node) (c n : Node)
    (hk : subs.Pairwise (fun a b => a.key ≠ b.key)) (hc : c ∈ subs) (f : Form) (X : Prop)
    (hn : f ∈ n.forms ↔ f ∈ c.forms ∨ X) :
    f ∈ Node.formsList (replaceNode subs c.key n) ↔ f ∈ Node.formsList subs ∨ X := by
  rw [mem_formsList, mem_formsList]
  constructor
  · rintro ⟨m, hm, hf⟩
    rcases (replaceNode_mem subs c n hk hc m).mp hm with rfl | ⟨hm', _⟩
    · rcases hn.mp hf with h | h
      · exact Or.inl ⟨c, hc, h⟩
      · exact Or.inr h
    · exact Or.inl ⟨m, hm', hf⟩
  · rintro (⟨m, hm, hf⟩ | hx)
    · by_cases hmc : m = c
      · subst hmc
        exact ⟨n, (replaceNode_mem subs m n hk hc n).mpr (Or.inl rfl), hn.mpr (Or.inl hf)⟩
      · exact ⟨m, (replaceNode_mem subs c n hk hc m).mpr (Or.inr ⟨hm, hmc⟩), hf⟩
    · exact ⟨n, (replaceNode_mem subs c n hk hc n).mpr (Or.inl rfl), hn.mpr (Or.inr hx)⟩

/-- forms of a child list after inserting the new child `n` -/
theorem insertByRank_forms (rank : Node → Nat) (subs : List Node) (n : Node) (f : Form) :
    f ∈ Node.formsList (insertByRank rank n subs) ↔ f ∈ Node.formsList subs ∨ f ∈ n.forms := by
  rw [mem_formsList, mem_formsList]
  constructor
  · rintro ⟨m, hm, hf⟩
    rcases (insertByRank_mem rank n m subs).mp hm with rfl | hm'
    · exact Or.inr hf
    · exact Or.inl ⟨m, hm', hf⟩
  · rintro (⟨m, hm, hf⟩ | hf)
    · exact ⟨m, (insertByRank_mem rank n m subs).mpr (Or.inr hm), hf⟩
    · exact ⟨n, (insertByRank_mem rank n n subs).mpr (Or.inl rfl), hf⟩

/-- registration of a route whose segments are of class `S` keeps the key/pattern witnesses -/
theorem addNext_keyInv (E : Engine) (S : Segment → Prop) (r : Route) (hid : Nat) :
    ∀ (segs : List Segment) (subs subs' : List Node) (leaves leaves' : List Leaf)
      (ab : List Bytes) (aa as short : Bool),
      KeyInv E S subs → (∀ s ∈ segs, S s) →
      addNext E r hid segs subs leaves ab aa as = .ok (subs', leaves', short) →
      KeyInv E S subs'
  | [], _, _, _, _, _, _, _, _, _, _, h => by rw [addNext] at h; cases h
  | [s], subs, subs', leaves, leaves', ab, aa, as, short, hinv, _, h => by
    obtain ⟨rfl, _, _⟩ := addNext_single_ok h
    exact hinv
  | s :: s2 :: rest, subs, subs', leaves, leaves', ab, aa, as, short, hinv, hS, h => by
    obtain ⟨_, _, cpat, csubs, cleaves, csubs', cleaves', sh, as', hrec, _, hsub⟩ :=
      addNext_cons_ok h
    have hS' : ∀ x ∈ s2 :: rest, S x := fun x hx => hS x (List.mem_cons_of_mem _ hx)
    rcases hsub with ⟨hmem, rfl⟩ | ⟨_, hcls, rfl, rfl, _, _, _, rfl⟩
    · have hchild : KeyInv E S csubs' :=
        addNext_keyInv E S r hid (s2 :: rest) _ _ _ _ _ _ _ _ (hinv.child hmem) hS' hrec
      have hmem' : ∀ k p cs cl, Node.mk k p cs cl ∈
          replaceNode subs s.render (.mk s.render cpat csubs' cleaves') →
          (k = s.render ∧ p = cpat ∧ cs = csubs') ∨ Node.mk k p cs cl ∈ subs := by
        intro k p cs cl hm
        unfold replaceNode at hm
        rw [List.mem_map] at hm
        obtain ⟨a, ha, e⟩ := hm
        by_cases hk : a.key = s.render
        · simp only [hk, ↓reduceIte, Node.mk.injEq] at e
          exact Or.inl ⟨e.1.symm, e.2.1.symm, e.2.2.1.symm⟩
        · simp only [hk, ↓reduceIte] at e
          exact Or.inr (e ▸ ha)
      refine .mk _ ?_ ?_
      · intro k p cs cl hm
        rcases hmem' k p cs cl hm with ⟨rfl, rfl, _⟩ | hm'
        · exact hinv.witness hmem
        · exact hinv.witness hm'
      · intro k p cs cl hm
        rcases hmem' k p cs cl hm with ⟨_, _, rfl⟩ | hm'
        · exact hchild
        · exact hinv.child hm'
    · have hchild : KeyInv E S csubs' :=
        addNext_keyInv E S r hid (s2 :: rest) _ _ _ _ _ _ _ _ KeyInv.empty hS' hrec
      refine .mk _ ?_ ?_
      · intro k p cs cl hm
        rcases (insertByRank_mem _ _ _ _).mp hm with heq | hm'
        · cases heq; exact ⟨s, hS s (List.mem_cons_self ..), rfl, hcls⟩
        · exact hinv.witness hm'
      · intro k p cs cl hm
        rcases (insertByRank_mem _ _ _ _).mp hm with heq | hm'
        · cases heq; exact hchild
        · exact hinv.child hm'

/-- the flag of `addNext`: set exactly when the (only) remaining segment is optional -/
theorem addNext_flag {E : Engine} {r : Route} {hid : Nat} {s : Segment} {rest : List Segment}
    {subs subs' : List Node} {leaves leaves' : List Leaf} {ab : List Bytes} {aa as short : Bool}
    (h : addNext E r hid (s :: rest) subs leaves ab aa as = .ok (subs', leaves', short)) :
    (rest = [] → short = s.optional ∧ ∃ lp, classifyLeaf E s = .ok lp) ∧
    (rest ≠ [] → short = false) := by
  cases rest with
  | nil =>
    obtain ⟨_, h2, h3⟩ := addNext_single_ok h
    obtain ⟨lp, hlp, _⟩ := addLeafTo_ok h3
    exact ⟨fun _ => ⟨h2, lp, hlp⟩, fun hne => absurd rfl hne⟩
  | cons s2 rest =>
    obtain ⟨_, h2, _⟩ := addNext_cons_ok h
    exact ⟨fun e => (by cases e), fun _ => h2⟩

theorem nextForms_two_mem {E : Engine} {hid : Nat} {s s2 : Segment} {cpat lp : Pat}
    (hct : classifyTree E s = .ok cpat) (hcl : classifyLeaf E s2 = .ok lp) (f : Form) :
    f ∈ nextForms E hid [s, s2] ↔
      f ∈ (nextForms E hid [s2]).map (Form.cons cpat) ∨
      (s2.optional = true ∧ ∃ sp, classifyLeaf E s = .ok sp ∧ f = ⟨[sp], hid, false⟩) := by
  simp only [nextForms, hct, hcl, okOpt, List.map_cons, List.map_nil, Form.cons, List.mem_cons,
    List.not_mem_nil, or_false]
  cases s2.optional with
  | false => simp
  | true =>
    cases classifyLeaf E s with
    | error e => simp
    | ok sp => simp

theorem nextForms_three {E : Engine} {hid : Nat} {s s2 s3 : Segment} {rest : List Segment}
    {cpat : Pat} (hct : classifyTree E s = .ok cpat) :
    nextForms E hid (s :: s2 :: s3 :: rest) =
      (nextForms E hid (s2 :: s3 :: rest)).map (Form.cons cpat) := by
  simp only [nextForms, hct, okOpt]

theorem or_shuffle {L Y F X : Prop} : ((L ∨ Y) ∨ (F ∨ X)) ↔ ((L ∨ F) ∨ (X ∨ Y)) := by
  constructor
  · rintro ((h | h) | (h | h)) <;> simp [h]
  · rintro ((h | h) | (h | h)) <;> simp [h]

/-- the forms at and below a node after a successful `addNext`: the old ones and those of the
    remaining segments -/
theorem addNext_forms (E : Engine) (S : Segment → Prop) (hF : KeyFaithful E S) (r : Route)
    (hid : Nat) :
    ∀ (segs : List Segment) (subs subs' : List Node) (leaves leaves' : List Leaf)
      (ab : List Bytes) (aa as short : Bool),
      TreeInv subs leaves → KeyInv E S subs → (∀ s ∈ segs, S s) →
      addNext E r hid segs subs leaves ab aa as = .ok (subs', leaves', short) →
      ∀ f, f ∈ treeForms subs' leaves' ↔ (f ∈ treeForms subs leaves ∨ f ∈ nextForms E hid segs)
  | [], _, _, _, _, _, _, _, _, _, _, _, h => by rw [addNext] at h; cases h
  | [s], subs, subs', leaves, leaves', ab, aa, as, short, _, _, _, h => by
    obtain ⟨rfl, _, hl⟩ := addNext_single_ok h
    obtain ⟨p, hp, hf⟩ := addLeafTo_forms hl
    intro f
    rw [mem_treeForms, mem_treeForms, hf f]
    simp only [nextForms, hp, okOpt, List.mem_cons, List.not_mem_nil, or_false]
    constructor
    · rintro ((h | h) | h)
      · exact Or.inl (Or.inl h)
      · exact Or.inr h
      · exact Or.inl (Or.inr h)
    · rintro ((h | h) | h)
      · exact Or.inl (Or.inl h)
      · exact Or.inr h
      · exact Or.inl (Or.inr h)
  | s :: s2 :: rest, subs, subs', leaves, leaves', ab, aa, as, short, hinv, hkinv, hS, h => by
    obtain ⟨_, _, cpat, csubs, cleaves, csubs', cleaves', sh, as', hrec, hlv, hsub⟩ :=
      addNext_cons_ok h
    have hS' : ∀ x ∈ s2 :: rest, S x := fun x hx => hS x (List.mem_cons_of_mem _ hx)
    have hSs : S s := hS s (List.mem_cons_self ..)
    obtain ⟨hflag1, hflag2⟩ := addNext_flag hrec
    intro f
    -- the pattern of the child is the classification of `s`; the child's subtree by induction
    have hpre : classifyTree E s = .ok cpat ∧ TreeInv csubs cleaves ∧ KeyInv E S csubs := by
      rcases hsub with ⟨hmem, _⟩ | ⟨_, hcls, rfl, rfl, _⟩
      · obtain ⟨s0, hS0, hr0, hc0⟩ := hkinv.witness hmem
        exact ⟨(hF s s0 hSs hS0 hr0.symm).trans hc0, hinv.child hmem, hkinv.child hmem⟩
      · exact ⟨hcls, TreeInv.empty, KeyInv.empty⟩
    obtain ⟨hct, hcinv, hckinv⟩ := hpre
    have ih := addNext_forms E S hF r hid (s2 :: rest) _ _ _ _ _ _ _ _ hcinv hckinv hS' hrec
    have hn : f ∈ (Node.mk s.render cpat csubs' cleaves').forms ↔
        (f ∈ (Node.mk s.render cpat csubs cleaves).forms ∨
          f ∈ (nextForms E hid (s2 :: rest)).map (Form.cons cpat)) := by
      rw [mem_forms_mk, mem_forms_mk, List.mem_map]
      constructor
      · rintro ⟨g, hg, rfl⟩
        rcases (ih g).mp hg with hg | hg
        · exact Or.inl ⟨g, hg, rfl⟩
        · exact Or.inr ⟨g, hg, rfl⟩
      · rintro (⟨g, hg, rfl⟩ | ⟨g, hg, rfl⟩)
        · exact ⟨g, (ih g).mpr (Or.inl hg), rfl⟩
        · exact ⟨g, (ih g).mpr (Or.inr hg), rfl⟩
    have hsubs : f ∈ Node.formsList subs' ↔
        (f ∈ Node.formsList subs ∨ f ∈ (nextForms E hid (s2 :: rest)).map (Form.cons cpat)) := by
      rcases hsub with ⟨hmem, rfl⟩ | ⟨_, _, rfl, rfl, _, _, _, rfl⟩
      · exact replaceNode_forms subs (.mk s.render cpat csubs cleaves) _ hinv.subsInv.keys hmem f _ hn
      · rw [insertByRank_forms, hn, forms_mk, treeForms_nil]
        simp only [List.map_nil, List.not_mem_nil, false_or]
    have hleaves : (∃ l ∈ leaves', f = ⟨[l.pat], l.hid, l.long⟩) ↔
        ((∃ l ∈ leaves, f = ⟨[l.pat], l.hid, l.long⟩) ∨
          (sh = true ∧ ∃ sp, classifyLeaf E s = .ok sp ∧ f = ⟨[sp], hid, false⟩)) := by
      rcases hlv with ⟨rfl, hl⟩ | ⟨rfl, rfl⟩
      · obtain ⟨p, hp, hf⟩ := addLeafTo_forms hl
        rw [hf f]
        constructor
        · rintro (h | h)
          · exact Or.inl h
          · exact Or.inr ⟨rfl, p, hp, h⟩
        · rintro (h | ⟨_, sp, hsp, h⟩)
          · exact Or.inl h
          · rw [hp] at hsp; cases hsp; exact Or.inr h
      · simp only [Bool.false_eq_true, false_and, or_false]
    have hnew : f ∈ nextForms E hid (s :: s2 :: rest) ↔
        (f ∈ (nextForms E hid (s2 :: rest)).map (Form.cons cpat) ∨
          (sh = true ∧ ∃ sp, classifyLeaf E s = .ok sp ∧ f = ⟨[sp], hid, false⟩)) := by
      cases rest with
      | nil =>
        obtain ⟨hsh, lp, hlp⟩ := hflag1 rfl
        rw [nextForms_two_mem hct hlp, hsh]
      | cons s3 rest =>
        have hsh := hflag2 (List.cons_ne_nil _ _)
        rw [nextForms_three hct, hsh]
        simp only [Bool.false_eq_true, false_and, or_false]
    rw [mem_treeForms, mem_treeForms, hsubs, hleaves, hnew]
    exact or_shuffle

theorem Route.eta (r : Route) : (⟨r.segs⟩ : Route) = r := by cases r; rfl

theorem classifyLeaf_empty (E : Engine) (o : Bool) : classifyLeaf E ⟨o, []⟩ = .ok (.static []) := by
  simp [classifyLeaf]

theorem addRoute_keyInv {E : Engine} {S : Segment → Prop} {t t' : Node} {r : Route} {hid : Nat}
    (hk : KeyInv E S t.subs) (hS : ∀ s ∈ r.segs, S s) (h : addRoute E t r hid = .ok t') :
    KeyInv E S t'.subs := by
  obtain ⟨k, p, subs, leaves⟩ := t
  simp only [Node.subs] at hk
  rcases addRoute_ok h with ⟨_, _, _, _, _, _, _, rfl⟩ | ⟨_, _, _, _, _, rfl⟩ |
    ⟨s, s2, rest, subs', leaves', sh, hsegs, h1, rfl⟩
  · exact hk
  · exact hk
  · rw [hsegs] at hS
    exact addNext_keyInv E S r hid _ _ _ _ _ _ _ _ _ hk hS h1

/-- item 4: after a successful registration the tree stores exactly the old forms and the forms
    of the new route (its long form, and its short form when the last segment is optional).
    `S` is any class of segments that contains the segments of all routes registered so far
    (`KeyInv`) and of `r`, on which equal renderings classify equally (`KeyFaithful`). -/
theorem addRoute_forms {E : Engine} {S : Segment → Prop} {t t' : Node} {r : Route} {hid : Nat}
    (hF : KeyFaithful E S) (hinv : TreeInv t.subs t.leaves) (hk : KeyInv E S t.subs)
    (hS : ∀ s ∈ r.segs, S s) (h : addRoute E t r hid = .ok t') :
    ∀ f, f ∈ treeForms t'.subs t'.leaves ↔
      (f ∈ treeForms t.subs t.leaves ∨ f ∈ formsOfRoute E r hid) := by
  obtain ⟨k, p, subs, leaves⟩ := t
  simp only [Node.subs, Node.leaves] at hinv hk ⊢
  intro f
  rcases addRoute_ok h with ⟨s, l1, l2, hsegs, hopt, h1, h2, rfl⟩ | ⟨s, l, hsegs, hopt, h1, rfl⟩ |
    ⟨s, s2, rest, subs', leaves', sh, hsegs, h1, rfl⟩
  · obtain ⟨p1, hp1, hf1⟩ := addLeafTo_forms h1
    obtain ⟨p2, hp2, hf2⟩ := addLeafTo_forms h2
    rw [classifyLeaf_empty] at hp1
    cases hp1
    rw [← Route.eta r, hsegs, formsOfRoute_single]
    simp only [hp2, okOpt, hopt, ↓reduceIte, List.mem_cons,
      List.not_mem_nil, or_false]
    rw [mem_treeForms, mem_treeForms, hf2 f, hf1 f]
    constructor
    · rintro (((h | h) | h) | h)
      · exact Or.inl (Or.inl h)
      · exact Or.inr (Or.inr h)
      · exact Or.inr (Or.inl h)
      · exact Or.inl (Or.inr h)
    · rintro ((h | h) | (h | h))
      · exact Or.inl (Or.inl (Or.inl h))
      · exact Or.inr h
      · exact Or.inl (Or.inr h)
      · exact Or.inl (Or.inl (Or.inr h))
  · obtain ⟨p1, hp1, hf1⟩ := addLeafTo_forms h1
    rw [← Route.eta r, hsegs, formsOfRoute_single]
    simp only [hp1, okOpt, hopt, Bool.false_eq_true, ↓reduceIte,
      List.mem_cons, List.not_mem_nil, or_false]
    rw [mem_treeForms, mem_treeForms, hf1 f]
    constructor
    · rintro ((h | h) | h)
      · exact Or.inl (Or.inl h)
      · exact Or.inr h
      · exact Or.inl (Or.inr h)
    · rintro ((h | h) | h)
      · exact Or.inl (Or.inl h)
      · exact Or.inr h
      · exact Or.inl (Or.inr h)
  · rw [← Route.eta r, hsegs, formsOfRoute_eq_nextForms]
    rw [hsegs] at hS
    exact addNext_forms E S hF r hid _ _ _ _ _ _ _ _ _ hinv hk hS h1 f

/-! ### 5. histories -/

/-- `build` is the left fold of `addRoute` that keeps the tree on an error -/
theorem buildFrom_eq_foldl (E : Engine) : ∀ (h : List (Route × Nat)) (t : Node),
    buildFrom E t h = h.foldl (fun t rh =>
      match addRoute E t rh.1 rh.2 with | .ok t' => t' | .error _ => t) t
  | [], _ => rfl
  | rh :: h, t => by
    rw [buildFrom, List.foldl_cons]
    cases hr : addRoute E t rh.1 rh.2 with
    | ok t' => exact buildFrom_eq_foldl E h t'
    | error e => exact buildFrom_eq_foldl E h t

theorem acceptedFrom_sublist (E : Engine) : ∀ (h : List (Route × Nat)) (t : Node),
    (acceptedFrom E t h).Sublist h
  | [], _ => List.Sublist.slnil
  | rh :: h, t => by
    rw [acceptedFrom]
    cases addRoute E t rh.1 rh.2 with
    | ok t' => exact (acceptedFrom_sublist E h t').cons_cons rh
    | error e => exact (acceptedFrom_sublist E h t).cons rh

theorem accepted_subset (E : Engine) (h : List (Route × Nat)) : ∀ rh ∈ accepted E h, rh ∈ h :=
  fun _ hm => (acceptedFrom_sublist E h Node.root).subset hm

theorem buildFrom_inv (E : Engine) : ∀ (h : List (Route × Nat)) (t : Node),
    TreeInv t.subs t.leaves → TreeInv (buildFrom E t h).subs (buildFrom E t h).leaves
  | [], _, hinv => hinv
  | rh :: h, t, hinv => by
    rw [buildFrom]
    cases hr : addRoute E t rh.1 rh.2 with
    | ok t' => exact buildFrom_inv E h t' (addRoute_inv hinv hr)
    | error e => exact buildFrom_inv E h t hinv

/-- every tree reachable by registrations satisfies the invariant -/
theorem build_inv (E : Engine) (h : List (Route × Nat)) :
    TreeInv (build E h).subs (build E h).leaves :=
  buildFrom_inv E h Node.root TreeInv.empty

theorem buildFrom_root_kept (E : Engine) : ∀ (h : List (Route × Nat)) (t : Node),
    (buildFrom E t h).key = t.key ∧ (buildFrom E t h).pat = t.pat
  | [], _ => ⟨rfl, rfl⟩
  | rh :: h, t => by
    rw [buildFrom]
    cases hr : addRoute E t rh.1 rh.2 with
    | ok t' =>
      have h1 := buildFrom_root_kept E h t'
      have h2 := addRoute_root_kept hr
      exact ⟨h1.1.trans h2.1, h1.2.trans h2.2⟩
    | error e => exact buildFrom_root_kept E h t

theorem buildFrom_forms (E : Engine) (S : Segment → Prop) (hF : KeyFaithful E S) :
    ∀ (h : List (Route × Nat)) (t : Node),
      TreeInv t.subs t.leaves → KeyInv E S t.subs →
      (∀ rh ∈ acceptedFrom E t h, ∀ s ∈ rh.1.segs, S s) →
      (KeyInv E S (buildFrom E t h).subs) ∧
      ∀ f, f ∈ treeForms (buildFrom E t h).subs (buildFrom E t h).leaves ↔
        (f ∈ treeForms t.subs t.leaves ∨ ∃ rh ∈ acceptedFrom E t h, f ∈ formsOfRoute E rh.1 rh.2)
  | [], t, _, hk, _ => ⟨hk, fun f => by simp [buildFrom, acceptedFrom]⟩
  | rh :: h, t, hinv, hk, hS => by
    rw [buildFrom, acceptedFrom] at *
    cases hr : addRoute E t rh.1 rh.2 with
    | ok t' =>
      rw [hr] at hS
      simp only at hS ⊢
      have hSr : ∀ s ∈ rh.1.segs, S s := hS rh (List.mem_cons_self ..)
      have hS' : ∀ x ∈ acceptedFrom E t' h, ∀ s ∈ x.1.segs, S s :=
        fun x hx => hS x (List.mem_cons_of_mem _ hx)
      obtain ⟨ih1, ih2⟩ := buildFrom_forms E S hF h t' (addRoute_inv hinv hr)
        (addRoute_keyInv hk hSr hr) hS'
      refine ⟨ih1, fun f => ?_⟩
      rw [ih2 f, addRoute_forms hF hinv hk hSr hr f]
      simp only [List.mem_cons, exists_eq_or_imp, or_assoc]
    | error e =>
      rw [hr] at hS
      exact buildFrom_forms E S hF h t hinv hk hS

/-- the forms stored in the tree after a history are exactly the forms of the accepted
    registrations; `S` is any class of segments containing those of the accepted routes on which
    equal renderings classify equally -/
theorem build_forms_of_faithful (E : Engine) (S : Segment → Prop) (hF : KeyFaithful E S)
    (h : List (Route × Nat)) (hS : ∀ rh ∈ accepted E h, ∀ s ∈ rh.1.segs, S s) (f : Form) :
    f ∈ treeForms (build E h).subs (build E h).leaves ↔
      ∃ rh ∈ accepted E h, f ∈ formsOfRoute E rh.1 rh.2 := by
  have := (buildFrom_forms E S hF h Node.root TreeInv.empty KeyInv.empty hS).2 f
  rw [build, accepted, this]
  simp only [Node.root, Node.subs, Node.leaves, treeForms_nil, List.not_mem_nil, false_or]

theorem build_forms (E : Engine) (h : List (Route × Nat)) (hF : HistoryFaithful E h) (f : Form) :
    f ∈ treeForms (build E h).subs (build E h).leaves ↔
      ∃ rh ∈ accepted E h, f ∈ formsOfRoute E rh.1 rh.2 :=
  build_forms_of_faithful E _ hF h (fun rh hrh _ hs => ⟨rh, hrh, hs⟩) f

/-! ### discharging `KeyFaithful` -/

/-- where rendering is injective (the parser's outputs), the rendering determines everything -/
theorem KeyFaithful_of_injective (E : Engine) (S : Segment → Prop)
    (hinj : ∀ s₁ s₂, S s₁ → S s₂ → s₁.render = s₂.render → s₁ = s₂) : KeyFaithful E S :=
  fun s₁ s₂ h1 h2 hr => by rw [hinj s₁ s₂ h1 h2 hr]

theorem KeyFaithful.mono {E : Engine} {S S' : Segment → Prop} (h : KeyFaithful E S)
    (hsub : ∀ s, S' s → S s) : KeyFaithful E S' :=
  fun s₁ s₂ h1 h2 hr => h s₁ s₂ (hsub _ h1) (hsub _ h2) hr

/-- it is enough to check the segments of all routes of the history, accepted or not -/
theorem historyFaithful_of_all (E : Engine) (h : List (Route × Nat))
    (hF : KeyFaithful E (fun s => ∃ rh ∈ h, s ∈ rh.1.segs)) : HistoryFaithful E h :=
  hF.mono fun _ ⟨rh, hrh, hs⟩ => ⟨rh, accepted_subset E h rh hrh, hs⟩

/-! ### 6. `Segment.render` is injective on the parser's outputs -/

/-! splitting at the first delimiter -/

/-- empty, or starting with a byte of the class `P` -/
def headIn (P : UInt8 → Bool) (r : Bytes) : Prop := ∀ d, r.head? = some d → P d = true

theorem headIn_nil (P : UInt8 → Bool) : headIn P [] := fun _ h => by cases h
theorem headIn_cons {P : UInt8 → Bool} {d : UInt8} {r : Bytes} (h : P d = true) : headIn P (d :: r) :=
  fun _ e => by cases e; exact h

/-- two texts free of `P`-bytes, each followed by nothing or by a `P`-byte: equal concatenations
    split equally -/
theorem split_free (P : UInt8 → Bool) : ∀ (t₁ t₂ r₁ r₂ : Bytes),
    (∀ c ∈ t₁, P c = false) → (∀ c ∈ t₂, P c = false) → headIn P r₁ → headIn P r₂ →
    t₁ ++ r₁ = t₂ ++ r₂ → t₁ = t₂ ∧ r₁ = r₂
  | [], [], _, _, _, _, _, _, h => ⟨rfl, h⟩
  | [], c :: t₂, r₁, r₂, _, h2, hr1, _, h => by
    have hc := h2 c (List.mem_cons_self ..)
    have := hr1 c (by rw [List.nil_append] at h; rw [h]; rfl)
    rw [hc] at this; cases this
  | c :: t₁, [], r₁, r₂, h1, _, _, hr2, h => by
    have hc := h1 c (List.mem_cons_self ..)
    have := hr2 c (by rw [List.nil_append] at h; rw [← h]; rfl)
    rw [hc] at this; cases this
  | c :: t₁, d :: t₂, r₁, r₂, h1, h2, hr1, hr2, h => by
    rw [List.cons_append, List.cons_append, List.cons.injEq] at h
    obtain ⟨rfl, h⟩ := h
    obtain ⟨e1, e2⟩ := split_free P t₁ t₂ r₁ r₂
      (fun x hx => h1 x (List.mem_cons_of_mem _ hx)) (fun x hx => h2 x (List.mem_cons_of_mem _ hx))
      hr1 hr2 h
    exact ⟨by rw [e1], e2⟩

theorem cleanText_free {t : Bytes} (h : cleanText t = true) : ∀ c ∈ t, specialByte c = false := by
  simp only [cleanText, Bool.and_eq_true, List.all_eq_true, Bool.not_eq_true'] at h
  exact h.2

theorem cleanText_cons {t : Bytes} (h : cleanText t = true) :
    ∃ c t', t = c :: t' ∧ specialByte c = false := by
  cases t with
  | nil => simp [cleanText] at h
  | cons c t' => exact ⟨c, t', rfl, cleanText_free h c (List.mem_cons_self ..)⟩

/-! the renderings as bytes -/

theorem BindVal.render_re (s : Bytes) : BindVal.render (.re s) = 47 :: (s ++ [47]) := by
  simp [BindVal.render, B_slash]

theorem BindParam.render_eq (p : BindParam) : p.render = p.ident ++ 58 :: 32 :: p.val.render := by
  simp [BindParam.render, B_colon_blank]

/-- what follows the first parameter of a list: `", " param` for each further one -/
def moreParams : List BindParam → Bytes
  | [] => []
  | q :: qs => 44 :: 32 :: (q.render ++ moreParams qs)

theorem renderParams_cons (p : BindParam) (ps : List BindParam) :
    renderParams (p :: ps) = p.render ++ moreParams ps := by
  induction ps generalizing p with
  | nil => simp [renderParams, moreParams]
  | cons q qs ih =>
    rw [renderParams]
    · rw [ih q, moreParams, B_comma_blank]; simp
    · intro h; cases h

theorem Elem.render_bind (n : Bytes) : Elem.render (.bind n) = 123 :: (n ++ [125]) := by
  simp [Elem.render, B_lbrace, B_rbrace]

theorem Elem.render_params (p : BindParam) (ps : List BindParam) :
    Elem.render (.params (p :: ps)) = 123 :: (p.render ++ moreParams ps ++ [125]) := by
  simp [Elem.render, B_lbrace, B_rbrace, renderParams_cons]

/-! unique reading, bottom up -/

theorem val_split {v₁ v₂ : BindVal} {X₁ X₂ : Bytes} (h1 : parsedVal v₁ = true)
    (h2 : parsedVal v₂ = true) (hX1 : headIn specialByte X₁) (hX2 : headIn specialByte X₂)
    (h : v₁.render ++ X₁ = v₂.render ++ X₂) : v₁ = v₂ ∧ X₁ = X₂ := by
  cases v₁ with
  | lit a =>
    cases v₂ with
    | lit b =>
      obtain ⟨e1, e2⟩ := split_free specialByte a b X₁ X₂ (cleanText_free h1) (cleanText_free h2)
        hX1 hX2 h
      exact ⟨by rw [e1], e2⟩
    | re b =>
      obtain ⟨c, a', rfl, hc⟩ := cleanText_cons h1
      rw [BindVal.render_re] at h
      simp only [BindVal.render, List.cons_append, List.cons.injEq] at h
      rw [h.1] at hc; cases hc
  | re a =>
    cases v₂ with
    | lit b =>
      obtain ⟨c, b', rfl, hc⟩ := cleanText_cons h2
      rw [BindVal.render_re] at h
      simp only [BindVal.render, List.cons_append, List.cons.injEq] at h
      rw [← h.1] at hc; cases hc
    | re b =>
      rw [BindVal.render_re, BindVal.render_re] at h
      simp only [List.cons_append, List.cons.injEq, true_and, List.append_assoc,
        List.nil_append] at h
      simp only [parsedVal, List.all_eq_true, bne_iff_ne, ne_eq] at h1 h2
      obtain ⟨e1, e2⟩ := split_free (fun c => c == 47) a b (47 :: X₁) (47 :: X₂)
        (fun c hc => by simpa using h1 c hc) (fun c hc => by simpa using h2 c hc)
        (headIn_cons (by decide)) (headIn_cons (by decide)) h
      simp only [List.cons.injEq, true_and] at e2
      exact ⟨by rw [e1], e2⟩

theorem param_split {p₁ p₂ : BindParam} {X₁ X₂ : Bytes} (h1 : parsedParam p₁ = true)
    (h2 : parsedParam p₂ = true) (hX1 : headIn specialByte X₁) (hX2 : headIn specialByte X₂)
    (h : p₁.render ++ X₁ = p₂.render ++ X₂) : p₁ = p₂ ∧ X₁ = X₂ := by
  simp only [parsedParam, Bool.and_eq_true] at h1 h2
  rw [BindParam.render_eq, BindParam.render_eq, List.append_assoc, List.append_assoc,
    List.cons_append, List.cons_append, List.cons_append, List.cons_append] at h
  obtain ⟨e1, e2⟩ := split_free specialByte _ _ _ _ (cleanText_free h1.1) (cleanText_free h2.1)
    (headIn_cons (by decide)) (headIn_cons (by decide)) h
  simp only [List.cons.injEq, true_and] at e2
  obtain ⟨e3, e4⟩ := val_split h1.2 h2.2 hX1 hX2 e2
  obtain ⟨i1, v1⟩ := p₁
  obtain ⟨i2, v2⟩ := p₂
  simp only at e1 e3
  exact ⟨by rw [e1, e3], e4⟩

theorem more_split : ∀ (ps₁ ps₂ : List BindParam) (T₁ T₂ : Bytes),
    ps₁.all parsedParam = true → ps₂.all parsedParam = true →
    moreParams ps₁ ++ 125 :: T₁ = moreParams ps₂ ++ 125 :: T₂ → ps₁ = ps₂ ∧ T₁ = T₂
  | [], [], _, _, _, _, h => by
    simp only [moreParams, List.nil_append, List.cons.injEq, true_and] at h
    exact ⟨rfl, h⟩
  | [], q :: qs, _, _, _, _, h => by
    simp only [moreParams, List.nil_append, List.cons_append, List.cons.injEq] at h
    exact absurd h.1 (by decide)
  | q :: qs, [], _, _, _, _, h => by
    simp only [moreParams, List.nil_append, List.cons_append, List.cons.injEq] at h
    exact absurd h.1 (by decide)
  | p :: ps, q :: qs, T₁, T₂, h1, h2, h => by
    simp only [List.all_cons, Bool.and_eq_true] at h1 h2
    simp only [moreParams, List.cons_append, List.cons.injEq, true_and, List.append_assoc] at h
    have hh : ∀ (l : List BindParam) (T : Bytes), headIn specialByte (moreParams l ++ 125 :: T) := by
      intro l T
      cases l with
      | nil => exact headIn_cons (by decide)
      | cons => exact headIn_cons (by decide)
    obtain ⟨e1, e2⟩ := param_split h1.1 h2.1 (hh ps T₁) (hh qs T₂) h
    obtain ⟨e3, e4⟩ := more_split ps qs T₁ T₂ h1.2 h2.2 e2
    exact ⟨by rw [e1, e3], e4⟩

theorem elem_split {e₁ e₂ : Elem} {T₁ T₂ : Bytes} (h1 : parsedElem e₁ = true)
    (h2 : parsedElem e₂ = true)
    (hT1 : parsedIsIdent e₁ = true → headIn specialByte T₁)
    (hT2 : parsedIsIdent e₂ = true → headIn specialByte T₂)
    (h : e₁.render ++ T₁ = e₂.render ++ T₂) : e₁ = e₂ ∧ T₁ = T₂ := by
  -- a literal element against a braced one: the first bytes differ
  have hib : ∀ (a R X : Bytes), cleanText a = true → a ++ X = 123 :: R → False := by
    intro a R X ha hx
    obtain ⟨c, a', rfl, hc⟩ := cleanText_cons ha
    simp only [List.cons_append, List.cons.injEq] at hx
    rw [hx.1] at hc; cases hc
  cases e₁ with
  | ident a =>
    cases e₂ with
    | ident b =>
      obtain ⟨e1, e2⟩ := split_free specialByte a b T₁ T₂ (cleanText_free h1) (cleanText_free h2)
        (hT1 rfl) (hT2 rfl) h
      exact ⟨by rw [e1], e2⟩
    | bind m =>
      rw [Elem.render_bind] at h
      exact (hib a _ _ h1 h).elim
    | params qs =>
      cases qs with
      | nil => simp [parsedElem] at h2
      | cons q qs =>
        rw [Elem.render_params] at h
        exact (hib a _ _ h1 h).elim
  | bind n =>
    cases e₂ with
    | ident b =>
      rw [Elem.render_bind] at h
      exact (hib b _ _ h2 h.symm).elim
    | bind m =>
      rw [Elem.render_bind, Elem.render_bind] at h
      simp only [List.cons_append, List.cons.injEq, true_and, List.append_assoc,
        List.nil_append] at h
      obtain ⟨e1, e2⟩ := split_free specialByte n m _ _ (cleanText_free h1) (cleanText_free h2)
        (headIn_cons (by decide)) (headIn_cons (by decide)) h
      simp only [List.cons.injEq, true_and] at e2
      exact ⟨by rw [e1], e2⟩
    | params qs =>
      cases qs with
      | nil => simp [parsedElem] at h2
      | cons q qs =>
        simp only [parsedElem, List.all_cons, Bool.and_eq_true, parsedParam] at h2
        rw [Elem.render_bind, Elem.render_params, BindParam.render_eq] at h
        simp only [List.cons_append, List.cons.injEq, true_and, List.append_assoc,
          List.nil_append] at h
        obtain ⟨_, e2⟩ := split_free specialByte n q.ident _ _ (cleanText_free h1)
          (cleanText_free h2.2.1.1) (headIn_cons (by decide)) (headIn_cons (by decide)) h
        simp only [List.cons.injEq] at e2
        exact absurd e2.1 (by decide)
  | params ps =>
    cases ps with
    | nil => simp [parsedElem] at h1
    | cons p ps =>
      cases e₂ with
      | ident b =>
        rw [Elem.render_params] at h
        exact (hib b _ _ h2 h.symm).elim
      | bind m =>
        simp only [parsedElem, List.all_cons, Bool.and_eq_true, parsedParam] at h1
        rw [Elem.render_bind, Elem.render_params, BindParam.render_eq] at h
        simp only [List.cons_append, List.cons.injEq, true_and, List.append_assoc,
          List.nil_append] at h
        obtain ⟨_, e2⟩ := split_free specialByte p.ident m _ _ (cleanText_free h1.2.1.1)
          (cleanText_free h2) (headIn_cons (by decide)) (headIn_cons (by decide)) h
        simp only [List.cons.injEq] at e2
        exact absurd e2.1 (by decide)
      | params qs =>
        cases qs with
        | nil => simp [parsedElem] at h2
        | cons q qs =>
          simp only [parsedElem, List.all_cons, Bool.and_eq_true] at h1 h2
          rw [Elem.render_params, Elem.render_params] at h
          simp only [List.cons_append, List.cons.injEq, true_and, List.append_assoc,
            List.nil_append] at h
          have hh : ∀ (l : List BindParam) (T : Bytes),
              headIn specialByte (moreParams l ++ 125 :: T) := by
            intro l T
            cases l with
            | nil => exact headIn_cons (by decide)
            | cons => exact headIn_cons (by decide)
          obtain ⟨e1, e2⟩ := param_split h1.2.1 h2.2.1 (hh ps T₁) (hh qs T₂) h
          obtain ⟨e3, e4⟩ := more_split ps qs T₁ T₂ h1.2.2 h2.2.2 e2
          exact ⟨by rw [e1, e3], e4⟩

/-- the rendering of a parsed element list that does not start with a literal element is empty or
    starts with `{` -/
theorem headIn_elems : ∀ (es : List Elem), es.all parsedElem = true →
    (∀ e, es.head? = some e → parsedIsIdent e = false) →
    headIn specialByte (es.flatMap Elem.render)
  | [], _, _ => headIn_nil _
  | e :: es, h, hh => by
    simp only [List.all_cons, Bool.and_eq_true] at h
    have hne := hh e rfl
    rw [List.flatMap_cons]
    cases e with
    | ident a => cases hne
    | bind n => rw [Elem.render_bind]; exact headIn_cons (by decide)
    | params ps =>
      cases ps with
      | nil => simp [parsedElem] at h
      | cons p ps => rw [Elem.render_params]; exact headIn_cons (by decide)

theorem elems_inj : ∀ (es₁ es₂ : List Elem),
    es₁.all parsedElem = true → parsedNoAdj es₁ = true →
    es₂.all parsedElem = true → parsedNoAdj es₂ = true →
    es₁.flatMap Elem.render = es₂.flatMap Elem.render → es₁ = es₂ := by
  -- a parsed element renders at least one byte
  have hne : ∀ (e : Elem) (T : Bytes), parsedElem e = true → e.render ++ T ≠ [] := by
    intro e T he
    cases e with
    | ident a => obtain ⟨c, a', rfl, _⟩ := cleanText_cons he; simp [Elem.render]
    | bind n => rw [Elem.render_bind]; simp
    | params ps =>
      cases ps with
      | nil => simp [parsedElem] at he
      | cons p ps => rw [Elem.render_params]; simp
  -- after a literal element comes no literal element
  have htail : ∀ (e : Elem) (es : List Elem), (e :: es).all parsedElem = true →
      parsedNoAdj (e :: es) = true → parsedIsIdent e = true →
      headIn specialByte (es.flatMap Elem.render) := by
    intro e es ha hn hi
    simp only [List.all_cons, Bool.and_eq_true] at ha
    refine headIn_elems es ha.2 ?_
    intro e' he'
    cases es with
    | nil => cases he'
    | cons x xs =>
      cases he'
      simp only [parsedNoAdj, hi, Bool.true_and, Bool.and_eq_true, Bool.not_eq_true'] at hn
      exact hn.1
  intro es₁
  induction es₁ with
  | nil =>
    intro es₂ _ _ h2 _ h
    cases es₂ with
    | nil => rfl
    | cons e es =>
      simp only [List.all_cons, Bool.and_eq_true] at h2
      rw [List.flatMap_nil, List.flatMap_cons] at h
      exact absurd h.symm (hne e _ h2.1)
  | cons e₁ es₁ ih =>
    intro es₂ h1 n1 h2 n2 h
    cases es₂ with
    | nil =>
      simp only [List.all_cons, Bool.and_eq_true] at h1
      rw [List.flatMap_nil, List.flatMap_cons] at h
      exact absurd h (hne e₁ _ h1.1)
    | cons e₂ es₂ =>
      rw [List.flatMap_cons, List.flatMap_cons] at h
      have h1' := h1
      have h2' := h2
      simp only [List.all_cons, Bool.and_eq_true] at h1' h2'
      obtain ⟨e1, e2⟩ := elem_split h1'.1 h2'.1 (htail e₁ es₁ h1 n1) (htail e₂ es₂ h2 n2) h
      have t1 : parsedNoAdj es₁ = true := by
        cases es₁ with
        | nil => rfl
        | cons x xs => simp only [parsedNoAdj, Bool.and_eq_true] at n1; exact n1.2
      have t2 : parsedNoAdj es₂ = true := by
        cases es₂ with
        | nil => rfl
        | cons x xs => simp only [parsedNoAdj, Bool.and_eq_true] at n2; exact n2.2
      rw [e1, ih es₂ h1'.2 t1 h2'.2 t2 e2]

/-- `Segment.String()` is injective on the parser's outputs -/
theorem parsedSeg_render_inj {s₁ s₂ : Segment} (h1 : ParsedSeg s₁ = true) (h2 : ParsedSeg s₂ = true)
    (h : s₁.render = s₂.render) : s₁ = s₂ := by
  obtain ⟨o1, es1⟩ := s₁
  obtain ⟨o2, es2⟩ := s₂
  simp only [ParsedSeg, Bool.and_eq_true] at h1 h2
  simp only [Segment.render, B_slash, B_qmark, List.cons_append, List.nil_append,
    List.cons.injEq, true_and] at h
  -- a rendered parsed element list does not start with `?`
  have hq : ∀ (es : List Elem) (X : Bytes), es.all parsedElem = true →
      es.flatMap Elem.render = 63 :: X → False := by
    intro es X hes hx
    cases es with
    | nil => cases hx
    | cons e es =>
      simp only [List.all_cons, Bool.and_eq_true] at hes
      rw [List.flatMap_cons] at hx
      cases e with
      | ident a =>
        obtain ⟨c, a', rfl, hc⟩ := cleanText_cons hes.1
        simp only [Elem.render, List.cons_append, List.cons.injEq] at hx
        rw [hx.1] at hc; cases hc
      | bind n =>
        rw [Elem.render_bind] at hx
        simp only [List.cons_append, List.cons.injEq] at hx
        exact absurd hx.1 (by decide)
      | params ps =>
        cases ps with
        | nil => simp [parsedElem] at hes
        | cons p ps =>
          rw [Elem.render_params] at hx
          simp only [List.cons_append, List.cons.injEq] at hx
          exact absurd hx.1 (by decide)
  cases o1 <;> cases o2 <;>
    simp only [Bool.false_eq_true, ↓reduceIte, List.nil_append, List.cons_append,
      List.cons.injEq, true_and] at h
  · rw [elems_inj es1 es2 h1.1 h1.2 h2.1 h2.2 h]
  · exact (hq es1 _ h1.1 h).elim
  · exact (hq es2 _ h2.1 h.symm).elim
  · rw [elems_inj es1 es2 h1.1 h1.2 h2.1 h2.2 h]


/-- the leaf key (the segment without `/` and the optional mark) determines the elements -/
theorem parsedSeg_leafKey_inj {s₁ s₂ : Segment} (h1 : ParsedSeg s₁ = true) (h2 : ParsedSeg s₂ = true)
    (h : s₁.leafKey = s₂.leafKey) : s₁.elems = s₂.elems := by
  simp only [ParsedSeg, Bool.and_eq_true] at h1 h2
  exact elems_inj _ _ h1.1 h1.2 h2.1 h2.2 h

/-- on the parser's outputs the rendering determines the classification -/
theorem keyFaithful_parsed (E : Engine) : KeyFaithful E (fun s => ParsedSeg s = true) :=
  KeyFaithful_of_injective E _ fun _ _ h1 h2 h => parsedSeg_render_inj h1 h2 h

/-- item 4 for parsed routes: no abstract hypothesis -/
theorem addRoute_forms_parsed {E : Engine} {t t' : Node} {r : Route} {hid : Nat}
    (hinv : TreeInv t.subs t.leaves) (hk : KeyInv E (fun s => ParsedSeg s = true) t.subs)
    (hS : ∀ s ∈ r.segs, ParsedSeg s = true) (h : addRoute E t r hid = .ok t') :
    ∀ f, f ∈ treeForms t'.subs t'.leaves ↔
      (f ∈ treeForms t.subs t.leaves ∨ f ∈ formsOfRoute E r hid) :=
  addRoute_forms (keyFaithful_parsed E) hinv hk hS h

/-- a history of parsed routes satisfies `HistoryFaithful` -/
theorem historyFaithful_parsed (E : Engine) (h : List (Route × Nat))
    (hP : ∀ rh ∈ h, ∀ s ∈ rh.1.segs, ParsedSeg s = true) : HistoryFaithful E h :=
  (keyFaithful_parsed E).mono fun s ⟨rh, hrh, hs⟩ => hP rh (accepted_subset E h rh hrh) s hs

/-- item 6 for parsed routes: the forms stored in the tree after a history of registrations of
    parsed routes are exactly the forms of the accepted registrations -/
theorem build_forms_parsed (E : Engine) (h : List (Route × Nat))
    (hP : ∀ rh ∈ h, ∀ s ∈ rh.1.segs, ParsedSeg s = true) (f : Form) :
    f ∈ treeForms (build E h).subs (build E h).leaves ↔
      ∃ rh ∈ accepted E h, f ∈ formsOfRoute E rh.1 rh.2 :=
  build_forms E h (historyFaithful_parsed E h hP) f

/-! ### 7. the hypothesis cannot be dropped for arbitrary ASTs -/

/-- the counterexample: `/{a}/x` (a placeholder) and then a route whose first segment is the
    *static identifier* `{a}` followed by `y` — an AST the parser never produces, rendering as
    `/{a}/y`.  The second registration goes down into the placeholder node, so the tree stores
    `[hole a, static y]`, which is no form of an accepted route. -/
def cexE : Engine := ⟨fun _ => none, fun _ _ => none, fun _ _ => false⟩
def cexR1 : Route := ⟨[⟨false, [.bind [97]]⟩, ⟨false, [.ident [120]]⟩]⟩
def cexR2 : Route := ⟨[⟨false, [.ident (B "{" ++ [97] ++ B "}")]⟩, ⟨false, [.ident [121]]⟩]⟩
def cexForm : Form := ⟨[.hole [97], .static [121]], 2, true⟩

theorem forms_need_faithful :
    cexForm ∈ treeForms (build cexE [(cexR1, 1), (cexR2, 2)]).subs
      (build cexE [(cexR1, 1), (cexR2, 2)]).leaves ∧
    ¬ ∃ rh ∈ accepted cexE [(cexR1, 1), (cexR2, 2)], cexForm ∈ formsOfRoute cexE rh.1 rh.2 := by
  constructor
  · simp [build, buildFrom, addRoute, cexR1, cexR2, addNext, Node.root, classifyTree,
      classifyLeaf, staticLit, classifyDynamic, holeBind, starStar, bind, Except.bind,
      insertByRank, addLeafTo, lastIsAll, Pat.binds, Pat.isAll, Segment.render, Segment.leafKey, Elem.render,
      Node.key, replaceNode, pure, Except.pure, treeForms, Node.subs, Node.leaves,
      Node.formsList, Node.forms, cexForm, Pat.rank]
  · simp [accepted, acceptedFrom, addRoute, cexR1, cexR2, addNext, Node.root, classifyTree,
      classifyLeaf, staticLit, classifyDynamic, holeBind, starStar, bind, Except.bind,
      insertByRank, addLeafTo, lastIsAll, Pat.binds, Pat.isAll, Segment.render, Segment.leafKey, Elem.render,
      Node.key, replaceNode, pure, Except.pure, formsOfRoute, cexForm]

end Flamego
