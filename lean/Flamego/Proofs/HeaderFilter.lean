/-
  Proofs/HeaderFilter.lean — header constraints act as a filter on the priority-ordered
  enumeration of accepting walks: `derivs E hok … = (derivs E (fun _ => true) …).filter (hok ·.hid)`.
-/
import Flamego.Proofs.TreeMatch
namespace Flamego

def allOK : Nat → Bool := fun _ => true

theorem leafDerivs_filter (E : Engine) (hok : Nat → Bool) (leaves : List Leaf) (s : Seg) :
    leafDerivs E hok leaves s = (leafDerivs E allOK leaves s).filter (fun l => hok l.hid) := by
  simp only [leafDerivs, List.filter_filter, allOK, Bool.and_true]
  congr 1
  funext l
  exact Bool.and_comm _ _

theorem allLeafDerivs_filter (hok : Nat → Bool) (leaves : List Leaf) (n : Nat) :
    allLeafDerivs hok leaves n = (allLeafDerivs allOK leaves n).filter (fun l => hok l.hid) := by
  simp only [allLeafDerivs, List.filter_filter, allOK, Bool.and_true]
  congr 1
  funext l
  cases l.pat <;> simp [Bool.and_comm]

theorem derivs_filter_all (E : Engine) (hok : Nat → Bool) :
    (∀ subs leaves s rest, derivs E hok subs leaves s rest =
        (derivs E allOK subs leaves s rest).filter (fun l => hok l.hid)) ∧
    (∀ subs s s' rest', derivsSubs E hok subs s s' rest' =
        (derivsSubs E allOK subs s s' rest').filter (fun l => hok l.hid)) ∧
    (∀ cs cl cap captured s' rest', derivsAll E hok cs cl cap captured s' rest' =
        (derivsAll E allOK cs cl cap captured s' rest').filter (fun l => hok l.hid)) := by
  apply derivs.mutual_induct
    (motive1 := fun subs leaves s rest => derivs E hok subs leaves s rest =
        (derivs E allOK subs leaves s rest).filter (fun l => hok l.hid))
    (motive2 := fun subs s s' rest' => derivsSubs E hok subs s s' rest' =
        (derivsSubs E allOK subs s s' rest').filter (fun l => hok l.hid))
    (motive3 := fun cs cl cap captured s' rest' => derivsAll E hok cs cl cap captured s' rest' =
        (derivsAll E allOK cs cl cap captured s' rest').filter (fun l => hok l.hid))
  · intro subs leaves s
    rw [derivs, derivs]; exact leafDerivs_filter E hok leaves s
  · intro subs leaves s s' rest' ih
    rw [derivs, derivs, ih, allLeafDerivs_filter hok, List.filter_append]
  · intro s s' rest'
    rw [derivsSubs, derivsSubs]; rfl
  · intro s s' rest' key p cs cl more ih3 ih1 ih2
    by_cases hna : p.isAll = false
    · rw [derivsSubs_cons_notAll E hok key p cs cl more s s' rest' hna,
          derivsSubs_cons_notAll E allOK key p cs cl more s s' rest' hna, ih2, List.filter_append]
      congr 1
      split
      · exact ih1
      · rfl
    · cases p with
      | all b cap =>
        rw [derivsSubs_cons_all, derivsSubs_cons_all, ih2, List.filter_append, ih3 cap]
      | static l => simp [Pat.isAll] at hna
      | regex pt bs => simp [Pat.isAll] at hna
      | hole b => simp [Pat.isAll] at hna
  · intro cs cl cap captured s' rest' hc ih1 ih3
    rw [derivsAll_step E hok, derivsAll_step E allOK]
    simp only [hc, ↓reduceIte, List.filter_append, ih1]
    congr 1
    cases rest' with
    | nil => rfl
    | cons s'' rest'' => exact ih3
  · intro cs cl cap captured s' rest' hc
    rw [derivsAll_step E hok, derivsAll_step E allOK]
    simp [hc]

/-- the enumeration under header constraints is the unconstrained enumeration with the leaves whose
    constraints fail removed — order untouched -/
theorem derivs_filter (E : Engine) (hok : Nat → Bool) (subs : List Node) (leaves : List Leaf)
    (s : Seg) (rest : List Seg) :
    derivs E hok subs leaves s rest =
      (derivs E allOK subs leaves s rest).filter (fun l => hok l.hid) :=
  (derivs_filter_all E hok).1 subs leaves s rest

end Flamego
