/-
  Proofs/ParamsUrl.lean — from the winning walk back to the request path through `urlPath`.

  1. `RouteInv` : every leaf of the tree knows its route — the keys of its ancestors are the
     renderings of the route's leading segments, its own pattern is `classifyLeaf` of the
     segment it derives from, and its `long` flag says whether the route's optional last segment
     is part of it; `addRoute_routeInv`, `build_routeInv`
  2. `Walk.route_link` : the steps of a walk are, one by one, the classifications of the segments
     of the route of the leaf it ends in
  3. `instSeg_step` : filling the walk's captured values into a segment made of a static text, a
     placeholder or a match-all gives back the `/`-join of the segments the step took
  4. `walk_roundtrip_of` : `urlPath route captures long = "/" ++ joinSlash (s :: rest)`
-/
import Flamego.Proofs.ParamsAdd
import Flamego.Proofs.Url
import Flamego.Props.C12
namespace Flamego
open Url

/-! ### 1. every leaf knows its route -/

/-- how a leaf below ancestors with keys `ancK` relates to its route -/
def LeafRoute (E : Engine) (S : Segment → Prop) (ancK : List Bytes) (l : Leaf) : Prop :=
  (∀ s ∈ l.route.segs, S s) ∧
  ∃ (init : List Segment) (s : Segment), init.map Segment.render = ancK ∧
    classifyLeaf E s = .ok l.pat ∧
    ((l.long = true ∧ l.route.segs = init ++ [s]) ∨
     (l.long = false ∧ (∀ x ∈ init, x.optional = false) ∧ s.optional = false ∧
        ∃ opt, opt.optional = true ∧ l.route.segs = init ++ [s, opt]) ∨
     (l.long = false ∧ init = [] ∧ s = ⟨false, []⟩ ∧ ∃ opt, opt.optional = true ∧ l.route.segs = [opt]))

inductive RouteInv (E : Engine) (S : Segment → Prop) : List Bytes → List Node → List Leaf → Prop
  | mk (ancK : List Bytes) (subs : List Node) (leaves : List Leaf)
      (hl : ∀ l ∈ leaves, LeafRoute E S ancK l)
      (hc : ∀ k p cs cl, Node.mk k p cs cl ∈ subs → RouteInv E S (ancK ++ [k]) cs cl) :
      RouteInv E S ancK subs leaves

theorem RouteInv.leafOK {E S ancK subs leaves} (h : RouteInv E S ancK subs leaves) {l : Leaf}
    (hl : l ∈ leaves) : LeafRoute E S ancK l := by
  cases h with | mk _ _ _ h1 _ => exact h1 l hl

theorem RouteInv.child {E S ancK subs leaves} (h : RouteInv E S ancK subs leaves) {k p cs cl}
    (hn : Node.mk k p cs cl ∈ subs) : RouteInv E S (ancK ++ [k]) cs cl := by
  cases h with | mk _ _ _ _ h2 => exact h2 k p cs cl hn

theorem RouteInv.empty {E S} (ancK : List Bytes) : RouteInv E S ancK [] [] :=
  .mk _ _ _ (fun _ h => by cases h) (fun _ _ _ _ h => by cases h)

theorem addLeafTo_leafRoute {E : Engine} {S : Segment → Prop} {ancK : List Bytes}
    {leaves leaves' : List Leaf} {ab : List Bytes} {as : Bool}
    {r : Route} {s : Segment} {hid : Nat} {long : Bool}
    (hold : ∀ l ∈ leaves, LeafRoute E S ancK l)
    (h : addLeafTo E leaves ab as r s hid long = .ok leaves')
    (hnew : ∀ p, classifyLeaf E s = .ok p → LeafRoute E S ancK (newLeaf as r s hid long p)) :
    ∀ l ∈ leaves', LeafRoute E S ancK l := by
  obtain ⟨p, hp, _, _, _, rfl⟩ := addLeafTo_ok h
  intro l hl
  rcases (insertByRank_mem _ _ _ _).mp hl with heq | hm
  · subst heq; exact hnew p hp
  · exact hold l hm

theorem addNext_routeInv (E : Engine) (S : Segment → Prop) (r : Route) (hid : Nat)
    (hS : ∀ s ∈ r.segs, S s) :
    ∀ (segs pre : List Segment) (subs subs' : List Node) (leaves leaves' : List Leaf)
      (ab : List Bytes) (aa as short : Bool),
      r.segs = pre ++ segs → (∀ x ∈ pre, x.optional = false) →
      RouteInv E S (pre.map Segment.render) subs leaves →
      addNext E r hid segs subs leaves ab aa as = .ok (subs', leaves', short) →
      RouteInv E S (pre.map Segment.render) subs' leaves'
  | [], _, _, _, _, _, _, _, _, _, _, _, _, h => by rw [addNext] at h; cases h
  | [s], pre, subs, subs', leaves, leaves', ab, aa, as, short, hsegs, _, hinv, h => by
    obtain ⟨rfl, _, hl⟩ := addNext_single_ok h
    refine .mk _ _ _ ?_ (fun _ _ _ _ hn => hinv.child hn)
    refine addLeafTo_leafRoute (fun l hl => hinv.leafOK hl) hl ?_
    intro p hp
    exact ⟨hS, pre, s, rfl, hp, Or.inl ⟨rfl, hsegs⟩⟩
  | s :: s2 :: rest, pre, subs, subs', leaves, leaves', ab, aa, as, short, hsegs, hpre, hinv, h => by
    obtain ⟨hsopt, _, cpat, csubs, cleaves, csubs', cleaves', sh, as', hrec, hlv, hsub⟩ :=
      addNext_cons_ok h
    obtain ⟨hflag1, hflag2⟩ := addNext_flag hrec
    have hleaves : ∀ l ∈ leaves', LeafRoute E S (pre.map Segment.render) l := by
      rcases hlv with ⟨hsh, hl⟩ | ⟨_, rfl⟩
      · refine addLeafTo_leafRoute (fun l hl => hinv.leafOK hl) hl ?_
        intro p hp
        have hrest : rest = [] := by
          apply Classical.byContradiction
          intro hne
          rw [hflag2 hne] at hsh
          cases hsh
        subst hrest
        have hopt : s2.optional = true := by
          rw [← (hflag1 rfl).1]; exact hsh
        exact ⟨hS, pre, s, rfl, hp, Or.inr (Or.inl ⟨rfl, hpre, hsopt, s2, hopt, hsegs⟩)⟩
      · exact fun l hl => hinv.leafOK hl
    have hsegs' : r.segs = (pre ++ [s]) ++ (s2 :: rest) := by rw [hsegs]; simp
    have hpre' : ∀ x ∈ pre ++ [s], x.optional = false := by
      intro x hx
      rcases List.mem_append.mp hx with h | h
      · exact hpre x h
      · rw [List.mem_singleton] at h; subst h; exact hsopt
    have hmap : (pre ++ [s]).map Segment.render = pre.map Segment.render ++ [s.render] := by simp
    rcases hsub with ⟨hmem, rfl⟩ | ⟨_, _, rfl, rfl, _, _, _, rfl⟩
    · have hchild : RouteInv E S (pre.map Segment.render ++ [s.render]) csubs' cleaves' := by
        have := addNext_routeInv E S r hid hS (s2 :: rest) (pre ++ [s]) _ _ _ _ _ _ _ _ hsegs' hpre'
          (by rw [hmap]; exact hinv.child hmem) hrec
        rw [hmap] at this; exact this
      refine .mk _ _ _ hleaves ?_
      intro k p cs cl hm
      rcases replaceNode_mem_cases hm with heq | hm'
      · cases heq; exact hchild
      · exact hinv.child hm'
    · have hchild : RouteInv E S (pre.map Segment.render ++ [s.render]) csubs' cleaves' := by
        have := addNext_routeInv E S r hid hS (s2 :: rest) (pre ++ [s]) _ _ _ _ _ _ _ _ hsegs' hpre'
          (RouteInv.empty _) hrec
        rw [hmap] at this; exact this
      refine .mk _ _ _ hleaves ?_
      intro k p cs cl hm
      rcases (insertByRank_mem _ _ _ _).mp hm with heq | hm'
      · cases heq; exact hchild
      · exact hinv.child hm'

theorem addRoute_routeInv {E : Engine} {S : Segment → Prop} {t t' : Node} {r : Route} {hid : Nat}
    (hS : ∀ s ∈ r.segs, S s) (hinv : RouteInv E S [] t.subs t.leaves)
    (h : addRoute E t r hid = .ok t') : RouteInv E S [] t'.subs t'.leaves := by
  obtain ⟨k, p, subs, leaves⟩ := t
  simp only [Node.subs, Node.leaves] at hinv
  rcases addRoute_ok h with ⟨s, l1, l2, hs, hopt, h1, h2, rfl⟩ | ⟨s, l, hs, _, h1, rfl⟩ |
    ⟨s, s2, rest, subs', leaves', sh, hs, h1, rfl⟩
  · simp only [Bool.and_eq_true] at hopt
    refine .mk _ _ _ ?_ (fun _ _ _ _ hn => hinv.child hn)
    refine addLeafTo_leafRoute (addLeafTo_leafRoute (fun l hl => hinv.leafOK hl) h1 ?_) h2 ?_
    · intro p hp
      exact ⟨hS, [], ⟨false, []⟩, rfl, hp, Or.inr (Or.inr ⟨rfl, rfl, rfl, s, hopt.1, hs⟩)⟩
    · intro p hp
      exact ⟨hS, [], s, rfl, hp, Or.inl ⟨rfl, hs⟩⟩
  · refine .mk _ _ _ ?_ (fun _ _ _ _ hn => hinv.child hn)
    refine addLeafTo_leafRoute (fun l hl => hinv.leafOK hl) h1 ?_
    intro p hp
    exact ⟨hS, [], s, rfl, hp, Or.inl ⟨rfl, hs⟩⟩
  · exact addNext_routeInv E S r hid hS _ [] _ _ _ _ _ _ _ _ (by simpa using hs)
      (fun _ h => by cases h) hinv h1

theorem buildFrom_routeInv (E : Engine) (S : Segment → Prop) : ∀ (h : List (Route × Nat)) (t : Node),
    (∀ rh ∈ h, ∀ s ∈ rh.1.segs, S s) → RouteInv E S [] t.subs t.leaves →
    RouteInv E S [] (buildFrom E t h).subs (buildFrom E t h).leaves
  | [], _, _, ht => ht
  | rh :: h, t, hS, ht => by
    rw [buildFrom]
    have hS' : ∀ rh' ∈ h, ∀ s ∈ rh'.1.segs, S s := fun x hx => hS x (List.mem_cons_of_mem _ hx)
    cases hr : addRoute E t rh.1 rh.2 with
    | ok t' =>
      exact buildFrom_routeInv E S h t' hS' (addRoute_routeInv (hS rh (List.mem_cons_self ..)) ht hr)
    | error e => exact buildFrom_routeInv E S h t hS' ht

theorem build_routeInv (E : Engine) (S : Segment → Prop) (h : List (Route × Nat))
    (hS : ∀ rh ∈ h, ∀ s ∈ rh.1.segs, S s) : RouteInv E S [] (build E h).subs (build E h).leaves :=
  buildFrom_routeInv E S h Node.root hS (RouteInv.empty [])

theorem buildFrom_keyInv (E : Engine) (S : Segment → Prop) : ∀ (h : List (Route × Nat)) (t : Node),
    (∀ rh ∈ h, ∀ s ∈ rh.1.segs, S s) → KeyInv E S t.subs → KeyInv E S (buildFrom E t h).subs
  | [], _, _, ht => ht
  | rh :: h, t, hS, ht => by
    rw [buildFrom]
    have hS' : ∀ rh' ∈ h, ∀ s ∈ rh'.1.segs, S s := fun x hx => hS x (List.mem_cons_of_mem _ hx)
    cases hr : addRoute E t rh.1 rh.2 with
    | ok t' =>
      exact buildFrom_keyInv E S h t' hS' (addRoute_keyInv ht (hS rh (List.mem_cons_self ..)) hr)
    | error e => exact buildFrom_keyInv E S h t hS' ht

theorem build_keyInv (E : Engine) (S : Segment → Prop) (h : List (Route × Nat))
    (hS : ∀ rh ∈ h, ∀ s ∈ rh.1.segs, S s) : KeyInv E S (build E h).subs :=
  buildFrom_keyInv E S h Node.root hS KeyInv.empty

/-! ### 2. the steps of a walk are the classified segments of the leaf's route -/

/-- two lists of the same length, related element by element -/
inductive Forall2 {α β : Type} (R : α → β → Prop) : List α → List β → Prop
  | nil : Forall2 R [] []
  | cons {a b l₁ l₂} (h : R a b) (t : Forall2 R l₁ l₂) : Forall2 R (a :: l₁) (b :: l₂)

theorem Forall2.imp {α β : Type} {R Q : α → β → Prop} {l₁ l₂} (h : Forall2 R l₁ l₂)
    (f : ∀ a b, R a b → Q a b) : Forall2 Q l₁ l₂ := by
  induction h with
  | nil => exact .nil
  | cons h _ ih => exact .cons (f _ _ h) ih

theorem Forall2.append {α β : Type} {R : α → β → Prop} {l₁ l₂ m₁ m₂} (h : Forall2 R l₁ l₂)
    (h' : Forall2 R m₁ m₂) : Forall2 R (l₁ ++ m₁) (l₂ ++ m₂) := by
  induction h with
  | nil => exact h'
  | cons h _ ih => exact .cons h ih

theorem Forall2.length_eq {α β : Type} {R : α → β → Prop} {l₁ l₂} (h : Forall2 R l₁ l₂) :
    l₁.length = l₂.length := by
  induction h with
  | nil => rfl
  | cons _ _ ih => simp [ih]

/-- mapping both sides with functions that agree on related elements gives equal lists -/
theorem Forall2.map_eq {α β γ : Type} {R : α → β → Prop} {l₁ l₂} (h : Forall2 R l₁ l₂)
    (f : α → γ) (g : β → γ) (hfg : ∀ a b, a ∈ l₁ → b ∈ l₂ → R a b → f a = g b) :
    l₁.map f = l₂.map g := by
  induction h with
  | nil => rfl
  | cons h _ ih =>
    simp only [List.map_cons]
    rw [hfg _ _ (List.mem_cons_self ..) (List.mem_cons_self ..) h,
      ih (fun a b ha hb => hfg a b (List.mem_cons_of_mem _ ha) (List.mem_cons_of_mem _ hb))]

theorem Walk.route_link {E : Engine} {hok : Nat → Bool} {S : Segment → Prop} :
    {subs : List Node} → {leaves : List Leaf} → {s : Seg} → {rest : List Seg} →
    (w : Walk E hok subs leaves s rest) → ∀ ancK, RouteInv E S ancK subs leaves → KeyInv E S subs →
    ∃ (inner : List Step) (last : Step), w.steps = inner ++ [last] ∧ last.pat = w.endLeaf.pat ∧
      LeafRoute E S (ancK ++ inner.map (·.key)) w.endLeaf ∧
      ∀ st ∈ inner, ∃ seg, S seg ∧ seg.render = st.key ∧ classifyTree E seg = .ok st.pat
  | _, _, _, _, .leaf subs leaves s l hl ha hh, ancK, hr, _ =>
    ⟨[], ⟨l.key, l.pat, [s]⟩, rfl, rfl, by simpa [Walk.endLeaf] using hr.leafOK hl, fun _ h => by cases h⟩
  | _, _, _, _, .allLeaf subs leaves s s' rest' l b cap hl hp hc hh, ancK, hr, _ =>
    ⟨[], ⟨l.key, l.pat, s :: s' :: rest'⟩, rfl, rfl, by simpa [Walk.endLeaf] using hr.leafOK hl, fun _ h => by cases h⟩
  | _, _, _, _, .sub subs leaves s s' rest' k p cs cl hn hna ha w, ancK, hr, hk => by
    obtain ⟨inner, last, h1, h2, h3, h4⟩ := w.route_link (ancK ++ [k]) (hr.child hn) (hk.child hn)
    refine ⟨⟨k, p, [s]⟩ :: inner, last, by simp [Walk.steps, h1], h2, ?_, ?_⟩
    · simpa [List.append_assoc, Walk.endLeaf] using h3
    · intro st hst
      rcases List.mem_cons.mp hst with rfl | hst
      · exact hk.witness hn
      · exact h4 st hst
  | _, _, _, _, .allSub subs leaves s rest k b cap cs cl skipped s' rest' heq hn hc w, ancK, hr, hk => by
    obtain ⟨inner, last, h1, h2, h3, h4⟩ := w.route_link (ancK ++ [k]) (hr.child hn) (hk.child hn)
    refine ⟨⟨k, .all b cap, s :: skipped⟩ :: inner, last, by simp [Walk.steps, h1], h2, ?_, ?_⟩
    · simpa [List.append_assoc, Walk.endLeaf] using h3
    · intro st hst
      rcases List.mem_cons.mp hst with rfl | hst
      · exact hk.witness hn
      · exact h4 st hst

/-- equal renderings, unique reading: the leading segments of the route classify as the inner steps -/
theorem forall₂_of_keys {E : Engine} {S : Segment → Prop}
    (hinj : ∀ a b, S a → S b → a.render = b.render → a = b) :
    ∀ (init : List Segment) (inner : List Step), (∀ x ∈ init, S x) →
    init.map Segment.render = inner.map (·.key) →
    (∀ st ∈ inner, ∃ seg, S seg ∧ seg.render = st.key ∧ classifyTree E seg = .ok st.pat) →
    Forall2 (fun seg st => classifyTree E seg = .ok st.pat) init inner
  | [], [], _, _, _ => .nil
  | [], _ :: _, _, h, _ => by simp at h
  | _ :: _, [], _, h, _ => by simp at h
  | a :: init, st :: inner, hS, h, hw => by
    simp only [List.map_cons, List.cons.injEq] at h
    have hwst := hw st (List.mem_cons_self ..)
    obtain ⟨seg, h1, h2, h3⟩ := hwst
    have : a = seg := hinj a seg (hS a (List.mem_cons_self ..)) h1 (by rw [h.1, h2])
    subst this
    exact .cons h3 (forall₂_of_keys hinj init inner (fun x hx => hS x (List.mem_cons_of_mem _ hx)) h.2
      (fun st' hst' => hw st' (List.mem_cons_of_mem _ hst')))

theorem classifyTree_ok_leaf {E : Engine} {s : Segment} {p : Pat} (h : classifyTree E s = .ok p) :
    classifyLeaf E s = .ok p := by
  unfold classifyTree at h
  unfold classifyLeaf
  split at h
  · cases h
  · rename_i hne
    simp only [hne, Bool.false_eq_true, ↓reduceIte]
    exact h

/-- the segments of the route that the walk's steps stand for: all of them for the long form,
    all but the optional last one for the short form -/
def formSegs (l : Leaf) : List Segment :=
  if l.long then l.route.segs else l.route.segs.dropLast

/-- the walk's steps classify, one by one, the segments of the form of the route it serves —
    except for the short form of a route whose only segment is optional (the root path) -/
theorem Walk.steps_classify {E : Engine} {hok : Nat → Bool} {S : Segment → Prop}
    (hinj : ∀ a b, S a → S b → a.render = b.render → a = b)
    {subs : List Node} {leaves : List Leaf} {s : Seg} {rest : List Seg}
    (w : Walk E hok subs leaves s rest) (hr : RouteInv E S [] subs leaves) (hk : KeyInv E S subs)
    (hshort : w.endLeaf.long = false → 2 ≤ w.endLeaf.route.segs.length) :
    (∀ x ∈ w.endLeaf.route.segs, S x) ∧
    Forall2 (fun seg st => classifyLeaf E seg = .ok st.pat) (formSegs w.endLeaf) w.steps ∧
    (w.endLeaf.long = false → ∃ opt, opt.optional = true ∧
      w.endLeaf.route.segs = formSegs w.endLeaf ++ [opt] ∧ ∀ x ∈ formSegs w.endLeaf, x.optional = false) := by
  obtain ⟨inner, last, h1, h2, ⟨hS, init, sl, hmap, hcl, hcase⟩, h4⟩ := w.route_link [] hr hk
  simp only [List.nil_append] at hmap
  have hinit : ∀ x ∈ init, x ∈ w.endLeaf.route.segs := by
    intro x hx
    rcases hcase with ⟨_, e⟩ | ⟨_, _, _, _, _, e⟩ | ⟨_, e, _⟩
    · rw [e]; exact List.mem_append_left _ hx
    · rw [e]; exact List.mem_append_left _ hx
    · rw [e] at hx; cases hx
  have hF := forall₂_of_keys hinj init inner (fun x hx => hS x (hinit x hx)) hmap h4
  have hF' : Forall2 (fun seg st => classifyLeaf E seg = .ok st.pat) (init ++ [sl]) w.steps := by
    rw [h1]
    refine Forall2.append (hF.imp fun _ _ h => classifyTree_ok_leaf h) ?_
    exact .cons (by rw [h2]; exact hcl) .nil
  refine ⟨hS, ?_, ?_⟩
  · rcases hcase with ⟨hl, e⟩ | ⟨hl, _, _, opt, _, e⟩ | ⟨hl, _, _, opt, _, e⟩
    · simp only [formSegs, hl, ↓reduceIte, e]; exact hF'
    · have : (init ++ [sl, opt]).dropLast = init ++ [sl] := by
        have : init ++ [sl, opt] = (init ++ [sl]) ++ [opt] := by simp
        rw [this, List.dropLast_concat]
      simp only [formSegs, hl, Bool.false_eq_true, ↓reduceIte, e, this]; exact hF'
    · have := hshort hl
      rw [e] at this
      simp at this
  · intro hl
    rcases hcase with ⟨hl', _⟩ | ⟨_, hno, hsl, opt, hopt, e⟩ | ⟨_, _, _, opt, _, e⟩
    · rw [hl] at hl'; cases hl'
    · have hd : (init ++ [sl, opt]).dropLast = init ++ [sl] := by
        have : init ++ [sl, opt] = (init ++ [sl]) ++ [opt] := by simp
        rw [this, List.dropLast_concat]
      refine ⟨opt, hopt, ?_, ?_⟩
      · simp only [formSegs, hl, Bool.false_eq_true, ↓reduceIte, e, hd]; simp
      · simp only [formSegs, hl, Bool.false_eq_true, ↓reduceIte, e, hd]
        intro x hx
        rcases List.mem_append.mp hx with h | h
        · exact hno x h
        · rw [List.mem_singleton] at h; subst h; exact hsl
    · have := hshort hl
      rw [e] at this
      simp at this

/-! ### 3. one segment, one step: filling the captured values in gives the taken text back -/

theorem staticLit_some {s : Segment} {l : Bytes} (h : staticLit s = some l) : s.elems = [.ident l] := by
  unfold staticLit at h
  split at h
  · injection h with h; subst h; rfl
  · cases h

theorem holeBind_some {s : Segment} {b : Bytes} (h : holeBind s = some b) : s.elems = [.bind b] := by
  unfold holeBind at h
  split at h
  · split at h
    · injection h with h; subst h; rfl
    · cases h
  · cases h

theorem allBind_some {s : Segment} {b : Bytes} {c : Int} (h : allBind s = some (b, c)) :
    s.elems = [.bind b] ∨
      ∃ q qs, s.elems = [.params (q :: qs)] ∧ b = q.ident ∧ q.val = .lit starStar := by
  unfold allBind at h
  split at h
  · rename_i b'
    split at h
    · rename_i hb
      simp only [Option.some.injEq, Prod.mk.injEq] at h
      left; rw [hb, h.1]
    · cases h
  · rename_i q qs
    right
    split at h
    · rename_i hstar
      refine ⟨q, qs, rfl, ?_, hstar⟩
      split at h
      · split at h
        · split at h <;> (simp only [Option.some.injEq, Prod.mk.injEq] at h; exact h.1.symm)
        · simp only [Option.some.injEq, Prod.mk.injEq] at h; exact h.1.symm
      · simp only [Option.some.injEq, Prod.mk.injEq] at h; exact h.1.symm
    · cases h
  · cases h

theorem classifyRegex_is_regex {E : Engine} {s : Segment} {p : Pat} (h : classifyRegex E s = .ok p) :
    ∃ pt bs, p = .regex pt bs := by
  unfold classifyRegex at h
  simp only [bind, Except.bind] at h
  split at h
  · cases h
  · rename_i res _
    obtain ⟨pt, bs⟩ := res
    simp only at h
    split at h
    · cases h
    · split at h
      · cases h
      · simp only [pure, Except.pure, Except.ok.injEq] at h
        exact ⟨_, _, h.symm⟩

/-- what the segment of a leaf (or node) with a pattern that is no regex looks like -/
theorem classifyLeaf_inv {E : Engine} {s : Segment} {p : Pat} (h : classifyLeaf E s = .ok p) :
    (∃ pt bs, p = .regex pt bs ∧ classifyRegex E s = .ok p) ∨
    (p = .static [] ∧ s.elems = []) ∨
    (∃ lit, p = .static lit ∧ s.elems = [.ident lit]) ∨
    (∃ b, p = .hole b ∧ s.elems = [.bind b]) ∨
    (∃ b cap, p = .all b cap ∧
      (s.elems = [.bind b] ∨
        ∃ q qs, s.elems = [.params (q :: qs)] ∧ b = q.ident ∧ q.val = .lit starStar)) := by
  unfold classifyLeaf at h
  split at h
  · rename_i he
    injection h with h
    exact Or.inr (Or.inl ⟨h.symm, by simpa using he⟩)
  · split at h
    · rename_i l hl
      injection h with h
      exact Or.inr (Or.inr (Or.inl ⟨l, h.symm, staticLit_some hl⟩))
    · unfold classifyDynamic at h
      split at h
      · rename_i b hb
        injection h with h
        exact Or.inr (Or.inr (Or.inr (Or.inl ⟨b, h.symm, holeBind_some hb⟩)))
      · split at h
        · rename_i b c hb
          injection h with h
          exact Or.inr (Or.inr (Or.inr (Or.inr ⟨b, c, h.symm, allBind_some hb⟩)))
        · obtain ⟨pt, bs, hp⟩ := classifyRegex_is_regex h
          exact Or.inl ⟨pt, bs, hp, h⟩

theorem instSeg_ident (vals : List (Bytes × Bytes)) (lit : Bytes) (s : Segment)
    (h : s.elems = [.ident lit]) : instSeg vals s = lit := by
  simp [instSeg, h, C12.instElem_ident]

theorem instSeg_bind (vals : List (Bytes × Bytes)) (b v : Bytes) (s : Segment)
    (h : s.elems = [.bind b]) (hv : vals.lookup b = some v) : instSeg vals s = v := by
  simp [instSeg, h, C12.instElem_bind vals b v hv]

theorem instSeg_params (vals : List (Bytes × Bytes)) (q : BindParam) (qs : List BindParam) (v : Bytes)
    (t : Bytes) (s : Segment) (h : s.elems = [.params (q :: qs)]) (hq : q.val = .lit t)
    (hv : vals.lookup q.ident = some v) :
    instSeg vals s = v := by
  simp [instSeg, h, C12.instElem_params_lit vals q qs v t hq hv]

/-- filling the captured values into a segment that is a static text, a placeholder or a
    match-all gives the `/`-join of the request segments the step took -/
theorem instSeg_step {E : Engine} {vals : List (Bytes × Bytes)} {seg : Segment} {st : Step}
    (hcl : classifyLeaf E seg = .ok st.pat) (hok : StepOK E st)
    (hnr : ∀ pt bs, st.pat ≠ .regex pt bs)
    (hv : ∀ bv ∈ st.caps E, vals.lookup bv.1 = some bv.2) :
    instSeg vals seg = joinSlash st.taken := by
  rcases classifyLeaf_inv hcl with ⟨pt, bs, hp, _⟩ | ⟨hp, he⟩ | ⟨lit, hp, he⟩ | ⟨b, hp, he⟩ |
    ⟨b, cap, hp, he⟩
  · exact absurd hp (hnr pt bs)
  · obtain ⟨x, hx, ha⟩ := hok.single (by rw [hp]; rfl)
    rw [hp] at ha
    simp only [Pat.acceptsLeaf, decide_eq_true_eq] at ha
    subst ha
    simp [instSeg, he, hx, joinSlash]
  · obtain ⟨x, hx, ha⟩ := hok.single (by rw [hp]; rfl)
    rw [hp] at ha
    simp only [Pat.acceptsLeaf, decide_eq_true_eq] at ha
    subst ha
    rw [instSeg_ident vals lit seg he, hx]; rfl
  · obtain ⟨x, hx, _⟩ := hok.single (by rw [hp]; rfl)
    have := hv (b, x) (by simp [Step.caps, hp, Pat.caps, hx, joinSlash])
    rw [instSeg_bind vals b x seg he this, hx]; rfl
  · have := hv (b, joinSlash st.taken) (by simp [Step.caps, hp, Pat.caps])
    rcases he with he | ⟨q, qs, he, rfl, hq⟩
    · exact instSeg_bind vals b _ seg he this
    · exact instSeg_params vals q qs _ _ seg he hq this

theorem lookup_of_mem_nodup : ∀ (vals : List (Bytes × Bytes)), (vals.map (·.1)).Nodup →
    ∀ b v, (b, v) ∈ vals → vals.lookup b = some v
  | [], _, _, _, h => by cases h
  | (k, x) :: vals, hd, b, v, h => by
    rw [List.map_cons, List.nodup_cons] at hd
    rcases List.mem_cons.mp h with heq | hm
    · injection heq with h1 h2
      subst h1 h2
      simp [List.lookup]
    · have hne : b ≠ k := by
        intro e; subst e
        exact hd.1 (List.mem_map.mpr ⟨(b, v), hm, rfl⟩)
      have : (b == k) = false := by simpa using hne
      rw [List.lookup, this]
      exact lookup_of_mem_nodup vals hd.2 b v hm

/-! ### 4. assembling the URL -/

theorem joinSlash_append : ∀ (a b : List Bytes), a ≠ [] → b ≠ [] →
    joinSlash (a ++ b) = joinSlash a ++ slash :: joinSlash b
  | [], _, h, _ => absurd rfl h
  | [x], b, _, hb => by
    cases b with
    | nil => exact absurd rfl hb
    | cons y ys => simp [joinSlash]
  | x :: x' :: a, b, _, hb => by
    have ih := joinSlash_append (x' :: a) b (by simp) hb
    have h1 : joinSlash (x :: x' :: a ++ b) = x ++ slash :: joinSlash (x' :: a ++ b) := rfl
    have h2 : joinSlash (x :: x' :: a) = x ++ slash :: joinSlash (x' :: a) := rfl
    rw [h1, h2, ih]
    simp

theorem flatten_ne_nil {gs : List (List Bytes)} (hne : ∀ g ∈ gs, g ≠ []) (h : gs ≠ []) :
    gs.flatten ≠ [] := by
  cases gs with
  | nil => exact absurd rfl h
  | cons g gs =>
    have := hne g (List.mem_cons_self ..)
    cases g with
    | nil => exact absurd rfl this
    | cons a t => simp

/-- joining groups that were joined one by one is joining everything -/
theorem joinSlash_flatten : ∀ (gs : List (List Bytes)), (∀ g ∈ gs, g ≠ []) →
    joinSlash (gs.map joinSlash) = joinSlash gs.flatten
  | [], _ => rfl
  | [g], _ => by simp [joinSlash]
  | g :: g' :: gs, hne => by
    have ih := joinSlash_flatten (g' :: gs) (fun x hx => hne x (List.mem_cons_of_mem _ hx))
    have h1 : joinSlash ((g :: g' :: gs).map joinSlash) =
        joinSlash g ++ slash :: joinSlash ((g' :: gs).map joinSlash) := rfl
    have h2 : (g :: g' :: gs).flatten = g ++ (g' :: gs).flatten := rfl
    rw [h1, ih, h2,
      joinSlash_append g _ (hne g (List.mem_cons_self ..))
        (flatten_ne_nil (fun x hx => hne x (List.mem_cons_of_mem _ hx)) (by simp))]

theorem cleanText_noBrace {t : Bytes} (h : cleanText t = true) : noBrace t = true := by
  simp only [cleanText, Bool.and_eq_true, List.all_eq_true] at h
  simp only [noBrace, List.all_eq_true]
  intro c hc
  have := h.2 c hc
  simp only [Bool.and_eq_true, bne_iff_ne, ne_eq]
  constructor <;> (intro e; subst e; simp [specialByte] at this)

theorem parsedElem_braceFree {e : Elem} (h : parsedElem e = true) : elemBraceFree e = true := by
  cases e with
  | ident t => exact cleanText_noBrace h
  | bind n => exact cleanText_noBrace h
  | params ps =>
    cases ps with
    | nil => simp [parsedElem] at h
    | cons q qs =>
      simp only [parsedElem, Bool.and_eq_true, List.all_eq_true] at h
      simp only [elemBraceFree, List.all_eq_true]
      intro x hx
      have := h.2 x hx
      simp only [parsedParam, Bool.and_eq_true] at this
      exact cleanText_noBrace this.1

theorem parsedSeg_braceFree {s : Segment} (h : ParsedSeg s = true) :
    s.elems.all elemBraceFree = true := by
  simp only [ParsedSeg, Bool.and_eq_true, List.all_eq_true] at h
  rw [List.all_eq_true]
  exact fun e he => parsedElem_braceFree (h.1 e he)

theorem braceFree_of_parsed {r : Route} (h : ∀ s ∈ r.segs, ParsedSeg s = true) : BraceFree r = true := by
  simp only [BraceFree, List.all_eq_true]
  intro s hs e he
  have := parsedSeg_braceFree (h s hs)
  rw [List.all_eq_true] at this
  exact this e he

/-- the names a regex segment binds are bind names and parameter names of the segment -/
theorem paramsRegex_binds {E : Engine} : ∀ (ps : List BindParam) (pt : Bytes) (bs : List Bytes),
    ps.all parsedParam = true → regexOfElems.paramsRegex E ps = .ok (pt, bs) →
    ∀ b ∈ bs, b ≠ [] → noBrace b = true
  | [], pt, bs, _, h => by
    simp only [regexOfElems.paramsRegex, Except.ok.injEq, Prod.mk.injEq] at h
    obtain ⟨_, rfl⟩ := h
    intro b hb; cases hb
  | q :: qs, pt, bs, hp, h => by
    simp only [List.all_cons, Bool.and_eq_true] at hp
    rw [regexOfElems.paramsRegex] at h
    split at h
    · cases h
    · split at h
      · cases h
      · simp only [bind, Except.bind] at h
        split at h
        · cases h
        · rename_i res hres
          obtain ⟨p', bs'⟩ := res
          simp only [pure, Except.pure, Except.ok.injEq, Prod.mk.injEq] at h
          obtain ⟨_, rfl⟩ := h
          intro b hb hne
          simp only [List.cons_append, List.mem_cons, List.mem_append, List.mem_replicate] at hb
          rcases hb with rfl | ⟨_, rfl⟩ | hb
          · simp only [parsedParam, Bool.and_eq_true] at hp
            exact cleanText_noBrace hp.1.1
          · exact absurd rfl hne
          · exact paramsRegex_binds qs p' bs' hp.2 hres b hb hne

theorem regexOfElems_binds {E : Engine} : ∀ (es : List Elem) (pt : Bytes) (bs : List Bytes),
    es.all parsedElem = true → regexOfElems E es = .ok (pt, bs) →
    ∀ b ∈ bs, b ≠ [] → noBrace b = true
  | [], pt, bs, _, h => by
    simp only [regexOfElems, Except.ok.injEq, Prod.mk.injEq] at h
    obtain ⟨_, rfl⟩ := h
    intro b hb; cases hb
  | .ident t :: es, pt, bs, hp, h => by
    simp only [List.all_cons, Bool.and_eq_true] at hp
    rw [regexOfElems] at h
    simp only [bind, Except.bind] at h
    split at h
    · cases h
    · rename_i res hres
      obtain ⟨p', bs'⟩ := res
      simp only [pure, Except.pure, Except.ok.injEq, Prod.mk.injEq] at h
      obtain ⟨_, rfl⟩ := h
      exact regexOfElems_binds es p' _ hp.2 hres
  | .bind n :: es, pt, bs, hp, h => by
    simp only [List.all_cons, Bool.and_eq_true] at hp
    rw [regexOfElems] at h
    simp only [bind, Except.bind] at h
    split at h
    · cases h
    · rename_i res hres
      obtain ⟨p', bs'⟩ := res
      simp only [pure, Except.pure, Except.ok.injEq, Prod.mk.injEq] at h
      obtain ⟨_, rfl⟩ := h
      intro b hb hne
      rcases List.mem_cons.mp hb with rfl | hb
      · exact cleanText_noBrace hp.1
      · exact regexOfElems_binds es p' bs' hp.2 hres b hb hne
  | .params [] :: es, pt, bs, _, h => by
    rw [regexOfElems] at h; cases h
  | .params (q :: qs) :: es, pt, bs, hp, h => by
    simp only [List.all_cons, Bool.and_eq_true] at hp
    rw [regexOfElems] at h
    case x_1 => intro e; cases e
    simp only [bind, Except.bind] at h
    split at h
    · cases h
    · rename_i res1 hres1
      obtain ⟨p1, bs1⟩ := res1
      simp only at h
      split at h
      · cases h
      · rename_i res hres
        obtain ⟨p', bs'⟩ := res
        simp only [pure, Except.pure, Except.ok.injEq, Prod.mk.injEq] at h
        obtain ⟨_, rfl⟩ := h
        intro b hb hne
        have hq : (q :: qs).all parsedParam = true := by
          have := hp.1
          simp only [parsedElem, Bool.and_eq_true] at this
          exact this.2
        rcases List.mem_append.mp hb with hb | hb
        · exact paramsRegex_binds (q :: qs) p1 bs1 hq hres1 b hb hne
        · exact regexOfElems_binds es p' bs' hp.2 hres b hb hne

/-- everything a successful `classifyRegex` tells -/
theorem classifyRegex_ok {E : Engine} {s : Segment} {p : Pat} (h : classifyRegex E s = .ok p) :
    ∃ p0 bs, regexOfElems E s.elems = .ok (p0, bs) ∧ p = .regex (B "^" ++ p0 ++ B "$") bs ∧
      hasDup (bs.filter (· ≠ [])) = false := by
  unfold classifyRegex at h
  simp only [bind, Except.bind] at h
  split at h
  · cases h
  · rename_i res hres
    obtain ⟨p0, bs⟩ := res
    simp only at h
    split at h
    · cases h
    · rename_i hd
      split at h
      · cases h
      · simp only [pure, Except.pure, Except.ok.injEq] at h
        exact ⟨p0, bs, hres, h.symm, by simpa using hd⟩

theorem classifyLeaf_binds_noBrace {E : Engine} {s : Segment} {p : Pat} (hP : ParsedSeg s = true)
    (h : classifyLeaf E s = .ok p) : ∀ b ∈ p.binds, noBrace b = true := by
  have hall : s.elems.all parsedElem = true := by
    simp only [ParsedSeg, Bool.and_eq_true] at hP; exact hP.1
  rcases classifyLeaf_inv h with ⟨pt, bs, _, hr⟩ | ⟨hp, _⟩ | ⟨lit, hp, _⟩ | ⟨b, hp, he⟩ | ⟨b, cap, hp, he⟩
  · obtain ⟨p0, bs', hre, rfl, _⟩ := classifyRegex_ok hr
    intro b hb
    simp only [Pat.binds, List.mem_filter, decide_eq_true_eq] at hb
    exact regexOfElems_binds s.elems p0 bs' hall hre b hb.1 hb.2
  · subst hp; intro b hb; cases hb
  · subst hp; intro b hb; cases hb
  · subst hp
    rw [he] at hall
    intro b' hb'
    simp only [Pat.binds, List.mem_singleton] at hb'
    subst hb'
    simp only [List.all_cons, List.all_nil, Bool.and_true, parsedElem] at hall
    exact cleanText_noBrace hall
  · subst hp
    intro b' hb'
    simp only [Pat.binds, List.mem_singleton] at hb'
    subst hb'
    rcases he with he | ⟨q, qs, he, rfl, _⟩
    · rw [he] at hall
      simp only [List.all_cons, List.all_nil, Bool.and_true, parsedElem] at hall
      exact cleanText_noBrace hall
    · rw [he] at hall
      simp only [List.all_cons, List.all_nil, Bool.and_true, parsedElem, Bool.and_eq_true,
        parsedParam] at hall
      exact cleanText_noBrace hall.2.1.1

/-- the names under which a walk captures contain no brace -/
theorem steps_caps_noBrace {E : Engine} {segs : List Segment} {steps : List Step}
    (hF : Forall2 (fun seg st => classifyLeaf E seg = .ok st.pat) segs steps)
    (hP : ∀ x ∈ segs, ParsedSeg x = true) :
    (steps.flatMap (Step.caps E)).all (fun p => noBrace p.1) = true := by
  induction hF with
  | nil => rfl
  | @cons seg st l₁ l₂ h _ ih =>
    rw [List.flatMap_cons, List.all_append, ih (fun x hx => hP x (List.mem_cons_of_mem _ hx)),
      Bool.and_true, List.all_eq_true]
    intro bv hbv
    exact classifyLeaf_binds_noBrace (hP seg (List.mem_cons_self ..)) h bv.1
      (Pat.caps_keys_mem E _ _ _ (List.mem_map.mpr ⟨bv, hbv, rfl⟩))

/-- without the flag the URL is that of the route cut before its first optional segment -/
theorem urlPath_false (r : Route) (vals : List (Bytes × Bytes)) :
    urlPath r vals false = urlPath ⟨r.segs.takeWhile fun s => !s.optional⟩ vals true := by
  unfold urlPath
  rw [C12.optional_only_when_asked]

theorem takeWhile_short : ∀ (l : List Segment) (opt : Segment), (∀ x ∈ l, x.optional = false) →
    opt.optional = true → (l ++ [opt]).takeWhile (fun s => !s.optional) = l
  | [], opt, _, ho => by simp [ho]
  | a :: l, opt, hl, ho => by
    have ha := hl a (List.mem_cons_self ..)
    simp only [List.cons_append, List.takeWhile_cons, ha, Bool.not_false, ↓reduceIte]
    rw [takeWhile_short l opt (fun x hx => hl x (List.mem_cons_of_mem _ hx)) ho]

/-- **the round trip, given the per-segment fact** `hseg` (filling the captures into a segment of
    the route gives the join of what its step took): the URL built from the raw captures of the
    walk, with the optional segment iff the leaf is the long form, is `/` + the request's
    segments joined by `/`. -/
theorem walk_roundtrip_of {E : Engine} {hok : Nat → Bool} {subs : List Node} {leaves : List Leaf}
    {s : Seg} {rest : List Seg} (w : Walk E hok subs leaves s rest)
    (hr : RouteInv E (fun x => ParsedSeg x = true) [] subs leaves)
    (hk : KeyInv E (fun x => ParsedSeg x = true) subs)
    (hshort : w.endLeaf.long = false → 2 ≤ w.endLeaf.route.segs.length)
    (hseg : ∀ seg st, seg ∈ formSegs w.endLeaf → st ∈ w.steps → classifyLeaf E seg = .ok st.pat →
      instSeg w.binds seg = joinSlash st.taken) :
    urlPath w.endLeaf.route w.binds w.endLeaf.long = slash :: joinSlash (s :: rest) := by
  obtain ⟨hS, hF, hsh⟩ := w.steps_classify (fun a b ha hb h => parsedSeg_render_inj ha hb h) hr hk hshort
  have hmap : (formSegs w.endLeaf).map (instSeg w.binds) = w.steps.map (fun st => joinSlash st.taken) :=
    hF.map_eq _ _ (fun seg st hs hst h => hseg seg st hs hst h)
  have hne : ∀ g ∈ w.steps.map (·.taken), g ≠ [] := by
    intro g hg
    obtain ⟨st, hst, rfl⟩ := List.mem_map.mp hg
    have hok := w.steps_ok st hst
    cases hp : st.pat with
    | all b cap => exact (hok.all b cap hp).1
    | static _ => obtain ⟨x, hx, _⟩ := hok.single (by rw [hp]; rfl); rw [hx]; simp
    | hole _ => obtain ⟨x, hx, _⟩ := hok.single (by rw [hp]; rfl); rw [hx]; simp
    | regex _ _ => obtain ⟨x, hx, _⟩ := hok.single (by rw [hp]; rfl); rw [hx]; simp
  have hjoin : joinSlash ((formSegs w.endLeaf).map (instSeg w.binds)) = joinSlash (s :: rest) := by
    rw [hmap]
    have := joinSlash_flatten (w.steps.map (·.taken)) hne
    rw [List.map_map] at this
    rw [← w.steps_taken, List.flatMap_def, ← this]
    rfl
  have hsegsP : ∀ x ∈ formSegs w.endLeaf, ParsedSeg x = true := by
    intro x hx
    apply hS
    unfold formSegs at hx
    split at hx
    · exact hx
    · exact List.dropLast_subset _ hx
  have hv : w.binds.all (fun p => noBrace p.1) = true := steps_caps_noBrace hF hsegsP
  have hformne : formSegs w.endLeaf ≠ [] := by
    intro e
    have := hF.length_eq
    rw [e] at this
    obtain ⟨init, taken, h1⟩ := w.steps_last
    rw [h1] at this
    simp at this
  cases hl : w.endLeaf.long with
  | true =>
    have hfs : formSegs w.endLeaf = w.endLeaf.route.segs := by simp [formSegs, hl]
    rw [C12.urlPath_join _ _ (braceFree_of_parsed hS) hv (by rw [← hfs]; exact hformne), ← hfs, hjoin]
  | false =>
    obtain ⟨opt, hopt, hsegs, hno⟩ := hsh hl
    have htw : (w.endLeaf.route.segs.takeWhile fun s => !s.optional) = formSegs w.endLeaf := by
      rw [hsegs]; exact takeWhile_short _ opt hno hopt
    rw [urlPath_false, htw,
      C12.urlPath_join ⟨formSegs w.endLeaf⟩ _ (braceFree_of_parsed hsegsP) hv hformne, hjoin]

/-- **the round trip for the root path**: the short form of a route whose only segment is optional
    (`/?name` requested as `/`) — `URLPath` stops before the optional segment and, the buffer being
    empty, returns `/`; the request has the single empty segment -/
theorem walk_roundtrip_rootShort {E : Engine} {hok : Nat → Bool} {subs : List Node} {leaves : List Leaf}
    {s : Seg} {rest : List Seg} (w : Walk E hok subs leaves s rest)
    (hr : RouteInv E (fun x => ParsedSeg x = true) [] subs leaves)
    (hk : KeyInv E (fun x => ParsedSeg x = true) subs)
    (hl : w.endLeaf.long = false) (hlen : w.endLeaf.route.segs.length < 2) :
    urlPath w.endLeaf.route w.binds w.endLeaf.long = slash :: joinSlash (s :: rest) := by
  obtain ⟨inner, last, h1, h2, ⟨_, init, sl, hmap, hcl, hcase⟩, _⟩ := w.route_link [] hr hk
  rcases hcase with ⟨hl', _⟩ | ⟨_, _, _, opt, _, e⟩ | ⟨_, hinit, hsl, opt, hopt, e⟩
  · rw [hl] at hl'; cases hl'
  · rw [e] at hlen; simp only [List.length_append, List.length_cons, List.length_nil] at hlen; omega
  · subst hinit hsl
    have hinner : inner = [] := by simpa using hmap.symm
    subst hinner
    have hpat : last.pat = .static [] := by
      rw [h2]
      simp only [classifyLeaf, List.isEmpty_nil, ↓reduceIte, Except.ok.injEq] at hcl
      exact hcl.symm
    have hso := w.steps_ok last (by rw [h1]; simp)
    obtain ⟨x, hx, ha⟩ := hso.single (by rw [hpat]; rfl)
    rw [hpat] at ha
    simp only [Pat.acceptsLeaf, decide_eq_true_eq] at ha
    have htk := w.steps_taken
    rw [h1] at htk
    simp only [List.nil_append, List.flatMap_cons, List.flatMap_nil, List.append_nil, hx] at htk
    rw [hl, C12.urlPath_fallback_root _ opt [] e hopt, ← htk, B_slash]
    subst ha
    rfl

end Flamego
