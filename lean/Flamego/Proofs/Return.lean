/-
  Proofs/Return.lean — lemmas for C14: what the few act sequences the table can produce do to
  a fresh response writer, and a closed form of the table's tail (`render`).
-/
import Flamego.Model.Return

namespace Flamego.Ret
open Flamego.Writer (W)

/-- what a client (and the next handler) can observe of the outcome -/
structure Resp where
  status   : Nat            -- status line sent (0 = none)
  body     : Bytes          -- body bytes sent
  panicked : Bool
  deriving DecidableEq, Repr

def Out.resp (o : Out) : Resp := ⟨o.w.status, o.body, o.panicked⟩

def fresh (head : Bool) : Out := { w := Writer.init head }

/-- the body a client of a `head` (= HEAD method) request receives for `b` -/
def bodyFor (head : Bool) (b : Bytes) : Bytes := if head then [] else b

theorem validCode_pos {c : Int} (h : validCode c = true) : c.toNat ≠ 0 := by
  simp [validCode] at h; omega

theorem run_nil (head : Bool) : (Out.run (fresh head) []) = fresh head := rfl

theorem run_write (head : Bool) (b : Bytes) :
    (Out.run (fresh head) [.write b]).resp = ⟨200, bodyFor head b, false⟩ ∧
    (Out.run (fresh head) [.write b]).w.written = true := by
  cases head <;>
    simp [Out.run, Out.act, fresh, Out.resp, bodyFor, Writer.step, W.ensure, W.writeHeader, W.written, Writer.init]

theorem run_hdr (head : Bool) (c : Int) (hc : validCode c = true) :
    (Out.run (fresh head) [.writeHeader c]).resp = ⟨c.toNat, [], false⟩ ∧
    (Out.run (fresh head) [.writeHeader c]).w.written = true := by
  have := validCode_pos hc
  simp [Out.run, Out.act, fresh, Out.resp, Writer.step, W.writeHeader, W.written, Writer.init, hc, this]

theorem run_hdr_write (head : Bool) (c : Int) (b : Bytes) (hc : validCode c = true) :
    (Out.run (fresh head) [.writeHeader c, .write b]).resp = ⟨c.toNat, bodyFor head b, false⟩ ∧
    (Out.run (fresh head) [.writeHeader c, .write b]).w.written = true := by
  have := validCode_pos hc
  cases head <;>
    simp [Out.run, Out.act, fresh, Out.resp, bodyFor, Writer.step, W.ensure, W.writeHeader, W.written,
          Writer.init, hc, this]

/-- `(int, error)`: the table calls `WriteHeader(c)` and then `WriteHeader(500)`; the writer's
    `sync.Once` keeps the first -/
theorem run_hdr_hdr_write (head : Bool) (c d : Int) (b : Bytes) (hc : validCode c = true) :
    (Out.run (fresh head) [.writeHeader c, .writeHeader d, .write b]).resp = ⟨c.toNat, bodyFor head b, false⟩ ∧
    (Out.run (fresh head) [.writeHeader c, .writeHeader d, .write b]).w.written = true := by
  have := validCode_pos hc
  cases head <;>
    simp [Out.run, Out.act, fresh, Out.resp, bodyFor, Writer.step, W.ensure, W.writeHeader, W.written,
          Writer.init, hc, this]

theorem run_hdr_panic (head : Bool) (c : Int) (hc : validCode c = true) :
    (Out.run (fresh head) [.writeHeader c, .panic]).resp = ⟨c.toNat, [], true⟩ := by
  simp [Out.run, Out.act, fresh, Out.resp, Writer.step, W.writeHeader, W.written, Writer.init, hc]

theorem run_hdr_hdr_panic (head : Bool) (c d : Int) (hc : validCode c = true) :
    (Out.run (fresh head) [.writeHeader c, .writeHeader d, .panic]).resp = ⟨c.toNat, [], true⟩ := by
  simp [Out.run, Out.act, fresh, Out.resp, Writer.step, W.writeHeader, W.written, Writer.init, hc]

/-- once panicked, nothing more happens -/
theorem run_panicked (o : Out) (acts : List Act) (h : o.panicked = true) : Out.run o acts = o := by
  induction acts with
  | nil => rfl
  | cons a as ih => simp [Out.run, List.foldl_cons, Out.act, h] at ih ⊢; exact ih

/-- an invalid status code reaching the wrapped writer first: net/http panics, nothing is sent -/
theorem run_invalid_hdr (head : Bool) (c : Int) (rest : List Act) (hc : validCode c = false) :
    (Out.run (fresh head) (.writeHeader c :: rest)).resp = ⟨0, [], true⟩ := by
  have h1 : Out.act (fresh head) (.writeHeader c) = { fresh head with panicked := true } := by
    simp [Out.act, fresh, Writer.init, W.written, hc]
  have : Out.run (fresh head) (.writeHeader c :: rest) = Out.run { fresh head with panicked := true } rest := by
    simp [Out.run, List.foldl_cons, h1]
  rw [this, run_panicked _ _ rfl]
  rfl

/-! ### closed form of the tail -/

/-- what is left of a value after the one `Elem()` the table performs -/
def innerBody (ph : Bytes) : RetVal → Bytes
  | .str b => b
  | .bytes b => b.getD []
  | _ => ph

/-- The body a value that is not an error stands for: a string or byte slice is itself,
    nil (slice, pointer, interface) is empty, one pointer / interface level is looked through,
    any other kind is empty when zero and otherwise prints as reflect's placeholder. -/
def bodyOf (ph : Bytes) : RetVal → Bytes
  | .str b => b
  | .bytes b => b.getD []
  | .ptrNil | .ifaceNil => []
  | .ptrTo v | .ifaceOf v => innerBody ph v
  | .int n => if n = 0 then [] else ph
  | .other z => if z then [] else ph
  | .err _ => ph

theorem render_closed (ph : Bytes) (v : RetVal) :
    render ph (some v) =
      match asError v with
      | some (some m) => [.writeHeader 500, .write m]
      | some none => [.writeHeader 500, .panic]
      | none => if (bodyOf ph v).isEmpty then [] else [.write (bodyOf ph v)] := by
  cases v with
  | str b => cases b <;> simp [render, asError, isZero, canDeref, payload, bodyOf]
  | bytes b =>
    cases b with
    | none => simp [render, asError, isZero, bodyOf]
    | some b => cases b <;> simp [render, asError, isZero, canDeref, payload, bodyOf]
  | err m => cases m <;> simp [render, asError]
  | int n =>
    by_cases h : n = 0
    · simp [render, asError, isZero, bodyOf, h]
    · cases ph <;> simp [render, asError, isZero, canDeref, payload, bodyOf, h]
  | ptrNil => simp [render, asError, isZero, bodyOf]
  | ptrTo v =>
    cases v <;> simp [render, asError, isZero, canDeref, elem, payload, bodyOf, innerBody]
  | ifaceNil => simp [render, asError, isZero, bodyOf]
  | ifaceOf v =>
    simp only [render, asError]
    cases h : asError v with
    | some m => cases m <;> simp
    | none =>
      cases v <;> simp [asError] at h <;>
        simp [isZero, canDeref, elem, payload, bodyOf, innerBody]
  | other z =>
    cases z <;> cases ph <;> simp [render, asError, isZero, canDeref, payload, bodyOf]

end Flamego.Ret
