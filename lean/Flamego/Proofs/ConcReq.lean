/-
  Proofs/ConcReq.lean — lemmas for Props/C05Req.lean: the request machine of Model/ConcReq served
  alone is a left fold over its program; projections of that fold (program counter, writer, request
  scope, params); the frame property of one `Conc.stepW`; the `Inject.World` view of a `map` step.
-/
import Flamego.Model.ConcReq
import Flamego.Proofs.Conc
import Flamego.Proofs.Inject
import Flamego.Proofs.Writer

namespace Flamego.ConcReq
open Flamego.Inject (Ty Val Scope Universe)

/-! ### one micro-operation -/

theorem execOp_pc (cfg : Config) (st : St) (op : MicroOp) (s : String) :
    (execOp cfg st op s).pc = st.pc + 1 := by
  cases op <;> rfl

theorem execOp_obs_length (cfg : Config) (st : St) (op : MicroOp) (s : String) :
    (execOp cfg st op s).obs.length = st.obs.length + 1 := by
  cases op <;> simp [execOp]

/-- only `w` operations touch the writer -/
theorem execOp_writer (cfg : Config) (st : St) (op : MicroOp) (s : String) :
    (execOp cfg st op s).writer = (writerOps [op]).foldl Writer.step st.writer := by
  cases op <;> rfl

/-- the request scope after one operation: one more registration for a `map`, unchanged otherwise -/
def scopeAfter (sc : Scope) : MicroOp → Scope
  | .map t v => Inject.register sc t v
  | _ => sc

theorem execOp_scope (cfg : Config) (st : St) (op : MicroOp) (s : String) :
    (execOp cfg st op s).scope = scopeAfter st.scope op := by
  cases op <;> rfl

/-- the params after one operation -/
def paramsAfter (ps : Params) : MicroOp → Params
  | .setParam k v => ps.set k v
  | _ => ps

theorem execOp_params (cfg : Config) (st : St) (op : MicroOp) (s : String) :
    (execOp cfg st op s).params = paramsAfter st.params op := by
  cases op <;> rfl

/-- the string handed over matters to `routeString` only -/
theorem execOp_string_irrelevant (cfg : Config) (st : St) (op : MicroOp) (s s' : String)
    (h : ∀ k, op ≠ .routeString k) : execOp cfg st op s = execOp cfg st op s' := by
  cases op <;> first | rfl | exact absurd rfl (h _)

/-! ### the sequential run -/

theorem runSeq_nil (cfg : Config) (st : St) : runSeq cfg st [] = st := rfl

theorem runSeq_cons (cfg : Config) (st : St) (op : MicroOp) (ops : List MicroOp) :
    runSeq cfg st (op :: ops) = runSeq cfg (execOp cfg st op (renderSlot cfg (slotOf op))) ops := rfl

theorem runSeq_append (cfg : Config) (st : St) (a b : List MicroOp) :
    runSeq cfg st (a ++ b) = runSeq cfg (runSeq cfg st a) b := by
  simp [runSeq, List.foldl_append]

theorem runSeq_pc (cfg : Config) (st : St) (ops : List MicroOp) :
    (runSeq cfg st ops).pc = st.pc + ops.length := by
  induction ops generalizing st with
  | nil => rfl
  | cons op ops ih => rw [runSeq_cons, ih, execOp_pc]; simp; omega

theorem runSeq_obs_length (cfg : Config) (st : St) (ops : List MicroOp) :
    (runSeq cfg st ops).obs.length = st.obs.length + ops.length := by
  induction ops generalizing st with
  | nil => rfl
  | cons op ops ih => rw [runSeq_cons, ih, execOp_obs_length]; simp; omega

theorem writerOps_append (a b : List MicroOp) : writerOps (a ++ b) = writerOps a ++ writerOps b := by
  induction a with
  | nil => rfl
  | cons op a ih => cases op <;> simp [writerOps, ih]

theorem runSeq_writer (cfg : Config) (st : St) (ops : List MicroOp) :
    (runSeq cfg st ops).writer = (writerOps ops).foldl Writer.step st.writer := by
  induction ops generalizing st with
  | nil => rfl
  | cons op ops ih =>
    rw [runSeq_cons, ih, execOp_writer]
    have : writerOps (op :: ops) = writerOps [op] ++ writerOps ops := writerOps_append [op] ops
    rw [this, List.foldl_append]

theorem runSeq_scope (cfg : Config) (st : St) (ops : List MicroOp) :
    (runSeq cfg st ops).scope = ops.foldl scopeAfter st.scope := by
  induction ops generalizing st with
  | nil => rfl
  | cons op ops ih => rw [runSeq_cons, ih, execOp_scope]; rfl

theorem runSeq_params (cfg : Config) (st : St) (ops : List MicroOp) :
    (runSeq cfg st ops).params = ops.foldl paramsAfter st.params := by
  induction ops generalizing st with
  | nil => rfl
  | cons op ops ih => rw [runSeq_cons, ih, execOp_params]; rfl

/-! ### `Conc.solo` of the request machine is the sequential run of a prefix of the program -/

theorem solo_eq_runSeq (cfg : Config) (req : Req) (n : Nat) :
    Conc.solo reqMachine cfg req n = runSeq cfg (initReq req) (req.prog.take n) := by
  induction n with
  | zero => rfl
  | succ n ih =>
    have hpc : (Conc.solo reqMachine cfg req n).pc = min n req.prog.length := by
      rw [ih, runSeq_pc]; simp [initReq, List.length_take]
    show stepReq cfg req (Conc.solo reqMachine cfg req n)
        (renderSlot cfg (segOfReq cfg req (Conc.solo reqMachine cfg req n))) = _
    by_cases hn : n < req.prog.length
    · have hpc' : (Conc.solo reqMachine cfg req n).pc = n := by rw [hpc]; omega
      have hop : nextOp req (Conc.solo reqMachine cfg req n) = some req.prog[n] := by
        simp [nextOp, hpc', hn]
      have htake : req.prog.take (n + 1) = req.prog.take n ++ [req.prog[n]] := by
        rw [List.take_add_one]; simp [hn]
      rw [htake, runSeq_append, ← ih]
      simp only [stepReq, segOfReq, hop]
      rfl
    · have hpc' : (Conc.solo reqMachine cfg req n).pc = req.prog.length := by rw [hpc]; omega
      have hop : nextOp req (Conc.solo reqMachine cfg req n) = none := by
        simp [nextOp, hpc']
      have htake : req.prog.take (n + 1) = req.prog.take n := by
        rw [List.take_of_length_le (by omega), List.take_of_length_le (by omega)]
      rw [htake, ← ih]
      simp only [stepReq, hop]

/-- once the program is exhausted further steps change nothing -/
theorem solo_done (cfg : Config) (req : Req) (n : Nat) (h : req.prog.length ≤ n) :
    Conc.solo reqMachine cfg req n = runSeq cfg (initReq req) req.prog := by
  rw [solo_eq_runSeq, List.take_of_length_le h]

/-! ### one step of the interleaving -/

variable {Config' Req' St' : Type}

/-- a step of request `i` rewrites the record of request `i` only -/
theorem stepW_frame (m : Conc.Machine Config' Req' St') (cfg : Config') (reqs : Nat → Req') (i j : Nat)
    (w : Conc.World St') (h : j ≠ i) : (Conc.stepW m cfg reqs i w).locals j = w.locals j := by
  simp [Conc.stepW, h]

theorem stepW_own (m : Conc.Machine Config' Req' St') (cfg : Config') (reqs : Nat → Req') (i : Nat)
    (w : Conc.World St') :
    (Conc.stepW m cfg reqs i w).locals i =
      m.step cfg (reqs i) (w.locals i) (Conc.onceGet m cfg w.cache (m.segOf cfg (reqs i) (w.locals i))).1 := by
  simp [Conc.stepW]

/-- the `Inject.World` view: a `map t v` step of request `i` is exactly `World.mapReq i t v` -/
theorem injectView_map_step (cfg : Config) (reqs : Nat → Req) (i n : Nat) (w : Conc.World St)
    (t : Ty) (v : Val) (hop : nextOp (reqs i) (w.locals i) = some (.map t v)) :
    injectView cfg (Conc.stepW reqMachine cfg reqs i w) n = (injectView cfg w n).mapReq i t v := by
  have hreqs : (List.range n).map (fun j => ((Conc.stepW reqMachine cfg reqs i w).locals j).scope) =
      Inject.modifyAt (Inject.register · t v) ((List.range n).map fun j => (w.locals j).scope) i := by
    apply List.ext_getElem?
    intro j
    by_cases hj : j = i
    · subst hj
      rw [Inject.modifyAt_get_same]
      by_cases hn : j < n
      · simp only [List.getElem?_map, List.getElem?_range hn, Option.map_some]
        rw [stepW_own]
        show some (stepReq cfg (reqs j) (w.locals j) _).scope = _
        simp only [stepReq, hop]
        rfl
      · have : (List.range n)[j]? = none := by simp; omega
        simp [this]
    · rw [Inject.modifyAt_get_ne _ _ _ _ hj]
      by_cases hn : j < n
      · simp only [List.getElem?_map, List.getElem?_range hn, Option.map_some]
        rw [stepW_frame _ _ _ _ _ _ hj]
      · have : (List.range n)[j]? = none := by simp; omega
        simp [this]
  simp only [injectView, Inject.World.mapReq]
  rw [hreqs]

/-- the chain of request `j` read off the `Inject.World` view is its own chain -/
theorem injectView_chain (cfg : Config) (w : Conc.World St) (n j : Nat) (h : j < n) :
    (injectView cfg w n).chain j = chainOf cfg (w.locals j) := by
  simp [injectView, Inject.World.chain, chainOf, List.getElem?_range h]

end Flamego.ConcReq
