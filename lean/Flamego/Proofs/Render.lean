/-
  Proofs/Render.lean — lemmas for C17: the response state after a list of response
  operations, in terms of C13's closed form of the writer machine (Proofs/Writer).
-/
import Flamego.Model.Render
import Flamego.Proofs.Writer

namespace Flamego.Render
open Flamego.Writer (W Op UEv Fresh)

/-! ### header map -/

theorem Hdr.get_set_same (h : Hdr) (k v : Bytes) : Hdr.get (Hdr.set h k v) k = some v := by
  simp [Hdr.get, Hdr.set]

theorem Hdr.get_del_other (h : Hdr) (k k' : Bytes) (hne : k' ≠ k) :
    Hdr.get (Hdr.del h k) k' = Hdr.get h k' := by
  induction h with
  | nil => rfl
  | cons e es ih =>
    obtain ⟨a, v⟩ := e
    by_cases h1 : a = k
    · have h2 : ¬ a = k' := fun h => hne (h ▸ h1 ▸ rfl)
      simp [Hdr.get, Hdr.del, h1, ih]
      intro h; exact absurd h.symm hne
    · by_cases h3 : a = k'
      · subst h3; simp [Hdr.get, Hdr.del, h1]
      · simp [Hdr.get, Hdr.del, h1, h3, ih]

theorem Hdr.get_set_other (h : Hdr) (k k' v : Bytes) (hne : k' ≠ k) :
    Hdr.get (Hdr.set h k v) k' = Hdr.get h k' := by
  have h2 : ¬ k = k' := fun h => hne h.symm
  simp [Hdr.get, Hdr.set, h2, Hdr.get_del_other h k k' hne]

/-! ### the writer component is C13's machine run on the projected operations -/

def wOps (ops : List ROp) : List Op := ops.filterMap ROp.toW

theorem apply_w (r : Resp) (op : ROp) :
    (r.apply op).w = match op.toW with | some o => Writer.step r.w o | none => r.w := by
  cases op <;> rfl

theorem run_w (r : Resp) (ops : List ROp) : (r.run ops).w = Writer.runFrom r.w (wOps ops) := by
  induction ops generalizing r with
  | nil => rfl
  | cons op ops ih =>
    have : r.run (op :: ops) = (r.apply op).run ops := rfl
    rw [this, ih, apply_w]
    cases op <;> simp [wOps, ROp.toW, List.filterMap]

/-! ### the request method never changes -/

theorem step_head (w : W) (op : Op) : (Writer.step w op).head = w.head := by
  cases op <;> simp [Writer.step, W.ensure, W.writeHeader] <;> (repeat' split) <;> rfl

theorem apply_head (r : Resp) (op : ROp) : (r.apply op).w.head = r.w.head := by
  cases op <;> simp [Resp.apply, step_head]

/-! ### body: every Write is forwarded in full unless the method is HEAD -/

/-- the bytes handed to `Write`, concatenated -/
def written : List ROp → Bytes
  | [] => []
  | .write b :: t => b ++ written t
  | _ :: t => written t

theorem written_append (a b : List ROp) : written (a ++ b) = written a ++ written b := by
  induction a with
  | nil => rfl
  | cons x xs ih => cases x <;> simp [written, ih]

theorem written_map_write (cs : List Bytes) : written (cs.map ROp.write) = cs.flatten := by
  induction cs with
  | nil => rfl
  | cons c cs ih => simp [written, ih]

theorem run_body (r : Resp) (ops : List ROp) :
    (r.run ops).body = if r.w.head then r.body else r.body ++ written ops := by
  induction ops generalizing r with
  | nil => simp [Resp.run, written]
  | cons op ops ih =>
    have : r.run (op :: ops) = (r.apply op).run ops := rfl
    rw [this, ih, apply_head]
    cases hh : r.w.head
    · cases op <;> simp [Resp.apply, written, hh]
    · cases op <;> simp [Resp.apply, hh]

/-! ### once a status has been sent: status and header snapshot never change -/

theorem step_status_stable (w : W) (op : Op) (hs : w.status ≠ 0) : (Writer.step w op).status = w.status := by
  have hw : w.written = true := by simp [W.written, hs]
  cases op <;> simp [Writer.step, W.ensure, W.writeHeader, hw]
  case writeHeader c => split <;> rfl
  case write l f => split <;> rfl

/-- a status line received by the wrapped writer -/
def isHdrEv : UEv → Bool
  | .hdr _ => true
  | _ => false

theorem step_hdrEvents_stable (w : W) (op : Op) (hs : w.status ≠ 0) :
    (Writer.step w op).under.filter isHdrEv
      = w.under.filter isHdrEv := by
  have hw : w.written = true := by simp [W.written, hs]
  cases op <;> simp [Writer.step, W.ensure, W.writeHeader, hw, isHdrEv]
  case writeHeader c => split <;> rfl
  case write l f => split <;> simp [isHdrEv]

theorem apply_sent_stable (r : Resp) (op : ROp) (hs : r.w.status ≠ 0) :
    (r.apply op).w.status = r.w.status ∧ (r.apply op).sent = r.sent := by
  cases op <;> simp [Resp.apply, snap, hs, step_status_stable]

theorem run_sent_stable (r : Resp) (ops : List ROp) (hs : r.w.status ≠ 0) :
    (r.run ops).w.status = r.w.status ∧ (r.run ops).sent = r.sent := by
  induction ops generalizing r with
  | nil => exact ⟨rfl, rfl⟩
  | cons op ops ih =>
    have h1 := apply_sent_stable r op hs
    have : r.run (op :: ops) = (r.apply op).run ops := rfl
    rw [this]
    have h2 := ih (r.apply op) (by rw [h1.1]; exact hs)
    exact ⟨h2.1.trans h1.1, h2.2.trans h1.2⟩

theorem run_hdrEvents_stable (r : Resp) (ops : List ROp) (hs : r.w.status ≠ 0) :
    (r.run ops).w.under.filter isHdrEv
      = r.w.under.filter isHdrEv := by
  induction ops generalizing r with
  | nil => rfl
  | cons op ops ih =>
    have h1 := apply_sent_stable r op hs
    have : r.run (op :: ops) = (r.apply op).run ops := rfl
    rw [this, ih (r.apply op) (by rw [h1.1]; exact hs)]
    cases op <;> simp [Resp.apply, step_hdrEvents_stable _ _ hs]

/-! ### the first two operations of every method on a fresh response -/

/-- nothing sent yet (C13's `Fresh` for the writer; no snapshot, no body) -/
structure Resp.Fresh (r : Resp) : Prop where
  w    : Writer.Fresh r.w
  sent : r.sent = none
  body : r.body = []

theorem fresh_init (head : Bool) : (Resp.init head).Fresh :=
  ⟨Writer.fresh_init head, rfl, rfl⟩

/-- `Header().Set(k, v); WriteHeader(c)` on a fresh response: hooks, then the status line;
    the headers frozen for the client are the ones just set -/
theorem head_ops_fresh (r : Resp) (k v : Bytes) (c : Nat) (hf : r.Fresh) (hc : 100 ≤ c) :
    r.run [.setHeader k v, .writeHeader c] =
      { w := { r.w with status := c, onceDone := true,
                        under := r.w.hooks.reverse.map UEv.hook ++ [UEv.hdr c] },
        hdr := Hdr.set r.hdr k v, sent := some (Hdr.set r.hdr k v), body := r.body } := by
  obtain ⟨⟨h0, h1, h2, h3⟩, hs, hb⟩ := hf
  obtain ⟨⟨head, status, size, hooks, once, under⟩, hdr, sent, body⟩ := r
  simp only at h0 h1 h2 h3 hs hb
  subst h0 h1 h2 h3 hs hb
  have hc0 : c ≠ 0 := by omega
  simp [Resp.run, Resp.apply, Writer.step, W.writeHeader, W.written, snap, hc0]

/-- after that, everything is "sent": status, snapshot and the set of status lines stay -/
theorem render_fresh_shape {V : Type} (enc : Encoder V) (o : Opts) (c : Nat) (p : Payload V) (r : Resp)
    (hf : r.Fresh) (hc : 100 ≤ c) :
    let r1 : Resp := r.run [.setHeader ctKey (contentType o p.kind), .writeHeader c]
    render enc o c p r = r1.run (bodyOps enc o r.w.head p) ∧ r1.w.status = c ∧
      r1.sent = some (Hdr.set r.hdr ctKey (contentType o p.kind)) := by
  refine ⟨?_, ?_, ?_⟩
  · simp [render, renderOps, Resp.run]
  · rw [head_ops_fresh r _ _ c hf hc]
  · rw [head_ops_fresh r _ _ c hf hc]

/-! ### what each method hands to `Write` -/

variable {V : Type}

/-- the bytes one `Encode` call put on the wire, plus `http.Error`'s message line if it failed -/
def encBytes (e : EncOut) : Bytes :=
  e.chunks.flatten ++ (match e.err with | none => [] | some m => m ++ [10])

/-- the body each method produces -/
def bodyOf (enc : Encoder V) (o : Opts) (head : Bool) : Payload V → Bytes
  | .json v      => encBytes (enc.json head o.jsonIndent v)
  | .xml v       => encBytes (enc.xml head o.xmlIndent v)
  | .binary b    => b
  | .plainText s => s

/-- the encoder error of a call, if any (Binary and PlainText cannot fail) -/
def encErr (enc : Encoder V) (o : Opts) (head : Bool) : Payload V → Option Bytes
  | .json v => (enc.json head o.jsonIndent v).err
  | .xml v  => (enc.xml head o.xmlIndent v).err
  | _       => none

theorem written_encodeOps (e : EncOut) : written (encodeOps e) = encBytes e := by
  obtain ⟨cs, err⟩ := e
  cases err <;> simp [encodeOps, encBytes, written_append, written_map_write, httpError, written]

theorem written_bodyOps (enc : Encoder V) (o : Opts) (head : Bool) (p : Payload V) :
    written (bodyOps enc o head p) = bodyOf enc o head p := by
  cases p <;> simp [bodyOps, bodyOf, written_encodeOps, written]

/-! ### the live header map after the body part -/

def touchesHdr : ROp → Bool
  | .setHeader _ _ | .delHeader _ => true
  | _ => false

theorem run_hdr_untouched (r : Resp) (ops : List ROp) (h : ∀ op ∈ ops, touchesHdr op = false) :
    (r.run ops).hdr = r.hdr := by
  induction ops generalizing r with
  | nil => rfl
  | cons op ops ih =>
    have : r.run (op :: ops) = (r.apply op).run ops := rfl
    rw [this, ih _ (fun o ho => h o (by simp [ho]))]
    have := h op (by simp)
    cases op <;> simp [touchesHdr] at this <;> rfl

theorem run_append (r : Resp) (a b : List ROp) : r.run (a ++ b) = (r.run a).run b := by
  simp [Resp.run, List.foldl_append]

theorem httpError_live (r : Resp) (m : Bytes) (code : Nat) :
    (r.run (httpError m code)).liveContentType = some errorContentType := by
  have hne : ctKey ≠ b!"X-Content-Type-Options" := by decide
  simp only [httpError, Resp.run, List.foldl, Resp.apply, Resp.liveContentType]
  rw [Hdr.get_set_other _ _ _ _ hne, Hdr.get_set_same]

/-! ### scope chain -/

theorem lookup_mapTo_same (s : Scope) (t : Ty) (v : Val) : (s.mapTo t v).lookup t = some v := by
  simp [Scope.lookup, Scope.mapTo]

theorem lookup_mapTo_other (s : Scope) (t t' : Ty) (v : Val) (h : t ≠ t') :
    (s.mapTo t v).lookup t' = s.lookup t' := by
  simp [Scope.lookup, Scope.mapTo, h]

def H.isRenderer : H → Bool
  | .renderer _ => true
  | _ => false

/-- a handler that is not a `Renderer` leaves the binding of `Render` alone -/
theorem run_nonRenderer_lookup (rid : Nat) (s : Scope) (h : H) (hn : h.isRenderer = false) :
    (H.run rid s h).lookup .render = s.lookup .render := by
  cases h with
  | renderer o => simp [H.isRenderer] at hn
  | mapOther n v => exact lookup_mapTo_other s _ _ _ (by simp)
  | probe => rfl

theorem runHandlers_nonRenderer_lookup (rid : Nat) (s : Scope) (hs : List H)
    (hn : ∀ h ∈ hs, h.isRenderer = false) :
    (runHandlers rid s hs).lookup .render = s.lookup .render := by
  induction hs generalizing s with
  | nil => rfl
  | cons h hs ih =>
    have : runHandlers rid s (h :: hs) = runHandlers rid (H.run rid s h) hs := rfl
    rw [this, ih _ (fun x hx => hn x (by simp [hx])), run_nonRenderer_lookup rid s h (hn h (by simp))]

theorem runHandlers_append (rid : Nat) (s : Scope) (a b : List H) :
    runHandlers rid s (a ++ b) = runHandlers rid (runHandlers rid s a) b := by
  simp [runHandlers, List.foldl_append]

/-- the handlers of request `rid` among the events, in order -/
def ownHandlers (evs : List (Nat × H)) (rid : Nat) : List H := (evs.filter (·.1 == rid)).map (·.2)

theorem lookup_render_own (rid : Nat) (hs : List H) (s : Scope)
    (h0 : s.lookup .render = none ∨ ∃ o, s.lookup .render = some (.render rid o)) :
    (runHandlers rid s hs).lookup .render = none ∨
      ∃ o, (runHandlers rid s hs).lookup .render = some (.render rid o) := by
  induction hs generalizing s with
  | nil => exact h0
  | cons h hs ih =>
    apply ih
    cases h with
    | renderer o => right; exact ⟨o.parse, lookup_mapTo_same _ _ _⟩
    | mapOther n v => rw [show H.run rid s (.mapOther n v) = s.mapTo (.other n) (.other v) from rfl,
                          lookup_mapTo_other _ _ _ _ (by simp)]; exact h0
    | probe => exact h0

/-- the scope of request `rid` after an arbitrary interleaving is the fold of its own handlers -/
theorem inst_run_reqs (i : Inst) (evs : List (Nat × H)) (rid : Nat) :
    (i.run evs).reqs rid = runHandlers rid (i.reqs rid) ((evs.filter (·.1 == rid)).map (·.2)) := by
  induction evs generalizing i with
  | nil => rfl
  | cons e evs ih =>
    have : i.run (e :: evs) = (i.step e).run evs := rfl
    rw [this, ih]
    by_cases h : e.1 = rid
    · subst h
      simp [Inst.step, runHandlers]
    · have h' : ¬ rid = e.1 := fun x => h x.symm
      simp [Inst.step, h, h']

theorem inst_run_global (i : Inst) (evs : List (Nat × H)) : (i.run evs).global = i.global := by
  induction evs generalizing i with
  | nil => rfl
  | cons e evs ih =>
    have : i.run (e :: evs) = (i.step e).run evs := rfl
    rw [this, ih]; rfl

end Flamego.Render
