/-
  Proofs/Assoc.lean — facts about the association-list helpers used by the router model
  (`Params.set/get?`, `assocSet/assocGet/assocDel`).
-/
import Flamego.Model.Router
namespace Flamego

theorem Params.get?_set_same (ps : Params) (k v : Bytes) : (ps.set k v).get? k = some v := by
  induction ps with
  | nil => simp [Params.set, Params.get?]
  | cons p rest ih =>
    obtain ⟨k', v'⟩ := p
    unfold Params.set
    by_cases h : k' = k
    · simp [h, Params.get?]
    · simp only [h, ↓reduceIte]
      simp only [Params.get?, List.find?, h, decide_false] at ih ⊢
      exact ih

theorem Params.get?_set_other (ps : Params) (k k2 v : Bytes) (h : k2 ≠ k) :
    (ps.set k v).get? k2 = ps.get? k2 := by
  induction ps with
  | nil => simp [Params.set, Params.get?, List.find?, Ne.symm h]
  | cons p rest ih =>
    obtain ⟨k', v'⟩ := p
    unfold Params.set
    by_cases h1 : k' = k
    · subst h1
      simp [Params.get?, List.find?, Ne.symm h]
    · simp only [h1, ↓reduceIte]
      by_cases h2 : k' = k2
      · simp [Params.get?, List.find?, h2]
      · simp only [Params.get?, List.find?, h2, decide_false] at ih ⊢
        exact ih

end Flamego

namespace Flamego

theorem assocGet_assocSet_same {α β} [BEq α] [LawfulBEq α] (l : List (α × β)) (k : α) (v : β) :
    assocGet (assocSet l k v) k = some v := by
  induction l with
  | nil => simp [assocSet, assocGet, List.find?]
  | cons p rest ih =>
    obtain ⟨k', v'⟩ := p
    unfold assocSet
    by_cases h : (k' == k) = true
    · simp [h, assocGet, List.find?]
    · simp only [h, Bool.false_eq_true, ↓reduceIte]
      simp only [assocGet, List.find?, h] at ih ⊢
      exact ih

theorem assocGet_assocSet_other {α β} [BEq α] [LawfulBEq α] (l : List (α × β)) (k k2 : α) (v : β)
    (hne : k2 ≠ k) : assocGet (assocSet l k v) k2 = assocGet l k2 := by
  have hne' : (k == k2) = false := by
    simp only [beq_eq_false_iff_ne, ne_eq]; exact fun h => hne h.symm
  induction l with
  | nil => simp [assocSet, assocGet, List.find?, hne']
  | cons p rest ih =>
    obtain ⟨k', v'⟩ := p
    unfold assocSet
    by_cases h : (k' == k) = true
    · have hk : k' = k := by simpa using h
      subst hk
      simp [h, assocGet, List.find?, hne']
    · simp only [h, Bool.false_eq_true, ↓reduceIte]
      by_cases h2 : (k' == k2) = true
      · simp [assocGet, List.find?, h2]
      · simp only [assocGet, List.find?, h2] at ih ⊢
        exact ih

theorem assocGet_assocDel_same {α β} [BEq α] [LawfulBEq α] (l : List (α × β)) (k : α) :
    assocGet (assocDel l k) k = none := by
  induction l with
  | nil => simp [assocDel, assocGet]
  | cons p rest ih =>
    obtain ⟨k', v'⟩ := p
    simp only [assocDel, assocGet] at ih ⊢
    by_cases h : (k' == k) = true
    · simp only [List.filter, h, Bool.not_true]; exact ih
    · simp only [List.filter, h, Bool.not_false, List.find?]; exact ih

end Flamego
