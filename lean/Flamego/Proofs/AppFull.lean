/-
  Proofs/AppFull.lean — lemmas about the composed application model (Model/AppFull):
    1. frames: what each primitive leaves alone;
    2. `Ext`: the cursor only advances, the ghost decision list only grows, by one entry per started slot;
    3. the run equations (`run_nil`, `run_panic`, `run_stop`, `run_loop`);
    4. the simulation: the chain machine of Model/Chain, run on any configuration that agrees with the
       recorded decisions, produces the projection of the composed run (`run_sim`);
    5. the erased configuration `eraseCfg` agrees with the decisions of the run it is read off (`serve_refines`).
  Property theorems are in Props/AppFull.lean.
-/
import Flamego.Model.AppFull
import Flamego.Proofs.Chain
import Flamego.Proofs.Render
import Flamego.Proofs.Return
import Flamego.Proofs.Inject

namespace Flamego.AppFull
open Flamego.Chain (PVal Ev Tok)
open Flamego.Writer (W)
open Flamego.Render (ROp Hdr)
open Flamego.Inject (Ty Val Scope)

/-! ### 1. frames -/

/-- `b` differs from `a` at most in the response (writer, headers, body, body tokens) -/
structure SameCtl (a b : St) : Prop where
  idx : b.idx = a.idx
  cancelled : b.cancelled = a.cancelled
  trace : b.trace = a.trace
  req : b.req = a.req
  app : b.app = a.app
  reqRH : b.reqRH = a.reqRH
  calls : b.calls = a.calls
  dec : b.dec = a.dec
  rep : b.rep = a.rep
  head : b.w.head = a.w.head

theorem SameCtl.refl (a : St) : SameCtl a a := ⟨rfl, rfl, rfl, rfl, rfl, rfl, rfl, rfl, rfl, rfl⟩

theorem SameCtl.trans {a b d : St} (h1 : SameCtl a b) (h2 : SameCtl b d) : SameCtl a d :=
  ⟨h2.idx.trans h1.idx, h2.cancelled.trans h1.cancelled, h2.trace.trans h1.trace, h2.req.trans h1.req,
   h2.app.trans h1.app, h2.reqRH.trans h1.reqRH, h2.calls.trans h1.calls, h2.dec.trans h1.dec,
   h2.rep.trans h1.rep, h2.head.trans h1.head⟩

theorem op_same (st : St) (op : ROp) : SameCtl st (st.op op) :=
  ⟨rfl, rfl, rfl, rfl, rfl, rfl, rfl, rfl, rfl, Render.apply_head st.resp op⟩

theorem ops_same (l : List ROp) : ∀ st : St, SameCtl st (st.ops l) := by
  induction l with
  | nil => intro st; exact SameCtl.refl st
  | cons op rest ih => intro st; exact (op_same st op).trans (ih (st.op op))

theorem ops_resp (l : List ROp) : ∀ st : St, (st.ops l).resp = st.resp.run l := by
  induction l with
  | nil => intro st; rfl
  | cons op rest ih => intro st; exact ih (st.op op)

theorem ops_append (st : St) (a b : List ROp) : st.ops (a ++ b) = (st.ops a).ops b := by
  simp [St.ops, List.foldl_append]

theorem retOut_head (o : Ret.Out) (a : Ret.Act) : (o.act a).w.head = o.w.head := by
  unfold Ret.Out.act
  split
  · rfl
  · cases a with
    | writeHeader c => dsimp only; split <;> simp [Render.step_head]
    | write b => simp [Render.step_head]
    | panic => rfl

theorem retAct_same (st : St) (a : Ret.Act) : SameCtl st (st.retAct a).1 :=
  ⟨rfl, rfl, rfl, rfl, rfl, rfl, rfl, rfl, rfl, retOut_head _ a⟩

theorem runRet_same (i : Nat) : ∀ (acts : List Ret.Act) (st : St), SameCtl st (runRet i acts st).1 := by
  intro acts
  induction acts with
  | nil => intro st; exact SameCtl.refl st
  | cons a rest ih =>
    intro st
    unfold runRet
    have h := retAct_same st a
    rcases hr : st.retAct a with ⟨st', _ | _⟩
    · rw [hr] at h; exact h.trans (ih st')
    · rw [hr] at h; exact h

theorem recoverWrite_same (env : Env) (st : St) : SameCtl st (recoverWrite env st) := by
  unfold recoverWrite
  have h1 := op_same st (.setHeader ctKey (if env.dev then b!"text/html" else b!"text/plain"))
  have h2 := op_same (st.op (.setHeader ctKey (if env.dev then b!"text/html" else b!"text/plain")))
    (.writeHeader Chain.recoveryStatus)
  have h3 := op_same ((st.op (.setHeader ctKey (if env.dev then b!"text/html" else b!"text/plain"))).op
    (.writeHeader Chain.recoveryStatus)) (.write (if env.dev then env.detail else Gen.recoveryPlainBody))
  have h := (h1.trans h2).trans h3
  exact ⟨h.idx, h.cancelled, h.trace, h.req, h.app, h.reqRH, h.calls, h.dec, h.rep, h.head⟩

@[simp] theorem St.ev_idx (st : St) (e : Ev) : (st.ev e).idx = st.idx := rfl
@[simp] theorem St.ev_w (st : St) (e : Ev) : (st.ev e).w = st.w := rfl
@[simp] theorem St.ev_cancelled (st : St) (e : Ev) : (st.ev e).cancelled = st.cancelled := rfl
@[simp] theorem St.ev_trace (st : St) (e : Ev) : (st.ev e).trace = st.trace ++ [e] := rfl
@[simp] theorem St.ev_out (st : St) (e : Ev) : (st.ev e).out = st.out := rfl
@[simp] theorem St.ev_hdr (st : St) (e : Ev) : (st.ev e).hdr = st.hdr := rfl
@[simp] theorem St.ev_sent (st : St) (e : Ev) : (st.ev e).sent = st.sent := rfl
@[simp] theorem St.ev_body (st : St) (e : Ev) : (st.ev e).body = st.body := rfl
@[simp] theorem St.ev_req (st : St) (e : Ev) : (st.ev e).req = st.req := rfl
@[simp] theorem St.ev_app (st : St) (e : Ev) : (st.ev e).app = st.app := rfl
@[simp] theorem St.ev_reqRH (st : St) (e : Ev) : (st.ev e).reqRH = st.reqRH := rfl
@[simp] theorem St.ev_calls (st : St) (e : Ev) : (st.ev e).calls = st.calls := rfl
@[simp] theorem St.ev_dec (st : St) (e : Ev) : (st.ev e).dec = st.dec := rfl
@[simp] theorem St.ev_rep (st : St) (e : Ev) : (st.ev e).rep = st.rep := rfl
@[simp] theorem St.record_idx (st : St) (i : Nat) (k : Chain.Kind) : (st.record i k).idx = st.idx := rfl
@[simp] theorem St.record_w (st : St) (i : Nat) (k : Chain.Kind) : (st.record i k).w = st.w := rfl
@[simp] theorem St.record_cancelled (st : St) (i : Nat) (k : Chain.Kind) : (st.record i k).cancelled = st.cancelled := rfl
@[simp] theorem St.record_trace (st : St) (i : Nat) (k : Chain.Kind) : (st.record i k).trace = st.trace := rfl
@[simp] theorem St.record_out (st : St) (i : Nat) (k : Chain.Kind) : (st.record i k).out = st.out := rfl
@[simp] theorem St.record_hdr (st : St) (i : Nat) (k : Chain.Kind) : (st.record i k).hdr = st.hdr := rfl
@[simp] theorem St.record_sent (st : St) (i : Nat) (k : Chain.Kind) : (st.record i k).sent = st.sent := rfl
@[simp] theorem St.record_body (st : St) (i : Nat) (k : Chain.Kind) : (st.record i k).body = st.body := rfl
@[simp] theorem St.record_req (st : St) (i : Nat) (k : Chain.Kind) : (st.record i k).req = st.req := rfl
@[simp] theorem St.record_app (st : St) (i : Nat) (k : Chain.Kind) : (st.record i k).app = st.app := rfl
@[simp] theorem St.record_reqRH (st : St) (i : Nat) (k : Chain.Kind) : (st.record i k).reqRH = st.reqRH := rfl
@[simp] theorem St.record_calls (st : St) (i : Nat) (k : Chain.Kind) : (st.record i k).calls = st.calls := rfl
@[simp] theorem St.record_dec (st : St) (i : Nat) (k : Chain.Kind) : (st.record i k).dec = st.dec ++ [(i, k)] := rfl
@[simp] theorem St.record_rep (st : St) (i : Nat) (k : Chain.Kind) : (st.record i k).rep = st.rep := rfl
@[simp] theorem St.call_idx (st : St) (i : Nat) (args : List Val) : (st.call i args).idx = st.idx := rfl
@[simp] theorem St.call_w (st : St) (i : Nat) (args : List Val) : (st.call i args).w = st.w := rfl
@[simp] theorem St.call_cancelled (st : St) (i : Nat) (args : List Val) : (st.call i args).cancelled = st.cancelled := rfl
@[simp] theorem St.call_trace (st : St) (i : Nat) (args : List Val) : (st.call i args).trace = st.trace := rfl
@[simp] theorem St.call_out (st : St) (i : Nat) (args : List Val) : (st.call i args).out = st.out := rfl
@[simp] theorem St.call_hdr (st : St) (i : Nat) (args : List Val) : (st.call i args).hdr = st.hdr := rfl
@[simp] theorem St.call_sent (st : St) (i : Nat) (args : List Val) : (st.call i args).sent = st.sent := rfl
@[simp] theorem St.call_body (st : St) (i : Nat) (args : List Val) : (st.call i args).body = st.body := rfl
@[simp] theorem St.call_req (st : St) (i : Nat) (args : List Val) : (st.call i args).req = st.req := rfl
@[simp] theorem St.call_app (st : St) (i : Nat) (args : List Val) : (st.call i args).app = st.app := rfl
@[simp] theorem St.call_reqRH (st : St) (i : Nat) (args : List Val) : (st.call i args).reqRH = st.reqRH := rfl
@[simp] theorem St.call_calls (st : St) (i : Nat) (args : List Val) : (st.call i args).calls = st.calls ++ [(i, args)] := rfl
@[simp] theorem St.call_dec (st : St) (i : Nat) (args : List Val) : (st.call i args).dec = st.dec := rfl
@[simp] theorem St.call_rep (st : St) (i : Nat) (args : List Val) : (st.call i args).rep = st.rep := rfl
@[simp] theorem St.flag_idx (st : St) (b : Bool) : (st.flag b).idx = st.idx := rfl
@[simp] theorem St.flag_w (st : St) (b : Bool) : (st.flag b).w = st.w := rfl
@[simp] theorem St.flag_cancelled (st : St) (b : Bool) : (st.flag b).cancelled = st.cancelled := rfl
@[simp] theorem St.flag_trace (st : St) (b : Bool) : (st.flag b).trace = st.trace := rfl
@[simp] theorem St.flag_out (st : St) (b : Bool) : (st.flag b).out = st.out := rfl
@[simp] theorem St.flag_hdr (st : St) (b : Bool) : (st.flag b).hdr = st.hdr := rfl
@[simp] theorem St.flag_sent (st : St) (b : Bool) : (st.flag b).sent = st.sent := rfl
@[simp] theorem St.flag_body (st : St) (b : Bool) : (st.flag b).body = st.body := rfl
@[simp] theorem St.flag_req (st : St) (b : Bool) : (st.flag b).req = st.req := rfl
@[simp] theorem St.flag_app (st : St) (b : Bool) : (st.flag b).app = st.app := rfl
@[simp] theorem St.flag_reqRH (st : St) (b : Bool) : (st.flag b).reqRH = st.reqRH := rfl
@[simp] theorem St.flag_calls (st : St) (b : Bool) : (st.flag b).calls = st.calls := rfl
@[simp] theorem St.flag_dec (st : St) (b : Bool) : (st.flag b).dec = st.dec := rfl
@[simp] theorem St.flag_rep (st : St) (b : Bool) : (st.flag b).rep = (st.rep && b) := rfl
@[simp] theorem St.mapReq_idx (st : St) (t : Ty) (v : Val) : (st.mapReq t v).idx = st.idx := rfl
@[simp] theorem St.mapReq_w (st : St) (t : Ty) (v : Val) : (st.mapReq t v).w = st.w := rfl
@[simp] theorem St.mapReq_cancelled (st : St) (t : Ty) (v : Val) : (st.mapReq t v).cancelled = st.cancelled := rfl
@[simp] theorem St.mapReq_trace (st : St) (t : Ty) (v : Val) : (st.mapReq t v).trace = st.trace := rfl
@[simp] theorem St.mapReq_out (st : St) (t : Ty) (v : Val) : (st.mapReq t v).out = st.out := rfl
@[simp] theorem St.mapReq_hdr (st : St) (t : Ty) (v : Val) : (st.mapReq t v).hdr = st.hdr := rfl
@[simp] theorem St.mapReq_sent (st : St) (t : Ty) (v : Val) : (st.mapReq t v).sent = st.sent := rfl
@[simp] theorem St.mapReq_body (st : St) (t : Ty) (v : Val) : (st.mapReq t v).body = st.body := rfl
@[simp] theorem St.mapReq_req (st : St) (t : Ty) (v : Val) : (st.mapReq t v).req = Inject.register st.req t v := rfl
@[simp] theorem St.mapReq_app (st : St) (t : Ty) (v : Val) : (st.mapReq t v).app = st.app := rfl
@[simp] theorem St.mapReq_reqRH (st : St) (t : Ty) (v : Val) : (st.mapReq t v).reqRH = st.reqRH := rfl
@[simp] theorem St.mapReq_calls (st : St) (t : Ty) (v : Val) : (st.mapReq t v).calls = st.calls := rfl
@[simp] theorem St.mapReq_dec (st : St) (t : Ty) (v : Val) : (st.mapReq t v).dec = st.dec := rfl
@[simp] theorem St.mapReq_rep (st : St) (t : Ty) (v : Val) : (st.mapReq t v).rep = st.rep := rfl
@[simp] theorem St.mapApp_idx (st : St) (t : Ty) (v : Val) : (st.mapApp t v).idx = st.idx := rfl
@[simp] theorem St.mapApp_w (st : St) (t : Ty) (v : Val) : (st.mapApp t v).w = st.w := rfl
@[simp] theorem St.mapApp_cancelled (st : St) (t : Ty) (v : Val) : (st.mapApp t v).cancelled = st.cancelled := rfl
@[simp] theorem St.mapApp_trace (st : St) (t : Ty) (v : Val) : (st.mapApp t v).trace = st.trace := rfl
@[simp] theorem St.mapApp_out (st : St) (t : Ty) (v : Val) : (st.mapApp t v).out = st.out := rfl
@[simp] theorem St.mapApp_hdr (st : St) (t : Ty) (v : Val) : (st.mapApp t v).hdr = st.hdr := rfl
@[simp] theorem St.mapApp_sent (st : St) (t : Ty) (v : Val) : (st.mapApp t v).sent = st.sent := rfl
@[simp] theorem St.mapApp_body (st : St) (t : Ty) (v : Val) : (st.mapApp t v).body = st.body := rfl
@[simp] theorem St.mapApp_req (st : St) (t : Ty) (v : Val) : (st.mapApp t v).req = st.req := rfl
@[simp] theorem St.mapApp_app (st : St) (t : Ty) (v : Val) : (st.mapApp t v).app = Inject.register st.app t v := rfl
@[simp] theorem St.mapApp_reqRH (st : St) (t : Ty) (v : Val) : (st.mapApp t v).reqRH = st.reqRH := rfl
@[simp] theorem St.mapApp_calls (st : St) (t : Ty) (v : Val) : (st.mapApp t v).calls = st.calls := rfl
@[simp] theorem St.mapApp_dec (st : St) (t : Ty) (v : Val) : (st.mapApp t v).dec = st.dec := rfl
@[simp] theorem St.mapApp_rep (st : St) (t : Ty) (v : Val) : (st.mapApp t v).rep = st.rep := rfl

/-! ### 2. the extension relation -/

/-- `b` extends `a`: the cursor only moves forward, the writer keeps its method, the representability
    flag only falls, and the decisions recorded in between are for distinct existing slots in
    `[lo, b.idx)` -/
structure Ext (c : Cfg) (lo : Nat) (a b : St) : Prop where
  idx : a.idx ≤ b.idx
  head : b.w.head = a.w.head
  rep : b.rep = true → a.rep = true
  dec : ∃ d, b.dec = a.dec ++ d ∧ (∀ e ∈ d, lo ≤ e.1 ∧ e.1 < b.idx ∧ (c.slot e.1).isSome = true) ∧
    (d.map Prod.fst).Nodup

theorem Ext.quiet {c : Cfg} {lo : Nat} {a b : St} (hi : b.idx = a.idx) (hh : b.w.head = a.w.head)
    (hr : b.rep = a.rep) (hd : b.dec = a.dec) : Ext c lo a b :=
  ⟨by omega, hh, by rw [hr]; exact id, ⟨[], by simp [hd], by simp, by simp⟩⟩

theorem Ext.refl (c : Cfg) (lo : Nat) (a : St) : Ext c lo a a := Ext.quiet rfl rfl rfl rfl

theorem Ext.ofSame {c : Cfg} {lo : Nat} {a b : St} (h : SameCtl a b) : Ext c lo a b :=
  Ext.quiet h.idx h.head h.rep h.dec

theorem Ext.trans {c : Cfg} {lo : Nat} {a b d : St} (hlo : lo ≤ a.idx) (h1 : Ext c lo a b)
    (h2 : Ext c b.idx b d) : Ext c lo a d := by
  obtain ⟨d1, hd1, hk1, hn1⟩ := h1.dec
  obtain ⟨d2, hd2, hk2, hn2⟩ := h2.dec
  refine ⟨Nat.le_trans h1.idx h2.idx, h2.head.trans h1.head, fun h => h1.rep (h2.rep h),
    ⟨d1 ++ d2, by rw [hd2, hd1, List.append_assoc], ?_, ?_⟩⟩
  · intro e he
    rcases List.mem_append.mp he with he | he
    · obtain ⟨x, y, z⟩ := hk1 e he
      exact ⟨x, Nat.lt_of_lt_of_le y h2.idx, z⟩
    · obtain ⟨x, y, z⟩ := hk2 e he
      exact ⟨by have := h1.idx; omega, y, z⟩
  · rw [List.map_append, List.nodup_append]
    refine ⟨hn1, hn2, ?_⟩
    intro x hx y hy hxy
    obtain ⟨e1, he1, rfl⟩ := List.mem_map.mp hx
    obtain ⟨e2, he2, rfl⟩ := List.mem_map.mp hy
    have := (hk1 e1 he1).2.1
    have := (hk2 e2 he2).1
    omega

/-- a step sequence that ends by recording the decision for slot `i`, started before `a` -/
theorem Ext.recordEnd {c : Cfg} {a b b' : St} {i : Nat} {k : Chain.Kind} (h : Ext c a.idx a b)
    (hi : i < a.idx) (hs : (c.slot i).isSome = true) (hd : b'.dec = b.dec ++ [(i, k)])
    (hidx : b'.idx = b.idx) (hh : b'.w.head = b.w.head) (hr : b'.rep = true → b.rep = true) :
    Ext c i a b' := by
  obtain ⟨d1, hd1, hk1, hn1⟩ := h.dec
  refine ⟨by rw [hidx]; exact h.idx, hh.trans h.head, fun x => h.rep (hr x),
    ⟨d1 ++ [(i, k)], by rw [hd, hd1, List.append_assoc], ?_, ?_⟩⟩
  · intro e he
    rcases List.mem_append.mp he with he | he
    · obtain ⟨x, y, z⟩ := hk1 e he
      exact ⟨by omega, by rw [hidx]; exact y, z⟩
    · simp only [List.mem_singleton] at he
      subst he
      exact ⟨Nat.le_refl _, by rw [hidx]; exact Nat.lt_of_lt_of_le hi h.idx, hs⟩
  · rw [List.map_append, List.nodup_append]
    refine ⟨hn1, by simp, ?_⟩
    intro x hx y hy hxy
    obtain ⟨e1, he1, rfl⟩ := List.mem_map.mp hx
    simp only [List.map_cons, List.map_nil, List.mem_singleton] at hy
    have := (hk1 e1 he1).1
    omega

def GoodF (c : Cfg) (runF : St → Res) : Prop := ∀ s, Ext c s.idx s (runF s).1

theorem act1_ext (env : Env) (c : Cfg) {runF : St → Res} (hF : GoodF c runF) (i : Nat) (ro : Render.Opts)
    (a : Act) (st : St) : Ext c st.idx st (act1 env runF i ro a st).1 := by
  cases a with
  | ops l => exact Ext.ofSame (ops_same l st)
  | render s p => exact Ext.ofSame (ops_same _ st)
  | next => exact hF st
  | cancel => exact Ext.quiet rfl rfl rfl rfl
  | panic v => exact Ext.refl c _ st
  | map t v => exact Ext.quiet rfl rfl rfl rfl
  | mapApp t v => exact Ext.quiet rfl rfl rfl rfl
  | mapReturnHandler h => exact Ext.quiet rfl rfl rfl rfl

theorem execActs_ext (env : Env) (c : Cfg) {runF : St → Res} (hF : GoodF c runF) (i : Nat) (ro : Render.Opts) :
    ∀ (acts : List Act) (st : St), Ext c st.idx st (execActs env runF i ro acts st).1 := by
  intro acts
  induction acts with
  | nil => intro st; exact Ext.refl c _ st
  | cons a rest ih =>
    intro st
    have h1 := act1_ext env c hF i ro a st
    unfold execActs
    rcases hr : act1 env runF i ro a st with ⟨st', _ | p⟩
    · rw [hr] at h1
      exact Ext.trans (Nat.le_refl _) h1 (ih st')
    · rw [hr] at h1; exact h1

theorem finishFn_ext (env : Env) (c : Cfg) (i : Nat) (erased : List Chain.Act) (ret : Ret.RetShape)
    {a st1 : St} (h : Ext c a.idx a st1) (hi : i < a.idx) (hs : (c.slot i).isSome = true) :
    Ext c i a (finishFn env c i erased ret st1).1 := by
  unfold finishFn
  generalize Ret.afterHandler env.ph st1.reqRH c.appRH ret = racts
  dsimp only
  have hsame := runRet_same i racts
    (((st1.ev (.exit i)).record i (.plain ⟨erased, (eraseRet racts).getD .none⟩)).flag (eraseRet racts).isSome)
  refine Ext.recordEnd h hi hs (hsame.dec.trans rfl) (hsame.idx.trans rfl) (hsame.head.trans rfl) ?_
  intro hr
  rw [hsame.rep] at hr
  simp only [St.flag_rep, St.record_rep, St.ev_rep, Bool.and_eq_true] at hr
  exact hr.1

theorem invokeFn_ext (env : Env) (c : Cfg) {runF : St → Res} (hF : GoodF c runF) (i : Nat) (acts : List Act)
    (ret : Ret.RetShape) (args : List Val) (st : St) (hs : (c.slot i).isSome = true) (hi : i < st.idx) :
    Ext c i st (invokeFn env c runF i acts ret args st).1 := by
  unfold invokeFn
  have h0 : Ext c st.idx st ((st.ev (.enter i)).call i args) := Ext.quiet rfl rfl rfl rfl
  have h1 := execActs_ext env c hF i (env.ropts (args.getLast?.getD 0)) acts ((st.ev (.enter i)).call i args)
  have h01 := Ext.trans (Nat.le_refl _) h0 h1
  dsimp only
  rcases hq : execActs env runF i (env.ropts (args.getLast?.getD 0)) acts ((st.ev (.enter i)).call i args)
    with ⟨st1, _ | ⟨v, j⟩⟩
  · rw [hq] at h01
    exact finishFn_ext env c i _ ret h01 hi hs
  · rw [hq] at h01
    exact Ext.recordEnd h01 hi hs rfl rfl rfl id

theorem invoke_ext (env : Env) (c : Cfg) {runF : St → Res} (hF : GoodF c runF) (i : Nat) (h : Handler)
    (st : St) (hs : c.slot i = some h) (hi : i < st.idx) : Ext c i st (invoke env c runF i h st).1 := by
  have hsome : (c.slot i).isSome = true := by rw [hs]; rfl
  cases h with
  | fn sig acts ret =>
    simp only [invoke]
    split
    · exact Ext.recordEnd (b := st) (Ext.refl c _ st) hi hsome rfl rfl rfl id
    · exact invokeFn_ext env c hF i acts ret _ st hsome hi
  | recovery =>
    simp only [invoke]
    have h1 := hF (st.ev (.enter i))
    have h0 : Ext c st.idx st (st.ev (.enter i)) := Ext.quiet rfl rfl rfl rfl
    have h01 := Ext.trans (Nat.le_refl _) h0 h1
    split
    · rename_i st1 hr
      rw [hr] at h01
      exact Ext.recordEnd h01 hi hsome rfl rfl rfl id
    · rename_i st1 _ j hr
      rw [hr] at h01
      have hsame := recoverWrite_same env (st1.ev (.recovered i j st1.w.status))
      exact Ext.recordEnd h01 hi hsome (by rw [St.record_dec, St.ev_dec, hsame.dec, St.ev_dec])
        (by simp [hsame.idx]) (by simp [hsame.head]) (by simp [hsame.rep])
  | static o =>
    simp only [invoke]
    have hsame := ops_same (staticRun env c o st) (st.ev (.enter i))
    exact Ext.recordEnd (b := st) (Ext.refl c _ st) hi hsome (by rw [St.record_dec, St.ev_dec, hsame.dec, St.ev_dec])
      (by simp [hsame.idx]) (by simp [hsame.head]) (by simp [hsame.rep])
  | renderer vid =>
    simp only [invoke]
    exact Ext.recordEnd (b := st) (Ext.refl c _ st) hi hsome rfl rfl rfl id

/-! ### 3. run equations -/

def St.adv (st : St) : St := { st with idx := st.idx + 1 }

@[simp] theorem St.adv_idx (st : St) : st.adv.idx = st.idx + 1 := rfl
@[simp] theorem St.adv_w (st : St) : st.adv.w = st.w := rfl
@[simp] theorem St.adv_dec (st : St) : st.adv.dec = st.dec := rfl
@[simp] theorem St.adv_rep (st : St) : st.adv.rep = st.rep := rfl
@[simp] theorem St.adv_trace (st : St) : st.adv.trace = st.trace := rfl
@[simp] theorem St.adv_cancelled (st : St) : st.adv.cancelled = st.cancelled := rfl
@[simp] theorem St.adv_req (st : St) : st.adv.req = st.req := rfl
@[simp] theorem St.adv_app (st : St) : st.adv.app = st.app := rfl
@[simp] theorem St.adv_reqRH (st : St) : st.adv.reqRH = st.reqRH := rfl
@[simp] theorem St.adv_calls (st : St) : st.adv.calls = st.calls := rfl

theorem run_zero (env : Env) (c : Cfg) (st : St) : run env c 0 st = (st, none) := rfl

theorem run_exhausted {env : Env} {c : Cfg} {st : St} (f : Nat) (h : c.n < st.idx) : run env c f st = (st, none) := by
  cases f <;> simp [run, h]

theorem run_cancelled {env : Env} {c : Cfg} {st : St} (f : Nat) (h : st.cancelled = true) :
    run env c f st = (st, none) := by
  cases f <;> simp [run, h]

theorem run_nil {env : Env} {c : Cfg} {st : St} (f : Nat) (h1 : ¬ c.n < st.idx) (h2 : st.cancelled = false)
    (hs : c.slot st.idx = none) : run env c (f + 1) st = (st.adv.ev (.nilact st.idx), none) := by
  simp [run, h1, h2, hs, St.adv]

theorem run_panic {env : Env} {c : Cfg} {st st1 : St} {h : Handler} {p : PVal × Nat} (f : Nat)
    (h1 : ¬ c.n < st.idx) (h2 : st.cancelled = false) (hs : c.slot st.idx = some h)
    (hr : invoke env c (run env c f) st.idx h st.adv = (st1, some p)) : run env c (f + 1) st = (st1, some p) := by
  unfold St.adv at hr
  simp only [h2] at hr
  simp [run, h1, h2, hs, hr]

theorem run_stop {env : Env} {c : Cfg} {st st1 : St} {h : Handler} (f : Nat) (h1 : ¬ c.n < st.idx)
    (h2 : st.cancelled = false) (hs : c.slot st.idx = some h)
    (hr : invoke env c (run env c f) st.idx h st.adv = (st1, none)) (hw : st1.w.written = true) :
    run env c (f + 1) st = (st1, none) := by
  unfold St.adv at hr
  simp only [h2] at hr
  simp [run, h1, h2, hs, hr, hw]

theorem run_loop {env : Env} {c : Cfg} {st st1 : St} {h : Handler} (f : Nat) (h1 : ¬ c.n < st.idx)
    (h2 : st.cancelled = false) (hs : c.slot st.idx = some h)
    (hr : invoke env c (run env c f) st.idx h st.adv = (st1, none)) (hw : st1.w.written = false) :
    run env c (f + 1) st = run env c f st1 := by
  unfold St.adv at hr
  simp only [h2] at hr
  simp [run, h1, h2, hs, hr, hw]

theorem Ext.ofAdv {c : Cfg} {st b : St} (h : Ext c st.idx st.adv b) : Ext c st.idx st b :=
  ⟨by have := h.idx; simp at this; omega, h.head, h.rep, h.dec⟩

/-- every call of `run` (= every `Next()`), at any fuel, extends the state properly -/
theorem run_ext (env : Env) (c : Cfg) : ∀ f, GoodF c (run env c f) := by
  intro f
  induction f with
  | zero => intro st; exact Ext.refl c _ st
  | succ f ih =>
    intro st
    by_cases h1 : c.n < st.idx
    · rw [run_exhausted _ h1]; exact Ext.refl c _ st
    cases h2 : st.cancelled with
    | true => rw [run_cancelled _ h2]; exact Ext.refl c _ st
    | false =>
      cases hs : c.slot st.idx with
      | none => rw [run_nil f h1 h2 hs]; exact Ext.quiet (c := c) rfl rfl rfl rfl |>.ofAdv |> fun h => ⟨by simp, h.head, h.rep, ⟨[], by simp, by simp, by simp⟩⟩
      | some h =>
        have hi := (invoke_ext env c ih st.idx h st.adv hs (by simp)).ofAdv
        rcases hr : invoke env c (run env c f) st.idx h st.adv with ⟨st1, _ | p⟩
        · rw [hr] at hi
          cases hw : st1.w.written with
          | true => rw [run_stop f h1 h2 hs hr hw]; exact hi
          | false => rw [run_loop f h1 h2 hs hr hw]; exact Ext.trans (Nat.le_refl _) hi (ih st1)
        · rw [hr] at hi
          rw [run_panic f h1 h2 hs hr]; exact hi

/-! ### 4. the simulation -/

/-- what the chain machine sees of a state -/
def proj (st : St) : Chain.St :=
  { idx := st.idx, w := st.w, cancelled := st.cancelled, badHook := false, trace := st.trace, out := st.out }

@[simp] theorem proj_ev (st : St) (e : Ev) : proj (st.ev e) = (proj st).ev e := rfl
@[simp] theorem proj_record (st : St) (i : Nat) (k : Chain.Kind) : proj (st.record i k) = proj st := rfl
@[simp] theorem proj_w (st : St) : (proj st).w = st.w := rfl
@[simp] theorem proj_idx (st : St) : (proj st).idx = st.idx := rfl
@[simp] theorem proj_cancelled (st : St) : (proj st).cancelled = st.cancelled := rfl
@[simp] theorem proj_trace (st : St) : (proj st).trace = st.trace := rfl

/-- the chain-machine configuration `cc` runs the same chain as `c` wherever decisions `D` were recorded -/
structure Agree (env : Env) (c : Cfg) (cc : Chain.Cfg) (D : List (Nat × Chain.Kind)) : Prop where
  n : cc.n = c.n
  head : cc.head = c.head
  dev : cc.dev = env.dev
  once : cc.onceBug = false
  detail : cc.detailLen = env.detail.length
  nil : ∀ i, c.slot i = none → cc.slot i = none
  dec : ∀ e ∈ D, cc.slot e.1 = some e.2

theorem Agree.mono {env : Env} {c : Cfg} {cc : Chain.Cfg} {D D' : List (Nat × Chain.Kind)}
    (h : Agree env c cc D) (hsub : ∀ e ∈ D', e ∈ D) : Agree env c cc D' :=
  ⟨h.n, h.head, h.dev, h.once, h.detail, h.nil, fun e he => h.dec e (hsub e he)⟩

theorem Agree.ofExt {env : Env} {c : Cfg} {cc : Chain.Cfg} {lo : Nat} {a b : St}
    (h : Agree env c cc b.dec) (he : Ext c lo a b) : Agree env c cc a.dec := by
  obtain ⟨d, hd, _, _⟩ := he.dec
  exact h.mono (fun e hm => by rw [hd]; exact List.mem_append_left _ hm)

theorem doHeader_proj (cc : Chain.Cfg) (i code : Nat) (st : St) :
    Chain.doHeader cc i code (proj st) = (proj (st.op (.writeHeader code)), none) := by
  simp [Chain.doHeader, Chain.hookFires, proj, St.op, St.resp, Render.Resp.apply, Writer.step]

theorem doBody_proj (cc : Chain.Cfg) (i : Nat) (b : Bytes) (st : St) (hh : cc.head = st.w.head) :
    Chain.doBody cc i b.length (proj st) = (proj (st.op (.write b)), none) := by
  simp [Chain.doBody, Chain.hookFires, proj, St.op, St.resp, Render.Resp.apply, hh]

theorem chain_execActs_append (cc : Chain.Cfg) (runG : Chain.St → Chain.Res) (i : Nat) :
    ∀ (a b : List Chain.Act) (st : Chain.St),
      Chain.execActs cc runG i (a ++ b) st =
        match Chain.execActs cc runG i a st with
        | (st', none) => Chain.execActs cc runG i b st'
        | (st', some p) => (st', some p) := by
  intro a
  induction a with
  | nil => intro b st; rfl
  | cons x rest ih =>
    intro b st
    simp only [List.cons_append, Chain.execActs]
    rcases Chain.act1 cc runG i x st with ⟨st', _ | p⟩
    · exact ih b st'
    · rfl

theorem ops_sim (cc : Chain.Cfg) (runG : Chain.St → Chain.Res) (i : Nat) :
    ∀ (l : List ROp) (st : St), cc.head = st.w.head →
      Chain.execActs cc runG i (l.filterMap eraseOp) (proj st) = (proj (st.ops l), none) := by
  intro l
  induction l with
  | nil => intro st _; rfl
  | cons op rest ih =>
    intro st hh
    have hh' : cc.head = (st.op op).w.head := by rw [(op_same st op).head]; exact hh
    cases op with
    | setHeader k v =>
      simp only [List.filterMap_cons, eraseOp]
      exact ih (st.op (.setHeader k v)) hh'
    | delHeader k =>
      simp only [List.filterMap_cons, eraseOp]
      exact ih (st.op (.delHeader k)) hh'
    | writeHeader code =>
      simp only [List.filterMap_cons, eraseOp, Chain.execActs, Chain.act1, doHeader_proj]
      exact ih (st.op (.writeHeader code)) hh'
    | write b =>
      simp only [List.filterMap_cons, eraseOp, Chain.execActs, Chain.act1, doBody_proj cc i b st hh]
      exact ih (st.op (.write b)) hh'

theorem recoverWrite_sim (env : Env) (c : Cfg) (cc : Chain.Cfg) (D : List (Nat × Chain.Kind))
    (ha : Agree env c cc D) (r : Nat) (st : St) (hh : st.w.head = c.head) :
    Chain.recoverWrite cc r (proj st) = (proj (recoverWrite env st), none) := by
  have h1 : cc.head = st.w.head := by rw [ha.head, hh]
  simp only [Chain.recoverWrite, ha.once, Bool.false_and, Bool.false_eq_true, if_false, ha.dev, ha.detail,
    recoverWrite, proj, St.op, St.resp, Render.Resp.apply, h1, Chain.recoveryPlainLen]
  cases env.dev <;> simp [Writer.step]

theorem op_proj_congr (s1 s2 : St) (o : ROp) (h : proj s1 = proj s2) : proj (s1.op o) = proj (s2.op o) := by
  simp only [proj, Chain.St.mk.injEq] at h
  obtain ⟨e1, e2, e3, _, e5, e6⟩ := h
  cases o <;> simp [proj, St.op, St.resp, Render.Resp.apply, e1, e2, e3, e5, e6]

theorem runRet_sim (cc : Chain.Cfg) (i : Nat) (racts : List Ret.Act) (R : Chain.Ret)
    (hR : eraseRet racts = some R) (st : St) (hh : cc.head = st.w.head) :
    ∃ st', runRet i racts st = (st', none) ∧ Chain.render cc i R (proj st) = (proj st', none) := by
  have hv : ∀ c : Int, Ret.validCode c = true → ∀ s : St,
      (s.retAct (.writeHeader c)).2 = false ∧ proj (s.retAct (.writeHeader c)).1 = proj (s.op (.writeHeader c.toNat)) := by
    intro c hc s
    simp [St.retAct, Ret.Out.act, hc, proj, St.op, St.resp, Render.Resp.apply]
  have hw : ∀ (b : Bytes) (s : St),
      (s.retAct (.write b)).2 = false ∧ proj (s.retAct (.write b)).1 = proj (s.op (.write b)) := by
    intro b s
    simp [St.retAct, Ret.Out.act, proj, St.op, St.resp, Render.Resp.apply]
  match racts, hR with
  | [], hR =>
    simp only [eraseRet, Option.some.injEq] at hR
    subst hR
    exact ⟨st, rfl, rfl⟩
  | [.write b], hR =>
    simp only [eraseRet] at hR
    split at hR
    · cases hR
    · rename_i hb
      simp only [Option.some.injEq] at hR
      subst hR
      have hlen : b.length ≠ 0 := by
        intro h0; exact hb (List.length_eq_zero_iff.mp h0)
      refine ⟨(st.retAct (.write b)).1, ?_, ?_⟩
      · simp only [runRet]
        rcases hq : st.retAct (.write b) with ⟨s', p⟩
        have := (hw b st).1
        rw [hq] at this
        simp only at this
        subst this
        rfl
      · simp only [Chain.render, hlen, if_false, doBody_proj cc i b st hh, (hw b st).2]
  | [.writeHeader code], hR =>
    simp only [eraseRet] at hR
    split at hR
    · rename_i hc
      simp only [Option.some.injEq] at hR
      subst hR
      refine ⟨(st.retAct (.writeHeader code)).1, ?_, ?_⟩
      · simp only [runRet]
        rcases hq : st.retAct (.writeHeader code) with ⟨s', p⟩
        have := (hv code hc st).1
        rw [hq] at this
        simp only at this
        subst this
        rfl
      · simp only [Chain.render, doHeader_proj, if_true, (hv code hc st).2]
    · cases hR
  | [.writeHeader code, .write b], hR =>
    simp only [eraseRet] at hR
    split at hR
    · rename_i hc
      simp only [Option.some.injEq] at hR
      subst hR
      have hlen : b.length ≠ 0 := by
        intro h0; exact hc.2 (List.length_eq_zero_iff.mp h0)
      have h1 := hv code hc.1 st
      have hh2 : cc.head = (st.op (.writeHeader code.toNat)).w.head := by
        rw [(op_same st _).head]; exact hh
      refine ⟨((st.retAct (.writeHeader code)).1.retAct (.write b)).1, ?_, ?_⟩
      · simp only [runRet]
        rcases hq : st.retAct (.writeHeader code) with ⟨s', p⟩
        have := h1.1
        rw [hq] at this
        simp only at this
        subst this
        simp only
        rcases hq2 : s'.retAct (.write b) with ⟨s'', p2⟩
        have := (hw b s').1
        rw [hq2] at this
        simp only at this
        subst this
        rfl
      · simp only [Chain.render, doHeader_proj, hlen, if_false, doBody_proj cc i b _ hh2]
        rw [(hw b _).2]
        rw [op_proj_congr _ _ _ h1.2]
    · cases hR

/-- `runG` (a `Next()` of the chain machine) simulates `runF` (a `Next()` of the composed machine) -/
def SimF (env : Env) (c : Cfg) (cc : Chain.Cfg) (runF : St → Res) (runG : Chain.St → Chain.Res) : Prop :=
  ∀ s, Agree env c cc (runF s).1.dec → (runF s).1.rep = true → s.w.head = c.head →
    runG (proj s) = (proj (runF s).1, (runF s).2)

theorem act1_sim (env : Env) (c : Cfg) (cc : Chain.Cfg) {runF : St → Res} {runG : Chain.St → Chain.Res}
    (hS : SimF env c cc runF runG) (i : Nat) (ro : Render.Opts) (a : Act) (st : St)
    (ha : Agree env c cc (act1 env runF i ro a st).1.dec) (hr : (act1 env runF i ro a st).1.rep = true)
    (hh : st.w.head = c.head) :
    Chain.execActs cc runG i (eraseAct env c.head ro a) (proj st) =
      (proj (act1 env runF i ro a st).1, (act1 env runF i ro a st).2) := by
  have hh' : cc.head = st.w.head := by rw [ha.head, hh]
  cases a with
  | ops l => exact ops_sim cc runG i l st hh'
  | render s p =>
    simp only [eraseAct, act1]
    rw [← hh]
    exact ops_sim cc runG i _ st hh'
  | next =>
    simp only [eraseAct, act1, Chain.execActs, Chain.act1] at ha hr ⊢
    rw [hS st ha hr hh]
    rcases runF st with ⟨s', _ | p⟩ <;> rfl
  | cancel => rfl
  | panic v => rfl
  | map t v => rfl
  | mapApp t v => rfl
  | mapReturnHandler h => rfl

theorem execActs_sim (env : Env) (c : Cfg) (cc : Chain.Cfg) {runF : St → Res} {runG : Chain.St → Chain.Res}
    (hS : SimF env c cc runF runG) (hF : GoodF c runF) (i : Nat) (ro : Render.Opts) :
    ∀ (acts : List Act) (st : St),
      Agree env c cc (execActs env runF i ro acts st).1.dec → (execActs env runF i ro acts st).1.rep = true →
      st.w.head = c.head →
      Chain.execActs cc runG i (acts.flatMap (eraseAct env c.head ro)) (proj st) =
        (proj (execActs env runF i ro acts st).1, (execActs env runF i ro acts st).2) := by
  intro acts
  induction acts with
  | nil => intro st _ _ _; rfl
  | cons a rest ih =>
    intro st ha hr hh
    have hext1 := act1_ext env c hF i ro a st
    simp only [List.flatMap_cons, chain_execActs_append]
    unfold execActs at ha hr ⊢
    rcases hq : act1 env runF i ro a st with ⟨st', _ | p⟩
    · rw [hq] at ha hr hext1
      simp only at ha hr ⊢
      have hext2 := execActs_ext env c hF i ro rest st'
      have h1 := act1_sim env c cc hS i ro a st (by rw [hq]; exact ha.ofExt hext2)
        (by rw [hq]; exact hext2.rep hr) hh
      rw [h1, hq]
      exact ih st' ha hr (hext1.head.trans hh)
    · rw [hq] at ha hr
      simp only at ha hr ⊢
      have h1 := act1_sim env c cc hS i ro a st (by rw [hq]; exact ha) (by rw [hq]; exact hr) hh
      rw [h1, hq]

theorem finishFn_sim (env : Env) (c : Cfg) (cc : Chain.Cfg) (i : Nat) (erased : List Chain.Act)
    (ret : Ret.RetShape) (st1 : St) (hr : (finishFn env c i erased ret st1).1.rep = true)
    (hh : cc.head = st1.w.head) :
    st1.rep = true ∧ ∃ R, (i, Chain.Kind.plain { acts := erased, ret := R }) ∈ (finishFn env c i erased ret st1).1.dec ∧
      Chain.render cc i R ((proj st1).ev (.exit i)) =
        (proj (finishFn env c i erased ret st1).1, (finishFn env c i erased ret st1).2) := by
  unfold finishFn at hr ⊢
  generalize Ret.afterHandler env.ph st1.reqRH c.appRH ret = racts at hr ⊢
  dsimp only at hr ⊢
  have hsame := runRet_same i racts
    (((st1.ev (.exit i)).record i (.plain ⟨erased, (eraseRet racts).getD .none⟩)).flag (eraseRet racts).isSome)
  rw [hsame.rep] at hr
  simp only [St.flag_rep, St.record_rep, St.ev_rep, Bool.and_eq_true] at hr
  obtain ⟨hr1, hsome⟩ := hr
  obtain ⟨R, hR⟩ := Option.isSome_iff_exists.mp hsome
  refine ⟨hr1, R, ?_, ?_⟩
  · rw [hsame.dec]; simp [hR]
  · obtain ⟨st', hrun, hren⟩ := runRet_sim cc i _ R hR
      (((st1.ev (.exit i)).record i (.plain ⟨erased, (eraseRet racts).getD .none⟩)).flag (eraseRet racts).isSome) hh
    rw [hrun]
    exact hren

theorem invokeFn_sim (env : Env) (c : Cfg) (cc : Chain.Cfg) {runF : St → Res} {runG : Chain.St → Chain.Res}
    (hS : SimF env c cc runF runG) (hF : GoodF c runF) (i : Nat) (acts : List Act) (ret : Ret.RetShape)
    (args : List Val) (st : St) (hs : (c.slot i).isSome = true) (hi : i < st.idx)
    (ha : Agree env c cc (invokeFn env c runF i acts ret args st).1.dec)
    (hr : (invokeFn env c runF i acts ret args st).1.rep = true) (hh : st.w.head = c.head) :
    ∃ k, (i, k) ∈ (invokeFn env c runF i acts ret args st).1.dec ∧
      Chain.invoke cc runG i k (proj st) =
        (proj (invokeFn env c runF i acts ret args st).1, (invokeFn env c runF i acts ret args st).2) := by
  have hh' : cc.head = st.w.head := by rw [ha.head, hh]
  have hext := execActs_ext env c hF i (env.ropts (args.getLast?.getD 0)) acts ((st.ev (.enter i)).call i args)
  have hp0 : proj ((st.ev (.enter i)).call i args) = (proj st).ev (.enter i) := rfl
  unfold invokeFn at ha hr ⊢
  dsimp only at ha hr ⊢
  rcases hq : execActs env runF i (env.ropts (args.getLast?.getD 0)) acts ((st.ev (.enter i)).call i args)
    with ⟨st1, _ | ⟨v, j⟩⟩
  · rw [hq] at ha hr hext
    simp only at ha hr ⊢
    have hh1 : cc.head = st1.w.head := by rw [hext.head]; exact hh'
    obtain ⟨hr1, R, hmem, hren⟩ := finishFn_sim env c cc i _ ret st1 hr hh1
    have hfin := finishFn_ext env c i (acts.flatMap (eraseAct env c.head (env.ropts (args.getLast?.getD 0)))) ret
      (a := (st.ev (.enter i)).call i args) hext (by simpa using hi) hs
    have hsim := execActs_sim env c cc hS hF i (env.ropts (args.getLast?.getD 0)) acts ((st.ev (.enter i)).call i args)
      (by rw [hq]
          obtain ⟨d, hd, _, _⟩ := hfin.dec
          have hext' : Ext c ((st.ev (.enter i)).call i args).idx ((st.ev (.enter i)).call i args) st1 := hext
          obtain ⟨d1, hd1, _, _⟩ := hext'.dec
          refine ha.mono ?_
          intro e he
          unfold finishFn
          generalize Ret.afterHandler env.ph st1.reqRH c.appRH ret = racts
          dsimp only
          rw [(runRet_same i racts _).dec]
          simp only [St.flag_dec, St.record_dec, St.ev_dec, List.mem_append]
          exact Or.inl he)
      (by rw [hq]; exact hr1) hh
    rw [hq, hp0] at hsim
    refine ⟨_, hmem, ?_⟩
    simp only [Chain.invoke, hsim]
    exact hren
  · rw [hq] at ha hr
    simp only at ha hr ⊢
    have hsim := execActs_sim env c cc hS hF i (env.ropts (args.getLast?.getD 0)) acts ((st.ev (.enter i)).call i args)
      (by rw [hq]; exact ha.mono (fun e he => by simp; exact Or.inl he))
      (by rw [hq]; simpa using hr) hh
    rw [hq, hp0] at hsim
    refine ⟨Chain.Kind.plain ⟨acts.flatMap (eraseAct env c.head (env.ropts (args.getLast?.getD 0))), .none⟩, by simp, ?_⟩
    simp only [Chain.invoke, hsim]
    rfl

theorem invoke_sim (env : Env) (c : Cfg) (cc : Chain.Cfg) {runF : St → Res} {runG : Chain.St → Chain.Res}
    (hS : SimF env c cc runF runG) (hF : GoodF c runF) (i : Nat) (h : Handler) (st : St)
    (hs : c.slot i = some h) (hi : i < st.idx)
    (ha : Agree env c cc (invoke env c runF i h st).1.dec) (hr : (invoke env c runF i h st).1.rep = true)
    (hh : st.w.head = c.head) :
    ∃ k, (i, k) ∈ (invoke env c runF i h st).1.dec ∧
      Chain.invoke cc runG i k (proj st) = (proj (invoke env c runF i h st).1, (invoke env c runF i h st).2) := by
  have hh' : cc.head = st.w.head := by rw [ha.head, hh]
  have hsome : (c.slot i).isSome = true := by rw [hs]; rfl
  cases h with
  | fn sig acts ret =>
    simp only [invoke] at ha hr ⊢
    rcases hq : Inject.resolveArgs env.U [st.req, st.app] (fullSig env sig acts) [] with t | args
    · exact ⟨.unresolvable, by simp, rfl⟩
    · rw [hq] at ha hr
      exact invokeFn_sim env c cc hS hF i acts ret args st hsome hi ha hr hh
  | recovery =>
    simp only [invoke] at ha hr ⊢
    have hext := hF (st.ev (.enter i))
    rcases hq : runF (st.ev (.enter i)) with ⟨st1, _ | ⟨v, j⟩⟩
    · rw [hq] at ha hr
      simp only at ha hr ⊢
      refine ⟨.recovery, by simp, ?_⟩
      have hsim := hS (st.ev (.enter i)) (by rw [hq]; exact ha.mono (fun e he => by simp; exact Or.inl he))
        (by rw [hq]; simpa using hr) hh
      rw [hq] at hsim
      simp only [Chain.invoke, ← proj_ev, hsim]
      rfl
    · rw [hq] at ha hr
      simp only at ha hr ⊢
      have hsame := recoverWrite_same env (st1.ev (.recovered i j st1.w.status))
      refine ⟨.recovery, by simp, ?_⟩
      have hsim := hS (st.ev (.enter i))
        (by rw [hq]; exact ha.mono (fun e he => by simp [hsame.dec]; exact Or.inl he))
        (by rw [hq]; simpa [hsame.rep] using hr) hh
      rw [hq] at hsim hext
      have hh1 : (st1.ev (.recovered i j st1.w.status)).w.head = c.head := by
        simp only [St.ev_w]; rw [hext.head]; exact hh
      simp only [Chain.invoke, ← proj_ev, hsim, proj_w,
        recoverWrite_sim env c cc _ ha i (st1.ev (.recovered i j st1.w.status)) hh1, proj_record]
  | static o =>
    simp only [invoke] at ha hr ⊢
    refine ⟨Chain.Kind.plain ⟨(staticRun env c o st).filterMap eraseOp, .none⟩, by simp, ?_⟩
    simp only [Chain.invoke, ← proj_ev]
    rw [ops_sim cc runG i _ (st.ev (.enter i)) hh']
    rfl
  | renderer vid =>
    simp only [invoke] at ha hr ⊢
    exact ⟨Chain.Kind.plain ⟨[.map], .none⟩, by simp, rfl⟩

/-- the chain machine, run on a configuration that agrees with the decisions the composed run recorded,
    produces the projection of the composed run -/
theorem run_sim (env : Env) (c : Cfg) (cc : Chain.Cfg) : ∀ f, SimF env c cc (run env c f) (Chain.run cc f) := by
  intro f
  induction f with
  | zero => intro st _ _ _; rfl
  | succ f ih =>
    intro st ha hr hh
    by_cases h1 : c.n < st.idx
    · rw [run_exhausted _ h1]
      have : cc.n < (proj st).idx := by rw [ha.n]; exact h1
      rw [Chain.run_exhausted _ this]
    cases h2 : st.cancelled with
    | true =>
      rw [run_cancelled _ h2]
      have : (proj st).cancelled = true := h2
      rw [Chain.run_cancelled _ this]
    | false =>
      have h1' : ¬ cc.n < (proj st).idx := by rw [ha.n]; exact h1
      have h2' : (proj st).cancelled = false := h2
      cases hs : c.slot st.idx with
      | none =>
        rw [run_nil f h1 h2 hs]
        rw [Chain.run_nil f h1' h2' (ha.nil _ hs)]
        rfl
      | some h =>
        have hext := invoke_ext env c (run_ext env c f) st.idx h st.adv hs (by simp)
        rcases hq : invoke env c (run env c f) st.idx h st.adv with ⟨st1, _ | p⟩
        · rw [hq] at hext
          cases hw : st1.w.written with
          | true =>
            rw [run_stop f h1 h2 hs hq hw] at ha hr ⊢
            obtain ⟨k, hk, hsim⟩ := invoke_sim env c cc ih (run_ext env c f) st.idx h st.adv hs (by simp)
              (by rw [hq]; exact ha) (by rw [hq]; exact hr) hh
            rw [hq] at hk hsim
            exact Chain.run_stop f h1' h2' (ha.dec _ hk) hsim hw
          | false =>
            rw [run_loop f h1 h2 hs hq hw] at ha hr ⊢
            have hext2 := run_ext env c f st1
            obtain ⟨k, hk, hsim⟩ := invoke_sim env c cc ih (run_ext env c f) st.idx h st.adv hs (by simp)
              (by rw [hq]; exact ha.ofExt hext2) (by rw [hq]; exact hext2.rep hr) hh
            rw [hq] at hk hsim
            have hk' : cc.slot (proj st).idx = some k := (ha.ofExt hext2).dec _ hk
            rw [Chain.run_loop f h1' h2' hk' hsim hw]
            exact ih st1 ha hr (hext.head.trans hh)
        · rw [hq] at hext
          rw [run_panic f h1 h2 hs hq] at ha hr ⊢
          obtain ⟨k, hk, hsim⟩ := invoke_sim env c cc ih (run_ext env c f) st.idx h st.adv hs (by simp)
            (by rw [hq]; exact ha) (by rw [hq]; exact hr) hh
          rw [hq] at hk hsim
          exact Chain.run_panic f h1' h2' (ha.dec _ hk) hsim

/-! ### 5. the erased configuration -/

/-- the decision recorded for slot `j` -/
def lookupDec (D : List (Nat × Chain.Kind)) (j : Nat) : Option Chain.Kind :=
  (D.find? (fun e => e.1 == j)).map (·.2)

/-- a slot that was never started: Recovery is Recovery, anything else a handler doing nothing -/
def staticErase : Handler → Chain.Kind
  | .recovery => .recovery
  | _ => .plain { acts := [] }

def eraseSlot (D : List (Nat × Chain.Kind)) (j : Nat) (h : Handler) : Chain.Kind :=
  (lookupDec D j).getD (staticErase h)

/-- The composed chain `c` as a configuration of the chain machine, erased along a run that recorded
    the decisions `D`: types and return values are gone — a handler whose parameters did not resolve is
    `unresolvable`, a `fn` handler is its actions with scope changes reduced to `map`, rendering reduced to
    the status and body writes it made, and the abstract effect its return values had; Static / Renderer
    are plain handlers.  Same length, same middleware prefix, same action slot, same method and environment. -/
def eraseCfg (env : Env) (c : Cfg) (D : List (Nat × Chain.Kind)) : Chain.Cfg :=
  { mw := (c.chain.mapIdx (fun j h => eraseSlot D j h)).take c.nmw, grp := [],
    rt := (c.chain.mapIdx (fun j h => eraseSlot D j h)).drop c.nmw,
    action := c.action.map (eraseSlot D c.n),
    head := c.head, dev := env.dev, onceBug := false, detailLen := env.detail.length }

theorem eraseCfg_chain (env : Env) (c : Cfg) (D : List (Nat × Chain.Kind)) :
    (eraseCfg env c D).chain = c.chain.mapIdx (fun j h => eraseSlot D j h) := by
  simp [eraseCfg, Chain.Cfg.chain]

theorem eraseCfg_n (env : Env) (c : Cfg) (D : List (Nat × Chain.Kind)) : (eraseCfg env c D).n = c.n := by
  simp [Chain.Cfg.n, eraseCfg_chain, Cfg.n]

theorem eraseCfg_slot (env : Env) (c : Cfg) (D : List (Nat × Chain.Kind)) (j : Nat) :
    (eraseCfg env c D).slot j = (c.slot j).map (eraseSlot D j) := by
  unfold Chain.Cfg.slot Cfg.slot
  rw [eraseCfg_n, eraseCfg_chain]
  by_cases hj : j = c.n
  · subst hj; simp [eraseCfg]
  · simp [hj, List.getElem?_mapIdx]

theorem lookupDec_mem : ∀ (D : List (Nat × Chain.Kind)), (D.map Prod.fst).Nodup → ∀ e ∈ D, lookupDec D e.1 = some e.2 := by
  intro D
  induction D with
  | nil => intro _ e he; cases he
  | cons x rest ih =>
    intro hn e he
    simp only [List.map_cons, List.nodup_cons] at hn
    rcases List.mem_cons.mp he with rfl | he
    · simp [lookupDec]
    · have hne : x.1 ≠ e.1 := by
        intro h
        exact hn.1 (by rw [h]; exact List.mem_map.mpr ⟨e, he, rfl⟩)
      have := ih hn.2 e he
      simp only [lookupDec, List.find?_cons] at this ⊢
      have hb : (x.1 == e.1) = false := by simpa using hne
      simp only [hb]
      exact this

theorem agree_erase (env : Env) (c : Cfg) (D : List (Nat × Chain.Kind)) (hn : (D.map Prod.fst).Nodup)
    (hs : ∀ e ∈ D, (c.slot e.1).isSome = true) : Agree env c (eraseCfg env c D) D := by
  refine ⟨eraseCfg_n env c D, rfl, rfl, rfl, rfl, ?_, ?_⟩
  · intro i hi; rw [eraseCfg_slot, hi]; rfl
  · intro e he
    rw [eraseCfg_slot]
    obtain ⟨h, hh⟩ := Option.isSome_iff_exists.mp (hs e he)
    rw [hh]
    simp [eraseSlot, lookupDec_mem D hn e he]

/-- `serveChain` with its run exposed -/
theorem serveChain_eq (env : Env) (c : Cfg) :
    serveChain env c = match run env c c.fuel (c.st0 env) with
      | (st, none) => st
      | (st, some (v, j)) => st.ev (.escaped v j) := rfl

/-- **Refinement.**  Whenever every return value rendered during the request had an effect the chain
    machine can express (`rep`), the chain machine of Model/Chain, run on the erased configuration, produces
    exactly the projection of the composed run: same event trace, same writer, same cursor, same body tokens. -/
theorem serve_refines (env : Env) (c : Cfg) (h : (serveChain env c).rep = true) :
    Chain.serve (eraseCfg env c (serveChain env c).dec) = proj (serveChain env c) := by
  have hext := run_ext env c c.fuel (c.st0 env)
  obtain ⟨d, hd, hk, hnd⟩ := hext.dec
  have hd' : (run env c c.fuel (c.st0 env)).1.dec = d := by rw [hd]; rfl
  have hdec : (serveChain env c).dec = (run env c c.fuel (c.st0 env)).1.dec := by
    rw [serveChain_eq]; rcases run env c c.fuel (c.st0 env) with ⟨st, _ | ⟨v, j⟩⟩ <;> rfl
  have hrep : (serveChain env c).rep = (run env c c.fuel (c.st0 env)).1.rep := by
    rw [serveChain_eq]; rcases run env c c.fuel (c.st0 env) with ⟨st, _ | ⟨v, j⟩⟩ <;> rfl
  rw [hdec]
  have hag : Agree env c (eraseCfg env c (run env c c.fuel (c.st0 env)).1.dec) (run env c c.fuel (c.st0 env)).1.dec := by
    rw [hd']
    exact agree_erase env c d hnd (fun e he => (hk e he).2.2)
  have hsim := run_sim env c _ c.fuel (c.st0 env) hag (by rw [← hrep]; exact h) rfl
  unfold Chain.serve
  have hfuel : (eraseCfg env c (run env c c.fuel (c.st0 env)).1.dec).fuel = c.fuel := by
    simp [Chain.Cfg.fuel, eraseCfg_n, Cfg.fuel]
  have hst0 : (eraseCfg env c (run env c c.fuel (c.st0 env)).1.dec).st0 = proj (c.st0 env) := rfl
  rw [hfuel, hst0, hsim, serveChain_eq]
  rcases run env c c.fuel (c.st0 env) with ⟨st, _ | ⟨v, j⟩⟩ <;> rfl

/-! ### 6. the return rendering is Model/Return's; writes; resolution -/

theorem out_eta (o : Ret.Out) (h : o.panicked = false) : ({ w := o.w, body := o.body } : Ret.Out) = o := by
  cases o; simp at h; subst h; rfl

/-- the acts of the ReturnHandler, run by the composed machine, are `Ret.Out.run` on its writer and body -/
theorem runRet_is_run (i : Nat) : ∀ (acts : List Ret.Act) (st : St),
    (runRet i acts st).1.w = (Ret.Out.run { w := st.w, body := st.body } acts).w ∧
    (runRet i acts st).1.body = (Ret.Out.run { w := st.w, body := st.body } acts).body ∧
    (runRet i acts st).2.isSome = (Ret.Out.run { w := st.w, body := st.body } acts).panicked := by
  intro acts
  induction acts with
  | nil => intro st; exact ⟨rfl, rfl, rfl⟩
  | cons a rest ih =>
    intro st
    have hrun : Ret.Out.run { w := st.w, body := st.body } (a :: rest) =
        Ret.Out.run (Ret.Out.act { w := st.w, body := st.body } a) rest := rfl
    rw [hrun]
    unfold runRet
    have h1 : (st.retAct a).1.w = (Ret.Out.act { w := st.w, body := st.body } a).w := rfl
    have h2 : (st.retAct a).1.body = (Ret.Out.act { w := st.w, body := st.body } a).body := rfl
    have h3 : (st.retAct a).2 = (Ret.Out.act { w := st.w, body := st.body } a).panicked := rfl
    rcases hq : st.retAct a with ⟨st', _ | _⟩
    · rw [hq] at h1 h2 h3
      simp only at h1 h2 h3 ⊢
      have := ih st'
      rw [h1, h2, out_eta _ h3.symm] at this
      exact this
    · rw [hq] at h1 h2 h3
      simp only at h1 h2 h3 ⊢
      rw [Ret.run_panicked _ _ h3.symm]
      exact ⟨h1, h2, by simpa using h3⟩

/-- after handler `i` returned `ret`: writer, body and panic are `Ret.respondFrom` with the handlers
    visible at that moment -/
theorem finishFn_is_respondFrom (env : Env) (c : Cfg) (i : Nat) (erased : List Chain.Act) (ret : Ret.RetShape)
    (st1 : St) :
    (finishFn env c i erased ret st1).1.w =
      (Ret.respondFrom { w := st1.w, body := st1.body } env.ph st1.reqRH c.appRH ret).w ∧
    (finishFn env c i erased ret st1).1.body =
      (Ret.respondFrom { w := st1.w, body := st1.body } env.ph st1.reqRH c.appRH ret).body ∧
    (finishFn env c i erased ret st1).2.isSome =
      (Ret.respondFrom { w := st1.w, body := st1.body } env.ph st1.reqRH c.appRH ret).panicked := by
  unfold finishFn Ret.respondFrom
  exact runRet_is_run i _ _

theorem finishFn_nil (env : Env) (c : Cfg) (i : Nat) (erased : List Chain.Act) (ret : Ret.RetShape) (st1 : St)
    (h : Ret.afterHandler env.ph st1.reqRH c.appRH ret = []) :
    finishFn env c i erased ret st1 =
      ((st1.ev (.exit i)).record i (.plain { acts := erased, ret := .nothing }), none) := by
  unfold finishFn
  rw [h]
  simp [runRet, eraseRet, St.flag]
  rfl

/-- one loop iteration of `run()` (C03's `auto_advance_iff`, on the composed machine) -/
theorem run_auto_advance (env : Env) (c : Cfg) (f : Nat) (st st1 : St) (h : Handler) (h1 : ¬ c.n < st.idx)
    (h2 : st.cancelled = false) (hs : c.slot st.idx = some h)
    (hr : invoke env c (run env c f) st.idx h st.adv = (st1, none)) :
    run env c (f + 1) st =
      if st1.w.status = 0 ∧ st1.cancelled = false then run env c f st1 else (st1, none) := by
  cases hw : st1.w.written with
  | true =>
    rw [run_stop f h1 h2 hs hr hw]
    have : st1.w.status ≠ 0 := by simpa [Writer.W.written] using hw
    simp [this]
  | false =>
    rw [run_loop f h1 h2 hs hr hw]
    have : st1.w.status = 0 := by simpa [Writer.W.written] using hw
    cases hc : st1.cancelled with
    | true => simp [this, run_cancelled f hc]
    | false => simp [this]

/-! #### writes -/

theorem op_w (st : St) (op : ROp) :
    (st.op op).w = match op.toW with | some o => Writer.step st.w o | none => st.w :=
  Render.apply_w st.resp op

theorem op_written_stable (st : St) (op : ROp) (h : st.w.written = true) : (st.op op).w.written = true := by
  have hs : st.w.status ≠ 0 := by simpa [Writer.W.written] using h
  rw [op_w]
  cases hq : op.toW with
  | none => exact h
  | some o => simp only [Writer.W.written, Render.step_status_stable _ _ hs]; simpa [Writer.W.written] using h

theorem ops_written_stable (l : List ROp) : ∀ st : St, st.w.written = true → (st.ops l).w.written = true := by
  induction l with
  | nil => intro st h; exact h
  | cons op rest ih => intro st h; exact ih (st.op op) (op_written_stable st op h)

theorem op_wok (st : St) (op : ROp) (h : Chain.WOK st.w) (hc : ∀ code, op = .writeHeader code → code ≠ 0) :
    Chain.WOK (st.op op).w := by
  rw [op_w]
  cases op with
  | setHeader k v => exact h
  | delHeader k => exact h
  | writeHeader c => exact Chain.wh_wok _ _ (hc c rfl) h
  | write b => exact Chain.write_wok _ _ _ h

/-- a list of operations containing a `WriteHeader` (all codes non-zero) leaves the response written -/
theorem ops_written (l : List ROp) : ∀ st : St, Chain.WOK st.w →
    (∀ code, ROp.writeHeader code ∈ l → code ≠ 0) → (∃ code, ROp.writeHeader code ∈ l) →
    (st.ops l).w.written = true := by
  induction l with
  | nil => intro st _ _ ⟨_, h⟩; cases h
  | cons op rest ih =>
    intro st hw hall ⟨code, hmem⟩
    have hw' : Chain.WOK (st.op op).w :=
      op_wok st op hw (fun c hc => hall c (by rw [hc]; exact List.mem_cons_self))
    have hall' : ∀ code, ROp.writeHeader code ∈ rest → code ≠ 0 := fun c hc => hall c (List.mem_cons_of_mem _ hc)
    rcases List.mem_cons.mp hmem with heq | hin
    · subst heq
      refine ops_written_stable rest (st.op (.writeHeader code)) ?_
      rw [op_w]
      simp only [ROp.toW, Writer.step]
      cases h0 : st.w.status with
      | zero =>
        have := Chain.wh_fresh st.w code hw h0
        simp [Writer.W.written, this, hall code List.mem_cons_self]
      | succ n =>
        have hne : st.w.status ≠ 0 := by omega
        have := Chain.wh_sticky st.w code hne
        simp [Writer.W.written, this, hne]
    · exact ih (st.op op) hw' hall' ⟨code, hin⟩

/-! #### resolution -/

theorem argSets_append_error (U : Inject.Universe) (chain : List Scope) (t : Ty)
    (h : Inject.valueSet U chain t = []) : ∀ sig : List Ty, ∃ e, Inject.argSets U chain (sig ++ [t]) = .error e := by
  intro sig
  induction sig with
  | nil => exact ⟨t, by simp [Inject.argSets, h]⟩
  | cons a rest ih =>
    obtain ⟨e, he⟩ := ih
    simp only [List.cons_append, Inject.argSets]
    split
    · exact ⟨a, rfl⟩
    · rw [he]; exact ⟨e, rfl⟩

theorem resolve_error_of_argSets (U : Inject.Universe) (chain : List Scope) (sig : List Ty) (t : Ty)
    (h : Inject.argSets U chain sig = .error t) : Inject.resolveArgs U chain sig [] = .error t :=
  (Inject.resolve_error_iff U chain sig [] t).mpr h

/-- an exact registration in the nearest scope answers every lookup, whatever the iteration choice -/
theorem value_of_lookup (U : Inject.Universe) (s : Scope) (parents : List Scope) (t : Ty) (v : Val) (ch : Nat)
    (h : Inject.lookup s t = some v) : Inject.value U (s :: parents) t ch = some v := by
  simp [Inject.value, Inject.valueSet, h, Inject.pick_singleton]

theorem resolve_single (U : Inject.Universe) (s : Scope) (parents : List Scope) (t : Ty) (v : Val)
    (h : Inject.lookup s t = some v) : Inject.resolveArgs U (s :: parents) [t] [] = .ok [v] := by
  simp [Inject.resolveArgs, value_of_lookup U s parents t v _ h]

/-! ### 7. the Flame's scope changes only through `mapApp` -/

def Act.noMapApp : Act → Bool
  | .mapApp _ _ => false
  | _ => true

def Handler.noMapApp : Handler → Bool
  | .fn _ acts _ => acts.all Act.noMapApp
  | _ => true

/-- no handler of the chain (action included) maps anything on the Flame -/
def Cfg.noMapApp (c : Cfg) : Prop := ∀ i h, c.slot i = some h → h.noMapApp = true

def KeepsApp (runF : St → Res) : Prop := ∀ s, (runF s).1.app = s.app

theorem act1_app (env : Env) {runF : St → Res} (hF : KeepsApp runF) (i : Nat) (ro : Render.Opts) (a : Act)
    (ha : a.noMapApp = true) (st : St) : (act1 env runF i ro a st).1.app = st.app := by
  cases a with
  | ops l => exact (ops_same l st).app
  | render s p => exact (ops_same _ st).app
  | next => exact hF st
  | cancel => rfl
  | panic v => rfl
  | map t v => rfl
  | mapApp t v => simp [Act.noMapApp] at ha
  | mapReturnHandler h => rfl

theorem execActs_app (env : Env) {runF : St → Res} (hF : KeepsApp runF) (i : Nat) (ro : Render.Opts) :
    ∀ (acts : List Act), acts.all Act.noMapApp = true → ∀ st : St, (execActs env runF i ro acts st).1.app = st.app := by
  intro acts
  induction acts with
  | nil => intro _ st; rfl
  | cons a rest ih =>
    intro hall st
    simp only [List.all_cons, Bool.and_eq_true] at hall
    have h1 := act1_app env hF i ro a hall.1 st
    unfold execActs
    rcases hq : act1 env runF i ro a st with ⟨st', _ | p⟩
    · rw [hq] at h1
      exact (ih hall.2 st').trans h1
    · rw [hq] at h1; exact h1

theorem invoke_app (env : Env) (c : Cfg) {runF : St → Res} (hF : KeepsApp runF) (i : Nat) (h : Handler)
    (hh : h.noMapApp = true) (st : St) : (invoke env c runF i h st).1.app = st.app := by
  cases h with
  | fn sig acts ret =>
    simp only [invoke]
    split
    · rfl
    · rename_i args _
      unfold invokeFn
      dsimp only
      have h1 := execActs_app env hF i (env.ropts (args.getLast?.getD 0)) acts hh ((st.ev (.enter i)).call i args)
      rcases hq : execActs env runF i (env.ropts (args.getLast?.getD 0)) acts ((st.ev (.enter i)).call i args)
        with ⟨st1, _ | ⟨v, j⟩⟩
      · rw [hq] at h1
        simp only
        unfold finishFn
        rw [(runRet_same i _ _).app]
        exact h1
      · rw [hq] at h1; exact h1
  | recovery =>
    simp only [invoke]
    have h1 := hF (st.ev (.enter i))
    rcases hq : runF (st.ev (.enter i)) with ⟨st1, _ | ⟨v, j⟩⟩
    · rw [hq] at h1; exact h1
    · rw [hq] at h1
      simp only [St.record_app, St.ev_app, (recoverWrite_same env _).app]
      exact h1
  | static o =>
    simp only [invoke, St.record_app, St.ev_app, (ops_same _ _).app]
  | renderer vid => rfl

theorem run_app (env : Env) (c : Cfg) (hc : c.noMapApp) : ∀ f, KeepsApp (run env c f) := by
  intro f
  induction f with
  | zero => intro st; rfl
  | succ f ih =>
    intro st
    by_cases h1 : c.n < st.idx
    · rw [run_exhausted _ h1]
    cases h2 : st.cancelled with
    | true => rw [run_cancelled _ h2]
    | false =>
      cases hs : c.slot st.idx with
      | none => rw [run_nil f h1 h2 hs]; rfl
      | some h =>
        have hi := invoke_app env c ih st.idx h (hc _ _ hs) st.adv
        rcases hr : invoke env c (run env c f) st.idx h st.adv with ⟨st1, _ | p⟩
        · rw [hr] at hi
          cases hw : st1.w.written with
          | true => rw [run_stop f h1 h2 hs hr hw]; exact hi
          | false => rw [run_loop f h1 h2 hs hr hw]; exact (ih st1).trans hi
        · rw [hr] at hi
          rw [run_panic f h1 h2 hs hr]; exact hi

theorem serveChain_app (env : Env) (c : Cfg) (hc : c.noMapApp) : (serveChain env c).app = c.scope0 := by
  have := run_app env c hc c.fuel (c.st0 env)
  rw [serveChain_eq]
  rcases hq : run env c c.fuel (c.st0 env) with ⟨st, _ | ⟨v, j⟩⟩ <;> (rw [hq] at this; exact this)

/-! ### 8. the event trace, without any guard: C03's extension relation on the composed machine

  `Chain.Ext` / `Chain.InvokeExt` (Proofs/Chain) speak about trace and cursor only, so they can be stated of
  the projections; the bracketing lemmas of Proofs/Chain are reused as they are. -/

def TGood (runF : St → Res) : Prop := ∀ s, ∃ evs, Chain.Ext (proj s) (proj (runF s).1) evs

theorem text_of_same {a b : St} (h : SameCtl a b) : Chain.Ext (proj a) (proj b) [] :=
  Chain.Ext.quiet h.trace h.idx

theorem act1_text (env : Env) {runF : St → Res} (hF : TGood runF) (i : Nat) (ro : Render.Opts) (a : Act) (st : St) :
    ∃ evs, Chain.Ext (proj st) (proj (act1 env runF i ro a st).1) evs := by
  cases a with
  | ops l => exact ⟨[], text_of_same (ops_same l st)⟩
  | render s p => exact ⟨[], text_of_same (ops_same _ st)⟩
  | next => exact hF st
  | cancel => exact ⟨[], Chain.Ext.quiet rfl rfl⟩
  | panic v => exact ⟨[], Chain.Ext.refl _⟩
  | map t v => exact ⟨[], Chain.Ext.quiet rfl rfl⟩
  | mapApp t v => exact ⟨[], Chain.Ext.quiet rfl rfl⟩
  | mapReturnHandler h => exact ⟨[], Chain.Ext.quiet rfl rfl⟩

theorem execActs_text (env : Env) {runF : St → Res} (hF : TGood runF) (i : Nat) (ro : Render.Opts) :
    ∀ (acts : List Act) (st : St), ∃ evs, Chain.Ext (proj st) (proj (execActs env runF i ro acts st).1) evs := by
  intro acts
  induction acts with
  | nil => intro st; exact ⟨[], Chain.Ext.refl _⟩
  | cons a rest ih =>
    intro st
    obtain ⟨e1, h1⟩ := act1_text env hF i ro a st
    unfold execActs
    rcases hr : act1 env runF i ro a st with ⟨st', _ | p⟩
    · rw [hr] at h1
      obtain ⟨e2, h2⟩ := ih st'
      exact ⟨e1 ++ e2, h1.trans h2⟩
    · rw [hr] at h1; exact ⟨e1, h1⟩

theorem finishFn_trace (env : Env) (c : Cfg) (i : Nat) (erased : List Chain.Act) (ret : Ret.RetShape) (st1 : St) :
    (finishFn env c i erased ret st1).1.trace = st1.trace ++ [Ev.exit i] ∧
    (finishFn env c i erased ret st1).1.idx = st1.idx := by
  unfold finishFn
  exact ⟨(runRet_same i _ _).trace.trans rfl, (runRet_same i _ _).idx.trans rfl⟩

theorem invoke_text (env : Env) (c : Cfg) {runF : St → Res} (hF : TGood runF) (i : Nat) (h : Handler) (st : St) :
    ∃ evs, Chain.InvokeExt i (proj st) (proj (invoke env c runF i h st).1) evs := by
  cases h with
  | fn sig acts ret =>
    simp only [invoke]
    split
    · refine ⟨[Ev.inject i], ?_, ?_, ?_, Chain.balanced_inject i⟩ <;> simp [Chain.starts, Chain.Ev.start]
    · rename_i args _
      unfold invokeFn
      dsimp only
      obtain ⟨e1, h1⟩ := execActs_text env hF i (env.ropts (args.getLast?.getD 0)) acts ((st.ev (.enter i)).call i args)
      have hp0 : proj ((st.ev (.enter i)).call i args) = (proj st).ev (.enter i) := rfl
      rw [hp0] at h1
      rcases hq : execActs env runF i (env.ropts (args.getLast?.getD 0)) acts ((st.ev (.enter i)).call i args)
        with ⟨st1, _ | ⟨v, j⟩⟩
      · rw [hq] at h1
        simp only
        have hft := finishFn_trace env c i (acts.flatMap (eraseAct env c.head (env.ropts (args.getLast?.getD 0)))) ret st1
        exact ⟨_, Chain.wrap_ext (st := proj st) (st1 := proj st1) (mid := []) (Ev.exit i) (Or.inl rfl) h1
          Chain.balanced_nil rfl (by simp [hft.1]) (by simp [hft.2])⟩
      · rw [hq] at h1
        simp only
        exact ⟨_, Chain.wrap_ext (st := proj st) (st1 := proj st1) (mid := []) (Ev.abort i j) (Or.inr ⟨j, rfl⟩) h1
          Chain.balanced_nil rfl (by simp) (by simp)⟩
  | recovery =>
    simp only [invoke]
    obtain ⟨e1, h1⟩ := hF (st.ev (.enter i))
    rw [proj_ev] at h1
    rcases hq : runF (st.ev (.enter i)) with ⟨st1, _ | ⟨v, j⟩⟩
    · rw [hq] at h1
      simp only
      exact ⟨_, Chain.wrap_ext (st := proj st) (st1 := proj st1) (mid := []) (Ev.exit i) (Or.inl rfl) h1
        Chain.balanced_nil rfl (by simp) (by simp)⟩
    · rw [hq] at h1
      simp only
      have hsame := recoverWrite_same env (st1.ev (.recovered i j st1.w.status))
      exact ⟨_, Chain.wrap_ext (st := proj st) (st1 := proj st1) (mid := [Ev.recovered i j st1.w.status]) (Ev.exit i)
        (Or.inl rfl) h1 (Chain.balanced_recovered _ _ _) rfl (by simp [hsame.trace]) (by simp [hsame.idx])⟩
  | static o =>
    simp only [invoke]
    have hsame := ops_same (staticRun env c o st) (st.ev (.enter i))
    have h1 : Chain.Ext ((proj st).ev (.enter i)) (proj ((st.ev (.enter i)).ops (staticRun env c o st))) [] := by
      rw [← proj_ev]; exact text_of_same hsame
    exact ⟨_, Chain.wrap_ext (st := proj st) (mid := []) (Ev.exit i) (Or.inl rfl) h1
      Chain.balanced_nil rfl (by simp) (by simp)⟩
  | renderer vid =>
    simp only [invoke]
    have h1 : Chain.Ext ((proj st).ev (.enter i)) (proj ((st.ev (.enter i)).mapReq env.renderTy vid)) [] :=
      Chain.Ext.quiet rfl rfl
    exact ⟨_, Chain.wrap_ext (st := proj st) (mid := []) (Ev.exit i) (Or.inl rfl) h1
      Chain.balanced_nil rfl (by simp) (by simp)⟩

/-- every call of `run` extends the trace by events that start exactly the next slots, well bracketed -/
theorem run_text (env : Env) (c : Cfg) : ∀ f, TGood (run env c f) := by
  intro f
  induction f with
  | zero => intro st; exact ⟨[], Chain.Ext.refl _⟩
  | succ f ih =>
    intro st
    by_cases h1 : c.n < st.idx
    · rw [run_exhausted _ h1]; exact ⟨[], Chain.Ext.refl _⟩
    cases h2 : st.cancelled with
    | true => rw [run_cancelled _ h2]; exact ⟨[], Chain.Ext.refl _⟩
    | false =>
      cases hs : c.slot st.idx with
      | none =>
        rw [run_nil f h1 h2 hs]
        refine ⟨[Ev.nilact st.idx], ?_, ?_, ?_, Chain.balanced_nilact _⟩ <;> simp [Chain.starts, Chain.Ev.start]
      | some h =>
        obtain ⟨e1, hi⟩ := invoke_text env c ih st.idx h st.adv
        have key : ∀ st1, Chain.InvokeExt st.idx (proj st.adv) (proj st1) e1 → Chain.Ext (proj st) (proj st1) e1 := by
          intro st1 h
          have hi : st.idx + 1 ≤ st1.idx := h.idx
          refine ⟨h.tr, by simp; omega, ?_, h.bal⟩
          rw [h.st]
          simp only [proj_idx, St.adv_idx]
          have : st1.idx - st.idx = (st1.idx - (st.idx + 1)) + 1 := by omega
          rw [this, List.range'_succ]
        rcases hr : invoke env c (run env c f) st.idx h st.adv with ⟨st1, _ | p⟩
        · rw [hr] at hi
          cases hw : st1.w.written with
          | true => rw [run_stop f h1 h2 hs hr hw]; exact ⟨e1, key st1 hi⟩
          | false =>
            rw [run_loop f h1 h2 hs hr hw]
            obtain ⟨e2, h2⟩ := ih st1
            exact ⟨e1 ++ e2, (key st1 hi).trans h2⟩
        · rw [hr] at hi; rw [run_panic f h1 h2 hs hr]; exact ⟨e1, key st1 hi⟩

/-- the trace of a request: the events of the top-level `run`, plus `escaped` if a panic got out -/
theorem serveChain_text (env : Env) (c : Cfg) :
    ∃ evs st1 p, Chain.Ext (proj (c.st0 env)) (proj st1) evs ∧ (serveChain env c).trace = evs ++ Chain.escEv p := by
  obtain ⟨evs, h⟩ := run_text env c c.fuel (c.st0 env)
  rw [serveChain_eq]
  rcases hr : run env c c.fuel (c.st0 env) with ⟨st1, _ | ⟨v, j⟩⟩
  · rw [hr] at h
    have := h.tr
    exact ⟨evs, st1, none, h, by simpa [Chain.escEv, Cfg.st0] using this⟩
  · rw [hr] at h
    have := h.tr
    refine ⟨evs, st1, some (v, j), h, ?_⟩
    simp only [St.ev_trace, Chain.escEv]
    simp only [proj_trace] at this
    rw [this]
    simp [Cfg.st0]

end Flamego.AppFull
