/-
  Proofs/Register.lean — when does a registration succeed (helpers of Props/C08).

  1. classification facts: binds of a classified segment are pairwise distinct; a non-empty
     segment classifies the same as a node and as a leaf
  2. `PathInv`: along every path of the tree bind names are distinct and at most one node is a
     match-all; registration maintains it (`addRoute_pathInv`), so every built tree has it
  3. `addLeafTo` / `addNext` succeed iff `leafOK` / `nextOK` (the algorithm's own checks, no
     invariant needed)
  4. under the invariants, `nextOK` iff the route-only conditions `segsOK` and the tree-only
     conditions `WalkFree`
  5. `segsOK` iff `RouteOK` (lists only)
  6. `addRoute_ok_iff_validNew`
-/
import Flamego.Proofs.TreeAdd
import Flamego.Spec.Register
import Flamego.Spec.RouteGrammar
namespace Flamego

/-! ### 1. classification facts -/

theorem hasDup_false_iff (l : List Bytes) : hasDup l = false ↔ l.Nodup := by
  induction l with
  | nil => simp [hasDup]
  | cons b bs ih =>
    simp only [hasDup, Bool.or_eq_false_iff, ih, List.nodup_cons, List.contains_eq_mem,
      decide_eq_false_iff_not]

theorem any_contains_false_iff (l ab : List Bytes) :
    (l.any (ab.contains ·)) = false ↔ ∀ b ∈ l, b ∉ ab := by
  simp [List.any_eq_false]

theorem classifyRegex_binds_nodup {E : Engine} {s : Segment} {p : Pat}
    (h : classifyRegex E s = .ok p) : p.binds.Nodup := by
  unfold classifyRegex at h
  simp only [bind, Except.bind] at h
  split at h
  · cases h
  · rename_i res hres
    obtain ⟨pt, bs⟩ := res
    simp only at h
    split at h
    · cases h
    · rename_i hd
      split at h
      · cases h
      · simp only [pure, Except.pure, Except.ok.injEq] at h
        subst h
        simp only [Pat.binds]
        exact (hasDup_false_iff _).mp (by simpa using hd)

theorem classifyDynamic_binds_nodup {E : Engine} {s : Segment} {p : Pat}
    (h : classifyDynamic E s = .ok p) : p.binds.Nodup := by
  unfold classifyDynamic at h
  split at h
  · cases h; simp [Pat.binds]
  · split at h
    · cases h; simp [Pat.binds]
    · exact classifyRegex_binds_nodup h

theorem classifyTree_binds_nodup {E : Engine} {s : Segment} {p : Pat}
    (h : classifyTree E s = .ok p) : p.binds.Nodup := by
  unfold classifyTree at h
  split at h
  · cases h
  · split at h
    · cases h; simp [Pat.binds]
    · exact classifyDynamic_binds_nodup h

theorem classifyLeaf_binds_nodup {E : Engine} {s : Segment} {p : Pat}
    (h : classifyLeaf E s = .ok p) : p.binds.Nodup := by
  unfold classifyLeaf at h
  split at h
  · cases h; simp [Pat.binds]
  · split at h
    · cases h; simp [Pat.binds]
    · exact classifyDynamic_binds_nodup h

/-- "an inner segment is empty" is a classification error -/
theorem classifyTree_elems_ne_nil {E : Engine} {s : Segment} {p : Pat}
    (h : classifyTree E s = .ok p) : s.elems ≠ [] := by
  intro he
  simp [classifyTree, he] at h

/-- a non-empty segment gets the same pattern as a node and as a leaf -/
theorem classifyLeaf_eq_classifyTree {E : Engine} {s : Segment} (h : s.elems ≠ []) :
    classifyLeaf E s = classifyTree E s := by
  have : s.elems.isEmpty = false := by cases hs : s.elems <;> simp_all
  simp [classifyLeaf, classifyTree, this]

theorem treePat_eq_some {E : Engine} {s : Segment} {p : Pat} :
    treePat E s = some p ↔ classifyTree E s = .ok p := by
  unfold treePat; cases classifyTree E s <;> simp

theorem leafPat_eq_some {E : Engine} {s : Segment} {p : Pat} :
    leafPat E s = some p ↔ classifyLeaf E s = .ok p := by
  unfold leafPat; cases classifyLeaf E s <;> simp

theorem leafPat_eq_treePat {E : Engine} {s : Segment} (h : s.elems ≠ []) :
    leafPat E s = treePat E s := by
  unfold leafPat treePat; rw [classifyLeaf_eq_classifyTree h]

/-- a parsed segment with an element has a non-empty key -/
theorem parsedSeg_leafKey_ne_nil {s : Segment} (hp : ParsedSeg s = true) (he : s.elems ≠ []) :
    s.leafKey ≠ [] := by
  intro hk
  have h0 : ParsedSeg ⟨false, []⟩ = true := by decide
  exact he (parsedSeg_leafKey_inj hp h0 (by rw [hk]; rfl))

/-! `lastIsAll` versus "no element is a match-all" -/

theorem lastIsAll_false_of_forall {α : Type} (pat : α → Pat) (l : List α)
    (h : ∀ y ∈ l, (pat y).isAll = false) : lastIsAll pat l = false := by
  unfold lastIsAll
  cases hl : l.getLast? with
  | none => rfl
  | some x => exact h x (List.mem_of_getLast? hl)

theorem lastIsAll_false_iff {α : Type} (pat : α → Pat) (key : α → Bytes) (l : List α)
    (hinv : ListInv pat key l) : lastIsAll pat l = false ↔ ∀ y ∈ l, (pat y).isAll = false :=
  ⟨noAll_of_lastIsAll_false pat l hinv.oneAll, lastIsAll_false_of_forall pat l⟩

/-! ### 2. `PathInv`: binds distinct and at most one match-all node along every path -/

/-- `PathInv ab aa subs`: below a node whose ancestors-or-self bind `ab` and contain a match-all
    iff `aa`, no node binds a name of `ab` or of a node above it, and no node is a match-all
    under a match-all -/
inductive PathInv : List Bytes → Bool → List Node → Prop
  | mk (ab : List Bytes) (aa : Bool) (subs : List Node)
      (hb : ∀ k p cs cl, Node.mk k p cs cl ∈ subs → ∀ b ∈ p.binds, b ∉ ab)
      (ha : ∀ k p cs cl, Node.mk k p cs cl ∈ subs → p.isAll = true → aa = false)
      (hc : ∀ k p cs cl, Node.mk k p cs cl ∈ subs → PathInv (p.binds ++ ab) (aa || p.isAll) cs) :
      PathInv ab aa subs

theorem PathInv.binds {ab aa subs} (h : PathInv ab aa subs) {k p cs cl}
    (hm : Node.mk k p cs cl ∈ subs) : ∀ b ∈ p.binds, b ∉ ab := by
  cases h with | mk _ _ _ hb _ _ => exact hb k p cs cl hm
theorem PathInv.oneAll {ab aa subs} (h : PathInv ab aa subs) {k p cs cl}
    (hm : Node.mk k p cs cl ∈ subs) : p.isAll = true → aa = false := by
  cases h with | mk _ _ _ _ ha _ => exact ha k p cs cl hm
theorem PathInv.child {ab aa subs} (h : PathInv ab aa subs) {k p cs cl}
    (hm : Node.mk k p cs cl ∈ subs) : PathInv (p.binds ++ ab) (aa || p.isAll) cs := by
  cases h with | mk _ _ _ _ _ hc => exact hc k p cs cl hm
theorem PathInv.empty {ab aa} : PathInv ab aa [] :=
  .mk _ _ [] (fun _ _ _ _ h => by cases h) (fun _ _ _ _ h => by cases h) (fun _ _ _ _ h => by cases h)

theorem TreeInv.subsInv' {subs : List Node} {leaves : List Leaf} (h : TreeInv subs leaves) :
    ListInv Node.pat Node.key subs := by cases h; assumption
theorem TreeInv.leavesInv' {subs : List Node} {leaves : List Leaf} (h : TreeInv subs leaves) :
    ListInv Leaf.pat Leaf.key leaves := by cases h; assumption
theorem TreeInv.child' {subs : List Node} {leaves : List Leaf} (h : TreeInv subs leaves)
    {k p cs cl} (hm : Node.mk k p cs cl ∈ subs) : TreeInv cs cl := by
  cases h with | mk _ _ _ _ hc => exact hc k p cs cl hm

/-- members of `replaceNode`: the replacement (if a child had that key) or an old child -/
theorem replaceNode_mem_cases (subs : List Node) (key : Bytes) (n m : Node)
    (hm : m ∈ replaceNode subs key n) : m = n ∨ m ∈ subs := by
  unfold replaceNode at hm
  rw [List.mem_map] at hm
  obtain ⟨a, ha, e⟩ := hm
  by_cases hk : a.key = key
  · simp only [hk, ↓reduceIte] at e; exact Or.inl e.symm
  · simp only [hk, ↓reduceIte] at e; exact Or.inr (e ▸ ha)

theorem addNext_pathInv (E : Engine) (r : Route) (hid : Nat) :
    ∀ (segs : List Segment) (subs subs' : List Node) (leaves leaves' : List Leaf)
      (ab : List Bytes) (aa as short : Bool),
      PathInv ab aa subs →
      addNext E r hid segs subs leaves ab aa as = .ok (subs', leaves', short) →
      PathInv ab aa subs'
  | [], _, _, _, _, _, _, _, _, _, h => by rw [addNext] at h; cases h
  | [s], subs, subs', leaves, leaves', ab, aa, as, short, hinv, h => by
    obtain ⟨rfl, _, _⟩ := addNext_single_ok h
    exact hinv
  | s :: s2 :: rest, subs, subs', leaves, leaves', ab, aa, as, short, hinv, h => by
    obtain ⟨_, _, cpat, csubs, cleaves, csubs', cleaves', sh, as', hrec, _, hsub⟩ :=
      addNext_cons_ok h
    rcases hsub with ⟨hmem, rfl⟩ | ⟨_, _, rfl, rfl, hb, haa, _, rfl⟩
    · have hchild : PathInv (cpat.binds ++ ab) (aa || cpat.isAll) csubs' :=
        addNext_pathInv E r hid (s2 :: rest) _ _ _ _ _ _ _ _ (hinv.child hmem) hrec
      refine .mk _ _ _ ?_ ?_ ?_
      all_goals
        intro k p cs cl hm
        rcases replaceNode_mem_cases _ _ _ _ hm with heq | hm'
      · cases heq; exact hinv.binds hmem
      · exact hinv.binds hm'
      · cases heq; exact hinv.oneAll hmem
      · exact hinv.oneAll hm'
      · cases heq; exact hchild
      · exact hinv.child hm'
    · have hchild : PathInv (cpat.binds ++ ab) (aa || cpat.isAll) csubs' :=
        addNext_pathInv E r hid (s2 :: rest) _ _ _ _ _ _ _ _ PathInv.empty hrec
      refine .mk _ _ _ ?_ ?_ ?_
      all_goals
        intro k p cs cl hm
        rcases (insertByRank_mem _ _ _ _).mp hm with heq | hm'
      · cases heq; exact (any_contains_false_iff _ _).mp hb
      · exact hinv.binds hm'
      · cases heq
        intro hp; rw [hp] at haa; simpa using haa
      · exact hinv.oneAll hm'
      · cases heq; exact hchild
      · exact hinv.child hm'

theorem addRoute_pathInv {E : Engine} {t t' : Node} {r : Route} {hid : Nat}
    (hp : PathInv [] false t.subs) (h : addRoute E t r hid = .ok t') :
    PathInv [] false t'.subs := by
  obtain ⟨k, p, subs, leaves⟩ := t
  simp only [Node.subs] at hp
  rcases addRoute_ok h with ⟨_, _, _, _, _, _, _, rfl⟩ | ⟨_, _, _, _, _, rfl⟩ |
    ⟨s, s2, rest, subs', leaves', sh, hsegs, h1, rfl⟩
  · exact hp
  · exact hp
  · exact addNext_pathInv E r hid _ _ _ _ _ _ _ _ _ hp h1

/-- what every tree built by registrations of parsed routes satisfies -/
structure RegInv (E : Engine) (t : Node) : Prop where
  tree : TreeInv t.subs t.leaves
  keys : KeyInv E (fun s => ParsedSeg s = true) t.subs
  path : PathInv [] false t.subs

theorem RegInv.root (E : Engine) : RegInv E Node.root :=
  ⟨TreeInv.empty, KeyInv.empty, PathInv.empty⟩

theorem addRoute_regInv {E : Engine} {t t' : Node} {r : Route} {hid : Nat}
    (hinv : RegInv E t) (hP : ∀ s ∈ r.segs, ParsedSeg s = true)
    (h : addRoute E t r hid = .ok t') : RegInv E t' :=
  ⟨addRoute_inv hinv.tree h, addRoute_keyInv hinv.keys hP h, addRoute_pathInv hinv.path h⟩

theorem buildFrom_regInv (E : Engine) : ∀ (h : List (Route × Nat)) (t : Node),
    RegInv E t → (∀ rh ∈ h, ∀ s ∈ rh.1.segs, ParsedSeg s = true) → RegInv E (buildFrom E t h)
  | [], _, hinv, _ => hinv
  | rh :: h, t, hinv, hP => by
    rw [buildFrom]
    have hP' : ∀ x ∈ h, ∀ s ∈ x.1.segs, ParsedSeg s = true :=
      fun x hx => hP x (List.mem_cons_of_mem _ hx)
    cases hr : addRoute E t rh.1 rh.2 with
    | ok t' => exact buildFrom_regInv E h t' (addRoute_regInv hinv (hP rh (List.mem_cons_self ..)) hr) hP'
    | error e => exact buildFrom_regInv E h t hinv hP'

theorem build_regInv (E : Engine) (h : List (Route × Nat))
    (hP : ∀ rh ∈ h, ∀ s ∈ rh.1.segs, ParsedSeg s = true) : RegInv E (build E h) :=
  buildFrom_regInv E h Node.root (RegInv.root E) hP

/-! ### 3. the algorithm's own checks, as propositions -/

/-- what `addLeafTo` checks -/
def leafOK (E : Engine) (leaves : List Leaf) (ab : List Bytes) (s : Segment) : Prop :=
  (∀ l ∈ leaves, l.key ≠ s.leafKey) ∧
  ∃ p, classifyLeaf E s = .ok p ∧ (∀ b ∈ p.binds, b ∉ ab) ∧
    (p.isAll = true → lastIsAll Leaf.pat leaves = false)

theorem addLeafTo_isOk_iff {E : Engine} {leaves : List Leaf} {ab : List Bytes} {as : Bool}
    {r : Route} {s : Segment} {hid : Nat} {long : Bool} :
    (∃ leaves', addLeafTo E leaves ab as r s hid long = .ok leaves') ↔ leafOK E leaves ab s := by
  constructor
  · rintro ⟨leaves', h⟩
    obtain ⟨p, hp, hfresh, hb, ha, _⟩ := addLeafTo_ok h
    refine ⟨hfresh, p, hp, (any_contains_false_iff _ _).mp hb, ?_⟩
    intro hpa; rw [hpa] at ha; simpa using ha
  · rintro ⟨hfresh, p, hp, hb, ha⟩
    have h1 : leaves.any (fun l => decide (l.key = s.leafKey)) = false := by
      rw [List.any_eq_false]; intro l hl; simpa using hfresh l hl
    have h2 : p.binds.any (ab.contains ·) = false := (any_contains_false_iff _ _).mpr hb
    have h3 : (p.isAll && lastIsAll Leaf.pat leaves) = false := by
      cases hpa : p.isAll with
      | false => rfl
      | true => simpa using ha hpa
    simp only [addLeafTo, h1, hp, h2, h3, Bool.false_eq_true, ↓reduceIte]
    exact ⟨_, rfl⟩

/-- the flag a successful `addNext` returns -/
def lastOpt : List Segment → Bool
  | [s] => s.optional
  | _ => false

theorem addNext_flag_eq {E : Engine} {r : Route} {hid : Nat} {segs : List Segment}
    {subs subs' : List Node} {leaves leaves' : List Leaf} {ab : List Bytes} {aa as short : Bool}
    (h : addNext E r hid segs subs leaves ab aa as = .ok (subs', leaves', short)) :
    short = lastOpt segs := by
  match segs with
  | [] => rw [addNext] at h; cases h
  | [s] => exact (addNext_flag h).1 rfl |>.1
  | s :: s2 :: rest => exact (addNext_flag h).2 (by simp)

/-- what `addNext` checks on its way down (with its accumulators `ab`, `aa`) -/
def nextOK (E : Engine) : List Segment → List Node → List Leaf → List Bytes → Bool → Prop
  | [], _, _, _, _ => False
  | [s], _, leaves, ab, _ => leafOK E leaves ab s
  | s :: s2 :: rest, subs, leaves, ab, aa =>
    s.optional = false ∧
    (match subs.find? (fun n => decide (n.key = s.render)) with
     | some (.mk _ cpat csubs cleaves) =>
       nextOK E (s2 :: rest) csubs cleaves (cpat.binds ++ ab) (aa || cpat.isAll)
     | none => ∃ cpat, classifyTree E s = .ok cpat ∧ (∀ b ∈ cpat.binds, b ∉ ab) ∧
         (cpat.isAll = true → aa = false) ∧ (cpat.isAll = true → lastIsAll Node.pat subs = false) ∧
         nextOK E (s2 :: rest) [] [] (cpat.binds ++ ab) (aa || cpat.isAll)) ∧
    (lastOpt (s2 :: rest) = true → leafOK E leaves ab s)

/-- the tail of both branches of `addNext`: the recursive call, then the short form if asked -/
theorem short_step_isOk {E : Engine} {r : Route} {hid : Nat} {s : Segment} {segs : List Segment}
    {leaves : List Leaf} {ab : List Bytes} {as : Bool}
    (rec : Except RegErr (List Node × List Leaf × Bool))
    (hflag : ∀ cs' cl' sh, rec = .ok (cs', cl', sh) → sh = lastOpt segs)
    (f : List Node → List Leaf → List Node) :
    (∃ res, (rec >>= fun x =>
        if x.2.2 = true then
          addLeafTo E leaves ab as r s hid false >>= fun leaves' =>
            (pure (f x.1 x.2.1, leaves', false) : Except RegErr (List Node × List Leaf × Bool))
        else
          (pure leaves : Except RegErr (List Leaf)) >>= fun leaves' =>
            (pure (f x.1 x.2.1, leaves', false) : Except RegErr (List Node × List Leaf × Bool))) = .ok res) ↔
    (∃ res, rec = .ok res) ∧
      (lastOpt segs = true → ∃ l', addLeafTo E leaves ab as r s hid false = .ok l') := by
  cases hrec : rec with
  | error e => simp [bind, Except.bind]
  | ok res =>
    obtain ⟨cs', cl', sh⟩ := res
    have hsh := hflag cs' cl' sh hrec
    subst hsh
    simp only [bind, Except.bind, pure, Except.pure]
    cases hl : lastOpt segs with
    | false => simp
    | true =>
      simp only [↓reduceIte]
      cases addLeafTo E leaves ab as r s hid false with
      | error e => simp
      | ok l' => simp

theorem addNext_isOk_iff (E : Engine) (r : Route) (hid : Nat) :
    ∀ (segs : List Segment) (subs : List Node) (leaves : List Leaf) (ab : List Bytes) (aa as : Bool),
      (∃ res, addNext E r hid segs subs leaves ab aa as = .ok res) ↔ nextOK E segs subs leaves ab aa
  | [], _, _, _, _, _ => by simp [addNext, nextOK]
  | [s], subs, leaves, ab, aa, as => by
    rw [nextOK, ← addLeafTo_isOk_iff (as := as) (r := r) (hid := hid) (long := true)]
    constructor
    · rintro ⟨⟨subs', leaves', sh⟩, h⟩
      exact ⟨leaves', (addNext_single_ok h).2.2⟩
    · rintro ⟨leaves', h⟩
      exact ⟨(subs, leaves', s.optional), by simp [addNext, h, bind, Except.bind, pure, Except.pure]⟩
  | s :: s2 :: rest, subs, leaves, ab, aa, as => by
    rw [addNext, nextOK]
    by_cases hopt : s.optional = true
    · simp [hopt]
    · have hopt' : s.optional = false := by simpa using hopt
      simp only [hopt', Bool.false_eq_true, ↓reduceIte, true_and]
      rw [← addLeafTo_isOk_iff (as := as) (r := r) (hid := hid) (long := false)]
      cases hfind : List.find? (fun x => decide (x.key = s.render)) subs with
      | some c =>
        obtain ⟨ckey, cpat, csubs, cleaves⟩ := c
        simp only []
        refine Iff.trans (short_step_isOk _ (fun _ _ _ h => addNext_flag_eq h)
          (fun a b => replaceNode subs ckey (.mk ckey cpat a b))) ?_
        rw [addNext_isOk_iff E r hid]
      | none =>
        simp only []
        cases hc : classifyTree E s with
        | error e => simp
        | ok cpat =>
          simp only [Except.ok.injEq, exists_eq_left']
          rw [← any_contains_false_iff]
          cases hb : cpat.binds.any (fun x => ab.contains x) with
          | true => simp
          | false =>
            cases hpa : cpat.isAll with
            | false =>
              simp only [Bool.false_and, Bool.false_eq_true, ↓reduceIte, false_implies, true_and]
              refine Iff.trans (short_step_isOk _ (fun _ _ _ h => addNext_flag_eq h)
                (fun a b => insertByRank (fun n => n.pat.rank) (.mk s.render cpat a b) subs)) ?_
              rw [addNext_isOk_iff E r hid]
            | true =>
              cases haa : aa with
              | true => simp
              | false =>
                cases hla : lastIsAll Node.pat subs with
                | true => simp
                | false =>
                  simp only [Bool.true_and, Bool.false_eq_true, ↓reduceIte, true_implies, true_and]
                  refine Iff.trans (short_step_isOk _ (fun _ _ _ h => addNext_flag_eq h)
                    (fun a b => insertByRank (fun n => n.pat.rank) (.mk s.render cpat a b) subs)) ?_
                  rw [addNext_isOk_iff E r hid]

/-! ### 4. splitting `nextOK` into the route-only and the tree-only conditions -/

/-- the route-only part of `nextOK`, read along `inner ++ [last]` -/
def segsOK (E : Engine) (last : Segment) : List Segment → List Bytes → Bool → Prop
  | [], ab, _ => ∃ p, classifyLeaf E last = .ok p ∧ ∀ b ∈ p.binds, b ∉ ab
  | s :: inner, ab, aa =>
    s.optional = false ∧ ∃ p, classifyTree E s = .ok p ∧ (∀ b ∈ p.binds, b ∉ ab) ∧
      (p.isAll = true → aa = false) ∧ segsOK E last inner (p.binds ++ ab) (aa || p.isAll)

theorem lastOpt_snoc (inner : List Segment) (last : Segment) :
    lastOpt (inner ++ [last]) = true ↔ inner = [] ∧ last.optional = true := by
  cases inner with
  | nil => simp [lastOpt]
  | cons x inner' => cases inner' <;> simp [lastOpt]

theorem nextOK_cons (E : Engine) (s : Segment) (inner : List Segment) (last : Segment)
    (subs : List Node) (leaves : List Leaf) (ab : List Bytes) (aa : Bool) :
    nextOK E (s :: (inner ++ [last])) subs leaves ab aa ↔
      s.optional = false ∧
      (match subs.find? (fun n => decide (n.key = s.render)) with
       | some (.mk _ cpat csubs cleaves) =>
         nextOK E (inner ++ [last]) csubs cleaves (cpat.binds ++ ab) (aa || cpat.isAll)
       | none => ∃ cpat, classifyTree E s = .ok cpat ∧ (∀ b ∈ cpat.binds, b ∉ ab) ∧
           (cpat.isAll = true → aa = false) ∧ (cpat.isAll = true → lastIsAll Node.pat subs = false) ∧
           nextOK E (inner ++ [last]) [] [] (cpat.binds ++ ab) (aa || cpat.isAll)) ∧
      (lastOpt (inner ++ [last]) = true → leafOK E leaves ab s) := by
  cases inner with
  | nil => simp only [List.nil_append, nextOK]
  | cons x inner' => simp only [List.cons_append, nextOK]

/-- in fresh territory nothing can clash -/
theorem WalkFree_nil (E : Engine) (last : Segment) : ∀ inner, WalkFree E last inner [] []
  | [] => by simp [WalkFree, LeafFree]
  | s :: inner => by simp [WalkFree, LeafFree]

/-- `addLeafTo`'s checks: a leaf pattern whose binds are new, and a free place -/
theorem leafOK_iff {E : Engine} {leaves : List Leaf} {ab : List Bytes} {s : Segment}
    (hinv : ListInv Leaf.pat Leaf.key leaves) :
    leafOK E leaves ab s ↔
      (∃ p, classifyLeaf E s = .ok p ∧ ∀ b ∈ p.binds, b ∉ ab) ∧ LeafFree E leaves s := by
  unfold leafOK LeafFree
  constructor
  · rintro ⟨hk, p, hp, hb, ha⟩
    refine ⟨⟨p, hp, hb⟩, hk, ?_⟩
    rw [leafPat_eq_some.mpr hp]
    intro hpa
    exact (lastIsAll_false_iff _ _ _ hinv).mp (ha hpa)
  · rintro ⟨⟨p, hp, hb⟩, hk, ha⟩
    refine ⟨hk, p, hp, hb, fun hpa => ?_⟩
    rw [leafPat_eq_some.mpr hp] at ha
    exact (lastIsAll_false_iff _ _ _ hinv).mpr (ha hpa)

theorem nextOK_iff (E : Engine) (last : Segment) :
    ∀ (inner : List Segment) (subs : List Node) (leaves : List Leaf) (ab : List Bytes) (aa : Bool),
      (∀ s ∈ inner, ParsedSeg s = true) → TreeInv subs leaves →
      KeyInv E (fun s => ParsedSeg s = true) subs → PathInv ab aa subs →
      (nextOK E (inner ++ [last]) subs leaves ab aa ↔
        segsOK E last inner ab aa ∧ WalkFree E last inner subs leaves)
  | [], subs, leaves, ab, aa, _, hT, _, _ => by
    simp only [List.nil_append, nextOK, segsOK, WalkFree]
    exact leafOK_iff hT.leavesInv'
  | s :: inner, subs, leaves, ab, aa, hP, hT, hK, hPI => by
    have hPs : ParsedSeg s = true := hP s (List.mem_cons_self ..)
    have hP' : ∀ x ∈ inner, ParsedSeg x = true := fun x hx => hP x (List.mem_cons_of_mem _ hx)
    rw [List.cons_append, nextOK_cons, segsOK, WalkFree, lastOpt_snoc]
    -- the short form, once `s` is known to classify as `cpat` with binds new w.r.t. `ab`
    have hshort : ∀ cpat, classifyTree E s = .ok cpat → (∀ b ∈ cpat.binds, b ∉ ab) →
        (leafOK E leaves ab s ↔ LeafFree E leaves s) := by
      intro cpat hct hb
      rw [leafOK_iff hT.leavesInv', classifyLeaf_eq_classifyTree (classifyTree_elems_ne_nil hct)]
      exact ⟨fun h => h.2, fun h => ⟨⟨cpat, hct, hb⟩, h⟩⟩
    cases hfind : List.find? (fun n => decide (n.key = s.render)) subs with
    | some c =>
      obtain ⟨ck, cpat, cs, cl⟩ := c
      have hmem := List.mem_of_find?_eq_some hfind
      have hkey : ck = s.render := by
        have := List.find?_some hfind
        exact of_decide_eq_true this
      obtain ⟨s', hs', hr', hct'⟩ := hK.witness hmem
      have hss : s' = s := parsedSeg_render_inj hs' hPs (hr'.trans hkey)
      subst hss
      have hb := hPI.binds hmem
      have ha := hPI.oneAll hmem
      have ih := nextOK_iff E last inner cs cl (cpat.binds ++ ab) (aa || cpat.isAll) hP'
        (hT.child' hmem) (hK.child hmem) (hPI.child hmem)
      simp only [Node.subs, Node.leaves, hct', Except.ok.injEq, exists_eq_left']
      rw [ih]
      constructor
      · rintro ⟨h1, ⟨h2, h3⟩, h4⟩
        exact ⟨⟨h1, hb, ha, h2⟩, h3, fun hi ho => (hshort cpat hct' hb).mp (h4 ⟨hi, ho⟩)⟩
      · rintro ⟨⟨h1, _, _, h2⟩, h3, h4⟩
        exact ⟨h1, ⟨h2, h3⟩, fun ⟨hi, ho⟩ => (hshort cpat hct' hb).mpr (h4 hi ho)⟩
    | none =>
      simp only []
      cases hct : classifyTree E s with
      | error e => simp
      | ok cpat =>
        have ih := nextOK_iff E last inner [] [] (cpat.binds ++ ab) (aa || cpat.isAll) hP'
          TreeInv.empty KeyInv.empty PathInv.empty
        simp only [Except.ok.injEq, exists_eq_left', treePat_eq_some.mpr hct, optIsAll]
        rw [ih, lastIsAll_false_iff _ _ _ hT.subsInv']
        constructor
        · rintro ⟨h1, ⟨hb, ha, hl, h2, _⟩, h4⟩
          exact ⟨⟨h1, hb, ha, h2⟩, hl, fun hi ho => (hshort cpat hct hb).mp (h4 ⟨hi, ho⟩)⟩
        · rintro ⟨⟨h1, hb, ha, h2⟩, hl, h4⟩
          exact ⟨h1, ⟨hb, ha, hl, h2, WalkFree_nil E last inner⟩,
            fun ⟨hi, ho⟩ => (hshort cpat hct hb).mpr (h4 hi ho)⟩

/-! ### 5. `segsOK` as conditions on the lists -/

theorem bindsAlong_cons (E : Engine) (s : Segment) (inner : List Segment) (last : Segment) :
    bindsAlong E (s :: inner) last = optBinds (treePat E s) ++ bindsAlong E inner last := by
  simp [bindsAlong, List.flatMap_cons, List.append_assoc]

/-- the number of match-all nodes among `inner`, plus one if an ancestor is one -/
def allCount (E : Engine) (inner : List Segment) (aa : Bool) : Nat :=
  (inner.filter (fun s => optIsAll (treePat E s))).length + (if aa then 1 else 0)

theorem segsOK_iff (E : Engine) (last : Segment) :
    ∀ (inner : List Segment) (ab : List Bytes) (aa : Bool),
      segsOK E last inner ab aa ↔
        (∀ s ∈ inner, s.optional = false) ∧ (∀ s ∈ inner, (treePat E s).isSome = true) ∧
        (leafPat E last).isSome = true ∧ (bindsAlong E inner last).Nodup ∧
        (∀ b ∈ bindsAlong E inner last, b ∉ ab) ∧ allCount E inner aa ≤ 1
  | [], ab, aa => by
    simp only [segsOK, bindsAlong, allCount, List.flatMap_nil, List.nil_append, List.filter_nil,
      List.length_nil, List.not_mem_nil, false_implies, implies_true, true_and]
    cases hc : classifyLeaf E last with
    | error e => simp [leafPat, hc]
    | ok p =>
      have := classifyLeaf_binds_nodup hc
      cases aa <;> simp [leafPat, hc, optBinds, this]
  | s :: inner, ab, aa => by
    rw [segsOK, bindsAlong_cons]
    cases hct : classifyTree E s with
    | error e =>
      have : treePat E s = none := by simp [treePat, hct]
      simp [this]
    | ok p =>
      have hp : treePat E s = some p := treePat_eq_some.mpr hct
      have hnd := classifyTree_binds_nodup hct
      simp only [Except.ok.injEq, exists_eq_left', segsOK_iff E last inner, hp, optBinds,
        List.forall_mem_cons, Option.isSome_some, true_and, List.nodup_append, List.mem_append,
        allCount, List.filter_cons, optIsAll]
      have hcount : ((p.isAll = true → aa = false) ∧
          (inner.filter (fun s => optIsAll (treePat E s))).length + (if (aa || p.isAll) = true then 1 else 0) ≤ 1) ↔
          (if p.isAll = true then s :: inner.filter (fun s => optIsAll (treePat E s))
            else inner.filter (fun s => optIsAll (treePat E s))).length + (if aa = true then 1 else 0) ≤ 1 := by
        cases p.isAll <;> cases aa <;> simp <;> omega
      constructor
      · rintro ⟨h1, hb, ha, h2, h3, h4, h5, h6, h7⟩
        refine ⟨⟨h1, h2⟩, h3, h4, ⟨hnd, h5, fun a ha' b hb' e => h6 b hb' (Or.inl (e ▸ ha'))⟩, ?_, hcount.mp ⟨ha, h7⟩⟩
        rintro b (hb' | hb')
        · exact hb b hb'
        · exact fun hm => h6 b hb' (Or.inr hm)
      · rintro ⟨⟨h1, h2⟩, h3, h4, ⟨_, h5, h6⟩, h7, h8⟩
        obtain ⟨ha, h9⟩ := hcount.mpr h8
        refine ⟨h1, fun b hb' => h7 b (Or.inl hb'), ha, h2, h3, h4, h5, ?_, h9⟩
        intro b hb' hm
        rcases hm with hm | hm
        · exact h6 b hm b hb' rfl
        · exact h7 b (Or.inr hb') hm

theorem routeOK_iff (E : Engine) (inner : List Segment) (last : Segment) :
    RouteOK E inner last ↔ segsOK E last inner [] false := by
  rw [segsOK_iff]
  constructor
  · intro h
    exact ⟨h.innerNotOptional, h.innerClassify, h.lastClassify, h.bindsDistinct, by simp,
      by simpa [allCount] using h.oneMatchAll⟩
  · rintro ⟨h1, h2, h3, h4, _, h6⟩
    have hne : ∀ s ∈ inner, s.elems ≠ [] := by
      intro s hs
      have := h2 s hs
      cases hp : treePat E s with
      | none => rw [hp] at this; cases this
      | some p => exact classifyTree_elems_ne_nil (treePat_eq_some.mp hp)
    refine ⟨h1, hne, h2, h3, h4, by simpa [allCount] using h6, ?_⟩
    intro _ init prev hi
    have hprev : prev ∈ inner := by rw [hi]; simp
    have hlp := leafPat_eq_treePat (E := E) (hne prev hprev)
    refine ⟨by rw [hlp]; exact h2 prev hprev, ?_⟩
    have : bindsAlong E inner last = bindsAlong E init prev ++ optBinds (leafPat E last) := by
      simp [bindsAlong, hi, hlp, List.flatMap_append]
    rw [this] at h4
    exact (List.nodup_append.mp h4).1

/-! ### 6. `addRoute` succeeds iff `ValidNew` -/

theorem snoc_cases {α : Type} : ∀ (l : List α), l = [] ∨ ∃ init last, l = init ++ [last]
  | [] => Or.inl rfl
  | [a] => Or.inr ⟨[], a, rfl⟩
  | a :: b :: l => by
    rcases snoc_cases (b :: l) with h | ⟨init, last, h⟩
    · cases h
    · exact Or.inr ⟨a :: init, last, by rw [h]; rfl⟩

/-- `ValidNew` once the decomposition of the route is known -/
theorem validNew_iff_of_snoc {E : Engine} {t : Node} {r : Route} {inner : List Segment}
    {last : Segment} (h : r.segs = inner ++ [last]) :
    ValidNew E t r ↔ RouteOK E inner last ∧ WalkFree E last inner t.subs t.leaves ∧
      (inner = [] → last.optional = true → last.elems ≠ [] → ∀ l ∈ t.leaves, l.key ≠ []) := by
  constructor
  · rintro ⟨inner', last', h', h1, h2, h3⟩
    rw [h] at h'
    obtain ⟨e1, e2⟩ := List.append_inj' h' rfl
    cases e2; subst e1
    exact ⟨h1, h2, h3⟩
  · rintro ⟨h1, h2, h3⟩
    exact ⟨inner, last, h, h1, h2, h3⟩

theorem addRoute_multi_isOk {E : Engine} {k : Bytes} {p : Pat} {subs : List Node}
    {leaves : List Leaf} {r : Route} {hid : Nat} {s : Segment} {inner : List Segment}
    {last : Segment} (h : r.segs = s :: (inner ++ [last])) :
    (∃ t', addRoute E (.mk k p subs leaves) r hid = .ok t') ↔
      ∃ res, addNext E r hid (s :: (inner ++ [last])) subs leaves [] false true = .ok res := by
  have hne : ∀ x, s :: (inner ++ [last]) ≠ [x] := by cases inner <;> simp
  simp only [addRoute]
  rw [h]
  split
  · rename_i x hx; exact absurd hx (hne x)
  · simp only [bind, Except.bind, pure, Except.pure]
    cases addNext E r hid (s :: (inner ++ [last])) subs leaves [] false true with
    | error e => simp
    | ok res => simp

/-- a route of one segment: the leaf on the root, and for "/?x" also the root path "/" -/
theorem addRoute_single_isOk {E : Engine} {k : Bytes} {p : Pat} {subs : List Node}
    {leaves : List Leaf} {r : Route} {hid : Nat} {s : Segment} (h : r.segs = [s])
    (hP : ParsedSeg s = true) (hinv : ListInv Leaf.pat Leaf.key leaves) :
    (∃ t', addRoute E (.mk k p subs leaves) r hid = .ok t') ↔
      leafOK E leaves [] s ∧
        (s.optional = true → s.elems ≠ [] → ∀ l ∈ leaves, l.key ≠ []) := by
  have hcond : (s.optional && !s.elems.isEmpty) = true ↔ (s.optional = true ∧ s.elems ≠ []) := by
    cases s.optional <;> cases hs : s.elems <;> simp
  constructor
  · rintro ⟨t', ht⟩
    rcases addRoute_ok ht with ⟨s', l1, l2, hs, hopt, h1, h2, _⟩ | ⟨s', l, hs, hopt, h1, _⟩ |
      ⟨s', s2, rest, _, _, _, hs, _, _⟩
    · rw [h] at hs; cases hs
      obtain ⟨p1, hp1, hk1, _, _, hl1⟩ := addLeafTo_ok h1
      have hinv1 := addLeafTo_inv hinv h1
      obtain ⟨hk2, p2, hp2, hb2, ha2⟩ := addLeafTo_isOk_iff.mp ⟨l2, h2⟩
      have hsub : ∀ l ∈ leaves, l ∈ l1 := fun l hl => by
        rw [hl1, insertByRank_mem]; exact Or.inr hl
      refine ⟨⟨fun l hl => hk2 l (hsub l hl), p2, hp2, hb2, fun hpa => ?_⟩, fun _ _ => hk1⟩
      exact lastIsAll_false_of_forall _ _ fun y hy =>
        (lastIsAll_false_iff _ _ _ hinv1).mp (ha2 hpa) y (hsub y hy)
    · rw [h] at hs; cases hs
      refine ⟨addLeafTo_isOk_iff.mp ⟨l, h1⟩, fun ho he => ?_⟩
      have := hcond.mpr ⟨ho, he⟩
      rw [this] at hopt; cases hopt
    · rw [h] at hs; cases hs
  · rintro ⟨hl, hroot⟩
    obtain ⟨l0, h0⟩ := addLeafTo_isOk_iff (as := true) (r := r) (hid := hid) (long := true) |>.mpr hl
    by_cases hopt : (s.optional && !s.elems.isEmpty) = true
    · obtain ⟨ho, he⟩ := hcond.mp hopt
      have hshort : leafOK E leaves [] ⟨false, []⟩ :=
        ⟨hroot ho he, .static [], classifyLeaf_empty E false, by simp [Pat.binds], by simp [Pat.isAll]⟩
      obtain ⟨l1, h1⟩ := addLeafTo_isOk_iff (as := true) (r := r) (hid := hid) (long := false) |>.mpr hshort
      obtain ⟨p1, hp1, _, _, _, hl1⟩ := addLeafTo_ok h1
      rw [classifyLeaf_empty] at hp1; cases hp1
      obtain ⟨hk, ps, hps, hb, ha⟩ := hl
      have hmem : ∀ l ∈ l1, l ∈ leaves ∨ (l.key = [] ∧ l.pat.isAll = false) := by
        intro l hm
        rw [hl1, insertByRank_mem] at hm
        rcases hm with rfl | hm
        · exact Or.inr ⟨rfl, rfl⟩
        · exact Or.inl hm
      have hlong : leafOK E l1 [] s := by
        refine ⟨fun l hm => ?_, ps, hps, hb, fun hpa => lastIsAll_false_of_forall _ _ fun y hy => ?_⟩
        · rcases hmem l hm with hm' | ⟨hk', _⟩
          · exact hk l hm'
          · rw [hk']; exact fun e => parsedSeg_leafKey_ne_nil hP he e.symm
        · rcases hmem y hy with hm' | ⟨_, hna⟩
          · exact (lastIsAll_false_iff _ _ _ hinv).mp (ha hpa) y hm'
          · exact hna
      obtain ⟨l2, h2⟩ := addLeafTo_isOk_iff (as := true) (r := r) (hid := hid) (long := true) |>.mpr hlong
      exact ⟨_, by simp only [addRoute, h, hopt, ↓reduceIte, bind, Except.bind, h0, h1, h2]; rfl⟩
    · exact ⟨_, by simp only [addRoute, h, hopt, bind, Except.bind, h0]; rfl⟩

/-- **registration succeeds exactly on `ValidNew`** (tree built by registrations of parsed
    routes, new route parsed) -/
theorem addRoute_ok_iff_validNew {E : Engine} {t : Node} {r : Route} {hid : Nat}
    (hinv : RegInv E t) (hP : ∀ s ∈ r.segs, ParsedSeg s = true) :
    (∃ t', addRoute E t r hid = .ok t') ↔ ValidNew E t r := by
  obtain ⟨k, p, subs, leaves⟩ := t
  obtain ⟨hT, hK, hPI⟩ := hinv
  simp only [Node.subs, Node.leaves] at hT hK hPI
  rcases snoc_cases r.segs with h | ⟨inner, last, h⟩
  · constructor
    · rintro ⟨t', ht⟩
      rcases addRoute_ok ht with ⟨_, _, _, hs, _⟩ | ⟨_, _, hs, _⟩ | ⟨_, _, _, _, _, _, hs, _⟩ <;>
        (rw [h] at hs; cases hs)
    · rintro ⟨inner, last, h', _⟩
      rw [h] at h'; cases inner <;> cases h'
  · rw [validNew_iff_of_snoc h]
    simp only [Node.subs, Node.leaves]
    have hPl : ParsedSeg last = true := hP last (by rw [h]; simp)
    have hPi : ∀ s ∈ inner, ParsedSeg s = true := fun s hs => hP s (by rw [h]; simp [hs])
    cases inner with
    | nil =>
      rw [addRoute_single_isOk (by simpa using h) hPl hT.leavesInv', routeOK_iff,
        leafOK_iff hT.leavesInv']
      simp only [segsOK, WalkFree, true_implies, and_assoc]
    | cons s inner =>
      rw [addRoute_multi_isOk (by simpa using h), addNext_isOk_iff,
        ← List.cons_append, nextOK_iff E last (s :: inner) subs leaves [] false hPi hT hK hPI,
        routeOK_iff]
      simp

/-! ### 7. what a successful registration leaves in the tree: `WalkHas` -/

/-- the tree has the whole path `inner` and, at its end, a leaf with key `key` -/
def WalkHas (key : Bytes) : List Segment → List Node → List Leaf → Prop
  | [], _, leaves => ∃ l ∈ leaves, l.key = key
  | s :: inner, subs, _ => ∃ k p cs cl, Node.mk k p cs cl ∈ subs ∧ k = s.render ∧ WalkHas key inner cs cl

theorem find?_key_of_mem {subs : List Node} (hk : subs.Pairwise (fun a b => a.key ≠ b.key))
    {c : Node} (hm : c ∈ subs) {k : Bytes} (hkey : c.key = k) :
    subs.find? (fun n => decide (n.key = k)) = some c := by
  cases hf : subs.find? (fun n => decide (n.key = k)) with
  | none =>
    have := List.find?_eq_none.mp hf c hm
    simp [hkey] at this
  | some c' =>
    have h1 := List.mem_of_find?_eq_some hf
    have h2' := List.find?_some hf
    have h2 : c'.key = k := of_decide_eq_true h2'
    rw [eq_of_key_eq Node.key subs hk c' h1 c hm (h2.trans hkey.symm)]

theorem mem_replaceNode_self {subs : List Node} {key : Bytes} {n : Node}
    (h : ∃ m ∈ subs, m.key = key) : n ∈ replaceNode subs key n := by
  obtain ⟨m, hm, hk⟩ := h
  unfold replaceNode
  exact List.mem_map.mpr ⟨m, hm, by simp [hk]⟩

theorem mem_replaceNode_of_ne {subs : List Node} {key : Bytes} {n m : Node}
    (hm : m ∈ subs) (hk : m.key ≠ key) : m ∈ replaceNode subs key n := by
  unfold replaceNode
  exact List.mem_map.mpr ⟨m, hm, by simp [hk]⟩

theorem addLeafTo_has_key {E : Engine} {leaves leaves' : List Leaf} {ab : List Bytes} {as : Bool}
    {r : Route} {s : Segment} {hid : Nat} {long : Bool}
    (h : addLeafTo E leaves ab as r s hid long = .ok leaves') : ∃ l ∈ leaves', l.key = s.leafKey := by
  obtain ⟨p, _, hmem⟩ := addLeafTo_mem h
  exact ⟨_, (hmem _).mpr (Or.inr rfl), rfl⟩

theorem addLeafTo_subset {E : Engine} {leaves leaves' : List Leaf} {ab : List Bytes} {as : Bool}
    {r : Route} {s : Segment} {hid : Nat} {long : Bool}
    (h : addLeafTo E leaves ab as r s hid long = .ok leaves') : ∀ l ∈ leaves, l ∈ leaves' := by
  obtain ⟨p, _, hmem⟩ := addLeafTo_mem h
  exact fun l hl => (hmem l).mpr (Or.inl hl)

/-- later registrations never remove a path or a leaf -/
theorem addNext_walkHas_mono (E : Engine) (r : Route) (hid : Nat) :
    ∀ (segs : List Segment) (subs subs' : List Node) (leaves leaves' : List Leaf)
      (ab : List Bytes) (aa as short : Bool),
      TreeInv subs leaves →
      addNext E r hid segs subs leaves ab aa as = .ok (subs', leaves', short) →
      ∀ key path, WalkHas key path subs leaves → WalkHas key path subs' leaves'
  | [], _, _, _, _, _, _, _, _, _, h => by rw [addNext] at h; cases h
  | [s], subs, subs', leaves, leaves', ab, aa, as, short, _, h => by
    obtain ⟨rfl, _, hl⟩ := addNext_single_ok h
    intro key path hw
    cases path with
    | nil => obtain ⟨l, hm, hk⟩ := hw; exact ⟨l, addLeafTo_subset hl l hm, hk⟩
    | cons x path => exact hw
  | s :: s2 :: rest, subs, subs', leaves, leaves', ab, aa, as, short, hinv, h => by
    obtain ⟨_, _, cpat, csubs, cleaves, csubs', cleaves', sh, as', hrec, hlv, hsub⟩ :=
      addNext_cons_ok h
    intro key path hw
    cases path with
    | nil =>
      obtain ⟨l, hm, hk⟩ := hw
      rcases hlv with ⟨_, hl⟩ | ⟨_, rfl⟩
      · exact ⟨l, addLeafTo_subset hl l hm, hk⟩
      · exact ⟨l, hm, hk⟩
    | cons x path =>
      obtain ⟨k, p, cs, cl, hm, hk, hw'⟩ := hw
      rcases hsub with ⟨hmem, rfl⟩ | ⟨_, _, rfl, rfl, _, _, _, rfl⟩
      · by_cases hks : k = s.render
        · have := eq_of_key_eq Node.key subs hinv.subsInv'.keys _ hm _ hmem hks
          cases this
          have ih := addNext_walkHas_mono E r hid (s2 :: rest) _ _ _ _ _ _ _ _ (hinv.child' hmem) hrec
            key path hw'
          exact ⟨_, _, _, _, mem_replaceNode_self ⟨_, hmem, rfl⟩, hk, ih⟩
        · exact ⟨k, p, cs, cl, mem_replaceNode_of_ne hm hks, hk, hw'⟩
      · exact ⟨k, p, cs, cl, (insertByRank_mem _ _ _ _).mpr (Or.inr hm), hk, hw'⟩

/-- after a successful `addNext` the path of the route exists and ends in its leaf -/
theorem addNext_walkHas_long (E : Engine) (r : Route) (hid : Nat) :
    ∀ (segs : List Segment) (subs subs' : List Node) (leaves leaves' : List Leaf)
      (ab : List Bytes) (aa as short : Bool),
      addNext E r hid segs subs leaves ab aa as = .ok (subs', leaves', short) →
      ∀ inner last, segs = inner ++ [last] → WalkHas last.leafKey inner subs' leaves'
  | [], _, _, _, _, _, _, _, _, h => by rw [addNext] at h; cases h
  | [s], subs, subs', leaves, leaves', ab, aa, as, short, h => by
    obtain ⟨rfl, _, hl⟩ := addNext_single_ok h
    intro inner last he
    cases inner with
    | nil => cases he; exact addLeafTo_has_key hl
    | cons x inner => cases inner <;> cases he
  | s :: s2 :: rest, subs, subs', leaves, leaves', ab, aa, as, short, h => by
    obtain ⟨_, _, cpat, csubs, cleaves, csubs', cleaves', sh, as', hrec, _, hsub⟩ :=
      addNext_cons_ok h
    intro inner last he
    cases inner with
    | nil => cases he
    | cons x inner =>
      simp only [List.cons_append, List.cons.injEq] at he
      obtain ⟨rfl, he⟩ := he
      have ih := addNext_walkHas_long E r hid (s2 :: rest) _ _ _ _ _ _ _ _ hrec inner last he
      rcases hsub with ⟨hmem, rfl⟩ | ⟨_, _, rfl, rfl, _, _, _, rfl⟩
      · exact ⟨_, _, _, _, mem_replaceNode_self ⟨_, hmem, rfl⟩, rfl, ih⟩
      · exact ⟨_, _, _, _, (insertByRank_mem _ _ _ _).mpr (Or.inl rfl), rfl, ih⟩

/-- … and, when the last segment is optional, the short form: a leaf for `prev` one level up -/
theorem addNext_walkHas_short (E : Engine) (r : Route) (hid : Nat) :
    ∀ (segs : List Segment) (subs subs' : List Node) (leaves leaves' : List Leaf)
      (ab : List Bytes) (aa as short : Bool),
      addNext E r hid segs subs leaves ab aa as = .ok (subs', leaves', short) →
      ∀ init prev last, segs = init ++ [prev, last] → last.optional = true →
        WalkHas prev.leafKey init subs' leaves'
  | [], _, _, _, _, _, _, _, _, h => by rw [addNext] at h; cases h
  | [s], _, _, _, _, _, _, _, _, _ => by
    intro init prev last he
    cases init with
    | nil => cases he
    | cons x init => cases init <;> cases he
  | s :: s2 :: rest, subs, subs', leaves, leaves', ab, aa, as, short, h => by
    obtain ⟨_, _, cpat, csubs, cleaves, csubs', cleaves', sh, as', hrec, hlv, hsub⟩ :=
      addNext_cons_ok h
    intro init prev last he ho
    cases init with
    | nil =>
      simp only [List.nil_append, List.cons.injEq] at he
      obtain ⟨rfl, rfl, rfl⟩ := he
      have hsh : sh = true := by rw [addNext_flag_eq hrec]; exact ho
      rcases hlv with ⟨_, hl⟩ | ⟨hf, _⟩
      · exact addLeafTo_has_key hl
      · rw [hsh] at hf; cases hf
    | cons x init =>
      simp only [List.cons_append, List.cons.injEq] at he
      obtain ⟨rfl, he⟩ := he
      have ih := addNext_walkHas_short E r hid (s2 :: rest) _ _ _ _ _ _ _ _ hrec init prev last he ho
      rcases hsub with ⟨hmem, rfl⟩ | ⟨_, _, rfl, rfl, _, _, _, rfl⟩
      · exact ⟨_, _, _, _, mem_replaceNode_self ⟨_, hmem, rfl⟩, rfl, ih⟩
      · exact ⟨_, _, _, _, (insertByRank_mem _ _ _ _).mpr (Or.inl rfl), rfl, ih⟩

/-! ### 8. a path that exists is not free -/

theorem walkHas_not_walkFree_long (E : Engine) (last : Segment) (key : Bytes)
    (hkey : last.leafKey = key) :
    ∀ (inner : List Segment) (subs : List Node) (leaves : List Leaf), TreeInv subs leaves →
      WalkHas key inner subs leaves → ¬ WalkFree E last inner subs leaves
  | [], _, leaves, _, ⟨l, hm, hk⟩, hf => hf.1 l hm (hk.trans hkey.symm)
  | s :: inner, subs, leaves, hinv, ⟨k, p, cs, cl, hm, hk, hw⟩, hf => by
    have hfind := find?_key_of_mem hinv.subsInv'.keys hm (k := s.render) hk
    rw [WalkFree, hfind] at hf
    exact walkHas_not_walkFree_long E last key hkey inner cs cl (hinv.child' hm) hw hf.1

theorem walkHas_not_walkFree_short (E : Engine) (prev last : Segment) (key : Bytes)
    (hkey : prev.leafKey = key) (ho : last.optional = true) :
    ∀ (init : List Segment) (subs : List Node) (leaves : List Leaf), TreeInv subs leaves →
      WalkHas key init subs leaves → ¬ WalkFree E last (init ++ [prev]) subs leaves
  | [], _, leaves, _, ⟨l, hm, hk⟩, hf => by
    rw [List.nil_append, WalkFree] at hf
    exact (hf.2 rfl ho).1 l hm (hk.trans hkey.symm)
  | s :: init, subs, leaves, hinv, ⟨k, p, cs, cl, hm, hk, hw⟩, hf => by
    have hfind := find?_key_of_mem hinv.subsInv'.keys hm (k := s.render) hk
    rw [List.cons_append, WalkFree, hfind] at hf
    exact walkHas_not_walkFree_short E prev last key hkey ho init cs cl (hinv.child' hm) hw hf.1

/-! `addRoute` level -/

theorem addRoute_walkHas_mono {E : Engine} {t t' : Node} {r : Route} {hid : Nat}
    (hinv : TreeInv t.subs t.leaves) (h : addRoute E t r hid = .ok t') (key : Bytes)
    (path : List Segment) (hw : WalkHas key path t.subs t.leaves) :
    WalkHas key path t'.subs t'.leaves := by
  obtain ⟨k, p, subs, leaves⟩ := t
  simp only [Node.subs, Node.leaves] at hinv hw
  rcases addRoute_ok h with ⟨s, l1, l2, _, _, h1, h2, rfl⟩ | ⟨s, l, _, _, h1, rfl⟩ |
    ⟨s, s2, rest, subs', leaves', sh, _, h1, rfl⟩
  · cases path with
    | nil =>
      obtain ⟨l, hm, hk⟩ := hw
      exact ⟨l, addLeafTo_subset h2 l (addLeafTo_subset h1 l hm), hk⟩
    | cons x path => exact hw
  · cases path with
    | nil => obtain ⟨l', hm, hk⟩ := hw; exact ⟨l', addLeafTo_subset h1 l' hm, hk⟩
    | cons x path => exact hw
  · exact addNext_walkHas_mono E r hid _ _ _ _ _ _ _ _ _ hinv h1 key path hw

theorem addRoute_walkHas_long {E : Engine} {t t' : Node} {r : Route} {hid : Nat}
    (h : addRoute E t r hid = .ok t') {inner : List Segment} {last : Segment}
    (hs : r.segs = inner ++ [last]) : WalkHas last.leafKey inner t'.subs t'.leaves := by
  obtain ⟨k, p, subs, leaves⟩ := t
  rcases addRoute_ok h with ⟨s, l1, l2, hs', _, _, h2, rfl⟩ | ⟨s, l, hs', _, h1, rfl⟩ |
    ⟨s, s2, rest, subs', leaves', sh, hs', h1, rfl⟩
  · rw [hs] at hs'
    cases inner with
    | nil => cases hs'; exact addLeafTo_has_key h2
    | cons x inner => cases inner <;> cases hs'
  · rw [hs] at hs'
    cases inner with
    | nil => cases hs'; exact addLeafTo_has_key h1
    | cons x inner => cases inner <;> cases hs'
  · exact addNext_walkHas_long E r hid _ _ _ _ _ _ _ _ _ h1 inner last (hs'.symm.trans hs)

theorem addRoute_walkHas_short {E : Engine} {t t' : Node} {r : Route} {hid : Nat}
    (h : addRoute E t r hid = .ok t') {init : List Segment} {prev last : Segment}
    (hs : r.segs = init ++ [prev, last]) (ho : last.optional = true) :
    WalkHas prev.leafKey init t'.subs t'.leaves := by
  obtain ⟨k, p, subs, leaves⟩ := t
  rcases addRoute_ok h with ⟨s, l1, l2, hs', _⟩ | ⟨s, l, hs', _⟩ |
    ⟨s, s2, rest, subs', leaves', sh, hs', h1, rfl⟩
  · rw [hs] at hs'
    cases init with
    | nil => cases hs'
    | cons x init => cases init <;> cases hs'
  · rw [hs] at hs'
    cases init with
    | nil => cases hs'
    | cons x init => cases init <;> cases hs'
  · exact addNext_walkHas_short E r hid _ _ _ _ _ _ _ _ _ h1 init prev last (hs'.symm.trans hs) ho

/-- "/?x" accepted: the root path "/" is taken -/
theorem addRoute_walkHas_root {E : Engine} {t t' : Node} {r : Route} {hid : Nat}
    (h : addRoute E t r hid = .ok t') {s : Segment} (hs : r.segs = [s])
    (ho : s.optional = true) (he : s.elems ≠ []) : WalkHas [] [] t'.subs t'.leaves := by
  obtain ⟨k, p, subs, leaves⟩ := t
  rcases addRoute_ok h with ⟨s', l1, l2, hs', _, h1, h2, rfl⟩ | ⟨s', l, hs', hopt, _, _⟩ |
    ⟨_, _, _, _, _, _, hs', _, _⟩
  · obtain ⟨l, hm, hk⟩ := addLeafTo_has_key h1
    exact ⟨l, addLeafTo_subset h2 l hm, hk⟩
  · rw [hs] at hs'; cases hs'
    have : s.elems.isEmpty = false := by cases hs : s.elems <;> simp_all
    simp [ho, this] at hopt
  · rw [hs] at hs'; cases hs'

/-- a property established when `rh` is accepted and kept by every later accepted registration
    holds of the final tree -/
theorem accepted_invariant (E : Engine) (Q : Node → Prop) (rh : Route × Nat)
    (hest : ∀ t t', RegInv E t → addRoute E t rh.1 rh.2 = .ok t' → Q t')
    (hmono : ∀ t t' r hid, RegInv E t → (∀ s ∈ r.segs, ParsedSeg s = true) →
      addRoute E t r hid = .ok t' → Q t → Q t') :
    ∀ (h : List (Route × Nat)) (t : Node), RegInv E t →
      (∀ x ∈ h, ∀ s ∈ x.1.segs, ParsedSeg s = true) →
      (Q t ∨ rh ∈ acceptedFrom E t h) → Q (buildFrom E t h)
  | [], t, _, _, hq => by
    rcases hq with hq | hq
    · exact hq
    · cases hq
  | x :: h, t, hinv, hP, hq => by
    have hPx := hP x (List.mem_cons_self ..)
    have hP' : ∀ y ∈ h, ∀ s ∈ y.1.segs, ParsedSeg s = true :=
      fun y hy => hP y (List.mem_cons_of_mem _ hy)
    rw [buildFrom]
    rw [acceptedFrom] at hq
    cases hr : addRoute E t x.1 x.2 with
    | ok t' =>
      rw [hr] at hq
      simp only [List.mem_cons] at hq
      refine accepted_invariant E Q rh hest hmono h t' (addRoute_regInv hinv hPx hr) hP' ?_
      rcases hq with hq | rfl | hq
      · exact Or.inl (hmono t t' x.1 x.2 hinv hPx hr hq)
      · exact Or.inl (hest t t' hinv hr)
      · exact Or.inr hq
    | error e =>
      rw [hr] at hq
      exact accepted_invariant E Q rh hest hmono h t hinv hP' hq

/-! ### 9. odds and ends for the corollaries -/

theorem buildFrom_append (E : Engine) : ∀ (h1 h2 : List (Route × Nat)) (t : Node),
    buildFrom E t (h1 ++ h2) = buildFrom E (buildFrom E t h1) h2
  | [], _, _ => rfl
  | x :: h1, h2, t => by
    rw [List.cons_append, buildFrom, buildFrom]
    cases addRoute E t x.1 x.2 with
    | ok t' => exact buildFrom_append E h1 h2 t'
    | error e => exact buildFrom_append E h1 h2 t

theorem acceptedFrom_append (E : Engine) : ∀ (h1 h2 : List (Route × Nat)) (t : Node),
    acceptedFrom E t (h1 ++ h2) = acceptedFrom E t h1 ++ acceptedFrom E (buildFrom E t h1) h2
  | [], _, _ => rfl
  | x :: h1, h2, t => by
    rw [List.cons_append, acceptedFrom, acceptedFrom, buildFrom]
    cases addRoute E t x.1 x.2 with
    | ok t' => simp only [List.cons_append]; rw [acceptedFrom_append E h1 h2 t']
    | error e => exact acceptedFrom_append E h1 h2 t

/-- an expression of a parameter list that does not compile makes the assembly fail -/
theorem paramsRegex_ok_compiles {E : Engine} : ∀ {ps : List BindParam} {res : Bytes × List Bytes},
    regexOfElems.paramsRegex E ps = .ok res →
    ∀ q ∈ ps, ∀ e, q.val = .re e → E.compile e ≠ none
  | [], _, _ => fun q hq => by cases hq
  | q0 :: qs, res, h => by
    intro q hq e hv
    rw [regexOfElems.paramsRegex] at h
    split at h
    · cases h
    · rename_i e0 hv0
      split at h
      · cases h
      · rename_i n hn
        simp only [bind, Except.bind] at h
        split at h
        · cases h
        · rename_i res' hres
          rcases List.mem_cons.mp hq with rfl | hq'
          · rw [hv] at hv0; cases hv0; rw [hn]; simp
          · exact paramsRegex_ok_compiles hres q hq' e hv

theorem regexOfElems_ok_compiles {E : Engine} : ∀ {es : List Elem} {res : Bytes × List Bytes},
    regexOfElems E es = .ok res →
    ∀ ps, Elem.params ps ∈ es → ∀ q ∈ ps, ∀ e, q.val = .re e → E.compile e ≠ none
  | [], _, _ => fun ps hps => by cases hps
  | .ident x :: rest, res, h => by
    intro ps hps
    rw [regexOfElems] at h
    simp only [bind, Except.bind] at h
    split at h
    · cases h
    · rename_i res' hres
      rcases List.mem_cons.mp hps with hc | hps'
      · cases hc
      · exact regexOfElems_ok_compiles hres ps hps'
  | .bind x :: rest, res, h => by
    intro ps hps
    rw [regexOfElems] at h
    simp only [bind, Except.bind] at h
    split at h
    · cases h
    · rename_i res' hres
      rcases List.mem_cons.mp hps with hc | hps'
      · cases hc
      · exact regexOfElems_ok_compiles hres ps hps'
  | .params [] :: rest, res, h => by rw [regexOfElems] at h; cases h
  | .params (q0 :: qs) :: rest, res, h => by
    intro ps hps
    rw [regexOfElems] at h
    case x_1 => exact fun hc => by cases hc
    simp only [bind, Except.bind] at h
    split at h
    · cases h
    · rename_i res1 hres1
      split at h
      · cases h
      · rename_i res' hres
        rcases List.mem_cons.mp hps with hc | hps'
        · cases hc; exact paramsRegex_ok_compiles hres1
        · exact regexOfElems_ok_compiles hres ps hps'

/-- a segment that is no match-all and contains an expression that does not compile has no
    pattern, neither as a node nor as a leaf -/
theorem classify_bad_expression {E : Engine} {s : Segment} {ps : List BindParam} {q : BindParam}
    {e : Bytes} (hps : Elem.params ps ∈ s.elems) (hq : q ∈ ps) (hv : q.val = .re e)
    (hc : E.compile e = none) (hna : allBind s = none) :
    treePat E s = none ∧ leafPat E s = none := by
  have hstat : staticLit s = none := by
    obtain ⟨o, es⟩ := s
    unfold staticLit
    split
    · rename_i heq; cases heq; simp at hps
    · rfl
  have hhole : holeBind s = none := by
    obtain ⟨o, es⟩ := s
    unfold holeBind
    split
    · rename_i heq; cases heq; simp at hps
    · rfl
  have hre : ∀ p, classifyRegex E s ≠ .ok p := by
    intro p hp
    unfold classifyRegex at hp
    simp only [bind, Except.bind] at hp
    split at hp
    · cases hp
    · rename_i res hres
      exact regexOfElems_ok_compiles hres ps hps q hq e hv hc
  have hne : s.elems.isEmpty = false := by
    cases hs : s.elems with
    | nil => rw [hs] at hps; cases hps
    | cons a l => rfl
  have hdyn : ∀ p, classifyDynamic E s ≠ .ok p := by
    intro p hp
    simp only [classifyDynamic, hhole, hna] at hp
    exact hre p hp
  constructor
  · unfold treePat
    cases hct : classifyTree E s with
    | error _ => rfl
    | ok p =>
      simp only [classifyTree, hne, Bool.false_eq_true, ↓reduceIte, hstat] at hct
      exact absurd hct (hdyn p)
  · unfold leafPat
    cases hcl : classifyLeaf E s with
    | error _ => rfl
    | ok p =>
      simp only [classifyLeaf, hne, Bool.false_eq_true, ↓reduceIte, hstat] at hcl
      exact absurd hcl (hdyn p)

/-- every form of a registration carries its id -/
theorem formsOfRoute_hid {E : Engine} {r : Route} {hid : Nat} {f : Form}
    (h : f ∈ formsOfRoute E r hid) : f.hid = hid := by
  unfold formsOfRoute at h
  split at h
  · cases h
  · simp only at h
    split at h
    · split at h
      · split at h
        · split at h
          · simp only [List.mem_cons, List.not_mem_nil, or_false] at h; rw [h]
          · simp only [List.mem_cons, List.not_mem_nil, or_false] at h; rcases h with h | h <;> rw [h]
        · split at h
          · simp only [List.mem_cons, List.not_mem_nil, or_false] at h; rcases h with h | h <;> rw [h]
          · simp only [List.mem_cons, List.not_mem_nil, or_false] at h; rw [h]
      · simp only [List.mem_cons, List.not_mem_nil, or_false] at h; rw [h]
    · cases h

/-! every well-formed AST of the grammar (C06: exactly what `parse` returns) is a `ParsedSeg` -/

open RouteGrammar in
theorem identText_clean {t : Bytes} (h : IdentText t) : cleanText t = true := by
  obtain ⟨hne, hall⟩ := h
  have hcls : ∀ c ∈ identBytes, specialByte c = false := by decide
  simp only [cleanText, Bool.and_eq_true, Bool.not_eq_true', List.all_eq_true]
  refine ⟨by cases t <;> simp_all, fun c hc => hcls c (hall c hc)⟩

open RouteGrammar in
theorem wfElem_parsed {e : Elem} (h : WFElem e) : parsedElem e = true := by
  cases e with
  | ident x => exact identText_clean h
  | bind x => exact identText_clean h
  | params ps =>
    obtain ⟨hne, hall⟩ := h
    simp only [parsedElem, Bool.and_eq_true, Bool.not_eq_true', List.all_eq_true]
    refine ⟨by cases ps <;> simp_all, fun q hq => ?_⟩
    obtain ⟨hi, hv⟩ := hall q hq
    simp only [parsedParam, Bool.and_eq_true]
    refine ⟨identText_clean hi, ?_⟩
    cases hqv : q.val with
    | lit x => rw [hqv] at hv; exact identText_clean hv
    | re x =>
      rw [hqv] at hv
      have hcls : ∀ c ∈ regexBytes, (c != 47) = true := by decide
      simp only [parsedVal, List.all_eq_true]
      exact fun c hc => hcls c (hv.2 c hc)

open RouteGrammar in
theorem noAdj_parsed : ∀ es : List Elem, noAdjIdent es = true → parsedNoAdj es = true
  | [], _ => rfl
  | [_], _ => rfl
  | a :: b :: rest, h => by
    simp only [noAdjIdent, Bool.and_eq_true] at h
    simp only [parsedNoAdj, Bool.and_eq_true]
    refine ⟨?_, noAdj_parsed (b :: rest) h.2⟩
    have := h.1
    cases a <;> cases b <;> simp_all [isIdentElem, parsedIsIdent]

open RouteGrammar in
theorem wf_parsedSeg {r : Route} (h : WF r) : ∀ s ∈ r.segs, ParsedSeg s = true := by
  intro s hs
  obtain ⟨hel, hadj⟩ := h.2 s hs
  simp only [ParsedSeg, Bool.and_eq_true, List.all_eq_true]
  exact ⟨fun e he => wfElem_parsed (hel e he), noAdj_parsed _ hadj⟩

end Flamego
