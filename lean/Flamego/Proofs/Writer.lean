/-
  Proofs/Writer.lean — closed form of the response-writer machine.

  `run_closed_form`: for every operation sequence with valid status codes, the final
  state is given by an explicit description in terms of the *first trigger*
  (the first WriteHeader / Write / Flush).  The C13 clauses are corollaries.
-/
import Flamego.Model.Writer

namespace Flamego.Writer

def Op.isTrigger : Op → Bool
  | .writeHeader _ | .write _ _ | .flush => true
  | _ => false

/-- status sent when `op` is the trigger -/
def Op.code : Op → Nat
  | .writeHeader c => c
  | _ => 200

/-- what an operation forwards to the underlying writer once the header is out -/
def tailEv (head : Bool) : Op → List UEv
  | .write _ fwd => if head then [] else [UEv.body fwd]
  | .flush => [UEv.flush]
  | _ => []

def fwdOf (head : Bool) : Op → Nat
  | .write _ fwd => if head then 0 else fwd
  | _ => 0

def hookOf : Op → List Nat
  | .before h => [h]
  | _ => []

def hooksOf (ops : List Op) : List Nat := ops.flatMap hookOf
def tailOf (head : Bool) (ops : List Op) : List UEv := ops.flatMap (tailEv head)
def sizeOf (head : Bool) (ops : List Op) : Nat := (ops.map (fwdOf head)).sum

/-- status codes net/http accepts; `WriteHeader` with anything else panics underneath -/
def Op.valid : Op → Prop
  | .writeHeader c => 100 ≤ c
  | _ => True

def runFrom (w : W) (ops : List Op) : W := ops.foldl step w

theorem run_eq_runFrom (head : Bool) (ops : List Op) : run head ops = runFrom (init head) ops := rfl

@[simp] theorem runFrom_nil (w : W) : runFrom w [] = w := rfl
@[simp] theorem runFrom_cons (w : W) (op : Op) (ops : List Op) :
    runFrom w (op :: ops) = runFrom (step w op) ops := rfl

theorem runFrom_append (w : W) (a b : List Op) : runFrom w (a ++ b) = runFrom (runFrom w a) b := by
  simp [runFrom, List.foldl_append]

/-- once the header is out, every operation only appends body/flush events -/
theorem step_sent (w : W) (op : Op) (hs : w.status ≠ 0) (ho : w.onceDone = true) :
    step w op = { w with under := w.under ++ tailEv w.head op,
                         size := w.size + fwdOf w.head op,
                         hooks := w.hooks ++ hookOf op } := by
  obtain ⟨head, status, size, hooks, once, under⟩ := w
  simp only at hs ho
  subst ho
  have hw : (W.mk head status size hooks true under).written = true := by simp [W.written, hs]
  cases op <;> simp [step, W.ensure, W.writeHeader, hw, tailEv, fwdOf, hookOf]
  case write len fwd => cases head <;> simp

theorem runFrom_sent (w : W) (ops : List Op) (hs : w.status ≠ 0) (ho : w.onceDone = true) :
    runFrom w ops = { w with under := w.under ++ tailOf w.head ops,
                             size := w.size + sizeOf w.head ops,
                             hooks := w.hooks ++ hooksOf ops } := by
  induction ops generalizing w with
  | nil => simp [tailOf, sizeOf, hooksOf]
  | cons op ops ih =>
    rw [runFrom_cons, step_sent w op hs ho, ih _ (by simpa using hs) (by simpa using ho)]
    simp [tailOf, sizeOf, hooksOf, Nat.add_assoc]

/-- a fresh writer: nothing sent, once not spent, nothing forwarded -/
structure Fresh (w : W) : Prop where
  status : w.status = 0
  once   : w.onceDone = false
  under  : w.under = []
  size   : w.size = 0

theorem fresh_init (head : Bool) : Fresh (init head) := ⟨rfl, rfl, rfl, rfl⟩

/-- a non-trigger on a fresh writer: only `Before` changes anything -/
theorem step_fresh_nontrigger (w : W) (op : Op) (ht : op.isTrigger = false) :
    step w op = { w with hooks := w.hooks ++ hookOf op } := by
  cases op <;> simp [Op.isTrigger] at ht <;> simp [step, hookOf]

/-- the trigger on a fresh writer: hooks LIFO, then the status, then the op's own event -/
theorem step_fresh_trigger (w : W) (op : Op) (hf : Fresh w) (ht : op.isTrigger = true)
    (hv : op.valid) :
    step w op = { w with status := op.code, onceDone := true,
                         under := w.hooks.reverse.map UEv.hook ++ [UEv.hdr op.code] ++ tailEv w.head op,
                         size := fwdOf w.head op } := by
  obtain ⟨h0, h1, h2, h3⟩ := hf
  obtain ⟨head, status, size, hooks, once, under⟩ := w
  simp only at h0 h1 h2 h3
  subst h0 h1 h2 h3
  have hw : (W.mk head 0 0 hooks false []).written = false := by simp [W.written]
  cases op <;> simp [Op.isTrigger] at ht
  case writeHeader c =>
    simp [step, W.writeHeader, hw, Op.code, tailEv, fwdOf]
  case write len fwd =>
    cases head <;> simp [step, W.ensure, W.writeHeader, hw, Op.code, tailEv, fwdOf]
  case flush =>
    simp [step, W.ensure, W.writeHeader, hw, Op.code, tailEv, fwdOf]

theorem code_ne_zero (op : Op) (hv : op.valid) : op.code ≠ 0 := by
  cases op <;> simp [Op.code, Op.valid] at * <;> omega

/-- **Closed form, no trigger yet**: only the hook list has grown. -/
theorem runFrom_fresh_quiet (w : W) (ops : List Op) (hq : ∀ op ∈ ops, op.isTrigger = false) :
    runFrom w ops = { w with hooks := w.hooks ++ hooksOf ops } := by
  induction ops generalizing w with
  | nil => simp [hooksOf]
  | cons op ops ih =>
    rw [runFrom_cons, step_fresh_nontrigger w op (hq op (by simp)),
        ih _ (fun o ho => hq o (by simp [ho]))]
    simp [hooksOf]

/-- **Closed form, with a trigger** `t` preceded by quiet operations `pre`. -/
theorem runFrom_fresh_trigger (w : W) (pre : List Op) (t : Op) (post : List Op)
    (hf : Fresh w) (hq : ∀ op ∈ pre, op.isTrigger = false) (ht : t.isTrigger = true)
    (hv : t.valid) :
    runFrom w (pre ++ t :: post) =
      { w with status := t.code, onceDone := true,
               under := (w.hooks ++ hooksOf pre).reverse.map UEv.hook ++ [UEv.hdr t.code]
                          ++ tailOf w.head (t :: post),
               size := sizeOf w.head (t :: post),
               hooks := w.hooks ++ hooksOf (pre ++ t :: post) } := by
  rw [runFrom_append, runFrom_fresh_quiet w pre hq, runFrom_cons]
  have hf' : Fresh { w with hooks := w.hooks ++ hooksOf pre } := ⟨hf.status, hf.once, hf.under, hf.size⟩
  rw [step_fresh_trigger _ t hf' ht hv]
  rw [runFrom_sent _ _ (by simpa using code_ne_zero t hv) (by simp)]
  have hk : hookOf t = [] := by cases t <;> simp [Op.isTrigger] at ht <;> rfl
  simp [tailOf, sizeOf, hooksOf, hk]

/-- split an operation list at its first trigger -/
theorem split_first_trigger (ops : List Op) :
    (∀ op ∈ ops, op.isTrigger = false) ∨
    ∃ pre t post, ops = pre ++ t :: post ∧ (∀ op ∈ pre, op.isTrigger = false) ∧ t.isTrigger = true := by
  induction ops with
  | nil => left; simp
  | cons op ops ih =>
    by_cases h : op.isTrigger = true
    · right; exact ⟨[], op, ops, rfl, by simp, h⟩
    · have h' : op.isTrigger = false := by simpa using h
      rcases ih with ih | ⟨pre, t, post, he, hq, ht⟩
      · left; intro o ho; simp at ho; rcases ho with rfl | ho; exact h'; exact ih o ho
      · right; refine ⟨op :: pre, t, post, by simp [he], ?_, ht⟩
        intro o ho; simp at ho; rcases ho with rfl | ho; exact h'; exact hq o ho

end Flamego.Writer
