/-
  Driver/Noop.lean — the trivial session kind `noop` (one `noop` per input line).  Used by properties whose
  evidence does not come from the line protocol (C05: footprint theorems + race run), so that the pipeline of
  ./check stays uniform.
-/
namespace Flamego.Driver.Noop

def session (_args : List String) (body : List (List String)) : List String :=
  "noop" :: body.map (fun _ => "noop")

end Flamego.Driver.Noop
