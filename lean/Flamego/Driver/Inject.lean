/-
  Driver/Inject.lean — `NEW inject …` and `NEW injectflame …` sessions (C04).
  Protocol: see the head of harness/inject.go.

  Where the Go code's answer depends on map iteration (an interface with several implementors in
  one scope) the model prints every admissible value, smallest first, separated by `|`; the check
  compares such a field by membership (`line_equal` in lib/props.py).  What is printed comes from
  `valueSet` / `argSets` / `applySets`, which Props/C04 ties to `value` / `invoke` / `apply` for every
  iteration choice; call counts and results are read off `invoke` itself.
-/
import Flamego.Model.Inject
import Flamego.Driver.Common
namespace Flamego.Driver.Inject
open Flamego.Inject

def parseUniverse (bits rows : String) : Universe :=
  let b : Array Bool := bits.toList.toArray.map (· == '1')
  let m : Array (Array Bool) := (rows.splitOn ",").toArray.map (fun r => r.toList.toArray.map (· == '1'))
  { isInterface := fun t => b.getD t false
    implements := fun k t => (m.getD k #[]).getD t false }

def natList (s : String) : List Nat :=
  if s == "-" || s == "" then [] else (s.splitOn ",").map natOf

def showNats (xs : List Nat) : String :=
  if xs.isEmpty then "-" else joinWith "," (xs.map toString)

def showSet (xs : List Val) : String :=
  joinWith "|" ((xs.mergeSort (· ≤ ·)).eraseDups.map toString)

def showSets (xs : List (List Val)) : String :=
  if xs.isEmpty then "-" else joinWith "," (xs.map showSet)

def modifyNth (f : Scope → Scope) : List Scope → Nat → List Scope
  | [], _ => []
  | s :: rest, 0 => f s :: rest
  | s :: rest, i + 1 => s :: modifyNth f rest i

/-- which tag kinds of the harness carry an `inject` key: 1 = `inject:""`, 2 = `json:"a" inject:"x"`
    (0 = no tag, 3 = `json:"inject"`, 4 = the malformed bare word `inject`) -/
def tagged (kind : Nat) : Bool := kind == 1 || kind == 2

def parseField (mode : String) (s : String) : Field :=
  match s.splitOn "." with
  | [ty, tag, exp] => { ty := natOf ty, tagged := tagged (natOf tag), settable := exp == "1" && mode != "v", val := 0 }
  | _ => { ty := 0, tagged := false, settable := false, val := 0 }

def showInvoke (U : Universe) (chain : List Scope) (h : Handler) : String :=
  let o := invoke U chain [] h
  match o.result, argSets U chain h.sig with
  | .error t, _ => s!"err notfound {t} calls={o.calls.length}"
  | .ok res, .ok sets => s!"ran {showSets sets} calls={o.calls.length} res={showNats res}"
  | .ok _, .error _ => "model-inconsistent"

def session (args : List String) (lines : List (List String)) : List String :=
  match args with
  | [_, bits, rows, ns] =>
    let U := parseUniverse bits rows
    let rec go (scopes : List Scope) : List (List String) → List String
      | [] => []
      | l :: rest =>
        match l with
        | ["M", s, ty, v] => "ok" :: go (modifyNth (register · (natOf ty) (natOf v)) scopes (natOf s)) rest
        | ["MT", s, ty, _, v] => "ok" :: go (modifyNth (register · (natOf ty) (natOf v)) scopes (natOf s)) rest
        | ["S", s, ty, _, v] => "ok" :: go (modifyNth (register · (natOf ty) (natOf v)) scopes (natOf s)) rest
        | ["V", s, ty] =>
          let vs := valueSet U (scopes.drop (natOf s)) (natOf ty)
          (if vs.isEmpty then "none" else s!"val {showSet vs}") :: go scopes rest
        | ["I", s, mode, sig, res] =>
          let sig := natList sig
          let body : Body := fun _ => natList res
          let h : Handler := if mode == "f" then .fast sig (wrap sig.length body) else .plain sig body
          showInvoke U (scopes.drop (natOf s)) h :: go scopes rest
        | ["IP", s, mode, sig] =>
          -- the body panics after its parameters were resolved: invoked exactly once (C04 `invoke_runs_once_with`), the
          -- panic travels to the caller; an unresolved parameter is reported before the body, as for `I`
          let sig := natList sig
          let body : Body := fun _ => []
          let h : Handler := if mode == "f" then .fast sig (wrap sig.length body) else .plain sig body
          let shown := showInvoke U (scopes.drop (natOf s)) h
          (if shown.startsWith "ran " then ((shown.splitOn " res=").headD shown) ++ " panic" else shown) :: go scopes rest
        | ["A", s, mode, spec] =>
          let fs := if spec == "-" then [] else (spec.splitOn ",").map (parseField mode)
          let chain := scopes.drop (natOf s)
          let r := applySets U chain fs
          let e := match (apply U chain fs []).2 with
            | none => "none"
            | some t => s!"notfound:{t}"
          s!"fields {showSets r.1} err={e}" :: go scopes rest
        | _ => "bad-op" :: go scopes rest
    "new" :: go (List.replicate (natOf ns) []) lines
  | _ => "bad-universe" :: lines.map (fun _ => "bad-universe")

/-! ### a real Flame -/

def tyCtx := 12
def tyRW := 13
def tyReq := 14
def tyLog := 15

/-- a handler of the flame session: its model handler, the request-scope registrations it makes
    after it ran, and (for `func() (int, string)`) the response it causes -/
structure HSpec where
  h : Handler
  maps : List (Ty × Val)
  resp : Option String
  /-- static result types of a value-returning handler (`r` specs): how the recording ReturnHandler prints them -/
  rtypes : List String := []

/-- `validateAndWrapHandler`'s type switch: `func(Context)`, `func(http.ResponseWriter,
    *http.Request)` (and `http.HandlerFunc`), `func() (int, string)` -/
def builtinShape (nres : Nat) (sig : List Ty) : Bool :=
  (nres == 0 && (sig == [tyCtx] || sig == [tyRW, tyReq])) || (nres == 2 && sig == [])

def parseMaps (s : String) : List (Ty × Val) :=
  if s == "-" then [] else (s.splitOn "+").filterMap (fun m =>
    match m.splitOn "." with
    | [ty, _, v] => some (natOf ty, natOf v)
    | _ => none)

def noResults : Body := fun _ => []

def parseHandler : List String → Option HSpec
  | ["g", sig, maps] =>
    let sig := natList sig
    some { h := validateAndWrap (builtinShape 0) (.plain sig noResults), maps := if sig.contains tyCtx then parseMaps maps else [], resp := none }
  | ["f", sig, maps] =>
    let sig := natList sig
    some { h := .fast sig (wrap sig.length noResults), maps := if sig.contains tyCtx then parseMaps maps else [], resp := none }
  | ["c", maps] => some { h := validateAndWrap (builtinShape 0) (.plain [tyCtx] noResults), maps := parseMaps maps, resp := none }
  | ["w"] => some { h := validateAndWrap (builtinShape 0) (.plain [tyRW, tyReq] noResults), maps := [], resp := none }
  | ["hf"] => some { h := validateAndWrap (builtinShape 0) (.plain [tyRW, tyReq] noResults), maps := [], resp := none }
  | ["t", status, body] =>
    some { h := validateAndWrap (builtinShape 2) (.plain [] (fun _ => [natOf status, 0])), maps := [], resp := some s!"{natOf status}:{body}" }
  | ["ci", maps] => some { h := .fast [tyCtx] (wrap 1 noResults), maps := parseMaps maps, resp := none }
  | ["r", shape, a, b] =>
    -- an ordinary Go function of a common handler type that returns values (none of them is one of the
    -- built-in wrapped shapes: those are `func(Context)`, `func(ResponseWriter, *Request)`, `func() (int, string)`)
    let mk (sig : List Ty) (rt : List String) (res : List Nat) : Option HSpec :=
      some { h := validateAndWrap (builtinShape rt.length) (.plain sig (fun _ => res)), maps := [], resp := none, rtypes := rt }
    match shape with
    | "ce" => mk [tyCtx] ["error"] [natOf a]
    | "cs" => mk [tyCtx] ["string"] [natOf a]
    | "e" => mk [] ["error"] [natOf a]
    | "s" => mk [] ["string"] [natOf a]
    | "cis" => mk [tyCtx] ["int", "string"] [natOf a, natOf b]
    | "wre" => mk [tyRW, tyReq] ["error"] [natOf a]
    | "se" =>
      some { h := .plain [] (fun _ => [natOf a, natOf b]), maps := [], resp := none, rtypes := ["string", "error"] }
    | "ie" =>
      some { h := .plain [] (fun _ => [natOf a, natOf b]), maps := [], resp := none, rtypes := ["int", "error"] }
    | "cb" => mk [tyCtx] ["[]uint8"] [natOf a]
    | _ => none
  | ["l", maps] => some { h := .fast [tyCtx, tyLog] (wrap 2 noResults), maps := parseMaps maps, resp := none }
  | _ => none

/-- `context.run` over the handlers of request `k`: invoke each in turn on the request's chain; an
    invocation error panics out of `ServeHTTP`; a handler that wrote the response ends the chain -/
def hexStr (s : String) : String :=
  if s.isEmpty then "-" else String.join (s.toUTF8.toList.map fun b =>
    let d (n : Nat) : Char := if n < 10 then Char.ofNat (48 + n) else Char.ofNat (87 + n)
    String.mk [d (b.toNat / 16), d (b.toNat % 16)])

/-- what the recording ReturnHandler prints for one result: its static type and its value -/
def showResult (t : String) (v : Nat) : String :=
  match t with
  | "error" => if v == 0 then "error=nil" else s!"error=e{v}"
  | "string" => "string=" ++ hexStr (if v == 0 then "" else s!"s{v}")
  | "[]uint8" => "[]uint8=" ++ hexStr (if v == 0 then "" else s!"s{v}")
  | _ => s!"{t}={v}"

def serve (U : Universe) (w : World) (k : Nat) : List HSpec → List String × World
  | [] => (["resp 200:-"], w)
  | hs :: rest =>
    let chain := w.chain k
    let o := invoke U chain [] hs.h
    match o.result, argSets U chain hs.h.sig with
    | .error t, _ => ([s!"err {t}", "resp panic"], w)
    | .ok _, .error _ => (["model-inconsistent"], w)
    | .ok rs, .ok sets =>
      let w := hs.maps.foldl (fun w m => w.mapReq k m.1 m.2) w
      let ev := s!"ran {showSets sets}"
      -- `if len(vals) > 0 { returnHandler(c, vals) }`: the results the invocation handed back, with the
      -- handler's own static result types
      let ev := if hs.rtypes.isEmpty then ev
                else ev ++ " res " ++ joinWith "," ((hs.rtypes.zip rs).map fun p => showResult p.1 p.2)
      if o.calls.length != 1 then (["model-inconsistent"], w)
      else match hs.resp with
        | some r => ([ev, s!"resp {r}"], w)
        | none =>
          let (evs, w) := serve U w k rest
          (ev :: evs, w)

structure FState where
  w : World
  middleware : List HSpec := []
  pending : List HSpec := []
  /-- `FR` was given: the application's ReturnHandler records the raw results and writes nothing.  Value-returning
      (`r`) handlers are accepted only then (without it the default table would render them: property C14) -/
  recording : Bool := false

def flameSession (args : List String) (lines : List (List String)) : List String :=
  match args with
  | [_, bits, rows] =>
    let U := parseUniverse bits rows
    let rec go (st : FState) : List (List String) → List String
      | [] => []
      | l :: rest =>
        match l with
        | ["FM", ty, v] => "ok" :: go { st with w := st.w.mapApp (natOf ty) (natOf v) } rest
        | ["FMT", ty, _, v] => "ok" :: go { st with w := st.w.mapApp (natOf ty) (natOf v) } rest
        | ["FR"] => "ok" :: go { st with recording := true } rest   -- (a type outside the universe) in the app scope
        | ["FV", ty] =>
          let vs := valueSet U st.w.app (natOf ty)
          (if vs.isEmpty then "none" else s!"val {showSet vs}") :: go st rest
        | "U" :: spec =>
          match parseHandler spec with
          | some h => if h.rtypes.isEmpty || st.recording then "ok" :: go { st with middleware := st.middleware ++ [h] } rest
                      else "bad-op" :: go st rest
          | none => "bad-op" :: go st rest
        | "H" :: spec =>
          match parseHandler spec with
          | some h => if h.rtypes.isEmpty || st.recording then "ok" :: go { st with pending := st.pending ++ [h] } rest
                      else "bad-op" :: go st rest
          | none => "bad-op" :: go st rest
        | ["RQ"] =>
          let k := st.w.reqs.length
          -- newContext: MapTo(c, Context), MapTo(responseWriter, http.ResponseWriter), Map(r); SetParent(f)
          let w := st.w.newRequest [(tyCtx, 1000 + k), (tyRW, 2000 + k), (tyReq, 3000 + k)]
          let (evs, w) := serve U w k (st.middleware ++ st.pending)
          joinWith " " evs :: go { st with w := w, pending := [] } rest
        | _ => "bad-op" :: go st rest
    -- NewWithLogger: f.Map(logger) (the other two registrations are of types outside the universe
    -- that implement none of its interfaces)
    "new" :: go { w := { app := [[(tyLog, 4000)]] } } lines
  | _ => "bad-universe" :: lines.map (fun _ => "bad-universe")

end Flamego.Driver.Inject
