/-
  Driver/Writer.lean — `NEW writer <head:0|1>` sessions (C13).
  ops:  W wh <code> | W w <len> <fwd> | W fl | W bf <id> | W st | W sz | W wr | END
  out:  `<obs> <status> <size> <written> <#under>`; END prints the whole underlying trace.
-/
import Flamego.Model.WriterNest
import Flamego.Driver.Common
namespace Flamego.Driver.Writer
open Flamego.Writer

def parseOp : List String → Option Op
  | ["W", "wh", c] => some (.writeHeader (natOf c))
  | ["W", "w", l, f] => some (.write (natOf l) (natOf f))
  | ["W", "we", l, f] => some (.write (natOf l) (natOf f))
  | ["W", "wc", l, f] => some (.write (natOf l) (natOf f))   -- the same bytes pushed through io.Copy: one Write   -- the underlying writer also returned an error: bytes forwarded are counted all the same
  | ["W", "fl"] => some .flush
  | ["W", "bf", h] => some (.before (natOf h))
  -- a hook that registers another hook WHILE the commit runs: the commit walks the hooks registered before it
  -- (`hooks.reverse` of the pre-state) under the Once, so the late registration only lengthens a list that is
  -- never walked again: for every observable it is the plain hook (the real run would show the late hook as hook9…);
  -- `Props/C13Late.late_hooks_never_run`: once the Once is spent no operation produces a hook event
  | ["W", "bfr", h] => some (.before (natOf h))
  | ["W", "st"] => some .status
  | ["W", "sz"] => some .size
  | ["W", "wr"] => some .written
  | _ => none

def showEv : UEv → String
  | .hdr c => s!"hdr{c}"
  | .body n => s!"body{n}"
  | .flush => "flush"
  | .hook h => s!"hook{h}:0"     -- a hook runs in the pre-state of the trigger, where `Status()` is still 0 (C13 `hooks_run_unwritten`)

def showTrace (w : W) : String :=
  if w.under.isEmpty then "none" else joinWith "," (w.under.map showEv)

def session (args : List String) (lines : List (List String)) : List String :=
  let head := args.head? == some "1"
  let rec go (w : W) : List (List String) → List String
    | [] => []
    | l :: rest =>
      if l == ["END"] then s!"trace {showTrace w}" :: go w rest
      else match parseOp l with
        | none => "bad-op" :: go w rest
        | some op =>
          let w' := step w op
          s!"{observe w' op} {w'.status} {w'.size} {if w'.written then 1 else 0} {w'.under.length}" :: go w' rest
  "new" :: go (init head) lines

/-! `NEW writer2 <outer method> <inner method>` sessions: the inner writer wraps the outer one (Model/WriterNest).
    ops:  W o <op…> | W i <op…> | END      (the single-writer ops, addressed to the outer / the inner writer)
    out:  `<obs> <status size written of the outer> <status size written of the inner> <#events so far>` -/

def showNEv : NEv → String
  | .client e => showEv e
  | .ihook h => s!"ihook{h}:0"

def b01 (b : Bool) : Nat := if b then 1 else 0

def session2 (args : List String) (lines : List (List String)) : List String :=
  let oh := args.head? == some "HEAD"
  let ih := args[1]? == some "HEAD"
  let rec go (n : Nest) : List (List String) → List String
    | [] => []
    | l :: rest =>
      if l == ["END"] then
        (if n.log.isEmpty then "trace none" else "trace " ++ joinWith "," (n.log.map showNEv)) :: go n rest
      else match l with
        | "W" :: lvl :: op =>
          if lvl != "o" && lvl != "i" then "bad-op" :: go n rest
          else match parseOp ("W" :: op) with
          | none => "bad-op" :: go n rest
          | some op =>
            let inner := lvl == "i"
            let n' := n.step (inner, op)
            -- `Write` on the inner writer returns what the outer writer reported back
            let obs := if inner then observe n'.i (innerOp n.o op) else observe n'.o op
            s!"{obs} {n'.o.status} {n'.o.size} {b01 n'.o.written} {n'.i.status} {n'.i.size} {b01 n'.i.written} {n'.log.length}" :: go n' rest
        | _ => "bad-op" :: go n rest
  "new" :: go (Nest.init oh ih) lines

/-! `NEW writerf <method> [rec]` sessions: the writer a handler is given by a real Flame; one request per line
    (`RQ <op> …`, ops spelled `wh:201`, `w:3:2`, `fl`, `bf:7`, `st`, `sz`, `wr`, `pn:4`).  Every request starts from `init`:
    nothing an earlier request did to its own writer is visible.

    `pn:<fwd>` — the handler panics here; what follows on the line never happens.  Without `rec` the panic leaves
    `ServeHTTP` (observation `panic`).  With `rec` (Recovery in front, recovery.go) the error page goes to the writer
    the handler was using: `WriteHeader(recoveryStatus)` then one `Write` of which the client takes `fwd` bytes — two
    ordinary operations of the machine, so hooks that were registered and have not run yet run now, newest first,
    before that status line, and a response that was already begun keeps its status (Model/Chain `recover`). -/

def sessionF (args : List String) (lines : List (List String)) : List String :=
  let head := args.head? == some "HEAD"
  let recov := args[1]? == some "rec"
  let one (l : List String) : String :=
    match l with
    | "RQ" :: toks =>
      let rec go (w : W) : List String → List String × W
        | [] => ([], w)
        | t :: rest =>
          match t.splitOn ":" with
          | ["pn", f] =>
            if recov then ([], step (step w (.writeHeader Gen.recoveryStatus)) (.write (natOf f + 1) (natOf f)))
            else (["panic"], w)
          | _ =>
          match parseOp ("W" :: t.splitOn ":") with
          | none => let r := go w rest; ("bad" :: r.1, r.2)
          | some op =>
            let w' := step w op
            let r := go w' rest
            (s!"{observe w' op} {w'.status} {w'.size} {if w'.written then 1 else 0}" :: r.1, r.2)
      let r := go (init head) toks
      joinWith ";" r.1 ++ " | " ++ showTrace r.2
    | _ => "bad-op"
  "new" :: lines.map one

end Flamego.Driver.Writer
