/-
  Driver/AppFull.lean — `NEW appfull <n> <isInterface bits> <implements rows>` sessions: the composed
  application model (Model/AppFull) against ONE real `flamego.NewWithLogger` instance (harness/appfull.go).

  The universe has n = 17 types: the 16 of harness/inject.go (12 = Context, 13 = http.ResponseWriter,
  14 = *http.Request, 15 = *log.Logger) and 16 = flamego.Render.

    ENC j|x <head 0|1> <indent hex> <v> <bytes hex> ok|err:<msg hex>
                                       what the STANDARD encoder does for value v of the harness's
                                       table (the encoders are a parameter of the model, as in Driver/Render) → enc
    FM <ty> <vid>                      f.Map(value of concrete type ty)                              → ok
    FMT <ity> <cty> <vid>              f.MapTo(value of cty, (*ity)(nil))                            → ok
    FRH <code> <body hex>              f.Map(flamego.ReturnHandler(custom(code, body)))              → ok
    FS <rel hex> d | FS <rel hex> f <id>   the tree Static serves (before any handler / request)     → fs
    B p | B s - | B s <code>:<n>       Before hooks, as in `app` sessions                            → b
    MW <handler>                       f.Use                                                         → h
    RH <hid> <handler>*                handlers of the NEXT `ADD <hid>`                              → h
    ADD <hid> <methods> <text hex> <ast>   as in `app` sessions (a handle is used once)              → ok | err
    ACT <handler> | NF <handler>*      f.Action / f.NotFound                                         → h
    REQ <method hex> <path hex> (<canon hex>=<value hex> | inm=<id>)*      one request, served ONCE
                                       (`missing-enc`, and nothing happens, when an ENC line is missing for a value
                                       some handler may render under some declared renderer)

  handler = r | s/<prefix hex>/<index hex>/<etag 0|1> | R/<vid>/<charset hex>/<jsonIndent hex>/<xmlIndent hex>
          | f/<sig>/<acts>/<ret>
    sig  = `-` | comma list of type indexes (< 17)
    acts = `-` | comma list of  w<code> b<hex> H<k hex>.<v hex> n c pS pE pR pT pA
           m<ty>.<cty>.<vid> M<ty>.<cty>.<vid> h<code>.<body hex>
           j<status>.<v> x<status>.<v> y<status>.<hex> t<status>.<hex>
           (any act other than a panic needs type 12 in sig)
    ret  = `-` | one or two of  s:<hex> b:nil b:<hex> i:<int> a:nil a:e:<n|w|p|v>:<hex> a:ep:d  joined by `+`

  REQ output:  <kind> b=<hooks> | <events> | c<code> <body hex> | hdrs=<names> | esc=<kind>
    events of `f` handlers only: `>L[<argument ids>]` (a flamego.Render argument prints `R`), `<L`, `!L`;
    labels m<i>, r<hid>.<j>, n<j>, a as in `app` sessions.
  Anything unparsable answers `bad-op` and changes nothing.
-/
import Flamego.Model.AppFull
import Flamego.Driver.Router
import Flamego.Driver.Chain
import Flamego.Driver.Inject
import Flamego.Driver.Static
import Flamego.Driver.Ret
import Flamego.Driver.App
namespace Flamego.Driver.AppFull
open Flamego.Chain (PVal Ev)
open Flamego.Inject (Ty Val Scope Universe)

abbrev MHandler := Flamego.AppFull.Handler
abbrev MAct := Flamego.AppFull.Act
abbrev MEnv := Flamego.AppFull.Env
abbrev MApp := Flamego.AppFull.AppFull

/-- number of types of the universe, the type `flamego.Render`, size of the harness's value table -/
def nTypes : Nat := 17
def renderTy : Ty := 16
def nValues : Nat := 8

/-! ### strict field parsers (the executor applies the same tests) -/

/-- 1 to 6 decimal digits -/
def natTok (s : String) : Option Nat :=
  let cs := s.toList
  if cs.isEmpty || cs.length > 6 || !cs.all Char.isDigit then none
  else some (cs.foldl (fun n c => n * 10 + (c.toNat - 48)) 0)

def hexTok (s : String) : Option Bytes := Bytes.ofHex s

def intTokOk (s : String) : Bool :=
  match s.toList with
  | '-' :: r => (natTok (String.ofList r)).isSome
  | _ => (natTok s).isSome

def bitTok (s : String) : Option Bool :=
  if s == "0" then some false else if s == "1" then some true else none

/-- `m` / `M` / FM / FMT: a concrete key type carries a value of itself, an interface key type a value
    of a concrete type that implements it -/
def mapOk (U : Universe) (ty cty : Nat) : Bool :=
  if ty ≤ 7 then cty == ty
  else if ty ≤ 11 then cty ≤ 7 && U.implements cty ty
  else false

def parsePanic : Char → Option PVal
  | 'S' => some .str | 'E' => some .err | 'R' => some .rt | 'T' => some .struct | 'A' => some .abort
  | _ => none

def parseMapSpec (U : Universe) (s : String) : Option (Ty × Val) :=
  match s.splitOn "." with
  | [ty, cty, vid] => do
    let ty ← natTok ty
    let cty ← natTok cty
    let vid ← natTok vid
    if mapOk U ty cty then some (ty, vid) else none
  | _ => none

def parseAct (U : Universe) (s : String) : Option MAct :=
  match s.toList with
  | ['n'] => some .next
  | ['c'] => some .cancel
  | ['p', k] => (parsePanic k).map .panic
  | 'w' :: r => (natTok (String.ofList r)).map fun c => .ops [.writeHeader c]
  | 'b' :: r => (hexTok (String.ofList r)).map fun b => .ops [.write b]
  | 'H' :: r =>
    match (String.ofList r).splitOn "." with
    | [k, v] => do some (.ops [.setHeader (← hexTok k) (← hexTok v)])
    | _ => none
  | 'm' :: r => (parseMapSpec U (String.ofList r)).map fun p => .map p.1 p.2
  | 'M' :: r => (parseMapSpec U (String.ofList r)).map fun p => .mapApp p.1 p.2
  | 'h' :: r =>
    match (String.ofList r).splitOn "." with
    | [c, b] => do some (.mapReturnHandler (Driver.Ret.customHandler (← natTok c) (← hexTok b)))
    | _ => none
  | 'j' :: r =>
    match (String.ofList r).splitOn "." with
    | [st, v] => do
      let v ← natTok v
      if v < nValues then some (.render (← natTok st) (.json v)) else none
    | _ => none
  | 'x' :: r =>
    match (String.ofList r).splitOn "." with
    | [st, v] => do
      let v ← natTok v
      if v < nValues then some (.render (← natTok st) (.xml v)) else none
    | _ => none
  | 'y' :: r =>
    match (String.ofList r).splitOn "." with
    | [st, b] => do some (.render (← natTok st) (.binary (← hexTok b)))
    | _ => none
  | 't' :: r =>
    match (String.ofList r).splitOn "." with
    | [st, b] => do some (.render (← natTok st) (.plainText (← hexTok b)))
    | _ => none
  | _ => none

def parseActs (U : Universe) (s : String) : Option (List MAct) :=
  if s == "-" then some [] else (s.splitOn ",").mapM (parseAct U)

def parseSig (s : String) : Option (List Ty) :=
  if s == "-" then some []
  else (s.splitOn ",").mapM fun t => do
    let n ← natTok t
    if n < nTypes then some n else none

/-- the value tokens the harness can build exactly -/
def retTokOk (t : String) : Bool :=
  match t.splitOn ":" with
  | ["s", h] => (hexTok h).isSome
  | ["b", h] => h == "nil" || (hexTok h).isSome
  | ["i", n] => intTokOk n
  | ["a", "nil"] => true
  | ["a", "e", k, h] => ["n", "w", "p", "v"].contains k && (hexTok h).isSome
  | ["a", "ep", "d"] => true
  | _ => false

def parseRet (s : String) : Option Ret.RetShape :=
  if s == "-" then some .none
  else
    let toks := s.splitOn "+"
    if toks.length > 2 || !toks.all retTokOk then none else Driver.Ret.parseShape toks

def isPanicAct : MAct → Bool
  | .panic _ => true
  | _ => false

/-- a handler, and — for a Renderer — its identity with the options as `Renderer` parsed them -/
def parseHandler (U : Universe) (s : String) : Option (MHandler × Option (Val × Render.Opts)) :=
  if s == "r" then some (.recovery, none)
  else match s.splitOn "/" with
    | ["s", p, i, e] => do
      some (.static { root := Driver.Static.root, pfx := (← hexTok p), index := (← hexTok i), setETag := (← bitTok e) }, none)
    | ["R", vid, cs, ji, xi] => do
      let vid ← natTok vid
      let o : Render.Opts := { charset := (← hexTok cs), jsonIndent := (← hexTok ji), xmlIndent := (← hexTok xi) }
      some (.renderer vid, some (vid, o.parse))
    | ["f", sig, acts, ret] => do
      let sig ← parseSig sig
      let acts ← parseActs U acts
      let ret ← parseRet ret
      if acts.any (fun a => !isPanicAct a) && !sig.contains 12 then none
      else some (.fn sig acts ret, none)
    | _ => none

/-! ### the session state -/

structure EncEntry where
  json   : Bool
  head   : Bool
  indent : Bytes
  v      : Nat
  out    : Render.EncOut

structure St where
  U       : Universe
  befores : List Flamego.App.BeforeKind := []
  mw      : List MHandler := []
  ops     : List RouterOp := []
  R       : Router := Router.new
  pending : List (Nat × List MHandler) := []
  reg     : List (Nat × List MHandler) := []
  action  : Option MHandler := none
  nf      : Option (List MHandler) := none
  /-- NewWithLogger: f.Map(logger) (its other registrations are of types outside the universe) -/
  scope   : Scope := [(15, 4000)]
  appRH   : Option Ret.Handler := none
  fs      : Driver.Static.Table := []
  frozen  : Bool := false
  ropts   : List (Val × Render.Opts) := []
  enc     : List EncEntry := []
  /-- the (json?, value) pairs some accepted handler may hand to `r.JSON` / `r.XML` -/
  usedVals : List (Bool × Nat) := []
  rid     : Nat := 0

def St.app (st : St) : MApp :=
  { befores := st.befores, middleware := st.mw, ops := st.ops,
    handlersOf := fun hid => (assocGet st.reg hid).getD [],
    action := st.action, notFound := st.nf.getD Flamego.AppFull.defaultNotFound,
    scope := st.scope, appRH := st.appRH }

def missingEnc : Render.EncOut := { chunks := [], err := some (Static.asc "missing-enc") }

def St.encoder (st : St) : Render.Encoder Nat :=
  let find (j h : Bool) (ind : Bytes) (v : Nat) : Render.EncOut :=
    match st.enc.find? (fun e => e.json == j && e.head == h && e.indent == ind && e.v == v) with
    | some e => e.out
    | none => missingEnc
  { json := fun h ind v => find true h ind v, xml := fun h ind v => find false h ind v }

/-- `staticContent(id)` of harness/static.go -/
def contentOf (id : Nat) : Bytes := Static.asc s!"<<file {id}>>" ++ List.replicate id 120

def htmlEscape (b : Bytes) : Bytes :=
  b.flatMap fun c =>
    if c = 38 then Static.asc "&amp;" else if c = 60 then Static.asc "&lt;" else if c = 62 then Static.asc "&gt;"
    else if c = 34 then Static.asc "&#34;" else if c = 39 then Static.asc "&#39;" else [c]

/-- the body of `http.Redirect(w, r, loc, 302)` for a GET -/
def redirectBody (loc : Bytes) : Bytes :=
  Static.asc "<a href=\"" ++ htmlEscape loc ++ Static.asc "\">Found</a>.\n\n"

def St.env (st : St) : MEnv :=
  { U := st.U, renderTy := renderTy,
    services := fun rid => [(12, 1000 + rid), (13, 2000 + rid), (14, 3000 + rid)],
    ph := [], enc := st.encoder,
    ropts := fun v => (assocGet st.ropts v).getD {},
    fs := Driver.Static.fsOf st.fs, content := contentOf, etag := Driver.Static.etagOf,
    redirectBody := redirectBody, dev := false }

/-- all handlers of a line, with the renderer table they extend; a renderer id declared twice with
    different options is refused -/
def parseHandlers (st : St) (fs : List String) : Option (List MHandler × List (Val × Render.Opts)) :=
  fs.foldlM (fun (acc : List MHandler × List (Val × Render.Opts)) f => do
    let (h, ro) ← parseHandler st.U f
    match ro with
    | none => some (acc.1 ++ [h], acc.2)
    | some (vid, o) =>
      match assocGet acc.2 vid with
      | some o' => if o' = o then some (acc.1 ++ [h], acc.2) else none
      | none => some (acc.1 ++ [h], acc.2 ++ [(vid, o)])) ([], st.ropts)

/-- the encoder inputs the handler may use: (JSON?, value) -/
def valsOf : MHandler → List (Bool × Nat)
  | .fn _ acts _ => acts.filterMap fun a => match a with
    | .render _ (.json v) => some (true, v)
    | .render _ (.xml v) => some (false, v)
    | _ => none
  | _ => []

/-- the handlers of an accepted line join the application -/
def St.learn (st : St) (ks : List MHandler) (ro : List (Val × Render.Opts)) : St :=
  { st with ropts := ro, frozen := true, usedVals := (st.usedVals ++ ks.flatMap valsOf).eraseDups }

def St.hasEnc (st : St) (j h : Bool) (ind : Bytes) (v : Nat) : Bool :=
  st.enc.any fun e => e.json == j && e.head == h && e.indent == ind && e.v == v

/-- a request can be predicted only when the session said what the standard encoder does for every value
    some handler may render under every declared renderer (for this kind of request): otherwise the line
    answers `missing-enc` on both sides and nothing happens -/
def St.encMissing (st : St) (head : Bool) : Bool :=
  st.usedVals.any fun jv => st.ropts.any fun ro =>
    !st.hasEnc jv.1 head (if jv.1 then ro.2.jsonIndent else ro.2.xmlIndent) jv.2

/-! ### the directory tree -/

def segCharOk (c : Char) : Bool := c.isAlphanum || c == '.' || c == '_' || c == '-'

/-- `.` (the served directory itself) or clean relative path of plain segments -/
def relOk (rel : Bytes) : Bool :=
  if rel = [Static.dot] then true
  else (splitSlash rel).all fun seg =>
    !seg.isEmpty && seg ≠ [Static.dot] && seg ≠ [Static.dot, Static.dot] && seg.all fun b => segCharOk (Char.ofNat b.toNat)

def parentOf (rel : Bytes) : Bytes :=
  match (splitSlash rel).dropLast with
  | [] => [Static.dot]
  | segs => joinSlash segs

/-- a new entry: not declared yet, its parent declared as a directory -/
def fsAddOk (t : Driver.Static.Table) (rel : Bytes) : Bool :=
  relOk rel && (t.lookup rel).isNone &&
    (rel = [Static.dot] || t.lookup (parentOf rel) == some Static.FsResult.dir)

/-! ### requests -/

def parseReqFields : List String → Option (List (Bytes × Bytes))
  | [] => some []
  | f :: rest => do
    let tail ← parseReqFields rest
    match f.splitOn "=" with
    | ["inm", id] => some ((Static.asc "If-None-Match", Driver.Static.etagOf (← natTok id)) :: tail)
    | [k, v] => some ((← hexTok k, ← hexTok v) :: tail)
    | _ => none

structure Frame where
  run       : Flamego.AppFull.RunFull
  nfDefault : Bool

def Frame.label (f : Frame) (i : Nat) : String :=
  let nm := f.run.cfg.nmw
  if i < nm then s!"m{i}"
  else if i < f.run.cfg.n then
    match f.run.which with
    | .route hid => s!"r{hid}.{i - nm}"
    | .notFound => s!"n{i - nm}"
  else "a"

/-- only `f` handlers are instrumented; the default not-found handler (`http.NotFound`) is not one -/
def Frame.shown (f : Frame) (i : Nat) : Bool :=
  match f.run.cfg.slot i with
  | some (.fn _ _ _) =>
    !(f.nfDefault && f.run.which == .notFound && f.run.cfg.nmw ≤ i && i < f.run.cfg.n)
  | _ => false

def showArgs (tys : List Ty) (args : List Val) : String :=
  if args.isEmpty then "-"
  else joinWith "," ((tys.zip args).map fun p => if p.1 == renderTy then "R" else toString p.2)

def Frame.events (env : MEnv) (f : Frame) : List Ev → List (Nat × List Val) → List String
  | [], _ => []
  | .enter i :: rest, calls =>
    match f.run.cfg.slot i with
    | some (.fn sig acts _) =>
      match calls with
      | (_, args) :: calls' =>
        (if f.shown i then [s!">{f.label i}[{showArgs (Flamego.AppFull.fullSig env sig acts) args}]"] else []) ++
          Frame.events env f rest calls'
      | [] => "model-inconsistent" :: Frame.events env f rest []
    | _ => Frame.events env f rest calls
  | .exit i :: rest, calls => (if f.shown i then [s!"<{f.label i}"] else []) ++ Frame.events env f rest calls
  | .abort i _ :: rest, calls => (if f.shown i then [s!"!{f.label i}"] else []) ++ Frame.events env f rest calls
  | _ :: rest, calls => Frame.events env f rest calls

def insertSorted (x : String) : List String → List String
  | [] => [x]
  | y :: ys => if x < y then x :: y :: ys else y :: insertSorted x ys

/-- net/http's `validHeaderFieldByte`: the token characters of RFC 7230 -/
def tokenByte (c : UInt8) : Bool :=
  let ch := Char.ofNat c.toNat
  c < 128 && (ch.isAlphanum || "!#$%&'*+-.^_`|~".toList.contains ch)

/-- `textproto.CanonicalMIMEHeaderKey`: what `Header().Set` stores a name under (`ETag` is kept as `Etag`);
    a name with a byte outside the token characters is left alone -/
def canonKey (k : Bytes) : Bytes :=
  if !k.all tokenByte then k
  else
    let rec go (upper : Bool) : Bytes → Bytes
      | [] => []
      | c :: rest =>
        let c' := if upper && 97 ≤ c && c ≤ 122 then c - 32
                  else if !upper && 65 ≤ c && c ≤ 90 then c + 32 else c
        c' :: go (c == 45) rest
    go true k

/-- the names of the live header map as net/http spells them, sorted -/
def showHdrNames (h : Render.Hdr) : String :=
  Driver.Chain.dash (((h.map fun p => Bytes.toStringLossy (canonKey p.1)).eraseDups).foldl
    (fun acc x => insertSorted x acc) [])

def showNats (xs : List Nat) : String := Driver.Chain.dash (xs.map toString)

/-- what a stopping Before hook wrote on the client's writer: the status and n times `x` -/
def preBody : List Writer.UEv → Bytes
  | [] => []
  | .body n :: r => List.replicate n 120 ++ preBody r
  | _ :: r => preBody r

def showResponse (env : MEnv) (nfDefault : Bool) (r : Flamego.AppFull.ResponseFull) : String :=
  match r.runs with
  | [] => s!"stop b={showNats r.befores} | - | c{Driver.Chain.clientCode r.pre} {(preBody r.pre).toHex} | hdrs=- | esc=-"
  | r1 :: _ =>
    let f : Frame := ⟨r1, nfDefault⟩
    s!"run b={showNats r.befores} | {Driver.Chain.dash (f.events env r1.st.trace r1.st.calls)} | " ++
      s!"c{Driver.Chain.clientCode r1.st.w.under} {r1.st.body.toHex} | hdrs={showHdrNames r1.st.hdr} | " ++
      Driver.Chain.showEsc r1.st.trace

/-! ### the session -/

def St.push (E : Engine) (st : St) (op : RouterOp) : St :=
  { st with ops := st.ops ++ [op], R := st.R.apply E op }

def parseEnc : List String → Option EncEntry
  | ["ENC", k, h, ind, v, b, res] => do
    let json ← (if k == "j" then some true else if k == "x" then some false else none)
    let head ← bitTok h
    let ind ← hexTok ind
    let v ← natTok v
    let b ← hexTok b
    let err ← (if res == "ok" then some none
               else match res.splitOn ":" with
                 | ["err", m] => (hexTok m).map some
                 | _ => none)
    if v < nValues then
      some { json := json, head := head, indent := ind, v := v,
             out := { chunks := if b.isEmpty then [] else [b], err := err } }
    else none
  | _ => none

def step (E : Engine) (st : St) (l : List String) : St × String :=
  match l with
  | "ENC" :: _ =>
    match parseEnc l with
    | some e => ({ st with enc := e :: st.enc }, "enc")
    | none => (st, "bad-op")
  | ["FM", ty, vid] =>
    match natTok ty, natTok vid with
    | some ty, some vid =>
      if ty ≤ 7 then ({ st with scope := Inject.register st.scope ty vid }, "ok") else (st, "bad-op")
    | _, _ => (st, "bad-op")
  | ["FMT", ity, cty, vid] =>
    match natTok ity, natTok cty, natTok vid with
    | some ity, some cty, some vid =>
      if 8 ≤ ity && mapOk st.U ity cty then ({ st with scope := Inject.register st.scope ity vid }, "ok")
      else (st, "bad-op")
    | _, _, _ => (st, "bad-op")
  | ["FRH", code, body] =>
    match natTok code, hexTok body with
    | some c, some b => ({ st with appRH := some (Driver.Ret.customHandler c b) }, "ok")
    | _, _ => (st, "bad-op")
  | ["FS", rel, "d"] =>
    match hexTok rel with
    | some rel =>
      if !st.frozen && fsAddOk st.fs rel then ({ st with fs := st.fs ++ [(rel, Static.FsResult.dir)] }, "fs")
      else (st, "bad-op")
    | none => (st, "bad-op")
  | ["FS", rel, "f", id] =>
    match hexTok rel, natTok id with
    | some rel, some id =>
      if !st.frozen && rel ≠ [Static.dot] && fsAddOk st.fs rel &&
          !(st.fs.any fun e => e.2 == Static.FsResult.file id) then
        ({ st with fs := st.fs ++ [(rel, Static.FsResult.file id)] }, "fs")
      else (st, "bad-op")
    | _, _ => (st, "bad-op")
  | "B" :: _ =>
    match Flamego.Driver.App.parseBefore l with
    | some b => ({ st with befores := st.befores ++ [b] }, "b")
    | none => (st, "bad-op")
  | ["MW", h] =>
    match parseHandlers st [h] with
    | some ([k], ro) => ({ st.learn [k] ro with mw := st.mw ++ [k] }, "h")
    | _ => (st, "bad-op")
  | "RH" :: hid :: hs =>
    match natTok hid, parseHandlers st hs with
    | some hid, some (ks, ro) => ({ st.learn ks ro with pending := assocSet st.pending hid ks }, "h")
    | _, _ => (st, "bad-op")
  | ["ACT", h] =>
    match parseHandlers st [h] with
    | some ([k], ro) => ({ st.learn [k] ro with action := some k }, "h")
    | _ => (st, "bad-op")
  | "NF" :: hs =>
    match parseHandlers st hs with
    | some (ks, ro) => ({ st.learn ks ro with nf := some ks }, "h")
    | none => (st, "bad-op")
  | ["ADD", hid, ms, text, ast] =>
    match natTok hid with
    | none => (st, "bad-op")
    | some hid =>
      if (assocGet st.reg hid).isSome then (st, "bad-op")          -- a handle is used once
      else
      -- the handlers given by the last `RH <hid>` belong to this registration, whatever its verdict
      let st := { st with reg := assocSet st.reg hid ((assocGet st.pending hid).getD []) }
      -- as in Driver/App: the text is parsed by the model parser, the AST on the line is a cross-check
      let parsed := Flamego.parse (hexOf text)
      if parsed != Driver.Router.parseAst ast then (st, "ast-mismatch")
      else match parsed with
      | none => (st, "err")
      | some r =>
        let methods := Driver.Router.methodsOf ms
        if methods.any (fun m => !(Gen.httpMethods.contains m)) then (st, "err")
        else
          let ok := (st.R.addMethods E hid r methods []).2
          (st.push E (.add hid r methods), if ok then "ok" else "err")
  | "REQ" :: m :: p :: hs =>
    match hexTok m, hexTok p, parseReqFields hs with
    | some m, some p, some hdrs =>
      if st.encMissing (m.toStringLossy == "HEAD") then (st, "missing-enc") else
      let req : Request := ⟨m.toStringLossy, p, hdrs⟩
      let env := st.env
      let resp := Flamego.AppFull.serveFull env E st.app st.rid req
      ({ st with scope := resp.scope, rid := st.rid + 1, frozen := true }, showResponse env st.nf.isNone resp)
    | _, _, _ => (st, "bad-op")
  | _ => (st, "bad-op")

def session (E : Engine) (args : List String) (lines : List (List String)) : List String :=
  match args with
  | [n, bits, rows] =>
    if natTok n != some nTypes then "bad-universe" :: lines.map (fun _ => "bad-universe")
    else
      let rec go (st : St) : List (List String) → List String
        | [] => []
        | l :: rest => let (st', out) := step E st l; out :: go st' rest
      "new" :: go { U := Driver.Inject.parseUniverse bits rows } lines
  | _ => "bad-universe" :: lines.map (fun _ => "bad-universe")

end Flamego.Driver.AppFull
