/-
  Driver/Parser.lean — `NEW parser` sessions (C06).
  ops:  PARSE <hex>            → `ok <hex canonical> <ast> <fix|nofix>` | `err` | `panic`
        DOCW <hex> <acc|rej>   → `docw <acc|rej> <same|differs>`   (verdict vs. what the README's BNF says; F12)
  <ast> (no blanks):  seg ("|" seg)*        seg  = ("o"|"m") ("." elem)*        o = optional
                      elem = "I"<hex> | "B"<hex> | "P" param ("," param)*
                      param = <hex ident> ":" ("L"|"R") <hex>
  `fix` = the canonical string parses again to the same AST and renders to itself.

  The model answers with the lexer table REGENERATED from parser.go. When that table is no longer
  the documented one (`RouteGrammar.docRules`; then `rules_documented` has already failed to
  build), every answer whose outcome under the documented table is different gets the suffix
  ` doc-differs:<documented outcome>` — so the correspondence run reports exactly the inputs on
  which the current source leaves the documented grammar. On the unchanged tree this costs nothing.
-/
import Flamego.Model.Parser
import Flamego.Spec.RouteGrammar
import Flamego.Driver.Common
namespace Flamego.Driver.Parser

def showVal : BindVal → String
  | .lit s => "L" ++ s.toHex
  | .re s => "R" ++ s.toHex

def showParam (p : BindParam) : String := p.ident.toHex ++ ":" ++ showVal p.val

def showElem : Elem → String
  | .ident s => "I" ++ s.toHex
  | .bind n => "B" ++ n.toHex
  | .params ps => "P" ++ joinWith "," (ps.map showParam)

def showSeg (s : Segment) : String :=
  (if s.optional then "o" else "m") ++ String.join (s.elems.map fun e => "." ++ showElem e)

def showRoute (r : Route) : String :=
  if r.segs.isEmpty then "none" else joinWith "|" (r.segs.map showSeg)

def showOutcome : ParseOutcome → String
  | .panic => "panic"
  | .err => "err"
  | .ok r =>
    let c := r.render
    let fix := match parseOutcome c with
      | .ok r2 => r2 == r && r2.render == c
      | _ => false
    s!"ok {c.toHex} {showRoute r} {if fix then "fix" else "nofix"}"

/-- is the regenerated table still the documented one? (evaluated once) -/
def tableIsDocumented : Bool := decide (Gen.lexRules = RouteGrammar.docRules)

def answer : List String → String
  | ["PARSE", h] =>
    let o := parseOutcome (hexOf h)
    if tableIsDocumented then showOutcome o
    else
      let d := parseOutcomeWith RouteGrammar.docRules (hexOf h)
      if d == o then showOutcome o
      else showOutcome o ++ " doc-differs:" ++ (match d with | .ok r => "ok:" ++ showRoute r | .err => "err" | .panic => "panic")
  | ["DOCW", h, doc] =>
    match parseOutcome (hexOf h) with
    | .panic => "panic"
    | o =>
      let v := match o with | .ok _ => "acc" | _ => "rej"
      s!"docw {v} {if v == doc then "same" else "differs"}"
  | _ => "bad-op"

def session (_args : List String) (lines : List (List String)) : List String :=
  "new" :: lines.map answer

end Flamego.Driver.Parser
