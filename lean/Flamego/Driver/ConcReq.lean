/-
  Driver/ConcReq.lean — `NEW concreq <n> <isInterface bits> <implements rows>` sessions (suite C05).
  Protocol: see the head of harness/concreq.go.

  The `A`/`AT`/`R` lines build the shared `Config` (application scope, named routes), the `Q` lines the
  requests, the `O` lines their programs — and, read in line order, a schedule.  What is printed for an
  `O` line is the observation of `Conc.solo reqMachine` for that request (the request served ALONE);
  the driver also runs `Conc.run` over the schedule of the session and prints `model-inconsistent`
  should the two ever differ (they cannot: Props/C05Req `req_interleaving_serial`).

  `B` lines are the Before hooks of the Flame (`Model/App` `BeforeKind`, `runBefores`: FIFO, the first one that
  returns true ends the request before the router is asked and before any context exists).  A hook of these
  sessions looks at the request's URL path: for a request with another path it is `pass`.  A request some hook
  answers performs none of its operations (`not-run`); its `E` line shows what the hook sent to the client's
  writer, and zeros for the flamego writer that was never created.

  A lookup is printed as the set of admissible answers (`valueSet`, smallest first, `|`-separated), of
  which `value … c` picks one for every iteration choice `c` (Proofs/Inject `pick_mem`).
-/
import Flamego.Model.ConcReq
import Flamego.Model.Parser
import Flamego.Model.App
import Flamego.Driver.Common
namespace Flamego.Driver.ConcReq
open Flamego.ConcReq Flamego.Inject

def parseUniverse (bits rows : String) : Universe :=
  let b : Array Bool := bits.toList.toArray.map (· == '1')
  let m : Array (Array Bool) := (rows.splitOn ",").toArray.map (fun r => r.toList.toArray.map (· == '1'))
  { isInterface := fun t => b.getD t false
    implements := fun k t => (m.getD k #[]).getD t false }

def showSet (xs : List Val) : String :=
  joinWith "|" ((xs.mergeSort (· ≤ ·)).eraseDups.map toString)

def parseParams (s : String) : Params :=
  if s == "-" then [] else (s.splitOn ",").filterMap fun kv =>
    match kv.splitOn "=" with
    | [k, v] => some (hexOf k, hexOf v)
    | _ => none

def parseOp : List String → Option MicroOp
  | ["m", t, v] => some (.map (natOf t) (natOf v))
  | ["mt", it, _, v] => some (.map (natOf it) (natOf v))
  | ["v", t] => some (.lookup (natOf t) 0)
  | ["wh", c] => some (.w (.writeHeader (natOf c)))
  | ["w", n] => some (.w (.write (natOf n) (natOf n)))      -- the spy accepts every byte
  | ["fl"] => some (.w .flush)
  | ["bf", h] => some (.w (.before (natOf h)))
  | ["st"] => some (.w .status)
  | ["sz"] => some (.w .size)
  | ["wr"] => some (.w .written)
  | ["p", n] => some (.param (hexOf n))
  | ["sp", k, v] => some (.setParam (hexOf k) (hexOf v))
  | "u" :: name :: pairs => some (.urlPath (hexOf name) (pairs.map hexOf))
  | _ => none

def showEv : Writer.UEv → String
  | .hdr c => s!"hdr{c}"
  | .body n => s!"body{n}"
  | .flush => "flush"
  | .hook h => s!"hook{h}"

/-- the line for the `k`-th operation of a request: from the record before (`pre`) and after it (`st`) -/
def showStep (cfg : Config) (op : MicroOp) (pre st : St) : String :=
  match op, st.obs.getLast? with
  | .map _ _, some .mapped => "mapped"
  | .lookup t _, some (.value _) =>
    let vs := valueSet cfg.U (chainOf cfg pre) t
    if vs.isEmpty then "none" else s!"val {showSet vs}"
  | .w _, some (.wobs n) => s!"w {n} {st.writer.status} {st.writer.size}"
  | .param _, some (.param v) => s!"p {v.toHex}"
  | .setParam _ _, some .stored => "stored"
  | .routeString _, some (.str s) => s!"rs {s}"
  | .urlPath _ _, some (.url (some u)) => s!"u {u.toHex}"
  | .urlPath _ _, some (.url none) => "u panic"
  | _, _ => "model-inconsistent"

/-- the `act` fields of a `B` line -/
def parseHook : List String → Option App.BeforeKind
  | ["p"] => some .pass
  | ["s", "-"] => some (.stop none)
  | ["s", w] => match w.splitOn ":" with
    | [c, n] => if c.isNat && n.isNat then some (.stop (some (c.toNat!, n.toNat!))) else none
    | _ => none
  | _ => none

/-- the hooks of the Flame as THIS request meets them: a hook that waits for another path returns false -/
def hooksFor (hooks : List (Bytes × App.BeforeKind)) (path : Bytes) : List App.BeforeKind :=
  hooks.map fun (p, k) => if p == path then k else .pass

structure RQ where
  rid : Nat
  route : Nat
  req : Req
  /-- `some evs`: a Before hook answered the request (and sent `evs`); the router never saw it -/
  answered : Option (List Writer.UEv) := none
  /-- body line index of every operation -/
  lines : List Nat := []
  endLine : Option Nat := none

def session (args : List String) (lines : List (List String)) : List String :=
  match args with
  | [_, bits, rows] =>
    let U := parseUniverse bits rows
    -- pass 1: configuration and requests
    -- the Before hooks first (set-up: they are all registered before the first request is served)
    let hooks : List (Bytes × App.BeforeKind) := lines.filterMap fun l =>
      match l with
      | "B" :: path :: act => (parseHook act).map fun k => (hexOf path, k)
      | _ => none
    let init : List Scope × List (Bytes × Route) × List RQ × List Nat × List (Nat × String) := ([[]], [], [], [], [])
    let (app, named, rqs, sched, fixed) := (lines.zipIdx).foldl (fun (acc : List Scope × List (Bytes × Route) × List RQ × List Nat × List (Nat × String)) (li : List String × Nat) =>
      let (app, named, rqs, sched, fixed) := acc
      let (l, i) := li
      match l with
      | "B" :: _ :: act => (app, named, rqs, sched, (i, if (parseHook act).isSome then "ok" else "bad-op") :: fixed)
      | ["A", t, v] => (app.map (register · (natOf t) (natOf v)), named, rqs, sched, (i, "ok") :: fixed)
      | ["AT", it, _, v] => (app.map (register · (natOf it) (natOf v)), named, rqs, sched, (i, "ok") :: fixed)
      | ["R", name, text] =>
        match Flamego.parse (hexOf text) with
        | some r => (app, named ++ [(hexOf name, r)], rqs, sched, (i, "ok") :: fixed)
        | none => (app, named, rqs, sched, (i, "err") :: fixed)
      | ["Q", rid, route, head, path, _, ps] =>
        let routeText : Bytes := match named[natOf route]? with
          | some (_, r) => r.render
          | none => []
        -- the router hands the request its bind parameters and the text of the matched route
        let params : Params := parseParams ps ++ [(B "route", routeText)]
        -- `for _, h := range f.befores { if h(w, r) { return } }` comes first
        let answered := (App.runBefores (hooksFor hooks (hexOf path)) 0).2
        (app, named, rqs ++ [{ rid := natOf rid, route := natOf route, req := { head := head == "1", params := params }, answered := answered }], sched, (i, "ok") :: fixed)
      | "O" :: rid :: op =>
        let rid := natOf rid
        let mop : Option MicroOp := if op == ["rs"] then
            (rqs.find? (·.rid == rid)).map (fun q => MicroOp.routeString q.route)
          else parseOp op
        match mop with
        | none => (app, named, rqs, sched, (i, "bad-op") :: fixed)
        | some mop =>
          if rqs.any (fun q => q.rid == rid && q.answered.isSome) then
            -- no context, no handler: the operation is a line of the session that nobody performs
            (app, named, rqs.map (fun q => if q.rid == rid then { q with lines := q.lines ++ [i] } else q), sched, fixed)
          else if rqs.any (·.rid == rid) then
            (app, named, rqs.map (fun q => if q.rid == rid then { q with req := { q.req with prog := q.req.prog ++ [mop] }, lines := q.lines ++ [i] } else q),
             sched ++ [rid], fixed)
          else (app, named, rqs, sched, (i, "bad-op") :: fixed)
      | ["E", rid] =>
        if rqs.any (·.rid == natOf rid) then
          (app, named, rqs.map (fun q => if q.rid == natOf rid then { q with endLine := some i } else q), sched, fixed)
        else (app, named, rqs, sched, (i, "bad-op") :: fixed)
      | _ => (app, named, rqs, sched, (i, "bad-op") :: fixed)) init
    let cfg : Config := { U := U, app := app, router := { Router.new with named := named }, routes := named.map (·.2) }
    -- pass 2: every request alone, and all of them interleaved as the session's lines say
    let reqsFn : Nat → Req := fun rid => ((rqs.find? (·.rid == rid)).map (·.req)).getD {}
    let world := Conc.run reqMachine cfg reqsFn sched (Conc.World.start reqMachine reqsFn)
    let outs : List (Nat × String) := rqs.flatMap fun q =>
      match q.answered with
      | some evs =>
        let tr := if evs.isEmpty then "none" else joinWith "," (evs.map showEv)
        q.lines.map (fun li => (li, "not-run")) ++ (match q.endLine with
          | some li => [(li, s!"end 0 0 0 {tr}")]
          | none => [])
      | none =>
      let n := q.req.prog.length
      let final := Conc.solo reqMachine cfg q.req n
      let inter := world.locals q.rid
      let consistent := inter.obs == final.obs && inter.writer.under == final.writer.under &&
        inter.writer.status == final.writer.status && inter.params == final.params && inter.scope == final.scope
      let opLines := (q.lines.zipIdx).map fun (li, k) =>
        let pre := Conc.solo reqMachine cfg q.req k
        let st := Conc.solo reqMachine cfg q.req (k + 1)
        (li, if consistent then (match q.req.prog[k]? with
          | some op => showStep cfg op pre st
          | none => "model-inconsistent") else "model-inconsistent")
      let endL := match q.endLine with
        | some li =>
          let tr := if final.writer.under.isEmpty then "none" else joinWith "," (final.writer.under.map showEv)
          [(li, s!"end {final.writer.status} {final.writer.size} {if final.writer.written then 1 else 0} {tr}")]
        | none => []
      opLines ++ endL
    let table : Std.HashMap Nat String := (fixed ++ outs).foldl (fun m (i, s) => m.insert i s) {}
    "new" :: (List.range lines.length).map fun i => (table.get? i).getD "bad-op"
  | _ => "bad-universe" :: lines.map (fun _ => "bad-universe")

end Flamego.Driver.ConcReq
