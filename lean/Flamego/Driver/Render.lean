/-
  Driver/Render.lean — `NEW render <method> <charset> <jsonIndent> <xmlIndent>` sessions (C17).
  One Flame instance with `Renderer(opts)`; every op line is one request.

  ops:  R bin  <status> <pre> <payload> <wire>
        R txt  <status> <pre> <payload> <wire>
        R json <status> <pre> <rt> <valueSpec> <encoderBytes> <ok|err:<msg>> <wire>
        R xml  <status> <pre> <rt> <valueSpec> <encoderBytes> <ok|err:<msg>> <wire>
          wire = 1: the harness ALSO serves this request through a real net/http server and client
                 and compares what the client receives with what was handed to the writer (only
                 asked for where net/http transmits faithfully: not HEAD, codes 200..599 but 204/304)
          pre = n | comma-separated atoms  c:<contentType>  h:<code>  w:<bytes>
                (what the handler does to the ResponseWriter before it calls the renderer)
          rt  = 1 when the generator claims the value survives encode→decode unchanged
          encoderBytes / msg = what the STANDARD encoder (not flamego) produced for the value with
                the session's indentation: the encoder is a parameter of the model, so its output
                arrives as data; valueSpec is only for the harness.
  out:  <rec.Code> live=<headers in the live map> sent=<headers the client gets> <body> <decode token>
        len=<none|ok|bad> wire=<-|ok|bad>
          headers: every header name, sorted, `name:hexvalue` for Content-Type,
          X-Content-Type-Options and Content-Length, the bare name for any other

        V <chainA> <chainB>     two routes on a fresh instance; requests /a, /b, /a
          chain letters: R Renderer (the j-th one has Charset "c<j>")  P handler taking Render
                         O handler mapping an unrelated type  N plain handler
                         F final handler taking Render and calling PlainText(200,"ok")
                         G final handler without Render writing "plain"
  out:  a=<res> b=<res> a2=<res> cross=fresh
          res = unresolved@<index of the handler whose injection failed>
              | <ids of the renderers the P handlers saw, first-seen numbering>;<Content-Type|plain>
-/
import Flamego.Model.Render
import Flamego.Driver.Common
namespace Flamego.Driver.Render
open Flamego.Render

/-- the encoder parameter, instantiated with the data on the op line -/
def lineEnc (out : EncOut) : Encoder Unit := { json := fun _ _ _ => out, xml := fun _ _ _ => out }

def parsePre (s : String) : List ROp :=
  if s == "n" then [] else
  (s.splitOn ",").filterMap fun atom =>
    match atom.splitOn ":" with
    | ["c", v] => some (.setHeader ctKey (hexOf v))
    | ["h", c] => some (.writeHeader (natOf c))
    | ["w", b] => some (.write (hexOf b))
    | _ => none

def parseErr (s : String) : Option Bytes :=
  match s.splitOn ":" with
  | ["err", m] => some (hexOf m)
  | _ => none

def firstHdr : List Writer.UEv → Option Nat
  | [] => none
  | .hdr c :: _ => some c
  | _ :: t => firstHdr t

/-- header names whose values are printed (the ones the renderer or `http.Error` may set, plus
    Content-Length); any other header is printed by name only -/
def shownValues : List String := ["Content-Type", "X-Content-Type-Options", "Content-Length"]

def insertSorted (x : String × String) : List (String × String) → List (String × String)
  | [] => [x]
  | y :: ys => if x.1 < y.1 then x :: y :: ys else y :: insertSorted x ys

/-- a header map as `name:hexvalue,name:hexvalue` sorted by name (`-` when empty) -/
def showHdr (h : Hdr) : String :=
  let items := h.map fun (k, v) =>
    let name := Bytes.toStringLossy k
    (name, if shownValues.contains name then s!"{name}:{v.toHex}" else name)
  let sorted := items.foldl (fun acc x => insertSorted x acc) []
  if sorted.isEmpty then "-" else joinWith "," (sorted.map (·.2))

/-- self-consistency of a Content-Length the client is told: it must be the number of body bytes
    handed to the wrapped writer -/
def lenToken (r : Resp) : String :=
  match (r.sent.getD r.hdr).get b!"Content-Length" with
  | none => "len=none"
  | some v => if (Bytes.toStringLossy v).toNat? == some r.body.length then "len=ok" else "len=bad"

def showResp (r : Resp) (dec wire : String) : String :=
  let code := (firstHdr r.w.under).getD 200          -- httptest: Code is 200 until a status arrives
  let wireTok := if wire == "1" then "wire=ok" else "wire=-"   -- a faithful server delivers what it was handed
  s!"{code} live={showHdr r.hdr} sent={showHdr (r.sent.getD r.hdr)} {r.body.toHex} {dec} {lenToken r} {wireTok}"

def request (head : Bool) (o : Opts) : List String → Option String
  | ["R", "bin", st, pre, b, wire] =>
    let r := (Resp.init head).run (parsePre pre)
    some (showResp (render (lineEnc {}) o (natOf st) (.binary (hexOf b)) r) "-" wire)
  | ["R", "txt", st, pre, b, wire] =>
    let r := (Resp.init head).run (parsePre pre)
    some (showResp (render (lineEnc {}) o (natOf st) (.plainText (hexOf b)) r) "-" wire)
  | ["R", k, st, pre, rt, _spec, encb, err, wire] =>
    let eb := hexOf encb
    let out : EncOut := { chunks := if eb.isEmpty then [] else [eb], err := parseErr err }
    let r := (Resp.init head).run (parsePre pre)
    let dec := if out.err.isSome then "enc-error" else if head then "decodes-nobody"
               else if rt == "1" then "decodes-ok" else "decodes-skip"
    if k == "json" then some (showResp (render (lineEnc out) o (natOf st) (.json ()) r) dec wire)
    else if k == "xml" then some (showResp (render (lineEnc out) o (natOf st) (.xml ()) r) dec wire)
    else none
  | _ => none

/-! ### visibility -/

/-- run one chain as request `rid` on instance `i`; handlers are events of the instance -/
def runChain (i : Inst) (rid : Nat) (chain : List Char) : Inst × String :=
  let rec go (i : Inst) (idx nR : Nat) (seen : List Val) (ids : List String) : List Char → Inst × String
    | [] => (i, "no-final")
    | c :: rest =>
      let ask := i.resolveIn rid .render
      let idOf (v : Val) (seen : List Val) : Nat × List Val :=
        match seen.idxOf? v with
        | some k => (k, seen)
        | none => (seen.length, seen ++ [v])
      let idsStr (ids : List String) := if ids.isEmpty then "-" else joinWith "." ids
      match c with
      | 'R' => go (i.step (rid, .renderer { charset := Bytes.ofString s!"c{nR}" })) (idx + 1) (nR + 1) seen ids rest
      | 'O' => go (i.step (rid, .mapOther 7 idx)) (idx + 1) nR seen ids rest
      | 'N' => go (i.step (rid, .probe)) (idx + 1) nR seen ids rest
      | 'P' => match ask with
        | none => (i, s!"unresolved@{idx}")
        | some v =>
          let (k, seen') := idOf v seen
          go (i.step (rid, .probe)) (idx + 1) nR seen' (ids ++ [toString k]) rest
      | 'F' => match ask with
        | some (.render _ o) => (i, s!"{idsStr ids};{(contentType o .plainText).toHex}")
        | _ => (i, s!"unresolved@{idx}")
      | 'G' => (i, s!"{idsStr ids};plain")
      | _ => (i, "bad-chain")
  go i 0 0 [] [] chain

def visibility (a b : String) : String :=
  let i0 := Inst.new []            -- flamego.New(): nothing bound to Render on the instance
  let (i1, ra) := runChain i0 1 a.toList
  let (i2, rb) := runChain i1 2 b.toList
  let (_, ra2) := runChain i2 3 a.toList
  -- renderers resolved in different requests are different values by construction (`Val.render rid _`)
  s!"a={ra} b={rb} a2={ra2} cross=fresh"

def session (args : List String) (lines : List (List String)) : List String :=
  let head := args.head? == some "HEAD"
  let o : Opts := { charset := hexOf (args.getD 1 "-"), jsonIndent := hexOf (args.getD 2 "-"),
                    xmlIndent := hexOf (args.getD 3 "-") }
  let op := o.parse                                   -- Renderer(opts) parses once
  "new" :: lines.map fun l =>
    match l with
    | ["V", a, b] => visibility a b
    | _ => (request head op l).getD "bad-op"

end Flamego.Driver.Render
