/-
  Driver/Common.lean — helpers for the line protocol (DESIGN.md appendix B).
  One operation per line, fields separated by single blanks, byte strings in hex
  (`-` = empty).  Every input line produces exactly one output line.
-/
import Flamego.Base.Engine
import Std.Data.HashMap
namespace Flamego.Driver

def fields (line : String) : List String :=
  (line.splitOn " ").filter (· ≠ "")

def natOf (s : String) : Nat := s.toNat?.getD 0

def hexOf (s : String) : Bytes := (Bytes.ofHex s).getD []

/-- Table of oracle answers, filled from `E …` lines. A missing entry is a *harness* error:
    the driver prints `MISSING-ORACLE` and the check fails as broken, never as a verdict. -/
structure Oracle where
  compile : Std.HashMap String (Option Nat) := {}
  find    : Std.HashMap String (Option (List Bytes)) := {}
  search  : Std.HashMap String Bool := {}
  /-- `strconv.ParseFloat(s, 64)` value component as IEEE-754 bits (C18), filled from `E PF s bits` -/
  float   : Std.HashMap String UInt64 := {}

def Oracle.add (o : Oracle) (fs : List String) : Oracle :=
  match fs with
  | ["E", "C", p, r] => { o with compile := o.compile.insert p (if r == "err" then none else some (natOf r)) }
  | ["E", "F", p, s, r] =>
    let v : Option (List Bytes) := if r == "nomatch" then none else some ((r.splitOn ",").map hexOf)
    { o with find := o.find.insert (p ++ " " ++ s) v }
  | ["E", "PF", s, r] => { o with float := o.float.insert s (natOf r).toUInt64 }
  | ["E", "S", p, s, r] => { o with search := o.search.insert (p ++ " " ++ s) (r == "1") }
  | _ => o

/-- sentinel submatch list returned for a missing oracle entry; detected by the driver -/
def missingMark : Bytes := Bytes.ofString "\x00MISSING-ORACLE\x00"

def Oracle.engine (o : Oracle) : Engine where
  compile p := match o.compile.get? p.toHex with
    | some r => r
    | none => some 424242
  find p s := match o.find.get? (p.toHex ++ " " ++ s.toHex) with
    | some r => r
    | none => some [missingMark]
  search p s := match o.search.get? (p.toHex ++ " " ++ s.toHex) with
    | some r => r
    | none => false

def joinWith (sep : String) (xs : List String) : String := sep.intercalate xs

end Flamego.Driver
