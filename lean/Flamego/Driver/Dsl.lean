/-
  Driver/Dsl.lean — `NEW dsl <m|x> <wrap>` sessions (C11); protocol in harness/dsl.go.

  S-lines build the program (a stack of open `group`/`recover` blocks), `RUN` runs `interp` on
  it, `Q <method> <route> <request>` looks the registration `(method, route)` up in the result
  and prints the handler chain the request runs.  In mode `x` (rich route syntax) only the
  harness's program-versus-flat comparison is meaningful; the model prints the constant answer.

  Mode `m`: the tree layer's answer is the REAL one, `DslApp.accReal E` (model parser + model
  route trees on the router built from the earlier registrations), and every `Q` line is answered
  END TO END: the request is served by `App.serve` on the application the program declares
  (`DslApp.appOfProg`, Props/C11App); "reg" iff the chain started is a registration's and the
  `route` parameter the router handed over is the probed route text, the handler trace is read
  off the chain machine's event trace.  The Dsl-level answer (look the registration up in the
  flat list) is computed as well; if the two differ the line carries `dsl=<answer>` and the
  comparison with the harness fails.  The routes of mode `m` use no regular expression, so the
  engine is never consulted.  Mode `x` keeps the simple rule `accKeys` (only the harness's
  program-versus-flat comparison is meaningful there).

  `S headers <k:v,…|->` (mode `x` only; right after a `route` / `verb` / `any` / `routes` line of the same block):
  `.Headers(k, v, …)` called on the `*Route` that declaration returned.  Its flat reading — computed and executed by the
  harness — is the same call on the `*Route` of every single-method registration the declaration stands for.  `Q` lines
  with a fifth field carry request header fields (mode `x` only).  As for everything in mode `x` the documented answer
  is the constant one: the program and its flat reading agree (`x eq`); here the lines are only checked for their form.
-/
import Flamego.Model.Dsl
import Flamego.Model.DslApp
import Flamego.Driver.Common
namespace Flamego.Driver.Dsl
open Flamego.Dsl

def natStrict (s : String) : Option Nat :=
  if s.isEmpty || s.length > 9 || !(s.all Char.isDigit) then none else s.toNat?

def idsOf (s : String) : Option (List Nat) :=
  if s == "-" then some [] else (s.splitOn ".").mapM natStrict

def verbOf : String → Option Verb
  | "get" => some .get | "post" => some .post | "put" => some .put | "delete" => some .delete
  | "patch" => some .patch | "options" => some .options | "head" => some .head
  | "connect" => some .connect | "trace" => some .trace | _ => none

def argOf (s : String) : Option RArg :=
  if s.startsWith "s:" then (Bytes.ofHex (String.ofList (s.toList.drop 2))).map RArg.str
  else if s.startsWith "f:" then (natStrict (String.ofList (s.toList.drop 2))).map RArg.fn
  else none

def callOf (s : String) : Option (Verb × List Nat) :=
  match s.splitOn ":" with
  | [v, ids] => do
    let v ← verbOf v
    let ids ← idsOf ids
    pure (v, ids)
  | _ => none

inductive PLine
  | stmt (s : Stmt)
  | openGroup (p : Bytes) (hs : List Nat)
  | openRecover
  | close

def parseLine : List String → Option PLine
  | ["S", "route", m, p, ids] => do
    let m ← Bytes.ofHex m; let p ← Bytes.ofHex p; let ids ← idsOf ids
    pure (.stmt (.route m p ids))
  | ["S", "verb", v, p, ids] => do
    let v ← verbOf v; let p ← Bytes.ofHex p; let ids ← idsOf ids
    pure (.stmt (.verb v p ids))
  | ["S", "any", p, ids] => do
    let p ← Bytes.ofHex p; let ids ← idsOf ids
    pure (.stmt (.any p ids))
  | ["S", "routes", p, ms, args] => do
    let p ← Bytes.ofHex p; let ms ← Bytes.ofHex ms
    let args ← if args == "-" then some [] else (args.splitOn ",").mapM argOf
    pure (.stmt (.routes p ms args))
  | ["S", "combo", p, ids, calls] => do
    let p ← Bytes.ofHex p; let ids ← idsOf ids
    let calls ← if calls == "-" then some [] else (calls.splitOn ";").mapM callOf
    pure (.stmt (.combo p ids calls))
  | ["S", "group", p, ids] => do
    let p ← Bytes.ofHex p; let ids ← idsOf ids
    pure (.openGroup p ids)
  | ["S", "recover"] => some .openRecover
  | ["S", "end"] => some .close
  | ["S", "autohead", "0"] => some (.stmt (.autoHead false))
  | ["S", "autohead", "1"] => some (.stmt (.autoHead true))
  | ["S", "panic"] => some (.stmt .panic)
  | _ => none

/-- "-" or a comma list of `<hex>:<hex>` -/
def pairsOk (s : String) : Bool :=
  s == "-" || (s.splitOn ",").all fun it =>
    match it.splitOn ":" with
    | [k, v] => (Bytes.ofHex k).isSome && (Bytes.ofHex v).isSome
    | _ => false

/-- the declarations that return a `*Route` -/
def returnsRoute : Stmt → Bool
  | .route .. | .verb .. | .any .. | .routes .. => true
  | _ => false

/-- an open block: `none` = the program itself; body in reverse order -/
structure Frame where
  opener : Option (Option (Bytes × List Nat)) := none   -- some none = recover, some (some g) = group
  body   : List Stmt := []

def Frame.close (f : Frame) : Option Stmt :=
  match f.opener with
  | none => none
  | some none => some (.recover f.body.reverse)
  | some (some (p, hs)) => some (.group p hs f.body.reverse)

/-- the route texts a registration occupies in its method's tree -/
def keys (path : Bytes) : List Bytes :=
  let segs := splitSlash path
  match segs.getLast? with
  | some (63 :: _) => [path, joinSlash segs.dropLast]
  | _ => [path]

def accKeys : Acc := fun regs r =>
  regs.all fun r' => r'.method != r.method || (keys r'.path).all fun k => !(keys r.path).contains k

def showIds (l : List Nat) : String :=
  if l.isEmpty then "-" else joinWith "." (l.map toString)

def showErr : Err → String
  | .unknownMethod => "unknownMethod" | .rejected => "rejected" | .emptyMethods => "emptyMethods"
  | .badHandler => "badHandler" | .comboDup => "comboDup" | .user => "user"

/-- the surrounding application of the harness (`dNewFlame`): one `f.Use` middleware that records
    the parameters and returns, no action, the default not-found handler -/
def drvBase : App.App := { middleware := [.plain { acts := [] }] }

/-- handler `k` of the harness appends `k` to the trace and returns nothing -/
def drvEnv : Nat → App.Handler := fun _ => .plain { acts := [] }

structure S where
  stack : List Frame := [{}]
  bad   : Bool := false
  res   : Option Result := none
  /-- mode m: the application the program declares (`DslApp.appOfProg`, i.e. `appOfRegs` of the
      registrations `interp (accReal E)` left) and its router `Router.run E app.ops`, built once
      (`App.serve E app req` is by definition `app.serveWith ((Router.run E app.ops).serve E) req`) -/
  app   : Option (App.App × Router) := none

/-- the App-level answer to one probe request: served by `App.serve`; "reg" iff the chain started
    is a registration's and the `route` parameter the router handed over is the probed route text;
    the trace is read off the chain machine's event trace (`DslApp.observe`) -/
def appAnswer (E : Engine) (wrapped : Nat → Bool) (regs : List Reg) (app : App.App) (R : Router)
    (m : String) (rt req : Bytes) : String :=
  match DslApp.observe regs (app.serveWith (R.serve E) ⟨m, req, []⟩) app.middleware.length with
  | some (_, ids, rtp) => if rtp == rt then s!"reg {showIds (runTrace wrapped ids)}" else "none"
  | none => "none"

def session (E : Engine) (args : List String) (lines : List (List String)) : List String :=
  let model := args.head? == some "m"
  let wrap := (args.drop 1).head? == some "1"
  let wrapped (h : Nat) : Bool := wrap && h % 3 == 2
  let rec go (s : S) : List (List String) → List String
    | [] => []
    | l :: rest =>
      match l with
      | "S" :: _ =>
        if s.res.isSome then "bad-op" :: go s rest
        else if l.length == 3 && l[1]? == some "headers" then
          -- a Headers() call on what the last declaration of the open block returned (mode x only)
          let lastOk := match s.stack with
            | f :: _ => (f.body.head?.map returnsRoute).getD false
            | [] => false
          if !model && pairsOk (l[2]?.getD "") && lastOk then "s" :: go s rest
          else "bad-op" :: go { s with bad := true } rest
        else match parseLine l, s.stack with
          | some (.stmt st), f :: fs => "s" :: go { s with stack := { f with body := st :: f.body } :: fs } rest
          | some (.openGroup p hs), fs => "s" :: go { s with stack := { opener := some (some (p, hs)) } :: fs } rest
          | some .openRecover, fs => "s" :: go { s with stack := { opener := some none } :: fs } rest
          | some .close, f :: g :: fs =>
            (match f.close with
             | some st => "s" :: go { s with stack := { g with body := st :: g.body } :: fs } rest
             | none => "bad-op" :: go { s with bad := true } rest)
          | _, _ => "bad-op" :: go { s with bad := true } rest
      | ["RUN"] =>
        (match s.bad, s.stack, s.res with
         | false, [f], none =>
           -- mode m: the REAL acceptance (model parser + model route trees); mode x (rich route
           -- syntax) is compared program-versus-flat by the harness only
           let r := if model then interp (DslApp.accReal E) f.body.reverse else interp accKeys f.body.reverse
           let app :=
             if model then
               let a := DslApp.appOfRegs drvEnv drvBase r.regs
               some (a, Router.run E a.ops)
             else none
           let out :=
             if model then
               let c := if r.caught.isEmpty then "-" else joinWith "," (r.caught.map showErr)
               s!"run {match r.err with | none => "ok" | some e => showErr e} {c} eq"
             else "run x eq"
           out :: go { s with res := some r, app := app } rest
         | _, _, _ => "bad-program" :: go { s with bad := true } rest)
      | ["Q", m, route, req] =>
        (match s.bad, s.res with
         | false, some r =>
           (match Bytes.ofHex route, Bytes.ofHex req with
            | some rt, some rq =>
              if model then
                let mb := Bytes.ofString m
                -- Dsl level: the registration (method, route text) of the flat list
                let dslAns := match r.regs.find? (fun x => x.method == mb && x.path == rt) with
                  | some x => s!"reg {showIds (runTrace wrapped x.handlers)}"
                  | none => "none"
                -- App level: the request served by the application the program declares
                let appAns := match s.app with
                  | some (a, R) => appAnswer E wrapped r.regs a R m rt rq
                  | none => "no-app"
                (if appAns == dslAns then s!"{appAns} eq" else s!"{appAns} eq dsl={dslAns}") :: go s rest
              else "x eq" :: go s rest
            | _, _ => "bad-op" :: go s rest)
         | _, _ => "bad-program" :: go s rest)
      | ["Q", _, route, req, hdrs] =>
        if model then "bad-op" :: go s rest
        else (match s.bad, s.res with
         | false, some _ =>
           if (Bytes.ofHex route).isSome && (Bytes.ofHex req).isSome && pairsOk hdrs then "x eq" :: go s rest
           else "bad-op" :: go s rest
         | _, _ => "bad-program" :: go s rest)
      | _ => "bad-op" :: go s rest
  "new" :: go {} lines

end Flamego.Driver.Dsl
