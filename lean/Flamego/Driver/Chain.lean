/-
  Driver/Chain.lean — `NEW chain <dev:0|1> <nmw> <ngrp> <nrt> <action:0|1> [GET|HEAD|POST] [bug]` sessions (C03, C15).

  lines:  H p <acts> <ret>   plain handler; acts = `-` or comma list of
                               w<code> b<n> n c m h pS pE pR pT pA      (write, body, next, cancel, map,
                               hookPanic, panic string/error/runtime/struct/ErrAbortHandler)
                             ret = `-` (no return value) | `N` (renders nothing) | `W<code>:<len>` |
                                   `B<len>` (a returned body without a status: implicit 200)
                             `<ret>/<sig>`: the same return effect delivered by the Go signature <sig> = <params><results>,
                               params  c (Context) | 0 () | w (http.ResponseWriter, *http.Request) | q (Context, *http.Request)
                                       | r (*http.Request)
                               results - | s | b | e | is | ib | ie | se | be   (string, []byte, error, int)
                             returning the values that make the return-value table (C14) produce <ret>: `N` = "" / nil /
                             nil error; `B<len>` = the body, nil error; `W<code>:<len>` = (code, body) — for `ie` a nil error
                             when len = 0, else an error whose text is the body; for e / se / be only `W500:<len>0>`, a non-nil
                             error whose text is the body.  Neither the parameter list (how the framework invokes the
                             function) nor the carrier types change the effect: the model reads <ret> and only checks
                             that <sig> can deliver it (`sigOk`).
          H r                flamego.Recovery()
          H u                a handler with an unmapped parameter type
          (nmw + ngrp + nrt lines in chain order, then one more for the action if action = 1)
          REQ                serve one request on the instance
  out:    `new` / `h` / for REQ: `<events> | <what the client's writer received> | esc=<kind>`
          events: `>i` enter, `<i` exit, `!i` unwound by a panic; Recovery's own frames and the
          model-internal events are not printed (the real Recovery cannot be instrumented).
  The method (default GET) only matters as HEAD or not: the writer is created with `head := (method = HEAD)`.
  A further header argument `hist=<item>,…` (harness/chain.go, `parseChainHist`) describes the registration history
  AROUND the session's route: sibling groups with handlers of their own that return, or panic after / before declaring
  a route (the caller recovers), or have a declaration refused, nested sibling groups, sibling routes — declared at the
  top level before the route (`t`), at the beginning of the session's outermost group (`g`) or afterwards (`a`).  The
  chain of a request is application middleware, then the handlers of the groups ENCLOSING the route, outermost first,
  then the route's own: a sibling declaration — however it ended — contributes nothing, so the configuration served is
  the same as without the argument (`validHist` only checks the spelling).
  A further header argument `bug` selects `onceBug := true` (response_writer.go as it is, F15);
  the harness ignores it.  It is used only by the known-finding matcher.
-/
import Flamego.Model.Chain
import Flamego.Driver.Common
namespace Flamego.Driver.Chain
open Flamego.Chain Flamego.Writer

def parseAct (s : String) : Option Act :=
  match s.toList with
  | ['n'] => some .next
  | ['c'] => some .cancel
  | ['m'] => some .map
  | ['j'] => some .map     -- a refused Hijack()/Push(): nothing is sent, no state changes
  | ['h'] => some .hookPanic
  | ['p', 'S'] => some (.panic .str)
  | ['p', 'E'] => some (.panic .err)
  | ['p', 'R'] => some (.panic .rt)
  | ['p', 'T'] => some (.panic .struct)
  | ['p', 'A'] => some (.panic .abort)
  | 'w' :: r => (String.ofList r).toNat?.map Act.write
  | 'b' :: r => (String.ofList r).toNat?.map Act.body
  | _ => none

def parseActs (s : String) : Option (List Act) :=
  if s == "-" then some [] else (s.splitOn ",").mapM parseAct

def parseRet (s : String) : Option Ret :=
  if s == "-" then some .none
  else if s == "N" then some .nothing
  else match s.toList with
    | 'B' :: r => (String.ofList r).toNat?.map Ret.body
    | 'W' :: r =>
      match (String.ofList r).splitOn ":" with
      | [a, b] => do some (.writes (← a.toNat?) (← b.toNat?))
      | _ => none
    | _ => none

/-- can a function with result list `res` deliver the effect `ret` through the return-value table?
    (the documented rows: a lone string / []byte / error; (int, string|[]byte|error): the int is the status;
    (string|[]byte, error): the error if non-nil, else the body; a non-nil error is answered 500 + its text) -/
def resOk (ret : Ret) (res : String) : Bool :=
  match ret with
  | .none => res == "-"
  | .nothing => ["s", "b", "e", "se", "be"].contains res
  | .body _ => ["s", "b", "se", "be"].contains res
  | .writes code len =>
    ["is", "ib", "ie"].contains res || (["e", "se", "be"].contains res && code == 500 && len > 0)

def sigOk (ret : Ret) (sig : String) : Bool :=
  match sig.toList with
  | p :: res => "c0wqr".toList.contains p && !res.isEmpty && resOk ret (String.ofList res)
  | [] => false

/-- `<ret>` or `<ret>/<sig>` -/
def parseRetSig (s : String) : Option Ret :=
  match s.splitOn "/" with
  | [r] => parseRet r
  | [r, sig] => do
    let ret ← parseRet r
    if sigOk ret sig then some ret else none
  | _ => none

def parseH : List String → Option Kind
  | ["H", "r"] => some .recovery
  | ["H", "u"] => some .unresolvable
  | ["H", "p", a, r] => do some (.plain { acts := (← parseActs a), ret := (← parseRetSig r) })
  | _ => none

def isRecovery (c : Cfg) (i : Nat) : Bool := c.slot i == some Kind.recovery

def showEv (c : Cfg) : Ev → Option String
  | .enter i => if isRecovery c i then none else some s!">{i}"
  | .exit i => if isRecovery c i then none else some s!"<{i}"
  | .abort i _ => if isRecovery c i then none else some s!"!{i}"
  | _ => none

def showTok : Tok → String
  | .xs n => s!"x{n}"
  | .plain => "P"
  | .detail => "D"

/-- the underlying writer's events, the k-th body event shown as the k-th body token -/
def showUnder : List UEv → List Tok → List String
  | [], _ => []
  | .hdr c :: r, ts => s!"h{c}" :: showUnder r ts
  | .body _ :: r, t :: ts => showTok t :: showUnder r ts
  | .body n :: r, [] => s!"b{n}" :: showUnder r []
  | .flush :: r, ts => "f" :: showUnder r ts
  | .hook h :: r, ts => s!"k{h}" :: showUnder r ts

def showPVal : PVal → String
  | .str => "str" | .err => "err" | .rt => "rt" | .struct => "struct"
  | .abort => "abort" | .inject => "inject" | .hook => "hook"

def showEsc (tr : List Ev) : String :=
  match tr.filterMap (fun e => match e with | .escaped v _ => some v | _ => none) with
  | v :: _ => "esc=" ++ showPVal v
  | [] => "esc=-"

def dash (xs : List String) : String := if xs.isEmpty then "-" else joinWith "," xs

/-- what an httptest.ResponseRecorder reports as `Code`: the first status it was given, else 200 -/
def clientCode : List UEv → Nat
  | [] => 200
  | .hdr c :: _ => c
  | .hook _ :: r => clientCode r
  | _ :: _ => 200

def showSt (c : Cfg) (st : St) : String :=
  dash (st.trace.filterMap (showEv c)) ++ " | " ++ dash (showUnder st.w.under st.out) ++
    s!" c{clientCode st.w.under} | " ++ showEsc st.trace

structure Build where
  nmw : Nat
  ngrp : Nat
  nrt : Nat
  act : Bool
  ks : List Kind := []
  bad : Bool := false
  /-- `SWAPMW`: the application replaced its middleware stack (`Flame.Handlers`) by the same handlers in reverse order -/
  swapped : Bool := false
  served : Bool := false

def Build.cfg (b : Build) (dev bug head : Bool) : Option Cfg :=
  let want := b.nmw + b.ngrp + b.nrt + (if b.act then 1 else 0)
  if b.bad || b.ks.length != want then none
  else
    let ks := b.ks
    some { mw := if b.swapped then (ks.take b.nmw).reverse else ks.take b.nmw, grp := (ks.drop b.nmw).take b.ngrp,
           rt := (ks.drop (b.nmw + b.ngrp)).take b.nrt,
           action := if b.act then ks[b.nmw + b.ngrp + b.nrt]? else none,
           dev := dev, onceBug := bug, head := head }

/-- the spelling of a `hist=` argument: a non-empty comma list of position (`t g a`) + kind -/
def validHist (s : String) : Bool :=
  s != "" && (s.splitOn ",").all fun it =>
    match it.toList with
    | [p, k] => "tga".toList.contains p && "spqenrSPQEN".toList.contains k
    | _ => false

def histArgsOk (more : List String) : Bool :=
  more.all fun a => !a.startsWith "hist=" || validHist (a.drop 5).toString

def session (args : List String) (lines : List (List String)) : List String :=
  match args with
  | dev :: nmw :: ngrp :: nrt :: act :: more =>
    if !histArgsOk more then "bad-session" :: lines.map (fun _ => "bad-session") else
    let dev := dev == "1"
    let bug := more.contains "bug"
    let head := more.contains "HEAD"
    let rec go (b : Build) : List (List String) → List String
      | [] => []
      | l :: rest =>
        if l.head? == some "H" then
          match parseH l with
          | some k => "h" :: go { b with ks := b.ks ++ [k] } rest
          | none => "bad-op" :: go { b with bad := true } rest
        else if l == ["REQ"] then
          match b.cfg dev bug head with
          | some c => showSt c (serve c) :: go { b with served := true } rest
          | none => "bad-session" :: go b rest
        else if l == ["SWAPMW"] then
          -- createContext reads `f.handlers` for every request: the next request runs the new stack
          if (b.cfg dev bug head).isSome && b.served then "swapped" :: go { b with swapped := !b.swapped } rest
          else "bad-op" :: go b rest
        else "bad-op" :: go b rest
    "new" :: go { nmw := natOf nmw, ngrp := natOf ngrp, nrt := natOf nrt, act := act == "1" } lines
  | _ => "bad-session" :: lines.map (fun _ => "bad-session")

end Flamego.Driver.Chain
