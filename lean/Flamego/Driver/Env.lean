/-
  Driver/Env.lean — `NEW envinit <FLAMEGO_ENV hex>` sessions (C15): a fresh process of the real code started with
  that variable; ops `SET <value hex>` (flamego.SetEnv) and `ENV` (flamego.Env());
  out: `<Env() hex> dev=<0|1>` after every op.
-/
import Flamego.Model.Env
import Flamego.Driver.Common
namespace Flamego.Driver.EnvS
open Flamego Flamego.Env

def showEnv (e : Bytes) : String := s!"{if e.isEmpty then "-" else e.toHex} dev={if isDev e then 1 else 0}"

def session (args : List String) (lines : List (List String)) : List String :=
  match args with
  | [v] =>
    match (if v == "unset" then some [] else Bytes.ofHex v) with
    | none => "bad-args" :: lines.map (fun _ => "bad-args")
    | some var =>
      let rec go (cur : Bytes) : List (List String) → List String
        | [] => []
        | ["ENV"] :: rest => showEnv cur :: go cur rest
        | ["SET", x] :: rest =>
          (match Bytes.ofHex x with
           | some e => let c := setEnv cur e; showEnv c :: go c rest
           | none => "bad-op" :: go cur rest)
        | _ :: rest => "bad-op" :: go cur rest
      "new" :: go (initEnv var) lines
  | _ => "bad-args" :: lines.map (fun _ => "bad-args")

end Flamego.Driver.EnvS
