/-
  Driver/Ret.lean — `NEW ret <method> <pos> <shape> <custom> <pre>` sessions (C14).

    method  GET | HEAD | POST
    pos     where the returning handler sits: mw | grp | rt | rta | act
            (`act`: it is the Action, nothing follows it; otherwise a recording handler follows)
    shape   name of the Go func type / invocation path (used by the harness only)
    custom  `-` | app:<code>:<hex> | req:<code>:<hex> | both:<code>:<hex>
            a ReturnHandler mapped in the app scope / the request scope / both (then the app one
            is a decoy).  It does `WriteHeader(code)` unless code = 0 and, unless the body is
            empty, `Write(body ++ decimal(len(vals)))`.
    pre     `-` | wh:<code> | w:<hex>   a middleware writes this and calls Next() first
            | cx   the request's context is cancelled WHILE the returning handler runs: its values are rendered all
                   the same (`handleReturn` comes before the next look at the context), then the chain stops

  op:   R <ph-hex> <value>*           one request; the handler returns these values
  out:  <status> <body-hex> <next-ran 0|1> <panicked 0|1>

  `NEW retseq <method>` sessions: one Flame, every op line is one request through ONE chain of
  several handlers (a fresh route per line); the app scope persists from line to line.
    op:   Q <g> <step> | <step> | …      (`g` leading steps are group handlers — harness only)
    step ::= n                           a silent handler
           | mr <code> <hex>             a handler doing c.Map(flamego.ReturnHandler(custom))
           | ma <code> <hex>             a handler doing f.Map(flamego.ReturnHandler(custom))
           | r <shape> <ph-hex> <value>* a handler of that func type returning these values
    out:  <status> <body-hex> <handlers-started> <panicked 0|1>

  `NEW retnest <method> <outer-inv> <nested-inv> <via>` sessions: while the OUTER request's
  `func() (int, string)` result is on its way to the response, a NESTED request is served on the
  same Flame (GET /inner, its own `func() (int, string)` handler).  inv: is | isu (fast paths:
  built-in teapotInvoker / a user FastInvoker) | isr | cis (reflective).  via: hrt | hgrp (a route /
  group handler registered a ResponseWriter().Before hook that serves the nested request — it fires
  inside the table's WriteHeader) | crh (a request-scope ReturnHandler that serves the nested request
  first and only then reads and echoes the values it was given).  Codes must be 100..999.
    op:   N <outer-code> <outer-body-hex> <nested-code> <nested-body-hex>
    out:  <outer-status> <outer-body> <nested-status> <nested-body> <nested-served 0|1> <panicked 0|1>
  Requests are independent: each response is made of its own handler's values.

  value ::= s:<hex> | b:nil | b:<hex> | e:<kind>:<hex> | ep:<kind> | i:<int>
          | p:nil | p:<value> | a:nil | a:<value> | o:<0|1>
-/
import Flamego.Model.Return
import Flamego.Driver.Common
namespace Flamego.Driver.Ret
open Flamego.Ret

def parseVal : List String → Option RetVal
  | ["s", h] => some (.str (hexOf h))
  | ["b", "nil"] => some (.bytes none)
  | ["b", h] => some (.bytes (some (hexOf h)))
  | ["e", _, h] => some (.err (some (hexOf h)))
  | ["ep", _] => some (.err none)
  | ["i", n] => n.toInt?.map .int
  | ["p", "nil"] => some .ptrNil
  | ["a", "nil"] => some .ifaceNil
  | ["o", z] => some (.other (z == "1"))
  | "p" :: rest => (parseVal rest).map .ptrTo
  | "a" :: rest => (parseVal rest).map .ifaceOf
  | _ => none

def parseShape (toks : List String) : Option RetShape :=
  match toks.mapM (fun t => parseVal (t.splitOn ":")) with
  | none => none
  | some [] => some .none
  | some [v] => some (.one v)
  | some [a, b] => some (.two a b)
  | some vs => some (.many (vs.length - 3))

def digits (n : Nat) : Bytes := (toString n).toUTF8.toList

/-- the harness's custom ReturnHandler -/
def customHandler (code : Nat) (body : Bytes) : Handler := fun s =>
  (if code = 0 then [] else [Act.writeHeader code]) ++
  (if body.isEmpty then [] else [Act.write (body ++ digits s.arity)])

/-- (request scope, app scope) -/
def parseCustom (s : String) : Option Handler × Option Handler :=
  match s.splitOn ":" with
  | ["app", c, b] => (none, some (customHandler (natOf c) (hexOf b)))
  | ["req", c, b] => (some (customHandler (natOf c) (hexOf b)), none)
  | ["both", c, b] => (some (customHandler (natOf c) (hexOf b)), some (customHandler 598 [68]))
  | _ => (none, none)

def parsePre (s : String) : List Act :=
  match s.splitOn ":" with
  | ["wh", c] => [.writeHeader (natOf c)]
  | ["w", h] => [.write (hexOf h)]
  | _ => []

def session (args : List String) (lines : List (List String)) : List String :=
  let head := args.head? == some "HEAD"
  let hasNext := args.getD 1 "" != "act"
  let (req, app) := parseCustom (args.getD 3 "-")
  let pre := parsePre (args.getD 4 "-")
  let one (l : List String) : String :=
    match l with
    | "R" :: ph :: toks =>
      match parseShape toks with
      | none => "bad-op"
      | some s =>
        let o0 := Out.run { w := Writer.init head } pre
        let o := respondFrom o0 (hexOf ph) req app s
        let next := hasNext && o.continues && !(args.getD 4 "-" == "cx")
        s!"{o.w.status} {o.body.toHex} {if next then 1 else 0} {if o.panicked then 1 else 0}"
    | _ => "bad-op"
  "new" :: lines.map one

/-! ### retseq -/

def splitBar (fs : List String) : List (List String) :=
  let rec go (cur : List String) (acc : List (List String)) : List String → List (List String)
    | [] => (cur.reverse :: acc).reverse
    | "|" :: rest => go [] (cur.reverse :: acc) rest
    | x :: rest => go (x :: cur) acc rest
  go [] [] fs

def parseStep : List String → Option Step
  | ["n"] => some .silent
  | ["mr", c, b] => some (.mapReq (customHandler (natOf c) (hexOf b)))
  | ["ma", c, b] => some (.mapApp (customHandler (natOf c) (hexOf b)))
  | "r" :: _ :: ph :: toks => (parseShape toks).map (.ret (hexOf ph))
  | _ => none

def seqSession (args : List String) (lines : List (List String)) : List String :=
  let head := args.head? == some "HEAD"
  let rec go (app : Option Handler) : List (List String) → List String
    | [] => []
    | l :: rest =>
      match l with
      | "Q" :: _ :: fs =>
        match (splitBar fs).mapM parseStep with
        | none => "bad-op" :: go app rest
        | some steps =>
          let st := runChain (newRequest head app) steps
          s!"{st.out.w.status} {st.out.body.toHex} {st.ran} {if st.out.panicked then 1 else 0}" :: go st.app rest
      | _ => "bad-op" :: go app rest
  "new" :: go none lines

/-! ### retnest -/

def invShape (inv : String) (c : Int) (b : Bytes) : RetShape :=
  if inv == "is" || inv == "isu" then viaTeapot c b else viaReflect c b

/-- the harness's echoing ReturnHandler: `WriteHeader(int(vals[0].Int()))`, then `Write(vals[1].String())`
    unless empty -/
def echoHandler : Handler
  | .two (.int c) (.str b) => [.writeHeader c] ++ (if b.isEmpty then [] else [.write b])
  | _ => []

def nestSession (args : List String) (lines : List (List String)) : List String :=
  let head := args.head? == some "HEAD"
  let oinv := args.getD 1 ""
  let ninv := args.getD 2 ""
  let crh := args.getD 3 "" == "crh"
  let one (l : List String) : String :=
    match l with
    | ["N", oc, ob, nc, nb] =>
      match oc.toInt?, nc.toInt? with
      | some oc, some nc =>
        let req : Option Handler := if crh then some echoHandler else none
        let o := respondFrom { w := Writer.init head } [] req none (invShape oinv oc (hexOf ob))
        let n := respond false [] (invShape ninv nc (hexOf nb))
        let served := crh || o.w.written
        s!"{o.w.status} {o.body.toHex} {n.w.status} {n.body.toHex} {if served then 1 else 0} {if o.panicked || n.panicked then 1 else 0}"
      | _, _ => "bad-op"
    | _ => "bad-op"
  "new" :: lines.map one

end Flamego.Driver.Ret
