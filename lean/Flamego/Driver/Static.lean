/-
  Driver/Static.lean — `NEW static <prefix> <index> <etag 0|1> <spy 0|1> …` sessions (C16).

  lines                               | output
  ------------------------------------+---------------------------------------------------
  FS <rel> d | FS <rel> f <id>        | `fs`    the tree under the served directory, keyed by
                                      |         CLEANED relative path (`2e` = the directory itself)
  OUT <rel> <id>                      | `out`   a file outside the directory (harness only)
  REQ <method> <path> <inm>           | `silent` | `redirect <loc|*>` | `notmodified` | `serve <id>`
                                      |         then, when spy=1, ` opens=<name>,<name>` (`opens=none`): the names
                                      |         passed to FileSystem.Open, each spelled path.Clean("/"+name)
                                      |         inm: `-` absent, `<id>` the ETag of file id, `j` junk
  BURST <k> (<method> <path> <inm>)+  | `burst <outcome>;<outcome>;…`  k copies of each listed request are inside the
                                      |         instance at the same time.  `staticDecide` is a function of the options, the
                                      |         request and the file system — there is no state of the middleware for other
                                      |         requests to change — so every copy has the outcome of the request served alone
  CLEAN <s>                           | `clean <path.Clean("/"+s)> <path.Clean(s)> <ok|rej>`
                                      |         (rej = http.Dir.Open refuses the name)
  JOIN <a> <b>                        | `join <path.Join(a,b)>`

  The model's `fs` parameter (keyed by OS name) is instantiated with the table: the OS name
  `root` is looked up as `.`, `root/<rel>` as `<rel>`.  This assumes that http.Dir plus the OS
  resolve exactly the lexical cleaned path (no symbolic links in the tree) — a stated limit.

  Location is compared as net/http renders it: for a rooted request path and a target without
  `?`, `http.Redirect` emits the target unchanged except that bytes ≥ 0x80 are written `%xx`
  (server.go, `hexEscapeNonASCII`); in the other cases only the fact of a 302 is compared (`*`).
-/
import Flamego.Model.Static
import Flamego.Driver.Common
namespace Flamego.Driver.Static
open Flamego.Static

def root : Bytes := asc "/R"

abbrev Table := List (Bytes × FsResult)

def tableOf : List (List String) → Table
  | [] => []
  | ["FS", rel, "d"] :: rest => (hexOf rel, FsResult.dir) :: tableOf rest
  | ["FS", rel, "f", id] :: rest => (hexOf rel, FsResult.file (natOf id)) :: tableOf rest
  -- a twin (same size, time and base name as file `_of`, other content): a file like any other
  | ["FS", rel, "f", id, _of] :: rest => (hexOf rel, FsResult.file (natOf id)) :: tableOf rest
  | _ :: rest => tableOf rest

def fsOf (t : Table) (p : Bytes) : FsResult :=
  if p = root then (t.lookup [dot]).getD .missing
  else if (root ++ [slash]).isPrefixOf p then (t.lookup (p.drop (root.length + 1))).getD .missing
  else .missing

/-- the ETag of file `id`, abstractly: any injective naming will do -/
def etagOf (id : Nat) : Bytes := asc (toString id)

def inmOf (s : String) : Bytes :=
  if s == "-" then [] else if s == "j" then asc "junk" else etagOf (natOf s)

/-- net/http's `hexEscapeNonASCII` -/
def hexEscapeNonASCII (b : Bytes) : Bytes :=
  b.flatMap fun c =>
    if c ≥ 0x80 then [37, (Bytes.hexDigit (c.toNat / 16)).toNat.toUInt8, (Bytes.hexDigit (c.toNat % 16)).toNat.toUInt8]
    else [c]

def showLoc (urlPath loc : Bytes) : String :=
  if urlPath.head? = some slash ∧ !loc.contains 63 then (hexEscapeNonASCII loc).toHex else "*"

def showOutcome (urlPath : Bytes) : Outcome → String
  | .silent => "silent"
  | .redirect loc => s!"redirect {showLoc urlPath loc}"
  | .notModified _ _ => "notmodified"
  | .serve _ id => s!"serve {id}"

def showOpens (l : List Bytes) : String :=
  if l.isEmpty then "opens=none" else "opens=" ++ joinWith "," (l.map fun n => (cleanRooted n).toHex)

def session (args : List String) (lines : List (List String)) : List String :=
  let arg (i : Nat) : String := (args.drop i).head?.getD "-"
  let o : Opts := { root := root, pfx := hexOf (arg 0), index := hexOf (arg 1), setETag := arg 2 == "1" }
  let spy := arg 3 == "1" || arg 3 == "3"   -- 3: FileSystem AND Directory given (the file system is served as it is)
  let t := tableOf lines
  let one : List String → String
    | ["FS", _, "d"] => "fs"
    | ["FS", _, "f", _] => "fs"
    | ["FS", _, "f", _, _] => "fs"
    | ["OUT", _, _] => "out"
    | ["REQ", m, p, inm] =>
      let up := hexOf p
      let r := staticDecide o etagOf (hexOf m) up (inmOf inm) (fsOf t)
      showOutcome up r.out ++ (if spy then " " ++ showOpens r.opens else "")
    | "BURST" :: _k :: reqs =>
      let rec each : List String → Option (List String)
        | [] => some []
        | m :: p :: inm :: rest =>
          let up := hexOf p
          (each rest).map fun r => showOutcome up (staticDecide o etagOf (hexOf m) up (inmOf inm) (fsOf t)).out :: r
        | _ => none
      match each reqs with
      | some (x :: xs) => "burst " ++ joinWith ";" (x :: xs)
      | _ => "bad-op"
    | ["CLEAN", s] =>
      let b := hexOf s
      s!"clean {(cleanRooted b).toHex} {(pathClean b).toHex} {if (dirOpenPath root b).isSome then "ok" else "rej"}"
    | ["JOIN", a, b] => s!"join {(pathJoin (hexOf a) (hexOf b)).toHex}"
    | _ => "bad-op"
  "new" :: lines.map one

end Flamego.Driver.Static
