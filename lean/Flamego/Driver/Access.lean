/-
  Driver/Access.lean — `NEW access` sessions (C18).  Byte strings in hex (`-` = empty).

  direct codec / strconv comparisons (the model's functions against net/url, strings, strconv, net/http):
    QE s | QU s | PU s | TS s | AI s | PI bits s | PB s | CS name value
  accessors on a real request:
    Q acc rawquery name def      acc ∈ s t u ss b i i64 f ;  def = `n` (none) | `d<payload>`
    P acc kind raw name          acc ∈ s i i64 ; kind p = route /p/{v}, a = route /a/{v: **}
    C name v                     SetCookie, Set-Cookie's name=value fed back as Cookie, Cookie(name) → the value read
    M n1 v1 n2 v2 [n3 v3 [n4 v4]]  several SetCookie calls on ONE response; all Set-Cookie lines go through the
                                 client's cookie store (equal name: last wins) into one Cookie header;
                                 out = Cookie(n1),Cookie(n2),… (comma-joined hex)
    K line [line2] name          one or two raw Cookie header lines, Cookie(name)
    L tok …                      cookies written at different moments of ONE response's life (Model/AccessLife A), tok =
                                 sc:<name>:<v> SetCookie now | bf:<name>:<v> a function registered with
                                 ResponseWriter().Before that calls SetCookie | wh:<code> | w | fl  (WriteHeader, Write,
                                 Flush on c.ResponseWriter()); the Set-Cookie lines the client RECEIVED go through its
                                 cookie store into the next request; out = Cookie(name) of every sc/bf, comma-joined
    KS lines tok …               one request whose Cookie header changes between reads (Model/AccessLife B); lines = `.` or
                                 comma-joined header lines; tok = r:<name> Cookie(name) | a:<name>:<v> Request.AddCookie
                                 (value query-escaped) | s:<line> Header.Set | h:<line> Header.Add | d Header.Del;
                                 out = the reads, comma-joined
    QS rawquery tok …            the same for the query: tok = r:<name> Query(name) | s:<rawquery> URL.RawQuery = …
    RA xrealip xfwd remoteaddr   c.RemoteAddr() of a request carrying these header values (empty = header absent) and RemoteAddr
    BD body                      c.Request().Body().Bytes() and .String() of a request with this body (must agree)
  out: hex / integers / `err` / `nomatch`; floats as IEEE bits (answered by the oracle `E PF s bits`).
-/
import Flamego.Model.Access
import Flamego.Model.AccessLife
import Flamego.Driver.Common
namespace Flamego.Driver.Access
open Flamego.Access

def intOf (s : String) : Int := s.toInt?.getD 0

def showErr : NumErr → String
  | .ok => "ok" | .syntax => "syntax" | .range => "range"

def hexList (l : List Bytes) : String :=
  s!"{l.length} " ++ (if l.isEmpty then "." else joinWith "," (l.map Bytes.toHex))

/-- `n` → none ; `d<payload>` → some payload -/
def defOf (s : String) : Option String :=
  if s.startsWith "d" then some (String.ofList (s.toList.drop 1)) else none

def listOf (p : String) : List Bytes :=
  if p.isEmpty then [] else (p.splitOn ",").map hexOf

def optHex : Option Bytes → String
  | none => "err"
  | some b => b.toHex

/-- the bind parameters Tree.Match produces for the two routes the harness registers
    (`none` = the route does not match the path; dispatch itself is C01/C02's subject) -/
def bindParams (kind : String) (raw : Bytes) : Option Params :=
  if kind == "p" then
    if raw.contains slash then none
    else some [(Bytes.ofString "v", pathUnescapeOrRaw raw), (Bytes.ofString "route", Bytes.ofString "/p/{v}")]
  else
    some [(Bytes.ofString "v", pathUnescapeOrRaw raw), (Bytes.ofString "route", Bytes.ofString "/a/{v: **}")]

/-- the float the model needs from the oracle for a `Q f …` line, if any -/
def floatQuery : List String → Option Bytes
  | ["Q", "f", rq, name, _] => some (query (parseQuery (hexOf rq)) (hexOf name) none)
  | _ => none

def queries (lines : List (List String)) : List String :=
  lines.filterMap fun l => (floatQuery l).map fun v => s!"Q PF {v.toHex}"

def lopOf (t : String) : Option AccessLife.LOp :=
  match t.splitOn ":" with
  | ["sc", n, v] => some (.setCookie (hexOf n) (hexOf v))
  | ["bf", n, v] => some (.beforeSet (hexOf n) (hexOf v))
  | ["wh", c] => some (.writer (.writeHeader (natOf c)))
  | ["w"] => some (.writer (.write 1 1))
  | ["fl"] => some (.writer .flush)
  | _ => none

def kopOf (t : String) : Option AccessLife.KOp :=
  match t.splitOn ":" with
  | ["r", n] => some (.read (hexOf n))
  | ["a", n, v] => some (.addCookie (hexOf n) (hexOf v))
  | ["s", l] => some (.setLine (hexOf l))
  | ["h", l] => some (.addLine (hexOf l))
  | ["d"] => some .del
  | _ => none

def qopOf (t : String) : Option AccessLife.QOp :=
  match t.splitOn ":" with
  | ["r", n] => some (.read (hexOf n))
  | ["s", q] => some (.setRaw (hexOf q))
  | _ => none

def allSome {α : Type} (l : List (Option α)) : Option (List α) :=
  if l.all Option.isSome then some (l.filterMap id) else none

def showReads (l : List Bytes) : String :=
  if l.isEmpty then "none" else joinWith "," (l.map Bytes.toHex)

def runOp (o : Oracle) : List String → String
  | ["QE", s] => (queryEscape (hexOf s)).toHex
  | ["QU", s] => optHex (queryUnescape (hexOf s))
  | ["PU", s] => optHex (pathUnescape (hexOf s))
  | ["TS", s] => (trimSpace (hexOf s)).toHex
  | ["AI", s] => let r := atoi (hexOf s); s!"{r.1} {showErr r.2}"
  | ["PI", bits, s] =>
    let b := natOf bits
    let r := parseInt (if b == 0 then intSize else b) (hexOf s); s!"{r.1} {showErr r.2}"
  | ["PB", s] => let r := parseBool (hexOf s); s!"{if r.1 then 1 else 0} {if r.2 then 1 else 0}"
  | ["CS", n, v] => (cookieString (hexOf n) (hexOf v)).toHex
  | ["Q", acc, rq, name, d] =>
    let q := parseQuery (hexOf rq)
    let n := hexOf name
    let dv := defOf d
    match acc with
    | "s" => (query q n (dv.map hexOf)).toHex
    | "t" => (queryTrim q n (dv.map hexOf)).toHex
    | "u" => (queryUnescapeAcc q n (dv.map hexOf)).toHex
    | "ss" => hexList (queryStrings q n (dv.map listOf))
    | "b" => if queryBool q n (dv.map (· == "1")) then "1" else "0"
    | "i" => toString (queryInt q n (dv.map intOf))
    | "i64" => toString (queryInt64 q n (dv.map intOf))
    | "f" =>
      let v := query q n none
      if !o.float.contains v.toHex then "MISSING-ORACLE" else
      -- the parameter `pf` instantiated with the table of Go's answers
      let pf : Bytes → UInt64 := fun s => (o.float.get? s.toHex).getD 0
      toString (queryFloat64 pf q n (dv.map fun s => (natOf s).toUInt64)).toNat
    | _ => "bad-op"
  | ["P", acc, kind, raw, name] =>
    match bindParams kind (hexOf raw) with
    | none => "nomatch"
    | some ps =>
      let n := hexOf name
      match acc with
      | "s" => (param ps n).toHex
      | "i" => toString (paramInt ps n)
      | "i64" => toString (paramInt64 ps n)
      | _ => "bad-op"
  | ["C", name, v] =>
    let hdr := setCookieHeader (hexOf name) (hexOf v)
    let back := clientEcho hdr                 -- the client returns only `name=value`
    (cookie [back] (hexOf name)).toHex
  | "M" :: rest =>
    let rec pairs : List String → List (Bytes × Bytes)
      | n :: v :: more => (hexOf n, hexOf v) :: pairs more
      | _ => []
    let ws := pairs rest
    if ws.isEmpty || rest.length % 2 != 0 then "bad-op" else
    let hdr := clientCookieHeader (setCookies ws)
    joinWith "," (ws.map fun w => (cookie [hdr] w.1).toHex)
  | "L" :: toks =>
    match allSome (toks.map lopOf) with
    | none => "bad-op"
    | some ops => showReads (AccessLife.readBack ops)
  | "KS" :: ls :: toks =>
    match allSome (toks.map kopOf) with
    | none => "bad-op"
    | some ops => showReads (AccessLife.kreads (if ls == "." then [] else (ls.splitOn ",").map hexOf) ops)
  | "QS" :: rq :: toks =>
    match allSome (toks.map qopOf) with
    | none => "bad-op"
    | some ops => showReads (AccessLife.qreads (hexOf rq) ops)
  | ["RA", x, f, r] => (remoteAddr (hexOf x) (hexOf f) (hexOf r)).toHex
  | ["BD", b] => (bodyBytes (hexOf b)).toHex
  | ["K", line, name] => (cookie [hexOf line] (hexOf name)).toHex
  | ["K", l1, l2, name] => (cookie [hexOf l1, hexOf l2] (hexOf name)).toHex
  | _ => "bad-op"

def session (o : Oracle) (_args : List String) (lines : List (List String)) : List String :=
  -- `new <strconv.IntSize> <bits of ParseFloat("")>`: the model prints what the theorems assume
  s!"new {intSize} 0" :: lines.map (runOp o)

end Flamego.Driver.Access
