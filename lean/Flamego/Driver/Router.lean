/-
  Driver/Router.lean — `NEW router` sessions (C01 C02 C07 C08 C09 C10 C12).

    ADD <hid> <methods csv|*> <text hex> <ast|!>     → ok | err
        (methods `verb:GET`: through the verb method `f.Get(text, h)`; `combo:GET,POST`: through `Combo(text).Get(h).Post(h)`)
    AUTOHEAD <0|1>                                   → ok      (`Flame.AutoHead(v)`: from now on Get also registers HEAD)
    HDR <hid> (<raw> <canon> <expr>)*                → ok | err
    NAME <hid> <name hex>                            → ok | err
    REQ  <method hex> <path hex> (<canon>=<value>)*  → h <hid> <long 0|1> <form binds k=v,…> route=<hex> u0=<hex> u1=<hex> | nf
    TREQ … same, full tree matching only
    IREQ … same as TREQ, through the index-level matcher `Node.matchIdx` (Model/TreeIdx)  → … | panic
    URL <name hex> <k hex> <v hex> …                 → <hex> | panic
    GRP <path hex> … END                             → ok | bad-op   the lines in between are executed inside the callback of
                                                       `Group(path, …)`: the text of an ADD line there is the route's own part,
                                                       the route registered is the one of the concatenated text (paths of the
                                                       open groups, outermost first, then the own part — property C11); the AST
                                                       on the line is the real parser's for the concatenated text; every other
                                                       operation means what it means outside (a group has no handlers here)

  The route text of an ADD line is parsed by Model/Parser; the AST on the line (`!` = the text is
  outside the grammar) is what the REAL parser returned for the text and must agree (cross-check).
-/
import Flamego.Model.Router
import Flamego.Model.TreeIdx
import Flamego.Model.Parser
import Flamego.Spec.Dispatch
import Flamego.Driver.Common
namespace Flamego.Driver.Router

/-! AST wire format: segs separated by `;`, optional marker `?`, elements by `+`:
    `i<hex>` ident, `b<hex>` bind, `p<hex>:l<hex>,<hex>:r<hex>` parameter list -/

def parseParam (s : String) : Option BindParam :=
  match s.splitOn ":" with
  | [k, v] =>
    match v.toList with
    | 'l' :: rest => some ⟨hexOf k, .lit (hexOf (String.ofList rest))⟩
    | 'r' :: rest => some ⟨hexOf k, .re (hexOf (String.ofList rest))⟩
    | _ => none
  | _ => none

def parseElem (s : String) : Option Elem :=
  match s.toList with
  | 'i' :: rest => some (.ident (hexOf (String.ofList rest)))
  | 'b' :: rest => some (.bind (hexOf (String.ofList rest)))
  | 'p' :: rest => ((String.ofList rest).splitOn ",").mapM parseParam |>.map Elem.params
  | _ => none

def parseSeg (s : String) : Option Segment :=
  let (opt, body) := match s.toList with
    | '?' :: rest => (true, String.ofList rest)
    | _ => (false, s)
  if body == "" then some ⟨opt, []⟩
  else (body.splitOn "+").mapM parseElem |>.map (⟨opt, ·⟩)

def parseAst (s : String) : Option Route :=
  if s == "!" then none else (s.splitOn ";").mapM parseSeg |>.map (⟨·⟩)

/-- `strings.ToUpper(method)`; `*` = every method -/
def methodsOf (s0 : String) : List String :=
  -- "combo:GET,POST": the harness registers through Combo(path).Get(h).Post(h) and names through ComboRoute.Name —
  -- for the router the same sequence of single-method registrations, and the name lands on the same route
  let s := if s0.startsWith "combo:" then (s0.drop 6).toString
           else if s0.startsWith "verb:" then (s0.drop 5).toString else s0
  if s == "*" then Gen.httpMethods else (s.splitOn ",").map String.toUpper

/-- the handle id under which the driver files the HEAD twin that `Get` registers while AutoHead is on: a registration
    of its own (`r.Head(routePath, handlers...)`, its Route is dropped), so `Headers()` / `Name()` on the Route that
    `Get` returns never reach it; it runs the same handlers, so it is REPORTED under the id of the GET registration -/
def twinBase : Nat := 1000000

/-- `Combo(text).Get(h)` while AutoHead is on: HEAD right after GET, inside the same sequence of verb calls -/
def withTwins : List String → List String
  | [] => []
  | m :: ms => if m == "GET" then m :: "HEAD" :: withTwins ms else m :: withTwins ms

def parseHdrPairs : List String → Option (List HdrPair)
  | [] => some []
  | r :: c :: e :: rest => (parseHdrPairs rest).map (⟨hexOf r, hexOf c, hexOf e⟩ :: ·)
  | _ => none

/-- later duplicates of the same raw name replace earlier ones (`matches[name] = …`) -/
def dedupRaw (ps : List HdrPair) : List HdrPair :=
  ps.foldl (fun acc p => (acc.filter (·.raw ≠ p.raw)) ++ [p]) []

def parseReqHdrs (fs : List String) : List (Bytes × Bytes) :=
  fs.filterMap fun f => match f.splitOn "=" with
    | [k, v] => some (hexOf k, hexOf v)
    | _ => none

/-- bind names a route form sets: every bind of every segment of the form -/
def elemBinds : Elem → List Bytes
  | .ident _ => []
  | .bind n => [n]
  | .params ps =>
    -- a match-all list (`{x: **, capture: 2}`): only its first parameter is a bind, whatever the others look like
    -- (`capture: /2/` is an option spelled as an expression, not a second bind); a regex list: every parameter
    match ps with
    | p :: _ =>
      if p.val = .lit starStar then [p.ident]
      else ps.filterMap fun q => match q.val with
        | .re _ => some q.ident
        | .lit _ => none
    | [] => []

def formBinds (r : Route) (long : Bool) : List Bytes :=
  let segs := if long then r.segs else r.segs.dropLast
  (segs.flatMap fun s => s.elems.flatMap elemBinds).eraseDups

def showParams (ps : Params) (names : List Bytes) : String :=
  let names := names.toArray.qsort (fun a b => a.toHex < b.toHex) |>.toList
  joinWith "," (names.map fun n => n.toHex ++ "=" ++ (match ps.get? n with | some v => v.toHex | none => "<none>"))

/-- `viaRouter`: the request went through `Router.ServeHTTP` and the handler rebuilt its URL with `c.URLPath("r<hid>",
    pairs…)` — pairs = its parameters sorted by name, without `route` (reserved) and `withOptional` (the builder's own
    switch), then `withOptional, <flag>`; otherwise (TREQ / IREQ) the tree was matched directly and the URL built with
    `Leaf.URLPath(all parameters, flag)`. -/
def showOutcome (R : Router) (o : Outcome) (viaRouter : Bool := true) : String :=
  match o with
  | .notFound => "nf"
  | .handler l ps =>
    -- a bind NAMED `route` is shadowed by the reserved parameter (the router stores the route text under that key after
    -- matching; `C02.params_of_winner` excludes it)
    let names := (formBinds l.route l.long).filter (· != B "route")
    let vals := names.filterMap fun n => (ps.get? n).map (n, ·)
    let sorted := (vals.filter (·.1 != B "withOptional")).toArray.qsort (fun a b => a.1.toHex < b.1.toHex) |>.toList
    let pairs (flag : String) : List Bytes := sorted.flatMap (fun (k, v) => [k, v]) ++ [B "withOptional", B flag]
    let nm := Bytes.ofString s!"r{l.hid}"
    let u (flag : Bool) : Bytes :=
      if viaRouter then (R.urlPath nm (pairs (if flag then "true" else "false"))).getD (Bytes.ofString "\x00na")
      else urlPath l.route vals flag
    -- `ux=`: the URL of the first OTHER named route, built without any value (binds stay visible as `{bind}`)
    let ux : String :=
      if !viaRouter then ""
      else match R.named.find? (fun p => p.1 != nm) with
        | some (other, _) => " ux=" ++ (match R.urlPath other [] with
            | some b => if b.isEmpty then "-" else b.toHex
            | none => (Bytes.ofString "\x00panic").toHex)
        | none => " ux=-"
    -- `all=`: every key the matcher wrote while serving THIS request (values of abandoned branches included): what the
    -- handler's map may contain at most — a key or value from anywhere else (an earlier request) is a leak
    let allKeys := (ps.map (·.1)).eraseDups.filter (· != B "route")
    s!"h {l.hid} long={if l.long then 1 else 0} {showParams ps names} route={(ps.get? (B "route")).getD [] |>.toHex} u0={(u false).toHex} u1={(u true).toHex}{ux} all={if allKeys.isEmpty then "-" else showParams ps allKeys}"

structure St where
  R : Router := Router.new
  bad : Bool := false
  /-- `router.autoHead` -/
  autoHead : Bool := false
  /-- the paths of the open groups, outermost first -/
  groups : List Bytes := []

/-- the outcome as the harness reports it: the HEAD twin of a `Get` runs the handler of its GET registration -/
def untwin : Outcome → Outcome
  | .handler l ps => .handler { l with hid := l.hid % twinBase } ps
  | o => o

def step (E : Engine) (st : St) (l : List String) : St × String :=
  match l with
  | ["ADD", hid, ms, text, ast] =>
    -- the route text is parsed by the MODEL parser (Model/Parser, proved sound and complete for the
    -- grammar in Props/C06); the AST the real parser returned travels on the line as a cross-check
    let parsed := Flamego.parse (st.groups.flatten ++ hexOf text)
    if parsed != parseAst ast then (st, "ast-mismatch")
    else match parsed with
    | none => (st, "err")
    | some r =>
      let methods := methodsOf ms
      let methods := if st.autoHead && ms.startsWith "combo:" then withTwins methods else methods
      -- one method after the other, as `Routes` / `Any` do: an unknown method (no tree of that name) stops the
      -- registration with a panic, the methods before it stay registered (`Router.addMethods`)
      if methods.isEmpty then (st, "err")
      else if st.autoHead && ms == "verb:GET" then
        -- `router.Get` with AutoHead on: `r.Route(GET, …)`, then `r.Head(…)` with the same handlers — two registrations,
        -- the Route of the first is returned.  A panic of the second leaves the GET route registered and the caller
        -- without any Route (no handle to constrain or name)
        let (R1, ok1) := st.R.addMethods E (natOf hid) r ["GET"] []
        if !ok1 then ({ st with R := R1 }, "err")
        else
          let (R2, ok2) := R1.addMethods E (natOf hid + twinBase) r ["HEAD"] []
          if !ok2 then ({ st with R := { R2 with handles := assocDel R2.handles (natOf hid) } }, "err")
          else
            let R3 := (R2.setName (natOf hid) (Bytes.ofString s!"r{natOf hid}")).getD R2
            ({ st with R := R3 }, "ok")
      else
        let (R', ok) := st.R.addMethods E (natOf hid) r methods []
        -- the harness names every route it managed to add `r<hid>` (for the round trip)
        if ok then
          let R'' := (R'.setName (natOf hid) (Bytes.ofString s!"r{natOf hid}")).getD R'
          ({ st with R := R'' }, "ok")
        else ({ st with R := R' }, "err")
  | ["AUTOHEAD", v] => ({ st with autoHead := v == "1" }, "ok")
  | "HDR" :: hid :: rest =>
    match parseHdrPairs rest with
    | none => (st, "err")
    | some ps =>
      -- `regexp.MustCompile` runs for every pair, in order, before anything is stored
      if ps.any (fun p => (E.compile p.expr).isNone) then (st, "err")
      else
      let ps := dedupRaw ps
      if false then (st, "err")
      else if (assocGet st.R.handles (natOf hid)).isNone then (st, "err")
      else ({ st with R := st.R.setHeaders (natOf hid) ps }, "ok")
  | ["NAME", hid, name] =>
    match st.R.setName (natOf hid) (hexOf name) with
    | some R' => ({ st with R := R' }, "ok")
    | none => (st, "err")
  | "REQ" :: m :: p :: hs =>
    let req : Request := ⟨(hexOf m).toStringLossy, hexOf p, parseReqHdrs hs⟩
    -- `alts` = how many accepting walks the request has in its method tree (the length of the priority
    -- enumeration `derivs`): reported for the coverage statistics only, never compared
    let alts := match assocGet st.R.trees req.method with
      | none => 0
      | some t => match splitSlash (trimLeftSlash req.path) with
        | [] => 0
        | s :: rest => (derivs E (st.R.hok E req.hdrs) t.subs t.leaves s rest).length
    (st, showOutcome st.R (untwin (st.R.serve E req)) ++ s!" alts={alts}")
  | "NREQ" :: m :: p :: _ :: _ :: hs =>
    -- another request is served on the same instance while this one is in flight: serving does not
    -- change the router, so the outcome is that of the request alone
    let req : Request := ⟨(hexOf m).toStringLossy, hexOf p, parseReqHdrs hs⟩
    (st, showOutcome st.R (untwin (st.R.serve E req)))
  | "TREQ" :: m :: p :: hs =>
    let req : Request := ⟨(hexOf m).toStringLossy, hexOf p, parseReqHdrs hs⟩
    (st, showOutcome st.R (untwin (st.R.serveTreeOnly E req)) false)
  | "IREQ" :: m :: p :: hs =>
    let req : Request := ⟨(hexOf m).toStringLossy, hexOf p, parseReqHdrs hs⟩
    match st.R.serveTreeOnlyIdx E req with
    | .ok o => (st, showOutcome st.R (untwin o) false)
    | .error _ => (st, "panic")
  | "URL" :: name :: pairs =>
    match st.R.urlPath (hexOf name) (pairs.map hexOf) with
    | some b => (st, b.toHex)
    | none => (st, "panic")
  | ["GRP", p] => ({ st with groups := st.groups ++ [hexOf p] }, "ok")
  | ["END"] =>
    if st.groups.isEmpty then (st, "bad-op") else ({ st with groups := st.groups.dropLast }, "ok")
  | _ => (st, "bad-op")

def session (E : Engine) (_args : List String) (lines : List (List String)) : List String :=
  let rec go (st : St) : List (List String) → List String
    | [] => []
    | l :: rest => let (st', out) := step E st l; out :: go st' rest
  "new" :: go {} lines

/-! ### pass A: the oracle queries a session could need -/

def dummyEngine : Engine := ⟨fun _ => some 0, fun _ _ => none, fun _ _ => false⟩

def segPatterns (s : Segment) : List Bytes × List Bytes :=   -- (sub-expressions, assembled)
  let subs := s.elems.flatMap fun e => match e with
    | .params ps => ps.filterMap fun p => match p.val with | .re e => some e | _ => none
    | _ => []
  match classifyLeaf dummyEngine s with
  | .ok (.regex p _) => (subs, [p])
  | _ => (subs, [])

def queries (_args : List String) (lines : List (List String)) : List String :=
  let rec go (pats : List Bytes) (hexprs : List (Bytes × Bytes)) : List (List String) → List String
    | [] => []
    | l :: rest =>
      match l with
      | ["ADD", _, _, _, ast] =>
        match parseAst ast with
        | none => go pats hexprs rest
        | some r =>
          let ps := r.segs.map segPatterns
          let subs := ps.flatMap (·.1)
          let asm := ps.flatMap (·.2)
          (subs ++ asm).map (fun p => s!"Q C {p.toHex}") ++ go ((asm.filter (!pats.contains ·)) ++ pats) hexprs rest
      | "HDR" :: _ :: more =>
        match parseHdrPairs more with
        | none => go pats hexprs rest
        | some hp =>
          hp.map (fun p => s!"Q C {p.expr.toHex}") ++ go pats (hp.map (fun p => (p.canon, p.expr)) ++ hexprs) rest
      | op :: _ :: p :: hs =>
        if op == "REQ" || op == "TREQ" || op == "NREQ" || op == "IREQ" then
          let segs := splitSlash (trimLeftSlash (hexOf p))
          let q1 := pats.flatMap fun pat => segs.map fun s => s!"Q F {pat.toHex} {s.toHex}"
          let rh := parseReqHdrs (if op == "NREQ" then hs.drop 2 else hs)
          let q2 := hexprs.filterMap fun (c, e) => (assocGet rh c).map fun v => s!"Q S {e.toHex} {v.toHex}"
          q1 ++ q2 ++ go pats hexprs rest
        else go pats hexprs rest
      | _ => go pats hexprs rest
  go [] [] lines

end Flamego.Driver.Router
