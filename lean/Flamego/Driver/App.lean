/-
  Driver/App.lean — `NEW app <dev:0|1>` sessions (C07 at the level of `Flame.ServeHTTP`, Model/App).

    B p | B s - | B s <code>:<n>                    f.Before(pass / stop without / with a write)   → b
    MW <handler>                                    f.Use(handler)                                 → h
    RH <hid> <handler>*                             the handler list the NEXT `ADD <hid>` registers → h
    ADD <hid> <methods csv|*> <text hex> <ast|!>    f.Route / f.Routes / f.Any                     → ok | err
    HDR <hid> (<raw> <canon> <expr>)*               Route.Headers                                  → ok | err
    ACT <handler>                                   f.Action(handler)                              → h
    NF <handler>*                                   f.NotFound(handlers…)                          → h
    REQ <method hex> <path hex> (<canon>=<value>)*  one request (the harness serves it twice)      → see below

  handler = `r` (flamego.Recovery()) | `u` (a parameter nobody mapped) | `p/<acts>/<ret>` with
    acts = `-` or a comma list of  w<code> b<n> n c m pS pE pR pT pA  (as in Driver/Chain) and
           e<name hex>  (write c.Param(name) to the response);
    ret  = `-` | `N` | `W<code>:<len>` | `B<len>` (as in Driver/Chain) | `P<name hex>`  (return
           c.Param(name) as a string: the chain's returned-body effect `Ret.body`).

  REQ output:  <kind> b=<hooks that ran> | <events> | <client's writer> c<code> | esc=<kind>
    kind    `stop` (a Before hook returned true) | `h route=<hex>` / `nf` (the `route` parameter an
            instrumented handler saw at entry: a route's text, or empty for the not-found chain) |
            `q` (no instrumented handler was entered)
    events  `>L` enter, `<L` exit, `!L` unwound by a panic, L = m<i> (application middleware i),
            r<hid>.<j> (j-th handler registered under handle hid), n<j> (j-th handler of a
            user-supplied not-found chain), a (the action); an entered handler that echoes or returns
            parameters shows them: `>r2.0[78=7a7a]`.  Recovery, `http.NotFound` (the default
            not-found handler) cannot be instrumented and are not shown.
  ADD and HDR lines have the format of `NEW router` sessions, so pass A (`queries`) is the router's.
-/
import Flamego.Model.App
import Flamego.Driver.Router
import Flamego.Driver.Chain
namespace Flamego.Driver.App
open Flamego.App Flamego.Chain Flamego.Writer

def parseHAct (s : String) : Option HAct :=
  match s.toList with
  | 'e' :: r => some (.echo (hexOf (String.ofList r)))
  | ['h'] => none                      -- panicking writer hooks (finding F15) are C15's business
  | _ => (Driver.Chain.parseAct s).map HAct.act

def parseHActs (s : String) : Option (List HAct) :=
  if s == "-" then some [] else (s.splitOn ",").mapM parseHAct

def parseHRet (s : String) : Option HRet :=
  match s.toList with
  | 'P' :: r => some (.param (hexOf (String.ofList r)))
  | _ => (Driver.Chain.parseRet s).map HRet.ret

def parseHandler (s : String) : Option Handler :=
  if s == "r" then some .recovery
  else if s == "u" then some .unresolvable
  else match s.splitOn "/" with
    | ["p", a, r] => do some (.plain { acts := (← parseHActs a), ret := (← parseHRet r) })
    | _ => none

def parseBefore : List String → Option BeforeKind
  | ["B", "p"] => some .pass
  | ["B", "s", "-"] => some (.stop none)
  | ["B", "s", w] =>
    match w.splitOn ":" with
    | [a, b] => do some (.stop (some (← a.toNat?, ← b.toNat?)))
    | _ => none
  | _ => none

structure St where
  dev     : Bool
  befores : List BeforeKind := []
  mw      : List Handler := []
  ops     : List RouterOp := []
  /-- `Router.run E ops`, kept incrementally for the verdicts of ADD / HDR lines -/
  R       : Router := Router.new
  hs      : List (Nat × List Handler) := []
  action  : Option Handler := none
  nf      : Option (List Handler) := none      -- none = the default `http.NotFound`

def St.app (st : St) : App :=
  { befores := st.befores, middleware := st.mw, ops := st.ops,
    handlersOf := fun hid => (assocGet st.hs hid).getD [],
    action := st.action, notFound := st.nf.getD defaultNotFound, dev := st.dev }

def St.push (E : Engine) (st : St) (op : RouterOp) : St :=
  { st with ops := st.ops ++ [op], R := st.R.apply E op }

/-! ### rendering a response -/

/-- the parameter names a handler reads, in order of first use -/
def Handler.names : Handler → List Bytes
  | .plain p =>
    ((p.acts.filterMap fun a => match a with | .echo n => some n | _ => none) ++
      (match p.ret with | .param n => [n] | _ => [])).eraseDups
  | _ => []

structure Frame where
  app : App
  run : Run
  nfDefault : Bool

def Frame.list (f : Frame) : List Handler :=
  match f.run.which with
  | .route hid => f.app.handlersOf hid
  | .notFound => f.app.notFound

/-- the application-level handler in slot `i` of the started chain -/
def Frame.handler (f : Frame) (i : Nat) : Option Handler :=
  let chain := f.app.middleware ++ f.list
  if i = chain.length then f.app.action else chain[i]?

def Frame.label (f : Frame) (i : Nat) : String :=
  let nm := f.app.middleware.length
  if i < nm then s!"m{i}"
  else if i < nm + f.list.length then
    match f.run.which with
    | .route hid => s!"r{hid}.{i - nm}"
    | .notFound => s!"n{i - nm}"
  else "a"

/-- handlers the harness cannot instrument: Recovery, unresolvable ones (never entered anyway) and
    the default not-found handler `http.NotFound` -/
def Frame.shown (f : Frame) (i : Nat) : Bool :=
  match f.handler i with
  | some (.plain _) =>
    !(f.nfDefault && f.run.which == .notFound && f.app.middleware.length ≤ i
        && i < f.app.middleware.length + f.list.length)
  | _ => false

def paramVal (ps : Params) (n : Bytes) : Bytes := (ps.get? n).getD []

def Frame.showEv (f : Frame) : Ev → Option String
  | .enter i =>
    if f.shown i then
      let names := (f.handler i).map Handler.names |>.getD []
      let probes := names.map fun n => n.toHex ++ "=" ++ (paramVal f.run.params n).toHex
      some (s!">{f.label i}" ++ (if probes.isEmpty then "" else "[" ++ joinWith "," probes ++ "]"))
    else none
  | .exit i => if f.shown i then some s!"<{f.label i}" else none
  | .abort i _ => if f.shown i then some s!"!{f.label i}" else none
  | _ => none

/-- what the first instrumented handler that was entered saw as `c.Param("route")` -/
def Frame.kind (f : Frame) : String :=
  if f.run.st.trace.any (fun e => match e with | .enter i => f.shown i | _ => false) then
    let v := paramVal f.run.params (B "route")
    if v.isEmpty then "nf" else s!"h route={v.toHex}"
  else "q"

def showNats (xs : List Nat) : String := Driver.Chain.dash (xs.map toString)

def bodyToks (evs : List UEv) : List Tok :=
  evs.filterMap fun e => match e with | .body n => some (Tok.xs n) | _ => none

def showResponse (app : App) (nfDefault : Bool) (r : Response) : String :=
  match r.runs with
  | [] =>
    s!"stop b={showNats r.befores} | - | {Driver.Chain.dash (Driver.Chain.showUnder r.pre (bodyToks r.pre))} c{Driver.Chain.clientCode r.pre} | esc=-"
  | r1 :: _ =>
    let f : Frame := ⟨app, r1, nfDefault⟩
    s!"{f.kind} b={showNats r.befores} | {Driver.Chain.dash (r1.st.trace.filterMap f.showEv)} | " ++
      s!"{Driver.Chain.dash (Driver.Chain.showUnder r1.st.w.under r1.st.out)} c{Driver.Chain.clientCode r1.st.w.under} | " ++
      Driver.Chain.showEsc r1.st.trace

/-! ### the session -/

def parseHandlers (fs : List String) : Option (List Handler) := fs.mapM parseHandler

def step (E : Engine) (st : St) (l : List String) : St × String :=
  match l with
  | "B" :: _ =>
    match parseBefore l with
    | some b => ({ st with befores := st.befores ++ [b] }, "b")
    | none => (st, "bad-op")
  | ["MW", h] =>
    match parseHandler h with
    | some k => ({ st with mw := st.mw ++ [k] }, "h")
    | none => (st, "bad-op")
  | "RH" :: hid :: hs =>
    match parseHandlers hs with
    | some ks => ({ st with hs := assocSet st.hs (natOf hid) ks }, "h")
    | none => (st, "bad-op")
  | ["ACT", h] =>
    match parseHandler h with
    | some k => ({ st with action := some k }, "h")
    | none => (st, "bad-op")
  | "NF" :: hs =>
    match parseHandlers hs with
    | some ks => ({ st with nf := some ks }, "h")
    | none => (st, "bad-op")
  | ["ADD", hid, ms, text, ast] =>
    -- as in Driver/Router: the text is parsed by the model parser, the AST on the line is a cross-check
    let parsed := Flamego.parse (hexOf text)
    if parsed != Driver.Router.parseAst ast then (st, "ast-mismatch")
    else match parsed with
    | none => (st, "err")
    | some r =>
      let methods := Driver.Router.methodsOf ms
      -- as in Driver/Router: the methods before an unknown one stay registered
      if methods.isEmpty then (st, "err")
      else
        let ok := (st.R.addMethods E (natOf hid) r methods []).2
        (st.push E (.add (natOf hid) r methods), if ok then "ok" else "err")
  | "HDR" :: hid :: rest =>
    match Driver.Router.parseHdrPairs rest with
    | none => (st, "err")
    | some ps =>
      if ps.any (fun p => (E.compile p.expr).isNone) then (st, "err")
      else if (assocGet st.R.handles (natOf hid)).isNone then (st, "err")
      else (st.push E (.headers (natOf hid) (Driver.Router.dedupRaw ps)), "ok")
  | "REQ" :: m :: p :: hs =>
    let req : Request := ⟨(hexOf m).toStringLossy, hexOf p, Driver.Router.parseReqHdrs hs⟩
    let app := st.app
    (st, showResponse app st.nf.isNone (app.serve E req))
  | _ => (st, "bad-op")

def session (E : Engine) (args : List String) (lines : List (List String)) : List String :=
  let rec go (st : St) : List (List String) → List String
    | [] => []
    | l :: rest => let (st', out) := step E st l; out :: go st' rest
  "new" :: go { dev := args.head? == some "1" } lines

end Flamego.Driver.App
