/-
  Base/Engine.lean — the regular-expression engine is a *parameter* of every model.
  All theorems are quantified over every `Engine`; at run time the driver instantiates
  it with a table of answers produced by Go's `regexp` (DESIGN.md §3.3).
-/
import Flamego.Base.Bytes
namespace Flamego

structure Engine where
  /-- `regexp.Compile(p)`: `none` = error, `some n` = `NumSubexp()` -/
  compile : Bytes → Option Nat
  /-- `FindStringSubmatch(p, s)`: `none` = no match, `some subs` = all submatches incl. the 0-th -/
  find    : Bytes → Bytes → Option (List Bytes)
  /-- `MatchString(p, s)` (header constraints; unanchored search) -/
  search  : Bytes → Bytes → Bool

end Flamego
