/-
  Base/Codec.lean — byte-level codecs of net/url that flamego relies on.
  `pathUnescape` mirrors `url.PathUnescape` (mode encodePathSegment): `%XX` decoded,
  `+` left alone, any malformed `%` makes the whole call fail (`none`).
-/
import Flamego.Base.Bytes
namespace Flamego

def pct : UInt8 := 37   -- '%'

def isHex (c : UInt8) : Bool :=
  (48 ≤ c && c ≤ 57) || (97 ≤ c && c ≤ 102) || (65 ≤ c && c ≤ 70)

def unhex (c : UInt8) : UInt8 :=
  if 48 ≤ c && c ≤ 57 then c - 48
  else if 97 ≤ c && c ≤ 102 then c - 97 + 10
  else if 65 ≤ c && c ≤ 70 then c - 65 + 10
  else 0

/-- `url.PathUnescape` -/
def pathUnescape : Bytes → Option Bytes
  | [] => some []
  | c :: rest =>
    if c = pct then
      match rest with
      | a :: b :: rest' =>
        if isHex a && isHex b then (pathUnescape rest').map (fun r => (unhex a <<< 4 ||| unhex b) :: r)
        else none
      | _ => none
    else (pathUnescape rest).map (c :: ·)

/-- tree.go `Match`: `if err == nil { params[k] = unescaped }` -/
def pathUnescapeOrRaw (b : Bytes) : Bytes := (pathUnescape b).getD b

end Flamego
