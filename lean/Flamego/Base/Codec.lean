/-
  Base/Codec.lean — byte-level codecs of net/url that flamego relies on.
  `pathUnescape` mirrors `url.PathUnescape` (mode encodePathSegment): `%XX` decoded,
  `+` left alone, any malformed `%` makes the whole call fail (`none`).
-/
import Flamego.Base.Bytes
namespace Flamego

def pct : UInt8 := 37   -- '%'

def isHex (c : UInt8) : Bool :=
  (48 ≤ c && c ≤ 57) || (97 ≤ c && c ≤ 102) || (65 ≤ c && c ≤ 70)

def unhex (c : UInt8) : UInt8 :=
  if 48 ≤ c && c ≤ 57 then c - 48
  else if 97 ≤ c && c ≤ 102 then c - 97 + 10
  else if 65 ≤ c && c ≤ 70 then c - 65 + 10
  else 0

/-- `url.PathUnescape` -/
def pathUnescape : Bytes → Option Bytes
  | [] => some []
  | c :: rest =>
    if c = pct then
      match rest with
      | a :: b :: rest' =>
        if isHex a && isHex b then (pathUnescape rest').map (fun r => (unhex a <<< 4 ||| unhex b) :: r)
        else none
      | _ => none
    else (pathUnescape rest).map (c :: ·)

/-- tree.go `Match`: `if err == nil { params[k] = unescaped }` -/
def pathUnescapeOrRaw (b : Bytes) : Bytes := (pathUnescape b).getD b


/-! ## `url.QueryEscape` / `url.QueryUnescape` (net/url, mode `encodeQueryComponent`) -/

def space : UInt8 := 32      -- ' '
def plus : UInt8 := 43       -- '+'
def dquote : UInt8 := 34     -- '"'
def comma : UInt8 := 44      -- ','
def semicolon : UInt8 := 59  -- ';'
def backslash : UInt8 := 92  -- '\\'
def eqSign : UInt8 := 61     -- '='
def amp : UInt8 := 38        -- '&'

/-- `shouldEscape(c, encodeQueryComponent)`: only `A-Za-z0-9` and `- _ . ~` stay; every reserved
    byte (`$ & + , / : ; = ? @`) and everything else is escaped. -/
def shouldEscapeQuery (c : UInt8) : Bool :=
  !((97 ≤ c && c ≤ 122) || (65 ≤ c && c ≤ 90) || (48 ≤ c && c ≤ 57)
    || c == 45 || c == 95 || c == 46 || c == 126)

/-- `upperhex[n]` = `"0123456789ABCDEF"[n]` (used with `n < 16`) -/
def upperHex (n : UInt8) : UInt8 := if n < 10 then 48 + n else 55 + n

/-- `url.QueryEscape`.  Go's `escape` first counts, returns `s` itself when nothing needs
    escaping and has a copy-and-replace path when only blanks occur; all three paths produce
    the bytes of this one loop (`' '` → `'+'`, `shouldEscape` → `%XX` upper case, else the byte). -/
def queryEscape : Bytes → Bytes
  | [] => []
  | c :: rest =>
    if c = space then plus :: queryEscape rest
    else if shouldEscapeQuery c then pct :: upperHex (c >>> 4) :: upperHex (c &&& 15) :: queryEscape rest
    else c :: queryEscape rest

/-- `url.QueryUnescape`: `none` = `EscapeError`.  Go validates in a first pass (a `%` needs two hex
    digits after it, a valid `%XX` is skipped as a unit) and decodes in a second; one pass in
    `Option` fails on exactly the same inputs and decodes the same bytes. `+` becomes a blank. -/
def queryUnescape : Bytes → Option Bytes
  | [] => some []
  | c :: rest =>
    if c = pct then
      match rest with
      | a :: b :: rest' =>
        if isHex a && isHex b then (queryUnescape rest').map (fun r => (unhex a <<< 4 ||| unhex b) :: r)
        else none
      | _ => none
    else if c = plus then (queryUnescape rest).map (space :: ·)
    else (queryUnescape rest).map (c :: ·)

/-! ## small `strings` helpers used by the query and cookie parsers -/

/-- `strings.Split(s, string(sep))` for a one-byte separator — always at least one element.
    Iterating `strings.Cut(rest, sep)` until the rest is empty visits the same pieces
    (plus possibly a final empty one, which every caller skips). -/
def splitOn (sep : UInt8) : Bytes → List Bytes
  | [] => [[]]
  | c :: cs =>
    if c = sep then [] :: splitOn sep cs
    else match splitOn sep cs with
      | [] => [[c]]          -- unreachable
      | s :: ss => (c :: s) :: ss

/-- `before, after, _ := strings.Cut(s, string(sep))` (no separator: `(s, "")`) -/
def cut (sep : UInt8) : Bytes → Bytes × Bytes
  | [] => ([], [])
  | c :: cs => if c = sep then ([], cs) else let (a, b) := cut sep cs; (c :: a, b)

/-- `textproto.isASCIISpace` : blank, tab, LF, CR -/
def isAsciiSpace (b : UInt8) : Bool := b == 32 || b == 9 || b == 10 || b == 13

/-- `textproto.TrimString` -/
def trimString (s : Bytes) : Bytes :=
  ((s.dropWhile isAsciiSpace).reverse.dropWhile isAsciiSpace).reverse

/-! ## net/http cookie values (cookie.go) -/

/-- `validCookieValueByte` -/
def validCookieValueByte (b : UInt8) : Bool :=
  0x20 ≤ b && b < 0x7f && b != dquote && b != semicolon && b != backslash

/-- `sanitizeCookieValue(v, quoted)`: `sanitizeOrWarn` drops every invalid byte; a non-empty
    result is wrapped in double quotes when it contains a blank or a comma (or `quoted`). -/
def sanitizeCookieValue (v : Bytes) (quoted : Bool) : Bytes :=
  let v := v.filter validCookieValueByte
  if v.isEmpty then v
  else if v.any (fun b => b == space || b == comma) || quoted then dquote :: (v ++ [dquote])
  else v

/-- `httpguts.IsTokenRune` restricted to bytes (a non-ASCII rune is never a token rune):
    ``! # $ % & ' * + - . 0-9 A-Z ^ _ ` a-z | ~`` -/
def isTokenByte (c : UInt8) : Bool :=
  (97 ≤ c && c ≤ 122) || (65 ≤ c && c ≤ 90) || (48 ≤ c && c ≤ 57)
  || c == 33 || (35 ≤ c && c ≤ 39) || c == 42 || c == 43 || c == 45 || c == 46
  || c == 94 || c == 95 || c == 96 || c == 124 || c == 126

/-- `isCookieNameValid` -/
def cookieNameValid (name : Bytes) : Bool := !name.isEmpty && name.all isTokenByte

/-- `(&http.Cookie{Name: name, Value: value}).String()` — no attributes set, so the text is
    `name=value` with the value sanitised; an invalid name yields the empty string. -/
def cookieString (name value : Bytes) : Bytes :=
  if cookieNameValid name then name ++ eqSign :: sanitizeCookieValue value false else []

/-- `parseCookieValue(raw, allowDoubleQuote)`: `none` = `ok == false`; the flag is `quoted`. -/
def parseCookieValue (raw : Bytes) (allowDoubleQuote : Bool) : Option (Bytes × Bool) :=
  let stripped : Option Bytes :=
    match raw with
    | q :: rest =>
      -- len(raw) > 1 && raw[0] == '"' && raw[len(raw)-1] == '"'
      if allowDoubleQuote && q == dquote && !rest.isEmpty && rest.getLast? == some dquote
      then some rest.dropLast else none
    | [] => none
  let (body, quoted) := match stripped with
    | some b => (b, true)
    | none => (raw, false)
  if body.all validCookieValueByte then some (body, quoted) else none

/-- One `;`-separated part of a `Cookie` line in `readCookies(h, filter)`: trimmed; skipped when
    empty, when the name is invalid, when it is another name than `filter` (if non-empty) or when
    the value is invalid. -/
def readCookiePart (filter part : Bytes) : Option (Bytes × Bytes) :=
  let part := trimString part
  if part.isEmpty then none else
  let (name, val) := cut eqSign part
  let name := trimString name
  if !cookieNameValid name then none
  else if !filter.isEmpty && filter != name then none
  else match parseCookieValue val true with
    | some (v, _) => some (name, v)
    | none => none

/-- One line of `readCookies(h, filter)`: the `name=value` parts between `;`. -/
def readCookieLine (line filter : Bytes) : List (Bytes × Bytes) :=
  (splitOn semicolon (trimString line)).filterMap (readCookiePart filter)

/-- `readCookies(h, filter)` over the request's `Cookie` header lines -/
def readCookies (lines : List Bytes) (filter : Bytes) : List (Bytes × Bytes) :=
  lines.flatMap (readCookieLine · filter)

/-- `(*http.Request).Cookie(name)`: the first cookie of that name, `none` = `ErrNoCookie` -/
def requestCookie (lines : List Bytes) (name : Bytes) : Option Bytes :=
  if name.isEmpty then none else ((readCookies lines name).head?).map (·.2)

end Flamego
