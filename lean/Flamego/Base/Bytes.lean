/-
  Base/Bytes.lean — Go strings are byte strings: `Bytes := List UInt8`.
  Helpers mirroring the few `strings` functions flamego uses, plus hex
  encoding for the harness ↔ driver line protocol.  Core Lean only.
-/
namespace Flamego

abbrev Bytes := List UInt8

namespace Bytes

def ofString (s : String) : Bytes := s.toUTF8.toList

/-- Best-effort display (used only for diagnostics, never compared). -/
def toStringLossy (b : Bytes) : String :=
  String.ofList (b.map fun c => Char.ofNat c.toNat)

def hexDigit (n : Nat) : Char :=
  if n < 10 then Char.ofNat (48 + n) else Char.ofNat (87 + n)

/-- lower-case hex; the empty string is written `-` so that fields never vanish. -/
def toHex (b : Bytes) : String :=
  if b.isEmpty then "-" else
  String.ofList (b.flatMap fun c => [hexDigit (c.toNat / 16), hexDigit (c.toNat % 16)])

def hexVal (c : Char) : Option Nat :=
  if '0' ≤ c ∧ c ≤ '9' then some (c.toNat - 48)
  else if 'a' ≤ c ∧ c ≤ 'f' then some (c.toNat - 87)
  else if 'A' ≤ c ∧ c ≤ 'F' then some (c.toNat - 55)
  else none

def ofHexChars : List Char → Option Bytes
  | [] => some []
  | [_] => none
  | a :: b :: rest => do
    let x ← hexVal a
    let y ← hexVal b
    let r ← ofHexChars rest
    pure (UInt8.ofNat (x * 16 + y) :: r)

def ofHex (s : String) : Option Bytes :=
  if s == "-" then some [] else ofHexChars s.toList

end Bytes

/-- `'/'` -/
def slash : UInt8 := 47

/-- `strings.TrimLeft(s, "/")` -/
def trimLeftSlash : Bytes → Bytes
  | [] => []
  | c :: cs => if c = slash then trimLeftSlash cs else c :: cs

/-- `strings.Split(s, "/")` — always at least one element. -/
def splitSlash : Bytes → List Bytes
  | [] => [[]]
  | c :: cs =>
    if c = slash then [] :: splitSlash cs
    else match splitSlash cs with
      | [] => [[c]]          -- unreachable
      | s :: ss => (c :: s) :: ss

/-- `strings.Join(ss, "/")` -/
def joinSlash : List Bytes → Bytes
  | [] => []
  | [s] => s
  | s :: ss => s ++ slash :: joinSlash ss

theorem splitSlash_ne_nil (b : Bytes) : splitSlash b ≠ [] := by
  induction b with
  | nil => simp [splitSlash]
  | cons c cs ih =>
    unfold splitSlash
    split
    · simp
    · split <;> simp

theorem joinSlash_splitSlash (b : Bytes) : joinSlash (splitSlash b) = b := by
  induction b with
  | nil => simp [splitSlash, joinSlash]
  | cons c cs ih =>
    unfold splitSlash
    split
    · rename_i h
      have hne := splitSlash_ne_nil cs
      cases hs : splitSlash cs with
      | nil => exact absurd hs hne
      | cons s ss =>
        rw [hs] at ih
        simp [joinSlash, ih, h]
    · cases hs : splitSlash cs with
      | nil => exact absurd hs (splitSlash_ne_nil cs)
      | cons s ss =>
        rw [hs] at ih
        cases ss with
        | nil => simp [joinSlash] at ih ⊢; exact ih
        | cons s2 ss2 => simp [joinSlash] at ih ⊢; exact ih

/-! ### `splitSlash` as "cut at the first '/'" (used by Proofs/TreeIdx: index level = segment level) -/

/-- a slash-free prefix followed by '/' is the first segment -/
theorem splitSlash_append_slash (s q : Bytes) (hs : slash ∉ s) :
    splitSlash (s ++ slash :: q) = s :: splitSlash q := by
  induction s with
  | nil => simp [splitSlash]
  | cons c cs ih =>
    have hc : c ≠ slash := fun h => hs (by simp [h])
    have hcs : slash ∉ cs := fun h => hs (by simp [h])
    simp only [List.cons_append]
    rw [splitSlash]
    simp [hc, ih hcs]

/-- a slash-free string is its own single segment -/
theorem splitSlash_no_slash (s : Bytes) (hs : slash ∉ s) : splitSlash s = [s] := by
  induction s with
  | nil => simp [splitSlash]
  | cons c cs ih =>
    have hc : c ≠ slash := fun h => hs (by simp [h])
    have hcs : slash ∉ cs := fun h => hs (by simp [h])
    rw [splitSlash]
    simp [hc, ih hcs]

/-- the first segment contains no '/', and what follows it is "/" + the rest (if there is a rest) -/
theorem splitSlash_cons (q s : Bytes) (rest : List Bytes) (h : splitSlash q = s :: rest) :
    slash ∉ s ∧ (rest = [] → q = s) ∧
    (rest ≠ [] → ∃ q', q = s ++ slash :: q' ∧ splitSlash q' = rest) := by
  induction q generalizing s rest with
  | nil =>
    simp [splitSlash] at h
    obtain ⟨rfl, rfl⟩ := h
    simp
  | cons c cs ih =>
    rw [splitSlash] at h
    split at h
    · rename_i hc
      simp at h
      obtain ⟨rfl, rfl⟩ := h
      refine ⟨by simp, ?_, ?_⟩
      · intro h0; exact absurd h0 (splitSlash_ne_nil cs)
      · intro _; exact ⟨cs, by simp [hc], rfl⟩
    · rename_i hc
      cases hcs : splitSlash cs with
      | nil => exact absurd hcs (splitSlash_ne_nil cs)
      | cons s0 ss =>
        rw [hcs] at h
        simp at h
        obtain ⟨rfl, rfl⟩ := h
        obtain ⟨i1, i2, i3⟩ := ih s0 ss hcs
        refine ⟨?_, ?_, ?_⟩
        · simp only [List.mem_cons, not_or]
          exact ⟨fun h => hc h.symm, i1⟩
        · intro h0; rw [i2 h0]
        · intro h0
          obtain ⟨q', e1, e2⟩ := i3 h0
          exact ⟨q', by simp [e1], e2⟩

theorem splitSlash_singleton (q s : Bytes) (h : splitSlash q = [s]) : s = q ∧ slash ∉ q := by
  obtain ⟨h1, h2, _⟩ := splitSlash_cons q s [] h
  have := h2 rfl
  subst this
  exact ⟨rfl, h1⟩

theorem splitSlash_cons_cons (q s s' : Bytes) (rest : List Bytes) (h : splitSlash q = s :: s' :: rest) :
    ∃ q', q = s ++ slash :: q' ∧ splitSlash q' = s' :: rest ∧ slash ∉ s := by
  obtain ⟨h1, _, h3⟩ := splitSlash_cons q s (s' :: rest) h
  obtain ⟨q', e1, e2⟩ := h3 (by simp)
  exact ⟨q', e1, e2, h1⟩

theorem trimLeftSlash_length_le (b : Bytes) : (trimLeftSlash b).length ≤ b.length := by
  induction b with
  | nil => simp [trimLeftSlash]
  | cons c cs ih =>
    unfold trimLeftSlash
    split <;> simp <;> omega

/-- `TrimLeft` leaves a string that does not start with '/' -/
theorem trimLeftSlash_head (b : Bytes) : (trimLeftSlash b).head? ≠ some slash := by
  induction b with
  | nil => simp [trimLeftSlash]
  | cons c cs ih =>
    unfold trimLeftSlash
    split
    · exact ih
    · rename_i hc; simp [hc]

/-- every segment `strings.Split(s, "/")` returns is free of '/' (C02: a placeholder's value,
    being one segment, contains no '/') -/
theorem splitSlash_mem_no_slash (q : Bytes) : ∀ x ∈ splitSlash q, slash ∉ x := by
  induction q with
  | nil =>
    intro x hx
    simp only [splitSlash, List.mem_singleton] at hx
    subst hx; simp
  | cons c cs ih =>
    intro x hx
    rw [splitSlash] at hx
    split at hx
    · rcases List.mem_cons.mp hx with rfl | h
      · simp
      · exact ih x h
    · rename_i hc
      cases hcs : splitSlash cs with
      | nil => exact absurd hcs (splitSlash_ne_nil cs)
      | cons s0 ss =>
        rw [hcs] at hx ih
        rcases List.mem_cons.mp hx with rfl | h
        · simp only [List.mem_cons, not_or]
          exact ⟨fun e => hc e.symm, ih s0 (List.mem_cons_self ..)⟩
        · exact ih x (List.mem_cons_of_mem _ h)

end Flamego
