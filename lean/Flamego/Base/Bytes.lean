/-
  Base/Bytes.lean — Go strings are byte strings: `Bytes := List UInt8`.
  Helpers mirroring the few `strings` functions flamego uses, plus hex
  encoding for the harness ↔ driver line protocol.  Core Lean only.
-/
namespace Flamego

abbrev Bytes := List UInt8

namespace Bytes

def ofString (s : String) : Bytes := s.toUTF8.toList

/-- Best-effort display (used only for diagnostics, never compared). -/
def toStringLossy (b : Bytes) : String :=
  String.ofList (b.map fun c => Char.ofNat c.toNat)

def hexDigit (n : Nat) : Char :=
  if n < 10 then Char.ofNat (48 + n) else Char.ofNat (87 + n)

/-- lower-case hex; the empty string is written `-` so that fields never vanish. -/
def toHex (b : Bytes) : String :=
  if b.isEmpty then "-" else
  String.ofList (b.flatMap fun c => [hexDigit (c.toNat / 16), hexDigit (c.toNat % 16)])

def hexVal (c : Char) : Option Nat :=
  if '0' ≤ c ∧ c ≤ '9' then some (c.toNat - 48)
  else if 'a' ≤ c ∧ c ≤ 'f' then some (c.toNat - 87)
  else if 'A' ≤ c ∧ c ≤ 'F' then some (c.toNat - 55)
  else none

def ofHexChars : List Char → Option Bytes
  | [] => some []
  | [_] => none
  | a :: b :: rest => do
    let x ← hexVal a
    let y ← hexVal b
    let r ← ofHexChars rest
    pure (UInt8.ofNat (x * 16 + y) :: r)

def ofHex (s : String) : Option Bytes :=
  if s == "-" then some [] else ofHexChars s.toList

end Bytes

/-- `'/'` -/
def slash : UInt8 := 47

/-- `strings.TrimLeft(s, "/")` -/
def trimLeftSlash : Bytes → Bytes
  | [] => []
  | c :: cs => if c = slash then trimLeftSlash cs else c :: cs

/-- `strings.Split(s, "/")` — always at least one element. -/
def splitSlash : Bytes → List Bytes
  | [] => [[]]
  | c :: cs =>
    if c = slash then [] :: splitSlash cs
    else match splitSlash cs with
      | [] => [[c]]          -- unreachable
      | s :: ss => (c :: s) :: ss

/-- `strings.Join(ss, "/")` -/
def joinSlash : List Bytes → Bytes
  | [] => []
  | [s] => s
  | s :: ss => s ++ slash :: joinSlash ss

theorem splitSlash_ne_nil (b : Bytes) : splitSlash b ≠ [] := by
  induction b with
  | nil => simp [splitSlash]
  | cons c cs ih =>
    unfold splitSlash
    split
    · simp
    · split <;> simp

theorem joinSlash_splitSlash (b : Bytes) : joinSlash (splitSlash b) = b := by
  induction b with
  | nil => simp [splitSlash, joinSlash]
  | cons c cs ih =>
    unfold splitSlash
    split
    · rename_i h
      have hne := splitSlash_ne_nil cs
      cases hs : splitSlash cs with
      | nil => exact absurd hs hne
      | cons s ss =>
        rw [hs] at ih
        simp [joinSlash, ih, h]
    · cases hs : splitSlash cs with
      | nil => exact absurd hs (splitSlash_ne_nil cs)
      | cons s ss =>
        rw [hs] at ih
        cases ss with
        | nil => simp [joinSlash] at ih ⊢; exact ih
        | cons s2 ss2 => simp [joinSlash] at ih ⊢; exact ih

end Flamego
