/-
  Model/WriterNest.lean — a flamego response writer whose underlying `http.ResponseWriter` is itself a
  flamego response writer (`NewResponseWriter(m₂, NewResponseWriter(m₁, client))`): a Flame instance mounted
  inside a handler of another one, a sub-request served with the caller's `c.ResponseWriter()`.

  `NewResponseWriter` always wraps: the inner writer has its own method, status, size, `sync.Once` and hooks,
  and talks to the outer one only through `WriteHeader` / `Write` / `Flush` of the `http.ResponseWriter`
  interface (the outer writer is an `http.Flusher`).  `Nest.log` is the global order of events: what the
  CLIENT's writer received (outer hooks included, as in `W.under`) interleaved with the inner writer's hooks.
-/
import Flamego.Model.Writer
namespace Flamego.Writer

inductive NEv
  | client (e : UEv)      -- an event of the outer writer's `under` (its hooks, then what the client received)
  | ihook (h : Nat)       -- a hook of the inner writer ran
  deriving DecidableEq, Repr

structure Nest where
  o   : W
  i   : W
  log : List NEv := []
  deriving Repr

def Nest.init (outerHead innerHead : Bool) : Nest := { o := Writer.init outerHead, i := Writer.init innerHead }

/-- an operation performed on the OUTER writer (by the inner one, or directly by the caller) -/
def Nest.viaOuter (n : Nest) (op : Op) : Nest :=
  let o' := step n.o op
  { n with o := o', log := n.log ++ (o'.under.drop n.o.under.length).map NEv.client }

/-- inner `WriteHeader(c)`: the inner `sync.Once`; inside: return if written, inner hooks LIFO, then
    `w.ResponseWriter.WriteHeader(c)` — the OUTER writer's WriteHeader — then store -/
def Nest.innerHeader (n : Nest) (c : Nat) : Nest :=
  if n.i.onceDone then n
  else if n.i.written then { n with i := n.i.writeHeader c }
  else
    let n1 := { n with log := n.log ++ n.i.hooks.reverse.map NEv.ihook }
    let n2 := n1.viaOuter (.writeHeader c)
    { n2 with i := n.i.writeHeader c }

def Nest.innerEnsure (n : Nest) : Nest :=
  if n.i.written then n else n.innerHeader Gen.writerWriteImplicitStatus

/-- what the inner writer's `Write` gets back from `w.ResponseWriter.Write(b)`, the outer writer's own
    return value: nothing for an outer HEAD writer, else what the client's writer accepted -/
def outerAccepts (o : W) (fwd : Nat) : Nat := if o.head then 0 else fwd

def Nest.stepInner (n : Nest) : Op → Nest
  | .writeHeader c => n.innerHeader c
  | .write len fwd =>
    let n := n.innerEnsure
    if n.i.head then n
    else
      let n2 := n.viaOuter (.write len fwd)
      let got := outerAccepts n.o fwd
      { n2 with i := { n2.i with under := n2.i.under ++ [UEv.body got], size := n2.i.size + got } }
  | .flush =>
    let n := n.innerEnsure
    let n2 := n.viaOuter .flush
    { n2 with i := { n2.i with under := n2.i.under ++ [UEv.flush] } }
  | .before h => { n with i := step n.i (.before h) }
  | .status | .size | .written => n

def Nest.stepOuter (n : Nest) (op : Op) : Nest := n.viaOuter op

/-- one operation of a session: on the inner (`true`) or on the outer (`false`) writer -/
def Nest.step (n : Nest) (lv : Bool × Op) : Nest := if lv.1 then n.stepInner lv.2 else n.stepOuter lv.2

def Nest.run (oh ih : Bool) (ops : List (Bool × Op)) : Nest := ops.foldl Nest.step (Nest.init oh ih)

/-- the operation the inner writer's model performs for a caller's op: the same op, with the number of
    accepted bytes being what the OUTER writer reports back -/
def innerOp (o : W) : Op → Op
  | .write len fwd => .write len (outerAccepts o fwd)
  | op => op

/-- the operations the outer writer receives when the caller performs `op` on the inner writer `i` -/
def forwarded (i : W) : Op → List Op
  | .writeHeader c => if i.onceDone || i.written then [] else [.writeHeader c]
  | .write len fwd =>
    (if i.written || i.onceDone then [] else [.writeHeader Gen.writerWriteImplicitStatus]) ++ (if i.head then [] else [.write len fwd])
  | .flush => (if i.written || i.onceDone then [] else [.writeHeader Gen.writerWriteImplicitStatus]) ++ [.flush]
  | _ => []

end Flamego.Writer
