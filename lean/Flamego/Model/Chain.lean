/-
  Model/Chain.lean — the handler-chain machine: context.go `run`/`Next`, flame.go
  `createContext`, router.go `Route` (chain assembly), recovery.go `Recovery`.

  Go (with the F10 repair: cursor = next handler to start)  | here
  -----------------------------------------------------------+----------------------------------
  f.handlers ++ (group handlers ++ route handlers)           | `Cfg.chain = mw ++ grp ++ rt`
  f.action (may be nil)                                      | `Cfg.action : Option Kind`
  context.index                                              | `St.idx`
  context.responseWriter                                     | `St.w : Flamego.Writer.W` (status 0 = unwritten)
  Request().Context().Done() closed                          | `St.cancelled`
  a panic travelling up the Go stack                         | the `Option (PVal × Nat)` of `Res`
                                                             |   (value kind, position that raised it)
  Env() == EnvTypeDev                                        | `Cfg.dev`

  A handler is a finite program (`Prog`): a list of actions and an abstract return effect
  (the return-value table itself is property C14).  `Kind.recovery` is flamego.Recovery();
  `Kind.unresolvable` is a handler with a parameter nobody mapped: `c.Invoke` fails and
  `run()` itself panics before any handler code runs.

  The interpreter is two functions mirroring the Go call structure:
    `run fuel st`        = `(*context).run()`;  `Next()` is exactly `run` (repaired code)
    `execActs runF …`    = the body of one handler, `runF` being what `c.Next()` does.
  `fuel` bounds the nesting/iteration depth; `run_fuel_irrelevant` (Proofs/Chain) shows that any
  fuel ≥ chain length + 1 − cursor gives the same result, so `serve` never runs dry.

  Panicking Before-hooks (finding F15).  `Act.hookPanic` registers a hook that panics.  It
  fires inside the first WriteHeader that gets into the `sync.Once` (`hookFires`).  In Go the
  Once is then spent although no status was stored.  `Cfg.onceBug = true` models exactly that
  (used by the driver to recognise F15's symptom); `onceBug = false` is the behaviour the
  property asks for (the aborted WriteHeader leaves the writer untouched, and Recovery's own
  response is not subject to request hooks).  All C15 theorems are about `onceBug = false`;
  all C03 theorems hold for both.
-/
import Flamego.Model.Writer
import Flamego.Gen.ConstFacts
namespace Flamego.Chain
open Flamego.Writer

/-- recovery.go: the status Recovery sends, and the length of its plain body
    `http.StatusText(http.StatusInternalServerError)` — both read from the source on every run -/
def recoveryStatus : Nat := Gen.recoveryStatus
def recoveryPlainLen : Nat := Gen.recoveryPlainBody.length

/-- kinds of panic value (the value itself is irrelevant to control flow) -/
inductive PVal
  | str | err | rt | struct | abort      -- string, error, runtime error, struct, http.ErrAbortHandler
  | inject                               -- raised by run(): "unable to invoke the … handler"
  | hook                                 -- raised inside a Before hook
  deriving DecidableEq, Repr

inductive Act
  | write (code : Nat)      -- c.ResponseWriter().WriteHeader(code)
  | body (n : Nat)          -- c.ResponseWriter().Write(n bytes)
  | next                    -- c.Next()
  | cancel                  -- cancel the request's context
  | map                     -- c.Map(v): no effect on control flow
  | panic (v : PVal)        -- panic(v)
  | hookPanic               -- c.ResponseWriter().Before(func(..){ panic("hook") })
  deriving DecidableEq, Repr

/-- what the handler's return values make the return handler do -/
inductive Ret
  | none                          -- no return values: the return handler is not called
  | writes (code len : Nat)       -- e.g. `(int, string)`: WriteHeader(code), then Write if len > 0
  | body (len : Nat)              -- e.g. a `string`: Write only (implicit 200); nothing if len = 0
  | nothing                       -- return values that render to nothing (e.g. `""`)
  deriving DecidableEq, Repr

structure Prog where
  acts : List Act
  ret  : Ret := .none
  deriving DecidableEq, Repr

inductive Kind
  | plain (p : Prog)
  | recovery
  | unresolvable
  deriving DecidableEq, Repr

inductive Ev
  | enter (i : Nat)               -- handler i's code starts
  | exit (i : Nat)                -- handler i's code returns normally
  | abort (i j : Nat)             -- handler i is unwound by a panic raised at position j
  | inject (i : Nat)              -- run() could not resolve handler i's parameters (it panics)
  | nilact (i : Nat)              -- the action slot is nil (run()'s `h == nil` branch)
  | recovered (r j s : Nat)       -- Recovery at r caught a panic raised at j; status was s then
  | escaped (v : PVal) (j : Nat)  -- the panic left ServeHTTP
  deriving DecidableEq, Repr

/-- body tokens the client receives, one per forwarded Write (none at all for HEAD: the writer
    forwards no body then, `w.method != http.MethodHead`) -/
inductive Tok
  | xs (n : Nat)     -- n bytes written by a handler
  | plain            -- "Internal Server Error"
  | detail           -- the development-mode HTML page with the panic value and stack
  deriving DecidableEq, Repr

structure Cfg where
  mw      : List Kind := []       -- f.Use(...)
  grp     : List Kind := []       -- handlers of the enclosing groups, outermost first
  rt      : List Kind := []       -- the route's own handlers
  action  : Option Kind := none   -- f.Action(...)
  head    : Bool := false         -- the request method is HEAD (`NewResponseWriter(r.Method, w)`)
  dev     : Bool := false
  onceBug : Bool := false         -- see the header: true = response_writer.go as it is (F15)
  detailLen : Nat := 1000         -- length of the development page (irrelevant to control flow)
  deriving Repr

/-- createContext: `hs = f.handlers ++ handlers`, Route: `handlers = group handlers ++ route handlers` -/
def Cfg.chain (c : Cfg) : List Kind := c.mw ++ c.grp ++ c.rt

/-- `len(c.handlers)` -/
def Cfg.n (c : Cfg) : Nat := c.chain.length

/-- `if c.index == len(c.handlers) { h = c.action } else { h = c.handlers[c.index] }` -/
def Cfg.slot (c : Cfg) (i : Nat) : Option Kind :=
  if i = c.n then c.action else c.chain[i]?

structure St where
  idx       : Nat := 0
  w         : W := Writer.init false
  cancelled : Bool := false
  badHook   : Bool := false       -- a panicking Before hook is registered
  trace     : List Ev := []
  out       : List Tok := []
  deriving Repr

abbrev Res := St × Option (PVal × Nat)

def St.ev (st : St) (e : Ev) : St := { st with trace := st.trace ++ [e] }

/-! ### writing through the response writer (response_writer.go, with panicking hooks) -/

/-- The panicking hook runs inside WriteHeader's `sync.Once` iff the Once is still open and
    nothing has been sent (`if w.Written() { return }` precedes `callBefore`). -/
def hookFires (st : St) : Bool := st.badHook && !st.w.onceDone && !st.w.written

/-- F15: in Go the Once is spent when the hook panics (only if `onceBug`). -/
def spendOnce (c : Cfg) (st : St) : St :=
  { st with w := { st.w with onceDone := c.onceBug || st.w.onceDone } }

/-- `WriteHeader(code)` called by position `i` -/
def doHeader (c : Cfg) (i code : Nat) (st : St) : Res :=
  if hookFires st then (spendOnce c st, some (.hook, i))
  else ({ st with w := st.w.writeHeader code }, none)

/-- `Write(n bytes)` called by position `i` (triggers WriteHeader(200) when unwritten) -/
def doBody (c : Cfg) (i n : Nat) (st : St) : Res :=
  if hookFires st then (spendOnce c st, some (.hook, i))
  else ({ st with w := step st.w (.write n n), out := if c.head then st.out else st.out ++ [.xs n] }, none)

/-- recovery.go:136-146 — `w.WriteHeader(500); w.Write(body)`, body by environment
    (`Cfg.dev` is `Env() == EnvTypeDev`; the constant compared with is `Gen.recoveryDetailEnvName`).
    With `onceBug` the hooks run (and may panic) like for any other WriteHeader. -/
def recoverWrite (c : Cfg) (r : Nat) (st : St) : Res :=
  if c.onceBug && hookFires st then (spendOnce c st, some (.hook, r))
  else
    let len := if c.dev then c.detailLen else recoveryPlainLen
    ({ st with w := step (st.w.writeHeader recoveryStatus) (.write len len),
               out := if c.head then st.out else st.out ++ [if c.dev then Tok.detail else Tok.plain] }, none)

/-! ### one handler -/

/-- one action of handler `i`; `runF` is what `c.Next()` does -/
def act1 (c : Cfg) (runF : St → Res) (i : Nat) (a : Act) (st : St) : Res :=
  match a with
  | .write code => doHeader c i code st
  | .body n => doBody c i n st
  | .next => runF st
  | .cancel => ({ st with cancelled := true }, none)
  | .map => (st, none)
  | .panic v => (st, some (v, i))
  | .hookPanic => ({ st with badHook := true }, none)

/-- the body of handler `i`: actions in order, a panic abandons the rest -/
def execActs (c : Cfg) (runF : St → Res) (i : Nat) : List Act → St → Res
  | [], st => (st, none)
  | a :: rest, st =>
    match act1 c runF i a st with
    | (st', none) => execActs c runF i rest st'
    | (st', some p) => (st', some p)

/-- context.go:218-223 — `if len(vals) > 0 { handleReturn(c, vals) }` -/
def render (c : Cfg) (i : Nat) : Ret → St → Res
  | .none, st => (st, none)
  | .nothing, st => (st, none)
  | .body len, st => if len = 0 then (st, none) else doBody c i len st
  | .writes code len, st =>
    match doHeader c i code st with
    | (st', some p) => (st', some p)
    | (st', none) => if len = 0 then (st', none) else doBody c i len st'

/-- `c.Invoke(h)` (+ rendering of its return values) for the handler at position `i`;
    the cursor has already been advanced. -/
def invoke (c : Cfg) (runF : St → Res) (i : Nat) : Kind → St → Res
  | .unresolvable, st => (st.ev (.inject i), some (.inject, i))     -- run() panics itself
  | .plain p, st =>
    match execActs c runF i p.acts (st.ev (.enter i)) with
    | (st1, some (v, j)) => (st1.ev (.abort i j), some (v, j))
    | (st1, none) => render c i p.ret (st1.ev (.exit i))
  | .recovery, st =>                       -- defer recover(); c.Next()
    match runF (st.ev (.enter i)) with
    | (st1, none) => (st1.ev (.exit i), none)
    | (st1, some (_, j)) =>
      match recoverWrite c i (st1.ev (.recovered i j st1.w.status)) with
      | (st2, none) => (st2.ev (.exit i), none)
      | (st2, some (v', j')) => (st2.ev (.abort i j'), some (v', j'))

/-! ### run() and Next() -/

/-- `(*context).run()`; `Next()` is the same function (repaired code: no increment in Next). -/
def run (c : Cfg) : Nat → St → Res
  | 0, st => (st, none)
  | f + 1, st =>
    if c.n < st.idx then (st, none)              -- for c.index <= len(c.handlers)
    else if st.cancelled then (st, none)         -- select { case <-Done(): return }
    else
      let i := st.idx
      let st := { st with idx := i + 1 }         -- index := c.index; c.index++
      match c.slot i with
      | none => (st.ev (.nilact i), none)        -- if h == nil { return }
      | some k =>
        match invoke c (run c f) i k st with
        | (st1, some p) => (st1, some p)         -- a panic unwinds run()
        | (st1, none) =>
          if st1.w.written then (st1, none)      -- if c.ResponseWriter().Written() { return }
          else run c f st1                       -- next loop iteration

def Cfg.fuel (c : Cfg) : Nat := c.n + 2

/-- newContext: cursor 0, a fresh `NewResponseWriter(r.Method, w)`, nothing recorded -/
def Cfg.st0 (c : Cfg) : St := { w := Writer.init c.head }

/-- router.go: `contextCreator(...).run()` inside ServeHTTP, observed from outside.
    The configuration is an input only: serving returns no new configuration. -/
def serve (c : Cfg) : St :=
  match run c c.fuel c.st0 with
  | (st, none) => st
  | (st, some (v, j)) => st.ev (.escaped v j)

/-- a sequence of requests on one instance (the i-th served in environment `envs[i]`) -/
def serveSeq (c : Cfg) (envs : List Bool) : List St :=
  envs.map (fun d => serve { c with dev := d })

end Flamego.Chain
