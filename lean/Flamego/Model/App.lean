/-
  Model/App.lean — one request through a whole application: flame.go `Flame.ServeHTTP` and
  `createContext`, composed from the router model (Model/Router, histories of Proofs/Shortcut), the
  handler-chain machine (Model/Chain) and the response writer (Model/Writer).

  Go                                                        | here
  ----------------------------------------------------------+-------------------------------------------
  f.urlPrefix  (`strings.TrimPrefix(r.URL.Path, prefix)`)   | `App.urlPrefix`, `App.trim`  (no exported
                                                            |   setter exists: always "" in practice)
  f.befores  (`for _, h := range f.befores { if h(w, r) {   | `App.befores`, `runBefores`: FIFO, the first
     return } }`)                                           |   one that returns true ends the request
  f.handlers  (f.Use)                                       | `App.middleware`
  the registrations / Headers() made on f.Router            | `App.ops : List RouterOp`  (`Router.run`)
  the handler slice closed over by router.Route             | `App.handlersOf hid`  (group handlers ++ route
     (`handlers = group handlers ++ route handlers`)        |   handlers, already flat: the DSL is C11)
  f.action  (`if f.action != nil { c.setAction(f.action) }` | `App.action` — set for EVERY context, the
     in createContext)                                      |   not-found one included
  router.notFound  (f.NotFound(handlers…); the default is   | `App.notFound`  (default `defaultNotFound`:
     `http.NotFound`, installed by NewWithLogger)           |   one handler writing 404 and 19 bytes)
  createContext: `hs = f.handlers ++ handlers`              | `App.cfgFor`  (`Cfg.chain = mw ++ [] ++ rt`)
  newContext: `NewResponseWriter(r.Method, w)`              | `Cfg.head := (method = "HEAD")`
  `c.Param(name)` inside a handler                          | `HAct.echo` / `HRet.param`, instantiated with
                                                            |   the parameters of the router's outcome

  A handler here is a handler program of the chain model (`Chain.Act`, `Chain.Ret`) that may
  additionally write `c.Param(name)` to the response (`echo`) or return it as a string (`param`).
  The chain machine records lengths only (`Tok.xs n`), so an echo of a parameter of length n is the
  chain action `body n`: the response depends on the parameters the router handed over (C02) through
  the lengths written; the values themselves are observed by the correspondence check at handler
  entry (Driver/App).

  Serving never returns a new application: `serve` is a function of `(app, request)` into `Response`.
-/
import Flamego.Model.RouterHistory
import Flamego.Model.Chain
namespace Flamego.App
open Flamego.Chain Flamego.Writer

/-- a `BeforeHandler`: `pass` returns false; `stop w` returns true, after writing status and body
    (`w = some (code, n)`: `rw.WriteHeader(code); rw.Write(n bytes)` on the CLIENT's writer — Before
    hooks get the raw `http.ResponseWriter`, no flamego writer exists yet) or nothing at all -/
inductive BeforeKind
  | pass
  | stop (w : Option (Nat × Nat))
  deriving DecidableEq, Repr

inductive HAct
  | act (a : Chain.Act)
  | echo (name : Bytes)        -- c.ResponseWriter().Write([]byte(c.Param(name)))
  deriving DecidableEq, Repr

inductive HRet
  | ret (r : Chain.Ret)
  | param (name : Bytes)       -- `return c.Param(name)` from a `func(Context) string`
  deriving DecidableEq, Repr

structure HProg where
  acts : List HAct
  ret  : HRet := .ret .none
  deriving DecidableEq, Repr

inductive Handler
  | plain (p : HProg)
  | recovery
  | unresolvable
  deriving DecidableEq, Repr

/-- `len(c.Param(name))`: a missing key of the Go map reads as "" -/
def paramLen (ps : Params) (name : Bytes) : Nat := ((ps.get? name).getD []).length

def HAct.inst (ps : Params) : HAct → Chain.Act
  | .act a => a
  | .echo name => .body (paramLen ps name)

/-- a returned string is the chain's returned-body effect: `Write` only (implicit 200), nothing at
    all when it is empty (return_handler.go: `if len(body) == 0 { return }`) -/
def HRet.inst (ps : Params) : HRet → Chain.Ret
  | .ret r => r
  | .param name => .body (paramLen ps name)

/-- the handler as the chain machine sees it once the request's parameters are known -/
def Handler.inst (ps : Params) : Handler → Chain.Kind
  | .plain p => .plain { acts := p.acts.map (HAct.inst ps), ret := p.ret.inst ps }
  | .recovery => .recovery
  | .unresolvable => .unresolvable

/-- `http.NotFound` behind the flamego writer: `WriteHeader(404)`, one `Write` of
    "404 page not found\n" (19 bytes) -/
def defaultNotFound : List Handler :=
  [.plain { acts := [.act (.write 404), .act (.body 19)] }]

structure App where
  urlPrefix  : Bytes := []
  befores    : List BeforeKind := []
  middleware : List Handler := []
  ops        : List RouterOp := []
  handlersOf : Nat → List Handler := fun _ => []
  action     : Option Handler := none
  notFound   : List Handler := defaultNotFound
  dev        : Bool := false

/-- which chain a request started -/
inductive Which
  | route (hid : Nat)
  | notFound
  deriving DecidableEq, Repr

/-- one started chain: which one, the parameters its context was created with, the chain as the
    machine ran it, and the machine's final state (event trace, writer, body tokens) -/
structure Run where
  which  : Which
  params : Params
  cfg    : Chain.Cfg
  st     : Chain.St

structure Response where
  /-- indexes of the Before hooks that ran, in the order they ran -/
  befores : List Nat
  /-- what a stopping Before hook sent to the client's writer directly -/
  pre     : List UEv
  /-- the handler chains started -/
  runs    : List Run

/-! ### Flame.ServeHTTP -/

/-- `strings.TrimPrefix(s, prefix)` -/
def trimPrefix (pre s : Bytes) : Bytes := if isPrefixOf' pre s then s.drop pre.length else s

/-- `if f.urlPrefix != "" { r.URL.Path = strings.TrimPrefix(r.URL.Path, f.urlPrefix) }` -/
def App.trim (app : App) (req : Request) : Request :=
  if app.urlPrefix = [] then req else { req with path := trimPrefix app.urlPrefix req.path }

/-- `for _, h := range f.befores { if h(w, r) { return } }`, the hooks numbered from `i`:
    which hooks ran, and — when one returned true — what it had written -/
def runBefores : List BeforeKind → Nat → List Nat × Option (List UEv)
  | [], _ => ([], none)
  | .pass :: rest, i => let r := runBefores rest (i + 1); (i :: r.1, r.2)
  | .stop w :: _, i =>
    ([i], some (match w with | none => [] | some (code, n) => [UEv.hdr code, UEv.body n]))

/-- createContext: `hs = f.handlers ++ handlers`, `c.setAction(f.action)`; the handlers read the
    parameters `ps` the router handed over; newContext: `NewResponseWriter(r.Method, w)`
    (`head` = the request method is HEAD) -/
def App.cfgFor (app : App) (ps : Params) (hs : List Handler) (head : Bool) : Chain.Cfg :=
  { mw := app.middleware.map (Handler.inst ps), grp := [], rt := hs.map (Handler.inst ps),
    action := app.action.map (Handler.inst ps), head := head, dev := app.dev }

/-- what the router's outcome makes `ServeHTTP` call: the leaf's handler (the closure of
    router.Route over its handler slice) with the matched parameters, or `r.notFound` with none -/
def App.target (app : App) : Outcome → Which × Params × List Handler
  | .handler l ps => (.route l.hid, ps, app.handlersOf l.hid)
  | .notFound => (.notFound, [], app.notFound)

/-- `Flame.ServeHTTP` with the router's decision procedure `route` as a parameter -/
def App.serveWith (app : App) (route : Request → Outcome) (req : Request) : Response :=
  match runBefores app.befores 0 with
  | (ran, some pre) => { befores := ran, pre := pre, runs := [] }
  | (ran, none) =>
    let req' := app.trim req
    let t := app.target (route req')
    let cfg := app.cfgFor t.2.1 t.2.2 (req'.method == "HEAD")
    -- `contextCreator(w, req, params, handlers, urlPath).run()`: the chain machine's `serve`
    { befores := ran, pre := [],
      runs := [{ which := t.1, params := t.2.1, cfg := cfg, st := Chain.serve cfg }] }

/-- `Flame.ServeHTTP`: the router is the one the registration history built -/
def App.serve (E : Engine) (app : App) (req : Request) : Response :=
  app.serveWith ((Router.run E app.ops).serve E) req

/-- the same application with the static shortcut table switched off -/
def App.serveTreeOnly (E : Engine) (app : App) (req : Request) : Response :=
  app.serveWith ((Router.run E app.ops).serveTreeOnly E) req

/-- a sequence of requests on one application instance: `ServeHTTP` hands back no new application,
    every request is served by the same `app` -/
def App.serveSeq (E : Engine) (app : App) : List Request → List Response
  | [] => []
  | req :: rest => app.serve E req :: app.serveSeq E rest

end Flamego.App
