/-
  Model/Lexer.lean — participle's stateful lexer (lexer/stateful.go, v2.1.4), INTERPRETING the
  rule table regenerated from internal/route/parser.go (`Gen.lexRules`).

  Go (`StatefulLexer.Next`, `lexer.Upgrade`)                | here
  ----------------------------------------------------------+--------------------------------------
  `l.stack`, top = last element; `LexString`: `{"Root"}`    | `List String`, top = head; `["Root"]`
  `parent := l.stack[len-1]` (index panic on an empty stack)| `lexFrom _ [] _ = .error .emptyStack`
  `rules := l.def.rules[parent.name]` (missing ⇒ no rules)  | `rulesOf`
  first candidate whose `^(?:pattern)` matches (no          | `firstMatch`: first rule whose byte set
  `matchLongest`), the match being leftmost-greedy          | holds the next byte; a `+` class then
                                                            | takes every following byte of the set
  no rule matches ⇒ "invalid input text" error              | `.error .invalid`
  `ActionPush{S}` / `ActionPop{}` / nil                     | `applyAction`
  `rule.ignore` (lower-case rule name) ⇒ token dropped      | `elide` (no rule of this table has it)
  `Upgrade` lexes the WHOLE input before parsing starts, so | `lexFrom` returns all tokens or the
  a lexing error anywhere fails the parse                   | first error
  no `participle.Elide(…)` option is given to `Build`       | `Whitespace` tokens stay in the stream

  Patterns are not re-interpreted here: the translator reduces each one (with Go's `regexp`) to
  the byte set it accepts and whether it repeats; every pattern of the table is a single
  character class, optionally under `+` (the translator refuses anything else).
  Termination: every rule consumes at least one byte (recursion on the remaining length).
-/
import Flamego.Base.Bytes
import Flamego.Gen.ParserFacts
namespace Flamego
open Gen

/-- a lexer token: the name of the rule that produced it (participle's token type) and its text -/
structure Token where
  name : String
  val : Bytes
  deriving DecidableEq, Repr, Inhabited

inductive LexErr
  /-- `lexer: invalid input text` -/
  | invalid
  /-- Go would panic: the state stack was popped empty and `Next` indexes `l.stack[len-1]` -/
  | emptyStack
  deriving DecidableEq, Repr, Inhabited

abbrev LexRules := List (String × List LexRule)

/-- `l.def.rules[name]` (a Go map: missing key ⇒ nil slice) -/
def rulesOf (rules : LexRules) (st : String) : List LexRule := (rules.lookup st).getD []

/-- the first rule, in rule order, that matches at a position whose next byte is `c` -/
def firstMatch : List LexRule → UInt8 → Option LexRule
  | [], _ => none
  | r :: rs, c => if c ∈ r.bytes then some r else firstMatch rs c

/-- what the rule consumes after its first byte: for a `+` class every following byte of the set -/
def munchTake (r : LexRule) (cs : Bytes) : Bytes :=
  if r.plus then cs.takeWhile (fun b => decide (b ∈ r.bytes)) else []

def munchDrop (r : LexRule) (cs : Bytes) : Bytes :=
  if r.plus then cs.dropWhile (fun b => decide (b ∈ r.bytes)) else cs

theorem munchDrop_length (r : LexRule) (cs : Bytes) : (munchDrop r cs).length ≤ cs.length := by
  unfold munchDrop
  split
  · exact (List.dropWhile_sublist _).length_le
  · exact Nat.le_refl _

/-- `ActionPush.applyAction` / `ActionPop.applyAction` (`lexer.stack[:len-1]`) -/
def applyAction : LexAction → List String → List String
  | .none, st => st
  | .push s, st => s :: st
  | .pop, st => st.tail

/-- put a token in front of the tokens that follow (an error stays the error) -/
def consTok (t : Token) : Except LexErr (List Token) → Except LexErr (List Token)
  | .ok ts => .ok (t :: ts)
  | .error e => .error e

/-- all tokens of the input from a given state stack, or the first error -/
def lexFrom (rules : LexRules) : List String → Bytes → Except LexErr (List Token)
  | [], _ => .error .emptyStack
  | _ :: _, [] => .ok []
  | top :: stk, c :: cs =>
    match firstMatch (rulesOf rules top) c with
    | none => .error .invalid
    | some r =>
      let rest := lexFrom rules (applyAction r.action (top :: stk)) (munchDrop r cs)
      if r.elide then rest else consTok ⟨r.name, c :: munchTake r cs⟩ rest
termination_by _ bs => bs.length
decreasing_by
  have := munchDrop_length r cs
  simp only [List.length_cons]
  omega

/-- `StatefulDefinition.LexString` + `lexer.Upgrade`: the token list of a route string -/
def lex (s : Bytes) : Except LexErr (List Token) := lexFrom Gen.lexRules ["Root"] s

end Flamego
