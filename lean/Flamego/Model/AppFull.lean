/-
  Model/AppFull.lean — ONE model of `context.run` in which the pieces proved separately are composed
  the way flamego composes them: the handler chain (Model/Chain), the injector's scope chain
  (Model/Inject), the return-value table (Model/Return), Static (Model/Static), Renderer / Render
  (Model/Render), the response writer (Model/Writer) and the application shell of Model/App
  (Before hooks, router, createContext).

  Go                                                          | here
  ------------------------------------------------------------+------------------------------------------
  a handler `func(a T1, b T2, …) R`                           | `Handler.fn sig acts ret`
  `c.Invoke(h)`: every parameter looked up with `Value(t)`    | `Inject.resolveArgs env.U [st.req, st.app] …`
     through the request injector, then its parent (the Flame)|   (first unresolved type ⇒ run() panics,
                                                              |    the body is not entered)
  `c.Map(v)` / `c.MapTo(v, (*T)(nil))` inside a handler       | `Act.map t v`   (request scope, really changes it)
  `f.Map(v)` on the Flame captured by a handler               | `Act.mapApp t v` (application scope: survives
                                                              |    the request)
  `c.Map(flamego.ReturnHandler(h))`                           | `Act.mapReturnHandler h`
  `if len(vals) > 0 { c.Value(ReturnHandler).(…)(c, vals) }`  | `Ret.afterHandler ph st.reqRH c.appRH ret`: the
                                                              |    handler visible NOW (request, app, built-in
                                                              |    table `Ret.handleReturn`), run on the writer
                                                              |    by `Ret.Out.act`
  header / status / body calls on `c.ResponseWriter()`        | `Act.ops l` over `Render.ROp`, executed by
                                                              |    `Render.Resp.apply` (Model/Writer underneath)
  `flamego.Recovery()`                                        | `Handler.recovery`
  `flamego.Static(opts)`                                      | `Handler.static o`: `Static.staticDecide`, its
                                                              |    outcome turned into writes by `staticOps`
  `flamego.Renderer(opts)` = `c.MapTo(&render{…}, Render)`    | `Handler.renderer vid`: binds `env.renderTy ↦ vid`
                                                              |    in the REQUEST scope; `env.ropts vid` are its
                                                              |    (parsed) options
  a handler with a `flamego.Render` parameter calling         | `Act.render status payload`: the handler's
     `r.JSON / XML / Binary / PlainText(status, v)`           |    signature gets `env.renderTy` appended, the
                                                              |    resolved value selects the options,
                                                              |    `Render.renderOps` are the writes
  newContext: Context, http.ResponseWriter, *http.Request     | `env.services rid` (the fresh request scope)

  Ghost fields of the state (no effect on behaviour): `calls` (slot, argument ids of every entered
  `fn` handler — what the correspondence check compares), `dec` / `rep` (the erasure of every started
  slot to a handler of the chain machine of Model/Chain, and whether every rendered return was
  expressible there; used by `full_refines_chain`, Props/AppFull).

  Guards (recorded in lib/props.py): the parameters of Recovery, Static and Renderer themselves
  (Context, *log.Logger) are always resolvable — `NewWithLogger` maps the logger, `newContext` the
  Context, and nothing can be unmapped; no panicking Before-hooks of the writer (finding F15 is C15's).
-/
import Flamego.Model.App
import Flamego.Model.Inject
import Flamego.Model.Return
import Flamego.Model.Static
import Flamego.Model.Render

namespace Flamego.AppFull
open Flamego.Chain (PVal Ev Tok)
open Flamego.Writer (W UEv)
open Flamego.Render (ROp Hdr)
open Flamego.Inject (Ty Val Scope)

/-- everything that is a parameter of the composed model -/
structure Env where
  /-- what `reflect` says about the universe of types (C04) -/
  U            : Inject.Universe
  /-- the type `flamego.Render` -/
  renderTy     : Ty
  /-- newContext: the services mapped into the fresh scope of request number `rid` -/
  services     : Nat → Scope
  /-- reflect's placeholder text for a non-string kind (C14) -/
  ph           : Bytes := []
  /-- encoding/json, encoding/xml (C17) -/
  enc          : Render.Encoder Nat
  /-- the options (as `Renderer` parsed them) of the renderer whose service value is `vid` -/
  ropts        : Val → Render.Opts := fun _ => {}
  /-- the file system under Static's directory (C16), file contents by id, ETags by id -/
  fs           : Bytes → Static.FsResult := fun _ => .missing
  content      : Nat → Bytes := fun _ => []
  etag         : Nat → Bytes := fun _ => []
  /-- the HTML body `http.Redirect` writes for a GET, from the Location -/
  redirectBody : Bytes → Bytes := fun _ => []
  /-- `Env() == EnvTypeDev`, and the development page Recovery renders then -/
  dev          : Bool := false
  detail       : Bytes := []

inductive Act
  | ops (l : List ROp)                                  -- Header().Set/Del, WriteHeader, Write — in order
  | render (status : Nat) (p : Render.Payload Nat)      -- r.JSON / r.XML / r.Binary / r.PlainText
  | next                                                -- c.Next()
  | cancel                                              -- cancel the request's context
  | panic (v : PVal)                                    -- panic(v)
  | map (t : Ty) (v : Val)                              -- c.Map / c.MapTo: request scope
  | mapApp (t : Ty) (v : Val)                           -- f.Map on the Flame: application scope
  | mapReturnHandler (h : Ret.Handler)                  -- c.Map(flamego.ReturnHandler(h))

/-- `c.ResponseWriter().WriteHeader(code)` / `.Write(b)` -/
abbrev Act.write (code : Nat) : Act := .ops [.writeHeader code]
abbrev Act.body (b : Bytes) : Act := .ops [.write b]

inductive Handler
  | fn (sig : List Ty) (acts : List Act) (ret : Ret.RetShape)
  | recovery
  | static (o : Static.Opts)
  | renderer (vid : Val)

/-- one request's chain as `createContext` assembles it, with what the handlers can read of the request -/
structure Cfg where
  chain  : List Handler := []          -- f.handlers ++ the route's (or not-found) handlers
  nmw    : Nat := 0                    -- how many of them are application middleware (layout only)
  action : Option Handler := none
  method : String := "GET"
  path   : Bytes := []
  inm    : Bytes := []                 -- the If-None-Match header ("" = absent)
  rid    : Nat := 0                    -- request number on this instance
  scope0 : Scope := []                 -- the Flame's injector when the request arrives
  appRH  : Option Ret.Handler := none  -- a ReturnHandler mapped on the Flame (none = the built-in table)

def Cfg.n (c : Cfg) : Nat := c.chain.length
def Cfg.head (c : Cfg) : Bool := c.method == "HEAD"

/-- `if c.index == len(c.handlers) { h = c.action } else { h = c.handlers[c.index] }` -/
def Cfg.slot (c : Cfg) (i : Nat) : Option Handler :=
  if i = c.n then c.action else c.chain[i]?

structure St where
  idx       : Nat := 0
  w         : W
  cancelled : Bool := false
  trace     : List Ev := []
  out       : List Tok := []
  /-- the wrapped writer: live header map, the snapshot sent with the status line, body bytes received -/
  hdr       : Hdr := []
  sent      : Option Hdr := none
  body      : Bytes := []
  /-- the request's injector, the Flame's injector, the ReturnHandler mapped in the request scope -/
  req       : Scope := []
  app       : Scope := []
  reqRH     : Option Ret.Handler := none
  -- ghost
  calls     : List (Nat × List Val) := []
  dec       : List (Nat × Chain.Kind) := []
  rep       : Bool := true

abbrev Res := St × Option (PVal × Nat)

def St.ev (st : St) (e : Ev) : St := { st with trace := st.trace ++ [e] }

/-- ghost: slot `i` ran as the chain-machine handler `k` -/
def St.record (st : St) (i : Nat) (k : Chain.Kind) : St := { st with dec := st.dec ++ [(i, k)] }

/-- ghost: handler `i` was entered with these arguments -/
def St.call (st : St) (i : Nat) (args : List Val) : St := { st with calls := st.calls ++ [(i, args)] }

/-- ghost: the chain machine can express what happened iff `b` -/
def St.flag (st : St) (b : Bool) : St := { st with rep := st.rep && b }

/-- `c.Map(v)` / `c.MapTo(v, (*T)(nil))`: the request's injector -/
def St.mapReq (st : St) (t : Ty) (v : Val) : St := { st with req := Inject.register st.req t v }

/-- `f.Map(v)`: the Flame's injector -/
def St.mapApp (st : St) (t : Ty) (v : Val) : St := { st with app := Inject.register st.app t v }

/-! ### writing: every write goes through Model/Render's response (Model/Writer underneath) -/

def St.resp (st : St) : Render.Resp := { w := st.w, hdr := st.hdr, sent := st.sent, body := st.body }

/-- one operation on the response writer; a forwarded `Write` is also a body token of the chain machine -/
def St.op (st : St) (op : ROp) : St :=
  let r := st.resp.apply op
  { st with w := r.w, hdr := r.hdr, sent := r.sent, body := r.body,
            out := match op with
              | .write b => if st.w.head then st.out else st.out ++ [Tok.xs b.length]
              | _ => st.out }

def St.ops (st : St) (l : List ROp) : St := l.foldl St.op st

/-! ### return values: the handler found in the scope chain, executed by Model/Return -/

/-- one act of the ReturnHandler: `Ret.Out.act` decides what happens to writer and body (and whether
    it panics); the header snapshot follows the status line as in Model/Render (`snap`) -/
def St.retAct (st : St) (a : Ret.Act) : St × Bool :=
  let o := Ret.Out.act { w := st.w, body := st.body } a
  ({ st with w := o.w, body := o.body, sent := Render.snap st.resp o.w,
             out := match a with
               | .write b => if st.w.head then st.out else st.out ++ [Tok.xs b.length]
               | _ => st.out },
   o.panicked)

/-- what a panic inside the ReturnHandler is: `err.Error()` on a nil receiver is a runtime error,
    net/http's "invalid WriteHeader code" is a string -/
def retPanic : Ret.Act → PVal
  | .panic => .rt
  | _ => .str

/-- the acts of the ReturnHandler in order; a panic abandons the rest and unwinds `run()` -/
def runRet (i : Nat) : List Ret.Act → St → Res
  | [], st => (st, none)
  | a :: rest, st =>
    match st.retAct a with
    | (st', true) => (st', some (retPanic a, i))
    | (st', false) => runRet i rest st'

/-- ghost: the return effect as the chain machine can express it (`none` = it cannot) -/
def eraseRet : List Ret.Act → Option Chain.Ret
  | [] => some .nothing
  | [.write b] => if b = [] then none else some (.body b.length)
  | [.writeHeader c] => if Ret.validCode c then some (.writes c.toNat 0) else none
  | [.writeHeader c, .write b] =>
    if Ret.validCode c ∧ b ≠ [] then some (.writes c.toNat b.length) else none
  | _ => none

/-! ### Recovery, Static -/

def ctKey : Bytes := Render.ctKey

/-- recovery.go: Content-Type by environment, `w.WriteHeader(500); w.Write(body)` -/
def recoverWrite (env : Env) (st : St) : St :=
  let bodyB := if env.dev then env.detail else Gen.recoveryPlainBody
  let st1 := (st.op (.setHeader ctKey (if env.dev then b!"text/html" else b!"text/plain"))).op
    (.writeHeader Chain.recoveryStatus)
  let st2 := st1.op (.write bodyB)
  { st2 with out := if st.w.head then st.out else st.out ++ [if env.dev then Tok.detail else Tok.plain] }

/-- the method as static.go tests it: GET and HEAD are themselves, any other token is "not one of them" -/
def staticMethod (m : String) : Bytes :=
  if m = "GET" ∨ m = "HEAD" then Static.asc m else [0]

/-- What each outcome of the Static handler does to the response.  `hadCT`: a Content-Type header is
    already set (`http.Redirect` then writes neither its own nor a body).
    redirect: `http.Redirect(w, r, loc, 302)`; notModified: ETag header, `WriteHeader(304)`;
    serve: (ETag,) `http.ServeContent`: Content-Type (unless set), Last-Modified, Accept-Ranges,
    Content-Length, `WriteHeader(200)`, and — not for HEAD, not for an empty file — one `Write` of the
    content (values of the headers net/http computes are not modelled: `[]`). -/
def staticOps (env : Env) (o : Static.Opts) (method : String) (hadCT : Bool) : Static.Outcome → List ROp
  | .silent => []
  | .redirect loc =>
    [.setHeader b!"Location" loc] ++
    (if !hadCT && (method == "GET" || method == "HEAD") then [.setHeader ctKey b!"text/html; charset=utf-8"] else []) ++
    [.writeHeader Gen.staticRedirectStatus] ++
    (if !hadCT && method == "GET" then [.write (env.redirectBody loc)] else [])
  | .notModified _ id => [.setHeader Gen.staticETagHeader (env.etag id), .writeHeader Gen.staticNotModifiedStatus]
  | .serve _ id =>
    (if o.setETag then [.setHeader Gen.staticETagHeader (env.etag id)] else []) ++
    (if hadCT then [] else [.setHeader ctKey []]) ++
    [.setHeader b!"Last-Modified" [], .setHeader b!"Accept-Ranges" b!"bytes", .setHeader b!"Content-Length" [],
     .writeHeader 200] ++
    (if method == "HEAD" ∨ env.content id = [] then [] else [.write (env.content id)])

/-! ### one handler -/

def Act.usesRender : Act → Bool
  | .render _ _ => true
  | _ => false

/-- the parameter list `c.Invoke` resolves: the handler's own, plus `flamego.Render` when it renders -/
def fullSig (env : Env) (sig : List Ty) (acts : List Act) : List Ty :=
  sig ++ (if acts.any Act.usesRender then [env.renderTy] else [])

/-- one action of handler `i`; `runF` is what `c.Next()` does; `ro`: the options of the renderer the
    handler was handed -/
def act1 (env : Env) (runF : St → Res) (i : Nat) (ro : Render.Opts) (a : Act) (st : St) : Res :=
  match a with
  | .ops l => (st.ops l, none)
  | .render status p => (st.ops (Render.renderOps env.enc ro st.w.head status p), none)
  | .next => runF st
  | .cancel => ({ st with cancelled := true }, none)
  | .panic v => (st, some (v, i))
  | .map t v => (st.mapReq t v, none)
  | .mapApp t v => (st.mapApp t v, none)
  | .mapReturnHandler h => ({ st with reqRH := some h }, none)

def execActs (env : Env) (runF : St → Res) (i : Nat) (ro : Render.Opts) : List Act → St → Res
  | [], st => (st, none)
  | a :: rest, st =>
    match act1 env runF i ro a st with
    | (st', none) => execActs env runF i ro rest st'
    | (st', some p) => (st', some p)

/-- ghost: an operation / an action as the chain machine sees it (header changes are invisible to it) -/
def eraseOp : ROp → Option Chain.Act
  | .writeHeader c => some (.write c)
  | .write b => some (.body b.length)
  | _ => none

def eraseAct (env : Env) (head : Bool) (ro : Render.Opts) : Act → List Chain.Act
  | .ops l => l.filterMap eraseOp
  | .render status p => (Render.renderOps env.enc ro head status p).filterMap eraseOp
  | .next => [.next]
  | .cancel => [.cancel]
  | .panic v => [.panic v]
  | .map _ _ => [.map]
  | .mapApp _ _ => [.map]
  | .mapReturnHandler _ => [.map]

/-- `if len(vals) > 0 { handleReturn(c, vals) }` with the ReturnHandler visible NOW, after handler `i`
    (whose actions the chain machine sees as `erased`) has returned `ret` in state `st1` -/
def finishFn (env : Env) (c : Cfg) (i : Nat) (erased : List Chain.Act) (ret : Ret.RetShape) (st1 : St) : Res :=
  let racts := Ret.afterHandler env.ph st1.reqRH c.appRH ret
  runRet i racts
    (((st1.ev (.exit i)).record i (.plain { acts := erased, ret := (eraseRet racts).getD .none })).flag
      (eraseRet racts).isSome)

/-- the body of a `fn` handler whose parameters resolved to `args`, and the rendering of what it returns -/
def invokeFn (env : Env) (c : Cfg) (runF : St → Res) (i : Nat) (acts : List Act) (ret : Ret.RetShape)
    (args : List Val) (st : St) : Res :=
  let ro := env.ropts (args.getLast?.getD 0)
  let erased := acts.flatMap (eraseAct env c.head ro)
  match execActs env runF i ro acts ((st.ev (.enter i)).call i args) with
  | (st1, some (v, j)) => ((st1.ev (.abort i j)).record i (.plain { acts := erased }), some (v, j))
  | (st1, none) => finishFn env c i erased ret st1

/-- the Static handler: decide, then write what the outcome says -/
def staticRun (env : Env) (c : Cfg) (o : Static.Opts) (st : St) : List ROp :=
  staticOps env o c.method (Hdr.get st.hdr ctKey).isSome
    (Static.staticDecide o env.etag (staticMethod c.method) c.path c.inm env.fs).out

/-- `c.Invoke(h)` and the rendering of its return values, for the handler in slot `i` (the cursor has
    been advanced already) -/
def invoke (env : Env) (c : Cfg) (runF : St → Res) (i : Nat) : Handler → St → Res
  | .fn sig acts ret, st =>
    match Inject.resolveArgs env.U [st.req, st.app] (fullSig env sig acts) [] with
    | .error _ => ((st.ev (.inject i)).record i .unresolvable, some (.inject, i))     -- run() panics itself
    | .ok args => invokeFn env c runF i acts ret args st
  | .recovery, st =>                                   -- defer recover(); c.Next()
    match runF (st.ev (.enter i)) with
    | (st1, none) => ((st1.ev (.exit i)).record i .recovery, none)
    | (st1, some (_, j)) =>
      (((recoverWrite env (st1.ev (.recovered i j st1.w.status))).ev (.exit i)).record i .recovery, none)
  | .static o, st =>
    ((((st.ev (.enter i)).ops (staticRun env c o st)).ev (.exit i)).record i
      (.plain { acts := (staticRun env c o st).filterMap eraseOp }), none)
  | .renderer vid, st =>                               -- c.MapTo(&render{…}, (*Render)(nil))
    (((((st.ev (.enter i)).mapReq env.renderTy vid).ev (.exit i)).record i (.plain { acts := [.map] })), none)

/-! ### run() and Next() -/

/-- `(*context).run()`; `Next()` is the same function -/
def run (env : Env) (c : Cfg) : Nat → St → Res
  | 0, st => (st, none)
  | f + 1, st =>
    if c.n < st.idx then (st, none)
    else if st.cancelled then (st, none)
    else
      let i := st.idx
      let st := { st with idx := i + 1 }
      match c.slot i with
      | none => (st.ev (.nilact i), none)
      | some h =>
        match invoke env c (run env c f) i h st with
        | (st1, some p) => (st1, some p)
        | (st1, none) =>
          if st1.w.written then (st1, none)
          else run env c f st1

def Cfg.fuel (c : Cfg) : Nat := c.n + 2

/-- newContext: cursor 0, a fresh writer, a fresh injector holding the request's services, whose parent
    is the Flame's injector as it is now -/
def Cfg.st0 (env : Env) (c : Cfg) : St :=
  { w := Writer.init c.head, req := env.services c.rid, app := c.scope0 }

/-- `contextCreator(...).run()` inside ServeHTTP, observed from outside -/
def serveChain (env : Env) (c : Cfg) : St :=
  match run env c c.fuel (c.st0 env) with
  | (st, none) => st
  | (st, some (v, j)) => st.ev (.escaped v j)

/-! ### the application: Flame.ServeHTTP -/

/-- `http.NotFound` behind the flamego writer: `http.Error(w, "404 page not found", 404)` -/
def defaultNotFound : List Handler :=
  [.fn [] [.ops (Render.httpError b!"404 page not found" 404)] .none]

structure AppFull where
  befores    : List App.BeforeKind := []
  middleware : List Handler := []
  ops        : List RouterOp := []
  handlersOf : Nat → List Handler := fun _ => []
  action     : Option Handler := none
  notFound   : List Handler := defaultNotFound
  /-- the Flame's own injector (what `NewWithLogger` and `f.Map` put there) and a ReturnHandler mapped on it -/
  scope      : Scope := []
  appRH      : Option Ret.Handler := none

structure RunFull where
  which  : App.Which
  params : Params
  cfg    : Cfg
  st     : St

structure ResponseFull where
  befores : List Nat
  pre     : List UEv
  runs    : List RunFull
  /-- the Flame's injector after the request -/
  scope   : Scope

def AppFull.target (app : AppFull) : Outcome → App.Which × Params × List Handler
  | .handler l ps => (.route l.hid, ps, app.handlersOf l.hid)
  | .notFound => (.notFound, [], app.notFound)

/-- `r.Header.Get("If-None-Match")` -/
def inmOf (req : Request) : Bytes := (req.hdrs.lookup b!"If-None-Match").getD []

/-- createContext for request number `rid` -/
def AppFull.cfgFor (app : AppFull) (rid : Nat) (req : Request) (hs : List Handler) : Cfg :=
  { chain := app.middleware ++ hs, nmw := app.middleware.length, action := app.action,
    method := req.method, path := req.path, inm := inmOf req, rid := rid,
    scope0 := app.scope, appRH := app.appRH }

/-- `Flame.ServeHTTP` with the router's decision procedure as a parameter -/
def AppFull.serveWith (env : Env) (app : AppFull) (route : Request → Outcome) (rid : Nat) (req : Request) :
    ResponseFull :=
  match App.runBefores app.befores 0 with
  | (ran, some pre) => { befores := ran, pre := pre, runs := [], scope := app.scope }
  | (ran, none) =>
    let t := app.target (route req)
    let cfg := app.cfgFor rid req t.2.2
    let st := serveChain env cfg
    { befores := ran, pre := [], runs := [{ which := t.1, params := t.2.1, cfg := cfg, st := st }],
      scope := st.app }

/-- `Flame.ServeHTTP`: request number `rid` on this instance -/
def serveFull (env : Env) (E : Engine) (app : AppFull) (rid : Nat) (req : Request) : ResponseFull :=
  app.serveWith env ((Router.run E app.ops).serve E) rid req

/-- Several requests on one instance, numbered from `rid`: the Flame's injector persists (what a
    handler mapped there is seen by the next request), every request gets a fresh request scope. -/
def serveSeqFull (env : Env) (E : Engine) (app : AppFull) : Nat → List Request → List ResponseFull
  | _, [] => []
  | rid, req :: rest =>
    let r := serveFull env E app rid req
    r :: serveSeqFull env E { app with scope := r.scope } (rid + 1) rest

end Flamego.AppFull
