/-
  Model/Dsl.lean — the registration DSL of router.go: Route, Get…Trace, Any, Routes,
  Combo, Group, AutoHead over the router's mutable state (C11).

  Go (router.go)                              | here
  --------------------------------------------+---------------------------------------------
  router.groups  ([]group, a stack)           | `St.groups` (outermost first; push = append,
                                              |   pop = `dropLast`)
  router.autoHead                             | `St.autoHead`
  router.routeTrees / staticRoutes            | `St.regs` — the log of successful single-method
                                              |   insertions `route.AddRoute(trees[m], ast, h)`,
                                              |   in order; dispatch is a function of this list
                                              |   (properties C01/C02/C03)
  r.parser.Parse + route.AddRoute succeed?    | the parameter `acc : Acc` (the route-tree layer,
                                              |   property C08); every theorem is for ALL `acc`
  a handler (a Go func value)                 | an id (`Nat`)
  router.Route                                | `routeCall`
  router.addRoute                             | `addRoute` (upper-casing, "*", unknown ⇒ panic)
  router.Get / Post / …                       | `verbCall`  (Get: + HEAD while autoHead is on)
  router.Any                                  | `Stmt.any`   = `routeCall "*"`
  router.Routes                               | `routesCall` (split on ',', TrimSpace, leading
                                              |   string "handlers" are more methods)
  router.Combo(...).Get(..).Post(..)…         | `comboCalls` (the `added` set)
  router.Group(path, fn, handlers...)         | `Stmt.group` (push; body; DEFERRED pop — this is
                                              |   the repaired code, finding F13)
  a Go panic                                  | `some err` in the result; the state reached so far
                                              |   is kept (registrations are not undone)
  func() { defer recover(); body }()          | `Stmt.recover body`
  panic("x") in user code                     | `Stmt.panic`

  Repaired behaviour modelled (findings F9, F13, F16 of DESIGN.md §6): Combo copies its common
  handlers for every method (no aliasing through spare capacity), Group pops its entry in a
  deferred function, and Route always validates/wraps a fresh copy of the handler slice, so
  every registration holds exactly the handlers it was given, each wrapped once.

  Guards (recorded in lib/props.py): method strings are ASCII (Go's `strings.ToUpper` and
  `strings.TrimSpace` are Unicode-aware; `upper`/`trimSpace` below are their ASCII
  restrictions); every handler id stands for a callable func (a non-func handler panics in
  `validateAndWrapHandlers`; the only such case modelled is a string left among the
  handlers of `Routes`).
-/
import Flamego.Base.Bytes
import Flamego.Gen.RouteFacts
import Flamego.Gen.ConstFacts
namespace Flamego.Dsl

/-- one single-method registration: `route.AddRoute(routeTrees[method], parse(path), chain(handlers))` -/
structure Reg where
  method   : Bytes
  path     : Bytes
  handlers : List Nat
  deriving DecidableEq, Repr, Inhabited

/-- what a panic carried (a small enum; message texts are never compared) -/
inductive Err
  | unknownMethod   -- addRoute: "unknown HTTP method: …"
  | rejected        -- addRoute: "unable to parse route …" / "unable to add route …"
  | emptyMethods    -- Routes: "empty methods"
  | badHandler      -- validateAndWrapHandlers: "handler must be a callable function"
  | comboDup        -- ComboRoute.route: "duplicated method … for route …"
  | user            -- a panic raised by the caller's own code inside a group body
  deriving DecidableEq, Repr, Inhabited

/-- does the route-tree layer accept this registration after those already made?
    (`r.parser.Parse(path)` and `route.AddRoute` both succeed) -/
abbrev Acc := List Reg → Reg → Bool

inductive Verb
  | get | post | put | delete | patch | options | head | connect | trace
  deriving DecidableEq, Repr, Inhabited

/-- an argument in the variadic tail of `Routes(path, methods, …)` -/
inductive RArg
  | str (s : Bytes)     -- a Go string (meant as one more method)
  | fn (h : Nat)        -- a handler func
  deriving DecidableEq, Repr, Inhabited

inductive Stmt
  | route (method path : Bytes) (hs : List Nat)                      -- f.Route(method, path, hs)
  | verb (v : Verb) (path : Bytes) (hs : List Nat)                   -- f.Get(path, hs...) … f.Trace(path, hs...)
  | any (path : Bytes) (hs : List Nat)                               -- f.Any(path, hs...)
  | routes (path methods : Bytes) (args : List RArg)                 -- f.Routes(path, methods, args...)
  | combo (path : Bytes) (common : List Nat) (calls : List (Verb × List Nat))
                                                                     -- f.Combo(path, common...).V1(hs1...).V2(hs2...)…
  | group (path : Bytes) (hs : List Nat) (body : List Stmt)          -- f.Group(path, func(){ body }, hs...)
  | autoHead (b : Bool)                                              -- f.AutoHead(b)
  | panic                                                            -- panic("…") in the caller's code
  | recover (body : List Stmt)                                       -- func(){ defer func(){ recover() }(); body }()
  deriving Repr, Inhabited

abbrev Prog := List Stmt

/-- a group whose body panics after `body` and is recovered by the caller -/
def Stmt.panicInGroup (path : Bytes) (hs : List Nat) (body : List Stmt) : Stmt :=
  .recover [.group path hs (body ++ [.panic])]

/-! ### strings -/

/-- bytes of an ASCII literal (unlike `Bytes.ofString` this reduces in the kernel, so concrete
    programs can be evaluated by `decide`); only ever applied to ASCII text -/
def B (s : String) : Bytes := s.toList.map fun c => c.toNat.toUInt8

/-- `var httpMethods` of router.go (regenerated from the source on every run) -/
def httpMethods : List Bytes := Gen.httpMethods.map B

/-- "*": the method text `addRoute` expands to all of `httpMethods` (`if method == "*"`), and the
    one `Any` passes to `Route` — two literals of router.go, read on every run (Gen/ConstFacts) -/
def anyMethod : Bytes := Gen.routerAnyMethod
def anyArg : Bytes := Gen.routerAnyArg
attribute [simp] anyMethod anyArg Gen.routerAnyMethod Gen.routerAnyArg

def upperByte (c : UInt8) : UInt8 := if 97 ≤ c ∧ c ≤ 122 then c - 32 else c

/-- `strings.ToUpper` on ASCII -/
def upper (s : Bytes) : Bytes := s.map upperByte

/-- ASCII white space as `strings.TrimSpace` sees it: `\t \n \v \f \r` and blank -/
def isSpace (c : UInt8) : Bool := c = 32 ∨ (9 ≤ c ∧ c ≤ 13)

/-- `strings.TrimSpace` on ASCII -/
def trimSpace (s : Bytes) : Bytes :=
  ((s.dropWhile isSpace).reverse.dropWhile isSpace).reverse

/-- `strings.Split(s, ",")` — always at least one element -/
def splitComma : Bytes → List Bytes
  | [] => [[]]
  | c :: cs =>
    if c = 44 then [] :: splitComma cs
    else match splitComma cs with
      | [] => [[c]]          -- unreachable
      | s :: ss => (c :: s) :: ss

def Verb.method : Verb → Bytes
  | .get => B "GET" | .post => B "POST" | .put => B "PUT" | .delete => B "DELETE"
  | .patch => B "PATCH" | .options => B "OPTIONS" | .head => B "HEAD"
  | .connect => B "CONNECT" | .trace => B "TRACE"

/-- the method list `addRoute` loops over: `"*"` = all nine, a known method = itself,
    anything else (also the empty string) = none, which makes `addRoute` panic -/
def methodsOf (method : Bytes) : List Bytes :=
  let m := upper method
  if m = anyMethod then httpMethods
  else if m ∈ httpMethods then [m]
  else []

/-! ### the router state and the statements that change it -/

/-- `type group struct { path string; handlers []Handler }` -/
structure Group where
  path     : Bytes
  handlers : List Nat
  deriving DecidableEq, Repr, Inhabited

structure St where
  groups   : List Group := []
  autoHead : Bool := false
  regs     : List Reg := []
  /-- values obtained by the caller's `recover()`s, oldest first -/
  caught   : List Err := []
  deriving DecidableEq, Repr, Inhabited

/-- state after a call, and the panic it ended with (if any) -/
abbrev Out := St × Option Err

/-- the loop `for _, m := range methods { route.AddRoute(r.routeTrees[m], ast, handler) … }` -/
def addEach (acc : Acc) (path : Bytes) (hs : List Nat) : List Bytes → St → Out
  | [], st => (st, none)
  | m :: ms, st =>
    let r : Reg := ⟨m, path, hs⟩
    if acc st.regs r then addEach acc path hs ms { st with regs := st.regs ++ [r] }
    else (st, some .rejected)

/-- `router.addRoute` -/
def addRoute (acc : Acc) (method path : Bytes) (hs : List Nat) (st : St) : Out :=
  match methodsOf method with
  | [] => (st, some .unknownMethod)
  | ms => addEach acc path hs ms st

/-- `groupPath += g.path; hs = append(hs, g.handlers...)` over the whole stack -/
def groupPrefix (gs : List Group) : Bytes × List Nat :=
  gs.foldl (fun (p, h) g => (p ++ g.path, h ++ g.handlers)) ([], [])

/-- `router.Route` -/
def routeCall (acc : Acc) (method path : Bytes) (hs : List Nat) (st : St) : Out :=
  let (gp, gh) := groupPrefix st.groups
  addRoute acc method (gp ++ path) (gh ++ hs) st

/-- `router.Get` … `router.Trace`: only `Get` looks at `autoHead` -/
def verbCall (acc : Acc) (v : Verb) (path : Bytes) (hs : List Nat) (st : St) : Out :=
  match routeCall acc v.method path hs st with
  | (st1, some e) => (st1, some e)
  | (st1, none) =>
    if v = .get ∧ st1.autoHead = true then routeCall acc (B "HEAD") path hs st1
    else (st1, none)

/-- `for _, m := range ms { route = r.Route(m, routePath, handlers) }` -/
def routeEach (acc : Acc) (path : Bytes) (hs : List Nat) : List Bytes → St → Out
  | [], st => (st, none)
  | m :: ms, st =>
    match routeCall acc m path hs st with
    | (st1, some e) => (st1, some e)
    | (st1, none) => routeEach acc path hs ms st1

def RArg.isStr : RArg → Bool | .str _ => true | .fn _ => false
def RArg.strs : List RArg → List Bytes
  | [] => [] | .str s :: r => s :: RArg.strs r | .fn _ :: r => RArg.strs r
def RArg.fns : List RArg → List Nat
  | [] => [] | .fn h :: r => h :: RArg.fns r | .str _ :: r => RArg.fns r

/-- `router.Routes`: the leading strings of `args` are more methods; `handlers` is re-sliced
    only when a non-string is met, so if every argument is a string they all stay handlers
    (and `validateAndWrapHandlers` panics at the first `Route` call, before `addRoute`). -/
def routesCall (acc : Acc) (path methods : Bytes) (args : List RArg) (st : St) : Out :=
  if methods = [] then (st, some .emptyMethods)
  else
    let lead := args.takeWhile RArg.isStr
    let rest := args.dropWhile RArg.isStr
    let ms := (splitComma methods).map trimSpace ++ RArg.strs lead
    let handlers := if rest = [] then args else rest
    if handlers.any RArg.isStr then (st, some .badHandler)
    else routeEach acc path (RArg.fns handlers) ms st

/-- `ComboRoute.route` for each chained call; `added` is the set of methods already used -/
def comboCalls (acc : Acc) (path : Bytes) (common : List Nat) :
    List (Verb × List Nat) → List Verb → St → Out
  | [], _, st => (st, none)
  | (v, hs) :: rest, added, st =>
    if v ∈ added then (st, some .comboDup)
    else match verbCall acc v path (common ++ hs) st with
      | (st1, some e) => (st1, some e)
      | (st1, none) => comboCalls acc path common rest (v :: added) st1

mutual
/-- run one statement on the router -/
def exec (acc : Acc) : Stmt → St → Out
  | .route m p hs, st => routeCall acc m p hs st
  | .verb v p hs, st => verbCall acc v p hs st
  | .any p hs, st => routeCall acc anyArg p hs st
  | .routes p ms args, st => routesCall acc p ms args st
  | .combo p common calls, st => comboCalls acc p common calls [] st
  | .group p hs body, st =>
    -- r.groups = append(r.groups, group{…}); defer pop; fn()
    match execList acc body { st with groups := st.groups ++ [⟨p, hs⟩] } with
    | (st1, e) => ({ st1 with groups := st1.groups.dropLast }, e)
  | .autoHead b, st => ({ st with autoHead := b }, none)
  | .panic, st => (st, some .user)
  | .recover body, st =>
    match execList acc body st with
    | (st1, none) => (st1, none)
    | (st1, some e) => ({ st1 with caught := st1.caught ++ [e] }, none)
/-- run statements in order; a panic skips the rest -/
def execList (acc : Acc) : List Stmt → St → Out
  | [], st => (st, none)
  | s :: ss, st =>
    match exec acc s st with
    | (st1, some e) => (st1, some e)
    | (st1, none) => execList acc ss st1
end

/-- what a whole program leaves behind -/
structure Result where
  regs     : List Reg
  autoHead : Bool
  caught   : List Err
  err      : Option Err
  deriving DecidableEq, Repr, Inhabited

/-- run a program on a fresh router -/
def interp (acc : Acc) (p : Prog) : Result :=
  match execList acc p {} with
  | (st, e) => ⟨st.regs, st.autoHead, st.caught, e⟩

/-- the `Except` view: the registrations of a program that ran to its end, or the panic -/
def interpE (acc : Acc) (p : Prog) : Except Err (List Reg) :=
  match (interp acc p).err with
  | none => .ok (interp acc p).regs
  | some e => .error e

/-! ### the flat expansion

The same program read as a flat sequence of single registrations `Route(method, full path,
full handler list)` on a router WITHOUT groups: the group prefix and the group handlers are an
environment handed down the syntax tree; nothing is pushed or popped.  Only the flag
`autoHead`, the registrations made so far (the tree layer's answer may depend on them) and the
recovered panics are threaded from one statement to the next.  -/

/-- lexical environment: concatenated paths / handlers of the enclosing groups, outermost first -/
structure Env where
  pfx  : Bytes := []
  hpfx : List Nat := []
  deriving DecidableEq, Repr, Inhabited

structure FSt where
  autoHead : Bool := false
  regs     : List Reg := []
  caught   : List Err := []
  deriving DecidableEq, Repr, Inhabited

abbrev FOut := FSt × Option Err

/-- register `(m, path, hs)` for each single method `m`, stopping at the first refusal -/
def regEach (acc : Acc) (path : Bytes) (hs : List Nat) : List Bytes → FSt → FOut
  | [], s => (s, none)
  | m :: ms, s =>
    if acc s.regs ⟨m, path, hs⟩ then regEach acc path hs ms { s with regs := s.regs ++ [⟨m, path, hs⟩] }
    else (s, some .rejected)

/-- one `Route(method, env.pfx ++ path, env.hpfx ++ hs)` -/
def flatRoute (acc : Acc) (env : Env) (method path : Bytes) (hs : List Nat) (s : FSt) : FOut :=
  if methodsOf method = [] then (s, some .unknownMethod)
  else regEach acc (env.pfx ++ path) (env.hpfx ++ hs) (methodsOf method) s

/-- run `f` for each element, stopping at the first panic -/
def seqEach {α : Type} (f : α → FSt → FOut) : List α → FSt → FOut
  | [], s => (s, none)
  | a :: as, s =>
    match f a s with
    | (s1, some e) => (s1, some e)
    | (s1, none) => seqEach f as s1

def flatVerb (acc : Acc) (env : Env) (v : Verb) (path : Bytes) (hs : List Nat) (s : FSt) : FOut :=
  if v = .get ∧ s.autoHead = true then
    seqEach (fun m => flatRoute acc env m path hs) [B "GET", B "HEAD"] s
  else flatRoute acc env v.method path hs s

def flatRoutes (acc : Acc) (env : Env) (path methods : Bytes) (args : List RArg) (s : FSt) : FOut :=
  if methods = [] then (s, some .emptyMethods)
  else
    let lead := args.takeWhile RArg.isStr
    let rest := args.dropWhile RArg.isStr
    if rest = [] ∧ lead ≠ [] then (s, some .badHandler)      -- nothing but strings
    else if rest.any RArg.isStr then (s, some .badHandler)    -- a string after a func
    else seqEach (fun m => flatRoute acc env m path (RArg.fns rest))
           ((splitComma methods).map trimSpace ++ RArg.strs lead) s

/-- the chained calls of a Combo: the part before the first repeated verb, and whether one repeats -/
def comboPrefix : List (Verb × List Nat) → List Verb → List (Verb × List Nat) × Bool
  | [], _ => ([], false)
  | (v, hs) :: rest, seen =>
    if v ∈ seen then ([], true)
    else match comboPrefix rest (v :: seen) with
      | (pre, dup) => ((v, hs) :: pre, dup)

def flatCombo (acc : Acc) (env : Env) (path : Bytes) (common : List Nat)
    (calls : List (Verb × List Nat)) (s : FSt) : FOut :=
  match comboPrefix calls [] with
  | (pre, dup) =>
    match seqEach (fun c => flatVerb acc env c.1 path (common ++ c.2)) pre s with
    | (s1, some e) => (s1, some e)
    | (s1, none) => (s1, if dup then some .comboDup else none)

mutual
def flatStmt (acc : Acc) (env : Env) : Stmt → FSt → FOut
  | .route m p hs, s => flatRoute acc env m p hs s
  | .verb v p hs, s => flatVerb acc env v p hs s
  | .any p hs, s => flatRoute acc env anyArg p hs s
  | .routes p ms args, s => flatRoutes acc env p ms args s
  | .combo p common calls, s => flatCombo acc env p common calls s
  | .group p hs body, s => flatList acc ⟨env.pfx ++ p, env.hpfx ++ hs⟩ body s
  | .autoHead b, s => ({ s with autoHead := b }, none)
  | .panic, s => (s, some .user)
  | .recover body, s =>
    match flatList acc env body s with
    | (s1, none) => (s1, none)
    | (s1, some e) => ({ s1 with caught := s1.caught ++ [e] }, none)
def flatList (acc : Acc) (env : Env) : List Stmt → FSt → FOut
  | [], s => (s, none)
  | st :: ss, s =>
    match flatStmt acc env st s with
    | (s1, some e) => (s1, some e)
    | (s1, none) => flatList acc env ss s1
end

/-- the flat expansion of a whole program -/
def flat (acc : Acc) (p : Prog) : Result :=
  match flatList acc {} p {} with
  | (s, e) => ⟨s.regs, s.autoHead, s.caught, e⟩

/-! ### what a registered chain runs (used by the driver; finding F16)

With a `HandlerWrapper` installed, a handler that is not one of the built-in fast-invoker
shapes is replaced by `wrapper(h)` ONCE per registration (the repaired `Route` wraps a fresh
copy of the slice).  The harness's wrapper records the marker `0` and then runs `h`. -/
def runTrace (wrapped : Nat → Bool) (hs : List Nat) : List Nat :=
  hs.flatMap fun h => if wrapped h then [0, h] else [h]

/-! ### vocabulary for stating the handler/path order (Props/C11) -/

/-- a statement wrapped in groups `gs`, outermost first -/
def nest : List Group → Stmt → Stmt
  | [], s => s
  | g :: gs, s => .group g.path g.handlers [nest gs s]

/-- the single-call statements, with the group prefix written into them -/
def Stmt.inEnv (env : Env) : Stmt → Stmt
  | .route m p hs => .route m (env.pfx ++ p) (env.hpfx ++ hs)
  | .verb v p hs => .verb v (env.pfx ++ p) (env.hpfx ++ hs)
  | .any p hs => .any (env.pfx ++ p) (env.hpfx ++ hs)
  | .combo p common calls => .combo (env.pfx ++ p) (env.hpfx ++ common) calls
  | s => s

def Stmt.isCall : Stmt → Bool
  | .route .. | .verb .. | .any .. | .combo .. => true
  | _ => false

end Flamego.Dsl
