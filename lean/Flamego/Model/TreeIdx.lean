/-
  Model/TreeIdx.lean — the matcher of internal/route/tree.go + leaf.go at the level the Go code is
  written: a request path `path` (a Go string = byte string) and an integer cursor `next`, with
  slice expressions `path[next:]`, `path[next:next+i]`, `path[next-1:]`, `strings.Index` and
  `strings.Count`.  A slice expression whose bounds are out of range is a run-time panic in Go;
  here it is the value `.error .sliceBounds` of the `Except Panic` monad, and every line that
  slices can produce it.  `Model/Tree.lean` is the segment-level reading of the same algorithm
  (which cannot express an index error); `Proofs/TreeIdx.lean` proves that the two agree and that
  the error is never produced (property C07: "without the framework panicking").

  Go                                              | here
  ------------------------------------------------+-------------------------------------------
  s[a:b]   (panics unless 0 ≤ a ≤ b ≤ len(s))     | `slice s a b`
  s[a:]    (panics unless 0 ≤ a ≤ len(s))         | `sliceFrom s a`
  s[n-1:]  with n an `int` (n = 0 gives s[-1:])   | `sliceFromPred s n`
  strings.Index(s, "/")  (-1 = absent)            | `indexSlash s`  (`none` = -1)
  strings.Count(s, "/")                           | `countSlash s`
  baseTree.matchNextSegment                       | `matchNextIdx`
  baseTree.matchSubtree                           | `matchSubsIdx` (+ `matchAllLeafIdx`: its tail)
  matchAllTree.matchAll                           | `matchAllLoopIdx`
  matchAllLeaf.matchAll                           | `matchAllLeafIdx`
  baseTree.matchLeaf                              | `matchLeavesIdx`
  baseTree.Match                                  | `Node.matchIdx`

  What a single tree / leaf does with one *segment string* (`st.match(segment, params)`,
  `l.match(segment, params, header)`) contains no path indexing; it is shared with the segment
  model (`treeMatch`, `leafMatch`).
-/
import Flamego.Model.Router
namespace Flamego

/-- the run-time panics of the Go matcher that the index level can express -/
inductive Panic
  | sliceBounds          -- "slice bounds out of range"
  deriving Repr, DecidableEq, Inhabited

/-- `p[a:b]`: panics unless `a ≤ b ≤ len(p)` -/
def slice (p : Bytes) (a b : Nat) : Except Panic Bytes :=
  if a ≤ b ∧ b ≤ p.length then .ok ((p.take b).drop a) else .error .sliceBounds

/-- `p[a:]`: panics unless `a ≤ len(p)` -/
def sliceFrom (p : Bytes) (a : Nat) : Except Panic Bytes :=
  if a ≤ p.length then .ok (p.drop a) else .error .sliceBounds

/-- `p[n-1:]` for a Go `int` `n ≥ 0`: `n = 0` is `p[-1:]`, a panic -/
def sliceFromPred (p : Bytes) (n : Nat) : Except Panic Bytes :=
  match n with
  | 0 => .error .sliceBounds
  | m + 1 => sliceFrom p m

/-- `strings.Index(s, "/")`; `none` is Go's `-1` -/
def indexSlash : Bytes → Option Nat
  | [] => none
  | c :: cs => if c = slash then some 0 else (indexSlash cs).map (· + 1)

/-- `strings.Count(s, "/")` -/
def countSlash : Bytes → Nat
  | [] => 0
  | c :: cs => (if c = slash then 1 else 0) + countSlash cs

theorem indexSlash_lt {s : Bytes} {i : Nat} (h : indexSlash s = some i) : i < s.length := by
  induction s generalizing i with
  | nil => simp [indexSlash] at h
  | cons c cs ih =>
    unfold indexSlash at h
    split at h
    · cases h; simp
    · cases hc : indexSlash cs with
      | none => simp [hc] at h
      | some j =>
        simp [hc] at h
        have := ih hc
        simp
        omega

theorem sliceFrom_ok {p : Bytes} {a : Nat} {s : Bytes} (h : sliceFrom p a = .ok s) :
    a ≤ p.length ∧ s = p.drop a := by
  unfold sliceFrom at h
  split at h
  · cases h; exact ⟨by assumption, rfl⟩
  · cases h

/-- the result of one search step: the matched leaf, if any, and the params written so far -/
abbrev MatchRes := Except Panic (Option Leaf × Params)

/-- `baseTree.matchLeaf(segment, params, header)` (tree.go:438): works on the segment string only
      for _, l := range t.leaves { ok := l.match(segment, params, header); if ok { return l, true } }
      return nil, false -/
def matchLeavesIdx (E : Engine) (hok : Nat → Bool) (leaves : List Leaf) (segment : Bytes)
    (ps : Params) : MatchRes :=
  .ok (matchLeaves E hok leaves segment ps)

/-- the tail of `matchSubtree` (tree.go:474-489) with `matchAllLeaf.matchAll` (leaf.go:236-248) inlined -/
def matchAllLeafIdx (hok : Nat → Bool) (leaves : List Leaf) (path segment : Bytes) (next : Nat)
    (ps : Params) : MatchRes :=
  -- if len(t.leaves) > 0 { leaf := t.leaves[len(t.leaves)-1]
  match leaves.getLast? with
  | none => .ok (none, ps)                                    -- return nil, false
  | some l =>
    match l.pat with
    | .all b cap =>                                           -- leaf.getMatchStyle() == matchStyleAll
      -- if l.capture > 0 && l.capture < strings.Count(path[next-1:], "/")+1 { return false }
      --   (`&&` short-circuits: the slice is taken only when l.capture > 0)
      let over : Except Panic Bool :=
        if cap > 0 then
          match sliceFromPred path next with                  -- path[next-1:]
          | .error e => .error e
          | .ok tail => .ok (decide (cap < ((countSlash tail + 1 : Nat) : Int)))
        else .ok false
      match over with
      | .error e => .error e
      | .ok true => .ok (none, ps)                            -- return false
      | .ok false =>
        -- if !l.matchHeader(header) { return false }
        if !hok l.hid then .ok (none, ps)
        else
          -- params[l.bind] = segment + "/" + path[next:]; return true
          match sliceFrom path next with                      -- path[next:]
          | .error e => .error e
          | .ok tail => .ok (some l, ps.set b (segment ++ slash :: tail))
    | _ => .ok (none, ps)                                     -- if leaf.getMatchStyle() != matchStyleAll { return nil, false }

set_option linter.unusedVariables false in   -- `hs`, `hi` are used by `decreasing_by` only
mutual
/-- `baseTree.matchNextSegment(path, next, params, header)` (tree.go:492-498) -/
def matchNextIdx (E : Engine) (hok : Nat → Bool) (subs : List Node) (leaves : List Leaf)
    (path : Bytes) (next : Nat) (ps : Params) : MatchRes :=
  -- i := strings.Index(path[next:], "/")
  match sliceFrom path next with                              -- path[next:]
  | .error e => .error e
  | .ok tail =>
    match indexSlash tail with
    | none =>
      -- if i == -1 { return t.matchLeaf(path[next:], params, header) }
      match sliceFrom path next with                          -- path[next:]
      | .error e => .error e
      | .ok segment => matchLeavesIdx E hok leaves segment ps
    | some i =>
      -- return t.matchSubtree(path, path[next:next+i], next+i+1, params, header)
      match slice path next (next + i) with                   -- path[next:next+i]
      | .error e => .error e
      | .ok segment => matchSubsIdx E hok subs leaves path segment (next + i + 1) ps
termination_by (sizeOf subs, 1, 0)

/-- `baseTree.matchSubtree(path, segment, next, params, header)` (tree.go:450-490); `subs` is the
    part of `t.subtrees` the `for` loop has not visited yet -/
def matchSubsIdx (E : Engine) (hok : Nat → Bool) (subs : List Node) (leaves : List Leaf)
    (path segment : Bytes) (next : Nat) (ps : Params) : MatchRes :=
  match subs with                                             -- for _, st := range t.subtrees {
  | [] => matchAllLeafIdx hok leaves path segment next ps     -- } // Fall back to match all leaf of the tree.
  | .mk _ cpat csubs cleaves :: more =>
    match cpat with
    | .all b cap =>                                           -- if st.getMatchStyle() == matchStyleAll {
      -- leaf, ok := st.(*matchAllTree).matchAll(path, segment, next, params, header)
      match matchAllLoopIdx E hok csubs cleaves b cap 1 path segment next ps with
      | .error e => .error e
      | .ok (some l, ps') => .ok (some l, ps')                -- if ok { return leaf, true }
      | .ok (none, ps') => matchAllLeafIdx hok leaves path segment next ps'   -- break
    | _ =>
      match treeMatch E cpat segment ps with                  -- ok := st.match(segment, params)
      | none => matchSubsIdx E hok more leaves path segment next ps           -- if !ok { continue }
      | some ps1 =>
        -- leaf, ok := st.matchNextSegment(path, next, params, header)
        match matchNextIdx E hok csubs cleaves path next ps1 with
        | .error e => .error e
        | .ok (some l, ps2) => .ok (some l, ps2)              -- return leaf, true
        | .ok (none, ps2) => matchSubsIdx E hok more leaves path segment next ps2   -- if !ok { continue }
termination_by (sizeOf subs, 0, 0)

/-- `matchAllTree.matchAll(path, segment, next, params, header)` (tree.go:324-345); `captured` is the
    loop variable, `csubs`/`cleaves` the match-all tree's own children, `b`/`cap` its bind and limit -/
def matchAllLoopIdx (E : Engine) (hok : Nat → Bool) (csubs : List Node) (cleaves : List Leaf)
    (b : Bytes) (cap : Int) (captured : Nat) (path segment : Bytes) (next : Nat) (ps : Params) :
    MatchRes :=
  -- captured := 1;  for t.capture <= 0 || t.capture >= captured {
  if cap ≤ 0 || cap ≥ (captured : Int) then
    -- leaf, ok := t.matchNextSegment(path, next, params, header)
    match matchNextIdx E hok csubs cleaves path next ps with
    | .error e => .error e
    | .ok (some l, ps') => .ok (some l, ps'.set b segment)    -- if ok { params[t.bind] = segment; return leaf, true }
    | .ok (none, ps') =>
      -- i := strings.Index(path[next:], "/")
      match hs : sliceFrom path next with                     -- path[next:]
      | .error e => .error e
      | .ok tail =>
        match hi : indexSlash tail with
        | none => .ok (none, ps')                             -- if i == -1 { break }
        | some i =>
          -- segment += "/" + path[next:next+i]
          match slice path next (next + i) with               -- path[next:next+i]
          | .error e => .error e
          | .ok seg =>
            -- next += i + 1; captured++
            matchAllLoopIdx E hok csubs cleaves b cap (captured + 1) path
              (segment ++ slash :: seg) (next + i + 1) ps'
  else .ok (none, ps)                                         -- return nil, false
termination_by (sizeOf csubs, 2, path.length - next)
decreasing_by
  all_goals simp_wf
  all_goals first
    | (apply Prod.Lex.right; apply Prod.Lex.left; omega)
    | (apply Prod.Lex.left; simp; omega)
    | (-- the loop of `matchAll`: `next` advances by `i + 1 ≤ len(path) - next`
       have h1 := sliceFrom_ok hs
       have h2 := indexSlash_lt hi
       rw [h1.2, List.length_drop] at h2
       apply Prod.Lex.right; apply Prod.Lex.right; omega)
end

/-- `baseTree.Match(path, header)` (tree.go:500-515) -/
def Node.matchIdx (E : Engine) (hok : Nat → Bool) (t : Node) (path : Bytes) :
    Except Panic (Option (Leaf × Params)) :=
  -- path = strings.TrimLeft(path, "/");  params := make(Params)
  let path := trimLeftSlash path
  -- leaf, ok := t.matchNextSegment(path, 0, params, header)
  match matchNextIdx E hok t.subs t.leaves path 0 [] with
  | .error e => .error e
  | .ok (none, _) => .ok none                                 -- if !ok { return nil, nil, false }
  | .ok (some l, ps) =>
    -- for k, v := range params { unescaped, err := url.PathUnescape(v); if err == nil { params[k] = unescaped } }
    .ok (some (l, ps.map fun (k, v) => (k, pathUnescapeOrRaw v)))

/-- `Router.serveTreeOnly` with the tree searched at the index level -/
def Router.serveTreeOnlyIdx (E : Engine) (R : Router) (req : Request) : Except Panic Outcome :=
  match assocGet R.trees req.method with
  | none => .ok .notFound
  | some t =>
    match t.matchIdx E (R.hok E req.hdrs) req.path with
    | .error e => .error e
    | .ok none => .ok .notFound
    | .ok (some (l, ps)) => .ok (.handler l (ps.set (B "route") l.route.render))

/-- `router.ServeHTTP` with the tree searched at the index level -/
def Router.serveIdx (E : Engine) (R : Router) (req : Request) : Except Panic Outcome :=
  match assocGet R.statics (req.method, req.path) with
  | some leaf => .ok (.handler leaf [(B "route", leaf.route.render)])
  | none => R.serveTreeOnlyIdx E req

end Flamego
