/-
  Model/Return.lean — return_handler.go (`defaultReturnHandler`, the table), the part of
  context.go `run()` that calls it, and handler.go `teapotInvoker`.

  This models the REPAIRED table (finding F14: the tail computes `body` first and returns
  when `len(body) == 0`).  `renderUnrepaired` keeps the original tail for comparison only.

  Go                                             | here
  -----------------------------------------------+---------------------------------------------
  a `reflect.Value` handed to the ReturnHandler  | `RetVal` (kind + what the table can see of it)
  `vals []reflect.Value`                         | `RetShape` (0, 1, 2, or ≥3 values)
  `w.WriteHeader(c)` / `w.Write(b)` on the       | `Act.writeHeader c` / `Act.write b`
     flamego ResponseWriter                      |   (executed on `Flamego.Writer.W` by `Out.act`)
  `err.Error()` panicking (nil receiver deref)   | `Act.panic`
  `respVal.String()` on a non-string kind        | parameter `ph` (reflect prints `<T Value>`)
  `c.Value(reflect.TypeOf(ReturnHandler(nil)))`  | `resolve req app` (request scope, then app scope,
                                                 |   where `f.Map(defaultReturnHandler())` put the table)

  Conventions for `RetVal` (what reflect tells the table):
  * `str b`        Kind String (string and named string types).
  * `bytes none`   a nil `[]byte`;  `bytes (some b)` a non-nil one (`b` may be empty).
  * `err m`        any value whose *dynamic type implements `error`* and which is not wrapped in
                   an interface-typed result: `m = some msg` is what `Error()` returns, `m = none`
                   means `Error()` panics.  A typed-nil pointer `(*myErr)(nil)` is such a value
                   (Go: a non-nil `error`); its kind is never Int / String / byte slice here.
  * `int n`        Kind Int (`int` and named `int` types; NOT int64/uint, those are `other`).
  * `ptrNil`/`ptrTo v`      Kind Ptr whose type does not implement `error`.
  * `ifaceNil`/`ifaceOf v`  Kind Interface: a result whose *static* type is an interface
                   (`error`, `interface{}`), as `reflect.Value.Call` returns it.
  * `other z`      every other kind (bool, int64, uint, struct, …); `z` = `IsZero()`.
-/
import Flamego.Base.Bytes
import Flamego.Model.Writer
import Flamego.Gen.ConstFacts

namespace Flamego.Ret
open Flamego.Writer (W)

/-- `w.WriteHeader(http.StatusInternalServerError)` in the error branch of the table: the literal
    is read from return_handler.go on every run (Gen/ConstFacts) -/
def errorStatus : Int := Gen.returnErrorStatus
attribute [simp] errorStatus Gen.returnErrorStatus

inductive RetVal
  | str (b : Bytes)
  | bytes (b : Option Bytes)
  | err (msg : Option Bytes)
  | int (n : Int)
  | ptrNil
  | ptrTo (v : RetVal)
  | ifaceNil
  | ifaceOf (v : RetVal)
  | other (zero : Bool)
  deriving DecidableEq, Repr

/-- `vals`: what the handler returned. `many n` stands for `n + 3` values. -/
inductive RetShape
  | none
  | one (v : RetVal)
  | two (a b : RetVal)
  | many (n : Nat)
  deriving DecidableEq, Repr

def RetShape.arity : RetShape → Nat
  | .none => 0 | .one _ => 1 | .two _ _ => 2 | .many n => n + 3

/-- what the table does to the response writer, in order -/
inductive Act
  | writeHeader (c : Int)
  | write (b : Bytes)
  | panic
  deriving DecidableEq, Repr

/-- `_, ok := v.Interface().(error)`: `none` = not ok; `some m` = ok (then `err != nil` holds,
    a type assertion to an interface type never yields a nil interface), `m` as in `RetVal.err`.
    `Interface()` of a Kind-Interface value is the dynamic value, hence the recursion. -/
def asError : RetVal → Option (Option Bytes)
  | .err m => some m
  | .ifaceOf v => asError v
  | _ => none

/-- `isByteSlice` -/
def isByteSlice : RetVal → Bool
  | .bytes _ => true
  | _ => false

/-- `val.Kind() == reflect.String` -/
def isString : RetVal → Bool
  | .str _ => true
  | _ => false

/-- `canDeref`: Kind Interface or Ptr -/
def canDeref : RetVal → Bool
  | .ptrNil | .ptrTo _ | .ifaceNil | .ifaceOf _ => true
  | _ => false

/-- `respVal.Elem()` (only reached for non-nil pointers / interfaces) -/
def elem : RetVal → RetVal
  | .ptrTo v => v
  | .ifaceOf v => v
  | v => v

/-- `respVal.IsZero()`: a slice, pointer or interface is zero iff nil; a string iff empty -/
def isZero : RetVal → Bool
  | .str b => b.isEmpty
  | .bytes b => b.isNone
  | .err _ => false              -- never consulted: the error branch returns first
  | .int n => n == 0
  | .ptrNil => true
  | .ptrTo _ => false
  | .ifaceNil => true
  | .ifaceOf _ => false
  | .other z => z

/-- `respVal.Bytes()` for a byte slice, else `[]byte(respVal.String())`; `ph` is reflect's
    placeholder text for a non-string kind -/
def payload (ph : Bytes) : RetVal → Bytes
  | .bytes b => b.getD []
  | .str b => b
  | _ => ph

/-- the `switch len(vals)`: the status line written up front (if any) and `respVal`
    (`none` = the zero `reflect.Value`, `!respVal.IsValid()`) -/
def select : RetShape → List Act × Option RetVal
  | .none => ([], none)                      -- `run()` does not even call the handler
  | .one v => ([], some v)                   -- case 1
  | .two a b =>                              -- case 2
    match a with
    | .int n => ([.writeHeader n], some b)   --   vals[0].Kind() == reflect.Int
    | .str _ | .bytes _ =>                   --   String or byte slice first
      ([], some (if (asError b).isSome then b else a))
    | _ => ([], none)
  | .many _ => ([], none)                    -- no case

/-- everything after the switch (repaired tail) -/
def render (ph : Bytes) : Option RetVal → List Act
  | none => []                                                   -- !respVal.IsValid()
  | some v =>
    match asError v with
    | some (some m) => [.writeHeader errorStatus, .write m]              -- non-nil error
    | some none => [.writeHeader errorStatus, .panic]                    --   … whose Error() panics
    | none =>
      if isZero v then [] else                                   -- respVal.IsZero()
      let v' := if canDeref v then elem v else v                 -- one Elem()
      let body := payload ph v'
      if body.isEmpty then [] else [.write body]                 -- F14 repair: len(body) == 0

/-- the original tail: `w.Write` is called whatever the length -/
def renderUnrepaired (ph : Bytes) : Option RetVal → List Act
  | none => []
  | some v =>
    match asError v with
    | some (some m) => [.writeHeader errorStatus, .write m]
    | some none => [.writeHeader errorStatus, .panic]
    | none =>
      if isZero v then [] else
      let v' := if canDeref v then elem v else v
      [.write (payload ph v')]

/-- `defaultReturnHandler()` -/
def handleReturn (ph : Bytes) (s : RetShape) : List Act :=
  (select s).1 ++ render ph (select s).2

def handleReturnUnrepaired (ph : Bytes) (s : RetShape) : List Act :=
  (select s).1 ++ renderUnrepaired ph (select s).2

/-! ### executing the acts on the response writer of Model/Writer -/

/-- status codes the wrapped net/http writer accepts (`checkWriteHeaderCode`); it panics on others -/
def validCode (c : Int) : Bool := decide (100 ≤ c) && decide (c ≤ 999)

structure Out where
  w        : W
  body     : Bytes := []     -- body bytes forwarded to the wrapped writer (it accepts everything)
  panicked : Bool := false
  deriving Repr

/-- One act.  `WriteHeader(c)` with an invalid code panics inside net/http when it actually
    reaches the wrapped writer (first trigger); the writer state is then left as it was (the
    `Once` is spent in Go, but the request is over).  After a panic nothing else happens. -/
def Out.act (o : Out) (a : Act) : Out :=
  if o.panicked then o else
  match a with
  | .writeHeader c =>
    if !o.w.onceDone && !o.w.written && !validCode c then { o with panicked := true }
    else { o with w := Writer.step o.w (.writeHeader c.toNat) }
  | .write b =>
    { o with w := Writer.step o.w (.write b.length b.length),
             body := if o.w.head then o.body else o.body ++ b }
  | .panic => { o with panicked := true }

def Out.run (o : Out) (acts : List Act) : Out := acts.foldl Out.act o

/-- a model of a `ReturnHandler`: the acts it performs for the values it is given -/
abbrev Handler := RetShape → List Act

/-- `c.Value(reflect.TypeOf(ReturnHandler(nil)))`: request scope first, then the app scope
    (C04's nearest-scope rule); `app = none` means nobody replaced the table that
    `NewWithLogger` mapped there. -/
def resolve (ph : Bytes) (req app : Option Handler) : Handler :=
  match req with
  | some h => h
  | none => match app with
    | some h => h
    | none => handleReturn ph

/-- context.go `run()`: `if len(vals) > 0 { handleReturn(c, vals) }` -/
def afterHandler (ph : Bytes) (req app : Option Handler) (s : RetShape) : List Act :=
  if s.arity = 0 then [] else resolve ph req app s

/-- the response after a handler returned `s`, starting from the outcome so far `o0` -/
def respondFrom (o0 : Out) (ph : Bytes) (req app : Option Handler) (s : RetShape) : Out :=
  Out.run o0 (afterHandler ph req app s)

/-- … on a fresh writer, with the built-in table -/
def respond (head : Bool) (ph : Bytes) (s : RetShape) : Out :=
  respondFrom { w := Writer.init head } ph none none s

/-- context.go `run()`: `if c.ResponseWriter().Written() { return }` — the loop goes on to the
    next handler iff nothing has been written (and the request did not die in a panic) -/
def Out.continues (o : Out) : Bool := !o.w.written && !o.panicked

/-! ### several handlers of one request: the lookup happens at every return

  context.go `run()` looks the ReturnHandler up *each time* a handler returns values
  (`c.Value(reflect.TypeOf(ReturnHandler(nil)))` inside the loop), so a `c.Map(ReturnHandler(h))`
  (request scope) or `f.Map(ReturnHandler(h))` (app scope) done by a handler in the middle of
  the chain decides every LATER return of the request, whatever returned before. -/

/-- one handler of the chain, as far as C14 is concerned -/
inductive Step
  | silent                                  -- returns nothing, maps nothing
  | mapReq (h : Handler)                    -- `c.Map(flamego.ReturnHandler(h))`
  | mapApp (h : Handler)                    -- `f.Map(flamego.ReturnHandler(h))`
  | ret (ph : Bytes) (s : RetShape)         -- returns the values `s`

/-- `req`: the request scope's entry, `app`: the app scope's (none = the built-in table),
    `out`: the response so far, `ran`: handlers started -/
structure ChainSt where
  req : Option Handler := none
  app : Option Handler := none
  out : Out
  ran : Nat := 0

/-- one iteration of `run()`'s loop: nothing more runs once something is written (or the
    request died); otherwise the handler runs, and if it returned values the handler resolvable
    NOW renders them -/
def ChainSt.step (st : ChainSt) (x : Step) : ChainSt :=
  if !st.out.continues then st else
  let st := { st with ran := st.ran + 1 }
  match x with
  | .silent => st
  | .mapReq h => { st with req := some h }
  | .mapApp h => { st with app := some h }
  | .ret ph s => { st with out := respondFrom st.out ph st.req st.app s }

def runChain (st : ChainSt) (steps : List Step) : ChainSt := steps.foldl ChainSt.step st

/-- a new request on the same Flame: fresh writer, empty request scope, the app scope as it is -/
def newRequest (head : Bool) (app : Option Handler) : ChainSt :=
  { app := app, out := { w := Writer.init head } }

/-! ### the two ways a `func() (int, string)` is invoked -/

/-- `reflect.ValueOf(x)`: the dynamic value; an interface wrapper disappears -/
def valueOf : RetVal → RetVal
  | .ifaceOf v => v
  | v => v

/-- inject.callInvoke: `reflect.ValueOf(f).Call(in)` — results carry the static types int, string -/
def viaReflect (c : Int) (s : Bytes) : RetShape := .two (.int c) (.str s)

/-- teapotInvoker.Invoke: `ret1, ret2 := invoke(); []reflect.Value{reflect.ValueOf(ret1), reflect.ValueOf(ret2)}` -/
def viaTeapot (c : Int) (s : Bytes) : RetShape := .two (valueOf (.int c)) (valueOf (.str s))

end Flamego.Ret
