/-
  Model/Render.lean — render.go: the four `Render` methods as operations on the
  flamego ResponseWriter, and the `Renderer` middleware as a binding in the request scope.

  Go (render.go)                                   | here
  -------------------------------------------------+---------------------------------------------
  RenderOptions{Charset, JSONIndent, XMLIndent}    | `Opts`
  parseRenderOptions (Charset "" → "utf-8")        | `Opts.parse`
  the Content-Type strings in JSON/XML/Binary/...  | `contentType`
  json.NewEncoder(w)+SetIndent / xml.NewEncoder(w) | `Encoder V` — a PARAMETER: what the encoder
    +Indent, then Encode(v)                        |   wrote to `w` (`chunks`) and the error it
                                                   |   returned (`err`)
  w.Header().Set / Del                             | `ROp.setHeader / delHeader`
  w.WriteHeader(status)                            | `ROp.writeHeader`
  w.Write(b)                                       | `ROp.write`
  http.Error(w, msg, 500)  (net/http, go1.23)      | `httpError`
  r.JSON / r.XML / r.Binary / r.PlainText          | `renderOps`
  the wrapped http.ResponseWriter (a recorder):    | `Resp`: `w` is the C13 state machine
    live header map, header snapshot taken when    |   (Model/Writer), `hdr` the live map, `sent`
    the status line goes out, body buffer          |   the snapshot, `body` the bytes received
  Renderer(opts) = c.MapTo(&render{..}, Render)    | `H.renderer` acting on the request `Scope`

  The order inside each method is the code's: Content-Type is set first, then the status is
  sent, then the body is written.  When the encoder fails, `http.Error` runs AFTER
  `WriteHeader(status)`: its `WriteHeader(500)` is swallowed by the writer (C13), its header
  changes reach only the live map (the snapshot the client gets was taken already), and its
  message line is appended to whatever the encoder had flushed before failing.
-/
import Flamego.Base.Bytes
import Flamego.Model.Writer
import Flamego.Gen.ConstFacts

namespace Flamego

open Lean in
/-- `b!"text"`: the list literal of the UTF-8 bytes of a string literal, expanded at elaboration
    time so that the kernel can compute with it (`String.toUTF8` does not reduce by `decide`). -/
macro:max "b!" s:str : term => do
  let elems := s.getString.toUTF8.toList.toArray.map fun b => Syntax.mkNumLit (toString b.toNat)
  `(([ $elems,* ] : Bytes))

namespace Render

/-! ### options and the Content-Type table -/

/-- `RenderOptions` -/
structure Opts where
  charset    : Bytes := []
  jsonIndent : Bytes := []
  xmlIndent  : Bytes := []
  deriving DecidableEq, Repr

/-- `parseRenderOptions`: an empty charset becomes "utf-8" (`Gen.renderDefaultCharset`, the
    literal of render.go read on every run); nothing else changes -/
def Opts.parse (o : Opts) : Opts :=
  if o.charset = [] then { o with charset := Gen.renderDefaultCharset } else o

inductive Kind | json | xml | binary | plainText
  deriving DecidableEq, Repr

/-- one Content-Type argument as the source spells it: the literal, followed by
    `r.opts.Charset` iff the source appends it -/
def typeWith (o : Opts) (lit : Bytes) (withCharset : Bool) : Bytes :=
  if withCharset then lit ++ o.charset else lit

/-- the argument of `Header().Set("Content-Type", …)` in each method, built from the literals
    the translator reads in (*render).JSON / XML / Binary / PlainText (Gen/ConstFacts);
    documented: Binary has no charset, the other three end in `; charset=` + the charset -/
def contentType (o : Opts) : Kind → Bytes
  | .json      => typeWith o Gen.renderJSONType Gen.renderJSONCharset
  | .xml       => typeWith o Gen.renderXMLType Gen.renderXMLCharset
  | .binary    => typeWith o Gen.renderBinaryType Gen.renderBinaryCharset
  | .plainText => typeWith o Gen.renderPlainType Gen.renderPlainCharset

/-- the status of `http.Error` when an encoder fails (JSON's literal; XML's is tied to the same
    value in Props/ConstFacts/C17) -/
def encodeErrorStatus : Nat := Gen.renderJSONErrorStatus

attribute [simp] typeWith encodeErrorStatus Gen.renderJSONType Gen.renderJSONCharset Gen.renderXMLType
  Gen.renderXMLCharset Gen.renderBinaryType Gen.renderBinaryCharset Gen.renderPlainType
  Gen.renderPlainCharset Gen.renderDefaultCharset Gen.renderJSONErrorStatus

/-! ### the encoders are parameters -/

/-- What one `Encode(v)` call did: the `Write`s it issued on the response writer, in order,
    and the error it returned (`none` = nil).  encoding/json issues one Write (value plus a
    newline) or none on error; encoding/xml goes through a 4096-byte bufio.Writer, so it may
    issue several Writes, and some of them before an error. -/
structure EncOut where
  chunks : List Bytes := []
  err    : Option Bytes := none
  deriving DecidableEq, Repr

/-- the standard encoders: does the writer swallow the bytes (flamego's writer for a HEAD
    request reports 0 bytes written, which encoding/xml's bufio.Writer turns into a "short
    write" error while encoding/json does not look at the count) → indent string → value →
    what happened -/
structure Encoder (V : Type) where
  json : Bool → Bytes → V → EncOut
  xml  : Bool → Bytes → V → EncOut

/-- the argument of one of the four methods -/
inductive Payload (V : Type)
  | json (v : V) | xml (v : V) | binary (b : Bytes) | plainText (s : Bytes)

def Payload.kind {V : Type} : Payload V → Kind
  | .json _ => .json | .xml _ => .xml | .binary _ => .binary | .plainText _ => .plainText

/-! ### operations on the response writer -/

inductive ROp
  | setHeader (k v : Bytes)
  | delHeader (k : Bytes)
  | writeHeader (c : Nat)
  | write (b : Bytes)
  deriving DecidableEq, Repr

def ctKey : Bytes := b!"Content-Type"
def errorContentType : Bytes := b!"text/plain; charset=utf-8"

/-- `http.Error(w, msg, code)` as of go1.23 -/
def httpError (msg : Bytes) (code : Nat) : List ROp :=
  [ .delHeader b!"Content-Length",
    .setHeader ctKey errorContentType,
    .setHeader b!"X-Content-Type-Options" b!"nosniff",
    .writeHeader code,
    .write (msg ++ [10]) ]                       -- fmt.Fprintln(w, msg)

/-- `err := enc.Encode(v); if err != nil { http.Error(w, err.Error(), 500) }` -/
def encodeOps (e : EncOut) : List ROp :=
  e.chunks.map ROp.write ++ (match e.err with | none => [] | some m => httpError m encodeErrorStatus)

/-- the body part of each method -/
def bodyOps {V : Type} (enc : Encoder V) (o : Opts) (head : Bool) : Payload V → List ROp
  | .json v      => encodeOps (enc.json head o.jsonIndent v)   -- SetIndent("", JSONIndent) iff non-empty
  | .xml v       => encodeOps (enc.xml head o.xmlIndent v)     -- Indent("", XMLIndent) iff non-empty
  | .binary b    => [.write b]
  | .plainText s => [.write s]

/-- `r.JSON(status, v)`, `r.XML(status, v)`, `r.Binary(status, b)`, `r.PlainText(status, s)`
    of a renderer holding options `o` (already parsed by `Renderer`); `head`: the request is a HEAD -/
def renderOps {V : Type} (enc : Encoder V) (o : Opts) (head : Bool) (status : Nat) (p : Payload V) : List ROp :=
  [ .setHeader ctKey (contentType o p.kind), .writeHeader status ] ++ bodyOps enc o head p

/-! ### the response: C13's writer over a recording http.ResponseWriter -/

/-- header map: canonical key ↦ value (single-valued: only `Set`/`Del` are used here) -/
abbrev Hdr := List (Bytes × Bytes)

def Hdr.get : Hdr → Bytes → Option Bytes
  | [], _ => none
  | (k', v) :: t, k => if k' = k then some v else Hdr.get t k
def Hdr.del : Hdr → Bytes → Hdr
  | [], _ => []
  | (k', v) :: t, k => if k' = k then Hdr.del t k else (k', v) :: Hdr.del t k
def Hdr.set (h : Hdr) (k v : Bytes) : Hdr := (k, v) :: Hdr.del h k

structure Resp where
  w    : Writer.W                 -- flamego's responseWriter (Model/Writer)
  hdr  : Hdr := []                -- live header map of the wrapped writer
  sent : Option Hdr := none       -- the headers as they were when the status line went out
  body : Bytes := []              -- body bytes the wrapped writer received
  deriving Repr

def Resp.init (head : Bool) : Resp := { w := Writer.init head }

/-- the wrapped writer freezes the headers at the moment it receives the status line; with
    valid codes that is exactly the step in which `Status()` leaves 0 -/
def snap (r : Resp) (w' : Writer.W) : Option Hdr :=
  if r.w.status = 0 ∧ w'.status ≠ 0 then some r.hdr else r.sent

/-- the writer operation behind a response operation (the recorder accepts every byte) -/
def ROp.toW : ROp → Option Writer.Op
  | .writeHeader c => some (.writeHeader c)
  | .write b => some (.write b.length b.length)
  | _ => none

def Resp.apply (r : Resp) : ROp → Resp
  | .setHeader k v => { r with hdr := Hdr.set r.hdr k v }
  | .delHeader k   => { r with hdr := Hdr.del r.hdr k }
  | .writeHeader c =>
    let w' := Writer.step r.w (.writeHeader c)
    { r with w := w', sent := snap r w' }
  | .write b =>
    let w' := Writer.step r.w (.write b.length b.length)
    { r with w := w', sent := snap r w',
             body := if r.w.head then r.body else r.body ++ b }   -- HEAD: nothing forwarded

def Resp.run (r : Resp) (ops : List ROp) : Resp := ops.foldl Resp.apply r

/-- one call of a `Render` method on response `r` -/
def render {V : Type} (enc : Encoder V) (o : Opts) (status : Nat) (p : Payload V) (r : Resp) : Resp :=
  r.run (renderOps enc o r.w.head status p)

/-- the Content-Type the client receives / the one in the live map afterwards -/
def Resp.sentContentType (r : Resp) : Option Bytes := r.sent.bind (Hdr.get · ctKey)
def Resp.liveContentType (r : Resp) : Option Bytes := Hdr.get r.hdr ctKey

/-! ### visibility: a minimal scope chain (the full injector is C04's)

  inject.go `Value(t)`: the own map first, then the parent.  (The search for an implementor of
  an interface type between the two is irrelevant here: `MapTo` binds the interface type
  itself, and no other bound type implements `Render`.)  context.go: every request gets a new
  injector (`newContext`), its parent is the Flame instance (`createContext`).               -/

inductive Ty | render | context | responseWriter | request | other (n : Nat)
  deriving DecidableEq, Repr

/-- bound values; a renderer remembers the request whose ResponseWriter it holds, and its options -/
inductive Val
  | render (req : Nat) (o : Opts)
  | ctx (req : Nat) | rw (req : Nat) | httpReq (req : Nat) | other (n : Nat)
  deriving DecidableEq, Repr

/-- one injector's `values` map: newest binding first, lookup takes the first hit (= overwrite) -/
abbrev Scope := List (Ty × Val)

def Scope.lookup : Scope → Ty → Option Val
  | [], _ => none
  | (t', v) :: rest, t => if t' = t then some v else Scope.lookup rest t
def Scope.mapTo (s : Scope) (t : Ty) (v : Val) : Scope := (t, v) :: s

/-- `Value(t)` through the chain, nearest scope first -/
def resolve : List Scope → Ty → Option Val
  | [], _ => none
  | s :: rest, t => match s.lookup t with
    | some v => some v
    | none => resolve rest t

/-- `newContext`: Context, http.ResponseWriter and *http.Request of this request -/
def initScope (rid : Nat) : Scope :=
  [(.request, .httpReq rid), (.responseWriter, .rw rid), (.context, .ctx rid)]

/-- handlers, as far as the scope is concerned -/
inductive H
  | renderer (o : Opts)            -- flamego.Renderer(o)
  | mapOther (n : Nat) (v : Nat)   -- a handler that binds some unrelated type
  | probe                          -- a handler that only asks for things
  deriving DecidableEq, Repr

/-- effect of running handler `h` of request `rid` on that request's scope -/
def H.run (rid : Nat) (s : Scope) : H → Scope
  | .renderer o   => s.mapTo .render (.render rid o.parse)   -- c.MapTo(&render{opt, c.ResponseWriter()}, (*Render)(nil))
  | .mapOther n v => s.mapTo (.other n) (.other v)
  | .probe        => s

def runHandlers (rid : Nat) (s : Scope) (hs : List H) : Scope := hs.foldl (H.run rid) s

/-- an instance serving several requests whose handlers interleave arbitrarily -/
structure Inst where
  global : Scope            -- the Flame instance's own injector
  reqs   : Nat → Scope      -- request id ↦ its scope (initially `initScope`)

def Inst.new (global : Scope) : Inst := { global := global, reqs := initScope }

/-- handler `h` of request `rid` runs -/
def Inst.step (i : Inst) (e : Nat × H) : Inst :=
  { i with reqs := fun r => if r = e.1 then H.run e.1 (i.reqs e.1) e.2 else i.reqs r }

def Inst.run (i : Inst) (evs : List (Nat × H)) : Inst := evs.foldl Inst.step i

/-- what a handler of request `rid` gets when it asks for type `t` now -/
def Inst.resolveIn (i : Inst) (rid : Nat) (t : Ty) : Option Val := resolve [i.reqs rid, i.global] t

end Render
end Flamego
