/-
  Model/Parser.lean — the route grammar of internal/route/definition.go (participle struct tags,
  regenerated as `Gen.grammarTags`) as a deterministic recursive descent over the lexer's tokens.

      Route               Segments    `@@+`
      Segment             Slash `'/'`   Optional `@'?'?`   Elements `@@*`
      SegmentElement      Ident `@Ident`  | BindIdent `'{' @Ident '}'`  | BindParameters `'{' @@ '}'`
      BindParameters      Parameters  `( @@ ( ',' ' '* @@ )* )+`
      BindParameter       Ident `@Ident ':' ' '*`   Value `@@`
      BindParameterValue  Literal `@Ident`  | Regex `'/' @Regex '/'`

  participle semantics used (nodes.go / context.go, v2.1.4, `UseLookahead(2)`, nothing elided):
  * a quoted literal `'x'` matches a token by its VALUE, whatever its type (`literal.Parse`);
    `@Ident` / `@Regex` match by token TYPE (`reference.Parse`);
  * a disjunction tries its alternatives in order and takes the first that matches; a group
    `( … )* / + / ?` repeats while the body matches and stops at the first iteration that does not;
  * a branch that fails after the parser has moved MORE than 2 tokens past the branch point is a
    hard error (`parseContext.Stop`), a shallower failure is backtracked. In this grammar the
    distinction cannot change a verdict: every failing branch begins at a `'{'` (alternatives 2/3
    of SegmentElement) or inside one, and after a backtracked failure the only continuation of
    the enclosing rules is `'/'` or the end of input, which a `'{'`, `','` or identifier is not —
    the parse fails either way. The only real decision is `'{' Ident '}'` before
    `'{' BindParameters '}'`, which the two tokens after the brace settle. The functions below
    therefore return `none`/stop where participle reports either kind of failure.
  * trailing tokens after the Route are an error (`parseOne`).
  Totality is by construction: every function here terminates (recursion on the number of
  remaining tokens) and failures are values.
-/
import Flamego.Model.Syntax
import Flamego.Model.Lexer
namespace Flamego
namespace RouteParser

def cBlank : Bytes := [32]
def cSlash : Bytes := [47]
def cQMark : Bytes := [63]
def cLBrace : Bytes := [123]
def cRBrace : Bytes := [125]
def cColon : Bytes := [58]
def cComma : Bytes := [44]

/-- `' '*` : skip tokens whose value is one blank -/
def skipBlanks : List Token → List Token
  | [] => []
  | t :: ts => if t.val = cBlank then skipBlanks ts else t :: ts

theorem skipBlanks_length (ts : List Token) : (skipBlanks ts).length ≤ ts.length := by
  induction ts with
  | nil => simp [skipBlanks]
  | cons t ts ih =>
    unfold skipBlanks
    split
    · simp only [List.length_cons]; omega
    · exact Nat.le_refl _

/-- BindParameterValue: `@Ident | '/' @Regex '/'` -/
def pValue : List Token → Option (BindVal × List Token)
  | [] => none
  | t :: ts =>
    if t.name = "Ident" then some (.lit t.val, ts)
    else if t.val = cSlash then
      match ts with
      | r :: e :: rest => if r.name = "Regex" ∧ e.val = cSlash then some (.re r.val, rest) else none
      | _ => none
    else none

theorem pValue_length {ts : List Token} {v rest} (h : pValue ts = some (v, rest)) :
    rest.length < ts.length := by
  unfold pValue at h
  split at h
  · simp at h
  · split at h
    · simp at h; obtain ⟨_, rfl⟩ := h; simp
    · split at h
      · split at h
        · split at h
          · simp at h; obtain ⟨_, rfl⟩ := h; simp; omega
          · simp at h
        · simp at h
      · simp at h

/-- BindParameter: `@Ident ':' ' '* @@` -/
def pParam : List Token → Option (BindParam × List Token)
  | i :: c :: ts =>
    if i.name = "Ident" ∧ c.val = cColon then
      match pValue (skipBlanks ts) with
      | some (v, rest) => some (⟨i.val, v⟩, rest)
      | none => none
    else none
  | _ => none

theorem pParam_length {ts : List Token} {p rest} (h : pParam ts = some (p, rest)) :
    rest.length < ts.length := by
  match ts, h with
  | [], h => simp [pParam] at h
  | [_], h => simp [pParam] at h
  | i :: c :: ts', h =>
    simp only [pParam] at h
    split at h
    · split at h
      · rename_i v rest' hv
        simp at h; obtain ⟨_, rfl⟩ := h
        have h1 := pValue_length hv
        have h2 := skipBlanks_length ts'
        simp only [List.length_cons]; omega
      · simp at h
    · simp at h

/-- `( ',' ' '* @@ )*` : further parameters; stops (consuming nothing more) at the first
    iteration that does not match -/
def pMore (ts : List Token) : List BindParam × List Token :=
  match ts with
  | [] => ([], [])
  | c :: ts' =>
    if c.val = cComma then
      match h : pParam (skipBlanks ts') with
      | some (p, rest) =>
        have : rest.length < (c :: ts').length := by
          have h1 := pParam_length h
          have h2 := skipBlanks_length ts'
          simp only [List.length_cons]; omega
        let r := pMore rest
        (p :: r.1, r.2)
      | none => ([], c :: ts')
    else ([], c :: ts')
termination_by ts.length

theorem pMore_length (ts : List Token) : (pMore ts).2.length ≤ ts.length := by
  fun_induction pMore ts with
  | case1 => simp
  | case2 c ts' hc p rest h hlt r ih =>
    show (pMore rest).2.length ≤ (c :: ts').length
    simp only [List.length_cons] at hlt ⊢
    omega
  | case3 => simp
  | case4 => simp

/-- `( @@ ( ',' ' '* @@ )* )+` : the parameters and the remaining tokens; the `+` demands a
    non-empty result (checked by the caller) -/
def pParamsLoop (ts : List Token) : List BindParam × List Token :=
  match h : pParam ts with
  | none => ([], ts)
  | some (p, rest) =>
    have : (pMore rest).2.length < ts.length := by
      have h1 := pParam_length h
      have h2 := pMore_length rest
      omega
    let m := pMore rest
    let r := pParamsLoop m.2
    (p :: m.1 ++ r.1, r.2)
termination_by ts.length

/-- SegmentElement, alternative 2 after the brace: `@Ident '}'` -/
def pBindIdent : List Token → Option (Elem × List Token)
  | n :: e :: rest => if n.name = "Ident" ∧ e.val = cRBrace then some (.bind n.val, rest) else none
  | _ => none

/-- SegmentElement, alternative 3 after the brace: `BindParameters '}'` -/
def pBindParams (ts : List Token) : Option (Elem × List Token) :=
  match pParamsLoop ts with
  | ([], _) => none
  | (_ :: _, []) => none
  | (p :: ps, e :: rest) => if e.val = cRBrace then some (.params (p :: ps), rest) else none

/-- SegmentElement: `@Ident | '{' @Ident '}' | '{' @@ '}'` -/
def pElem : List Token → Option (Elem × List Token)
  | [] => none
  | t :: ts =>
    if t.name = "Ident" then some (.ident t.val, ts)
    else if t.val = cLBrace then
      match pBindIdent ts with
      | some r => some r
      | none => pBindParams ts
    else none

theorem pParamsLoop_length (ts : List Token) : (pParamsLoop ts).2.length ≤ ts.length := by
  fun_induction pParamsLoop ts with
  | case1 => simp
  | case2 ts p rest h hlt m r ih =>
    show (pParamsLoop (pMore rest).2).2.length ≤ ts.length
    have h1 : (pMore rest).2.length < ts.length := hlt
    have h2 : (pParamsLoop (pMore rest).2).2.length ≤ (pMore rest).2.length := ih
    omega

theorem pElem_length {ts : List Token} {e rest} (h : pElem ts = some (e, rest)) :
    rest.length < ts.length := by
  unfold pElem at h
  split at h
  · simp at h
  · rename_i t ts'
    split at h
    · simp at h; obtain ⟨_, rfl⟩ := h; simp
    · split at h
      · split at h
        · rename_i r hb
          simp at h; subst h
          unfold pBindIdent at hb
          split at hb
          · split at hb
            · simp at hb; obtain ⟨_, rfl⟩ := hb; simp only [List.length_cons]; omega
            · simp at hb
          · simp at hb
        · unfold pBindParams at h
          have hl := pParamsLoop_length ts'
          split at h
          · simp at h
          · simp at h
          · rename_i hp
            split at h
            · simp at h; obtain ⟨_, rfl⟩ := h
              rw [hp] at hl
              simp only [List.length_cons] at hl ⊢; omega
            · simp at h
      · simp at h

/-- `@@*` : the elements of a segment -/
def pElems (ts : List Token) : List Elem × List Token :=
  match h : pElem ts with
  | none => ([], ts)
  | some (e, rest) =>
    have : rest.length < ts.length := pElem_length h
    let r := pElems rest
    (e :: r.1, r.2)
termination_by ts.length

theorem pElems_length (ts : List Token) : (pElems ts).2.length ≤ ts.length := by
  fun_induction pElems ts with
  | case1 => simp
  | case2 ts e rest h hlt r ih =>
    show (pElems rest).2.length ≤ ts.length
    omega

/-- `@'?'?` -/
def pOptional : List Token → Bool × List Token
  | [] => (false, [])
  | q :: ts => if q.val = cQMark then (true, ts) else (false, q :: ts)

theorem pOptional_length (ts : List Token) : (pOptional ts).2.length ≤ ts.length := by
  unfold pOptional
  split
  · simp
  · split <;> simp

/-- Segment: `'/' @'?'? @@*` -/
def pSegment : List Token → Option (Segment × List Token)
  | [] => none
  | t :: ts =>
    if t.val = cSlash then
      let o := pOptional ts
      let r := pElems o.2
      some (⟨o.1, r.1⟩, r.2)
    else none

theorem pSegment_length {ts : List Token} {s rest} (h : pSegment ts = some (s, rest)) :
    rest.length < ts.length := by
  unfold pSegment at h
  split at h
  · simp at h
  · rename_i t ts'
    split at h
    · simp at h; obtain ⟨_, rfl⟩ := h
      have h1 := pOptional_length ts'
      have h2 := pElems_length (pOptional ts').2
      simp only [List.length_cons]; omega
    · simp at h

/-- `@@+` : the segments (non-emptiness checked by the caller) -/
def pSegments (ts : List Token) : List Segment × List Token :=
  match h : pSegment ts with
  | none => ([], ts)
  | some (s, rest) =>
    have : rest.length < ts.length := pSegment_length h
    let r := pSegments rest
    (s :: r.1, r.2)
termination_by ts.length

/-- Route `@@+`, then end of input (`parseOne`: a left-over token is an error) -/
def parseTokens (ts : List Token) : Option Route :=
  match pSegments ts with
  | (s :: ss, []) => some ⟨s :: ss⟩
  | _ => none

end RouteParser

/-- what `Parser.Parse` does with a route string -/
inductive ParseOutcome
  | ok (r : Route)
  | err
  /-- the Go code would panic (state stack popped empty) -/
  | panic
  deriving DecidableEq, Repr, Inhabited

/-- the outcome under a given lexer rule table -/
def parseOutcomeWith (rules : LexRules) (s : Bytes) : ParseOutcome :=
  match lexFrom rules ["Root"] s with
  | .error .emptyStack => .panic
  | .error .invalid => .err
  | .ok ts =>
    match RouteParser.parseTokens ts with
    | some r => .ok r
    | none => .err

def parseOutcome (s : Bytes) : ParseOutcome :=
  match lex s with
  | .error .emptyStack => .panic
  | .error .invalid => .err
  | .ok ts =>
    match RouteParser.parseTokens ts with
    | some r => .ok r
    | none => .err

/-- `Parser.Parse`: the route, or `none` for an error -/
def parse (s : Bytes) : Option Route :=
  match lex s with
  | .ok ts => RouteParser.parseTokens ts
  | .error _ => none

end Flamego
