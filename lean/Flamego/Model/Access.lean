/-
  Model/Access.lean — the request accessors of context.go (C18).

  Go (context.go)                         | here
  ----------------------------------------+-------------------------------------------------
  c.Request().URL.Query()                 | `parseQuery rawQuery` (net/url `parseQuery`, errors ignored)
  url.Values.Get(name)                    | `qGet q name`        ("" when absent)
  c.params (route.Params, already         | `Params` association list; the values are what
    PathUnescape'd by Tree.Match)         |   `pathUnescapeOrRaw` made of the captured text
  Param / ParamInt / ParamInt64           | `param` / `paramInt` / `paramInt64`
  Query / QueryTrim / QueryStrings /      | `query` / `queryTrim` / `queryStrings` /
  QueryUnescape / QueryBool / QueryInt /  | `queryUnescapeAcc` / `queryBool` / `queryInt` /
  QueryInt64 / QueryFloat64               | `queryInt64` / `queryFloat64`
  SetCookie / Cookie                      | `setCookieHeader` / `cookie`
  strconv.Atoi / ParseInt / ParseUint     | `atoi` / `parseInt` / `parseUint` (value AND error class)
  strconv.ParseBool                       | `parseBool`
  strconv.ParseFloat(v, 64)               | a PARAMETER `pf : Bytes → UInt64` (value component as
                                          |   IEEE bits) — not modelled, see the trusted base
  strings.TrimSpace                       | `trimSpace`

  A variadic `defaultVal ...T` is an `Option T`: `none` = no default passed
  (`len(defaultVal) > 0` is `d.isSome`, `defaultVal[0]` is its content).

  Every definition below is a total function, so "reading request data never panics"
  holds for the model by construction; that the *real* accessors do not panic either is
  what the correspondence check observes (a panic is printed as a token and differs).
-/
import Flamego.Base.Codec
import Flamego.Gen.ConstFacts
namespace Flamego.Access

/-! ## THE rule (the property's one rule for every accessor) -/

/-- `raw` is the stored datum — a text (`Bytes = List UInt8`) or, for `QueryStrings`, the list of all
    the key's values: `none` = absent, `some v` = present.
    Present and non-empty → the converted value; absent or empty → the caller's default,
    or the zero value when none is given. -/
def accessRule {β α : Type} (raw : Option (List β)) (conv : List β → α) (dflt : Option α) (zero : α) : α :=
  match raw with
  | some v => if v.isEmpty then dflt.getD zero else conv v
  | none => dflt.getD zero

/-! ## strconv integers -/

/-- error class of a `*strconv.NumError` (`ok` = nil error) -/
inductive NumErr
  | ok | syntax | range
  deriving DecidableEq, Repr

def isDigit (c : UInt8) : Bool := 48 ≤ c && c ≤ 57

/-- `cutoff` of ParseUint for base 10: `maxUint64/10 + 1` -/
def uintCutoff : Nat := 1844674407370955162

/-- the digit loop of `strconv.ParseUint(s, 10, bitSize)`; `maxVal = 1<<bitSize - 1`.
    Go computes in uint64: `n >= cutoff` means `n*10` would wrap; otherwise `n1 = n*10 + d`
    wraps (`n1 < n`) exactly when the true sum exceeds `2^64-1 ≥ maxVal`, so over `Nat` both Go
    tests `n1 < n || n1 > maxVal` read `n*10 + d > maxVal`.  NOTE the early return: on overflow
    the rest of the text is never looked at, so `"99999999999999999999x"` is a *range* error
    with value `maxVal`, not a syntax error. Any non-digit (letters have digit value ≥ 10 = base,
    `_` is only special for base 0) is a syntax error with value 0. -/
def parseUintLoop (maxVal : Nat) : Nat → Bytes → Nat × NumErr
  | n, [] => (n, .ok)
  | n, c :: cs =>
    if isDigit c then
      let d := (c - 48).toNat
      if n ≥ uintCutoff then (maxVal, .range)
      else if n * 10 + d > maxVal then (maxVal, .range)
      else parseUintLoop maxVal (n * 10 + d) cs
    else (0, .syntax)

/-- `strconv.ParseUint(s, 10, bitSize)` for `1 ≤ bitSize ≤ 64` -/
def parseUint (bitSize : Nat) (s : Bytes) : Nat × NumErr :=
  if s = [] then (0, .syntax) else parseUintLoop (2 ^ bitSize - 1) 0 s

/-- leading sign of ParseInt: `(neg, rest)` -/
def splitSign : Bytes → Bool × Bytes
  | 43 :: r => (false, r)     -- '+'
  | 45 :: r => (true, r)      -- '-'
  | s => (false, s)

/-- `strconv.ParseInt(s, 10, bitSize)` (bitSize already resolved, 0 → IntSize): value and error
    class. A range error of ParseUint is NOT returned at once: the clamping tests below run on
    its `maxVal`, which always exceeds the signed cutoff. -/
def parseInt (bitSize : Nat) (s : Bytes) : Int × NumErr :=
  if s = [] then (0, .syntax) else
  let (neg, body) := splitSign s
  let (un, err) := parseUint bitSize body
  if err = .syntax then (0, .syntax) else
  let cutoff : Nat := 2 ^ (bitSize - 1)
  if !neg && un ≥ cutoff then ((cutoff : Int) - 1, .range)
  else if neg && un > cutoff then (-(cutoff : Int), .range)
  else (if neg then -(un : Int) else (un : Int), .ok)

/-- `strconv.IntSize` of the platform the harness runs on (checked at run time: the executor's
    `NEW` line prints it and the driver prints this constant). -/
def intSize : Nat := 64

/-- the `bitSize` argument as `strconv.ParseInt` resolves it: 0 stands for `IntSize` -/
def resolveBits (b : Nat) : Nat := if b = 0 then intSize else b

/-- the bit sizes the three typed accessors pass to `strconv.ParseInt`, read from context.go on every
    run (Gen/ConstFacts; documented: QueryInt 0, QueryInt64 64, ParamInt64 64; the base is 10 in all
    three, which is the only base `parseInt` models — Props/ConstFacts/C18 ties it) -/
def queryIntBits : Nat := resolveBits Gen.queryIntBitSize
def queryInt64Bits : Nat := resolveBits Gen.queryInt64BitSize
def paramInt64Bits : Nat := resolveBits Gen.paramInt64BitSize

/-- `strconv.Atoi`: a fast path for `0 < len < 19` (on 64-bit) that cannot overflow, else
    `ParseInt(s, 10, 0)` and `int(i64)` — which keeps the clamped value on a range error. -/
def atoi (s : Bytes) : Int × NumErr :=
  if 0 < s.length ∧ s.length < 19 then
    let (neg, body) := splitSign s          -- `if s[0] == '-' || s[0] == '+' { s = s[1:] }` … `if s0[0] == '-' { n = -n }`
    if body = [] then (0, .syntax)
    else if body.all isDigit then
      let n : Nat := body.foldl (fun n c => n * 10 + (c - 48).toNat) 0
      (if neg then -(n : Int) else (n : Int), .ok)
    else (0, .syntax)
  else parseInt intSize s

/-! ## strconv.ParseBool -/

/-- "1", "t", "T", "TRUE", "true", "True" -/
def trueSpellings : List Bytes :=
  [[49], [116], [84], [84, 82, 85, 69], [116, 114, 117, 101], [84, 114, 117, 101]]

/-- "0", "f", "F", "FALSE", "false", "False" -/
def falseSpellings : List Bytes :=
  [[48], [102], [70], [70, 65, 76, 83, 69], [102, 97, 108, 115, 101], [70, 97, 108, 115, 101]]

/-- `strconv.ParseBool` (a `switch` over the twelve accepted spellings): value and whether an error
    was returned -/
def parseBool (s : Bytes) : Bool × Bool :=
  if s ∈ trueSpellings then (true, false)
  else if s ∈ falseSpellings then (false, false)
  else (false, true)

/-! ## strings.TrimSpace -/

/-- The byte sequences that are one white-space rune (`unicode.IsSpace`) in UTF-8:
    `\t \n \v \f \r ' '`, U+0085, U+00A0, U+1680, U+2000–U+200A, U+2028, U+2029, U+202F, U+205F, U+3000.
    UTF-8 decoding is deterministic and these are the shortest forms, so "the first (last) rune
    decoded by utf8.DecodeRune (DecodeLastRune) is a space" is "one of these is a prefix (suffix)";
    an invalid byte decodes to U+FFFD, which is not a space. -/
def spaceSeqs : List Bytes :=
  [[9], [10], [11], [12], [13], [32], [0xC2, 0x85], [0xC2, 0xA0], [0xE1, 0x9A, 0x80],
   [0xE2, 0x80, 0x80], [0xE2, 0x80, 0x81], [0xE2, 0x80, 0x82], [0xE2, 0x80, 0x83], [0xE2, 0x80, 0x84],
   [0xE2, 0x80, 0x85], [0xE2, 0x80, 0x86], [0xE2, 0x80, 0x87], [0xE2, 0x80, 0x88], [0xE2, 0x80, 0x89],
   [0xE2, 0x80, 0x8A], [0xE2, 0x80, 0xA8], [0xE2, 0x80, 0xA9], [0xE2, 0x80, 0xAF], [0xE2, 0x81, 0x9F],
   [0xE3, 0x80, 0x80]]

/-- the rest after one leading sequence of `seqs`, if any -/
def stripOne (seqs : List Bytes) (s : Bytes) : Option Bytes :=
  seqs.findSome? fun p => if p.isPrefixOf s then some (s.drop p.length) else none

/-- strip leading sequences as long as there is one (`fuel` = length of the text suffices) -/
def trimLeftSeqs (seqs : List Bytes) : Nat → Bytes → Bytes
  | 0, s => s
  | fuel + 1, s => match stripOne seqs s with
    | some r => trimLeftSeqs seqs fuel r
    | none => s

/-- `strings.TrimSpace`: left first, then right (its ASCII fast path agrees with the rune path) -/
def trimSpace (s : Bytes) : Bytes :=
  let l := trimLeftSeqs spaceSeqs s.length s
  (trimLeftSeqs (spaceSeqs.map List.reverse) l.length l.reverse).reverse

/-! ## the query string -/

/-- net/url `parseQuery` with the error dropped (`URL.Query()`): pieces between `&`; a piece
    containing `;` is skipped, an empty one too; `key=value` cut at the first `=`; a piece whose
    key or value does not unescape is skipped.  Pairs in order of appearance. -/
def parseQuery (raw : Bytes) : List (Bytes × Bytes) :=
  (splitOn amp raw).filterMap fun piece =>
    if piece.contains semicolon then none
    else if piece.isEmpty then none
    else
      let (k, v) := cut eqSign piece
      match queryUnescape k with
      | none => none
      | some k' => match queryUnescape v with
        | none => none
        | some v' => some (k', v')

abbrev Query := List (Bytes × Bytes)

/-- the first value stored under `name`: `none` = the key is absent -/
def qLookup (q : Query) (name : Bytes) : Option Bytes :=
  (q.find? (fun kv => kv.1 == name)).map (·.2)

/-- `url.Values.Get` -/
def qGet (q : Query) (name : Bytes) : Bytes := (qLookup q name).getD []

/-- `url.Values[name]` — every value of the key, in order (`[]` iff absent) -/
def qValues (q : Query) (name : Bytes) : List Bytes :=
  (q.filter (fun kv => kv.1 == name)).map (·.2)

/-- every value of the key as one datum: `none` = the key is absent (a present key has ≥ 1 value) -/
def qAll (q : Query) (name : Bytes) : Option (List Bytes) :=
  if (qValues q name).isEmpty then none else some (qValues q name)

/-- context.go:276 `Query` -/
def query (q : Query) (name : Bytes) (d : Option Bytes) : Bytes :=
  let v := qGet q name
  match d with
  | some dv => if v = [] then dv else v
  | none => v

/-- context.go `QueryTrim`: `v := c.Query(name)`; the default is returned UNCHANGED when `v` is
    empty and one was given, otherwise `strings.TrimSpace(v)` -/
def queryTrim (q : Query) (name : Bytes) (d : Option Bytes) : Bytes :=
  let v := query q name none
  match d with
  | some dv => if v = [] then dv else trimSpace v
  | none => trimSpace v

/-- context.go:288 `QueryStrings`: the map is ranged over for the key; then the default, then `[]string{}` -/
def queryStrings (q : Query) (name : Bytes) (d : Option (List Bytes)) : List Bytes :=
  match qValues q name with
  | [] => d.getD []
  | vs => vs

/-- context.go `QueryUnescape`: `v := c.Query(name)`; the default is returned UNCHANGED when `v` is
    empty and one was given, otherwise `v, _ = url.QueryUnescape(v)` — "" when that fails -/
def queryUnescapeAcc (q : Query) (name : Bytes) (d : Option Bytes) : Bytes :=
  let v := query q name none
  match d with
  | some dv => if v = [] then dv else (queryUnescape v).getD []
  | none => (queryUnescape v).getD []

/-- context.go:306 `QueryBool` -/
def queryBool (q : Query) (name : Bytes) (d : Option Bool) : Bool :=
  let v := query q name none
  match d with
  | some dv => if v = [] then dv else (parseBool v).1
  | none => (parseBool v).1

/-- context.go:315 `QueryInt` = `i, _ := strconv.ParseInt(v, 10, 0); int(i)` -/
def queryInt (q : Query) (name : Bytes) (d : Option Int) : Int :=
  let v := query q name none
  match d with
  | some dv => if v = [] then dv else (parseInt queryIntBits v).1
  | none => (parseInt queryIntBits v).1

/-- context.go:325 `QueryInt64` -/
def queryInt64 (q : Query) (name : Bytes) (d : Option Int) : Int :=
  let v := query q name none
  match d with
  | some dv => if v = [] then dv else (parseInt queryInt64Bits v).1
  | none => (parseInt queryInt64Bits v).1

/-- context.go:335 `QueryFloat64`; `pf` = value component of `strconv.ParseFloat(·, 64)` as bits -/
def queryFloat64 (pf : Bytes → UInt64) (q : Query) (name : Bytes) (d : Option UInt64) : UInt64 :=
  let v := query q name none
  match d with
  | some dv => if v = [] then dv else pf v
  | none => pf v

/-! ## bind parameters -/

abbrev Params := List (Bytes × Bytes)

def pLookup (ps : Params) (name : Bytes) : Option Bytes :=
  (ps.find? (fun kv => kv.1 == name)).map (·.2)

/-- context.go:262 `Param` = `c.params[name]` -/
def param (ps : Params) (name : Bytes) : Bytes := (pLookup ps name).getD []

/-- context.go:266 `ParamInt` = `i, _ := strconv.Atoi(c.Param(name))` -/
def paramInt (ps : Params) (name : Bytes) : Int := (atoi (param ps name)).1

/-- context.go:271 `ParamInt64` = `v, _ := strconv.ParseInt(c.Param(name), 10, 64)` -/
def paramInt64 (ps : Params) (name : Bytes) : Int := (parseInt paramInt64Bits (param ps name)).1

/-! ## cookies -/

/-- context.go:345 `SetCookie(http.Cookie{Name: name, Value: v})`: the `Set-Cookie` header value -/
def setCookieHeader (name v : Bytes) : Bytes := cookieString name (queryEscape v)

/-- the client side of the round trip: a user agent stores the `name=value` part of a `Set-Cookie`
    header (everything before the first `;`, where the attributes start) and sends it back verbatim
    as the `Cookie` header -/
def clientEcho (setCookie : Bytes) : Bytes := (cut semicolon setCookie).1

/-- several `SetCookie` calls on ONE response: `Header().Add("Set-Cookie", …)` appends, so the response
    carries one `Set-Cookie` line per call, in call order -/
def setCookies (writes : List (Bytes × Bytes)) : List Bytes :=
  writes.map fun w => setCookieHeader w.1 w.2

/-- the user agent's cookie store processing one `Set-Cookie` line: an empty line is ignored; the cookie's
    name is what precedes the first `=`; a cookie of an EQUAL name replaces the stored one (RFC 6265 §5.3
    step 11 — the last one wins), any other name is a new entry -/
def jarPut (jar : List (Bytes × Bytes)) (line : Bytes) : List (Bytes × Bytes) :=
  let nv := clientEcho line
  if nv.isEmpty then jar else
  let name := (cut eqSign nv).1
  if jar.any (fun e => e.1 == name) then jar.map (fun e => if e.1 == name then (name, nv) else e)
  else jar ++ [(name, nv)]

def clientJar (setCookieLines : List Bytes) : List (Bytes × Bytes) := setCookieLines.foldl jarPut []

/-- `name=value` pairs joined with `"; "` -/
def joinCookies : List Bytes → Bytes
  | [] => []
  | [c] => c
  | c :: cs => c ++ semicolon :: space :: joinCookies cs

/-- the one `Cookie` header line the user agent sends on the next request -/
def clientCookieHeader (setCookieLines : List Bytes) : Bytes :=
  joinCookies ((clientJar setCookieLines).map (·.2))

/-- what `url.QueryUnescape` makes of a stored cookie value, the raw value when it fails -/
def unescapeOrRaw (v : Bytes) : Bytes := (queryUnescape v).getD v

/-- context.go:350 `Cookie(name)` over the request's `Cookie` header lines -/
def cookie (lines : List Bytes) (name : Bytes) : Bytes :=
  match requestCookie lines name with
  | none => []
  | some v => unescapeOrRaw v

/-! ### `RemoteAddr()` and the request body (context.go `RemoteAddr`, request.go `Body().Bytes()/String()`) -/

/-- `strings.LastIndex(s, ":")` — index of the last colon -/
def lastColon : Bytes → Option Nat
  | [] => none
  | c :: cs =>
    match lastColon cs with
    | some i => some (i + 1)
    | none => if c = 58 then some 0 else none

/-- context.go `RemoteAddr()`: the `X-Real-IP` header when non-empty, else `X-Forwarded-For` when non-empty (both as
    `Header.Get` returns them: the first value), else `Request.RemoteAddr` cut before its LAST colon (`addr[:i]`) -/
def remoteAddr (xRealIP xForwardedFor raddr : Bytes) : Bytes :=
  if xRealIP ≠ [] then xRealIP
  else if xForwardedFor ≠ [] then xForwardedFor
  else match lastColon raddr with
    | some i => raddr.take i
    | none => raddr

/-- request.go: `Body().Bytes()` is `io.ReadAll(r.Body)`, `String()` its conversion: the body as sent -/
def bodyBytes (body : Bytes) : Bytes := body

end Flamego.Access
