/-
  Model/Syntax.lean — the route AST of internal/route/definition.go and its rendering
  (`Segment.String()`, `Route.String()`).

  Go                                   | here
  -------------------------------------+-------------------------------------------
  BindParameterValue{Literal|Regex}    | `BindVal.lit s | BindVal.re s`
  BindParameter{Ident, Value}          | `BindParam`
  SegmentElement{Ident|BindIdent|BindParameters} | `Elem.ident | Elem.bind | Elem.params`
  Segment{Optional, Elements}          | `Segment`
  Route{Segments}                      | `Route`
-/
import Flamego.Base.Bytes
namespace Flamego

inductive BindVal
  | lit (s : Bytes)
  | re (s : Bytes)
  deriving DecidableEq, Repr, Inhabited

structure BindParam where
  ident : Bytes
  val : BindVal
  deriving DecidableEq, Repr, Inhabited

inductive Elem
  | ident (s : Bytes)
  | bind (name : Bytes)
  | params (ps : List BindParam)
  deriving DecidableEq, Repr, Inhabited

structure Segment where
  optional : Bool
  elems : List Elem
  deriving DecidableEq, Repr, Inhabited

structure Route where
  segs : List Segment
  deriving DecidableEq, Repr, Inhabited

/-- the bytes of an ASCII literal of the model (`"/"`, `": "`, `"route"` …). Defined through the
    characters so that the kernel evaluates it (`decide`, `rfl`); all literals in the model are ASCII,
    for which this is the UTF-8 encoding. -/
def B (s : String) : Bytes := s.toList.map fun c => c.toNat.toUInt8

def BindVal.render : BindVal → Bytes
  | .lit s => s
  | .re s => B "/" ++ s ++ B "/"

def BindParam.render (p : BindParam) : Bytes := p.ident ++ B ": " ++ p.val.render

/-- parameters joined by `", "` -/
def renderParams : List BindParam → Bytes
  | [] => []
  | [p] => p.render
  | p :: ps => p.render ++ B ", " ++ renderParams ps

def Elem.render : Elem → Bytes
  | .ident s => s
  | .bind n => B "{" ++ n ++ B "}"
  | .params [] => B "???"                     -- "should never happen, but just in case"
  | .params ps => B "{" ++ renderParams ps ++ B "}"

/-- `Segment.String()`: "/" ++ ("?" if optional) ++ elements -/
def Segment.render (s : Segment) : Bytes :=
  B "/" ++ (if s.optional then B "?" else []) ++ (s.elems.flatMap Elem.render)

/-- `Route.String()` -/
def Route.render (r : Route) : Bytes := r.segs.flatMap Segment.render

end Flamego
